(* DiagProofs.v: the diagnostics discipline of the parser model (Model/Parser.v) and the
   source positions recorded for the emitted code.

   A. Diagnostics.
      The model's errorAt does NOT look at panicMode: every call of a reporting primitive appends
      exactly one diagnostic, also in panic mode (error_at_ignores_panicMode, error_appends_one;
      the clox-style statement "silent while panicking" is false of the model, see
      error_not_silent_in_panic and cascade_in_one_statement).  What panic mode does in the model:
      it makes var_decl / bind_stmt / block_stmt return early after a failed consume, it makes
      block_loop skip a token, and at depth 0 it makes decl call sync.
      Proved here:
        - advance_loop_spec / advance_spec: what one advance does (one diagnostic per tERR token);
        - sync_spec: where sync stops and what it changes (sync_spec_clean: nothing but
          prev / cur_ / toks / st_tokens / hadLexFail when no tERR token is skipped);
        - step_ok: for every parser function the log only grows, hadError becomes true exactly
          when it grows, and panic mode is entered only by appending a diagnostic
          (decl_step_ok, top_loop_step_ok, parse_tokens_step_ok, statement_rejected_is_reported);
        - toplevel_statements_start_clean: on lexer output every toplevel statement is started
          with panicMode = false at depth 0 (so no statement is skipped silently because of a
          stale panic flag, and a later faulty statement gets its own diagnostic).
   B. Positions.
      code_positions_are_token_positions (0 or the position of a token),
      code_positions_are_token_positions_strict (ts <> []: the position of a token),
      prog_positions_are_token_positions / prog_positions_in_source (API level).
   C. positions_sorted: if the token positions are non-decreasing, so is the position table. *)
From Coq Require Import Lia ZifyN ZifyNat ZifyBool List Bool Sorted.
From RecordUpdate Require Import RecordSet.
From BCL Require Import Model.Api Proofs.ParserInvProofs Proofs.ParserTotal.
From BCL Require Proofs.CompileVerifies.
Import RecordSetNotations ListNotations.
Open Scope N_scope.

Ltac psimp := cbn [set toks prev cur_ hadError hadLexFail panicMode locals nlocals depth identRefs code
                   positions ncode consts nconsts log st_tokens st_localMax st_depthMax st_ops oof ppanic].

(* ================================================================== *)
(* A1 / A2. the reporting primitives                                   *)
(* ================================================================== *)

(* the diagnostic errorAt builds for token t *)
Definition mk_diag (t : token) (msg : bytes) : diag :=
  {| d_pos := tpos t;
     d_at := match ttyp t with tEOF => AtEnd | tERR | tFAIL => AtNone | _ => AtTok (tval t) end;
     d_msg := msg |}.

(* all fields except log / hadError / panicMode *)
Definition same_but_err (s s' : pst) : Prop :=
  toks s' = toks s /\ prev s' = prev s /\ cur_ s' = cur_ s /\ hadLexFail s' = hadLexFail s /\
  locals s' = locals s /\ nlocals s' = nlocals s /\ depth s' = depth s /\ identRefs s' = identRefs s /\
  code s' = code s /\ positions s' = positions s /\ ncode s' = ncode s /\ consts s' = consts s /\
  nconsts s' = nconsts s /\ st_tokens s' = st_tokens s /\ st_localMax s' = st_localMax s /\
  st_depthMax s' = st_depthMax s /\ st_ops s' = st_ops s /\ oof s' = oof s /\ ppanic s' = ppanic s.

(* A2 (in the form that is true of the model: no premise on panicMode) *)
Theorem error_at_spec : forall t m s,
  log (error_at t m s) = mk_diag t m :: log s /\
  panicMode (error_at t m s) = true /\ hadError (error_at t m s) = true /\
  same_but_err s (error_at t m s).
Proof. intros. repeat split. Qed.

(* A1 is false of the model: errorAt does not consult panicMode at all *)
Theorem error_at_ignores_panicMode : forall t m s b,
  error_at t m (s <| panicMode := b |>) = error_at t m s.
Proof. intros. reflexivity. Qed.

Example error_not_silent_in_panic :
  let s := init_pst [] <| panicMode := true |> in
  panicMode s = true /\ length (log (perr "x" s)) = 1%nat /\ length (log s) = 0%nat.
Proof. vm_compute. repeat split. Qed.

(* the five reporting functions: exactly one diagnostic each, whatever the mode *)
Theorem error_appends_one : forall s,
  (forall t m, exists d, log (error_at t m s) = d :: log s /\ d_pos d = tpos t /\ d_msg d = m /\
     panicMode (error_at t m s) = true /\ hadError (error_at t m s) = true) /\
  (forall m, exists d, log (perror m s) = d :: log s /\ d_pos d = tpos (prev s) /\ d_msg d = m /\
     panicMode (perror m s) = true /\ hadError (perror m s) = true) /\
  (forall m, exists d, log (error_at_current m s) = d :: log s /\ d_pos d = tpos (cur_ s) /\ d_msg d = m /\
     panicMode (error_at_current m s) = true /\ hadError (error_at_current m s) = true) /\
  (forall m, exists d, log (perr m s) = d :: log s /\ d_pos d = tpos (prev s) /\ d_msg d = bs m /\
     panicMode (perr m s) = true /\ hadError (perr m s) = true) /\
  (forall m, exists d, log (perrc m s) = d :: log s /\ d_pos d = tpos (cur_ s) /\ d_msg d = bs m /\
     panicMode (perrc m s) = true /\ hadError (perrc m s) = true).
Proof.
  intros s. repeat split; intros; eexists; repeat split.
Qed.
Print Assumptions error_appends_one.

(* ================================================================== *)
(* A2'. advance: one diagnostic per tERR token received                *)
(* ================================================================== *)

Definition isERR (t : token) : bool := tok_eqb (ttyp t) tERR.
Definition isFAIL (t : token) : bool := tok_eqb (ttyp t) tFAIL.
Definition notERRb (t : token) : bool := negb (isERR t).
Definition lex_diag (t : token) : diag :=
  {| d_pos := tpos t; d_at := AtNone; d_msg := lexerr_msg (terr t) |}.
Definition is_nil {A} (l : list A) : bool := match l with [] => true | _ => false end.

(* the fields no token-level operation touches *)
Definition EF (s s' : pst) : Prop :=
  locals s' = locals s /\ nlocals s' = nlocals s /\ depth s' = depth s /\ identRefs s' = identRefs s /\
  code s' = code s /\ positions s' = positions s /\ ncode s' = ncode s /\ consts s' = consts s /\
  nconsts s' = nconsts s /\ st_localMax s' = st_localMax s /\ st_depthMax s' = st_depthMax s /\
  st_ops s' = st_ops s /\ oof s' = oof s /\ ppanic s' = ppanic s.

Lemma EF_refl : forall s, EF s s.
Proof. intros. repeat split. Qed.
Lemma EF_trans : forall a b c, EF a b -> EF b c -> EF a c.
Proof. unfold EF. intros a b c H1 H2. intuition congruence. Qed.

Lemma isERR_ttyp : forall t, isERR t = true -> ttyp t = tERR.
Proof. intros t H. apply tok_eqb_eq. exact H. Qed.
Lemma isend_notERR : forall t, isend t = true -> isERR t = false.
Proof. intros t H. unfold isend, isERR, tok_eqb in *. change (tok_num tERR) with 2. lia. Qed.
Lemma isERR_notFAIL : forall t, isERR t = true -> isFAIL t = false.
Proof. intros t H. apply isERR_ttyp in H. unfold isFAIL. rewrite H. reflexivity. Qed.

Lemma advance_loop_spec : forall errs t rest s,
  Forall (fun e => isERR e = true) errs -> isERR t = false ->
  let s' := advance_loop (errs ++ t :: rest) s in
  toks s' = rest /\ cur_ s' = t /\ prev s' = prev s /\
  log s' = rev (map lex_diag errs) ++ log s /\
  panicMode s' = panicMode s || existsb isERR errs /\
  hadError s' = hadError s || existsb isERR errs /\
  hadLexFail s' = hadLexFail s || isFAIL t /\
  st_tokens s' = st_tokens s + N.of_nat (S (length errs)) /\ EF s s'.
Proof.
  induction errs as [|e errs IH]; intros t rest s F Ht; cbv zeta.
  - cbn [app]. rewrite advance_loop_cons. unfold isERR in Ht. rewrite Ht.
    unfold adv_tok, isFAIL. cbv zeta. destruct (tok_eqb (ttyp t) tFAIL); psimp;
      cbn [map rev app existsb length]; rewrite ?orb_false_r, ?orb_true_r;
      repeat split; lia.
  - inversion F as [|e' errs' He Fe]; subst. cbn [app]. rewrite advance_loop_cons.
    pose proof He as He'. unfold isERR in He'. rewrite He'.
    pose proof (isERR_ttyp _ He) as Et. pose proof (isERR_notFAIL _ He) as Ef. unfold isFAIL in Ef.
    set (s1 := error_at_current (lexerr_msg (terr e)) (adv_tok e s)).
    assert (S1 : prev s1 = prev s /\ log s1 = lex_diag e :: log s /\ panicMode s1 = true /\
                 hadError s1 = true /\ hadLexFail s1 = hadLexFail s /\
                 st_tokens s1 = st_tokens s + 1 /\ EF s s1).
    { unfold s1, error_at_current, error_at, adv_tok. cbv zeta. rewrite Ef. psimp. rewrite Et.
      repeat split. }
    destruct S1 as (P1 & P2 & P3 & P4 & P5 & P6 & P7).
    destruct (IH t rest s1 Fe Ht) as (I1 & I2 & I3 & I4 & I5 & I6 & I7 & I8 & I9). cbv zeta in *.
    rewrite I1, I2, I3, I4, I5, I6, I7, I8, P1, P2, P3, P4, P5, P6.
    cbn [map rev existsb length]. rewrite He. rewrite <- app_assoc. cbn [app orb].
    rewrite !orb_true_r. pose proof (EF_trans _ _ _ P7 I9) as EE.
    repeat split; try lia; apply EE.
Qed.

Lemma split_errs : forall (ts : list token) d, ts <> [] -> isERR (last ts d) = false ->
  exists errs t rest, ts = errs ++ t :: rest /\ Forall (fun e => isERR e = true) errs /\ isERR t = false.
Proof.
  induction ts as [|x ts IH]; intros d Hne Hl; [congruence|].
  destruct (isERR x) eqn:Ex.
  - destruct ts as [|y ts]; [cbn [last] in Hl; congruence|].
    rewrite last_cons in Hl. destruct (IH x ltac:(discriminate) Hl) as (errs & t & rest & E & F & Ht).
    exists (x :: errs), t, rest. rewrite E. repeat split; [constructor; assumption|exact Ht].
  - exists [], x, ts. repeat split; [constructor|exact Ex].
Qed.

(* advance, under J (the last token to come is tEOF / tFAIL), when something is still to come *)
Theorem advance_spec : forall s, J s -> toks s <> [] ->
  exists errs t rest,
    toks s = errs ++ t :: rest /\ Forall (fun e => isERR e = true) errs /\ isERR t = false /\
    toks (advance s) = rest /\ cur_ (advance s) = t /\ prev (advance s) = cur_ s /\
    log (advance s) = rev (map lex_diag errs) ++ log s /\
    panicMode (advance s) = panicMode s || existsb isERR errs /\
    hadError (advance s) = hadError s || existsb isERR errs /\
    hadLexFail (advance s) = hadLexFail s || isFAIL t /\
    st_tokens (advance s) = st_tokens s + N.of_nat (S (length errs)) /\ EF s (advance s).
Proof.
  intros s HJ Hne. unfold J in HJ.
  destruct (split_errs (toks s) (cur_ s) Hne (isend_notERR _ HJ)) as (errs & t & rest & E & F & Ht).
  exists errs, t, rest. unfold advance.
  split; [exact E|]. split; [exact F|]. split; [exact Ht|]. rewrite E.
  destruct (advance_loop_spec errs t rest (s <| prev := cur_ s |>) F Ht)
    as (I1 & I2 & I3 & I4 & I5 & I6 & I7 & I8 & I9). cbv zeta in *.
  repeat split; try assumption; apply I9.
Qed.
Print Assumptions advance_spec.

(* with nothing to come, advance only copies cur_ to prev *)
Lemma advance_loop_RF : forall ts s, RF s (advance_loop ts s).
Proof.
  induction ts as [|t r IH]; intros s.
  - rewrite advance_loop_nil. apply RF_set_toks.
  - rewrite advance_loop_cons. destruct (tok_eqb (ttyp t) tERR).
    + eapply RF_trans; [apply RF_adv_tok|]. eapply RF_trans; [apply RF_error_at|apply IH].
    + eapply RF_trans; [apply RF_adv_tok|apply RF_set_toks].
Qed.
(* oof, ppanic, depth, locals, nlocals: unchanged by advance, in every state *)
Lemma advance_RF : forall s, RF s (advance s).
Proof. intros s. unfold advance. eapply RF_trans; [apply RF_set_prev|apply advance_loop_RF]. Qed.

Lemma advance_nil : forall s, toks s = [] -> advance s = s <| prev := cur_ s |> <| toks := [] |>.
Proof. intros s H. unfold advance. rewrite H. reflexivity. Qed.

(* ================================================================== *)
(* A3. sync                                                            *)
(* ================================================================== *)

(* the tokens sync stops at: tEOF / tFAIL, or a statement keyword *)
Definition sync_stop (t : token) : bool :=
  isend t || match ttyp t with tVAR | tDEF | tPRINT | tEVAL => true | _ => false end.

Lemma sync_loop_S : forall f s,
  sync_loop (S f) s = if sync_stop (cur_ s) then s else sync_loop f (advance s).
Proof.
  intros f s. cbn [sync_loop]. unfold sync_stop. change (check_end s) with (isend (cur_ s)).
  destruct (isend (cur_ s)); cbn [orb]; [reflexivity|]. destruct (ttyp (cur_ s)); reflexivity.
Qed.

Lemma isERR_not_stop : forall t, isERR t = true -> sync_stop t = false.
Proof.
  intros t H. unfold sync_stop. destruct (isend t) eqn:E.
  - apply isend_notERR in E. congruence.
  - apply isERR_ttyp in H. rewrite H. reflexivity.
Qed.
Lemma not_stop_not_end : forall t, sync_stop t = false -> isend t = false.
Proof. intros t H. unfold sync_stop in H. apply orb_false_elim in H. apply H. Qed.
Lemma not_stop_notFAIL : forall t, sync_stop t = false -> isFAIL t = false.
Proof.
  intros t H. apply not_stop_not_end in H. unfold isend, isFAIL, tok_eqb in *.
  change (tok_num tFAIL) with 0. lia.
Qed.

(* the state s' reached from s: the tokens `skipped` were passed over (the first of them is the
   old cur_), t is the new cur_, rest the new toks; pm0 = panic mode at the start of the loop *)
Definition sync_rel (pm0 : bool) (s s' : pst) (skipped : list token) (t : token) (rest : list token) : Prop :=
  cur_ s :: toks s = skipped ++ t :: rest /\
  Forall (fun x => sync_stop x = false) skipped /\ sync_stop t = true /\
  cur_ s' = t /\ toks s' = rest /\
  prev s' = match skipped with [] => prev s | c :: sk => last (filter notERRb sk) c end /\
  log s' = rev (map lex_diag (filter isERR (tl skipped))) ++ log s /\
  panicMode s' = pm0 || existsb isERR (tl skipped) /\
  hadError s' = hadError s || existsb isERR (tl skipped) /\
  hadLexFail s' = hadLexFail s || (negb (is_nil skipped) && isFAIL t) /\
  st_tokens s' = st_tokens s + N.of_nat (length skipped) /\
  EF s s'.

Lemma filter_errs_all : forall errs, Forall (fun e => isERR e = true) errs ->
  filter isERR errs = errs /\ filter notERRb errs = [].
Proof.
  induction errs as [|e errs IH]; intros F; [split; reflexivity|].
  inversion F as [|e' errs' He Fe]; subst. destruct (IH Fe) as [A B].
  cbn [filter]. unfold notERRb. rewrite He. cbn [negb]. rewrite A. split; [reflexivity|exact B].
Qed.

Lemma sync_loop_spec : forall f s, J s -> (len s + 1 <= f)%nat ->
  exists skipped t rest, sync_rel (panicMode s) s (sync_loop f s) skipped t rest.
Proof.
  induction f as [|f IH]; intros s HJ Hf; [lia|]. rewrite sync_loop_S.
  destruct (sync_stop (cur_ s)) eqn:Es.
  - exists [], (cur_ s), (toks s). unfold sync_rel.
    cbn [app tl filter map rev existsb is_nil negb andb length].
    rewrite !orb_false_r. repeat split; try reflexivity; [constructor|exact Es|lia].
  - pose proof (not_stop_not_end _ Es) as Ee.
    pose proof (J_toks s HJ Ee) as Hne. pose proof (J_len s HJ Ee) as L1.
    destruct (advance_tot s HJ) as (A1 & A2 & _).
    destruct (advance_spec s HJ Hne) as (errs & t1 & rest1 & E & F & Ht1 & B1 & B2 & B3 & B4 & B5 & B6 & B7 & B8 & B9).
    destruct (IH (advance s) (SE_J _ _ A1) ltac:(lia)) as (sk1 & t & rest & R).
    revert R. generalize (sync_loop f (advance s)). intros s'.
    intros (R1 & R2 & R3 & R4 & R5 & R6 & R7 & R8 & R9 & R10 & R11 & R12).
    rewrite B1, B2 in R1.
    destruct (filter_errs_all errs F) as [FE FN].
    (* the head of sk1, if any, is t1 and is no tERR *)
    assert (Hsk : filter isERR sk1 = filter isERR (tl sk1) /\ existsb isERR sk1 = existsb isERR (tl sk1) /\
                  (sk1 = [] /\ t = t1 \/ exists sk, sk1 = t1 :: sk)).
    { destruct sk1 as [|c sk]; [repeat split; left; split; [reflexivity|]; cbn [app] in R1; congruence|].
      cbn [app] in R1. injection R1 as <- R1. cbn [filter existsb tl]. rewrite Ht1. cbn [orb].
      repeat split. right. exists sk. reflexivity. }
    destruct Hsk as (K1 & K2 & K3).
    exists (cur_ s :: errs ++ sk1), t, rest. unfold sync_rel. cbn [tl].
    rewrite !filter_app, existsb_app, FE, FN, K1, K2.
    split; [rewrite E; cbn [app]; rewrite <- app_assoc; f_equal; f_equal; exact R1|].
    split.
    { constructor; [exact Es|]. apply Forall_app. split; [|exact R2].
      eapply Forall_impl; [|exact F]. apply isERR_not_stop. }
    split; [exact R3|]. split; [exact R4|]. split; [exact R5|].
    split.
    { rewrite R6. cbn [app]. destruct K3 as [[-> _]|[sk ->]].
      - cbn [filter last]. exact B3.
      - cbn [filter]. unfold notERRb at 2. rewrite Ht1. cbn [negb]. rewrite last_cons. reflexivity. }
    split; [rewrite R7, B4, map_app, rev_app_distr, <- app_assoc; reflexivity|].
    split; [rewrite R8, B5, orb_assoc; reflexivity|].
    split; [rewrite R9, B6, orb_assoc; reflexivity|].
    split.
    { rewrite R10, B7. cbn [is_nil negb andb]. destruct K3 as [[-> ->]|[sk ->]].
      - cbn [is_nil negb andb]. rewrite orb_false_r. reflexivity.
      - cbn [is_nil negb andb].
        assert (N1 : isFAIL t1 = false).
        { apply not_stop_notFAIL. inversion R2; assumption. }
        rewrite N1, orb_false_r. reflexivity. }
    split; [rewrite R11, B8; cbn [length]; rewrite app_length; lia|].
    eapply EF_trans; eassumption.
Qed.

(* A3.  sync looks at the CURRENT token first (not at the one after prev): it stops at the first
   token t of cur_ :: toks that is tEOF / tFAIL or one of tVAR tDEF tPRINT tEVAL.  The tokens before
   t are skipped; the only effects besides prev / cur_ / toks / st_tokens / hadLexFail come from
   tERR tokens among those received on the way: each is reported (one diagnostic, hadError,
   panic mode entered again).  J s: the last token to come is tEOF / tFAIL; the fuel bound is the
   one decl supplies. *)
Theorem sync_spec : forall f s, J s -> (len s + 1 <= f)%nat ->
  exists skipped t rest, sync_rel false s (sync f s) skipped t rest.
Proof.
  intros f s HJ Hf. unfold sync.
  (* (the state is named first: passing HJ directly would let unification pick the Setter instance) *)
  pose proof (sync_loop_spec f (s <| panicMode := false |>)) as H.
  destruct H as (sk & t & rest & R); [exact HJ|exact Hf|].
  exists sk, t, rest. exact R.
Qed.
Print Assumptions sync_spec.

Lemma no_err_filter : forall l, Forall (fun x => isERR x = false) l ->
  filter isERR l = [] /\ existsb isERR l = false /\ filter notERRb l = l.
Proof.
  induction l as [|x l IH]; intros F; [repeat split|].
  inversion F as [|x' l' Hx Fl]; subst. destruct (IH Fl) as (A & B & C).
  cbn [filter existsb]. unfold notERRb in *. rewrite Hx. cbn [negb orb]. rewrite A, B, C. repeat split.
Qed.

(* the ordinary case: no tERR among the tokens received on the way *)
Corollary sync_spec_clean : forall f s, J s -> (len s + 1 <= f)%nat ->
  exists skipped t rest,
    cur_ s :: toks s = skipped ++ t :: rest /\
    Forall (fun x => sync_stop x = false) skipped /\ sync_stop t = true /\
    cur_ (sync f s) = t /\ toks (sync f s) = rest /\
    (Forall (fun x => isERR x = false) (tl skipped) ->
       panicMode (sync f s) = false /\ log (sync f s) = log s /\ hadError (sync f s) = hadError s /\
       prev (sync f s) = last skipped (prev s)) /\
    st_tokens (sync f s) = st_tokens s + N.of_nat (length skipped) /\
    EF s (sync f s).
Proof.
  intros f s HJ Hf.
  destruct (sync_spec f s HJ Hf) as (sk & t & rest & R1 & R2 & R3 & R4 & R5 & R6 & R7 & R8 & R9 & R10 & R11 & R12).
  exists sk, t, rest.
  split; [exact R1|]. split; [exact R2|]. split; [exact R3|]. split; [exact R4|]. split; [exact R5|].
  split; [|split; [exact R11|exact R12]].
  intros H. destruct (no_err_filter _ H) as (A & B & _). repeat split.
  - rewrite R8, B. reflexivity.
  - rewrite R7, A. reflexivity.
  - rewrite R9, B, orb_false_r. reflexivity.
  - rewrite R6. destruct sk as [|c sk]; [reflexivity|]. cbn [tl] in H.
    destruct (no_err_filter _ H) as (_ & _ & C). rewrite C, last_cons. reflexivity.
Qed.

(* non-vacuity of sync_spec: a statement error in the middle; sync skips `1 + ;` and `2`, `;` up to
   the next `print` and the parser reports the second faulty statement separately *)
Example two_statements_two_diagnostics :
  map (fun d => (d_pos d, d_msg d)) (pr_diags (parse_whole (bs "f") (bs "1 + ; 2; print ; print 3;"))) =
    [(1, bs "expected statement"); (16, bs "expected expression")].
Proof. vm_compute. reflexivity. Qed.

(* ================================================================== *)
(* A5 / A4. what every parser function does to log, hadError, panicMode *)
(* ================================================================== *)

(* from a to b: the log only grew; hadError is the old value or the log grew; panic mode is on
   at b only if it was on at a or the log grew *)
Definition step_ok (a b : pst) : Prop :=
  exists extra, log b = extra ++ log a /\
    hadError b = hadError a || negb (is_nil extra) /\
    (panicMode b = true -> panicMode a = true \/ extra <> []).

(* a step that does not report *)
Definition quiet (a b : pst) : Prop :=
  log b = log a /\ hadError b = hadError a /\ (panicMode b = true -> panicMode a = true).

Lemma step_ok_refl : forall s, step_ok s s.
Proof. intros s. exists []. rewrite orb_false_r. repeat split. intros H. left. exact H. Qed.

Lemma step_ok_trans : forall a b c, step_ok a b -> step_ok b c -> step_ok a c.
Proof.
  intros a b c (e1 & L1 & H1 & P1) (e2 & L2 & H2 & P2). exists (e2 ++ e1).
  split; [rewrite L2, L1, app_assoc; reflexivity|]. split.
  - rewrite H2, H1. destruct e2, e1; cbn [app is_nil negb]; rewrite ?orb_false_r, ?orb_true_r; reflexivity.
  - intros H. destruct (P2 H) as [H'|H'].
    + destruct (P1 H') as [H''|H'']; [left; exact H''|right]. destruct e2, e1; cbn [app]; congruence.
    + right. destruct e2; [congruence|discriminate].
Qed.

Lemma quiet_step_ok : forall a b, quiet a b -> step_ok a b.
Proof.
  intros a b (L & H & P). exists []. rewrite orb_false_r. repeat split; try assumption.
  intros Hp. left. apply P. exact Hp.
Qed.

Lemma step_ok_error_at : forall t m s, step_ok s (error_at t m s).
Proof.
  intros. exists [mk_diag t m]. split; [reflexivity|]. split.
  - cbn [is_nil negb]. rewrite orb_true_r. reflexivity.
  - intros _. right. discriminate.
Qed.

Lemma quiet_adv_tok : forall t s, quiet s (adv_tok t s).
Proof.
  intros. unfold adv_tok. cbv zeta. destruct (tok_eqb (ttyp t) tFAIL); repeat split; intros H; exact H.
Qed.

Lemma step_ok_advance_loop : forall ts s, step_ok s (advance_loop ts s).
Proof.
  induction ts as [|t r IH]; intros s.
  - rewrite advance_loop_nil. apply quiet_step_ok. repeat split. intros H; exact H.
  - rewrite advance_loop_cons. destruct (tok_eqb (ttyp t) tERR).
    + eapply step_ok_trans; [apply quiet_step_ok, quiet_adv_tok|].
      eapply step_ok_trans; [apply step_ok_error_at|apply IH].
    + eapply step_ok_trans; [apply quiet_step_ok, quiet_adv_tok|].
      apply quiet_step_ok. repeat split. intros H; exact H.
Qed.

Lemma step_ok_advance : forall s, step_ok s (advance s).
Proof.
  intros s. unfold advance. eapply step_ok_trans; [|apply step_ok_advance_loop].
  apply quiet_step_ok. repeat split. intros H; exact H.
Qed.

Ltac quiet_tac := apply quiet_step_ok; split; [reflexivity|split; [reflexivity|intros HQ; exact HQ]].

Section StepOk.
Variable a : pst.

Lemma Sp_then : forall s s', step_ok s s' -> step_ok a s -> step_ok a s'.
Proof. intros s s' H1 H2. eapply step_ok_trans; eassumption. Qed.

Lemma Sp_advance : forall s, step_ok a s -> step_ok a (advance s).
Proof. intros s. apply Sp_then, step_ok_advance. Qed.
Lemma Sp_perror : forall m s, step_ok a s -> step_ok a (perror m s).
Proof. intros m s. apply Sp_then, step_ok_error_at. Qed.
Lemma Sp_errc : forall m s, step_ok a s -> step_ok a (error_at_current m s).
Proof. intros m s. apply Sp_then, step_ok_error_at. Qed.
Lemma Sp_write : forall b s, step_ok a s -> step_ok a (write b s).
Proof. intros b s. apply Sp_then. quiet_tac. Qed.
Lemma Sp_emit_op : forall o s, step_ok a s -> step_ok a (emit_op o s).
Proof. intros o s. apply Sp_then. quiet_tac. Qed.
Lemma Sp_add_const : forall v s, True -> step_ok a s -> step_ok a (snd (add_const v s)).
Proof. intros v s _. apply Sp_then. quiet_tac. Qed.
Lemma Sp_identRefs : forall x s, step_ok a s -> step_ok a (s <| identRefs := x |>).
Proof. intros x s. apply Sp_then. quiet_tac. Qed.
Lemma Sp_patch : forall k x y s, step_ok a s ->
  step_ok a (s <| code := set_nth (set_nth (code s) k x) (S k) y |>).
Proof. intros k x y s. apply Sp_then. quiet_tac. Qed.
Lemma Sp_begin_scope : forall s, step_ok a s -> step_ok a (begin_scope s).
Proof. intros s. apply Sp_then. quiet_tac. Qed.
Lemma Sp_scope_upd : forall d ls n s, step_ok a s ->
  step_ok a (s <| depth := d |> <| locals := ls |> <| nlocals := n |>).
Proof. intros d ls n s. apply Sp_then. quiet_tac. Qed.
Lemma Sp_add_local_upd : forall l n m s, step_ok a s ->
  step_ok a (s <| locals := l |> <| nlocals := n |> <| st_localMax := m |>).
Proof. intros l n m s. apply Sp_then. quiet_tac. Qed.
Lemma Sp_locals : forall l s, step_ok a s -> step_ok a (s <| locals := l |>).
Proof. intros l s. apply Sp_then. quiet_tac. Qed.
Lemma Sp_ppanic : forall s, step_ok a s -> step_ok a (s <| ppanic := true |>).
Proof. intros s. apply Sp_then. quiet_tac. Qed.
Lemma Sp_oof : forall s, step_ok a s -> step_ok a (mark_oof s).
Proof. intros s. apply Sp_then. quiet_tac. Qed.
Lemma Sp_panicMode : forall s, step_ok a s -> step_ok a (s <| panicMode := false |>).
Proof.
  intros s. apply Sp_then. apply quiet_step_ok. split; [reflexivity|split; [reflexivity|]].
  intros H. discriminate H.
Qed.

Ltac by_pres L :=
  intros;
  first [eapply (L (step_ok a) (fun _ => True) (fun _ => True))
        | eapply (L (step_ok a) (fun _ => True))
        | eapply (L (step_ok a))];
  eauto using Sp_advance, Sp_perror, Sp_errc, Sp_write, Sp_emit_op, Sp_add_const, Sp_identRefs,
    Sp_patch, Sp_begin_scope, Sp_scope_upd, Sp_add_local_upd, Sp_locals, Sp_ppanic, Sp_oof, Sp_panicMode.

Lemma Sp_perrc : forall m s, step_ok a s -> step_ok a (perrc m s).
Proof. by_pres perrc_pres. Qed.
Lemma Sp_pmatch : forall t s, step_ok a s -> step_ok a (snd (pmatch t s)).
Proof. by_pres pmatch_pres. Qed.
Lemma Sp_sync : forall f s, step_ok a s -> step_ok a (sync f s).
Proof. by_pres sync_pres. Qed.
Lemma Sp_expr : forall f s, step_ok a s -> step_ok a (expr f s).
Proof. by_pres expr_pres. Qed.
Lemma Sp_var_decl : forall f s, step_ok a s -> step_ok a (var_decl f s).
Proof. by_pres var_decl_pres. Qed.
Lemma Sp_bind_stmt : forall s, step_ok a s -> step_ok a (bind_stmt s).
Proof. by_pres bind_stmt_pres. Qed.
Lemma Sp_block_stmt : forall f s, step_ok a s -> step_ok a (block_stmt f s).
Proof. by_pres block_stmt_pres. Qed.
Lemma Sp_block_loop : forall f s, step_ok a s -> step_ok a (block_loop f s).
Proof. by_pres block_loop_pres. Qed.
Lemma Sp_decl : forall f s, step_ok a s -> step_ok a (decl f s).
Proof. by_pres decl_pres. Qed.
Lemma Sp_top_loop : forall f s, step_ok a s -> step_ok a (top_loop f s).
Proof. by_pres top_loop_pres. Qed.
Lemma Sp_parse_tokens : forall ts, step_ok a (init_pst ts) -> step_ok a (parse_tokens ts).
Proof. by_pres parse_tokens_pres. Qed.
End StepOk.

(* the statement proper and the recovery (ParserTotal.decl_S2: decl (S f) s = decl_finish f (decl_core f s)) *)
Lemma decl_core_pres : forall (P : pst -> Prop),
  (forall s, P s -> P (advance s)) -> (forall f s, P s -> P (var_decl f s)) ->
  (forall f s, P s -> P (expr f s)) -> (forall o s, P s -> P (emit_op o s)) ->
  (forall f s, P s -> P (block_stmt f s)) -> (forall s, P s -> P (bind_stmt s)) ->
  (forall m s, P s -> P (perrc m s)) ->
  forall f s, P s -> P (decl_core f s).
Proof.
  intros P H1 H2 H3 H4 H5 H6 H7 f s H. unfold decl_core.
  destruct (check tVAR s); [auto|]. destruct (check tPRINT s); [auto|].
  destruct (check tEVAL s); [auto|]. destruct (check tDEF s); [auto|].
  destruct (check tBIND s); [auto|]. destruct (0 <? depth s)%Z; auto.
Qed.

Lemma decl_core_step_ok : forall f s, step_ok s (decl_core f s).
Proof.
  intros f s. apply (decl_core_pres (step_ok s));
    auto using Sp_advance, Sp_var_decl, Sp_expr, Sp_emit_op, Sp_block_stmt, Sp_bind_stmt, Sp_perrc, step_ok_refl.
Qed.

(* ---- the statements ---- *)

Theorem advance_step_ok : forall s, step_ok s (advance s).
Proof. exact step_ok_advance. Qed.
Theorem sync_step_ok : forall f s, step_ok s (sync f s).
Proof. intros f s. apply Sp_sync, step_ok_refl. Qed.
Theorem expr_step_ok : forall f s, step_ok s (expr f s).
Proof. intros f s. apply Sp_expr, step_ok_refl. Qed.
Theorem block_stmt_step_ok : forall f s, step_ok s (block_stmt f s).
Proof. intros f s. apply Sp_block_stmt, step_ok_refl. Qed.
Theorem decl_step_ok : forall f s, step_ok s (decl f s).
Proof. intros f s. apply Sp_decl, step_ok_refl. Qed.
Theorem top_loop_step_ok : forall f s, step_ok s (top_loop f s).
Proof. intros f s. apply Sp_top_loop, step_ok_refl. Qed.
Theorem parse_tokens_step_ok : forall ts, step_ok (init_pst ts) (parse_tokens ts).
Proof. intros ts. apply Sp_parse_tokens, step_ok_refl. Qed.
Print Assumptions decl_step_ok.
Print Assumptions parse_tokens_step_ok.

(* readings of step_ok *)
Lemma step_ok_log_extends : forall a b, step_ok a b -> exists extra, log b = extra ++ log a.
Proof. intros a b (e & L & _). exists e. exact L. Qed.

(* A5: hadError becomes true exactly when a diagnostic is appended *)
Lemma step_ok_hadError : forall a b, step_ok a b ->
  hadError b = hadError a || (length (log a) <? length (log b))%nat.
Proof.
  intros a b (e & L & H & _). rewrite H, L, app_length. f_equal.
  destruct e; cbn [is_nil negb length].
  - symmetry. apply Nat.ltb_ge. lia.
  - symmetry. apply Nat.ltb_lt. lia.
Qed.

(* panic mode is entered only by appending a diagnostic *)
Lemma step_ok_panic_entered : forall a b, step_ok a b -> panicMode a = false -> panicMode b = true ->
  (length (log a) < length (log b))%nat /\ hadError b = true.
Proof.
  intros a b (e & L & H & P) Ha Hb. destruct (P Hb) as [P'|P']; [congruence|].
  rewrite H, L, app_length. destruct e; [congruence|]. cbn [is_nil negb length]. rewrite orb_true_r.
  split; [lia|reflexivity].
Qed.

Theorem diag_iff_error_each_step : forall f s,
  hadError (decl f s) = hadError s || (length (log s) <? length (log (decl f s)))%nat /\
  (exists extra, log (decl f s) = extra ++ log s).
Proof.
  intros f s. split; [apply step_ok_hadError|apply step_ok_log_extends]; apply decl_step_ok.
Qed.

(* C17_error_iff_log is the instance for the whole parse *)
Corollary error_iff_log_again : forall ts,
  hadError (parse_tokens ts) = negb (is_nil (log (parse_tokens ts))).
Proof.
  intros ts. destruct (parse_tokens_step_ok ts) as (e & L & H & _).
  change (log (init_pst ts)) with (@nil diag) in L. change (hadError (init_pst ts)) with false in H.
  rewrite app_nil_r in L. rewrite H, L. reflexivity.
Qed.

(* "the parser reports what it rejects", per statement: a statement started outside panic mode
   that ends in panic mode (before recovery) has appended a diagnostic, and the parse fails *)
Theorem statement_rejected_is_reported : forall f s,
  panicMode s = false -> panicMode (decl_core f s) = true ->
  (length (log s) < length (log (decl_core f s)))%nat /\
  (length (log s) < length (log (decl (S f) s)))%nat /\ hadError (decl (S f) s) = true.
Proof.
  intros f s H0 H1.
  destruct (step_ok_panic_entered _ _ (decl_core_step_ok f s) H0 H1) as [A B].
  split; [exact A|]. rewrite decl_S2.
  assert (S2 : step_ok (decl_core f s) (decl_finish f (decl_core f s))).
  { unfold decl_finish. destruct (_ && _); [apply sync_step_ok|apply step_ok_refl]. }
  destruct S2 as (e & L & H & _). rewrite L, H, B, app_length. split; [lia|reflexivity].
Qed.
Print Assumptions statement_rejected_is_reported.

(* A4 as asked for is false of the model: one statement, many diagnostics (no silencing) *)
Example cascade_in_one_statement :
  length (pr_diags (parse_whole (bs "f") (bs "print ((((;"))) = 5%nat /\
  length (pr_diags (parse_whole (bs "f") (bs "def x { a = ( ; b = ( ; }"))) = 3%nat.
Proof. vm_compute. split; reflexivity. Qed.

(* ================================================================== *)
(* A4'. the toplevel loop: every statement is started outside panic mode *)
(* ================================================================== *)

(* the (fuel, state) pairs at which top_loop calls decl *)
Fixpoint top_starts (fuel : nat) (s : pst) : list (nat * pst) :=
  match fuel with
  | O => []
  | S f =>
    if check_end s then []
    else let s3 := snd (pmatch tSEMICOLON (decl f s)) in
         (f, s) :: (if oof s3 || ppanic s3 then [] else top_starts f s3)
  end.

Lemma top_loop_unroll : forall f s,
  top_loop (S f) s =
    if check_end s then advance s
    else let s3 := snd (pmatch tSEMICOLON (decl f s)) in
         if oof s3 || ppanic s3 then s3 else top_loop f s3.
Proof.
  intros f s. cbn [top_loop]. unfold match_end. destruct (check_end s); [reflexivity|].
  cbv zeta. destruct (pmatch tSEMICOLON (decl f s)) as [m s3]. reflexivity.
Qed.

(* a tERR token still to come is followed by end tokens only (lexer output: tERR tFAIL at the end) *)
Definition errs_last (s : pst) : Prop :=
  forall pre e post, toks s = pre ++ e :: post -> isERR e = true -> Forall (fun x => isend x = true) post.

Lemma advance_loop_suffix : forall ts s, exists pre, ts = pre ++ toks (advance_loop ts s).
Proof.
  induction ts as [|t r IH]; intros s.
  - exists []. reflexivity.
  - rewrite advance_loop_cons. destruct (tok_eqb (ttyp t) tERR).
    + destruct (IH (error_at_current (lexerr_msg (terr t)) (adv_tok t s))) as [pre E].
      exists (t :: pre). cbn [app]. f_equal. exact E.
    + exists [t]. reflexivity.
Qed.

Lemma errs_last_frame : forall s s', frame s s' -> errs_last s -> errs_last s'.
Proof. unfold errs_last. intros s s' (-> & _) H. exact H. Qed.
Lemma errs_last_advance : forall s, errs_last s -> errs_last (advance s).
Proof.
  intros s H pre e post E He. unfold advance in E.
  destruct (advance_loop_suffix (toks s) (s <| prev := cur_ s |>)) as [pre0 E0].
  rewrite E in E0. apply (H (pre0 ++ pre) e post); [|exact He].
  rewrite E0, <- app_assoc. reflexivity.
Qed.
Lemma errs_last_error_at : forall t m s, errs_last s -> errs_last (error_at t m s).
Proof. intros t m s H. exact H. Qed.

(* framed predicates through the functions that ParserInvProofs.Framed does not list *)
Section FramedMore.
Variable P : pst -> Prop.
Hypothesis P_frame : forall s s', frame s s' -> P s -> P s'.
Hypothesis H_advance : forall s, P s -> P (advance s).
Hypothesis H_perror : forall m s, P s -> P (perror m s).
Hypothesis H_errc : forall m s, P s -> P (error_at_current m s).

Ltac framed L :=
  first [apply (L P (fun _ => True) (fun _ => True)) | apply (L P (fun _ => True)) | apply (L P)];
  try exact H_advance; try exact H_perror; try exact H_errc;
  try (intros; exact I);
  try (intros; eapply P_frame; [|eassumption];
       first [apply frame_write | apply frame_emit_op | apply frame_add_const | apply frame_identRefs
             | apply frame_patch | apply frame_begin_scope | apply frame_scope_upd
             | apply frame_add_local_upd | apply frame_locals | apply frame_ppanic | apply frame_oof
             | apply frame_panicMode]).

Lemma framed_var_decl : forall f s, P s -> P (var_decl f s).
Proof. framed var_decl_pres. Qed.
Lemma framed_expr : forall f s, P s -> P (expr f s).
Proof. framed expr_pres. Qed.
Lemma framed_emit_op : forall o s, P s -> P (emit_op o s).
Proof. intros o s. apply P_frame, frame_emit_op. Qed.
Lemma framed_block_stmt : forall f s, P s -> P (block_stmt f s).
Proof. framed block_stmt_pres. Qed.
Lemma framed_bind_stmt : forall s, P s -> P (bind_stmt s).
Proof. framed bind_stmt_pres. Qed.
Lemma framed_perrc : forall m s, P s -> P (perrc m s).
Proof. intros m s. unfold perrc. apply H_errc. Qed.
Lemma framed_decl_core : forall f s, P s -> P (decl_core f s).
Proof.
  apply decl_core_pres; auto using framed_var_decl, framed_expr, framed_emit_op, framed_block_stmt,
    framed_bind_stmt, framed_perrc.
Qed.
End FramedMore.

Lemma errs_last_decl_core : forall f s, errs_last s -> errs_last (decl_core f s).
Proof.
  apply framed_decl_core;
    first [exact errs_last_frame|exact errs_last_advance|intros; apply errs_last_error_at; assumption].
Qed.
Lemma errs_last_pmatch : forall t s, errs_last s -> errs_last (snd (pmatch t s)).
Proof.
  apply framed_pmatch;
    first [exact errs_last_frame|exact errs_last_advance|intros; apply errs_last_error_at; assumption].
Qed.
Lemma errs_last_decl : forall f s, errs_last s -> errs_last (decl f s).
Proof.
  apply framed_decl;
    first [exact errs_last_frame|exact errs_last_advance|intros; apply errs_last_error_at; assumption].
Qed.

Lemma Forall_end_mid : forall (q : list token) t rest,
  Forall (fun x => isend x = true) (q ++ t :: rest) -> isend t = true.
Proof. intros q t rest H. apply Forall_app in H. destruct H as [_ H]. inversion H; assumption. Qed.

(* sync leaves panic mode on only when it ran into the lexer's tERR, and then it is at the end *)
Lemma sync_panic_end : forall f s, J s -> (len s + 1 <= f)%nat -> errs_last s ->
  panicMode (sync f s) = true -> isend (cur_ (sync f s)) = true.
Proof.
  intros f s HJ Hf HE Hp.
  destruct (sync_spec f s HJ Hf) as (sk & t & rest & R1 & _ & _ & R4 & _ & _ & _ & R8 & _).
  rewrite R4. rewrite Hp in R8. cbn [orb] in R8. symmetry in R8.
  apply existsb_exists in R8. destruct R8 as (e & He & Ee).
  destruct sk as [|c sk]; [contradiction|]. cbn [tl] in He.
  apply in_split in He. destruct He as (p & q & ->).
  cbn [app] in R1. injection R1 as _ R1. rewrite <- app_assoc in R1. cbn [app] in R1.
  apply (Forall_end_mid q t rest). exact (HE p e _ R1 Ee).
Qed.

Lemma advance_panic_end : forall s, J s -> errs_last s -> panicMode s = false ->
  panicMode (advance s) = false \/ isend (cur_ (advance s)) = true.
Proof.
  intros s HJ HE Hp. destruct (toks s) as [|x r] eqn:Et.
  - left. rewrite (advance_nil s Et). exact Hp.
  - destruct (advance_spec s HJ ltac:(congruence)) as (errs & t & rest & E & F & _ & _ & B2 & _ & _ & B5 & _).
    rewrite B5, Hp, B2. destruct errs as [|e errs]; [left; reflexivity|right].
    pose proof (Forall_inv F) as He. cbv beta in He.
    apply (Forall_end_mid errs t rest). exact (HE [] e _ E He).
Qed.

(* the statement proper keeps the shape (this is the case analysis of ParserTotal.stmt_tot) *)
Lemma decl_core_tot : forall f s, Inv s -> (3 * len s + 3 <= S f)%nat -> SS s (decl_core f s).
Proof.
  intros f s (HJ & HL & HD) Hf.
  destruct (advance_tot s HJ) as (A1 & A2 & _).
  pose proof (SE_J _ _ A1) as JA. pose proof (SE_SS _ _ HL A1) as [_ LA].
  assert (DA : depth (advance s) = depth s) by apply A1.
  unfold decl_core.
  destruct (check tVAR s) eqn:C1.
  { assert (G : SS (advance s) (var_decl f (advance s))) by (apply var_decl_tot; [exact JA|exact LA|lia]).
    eapply SE_then_SS; eassumption. }
  destruct (check tPRINT s) eqn:C2.
  { destruct (expr_fn_tot f (advance s) JA ltac:(lia)) as [G1 G2].
    apply SE_SS; [exact HL|]. apply SEp_emit_op. eapply SE_trans; eassumption. }
  destruct (check tEVAL s) eqn:C3.
  { destruct (expr_fn_tot f (advance s) JA ltac:(lia)) as [G1 G2].
    apply SE_SS; [exact HL|]. apply SEp_emit_op. eapply SE_trans; eassumption. }
  destruct (check tDEF s) eqn:C4.
  { pose proof (J_len s HJ (check_not_end _ _ C4 ltac:(vm_compute; reflexivity))) as L1.
    assert (G : SS (advance s) (block_stmt f (advance s))).
    { apply (proj1 (proj2 (stmt_tot f))); [repeat split; [exact JA|exact LA|lia]|lia]. }
    eapply SE_then_SS; eassumption. }
  destruct (check tBIND s) eqn:C5.
  { pose proof (SEp_bind_stmt _ _ (SE_refl _ JA)) as G1.
    apply SE_SS; [exact HL|eapply SE_trans; eassumption]. }
  destruct (0 <? depth s)%Z eqn:C6.
  { destruct (expr_fn_tot f s HJ ltac:(lia)) as [G1 G2].
    apply SE_SS; [exact HL|]. apply SEp_emit_op. exact G1. }
  apply SE_SS; [exact HL|apply SEp_perrc, SE_refl, HJ].
Qed.

(* after a toplevel statement: out of panic mode, or at the end *)
Lemma decl_top_resumes : forall f s, Inv s -> depth s = 0%Z -> errs_last s -> (3 * len s + 3 <= f)%nat ->
  panicMode (decl f s) = false \/ isend (cur_ (decl f s)) = true.
Proof.
  intros f s HI HD HE Hf. destruct f as [|f]; [lia|]. rewrite decl_S2.
  pose proof (decl_core_tot f s HI Hf) as ((X1 & X2 & _ & _ & X5) & _).
  pose proof (errs_last_decl_core f s HE) as XE.
  revert X1 X2 X5 XE. generalize (decl_core f s). intros x X1 X2 X5 XE.
  unfold decl_finish. rewrite X5, HD. cbn [Z.eqb]. rewrite andb_true_r.
  destruct (panicMode x) eqn:Ep; [|left; exact Ep].
  destruct (panicMode (sync f x)) eqn:Es; [right|left; reflexivity].
  apply sync_panic_end; [exact X1|lia|exact XE|exact Es].
Qed.

Definition start_clean (p : nat * pst) : Prop :=
  panicMode (snd p) = false /\ depth (snd p) = 0%Z /\ isend (cur_ (snd p)) = false.

Lemma top_starts_clean : forall f s, Inv s -> depth s = 0%Z -> errs_last s ->
  (panicMode s = false \/ isend (cur_ s) = true) -> (3 * len s + 4 <= f)%nat ->
  Forall start_clean (top_starts f s).
Proof.
  induction f as [|f IH]; intros s HI HD HE HP Hf; [constructor|]. cbn [top_starts].
  change (check_end s) with (isend (cur_ s)). destruct (isend (cur_ s)) eqn:Ee; [constructor|].
  destruct HP as [HP|HP]; [|congruence]. cbv zeta.
  destruct HI as (HJ & HL & HD'). pose proof (J_len s HJ Ee) as L1.
  constructor; [repeat split; assumption|].
  destruct (decl_tot f s (conj HJ (conj HL HD')) ltac:(lia)) as [G1 G1']. specialize (G1' Ee).
  pose proof (decl_top_resumes f s (conj HJ (conj HL HD')) HD HE ltac:(lia)) as G2.
  pose proof (errs_last_decl f s HE) as G3.
  revert G1 G1' G2 G3. generalize (decl f s). intros s2 G1 G1' G2 G3.
  pose proof (SEp_pmatch _ tSEMICOLON _ (SE_refl _ (SS_J _ _ G1))) as G4.
  pose proof (errs_last_pmatch tSEMICOLON s2 G3) as G5.
  assert (G6 : panicMode (snd (pmatch tSEMICOLON s2)) = false \/
               isend (cur_ (snd (pmatch tSEMICOLON s2))) = true).
  { unfold pmatch. destruct (check tSEMICOLON s2) eqn:Ec; cbn [snd]; [|exact G2].
    pose proof (check_not_end _ _ Ec ltac:(vm_compute; reflexivity)) as Ne.
    destruct G2 as [G2|G2]; [|congruence].
    apply advance_panic_end; [apply (SS_J _ _ G1)|exact G3|exact G2]. }
  revert G4 G5 G6. generalize (snd (pmatch tSEMICOLON s2)). intros s3 G4 G5 G6.
  destruct (oof s3 || ppanic s3); [constructor|].
  pose proof (SS_SE _ _ _ G1 G4) as G7.
  apply IH; [apply (SS_Inv s s3 HD' G7)| |exact G5|exact G6|].
  - destruct G7 as ((_ & _ & _ & _ & D) & _). congruence.
  - pose proof (SE_len _ _ G4). lia.
Qed.

Lemma lex_shape_errs_last : forall ts, lex_shape ts -> errs_last (init_pst ts).
Proof.
  intros ts (body & Fb & D) pre e post E He. change (toks (init_pst ts)) with ts in E.
  assert (Hn : ~ normal e).
  { intros (_ & N & _). apply isERR_ttyp in He. congruence. }
  destruct D as [(x & Hx & ->)|(x & y & Hx & Hy & ->)];
    symmetry in E; destruct (split_normal _ _ _ _ _ E Fb Hn) as (pre' & _ & E').
  - destruct pre' as [|p pre'].
    + cbn [app] in E'. injection E' as -> _. apply isERR_ttyp in He. congruence.
    + cbn [app] in E'. injection E' as _ E'. destruct pre'; discriminate E'.
  - destruct pre' as [|p pre'].
    + cbn [app] in E'. injection E' as _ <-. constructor; [|constructor].
      unfold isend. rewrite Hy. reflexivity.
    + cbn [app] in E'. injection E' as _ E'. destruct pre' as [|p' pre'].
      * cbn [app] in E'. injection E' as -> _. apply isERR_ttyp in He. congruence.
      * cbn [app] in E'. injection E' as _ E'. destruct pre'; discriminate E'.
Qed.

(* On the lexer's output: every toplevel statement is started at depth 0 with panicMode = false
   and on a token that is not tEOF / tFAIL.  (Inside a block there is no recovery: panic mode stays
   on until the block statement returns to the toplevel.) *)
Theorem toplevel_statements_start_clean : forall ts, lex_shape ts ->
  Forall start_clean (top_starts (parse_fuel ts) (advance (init_pst ts))).
Proof.
  intros ts Hs.
  pose proof (lex_shape_last ts tok0 Hs) as Hl.
  assert (I0 : Inv (init_pst ts)).
  { unfold Inv, J, LI, init_pst. cbn [toks cur_ nlocals locals depth length]. repeat split; [exact Hl|lia]. }
  destruct I0 as (J0 & L0 & D0).
  destruct (advance_tot _ J0) as (A1 & A2 & _).
  assert (La : (len (advance (init_pst ts)) <= length ts)%nat).
  { change (len (init_pst ts)) with (length ts) in A2. lia. }
  pose proof (SE_SS _ _ L0 A1) as A3.
  pose proof (lex_shape_errs_last ts Hs) as E0.
  apply top_starts_clean.
  - apply (SS_Inv _ _ D0 A3).
  - destruct A1 as ((_ & _ & _ & _ & D) & _). rewrite D. reflexivity.
  - apply errs_last_advance, E0.
  - apply advance_panic_end; [exact J0|exact E0|reflexivity].
  - unfold parse_fuel. lia.
Qed.
Print Assumptions toplevel_statements_start_clean.

(* the bound "diagnostics <= toplevel statements attempted" is false: one statement, five diagnostics *)
Example cascade_counts :
  let ts := fst (lex [bs "print ((((;"]) in
  length (top_starts (parse_fuel ts) (advance (init_pst ts))) = 1%nat /\
  length (log (parse_tokens ts)) = 5%nat.
Proof. vm_compute. split; reflexivity. Qed.

(* non-vacuity: three statements, the first and the third faulty *)
Example top_starts_example :
  let ts := fst (lex [bs "1 + ; print 2; print ;"]) in
  map (fun p => tpos (cur_ (snd p))) (top_starts (parse_fuel ts) (advance (init_pst ts))) = [1; 11; 20].
Proof. vm_compute. reflexivity. Qed.

(* ================================================================== *)
(* B. the position table                                               *)
(* ================================================================== *)

Section PosInv.
Variable G : token -> Prop.

Definition posG (x : N) : Prop := exists t, G t /\ x = tpos t.
(* prev, cur_, the tokens to come are G-tokens; every recorded position is that of a G-token *)
Definition PG (s : pst) : Prop :=
  G (prev s) /\ G (cur_ s) /\ Forall G (toks s) /\ Forall posG (positions s).

Definition pframe (s s' : pst) : Prop :=
  toks s' = toks s /\ prev s' = prev s /\ cur_ s' = cur_ s /\ positions s' = positions s.

Lemma PG_pframe : forall s s', pframe s s' -> PG s -> PG s'.
Proof. unfold PG. intros s s' (-> & -> & -> & ->) H. exact H. Qed.

Lemma advance_loop_G : forall ts s, Forall G ts -> (ts = [] -> G (cur_ s)) ->
  G (cur_ (advance_loop ts s)) /\ Forall G (toks (advance_loop ts s)).
Proof.
  induction ts as [|t r IH]; intros s F Hc.
  - rewrite advance_loop_nil. destruct (set_toks_fields [] s) as (-> & _ & -> & _).
    split; [apply Hc; reflexivity|constructor].
  - rewrite advance_loop_cons. inversion F as [|t' r' Gt Fr]; subst.
    destruct (tok_eqb (ttyp t) tERR).
    + apply IH; [exact Fr|]. intros _. unfold error_at_current.
      destruct (error_at_fields (cur_ (adv_tok t s)) (lexerr_msg (terr t)) (adv_tok t s)) as (_ & _ & -> & _).
      destruct (adv_tok_fields t s) as (_ & _ & -> & _). exact Gt.
    + destruct (set_toks_fields r (adv_tok t s)) as (-> & _ & -> & _).
      destruct (adv_tok_fields t s) as (_ & _ & -> & _). split; assumption.
Qed.

(* advance needs nothing of the old prev *)
Lemma PG_advance' : forall s, G (cur_ s) -> Forall G (toks s) -> Forall posG (positions s) -> PG (advance s).
Proof.
  intros s Hc Ft Fp. unfold PG.
  destruct (cframe_advance s) as (_ & _ & -> & _).
  unfold advance. rewrite advance_loop_prev'.
  pose proof (advance_loop_G (toks s) (s <| prev := cur_ s |>) Ft) as AB.
  destruct AB as [A B]; [intros _; exact Hc|].
  repeat split; first [assumption|exact Hc].
Qed.

Lemma PGp_advance : forall s, PG s -> PG (advance s).
Proof. intros s (_ & Hc & Ft & Fp). apply PG_advance'; assumption. Qed.
Lemma PGp_perror : forall m s, PG s -> PG (perror m s).
Proof. intros m s. apply PG_pframe. repeat split. Qed.
Lemma PGp_errc : forall m s, PG s -> PG (error_at_current m s).
Proof. intros m s. apply PG_pframe. repeat split. Qed.
Lemma PGp_write : forall b s, PG s -> PG (write b s).
Proof.
  intros b s (Hp & Hc & Ft & Fp). unfold PG, write. psimp. repeat split; try assumption.
  constructor; [|exact Fp]. exists (prev s). split; [exact Hp|reflexivity].
Qed.
Lemma PGp_emit_op : forall o s, PG s -> PG (emit_op o s).
Proof. intros o s H. unfold emit_op. eapply PG_pframe; [|apply (PGp_write o s H)]. repeat split. Qed.
Lemma PGp_add_const : forall v s, True -> PG s -> PG (snd (add_const v s)).
Proof. intros v s _. apply PG_pframe. repeat split. Qed.
Lemma PGp_identRefs : forall x s, PG s -> PG (s <| identRefs := x |>).
Proof. intros x s. apply PG_pframe. repeat split. Qed.
Lemma PGp_patch : forall k x y s, PG s -> PG (s <| code := set_nth (set_nth (code s) k x) (S k) y |>).
Proof. intros k x y s. apply PG_pframe. repeat split. Qed.
Lemma PGp_begin_scope : forall s, PG s -> PG (begin_scope s).
Proof. intros s. apply PG_pframe. repeat split. Qed.
Lemma PGp_scope_upd : forall d ls n s, PG s -> PG (s <| depth := d |> <| locals := ls |> <| nlocals := n |>).
Proof. intros d ls n s. apply PG_pframe. repeat split. Qed.
Lemma PGp_add_local_upd : forall l n m s, PG s ->
  PG (s <| locals := l |> <| nlocals := n |> <| st_localMax := m |>).
Proof. intros l n m s. apply PG_pframe. repeat split. Qed.
Lemma PGp_locals : forall l s, PG s -> PG (s <| locals := l |>).
Proof. intros l s. apply PG_pframe. repeat split. Qed.
Lemma PGp_ppanic : forall s, PG s -> PG (s <| ppanic := true |>).
Proof. intros s. apply PG_pframe. repeat split. Qed.
Lemma PGp_oof : forall s, PG s -> PG (mark_oof s).
Proof. intros s. apply PG_pframe. repeat split. Qed.
Lemma PGp_panicMode : forall s, PG s -> PG (s <| panicMode := false |>).
Proof. intros s. apply PG_pframe. repeat split. Qed.

Ltac pos_pres L :=
  intros;
  first [eapply (L PG (fun _ => True) (fun _ => True)) | eapply (L PG (fun _ => True)) | eapply (L PG)];
  eauto using PGp_advance, PGp_perror, PGp_errc, PGp_write, PGp_emit_op, PGp_add_const, PGp_identRefs,
    PGp_patch, PGp_begin_scope, PGp_scope_upd, PGp_add_local_upd, PGp_locals, PGp_ppanic, PGp_oof,
    PGp_panicMode.

Lemma PGp_perrc : forall m s, PG s -> PG (perrc m s).
Proof. pos_pres perrc_pres. Qed.
Lemma PGp_pop_n : forall n s, PG s -> PG (pop_n n s).
Proof. pos_pres pop_n_pres. Qed.
Lemma PGp_sync_loop : forall f s, PG s -> PG (sync_loop f s).
Proof. pos_pres sync_loop_pres. Qed.
Lemma PGp_expr : forall f s, PG s -> PG (expr f s).
Proof. pos_pres expr_pres. Qed.
Lemma PGp_var_decl : forall f s, PG s -> PG (var_decl f s).
Proof. pos_pres var_decl_pres. Qed.
Lemma PGp_bind_stmt : forall s, PG s -> PG (bind_stmt s).
Proof. pos_pres bind_stmt_pres. Qed.
Lemma PGp_block_stmt : forall f s, PG s -> PG (block_stmt f s).
Proof. pos_pres block_stmt_pres. Qed.
Lemma PGp_decl : forall f s, PG s -> PG (decl f s).
Proof. pos_pres decl_pres. Qed.
Lemma PGp_parse_tokens : forall ts, PG (init_pst ts) -> PG (parse_tokens ts).
Proof. pos_pres parse_tokens_pres. Qed.
Lemma PGp_decl_core : forall f s, PG s -> PG (decl_core f s).
Proof.
  apply decl_core_pres; auto using PGp_advance, PGp_var_decl, PGp_expr, PGp_emit_op, PGp_block_stmt,
    PGp_bind_stmt, PGp_perrc.
Qed.

(* ---- before the first token has been consumed: prev is the dummy tok0, nothing is emitted ---- *)

(* either prev is a G-token, or nothing has been emitted yet and we are at depth 0 *)
Definition PR (s : pst) : Prop :=
  G (cur_ s) /\ Forall G (toks s) /\ (PG s \/ (positions s = [] /\ depth s = 0%Z)).

Lemma PR_positions : forall s, PR s -> Forall posG (positions s).
Proof. intros s (_ & _ & [H|[-> _]]); [apply H|constructor]. Qed.
Lemma PR_PG : forall s, PG s -> PR s.
Proof. intros s H. split; [apply H|]. split; [apply H|left; exact H]. Qed.
Lemma PR_advance : forall s, PR s -> PG (advance s).
Proof. intros s H. apply PG_advance'; [apply H|apply H|apply PR_positions; exact H]. Qed.

(* a step that changes none of toks / cur_ / positions / depth, nor prev *)
Lemma PR_quiet : forall s s', pframe s s' -> depth s' = depth s -> PR s -> PR s'.
Proof.
  intros s s' F D (Hc & Ft & H). pose proof F as (E1 & E2 & E3 & E4). unfold PR.
  rewrite E1, E3, E4, D. repeat split; try assumption.
  destruct H as [H|H]; [left; eapply PG_pframe; eassumption|right; exact H].
Qed.

Lemma PR_decl_core : forall f s, PR s -> PR (decl_core f s).
Proof.
  intros f s H. destruct H as (Hc & Ft & [H|[Hp Hd]]); [apply PR_PG, PGp_decl_core, H|].
  assert (HR : PR s) by (split; [exact Hc|split; [exact Ft|right; split; assumption]]).
  pose proof (PR_advance s HR) as HA. unfold decl_core.
  destruct (check tVAR s); [apply PR_PG, PGp_var_decl, HA|].
  destruct (check tPRINT s); [apply PR_PG, PGp_emit_op, PGp_expr, HA|].
  destruct (check tEVAL s); [apply PR_PG, PGp_emit_op, PGp_expr, HA|].
  destruct (check tDEF s); [apply PR_PG, PGp_block_stmt, HA|].
  destruct (check tBIND s); [apply PR_PG, PGp_bind_stmt, HA|].
  rewrite Hd. cbn [Z.ltb Z.compare].
  revert HR. apply PR_quiet; repeat split.
Qed.

Lemma PR_sync_loop : forall f s, PR s -> PR (sync_loop f s).
Proof.
  induction f as [|f IH]; intros s H.
  - cbn [sync_loop]. revert H. apply PR_quiet; repeat split.
  - rewrite sync_loop_S. destruct (sync_stop (cur_ s)); [exact H|].
    apply PR_PG, PGp_sync_loop, PR_advance, H.
Qed.

Lemma PR_decl : forall f s, PR s -> PR (decl f s).
Proof.
  intros [|f] s H.
  - cbn [decl]. revert H. apply PR_quiet; repeat split.
  - rewrite decl_S2. pose proof (PR_decl_core f s H) as H1. revert H1.
    generalize (decl_core f s). intros x H1. unfold decl_finish.
    destruct (_ && _); [|exact H1]. unfold sync. apply PR_sync_loop.
    revert H1. apply PR_quiet; repeat split.
Qed.

Lemma PR_pmatch : forall t s, PR s -> PR (snd (pmatch t s)).
Proof.
  intros t s H. unfold pmatch. destruct (check t s); cbn [snd]; [apply PR_PG, PR_advance, H|exact H].
Qed.

(* at the end of the toplevel loop: prev is a G-token, or the model's failure flags are up *)
Definition PT (s : pst) : Prop :=
  Forall posG (positions s) /\ (PG s \/ oof s || ppanic s = true).

Lemma PT_top_loop : forall f s, PR s -> PT (top_loop f s).
Proof.
  induction f as [|f IH]; intros s H.
  - cbn [top_loop]. split; [apply (PR_positions s H)|right; reflexivity].
  - rewrite top_loop_unroll. destruct (check_end s).
    + pose proof (PR_advance s H) as HA. split; [apply HA|left; exact HA].
    + cbv zeta. pose proof (PR_pmatch tSEMICOLON _ (PR_decl f s H)) as H3. revert H3.
      generalize (snd (pmatch tSEMICOLON (decl f s))). intros s3 H3.
      destruct (oof s3 || ppanic s3) eqn:E; [|apply IH; exact H3].
      split; [apply (PR_positions s3 H3)|right; exact E].
Qed.

Lemma PT_parse_tokens : forall ts, PR (advance (init_pst ts)) -> Forall posG (positions (parse_tokens ts)).
Proof.
  intros ts H. unfold parse_tokens.
  pose proof (PT_top_loop (parse_fuel ts) _ H) as HT. revert HT.
  generalize (top_loop (parse_fuel ts) (advance (init_pst ts))). intros s [HP HT]. cbv zeta.
  destruct (hadError s || oof s || ppanic s) eqn:E; [exact HP|].
  apply orb_false_elim in E. destruct E as [E E3]. apply orb_false_elim in E. destruct E as [_ E2].
  destruct HT as [HT|HT]; [|rewrite E2, E3 in HT; discriminate HT].
  apply (PGp_emit_op opRET _ (PGp_pop_n (nlocals s) s HT)).
Qed.
End PosInv.

(* B, general form: every position recorded for a code byte is 0 (the dummy token tok0 that
   prev / cur_ hold before the first advance) or the position of a token of the input.  The code
   and the position table have the same length: CompileVerifies.parse_pos_len. *)
Theorem code_positions_are_token_positions : forall ts x, In x (positions (parse_tokens ts)) ->
  x = 0 \/ exists t, In t ts /\ tpos t = x.
Proof.
  intros ts x Hx.
  assert (H : PG (fun t => t = tok0 \/ In t ts) (parse_tokens ts)).
  { apply PGp_parse_tokens. unfold PG, init_pst. cbn [prev cur_ toks positions].
    repeat split; [left; reflexivity|left; reflexivity| |constructor].
    apply Forall_forall. intros t Ht. right. exact Ht. }
  destruct H as (_ & _ & _ & H). rewrite Forall_forall in H.
  destruct (H x Hx) as (t & [->|Ht] & ->); [left; reflexivity|right; exists t; auto].
Qed.
Print Assumptions code_positions_are_token_positions.

(* position 0 from tok0 does occur, for the empty token list (which the lexer never delivers) *)
Example tok0_position_occurs : positions (parse_tokens []) = [0] /\ code (parse_tokens []) = [opRET].
Proof. vm_compute. split; reflexivity. Qed.

(* B, strict form: with at least one token, every recorded position is that of a token *)
Theorem code_positions_are_token_positions_strict : forall ts x, ts <> [] ->
  In x (positions (parse_tokens ts)) -> exists t, In t ts /\ tpos t = x.
Proof.
  intros ts x Hne Hx.
  assert (H : Forall (posG (fun t => In t ts)) (positions (parse_tokens ts))).
  { apply PT_parse_tokens.
    assert (F : Forall (fun t => In t ts) ts) by (apply Forall_forall; auto).
    pose proof (advance_loop_G (fun t => In t ts) ts (init_pst ts <| prev := cur_ (init_pst ts) |>) F) as AB.
    destruct AB as [A B]; [intros; contradiction|].
    split; [exact A|]. split; [exact B|]. right. split.
    - destruct (cframe_advance (init_pst ts)) as (_ & _ & -> & _). reflexivity.
    - destruct (advance_RF (init_pst ts)) as (_ & _ & -> & _). reflexivity. }
  rewrite Forall_forall in H. destruct (H x Hx) as (t & Ht & ->). exists t. auto.
Qed.
Print Assumptions code_positions_are_token_positions_strict.

(* ---- API level ---- *)

(* every entry of the position table of the parsed program is the position of a token the lexer
   delivered (tpos = the offset just past the token's text, Lexer.emit) ... *)
Theorem prog_positions_are_token_positions : forall name cs x,
  In x (g_pos (pr_prog (parse_chunks name cs))) -> exists t, In t (fst (lex cs)) /\ tpos t = x.
Proof.
  intros name cs x Hx. destruct (parse_chunks_fields name cs) as (_ & _ & _ & _ & E).
  rewrite E in Hx. cbn [g_pos] in Hx. rewrite frev_eq in Hx. apply in_rev in Hx.
  apply code_positions_are_token_positions_strict; [|exact Hx].
  apply lex_shape_nonempty, lex_tokens_shape.
Qed.

(* ... hence an offset within the source (no hypothesis on the size of the input, unlike
   ParserInvProofs.parse_wf_partial) ... *)
Corollary prog_positions_in_source : forall name cs x,
  In x (g_pos (pr_prog (parse_chunks name cs))) -> x <= nlen (concat cs).
Proof.
  intros name cs x Hx. destruct (prog_positions_are_token_positions name cs x Hx) as (t & Ht & <-).
  apply token_pos_bound. exact Ht.
Qed.

(* ... and there is one entry per code byte (CompileVerifies.parse_pos_len) *)
Corollary prog_positions_length : forall name cs,
  length (g_pos (pr_prog (parse_chunks name cs))) = length (g_code (pr_prog (parse_chunks name cs))).
Proof.
  intros name cs. destruct (parse_chunks_fields name cs) as (_ & _ & _ & _ & E).
  rewrite E. cbn [g_pos g_code]. rewrite !frev_eq, !rev_length. apply CompileVerifies.parse_pos_len.
Qed.
Print Assumptions prog_positions_are_token_positions.
Print Assumptions prog_positions_in_source.
Print Assumptions prog_positions_length.

(* ================================================================== *)
(* C. the position table is monotone when the token positions are      *)
(* ================================================================== *)

Definition le_tpos (a b : token) : Prop := tpos a <= tpos b.
Definition tpos_mono (ts : list token) : Prop := StronglySorted le_tpos ts.

(* positions are kept newest first *)
Definition PM (s : pst) : Prop :=
  StronglySorted le_tpos (prev s :: cur_ s :: toks s) /\
  StronglySorted (fun a b => b <= a) (positions s) /\
  Forall (fun x => x <= tpos (prev s)) (positions s).

Lemma PM_pframe : forall s s', pframe s s' -> PM s -> PM s'.
Proof. unfold PM. intros s s' (-> & -> & -> & ->) H. exact H. Qed.

Lemma advance_loop_sorted : forall ts s, StronglySorted le_tpos (cur_ s :: ts) ->
  StronglySorted le_tpos (cur_ (advance_loop ts s) :: toks (advance_loop ts s)) /\
  le_tpos (cur_ s) (cur_ (advance_loop ts s)).
Proof.
  induction ts as [|t r IH]; intros s H.
  - rewrite advance_loop_nil. destruct (set_toks_fields [] s) as (-> & _ & -> & _).
    split; [exact H|unfold le_tpos; lia].
  - rewrite advance_loop_cons. apply StronglySorted_inv in H. destruct H as [H1 H2].
    pose proof (Forall_inv H2) as H3. cbv beta in H3.
    destruct (tok_eqb (ttyp t) tERR).
    + set (s1 := error_at_current (lexerr_msg (terr t)) (adv_tok t s)).
      assert (Ec : cur_ s1 = t).
      { unfold s1, error_at_current.
        destruct (error_at_fields (cur_ (adv_tok t s)) (lexerr_msg (terr t)) (adv_tok t s)) as (_ & _ & -> & _).
        apply adv_tok_fields. }
      destruct (IH s1) as [I1 I2]; [rewrite Ec; exact H1|]. split; [exact I1|].
      rewrite Ec in I2. unfold le_tpos in *. lia.
    + destruct (set_toks_fields r (adv_tok t s)) as (-> & _ & -> & _).
      destruct (adv_tok_fields t s) as (_ & _ & -> & _). split; assumption.
Qed.

Lemma PM_advance : forall s, PM s -> PM (advance s).
Proof.
  intros s (H1 & H2 & H3). unfold PM.
  destruct (cframe_advance s) as (_ & _ & -> & _).
  apply StronglySorted_inv in H1. destruct H1 as [H1 H4]. pose proof (Forall_inv H4) as H5. cbv beta in H5.
  pose proof (advance_loop_sorted (toks s) (s <| prev := cur_ s |>)) as A.
  destruct A as [A1 A2]; [exact H1|].
  destruct (advance_loop_suffix (toks s) (s <| prev := cur_ s |>)) as [pre Ep].
  unfold advance. rewrite advance_loop_prev'.
  change (prev (s <| prev := cur_ s |>)) with (cur_ s).
  change (cur_ (s <| prev := cur_ s |>)) with (cur_ s) in A2.
  split; [|split; [exact H2|]].
  - constructor; [exact A1|]. constructor; [exact A2|].
    apply StronglySorted_inv in H1. destruct H1 as [_ H6].
    rewrite Ep in H6. apply Forall_app in H6. apply H6.
  - eapply Forall_impl; [|exact H3]. cbv beta. unfold le_tpos in H5. intros; lia.
Qed.

Lemma PM_write : forall b s, PM s -> PM (write b s).
Proof.
  intros b s (H1 & H2 & H3). unfold PM, write. psimp. split; [exact H1|]. split.
  - constructor; [exact H2|exact H3].
  - constructor; [lia|exact H3].
Qed.

Theorem positions_sorted : forall ts, tpos_mono ts ->
  StronglySorted (fun a b => b <= a) (positions (parse_tokens ts)).
Proof.
  intros ts Hm.
  assert (H : PM (parse_tokens ts)); [|apply H].
  apply (parse_tokens_pres PM (fun _ => True) (fun _ => True)); try (intros; exact I).
  - exact PM_advance.
  - intros m s. apply PM_pframe. repeat split.
  - intros m s. apply PM_pframe. repeat split.
  - exact PM_write.
  - intros o s H. unfold emit_op. eapply PM_pframe; [|apply (PM_write o s H)]. repeat split.
  - intros v s _. apply PM_pframe. repeat split.
  - intros x s. apply PM_pframe. repeat split.
  - intros k x y s. apply PM_pframe. repeat split.
  - intros s. apply PM_pframe. repeat split.
  - intros d ls n s. apply PM_pframe. repeat split.
  - intros l n m s. apply PM_pframe. repeat split.
  - intros l s. apply PM_pframe. repeat split.
  - intros s. apply PM_pframe. repeat split.
  - intros s. apply PM_pframe. repeat split.
  - intros s. apply PM_pframe. repeat split.
  - unfold PM, init_pst. cbn [prev cur_ toks positions]. split; [|split; constructor].
    assert (F : Forall (le_tpos tok0) ts).
    { apply Forall_forall. intros t _. unfold le_tpos, tok0. cbn [tpos]. lia. }
    constructor; [constructor; [exact Hm|exact F]|]. constructor; [|exact F].
    unfold le_tpos. lia.
Qed.
Print Assumptions positions_sorted.

Lemma StronglySorted_rev : forall {A} (R : A -> A -> Prop) l,
  StronglySorted (fun a b => R b a) l -> StronglySorted R (rev l).
Proof.
  intros A R l. induction 1 as [|a l H IH F]; [constructor|]. cbn [rev].
  assert (G : forall l1, StronglySorted R l1 -> Forall (fun x => R x a) l1 -> StronglySorted R (l1 ++ [a])).
  { induction l1 as [|x l1 IH1]; intros S1 F1; cbn [app]; [constructor; constructor|].
    apply StronglySorted_inv in S1. destruct S1 as [S1 S2]. inversion F1; subst.
    constructor; [apply IH1; assumption|]. apply Forall_app. split; [exact S2|constructor; [assumption|constructor]]. }
  apply G; [exact IH|]. apply Forall_rev. exact F.
Qed.

(* The hypothesis -- the lexer delivers tokens with non-decreasing positions -- is not proved in
   this development (LexerProofs / ParserInvProofs bound token positions from above only). *)
Corollary prog_positions_sorted : forall name cs, tpos_mono (fst (lex cs)) ->
  StronglySorted N.le (g_pos (pr_prog (parse_chunks name cs))).
Proof.
  intros name cs Hm. destruct (parse_chunks_fields name cs) as (_ & _ & _ & _ & E).
  rewrite E. cbn [g_pos]. rewrite frev_eq. apply StronglySorted_rev.
  apply (positions_sorted _ Hm).
Qed.
Print Assumptions prog_positions_sorted.

(* jumps are patched in the code only, so `and` / `or` keep the table monotone *)
Example positions_sorted_example :
  g_pos (pr_prog (parse_whole (bs "f") (bs "def x { a = 1 and 2 or 3 }"))) =
    [7; 7; 7; 13; 17; 17; 17; 17; 19; 19; 22; 22; 22; 22; 22; 22; 22; 24; 24; 24; 24; 24; 26; 26].
Proof. vm_compute. reflexivity. Qed.
