(* LexWrite.v: bytes -> tokens for written text.

   Proofs/C05Tokens.v stops at the TOKENS a writer produces.  This file closes the gap to the
   bytes: the texts of a token list, joined by white space ([render]), are lexed back to the same
   (type, text) sequence, provided every token carries a text the lexer produces for its type
   ([lexable]).  Composition with C05Tokens.v at the end: the byte-level round trip. *)
From Coq Require Import Lia ZifyN ZifyNat ZifyBool List.
From BCL Require Import Model.Lexer Model.Api Model.Compile Spec.AstSem Model.Reflect
  Proofs.LineCalcProofs Proofs.LexerProofs Proofs.LayoutProofs Proofs.ParserInvProofs
  Proofs.ReflectProofs Proofs.T2Proofs Proofs.T1Proofs Proofs.C05Tree Proofs.LayoutTree Proofs.LexShift Proofs.C05Tokens.
Import ListNotations.
Open Scope N_scope.

Ltac Zify.zify_post_hook ::= Z.div_mod_to_equations.

(* two `mk` are in scope: the cursor with everything received, and the token of the writer *)
Notation cmk := LayoutProofs.mk.
Notation tmk := C05Tokens.mk.

(* ---------------------------------------------------------------------------------------- *)
(* 0. the primitives on a cursor whose unread input begins with an ASCII byte (or is empty)    *)
(* ---------------------------------------------------------------------------------------- *)
Definition arest (rest : bytes) : Prop := match rest with [] => True | b :: _ => b < 128 end.
Definition hd_rune (rest : bytes) : Z := match rest with [] => eof | b :: _ => Z.of_N b end.
Definition adv (bef rest : bytes) (g : N) (l : list N) (o : list token) : cur :=
  match rest with
  | [] => cmk bef [] g 0 l o
  | b :: r => cmk (b :: bef) r (g + 1) 1 l o
  end.

Lemma decode_ascii : forall b r, b < 128 -> decode_rune (b :: r) = (b, 1%nat).
Proof.
  intros b r H. unfold decode_rune, lead_info.
  assert (E : b <? 128 = true) by lia. rewrite E. reflexivity.
Qed.

Lemma next_a : forall bef b r g w l o, b < 128 ->
  next (cmk bef (b :: r) g w l o) = (Z.of_N b, cmk (b :: bef) r (g + 1) 1 l o).
Proof.
  intros. change (b :: r) with ([b] ++ r).
  rewrite (next_mk bef [b] r g w l o b); [reflexivity| |discriminate].
  apply decode_ascii; assumption.
Qed.

Lemma next_ar : forall bef rest g w l o, arest rest ->
  next (cmk bef rest g w l o) = (hd_rune rest, adv bef rest g l o).
Proof.
  intros bef [|b r] g w l o H; [reflexivity|]. cbn [arest] in H. apply next_a; exact H.
Qed.

Lemma backup_adv : forall bef rest g l o,
  backup (adv bef rest g l o) = cmk bef rest g (width_at rest) l o.
Proof.
  intros bef [|b r] g l o; [apply backup_mk0|].
  exact (backup_mk bef [b] r g l o).
Qed.

Lemma peek_ar : forall bef rest g w l o, arest rest ->
  peek (cmk bef rest g w l o) = (hd_rune rest, cmk bef rest g (width_at rest) l o).
Proof. intros. unfold peek. rewrite next_ar by assumption. rewrite backup_adv. reflexivity. Qed.

Lemma accept_no : forall v bef rest g w l o, arest rest -> zin (hd_rune rest) v = false ->
  accept v (cmk bef rest g w l o) = (false, cmk bef rest g (width_at rest) l o).
Proof. intros. unfold accept. rewrite next_ar by assumption. rewrite H0, backup_adv. reflexivity. Qed.

Lemma accept_yes : forall v bef b r g w l o, b < 128 -> zin (Z.of_N b) v = true ->
  accept v (cmk bef (b :: r) g w l o) = (true, cmk (b :: bef) r (g + 1) 1 l o).
Proof. intros. unfold accept. rewrite next_a by assumption. rewrite H0. reflexivity. Qed.

Lemma emit_mk : forall t bef aft g w l o,
  emit t (cmk bef aft g w l o) =
  cmk [] aft g w l ({| ttyp := t; tval := rev bef; terr := None; tpos := g |} :: o).
Proof. intros. unfold emit, current, cmk. cbn [before after gpos width pending lfs out]. rewrite frev_eq. reflexivity. Qed.

Lemma hd_rune_app : forall b r rest, hd_rune ((b :: r) ++ rest) = Z.of_N b.
Proof. reflexivity. Qed.

(* ---------------------------------------------------------------------------------------- *)
(* 1. one step of the lexer emits one token                                                    *)
(* ---------------------------------------------------------------------------------------- *)
(* the token the lexer emits *)
Definition ltok (t : tok) (v : bytes) (p : N) : token := {| ttyp := t; tval := v; terr := None; tpos := p |}.

(* from a token start with `text ++ rest` unread, one step emits (t, text), goes on, and stands
   at a token start with `rest` unread *)
Definition emits (t : tok) (text rest : bytes) : Prop :=
  forall f g w l o, (length text < f)%nat -> exists w',
    lex_start f (cmk [] (text ++ rest) g w l o)
    = (true, cmk [] rest (g + nlen text) w' l (ltok t text (g + nlen text) :: o)).

(* what may follow a token without being glued to it: the end of the input, or an ASCII
   character that is not a letter, a digit, underscore, double quote, dot, '=' or '>' *)
Definition stop_rune (r : Z) : bool :=
  negb (is_alnum r || Z.eqb r 95 || Z.eqb r 34 || Z.eqb r 46 || Z.eqb r 61 || Z.eqb r 62).
Definition fstop (rest : bytes) : Prop := arest rest /\ stop_rune (hd_rune rest) = true.

Lemma fstop_nil : fstop [].
Proof. split; reflexivity. Qed.

Lemma fstop_ws : forall b r, ws_byte b -> fstop (b :: r).
Proof.
  intros b r H. unfold ws_byte in H. cbn [In] in H.
  repeat (destruct H as [<-|H]; [split; [cbn; lia|reflexivity]|]). contradiction.
Qed.

Lemma of_N_not_eof : forall b, Z.eqb (Z.of_N b) eof = false.
Proof. intros. unfold eof. lia. Qed.

(* 1a. one- and two-character tokens *)
Lemma one_rune_emits : forall b t rest, b < 128 ->
  two_rune_of (Z.of_N b) = None -> one_rune_of (Z.of_N b) = Some t -> emits t [b] rest.
Proof.
  intros b t rest Hb H2 H1 f g w l o Hf. exists 1%nat.
  unfold lex_start. cbn [app]. rewrite next_a by exact Hb. rewrite of_N_not_eof. cbv zeta.
  rewrite H2, H1, emit_mk. reflexivity.
Qed.

Lemma one_of_two_emits : forall b t1 r2 t2 rest, b < 128 ->
  two_rune_of (Z.of_N b) = Some (r2, t2) -> one_rune_of (Z.of_N b) = Some t1 ->
  arest rest -> Z.eqb (hd_rune rest) r2 = false -> emits t1 [b] rest.
Proof.
  intros b t1 r2 t2 rest Hb H2 H1 Ha Hr f g w l o Hf. exists (width_at rest).
  unfold lex_start. cbn [app]. rewrite next_a by exact Hb. rewrite of_N_not_eof. cbv zeta.
  rewrite H2, next_ar by exact Ha. rewrite Hr, H1, backup_adv, emit_mk. reflexivity.
Qed.

Lemma two_rune_emits : forall b b2 t2 rest, b < 128 -> b2 < 128 ->
  two_rune_of (Z.of_N b) = Some (Z.of_N b2, t2) -> emits t2 [b; b2] rest.
Proof.
  intros b b2 t2 rest Hb Hb2 H2 f g w l o Hf. exists 1%nat.
  unfold lex_start. cbn [app]. rewrite next_a by exact Hb. rewrite of_N_not_eof. cbv zeta.
  rewrite H2, next_a by exact Hb2. rewrite Z.eqb_refl, emit_mk.
  unfold ltok, nlen. cbn [length rev app]. replace (g + 1 + 1) with (g + N.of_nat 2) by lia. reflexivity.
Qed.

(* 1b. identifiers and keywords *)
Definition ident_rune (r : Z) : bool := is_alnum r || Z.eqb r 95.
Definition ident_byte (b : N) : bool := ident_rune (Z.of_N b).
Definition ident_start (b : N) : bool := is_alpha (Z.of_N b) || Z.eqb (Z.of_N b) 95.
(* a letter or '_', then letters, digits, '_'; ASCII only *)
Definition ident_text (w : bytes) : Prop :=
  match w with [] => False | b :: r => ident_start b = true /\ forallb ident_byte r = true end.
Definition word_tok (w : bytes) : tok := match keyword_of w with Some k => k | None => tIDENT end.

Lemma ident_byte_ascii : forall b, ident_byte b = true -> b < 128.
Proof. intros b. unfold ident_byte, ident_rune, is_alnum, is_alpha, is_digit_r. lia. Qed.

Lemma ident_scan : forall fuel body rest bef g w0 l o,
  forallb ident_byte body = true -> arest rest -> ident_rune (hd_rune rest) = false ->
  Z.eqb (hd_rune rest) 34 = false -> (length body < fuel)%nat ->
  lex_ident fuel (cmk bef (body ++ rest) g w0 l o) =
  (true, emit (word_tok (rev (rev body ++ bef))) (cmk (rev body ++ bef) rest (g + nlen body) (width_at rest) l o)).
Proof.
  induction fuel as [|f IH]; intros body rest bef g w0 l o Hb Ha Hr Hq Hf; [lia|].
  destruct body as [|b body].
  - cbn [app lex_ident rev]. rewrite next_ar by exact Ha. fold (ident_rune (hd_rune rest)). rewrite Hr.
    cbv zeta. rewrite backup_adv, peek_ar by exact Ha. rewrite Hq.
    replace (g + nlen []) with g by (unfold nlen; cbn [length]; lia).
    unfold word_tok, current. cbn [before LayoutProofs.mk]. rewrite frev_eq.
    destruct (keyword_of (rev bef)); reflexivity.
  - cbn [forallb] in Hb. apply andb_prop in Hb. destruct Hb as [Hb0 Hb].
    cbn [app lex_ident]. rewrite next_a by (apply ident_byte_ascii; exact Hb0).
    fold (ident_rune (Z.of_N b)). fold (ident_byte b). rewrite Hb0.
    rewrite IH; [|exact Hb|exact Ha|exact Hr|exact Hq|cbn [length] in Hf; lia].
    cbn [rev]. rewrite <- !app_assoc. cbn [app].
    replace (g + 1 + nlen body) with (g + nlen (b :: body)) by (unfold nlen; cbn [length]; lia).
    reflexivity.
Qed.

Lemma start_ident : forall f b r g w l o, ident_start b = true ->
  lex_start f (cmk [] (b :: r) g w l o) = lex_ident f (cmk [b] r (g + 1) 1 l o).
Proof.
  intros f b r g w l o H.
  assert (Hb : b < 128) by (unfold ident_start, is_alpha in H; lia).
  unfold lex_start. rewrite next_a by exact Hb. rewrite of_N_not_eof. cbv zeta.
  set (z := Z.of_N b) in *.
  assert (E2 : two_rune_of z = None).
  { unfold two_rune_of, ident_start, is_alpha in *. fold z in H.
    repeat match goal with |- context [Z.eqb z ?k] => destruct (Z.eqb_spec z k); [lia|] end. reflexivity. }
  assert (E1 : one_rune_of z = None).
  { unfold one_rune_of, ident_start, is_alpha in *. fold z in H.
    repeat match goal with |- context [Z.eqb z ?k] => destruct (Z.eqb_spec z k); [lia|] end. reflexivity. }
  assert (E3 : is_space z = false).
  { unfold is_space, zin, ident_start, is_alpha in *. fold z in H. cbn [existsb]. lia. }
  assert (E4 : Z.eqb z 35 = false) by (unfold ident_start, is_alpha in H; fold z in H; lia).
  assert (E5 : Z.eqb z 34 = false) by (unfold ident_start, is_alpha in H; fold z in H; lia).
  rewrite E2, E1, E3, E4, E5. unfold ident_start in H. fold z in H. rewrite H. reflexivity.
Qed.

Lemma fstop_ident : forall rest, fstop rest ->
  arest rest /\ ident_rune (hd_rune rest) = false /\ Z.eqb (hd_rune rest) 34 = false.
Proof.
  intros rest [Ha Hs]. split; [exact Ha|]. unfold stop_rune in Hs. unfold ident_rune.
  destruct (is_alnum (hd_rune rest)); [discriminate Hs|].
  destruct (Z.eqb (hd_rune rest) 95); [discriminate Hs|].
  destruct (Z.eqb (hd_rune rest) 34); [discriminate Hs|]. split; reflexivity.
Qed.

Theorem word_emits : forall w rest, ident_text w -> fstop rest -> emits (word_tok w) w rest.
Proof.
  intros [|b body] rest Hw Hs f g w l o Hf; [destruct Hw|]. destruct Hw as [H0 Hb].
  destruct (fstop_ident rest Hs) as (Ha & Hr & Hq).
  exists (width_at rest). cbn [app]. rewrite start_ident by exact H0.
  rewrite ident_scan; [|exact Hb|exact Ha|exact Hr|exact Hq|cbn [length] in Hf; lia].
  rewrite emit_mk. rewrite rev_app_distr, rev_involutive. cbn [rev app].
  replace (g + 1 + nlen body) with (g + nlen (b :: body)) by (unfold nlen; cbn [length]; lia).
  reflexivity.
Qed.

(* 1c. numbers *)
Definition isdig (b : N) : bool := (48 <=? b) && (b <=? 57).
Definition digits1 (D : bytes) : Prop := D <> [] /\ forallb isdig D = true.

Lemma zin_digits : forall z, zin z digits_set = is_digit_r z.
Proof. intros z. unfold zin, digits_set, is_digit_r. cbn [existsb]. lia. Qed.

Lemma isdig_rune : forall b, isdig b = true -> is_digit_r (Z.of_N b) = true /\ b < 128.
Proof. intros b. unfold isdig, is_digit_r. lia. Qed.

Lemma arest_app : forall a b, (forall x, In x a -> x < 128) -> arest b -> arest (a ++ b).
Proof. intros [|x a] b H Hb; [exact Hb|]. cbn [app arest]. apply H. left; reflexivity. Qed.

Lemma digits_ascii : forall D, forallb isdig D = true -> forall x, In x D -> x < 128.
Proof.
  intros D H x Hx. rewrite forallb_forall in H. apply isdig_rune. apply H. exact Hx.
Qed.

Lemma digits_scan : forall fuel D rest bef g w0 l o acc,
  forallb isdig D = true -> arest rest -> is_digit_r (hd_rune rest) = false -> (length D < fuel)%nat ->
  accept_run_f fuel (fun r => zin r digits_set) acc (cmk bef (D ++ rest) g w0 l o) =
  (match D with [] => acc | _ => true end, cmk (rev D ++ bef) rest (g + nlen D) (width_at rest) l o).
Proof.
  induction fuel as [|f IH]; intros D rest bef g w0 l o acc HD Ha Hr Hf; [lia|].
  destruct D as [|d D].
  - cbn [app accept_run_f rev]. rewrite next_ar by exact Ha. rewrite zin_digits, Hr, backup_adv.
    replace (g + nlen []) with g by (unfold nlen; cbn [length]; lia). reflexivity.
  - cbn [forallb] in HD. apply andb_prop in HD. destruct HD as [Hd HD].
    destruct (isdig_rune d Hd) as [Hd1 Hd2].
    cbn [app accept_run_f]. rewrite next_a by exact Hd2. rewrite zin_digits, Hd1.
    rewrite IH; [|exact HD|exact Ha|exact Hr|cbn [length] in Hf; lia].
    cbn [rev]. rewrite <- !app_assoc. cbn [app].
    replace (g + 1 + nlen D) with (g + nlen (d :: D)) by (unfold nlen; cbn [length]; lia).
    destruct D; reflexivity.
Qed.

Lemma digits1_scan : forall fuel D rest bef g w0 l o,
  digits1 D -> arest rest -> is_digit_r (hd_rune rest) = false -> (length D < fuel)%nat ->
  accept_run fuel digits_set (cmk bef (D ++ rest) g w0 l o) =
  (true, cmk (rev D ++ bef) rest (g + nlen D) (width_at rest) l o).
Proof.
  intros fuel D rest bef g w0 l o [Hne HD] Ha Hr Hf. unfold accept_run.
  rewrite digits_scan by assumption. destruct D; [congruence|reflexivity].
Qed.

(* what follows the digits of the integer part *)
Definition numstop (tail : bytes) : Prop :=
  arest tail /\ is_digit_r (hd_rune tail) = false /\
  Z.eqb (hd_rune tail) 120 = false /\ Z.eqb (hd_rune tail) 88 = false.

Definition num_cont (fuel : nat) (c3 : cur) : bool * cur :=
  let '(r, c4) := peek c3 in
  if Z.eqb r 46 || Z.eqb r 101 || Z.eqb r 69 then lex_float fuel c4
  else if Z.eqb r 34 || is_alpha r then sticky_fail c4
  else (true, emit tINT c4).

Lemma number_prefix : forall fuel D tail g w l o,
  digits1 D -> numstop tail -> (length D < fuel)%nat ->
  lex_number_tail fuel (cmk [] (D ++ tail) g w l o) =
  num_cont fuel (cmk (rev D) tail (g + nlen D) (width_at tail) l o).
Proof.
  intros fuel D tail g w l o [Hne HD] (Ha & Hr & Hx1 & Hx2) Hf.
  destruct D as [|d D]; [congruence|]. clear Hne.
  cbn [forallb] in HD. apply andb_prop in HD. destruct HD as [Hd HD].
  destruct (isdig_rune d Hd) as [Hd1 Hd2].
  assert (Ha' : arest (D ++ tail)) by (apply arest_app; [apply digits_ascii; exact HD|exact Ha]).
  unfold lex_number_tail. fold (num_cont fuel).
  destruct (N.eq_dec d 48) as [->|Hn].
  - cbn [app]. rewrite accept_yes by (reflexivity || lia).
    assert (Hx : zin (hd_rune (D ++ tail)) [120; 88] = false).
    { destruct D as [|d2 D]; cbn [app].
      - unfold zin. cbn [existsb]. lia.
      - cbn [forallb] in HD. apply andb_prop in HD. destruct HD as [Hd' _].
        unfold isdig in Hd'. unfold zin, hd_rune. cbn [existsb]. lia. }
    rewrite accept_no by assumption.
    unfold accept_run. rewrite digits_scan; [|exact HD|exact Ha|exact Hr|cbn [length] in Hf; lia].
    cbn [rev].
    replace (g + 1 + nlen D) with (g + nlen (48 :: D)) by (unfold nlen; cbn [length]; lia).
    reflexivity.
  - cbn [app]. rewrite accept_no; [|cbn [arest]; exact Hd2|].
    2:{ unfold zin, hd_rune. cbn [existsb]. lia. }
    unfold accept_run. change (d :: D ++ tail) with ((d :: D) ++ tail).
    rewrite digits_scan; [|cbn [forallb]; rewrite Hd, HD; reflexivity|exact Ha|exact Hr|exact Hf].
    rewrite app_nil_r. reflexivity.
Qed.

Lemma start_digit : forall f b r g w l o, isdig b = true ->
  lex_start f (cmk [] (b :: r) g w l o) = lex_number_tail f (cmk [] (b :: r) g 1 l o).
Proof.
  intros f b r g w l o H. destruct (isdig_rune b H) as [Hd Hb].
  unfold lex_start. rewrite next_a by exact Hb. rewrite of_N_not_eof. cbv zeta.
  set (z := Z.of_N b) in *. unfold is_digit_r in Hd.
  assert (E2 : two_rune_of z = None).
  { unfold two_rune_of.
    repeat match goal with |- context [Z.eqb z ?k] => destruct (Z.eqb_spec z k); [lia|] end. reflexivity. }
  assert (E1 : one_rune_of z = None).
  { unfold one_rune_of.
    repeat match goal with |- context [Z.eqb z ?k] => destruct (Z.eqb_spec z k); [lia|] end. reflexivity. }
  assert (E3 : is_space z = false) by (unfold is_space, zin; cbn [existsb]; lia).
  assert (E4 : Z.eqb z 35 = false) by lia.
  assert (E5 : Z.eqb z 34 = false) by lia.
  assert (E6 : is_alpha z || Z.eqb z 95 = false) by (unfold is_alpha; lia).
  assert (E7 : is_digit_r z = true) by (unfold is_digit_r; lia).
  rewrite E2, E1, E3, E4, E5, E6, E7. rewrite lex_number_eq.
  exact (f_equal (lex_number_tail f) (backup_mk [] [b] r g l o)).
Qed.

Lemma start_digits1 : forall f D r g w l o, digits1 D ->
  lex_start f (cmk [] (D ++ r) g w l o) = lex_number_tail f (cmk [] (D ++ r) g 1 l o).
Proof.
  intros f [|d D] r g w l o [Hne HD]; [congruence|]. cbn [app]. apply start_digit.
  cbn [forallb] in HD. apply andb_prop in HD. tauto.
Qed.

(* an integer literal: decimal digits (a leading zero is not the writer's business here) *)
Theorem int_emits : forall D rest, digits1 D -> fstop rest -> emits tINT D rest.
Proof.
  intros D rest HD [Ha Hs] f g w l o Hf. exists (width_at rest).
  assert (HN : numstop rest /\ Z.eqb (hd_rune rest) 46 || Z.eqb (hd_rune rest) 101 || Z.eqb (hd_rune rest) 69 = false
               /\ Z.eqb (hd_rune rest) 34 || is_alpha (hd_rune rest) = false).
  { unfold numstop. unfold stop_rune, is_alnum, is_alpha, is_digit_r in *. repeat split; try exact Ha; lia. }
  destruct HN as (HN & E1 & E2).
  assert (HD' := HD). destruct HD' as [Hne HD0]. destruct D as [|d D']; [congruence|].
  assert (Hd : isdig d = true) by (cbn [forallb] in HD0; apply andb_prop in HD0; tauto).
  cbn [app]. rewrite start_digit by exact Hd.
  change (d :: D' ++ rest) with ((d :: D') ++ rest).
  rewrite number_prefix by assumption.
  unfold num_cont. rewrite peek_ar by exact Ha. rewrite E1, E2, emit_mk, rev_involutive. reflexivity.
Qed.

(* 1d. quoted strings: between the quotes, ASCII characters other than the quote, the backslash
   and the newline, and backslash escapes (a backslash and any ASCII character but the newline) *)
Inductive qbody : bytes -> Prop :=
| qb_nil : qbody []
| qb_raw : forall b r, b < 128 -> b <> 34 -> b <> 92 -> b <> 10 -> qbody r -> qbody (b :: r)
| qb_esc : forall b r, b < 128 -> b <> 10 -> qbody r -> qbody (92 :: b :: r).

Lemma qbody_app : forall a b, qbody a -> qbody b -> qbody (a ++ b).
Proof.
  intros a b Ha Hb. induction Ha; cbn [app]; [exact Hb|apply qb_raw; assumption|apply qb_esc; assumption].
Qed.

Lemma quote_scan_esc : forall body, qbody body -> forall fuel rest bef g w0 l o,
  arest rest -> is_alnum (hd_rune rest) = false -> (length body < fuel)%nat ->
  lex_quote fuel (cmk bef (body ++ 34 :: rest) g w0 l o) =
  (true, emit tSTR (cmk (34 :: rev body ++ bef) rest (g + nlen body + 1) (width_at rest) l o)).
Proof.
  induction 1 as [|b r Hb H34 H92 H10 Hr IH|b r Hb H10 Hr IH]; intros fuel rest bef g w0 l o Ha Hs Hf;
    (destruct fuel as [|f]; [lia|]).
  - cbn [app lex_quote rev]. rewrite next_a by lia. change (Z.of_N 34) with 34%Z.
    cbn [Z.eqb Pos.eqb orb eof]. rewrite peek_ar by exact Ha. rewrite Hs.
    replace (g + nlen [] + 1) with (g + 1) by (unfold nlen; cbn [length]; lia). reflexivity.
  - cbn [app lex_quote]. rewrite next_a by exact Hb.
    assert (E1 : Z.eqb (Z.of_N b) 92 = false) by lia.
    assert (E2 : Z.eqb (Z.of_N b) eof || Z.eqb (Z.of_N b) 10 = false) by (unfold eof; lia).
    assert (E3 : Z.eqb (Z.of_N b) 34 = false) by lia.
    rewrite E1, E2, E3. rewrite IH; [|exact Ha|exact Hs|cbn [length] in Hf; lia].
    cbn [rev]. rewrite <- !app_assoc. cbn [app].
    replace (g + 1 + nlen r + 1) with (g + nlen (b :: r) + 1) by (unfold nlen; cbn [length]; lia).
    reflexivity.
  - cbn [app lex_quote]. rewrite next_a by lia. change (Z.of_N 92) with 92%Z.
    cbn [Z.eqb Pos.eqb]. rewrite next_a by exact Hb.
    assert (E : negb (Z.eqb (Z.of_N b) eof) && negb (Z.eqb (Z.of_N b) 10) = true) by (unfold eof; lia).
    rewrite E. rewrite IH; [|exact Ha|exact Hs|cbn [length] in Hf; lia].
    cbn [rev]. rewrite <- !app_assoc. cbn [app].
    replace (g + 1 + 1 + nlen r + 1) with (g + nlen (92 :: b :: r) + 1) by (unfold nlen; cbn [length]; lia).
    reflexivity.
Qed.

Theorem str_emits : forall body rest, qbody body -> fstop rest -> emits tSTR (34 :: body ++ [34]) rest.
Proof.
  intros body rest Hq [Ha Hs] f g w l o Hf. exists (width_at rest).
  assert (Hal : is_alnum (hd_rune rest) = false).
  { unfold stop_rune in Hs. destruct (is_alnum (hd_rune rest)); [discriminate Hs|reflexivity]. }
  cbn [app]. rewrite <- app_assoc. cbn [app].
  rewrite (lex_start_quote f _ _ (next_a [] 34 _ g w l o ltac:(lia))).
  rewrite quote_scan_esc; [|exact Hq|exact Ha|exact Hal|cbn [length] in Hf; rewrite app_length in Hf; lia].
  rewrite emit_mk. cbn [rev]. rewrite rev_app_distr, rev_involutive. cbn [rev app].
  replace (g + 1 + nlen body + 1) with (g + nlen (34 :: body ++ [34]))
    by (unfold nlen; cbn [length]; rewrite app_length; cbn [length]; lia).
  reflexivity.
Qed.

(* 1e. floats: digits, then a fraction ('.' digits) or an exponent ([eE] [+-]? digits) or both *)
Inductive frac_part : bytes -> Prop :=
| frac_none : frac_part []
| frac_some : forall D, digits1 D -> frac_part (46 :: D).
Inductive exp_part : bytes -> Prop :=
| exp_none : exp_part []
| exp_some : forall e s D, (e = 101 \/ e = 69) -> (s = [] \/ s = [43] \/ s = [45]) -> digits1 D ->
    exp_part (e :: s ++ D).
Inductive float_text : bytes -> Prop :=
| float_text_intro : forall ip fp ep, digits1 ip -> frac_part fp -> exp_part ep -> (fp <> [] \/ ep <> []) ->
    float_text (ip ++ fp ++ ep).

Definition fl_frac (fuel : nat) (c : cur) : bool * cur :=
  let '(dot, c1) := accept [46] c in if dot then accept_run fuel digits_set c1 else (true, c1).
Definition fl_exp (fuel : nat) (c2 : cur) : bool * cur :=
  let '(e, c3) := accept [101; 69] c2 in
  if e then (let '(_, c') := accept [43; 45] c3 in accept_run fuel digits_set c') else (true, c3).

Lemma lex_float_eq : forall fuel c, lex_float fuel c =
  let '(ok1, c2) := fl_frac fuel c in
  if negb ok1 then (false, fail LE_dot_digits c2) else
  let '(ok2, c4) := fl_exp fuel c2 in
  if negb ok2 then (false, fail LE_exp_digits c4) else
  let '(r, c5) := peek c4 in
  if Z.eqb r 34 || is_alpha r then sticky_fail c5 else (true, emit tFLOAT c5).
Proof.
  intros fuel c. unfold lex_float, fl_frac. destruct (accept [46] c) as [dot c1].
  destruct (if dot then accept_run fuel digits_set c1 else (true, c1)) as [ok1 c2].
  destruct (negb ok1); [reflexivity|]. unfold fl_exp. destruct (accept [101; 69] c2) as [e c3].
  destruct e; reflexivity.
Qed.

Lemma frac_step : forall fuel fp tail bef g w l o,
  frac_part fp -> arest tail -> is_digit_r (hd_rune tail) = false ->
  (fp = [] -> Z.eqb (hd_rune tail) 46 = false) -> (length fp < fuel)%nat ->
  fl_frac fuel (cmk bef (fp ++ tail) g w l o) =
  (true, cmk (rev fp ++ bef) tail (g + nlen fp) (width_at tail) l o).
Proof.
  intros fuel fp tail bef g w l o Hfp Ha Hd H46 Hf. unfold fl_frac.
  destruct Hfp as [|D HD].
  - cbn [app rev]. rewrite accept_no; [|exact Ha|].
    2:{ unfold zin. cbn [existsb]. specialize (H46 eq_refl). change (Z.of_N 46) with 46%Z. rewrite H46. reflexivity. }
    replace (g + nlen []) with g by (unfold nlen; cbn [length]; lia). reflexivity.
  - cbn [app]. rewrite accept_yes by (reflexivity || lia).
    rewrite digits1_scan; [|exact HD|exact Ha|exact Hd|cbn [length] in Hf; lia].
    cbn [rev]. rewrite <- app_assoc. cbn [app].
    replace (g + 1 + nlen D) with (g + nlen (46 :: D)) by (unfold nlen; cbn [length]; lia).
    reflexivity.
Qed.

Lemma digits1_hd : forall D r, digits1 D -> exists d, hd_rune (D ++ r) = Z.of_N d /\ isdig d = true.
Proof.
  intros [|d D] r [Hne HD]; [congruence|]. exists d. split; [reflexivity|].
  cbn [forallb] in HD. apply andb_prop in HD. tauto.
Qed.

Lemma exp_step : forall fuel ep rest bef g w l o,
  exp_part ep -> arest rest -> is_digit_r (hd_rune rest) = false ->
  zin (hd_rune rest) [101; 69] = false -> (length ep < fuel)%nat ->
  fl_exp fuel (cmk bef (ep ++ rest) g w l o) =
  (true, cmk (rev ep ++ bef) rest (g + nlen ep) (width_at rest) l o).
Proof.
  intros fuel ep rest bef g w l o Hep Ha Hd He Hf. unfold fl_exp.
  destruct Hep as [|e s D He' Hs HD].
  - cbn [app rev]. rewrite accept_no by assumption.
    replace (g + nlen []) with g by (unfold nlen; cbn [length]; lia). reflexivity.
  - assert (Hal : arest (D ++ rest)) by (apply arest_app; [apply digits_ascii; apply HD|exact Ha]).
    cbn [app]. rewrite accept_yes; [|destruct He'; subst e; lia|destruct He'; subst e; reflexivity].
    cbn [length] in Hf. rewrite app_length in Hf.
    destruct Hs as [->|[->| ->]]; cbn [app].
    + destruct (digits1_hd D rest HD) as (d & Hh & Hdd).
      rewrite accept_no; [|exact Hal|].
      2:{ rewrite Hh. unfold isdig in Hdd. unfold zin. cbn [existsb]. lia. }
      rewrite digits1_scan; [|exact HD|exact Ha|exact Hd|lia].
      cbn [rev]. rewrite <- app_assoc. cbn [app].
      replace (g + 1 + nlen D) with (g + nlen (e :: D)) by (unfold nlen; cbn [length]; lia).
      reflexivity.
    + rewrite accept_yes by (reflexivity || lia).
      rewrite digits1_scan; [|exact HD|exact Ha|exact Hd|cbn [length] in Hf; lia].
      cbn [rev]. rewrite <- !app_assoc. cbn [app].
      replace (g + 1 + 1 + nlen D) with (g + nlen (e :: 43 :: D)) by (unfold nlen; cbn [length]; lia).
      reflexivity.
    + rewrite accept_yes by (reflexivity || lia).
      rewrite digits1_scan; [|exact HD|exact Ha|exact Hd|cbn [length] in Hf; lia].
      cbn [rev]. rewrite <- !app_assoc. cbn [app].
      replace (g + 1 + 1 + nlen D) with (g + nlen (e :: 45 :: D)) by (unfold nlen; cbn [length]; lia).
      reflexivity.
Qed.

Theorem float_emits : forall t rest, float_text t -> fstop rest -> emits tFLOAT t rest.
Proof.
  intros t rest [ip fp ep Hip Hfp Hep Hne] [Ha Hs] f g w l o Hf. exists (width_at rest).
  rewrite !app_length in Hf.
  assert (HS : is_digit_r (hd_rune rest) = false /\ zin (hd_rune rest) [101; 69] = false /\
               Z.eqb (hd_rune rest) 46 = false /\ Z.eqb (hd_rune rest) 34 || is_alpha (hd_rune rest) = false /\
               Z.eqb (hd_rune rest) 120 = false /\ Z.eqb (hd_rune rest) 88 = false).
  { unfold stop_rune, is_alnum, is_alpha, is_digit_r, zin in *. cbn [existsb]. lia. }
  destruct HS as (S1 & S2 & S3 & S4 & S5 & S6).
  (* the head of ep ++ rest *)
  assert (HE : arest (ep ++ rest) /\ is_digit_r (hd_rune (ep ++ rest)) = false /\
               (ep <> [] -> Z.eqb (hd_rune (ep ++ rest)) 46 = false) /\
               Z.eqb (hd_rune (ep ++ rest)) 120 = false /\ Z.eqb (hd_rune (ep ++ rest)) 88 = false /\
               (ep <> [] -> Z.eqb (hd_rune (ep ++ rest)) 46 || Z.eqb (hd_rune (ep ++ rest)) 101
                            || Z.eqb (hd_rune (ep ++ rest)) 69 = true)).
  { destruct Hep as [|e s D He' Hs' HD].
    - cbn [app]. repeat split; auto; congruence.
    - cbn [app arest hd_rune]. unfold is_digit_r. destruct He'; subst e; repeat split; intros; reflexivity || lia. }
  destruct HE as (E1 & E2 & E3 & E4 & E5 & E6).
  (* the head of fp ++ ep ++ rest *)
  assert (HF : numstop (fp ++ ep ++ rest) /\
               Z.eqb (hd_rune (fp ++ ep ++ rest)) 46 || Z.eqb (hd_rune (fp ++ ep ++ rest)) 101
                 || Z.eqb (hd_rune (fp ++ ep ++ rest)) 69 = true).
  { unfold numstop. destruct Hfp as [|D HD].
    - cbn [app]. destruct Hne as [Hne|Hne]; [congruence|]. repeat split; auto.
    - cbn [app arest hd_rune]. unfold is_digit_r. repeat split; reflexivity || lia. }
  destruct HF as (F1 & F2).
  rewrite <- !app_assoc. rewrite start_digits1 by exact Hip.
  rewrite number_prefix; [|exact Hip|exact F1|lia].
  unfold num_cont. rewrite peek_ar by apply F1. rewrite F2.
  rewrite lex_float_eq.
  rewrite frac_step; [|exact Hfp|exact E1|exact E2| |lia].
  2:{ intros ->. apply E3. destruct Hne; congruence. }
  cbn [negb]. rewrite exp_step; [|exact Hep|exact Ha|exact S1|exact S2|lia].
  cbn [negb]. rewrite peek_ar by exact Ha. rewrite S4, emit_mk.
  rewrite !rev_app_distr, !rev_involutive, <- !app_assoc.
  replace (g + nlen ip + nlen fp + nlen ep) with (g + nlen (ip ++ fp ++ ep))
    by (unfold nlen; rewrite !app_length; lia).
  reflexivity.
Qed.

(* ---------------------------------------------------------------------------------------- *)
(* 2. tokens that carry a text the lexer produces for their type                               *)
(* ---------------------------------------------------------------------------------------- *)
(* the tokens with a fixed text: keywords, one- and two-character tokens *)
Definition fixed_text (t : tok) : option bytes :=
  match t with
  | tVAR => Some (bs "var") | tDEF => Some (bs "def") | tEVAL => Some (bs "eval") | tPRINT => Some (bs "print")
  | tBIND => Some (bs "bind") | tTRUE => Some (bs "true") | tFALSE => Some (bs "false") | tNIL => Some (bs "nil")
  | tNOT => Some (bs "not") | tAND => Some (bs "and") | tOR => Some (bs "or")
  | tEQ => Some (bs "=") | tLCURLY => Some (bs "{") | tRCURLY => Some (bs "}")
  | tLPAREN => Some (bs "(") | tRPAREN => Some (bs ")") | tLT => Some (bs "<") | tGT => Some (bs ">")
  | tPLUS => Some (bs "+") | tMINUS => Some (bs "-") | tSTAR => Some (bs "*") | tSLASH => Some (bs "/")
  | tCOLON => Some (bs ":") | tSEMICOLON => Some (bs ";")
  | tEE => Some (bs "==") | tBE => Some (bs "!=") | tLE => Some (bs "<=") | tGE => Some (bs ">=")
  | tARROW => Some (bs "->")
  | _ => None
  end.

Definition lexable (t : token) : Prop :=
  match ttyp t with
  | tIDENT => ident_text (tval t) /\ keyword_of (tval t) = None
  | tINT => digits1 (tval t)
  | tFLOAT => float_text (tval t)
  | tSTR => exists body, tval t = 34 :: body ++ [34] /\ qbody body
  | tEOF | tERR | tFAIL => False
  | k => fixed_text k = Some (tval t)
  end.

Ltac kw_emits Hs := refine (word_emits _ _ _ Hs); split; reflexivity.

Theorem lexable_emits : forall t rest, lexable t -> fstop rest -> emits (ttyp t) (tval t) rest.
Proof.
  intros [ty v e p] rest H Hs. unfold lexable in H. cbn [ttyp tval] in *.
  assert (Ha : arest rest) by apply Hs.
  assert (H61 : Z.eqb (hd_rune rest) 61 = false /\ Z.eqb (hd_rune rest) 62 = false).
  { destruct Hs as [_ Hs]. unfold stop_rune in Hs.
    destruct (Z.eqb (hd_rune rest) 61); [rewrite !orb_true_r in Hs; discriminate Hs|].
    destruct (Z.eqb (hd_rune rest) 62); [rewrite !orb_true_r in Hs; discriminate Hs|]. split; reflexivity. }
  destruct H61 as [H61 H62].
  destruct ty; try contradiction; cbn [fixed_text] in H; try (injection H as <-).
  - apply int_emits; assumption.
  - apply float_emits; assumption.
  - destruct H as (body & -> & Hq). apply str_emits; assumption.
  - destruct H as [Hi Hk]. pose proof (word_emits v rest Hi Hs) as W. unfold word_tok in W. rewrite Hk in W. exact W.
  - kw_emits Hs.
  - kw_emits Hs.
  - kw_emits Hs.
  - kw_emits Hs.
  - kw_emits Hs.
  - kw_emits Hs.
  - kw_emits Hs.
  - kw_emits Hs.
  - apply (one_of_two_emits 61 tEQ 61%Z tEE); [lia|reflexivity|reflexivity|exact Ha|exact H61].
  - apply one_rune_emits; [lia|reflexivity|reflexivity].
  - apply one_rune_emits; [lia|reflexivity|reflexivity].
  - apply one_rune_emits; [lia|reflexivity|reflexivity].
  - apply one_rune_emits; [lia|reflexivity|reflexivity].
  - kw_emits Hs.
  - kw_emits Hs.
  - kw_emits Hs.
  - apply (two_rune_emits 61 61); [lia|lia|reflexivity].
  - apply (two_rune_emits 33 61); [lia|lia|reflexivity].
  - apply (one_of_two_emits 60 tLT 61%Z tLE); [lia|reflexivity|reflexivity|exact Ha|exact H61].
  - apply (two_rune_emits 60 61); [lia|lia|reflexivity].
  - apply (one_of_two_emits 62 tGT 61%Z tGE); [lia|reflexivity|reflexivity|exact Ha|exact H61].
  - apply (two_rune_emits 62 61); [lia|lia|reflexivity].
  - apply one_rune_emits; [lia|reflexivity|reflexivity].
  - apply (one_of_two_emits 45 tMINUS 62%Z tARROW); [lia|reflexivity|reflexivity|exact Ha|exact H62].
  - apply one_rune_emits; [lia|reflexivity|reflexivity].
  - apply one_rune_emits; [lia|reflexivity|reflexivity].
  - apply one_rune_emits; [lia|reflexivity|reflexivity].
  - apply (two_rune_emits 45 62); [lia|lia|reflexivity].
  - apply one_rune_emits; [lia|reflexivity|reflexivity].
Qed.

(* the first character of a token text: ASCII, not white space *)
Definition head_ok (text : bytes) : Prop :=
  exists b r, text = b :: r /\ b < 128 /\ is_space (Z.of_N b) = false.

Lemma digits1_head : forall D, digits1 D -> head_ok D.
Proof.
  intros [|d D] [Hne HD]; [congruence|]. exists d, D. split; [reflexivity|].
  cbn [forallb] in HD. apply andb_prop in HD. destruct HD as [Hd _]. unfold isdig in Hd.
  unfold is_space, zin. cbn [existsb]. lia.
Qed.

Lemma lexable_head : forall t, lexable t -> head_ok (tval t).
Proof.
  intros [ty v e p] H. unfold lexable in H. cbn [ttyp tval] in *.
  destruct ty; try contradiction; cbn [fixed_text] in H; try (injection H as <-);
    try (eexists; eexists; split; [reflexivity|split; [cbn; lia|reflexivity]]).
  - apply digits1_head; assumption.
  - destruct H as [ip fp ep Hip _ _ _]. destruct (digits1_head ip Hip) as (b & r & -> & Hb).
    exists b, (r ++ fp ++ ep). split; [reflexivity|exact Hb].
  - destruct H as (body & -> & _). eexists; eexists. split; [reflexivity|split; [lia|reflexivity]].
  - destruct H as [Hi _]. destruct v as [|b r]; [destruct Hi|]. destruct Hi as [Hi _].
    exists b, r. split; [reflexivity|]. unfold ident_start, is_alpha in Hi. unfold is_space, zin. cbn [existsb]. lia.
Qed.

(* ---------------------------------------------------------------------------------------- *)
(* 3. rendering a token list, and lexing it back                                               *)
(* ---------------------------------------------------------------------------------------- *)
(* the texts joined by `sep` *)
Fixpoint tail_sep (sep : bytes) (ts : list token) : bytes :=
  match ts with [] => [] | t :: r => sep ++ tval t ++ tail_sep sep r end.
Definition render_sep (sep : bytes) (ts : list token) : bytes :=
  match ts with [] => [] | t :: r => tval t ++ tail_sep sep r end.

(* the end of the input is not written: it produces its token by itself *)
Definition no_eof (ts : list token) : list token := filter (fun t => negb (tok_eqb (ttyp t) tEOF)) ts.
Definition render (ts : list token) : bytes := render_sep [32] (no_eof ts).

(* (type, text, no error): what the lexer delivers for a token, up to the position *)
Definition tnp (t : token) : tok * bytes * option lexerr := (ttyp t, tval t, None).

Section Sep.
Variable sep : bytes.
Hypothesis sep_ne : sep <> [].
Hypothesis sep_ws : Forall ws_byte sep.

Lemma fstop_tail : forall ts, fstop (tail_sep sep ts).
Proof.
  intros [|t r]; [apply fstop_nil|]. cbn [tail_sep]. destruct sep as [|b s] eqn:E; [congruence|].
  cbn [app]. apply fstop_ws. inversion sep_ws; assumption.
Qed.

Lemma eof_step : forall s f g w l o,
  lex_run (S s) f (cmk [] [] g w l o) = cmk [] [] g 0 l (ltok tEOF [] g :: o).
Proof. reflexivity. Qed.

Lemma peek_head : forall text tail, head_ok text -> is_space (peek_rune (text ++ tail)) = false.
Proof.
  intros text tail (b & r & -> & Hb & Hs). cbn [app peek_rune]. rewrite decode_ascii by exact Hb. exact Hs.
Qed.

Lemma tail_run : forall ts, Forall lexable ts -> forall s f g w l o,
  (length (tail_sep sep ts) < s)%nat -> (length (tail_sep sep ts) < f)%nat ->
  map nopos (rev (out (lex_run s f (cmk [] (tail_sep sep ts) g w l o)))) =
  map nopos (rev o) ++ map tnp ts ++ [(tEOF, [], None)].
Proof.
  induction 1 as [|t ts Ht Hts IH]; intros s f g w l o Hs Hf.
  - destruct s as [|s]; [lia|]. cbn [tail_sep]. rewrite eof_step.
    cbn [out LayoutProofs.mk rev map app]. rewrite map_app. reflexivity.
  - cbn [tail_sep] in *. rewrite !app_length in Hs, Hf.
    assert (Hl : (1 <= length sep)%nat) by (destruct sep; [congruence|cbn [length]; lia]).
    destruct (lexable_head t Ht) as (b & r & Eb & Hb).
    assert (Hl2 : (1 <= length (tval t))%nat) by (rewrite Eb; cbn [length]; lia).
    destruct s as [|[|s]]; try lia.
    (* the separator *)
    rewrite (lex_run_step _ f _ _
      (C20_space_run_ascii sep (tval t ++ tail_sep sep ts) (cmk [] (sep ++ tval t ++ tail_sep sep ts) g w l o) f
         eq_refl eq_refl sep_ne sep_ws (peek_head _ _ (lexable_head t Ht)) ltac:(lia))).
    cbn [gpos lfs out LayoutProofs.mk].
    (* the token *)
    destruct (lexable_emits t _ Ht (fstop_tail ts) f (g + nlen sep)
                (snd (decode_rune (tval t ++ tail_sep sep ts))) l o ltac:(lia)) as (w' & E).
    rewrite (lex_run_step _ f _ _ E).
    rewrite IH by lia. cbn [rev map]. rewrite map_app, <- app_assoc. reflexivity.
Qed.

Theorem render_run : forall ts, Forall lexable ts -> forall s f g w l o,
  (length (render_sep sep ts) < s)%nat -> (length (render_sep sep ts) < f)%nat ->
  map nopos (rev (out (lex_run s f (cmk [] (render_sep sep ts) g w l o)))) =
  map nopos (rev o) ++ map tnp ts ++ [(tEOF, [], None)].
Proof.
  intros [|t ts] H s f g w l o Hs Hf.
  - apply (tail_run [] H); assumption.
  - inversion H as [|t' ts' Ht Hts]; subst. cbn [render_sep] in *. rewrite app_length in Hs, Hf.
    destruct (lexable_head t Ht) as (b & r & Eb & Hb).
    assert (Hl2 : (1 <= length (tval t))%nat) by (rewrite Eb; cbn [length]; lia).
    destruct s as [|s]; [lia|].
    destruct (lexable_emits t _ Ht (fstop_tail ts) f g w l o ltac:(lia)) as (w' & E).
    rewrite (lex_run_step _ f _ _ E). rewrite (tail_run ts Hts) by lia.
    cbn [rev map]. rewrite map_app, <- app_assoc. reflexivity.
Qed.

Lemma init_flat : forall src, R (init_cur [src]) (cmk [] src 0 0 [] []).
Proof.
  intros. unfold R, abs, init_cur, LayoutProofs.mk. cbn [before after gpos width pending out concat app].
  rewrite !app_nil_r. reflexivity.
Qed.

Lemma lex_flat : forall src, fst (lex [src]) =
  rev (out (lex_run (S (S (length src))) (S (S (length src))) (cmk [] src 0 0 [] []))).
Proof.
  intros src. unfold lex. cbn [fst]. rewrite frev_eq, total_len_concat. cbn [concat]. rewrite app_nil_r.
  pose proof (lex_run_resp (S (S (length src))) (S (S (length src))) _ _ (init_flat src)) as H.
  apply R_fields in H. destruct H as (_ & _ & _ & _ & ->). reflexivity.
Qed.

(* the texts of lexable tokens, joined by white space, are lexed back to the same tokens *)
Theorem lex_render_sep : forall ts, Forall lexable ts ->
  map nopos (fst (lex [render_sep sep ts])) = map tnp ts ++ [(tEOF, [], None)].
Proof.
  intros ts H. rewrite lex_flat. rewrite (render_run ts H) by lia. reflexivity.
Qed.
End Sep.
Print Assumptions lex_render_sep.

Lemma strip_nopos : forall l, map strip l = map (fun x => (fst (fst x), snd (fst x))) (map nopos l).
Proof. intros. rewrite map_map. reflexivity. Qed.

Lemma lexable_no_eof : forall ts, Forall lexable ts -> no_eof ts = ts.
Proof.
  induction 1 as [|t ts Ht Hts IH]; [reflexivity|]. unfold no_eof in *. cbn [filter]. rewrite IH.
  unfold lexable in Ht. destruct (ttyp t); try reflexivity; contradiction.
Qed.

(* the single-space form *)
Theorem lex_render : forall ts, Forall lexable ts ->
  map strip (fst (lex [render ts])) = map strip ts ++ [(tEOF, [])].
Proof.
  intros ts H. unfold render. rewrite (lexable_no_eof ts H), strip_nopos.
  rewrite (lex_render_sep [32]); [|discriminate|repeat constructor; unfold ws_byte; cbn [In]; tauto|exact H].
  rewrite map_app, !map_map. reflexivity.
Qed.

(* ... with the end-of-input token of the list, which is not written *)
Theorem lex_render_eof : forall ts e, Forall lexable ts -> ttyp e = tEOF -> tval e = [] ->
  map strip (fst (lex [render (ts ++ [e])])) = map strip (ts ++ [e]).
Proof.
  intros ts e H He Hv.
  assert (E : render (ts ++ [e]) = render ts).
  { unfold render, no_eof. rewrite filter_app. cbn [filter]. rewrite He. cbn [tok_eqb tok_num N.eqb Pos.eqb negb].
    rewrite app_nil_r. reflexivity. }
  rewrite E, (lex_render ts H), map_app. cbn [map]. unfold strip at 3. rewrite He, Hv. reflexivity.
Qed.

(* any white space will do: a newline, an indentation, ... *)
Theorem lex_render_any_sep : forall sep ts, sep <> [] -> Forall ws_byte sep -> Forall lexable ts ->
  map strip (fst (lex [render_sep sep ts])) = map strip ts ++ [(tEOF, [])].
Proof.
  intros sep ts H1 H2 H. rewrite strip_nopos, (lex_render_sep sep H1 H2 ts H), map_app, !map_map. reflexivity.
Qed.

Print Assumptions lex_render.
Print Assumptions lex_render_eof.
Print Assumptions lex_render_any_sep.

(* ---------------------------------------------------------------------------------------- *)
(* 4. the writer of C05Tokens.v                                                                *)
(* ---------------------------------------------------------------------------------------- *)
(* 4a. the literal texts *)
Lemma dig_isdig : forall D, Forall dig D -> forallb isdig D = true.
Proof.
  induction 1 as [|c r [H1 H2] Hr IH]; [reflexivity|]. cbn [forallb]. rewrite IH. unfold isdig. lia.
Qed.

Lemma int_text_digits1 : forall n, digits1 (int_text n).
Proof.
  intros n. unfold int_text, dec_of_N.
  destruct (dec_digits_spec (N.to_nat (N.size n)) n []) as (D & E1 & E2 & E3 & E4).
  { rewrite N2Nat.id. pose proof (N.size_gt n). lia. }
  rewrite E1, app_nil_r. split; [|apply dig_isdig; exact E2].
  destruct E4 as [[_ ->]|(c & r & -> & _)]; discriminate.
Qed.

Lemma hex_digit_raw : forall d r, d < 16 -> qbody r -> qbody (hex_digit d :: r).
Proof.
  intros d r H Hr. unfold hex_digit. destruct (d <? 10) eqn:E; apply qb_raw; try lia; exact Hr.
Qed.

Lemma esc_qbody : forall b, byte_ok b -> qbody (esc_byte b).
Proof.
  intros b Hb. unfold byte_ok in Hb. unfold esc_byte.
  destruct (b =? 34) eqn:E1; [apply qb_esc; [lia|lia|constructor]|].
  destruct (b =? 92) eqn:E2; [apply qb_esc; [lia|lia|constructor]|].
  destruct ((b <? 32) || (127 <=? b)) eqn:E3.
  - apply qb_esc; [lia|lia|]. unfold hex_of_byte.
    apply hex_digit_raw; [lia|]. apply hex_digit_raw; [lia|constructor].
  - apply qb_raw; try lia. constructor.
Qed.

Lemma quote_text_lexable : forall s, Forall byte_ok s -> lexable (tmk tSTR (quote_text s)).
Proof.
  intros s Hs. unfold lexable. cbn [ttyp tval C05Tokens.mk]. exists (flat_map esc_byte s).
  split; [reflexivity|]. induction Hs as [|b r Hb Hr IH]; [constructor|].
  cbn [flat_map]. apply qbody_app; [apply esc_qbody; exact Hb|exact IH].
Qed.

(* a key, a block type: an identifier that is not a keyword *)
Definition word_ok (w : bytes) : Prop := ident_text w /\ keyword_of w = None.

Section WriterText.
Variable ftext : N -> bytes.

(* the float texts actually written are float literals of the lexer *)
Definition lit_lex_ok (x : value) : Prop :=
  match x with
  | VFloat b => float_text (ftext (if b <? 2^63 then b else b - 2^63))
  | _ => True
  end.

(* block types and the keys of scalar fields are identifiers; floats as above *)
Fixpoint lex_ok (v : value) : Prop :=
  match v with
  | VBlock t _ fs =>
    word_ok t /\
    (fix go (l : list (bytes * value)) : Prop :=
       match l with
       | [] => True
       | kx :: r => (match kx with
                     | (k, x) => match x with VBlock _ _ _ => lex_ok x | _ => word_ok k /\ lit_lex_ok x end
                     end) /\ go r
       end) fs
  | _ => False
  end.

Definition item_lex_ok (kx : bytes * value) : Prop :=
  match snd kx with VBlock _ _ _ => lex_ok (snd kx) | _ => word_ok (fst kx) /\ lit_lex_ok (snd kx) end.

Lemma lex_ok_block : forall t n fs, lex_ok (VBlock t n fs) <-> word_ok t /\ Forall item_lex_ok fs.
Proof.
  intros t n fs. cbn [lex_ok].
  match goal with |- _ /\ ?a <-> _ => assert (E : a <-> Forall item_lex_ok fs) end.
  { induction fs as [|[k x] r IH]; [split; [constructor|exact (fun _ => I)]|].
    split.
    - intros [A B]. constructor; [destruct x; exact A|apply IH; exact B].
    - intros H. inversion H as [|kx r0 A B]; subst. split; [destruct x; exact A|apply IH; exact B]. }
  rewrite E. reflexivity.
Qed.

Lemma lit_lexable : forall x, lit_ok ftext x -> lit_lex_ok x -> Forall lexable (tokens_of_expr_lit ftext x).
Proof.
  intros x Hx Hl. destruct x as [|[|]|z|b|s|t n fs]; cbn [lit_ok lit_lex_ok] in *; unfold tokens_of_expr_lit.
  - repeat constructor.
  - repeat constructor.
  - repeat constructor.
  - destruct (0 <=? z)%Z; [|destruct (z =? - 2^63)%Z];
      repeat (constructor; [first [reflexivity | apply int_text_digits1]|]); constructor.
  - destruct (b <? 2^63); repeat (constructor; [first [reflexivity | exact Hl]|]); constructor.
  - constructor; [apply quote_text_lexable; exact Hx|constructor].
  - destruct Hx.
Qed.

Lemma word_lexable : forall w, word_ok w -> lexable (tmk tIDENT w).
Proof. intros w H. exact H. Qed.

Lemma block_lexable : forall d x, (bdepth x <= d)%nat -> text_ok ftext x -> lex_ok x ->
  Forall lexable (tokens_of_block ftext x).
Proof.
  induction d as [|d IH]; intros x Hd Ht Hl; destruct x as [| | | | |t n fs]; try (exfalso; exact Ht).
  - pose proof (bdepth_block_pos t n fs). lia.
  - apply text_ok_block in Ht. destruct Ht as [Hn Hfs].
    apply lex_ok_block in Hl. destruct Hl as [Hw Hls].
    rewrite tokens_of_block_eq. constructor; [reflexivity|]. constructor; [apply word_lexable; exact Hw|].
    apply Forall_app. split.
    { destruct n; [constructor|]. constructor; [apply quote_text_lexable; exact Hn|constructor]. }
    constructor; [reflexivity|].
    apply Forall_app. split; [|repeat constructor].
    apply Forall_forall. intros tk Hin. apply in_flat_map in Hin. destruct Hin as ([k y] & Hin1 & Hin2).
    pose proof (bdepth_in t n fs k y Hin1) as Hlt.
    rewrite Forall_forall in Hfs, Hls. specialize (Hfs _ Hin1). specialize (Hls _ Hin1).
    unfold item_text_ok in Hfs. unfold item_lex_ok in Hls. cbn [fst snd] in Hfs, Hls.
    assert (Hs : (match y with VBlock _ _ _ => False | _ => True end) ->
                 lit_ok ftext y -> word_ok k /\ lit_lex_ok y ->
                 Forall lexable (tmk tIDENT k :: tmk tEQ (bs "=") :: tokens_of_expr_lit ftext y)).
    { intros _ A [B C]. constructor; [apply word_lexable; exact B|]. constructor; [reflexivity|].
      apply lit_lexable; assumption. }
    destruct y as [| | | | |t' n' fs'];
      try (specialize (Hs I Hfs Hls); rewrite Forall_forall in Hs; apply Hs; exact Hin2).
    assert (Hb : Forall lexable (tokens_of_block ftext (VBlock t' n' fs'))) by (apply IH; [lia|exact Hfs|exact Hls]).
    rewrite Forall_forall in Hb. apply Hb. exact Hin2.
Qed.

Theorem writer_lexable : forall b, text_ok ftext b -> lex_ok b ->
  Forall lexable (tokens_of_block ftext b ++ bind_struct_tokens (btype b)).
Proof.
  intros b Ht Hl. apply Forall_app. split; [apply (block_lexable _ b (le_n _)); assumption|].
  destruct b as [| | | | |t n fs]; try (exfalso; exact Hl). cbn [btype]. destruct Hl as [Hw _].
  unfold bind_struct_tokens. constructor; [reflexivity|]. constructor; [apply word_lexable; exact Hw|].
  constructor; [reflexivity|]. constructor; [|constructor]. split; [split|]; reflexivity.
Qed.

(* 4b. the written text is lexed back to the written tokens *)
Theorem lex_writer : forall b, text_ok ftext b -> lex_ok b ->
  map strip (fst (lex [render (tokens_of_prog ftext b)])) = map strip (tokens_of_prog ftext b).
Proof.
  intros b Ht Hl. unfold tokens_of_prog. rewrite app_assoc.
  apply lex_render_eof; [apply writer_lexable; assumption|reflexivity|reflexivity].
Qed.

(* 4c. ... hence the grammar reads the writer's tree from the text *)
Theorem text_parse : forall t n fs, text_ok ftext (VBlock t n fs) -> lex_ok (VBlock t n fs) ->
  ast_program (fst (lex [render (tokens_of_prog ftext (VBlock t n fs))])) = Some (prog_of_block (VBlock t n fs)).
Proof.
  intros t n fs Ht Hl.
  rewrite (ast_ignores_positions _ _ (lex_writer _ Ht Hl)). apply tokens_parse. exact Ht.
Qed.

(* 4d. ... and the real parser, given the text, compiles exactly the generator's code *)
Theorem parse_written_text : forall t n fs name, text_ok ftext (VBlock t n fs) -> lex_ok (VBlock t n fs) ->
  let b := VBlock t n fs in
  let pr := parse_whole name (render (tokens_of_prog ftext b)) in
  pr_ok pr = true /\ pr_oof pr = false /\ pr_panic pr = false /\
  pr_prog pr = prog_of_tree (prog_of_block b) name (g_pos (pr_prog pr)) (g_lfs (pr_prog pr)).
Proof.
  intros t n fs name Ht Hl b pr.
  pose proof (parser_accepts_written ftext t n fs Ht) as H. cbv zeta in H. fold b in H.
  destruct H as (E1 & E2 & E3 & E4 & E5 & _).
  pose proof (lex_writer b Ht Hl) as HS. symmetry in HS.
  destruct (same_tokens_same_program _ _ (tokens_of_prog_shape ftext b) HS E1 E2 E3) as (F1 & F2 & F3 & _).
  destruct (same_tokens_same_outcome _ _ (tokens_of_prog_shape ftext b) HS E1 E2 E3) as (G1 & G2 & _).
  unfold pr, parse_whole, parse_chunks.
  destruct (lex [render (tokens_of_prog ftext b)]) as [ts l0]. cbn [fst] in *.
  cbn [pr_ok pr_oof pr_panic pr_prog g_pos g_lfs]. rewrite F1, G1, G2.
  repeat split. unfold prog_of_tree. rewrite !frev_eq, <- F2, <- F3, E4, E5. reflexivity.
Qed.

(* 4e. C05 at byte level: the text written for a Go value, parsed and executed, binds that value *)
Theorem C05_text_roundtrip : forall d tn fs l bt name,
  bfam d (TStruct tn fs) -> (d <= 64)%nat -> inhabits (TStruct tn fs) (GStruct l) ->
  (tn = [] \/ unsnake_eq tn bt = true) ->
  vals_ok (GStruct l) -> gtext_ok ftext (GStruct l) ->
  let b := tree_of (TStruct tn fs) (GStruct l) bt in
  lex_ok b -> csize b + 1 < 2^64 ->
  let src := render (tokens_of_prog ftext b) in
  map strip (fst (lex [src])) = map strip (tokens_of_prog ftext b) /\
  let pr := parse_whole name src in
  pr_ok pr = true /\ pr_oof pr = false /\ pr_panic pr = false /\
  let rr := execute (pr_prog pr) false false in
  (limit_res (rr_res rr) \/
   exists b', rr_res rr = VOk /\ rr_binding rr = BStruct b' /\ print_lines (rr_out rr) = [] /\ rr_warn rr = [] /\
     bind (TgtPtr (TStruct tn fs) GZero) (BdStruct b') = BOk (GPtrTo (GStruct l))).
Proof.
  intros d tn fs l bt name Hfam Hd Hinh Htn Hv Ht b Hl Hsz src.
  pose proof (tree_of_text_ok ftext d tn fs l bt Hfam Hinh Ht) as Hok. fold b in Hok.
  assert (Eb : b = VBlock bt (name_of fs l) (tentries fs l)) by (unfold b; apply tree_of_struct).
  split; [apply lex_writer; assumption|].
  intros pr.
  pose proof Hok as Hok'. pose proof Hl as Hl'. rewrite Eb in Hok', Hl'.
  pose proof (parse_written_text _ _ _ name Hok' Hl') as H. cbv zeta in H. rewrite <- Eb in H.
  fold src in H. fold pr in H. destruct H as (P1 & P2 & P3 & P4).
  repeat (split; [assumption|]). intros rr. unfold rr. rewrite P4.
  exact (proj2 (C05_code_roundtrip_bfam d tn fs l bt name _ _ Hfam Hd Hinh Htn Hv Hsz)).
Qed.
(* 4f. the slice form: def ... def ... bind T:all -> slice *)
Theorem writer_lexable_slice : forall bt l, word_ok bt ->
  Forall (fun x => text_ok ftext x /\ lex_ok x) l ->
  Forall lexable (flat_map (tokens_of_block ftext) l ++ bind_slice_tokens bt).
Proof.
  intros bt l Hw Hl. apply Forall_app. split.
  - apply Forall_forall. intros tk Hin. apply in_flat_map in Hin. destruct Hin as (x & Hx & Hin).
    rewrite Forall_forall in Hl. destruct (Hl x Hx) as [A B].
    pose proof (block_lexable _ x (le_n _) A B) as H. rewrite Forall_forall in H. apply H. exact Hin.
  - unfold bind_slice_tokens. constructor; [reflexivity|]. constructor; [apply word_lexable; exact Hw|].
    constructor; [reflexivity|]. constructor; [split; [split|]; reflexivity|].
    constructor; [reflexivity|]. constructor; [|constructor]. split; [split|]; reflexivity.
Qed.

Theorem lex_writer_slice : forall bt l, word_ok bt ->
  Forall (fun x => text_ok ftext x /\ lex_ok x) l ->
  map strip (fst (lex [render (tokens_of_progs ftext bt l)])) = map strip (tokens_of_progs ftext bt l).
Proof.
  intros bt l Hw Hl. unfold tokens_of_progs. rewrite app_assoc.
  apply lex_render_eof; [apply writer_lexable_slice; assumption|reflexivity|reflexivity].
Qed.

Theorem parse_written_text_slice : forall bt l name, word_ok bt ->
  Forall (fun x => exists t n fs, x = VBlock t n fs /\ text_ok ftext x) l -> Forall lex_ok l ->
  let pr := parse_whole name (render (tokens_of_progs ftext bt l)) in
  pr_ok pr = true /\ pr_oof pr = false /\ pr_panic pr = false /\
  pr_prog pr = prog_of_tree (prog_of_blocks bt l) name (g_pos (pr_prog pr)) (g_lfs (pr_prog pr)).
Proof.
  intros bt l name Hw Ht Hl pr.
  pose proof (parser_accepts_written_slice ftext bt l Ht) as H. cbv zeta in H.
  destruct H as (E1 & E2 & E3 & E4 & E5 & _).
  assert (Hboth : Forall (fun x => text_ok ftext x /\ lex_ok x) l).
  { rewrite Forall_forall in *. intros x Hx. split; [|apply Hl; exact Hx].
    destruct (Ht x Hx) as (t & n & fs & _ & A). exact A. }
  pose proof (lex_writer_slice bt l Hw Hboth) as HS. symmetry in HS.
  destruct (same_tokens_same_program _ _ (tokens_of_progs_shape ftext bt l) HS E1 E2 E3) as (F1 & F2 & F3 & _).
  destruct (same_tokens_same_outcome _ _ (tokens_of_progs_shape ftext bt l) HS E1 E2 E3) as (G1 & G2 & _).
  unfold pr, parse_whole, parse_chunks.
  destruct (lex [render (tokens_of_progs ftext bt l)]) as [ts l0]. cbn [fst] in *.
  cbn [pr_ok pr_oof pr_panic pr_prog g_pos g_lfs]. rewrite F1, G1, G2.
  repeat split. unfold prog_of_tree. rewrite !frev_eq, <- F2, <- F3, E4, E5. reflexivity.
Qed.

Theorem C05_text_roundtrip_slice : forall d tn fs vals bt v0 name,
  bfam d (TStruct tn fs) -> (d <= 64)%nat -> vals <> [] ->
  Forall (fun v => inhabits (TStruct tn fs) v /\ vals_ok v) vals ->
  Forall (fun v => inhabits (TStruct tn fs) v /\ gtext_ok ftext v) vals ->
  (tn = [] \/ unsnake_eq tn bt = true) ->
  let bl := map (fun v => tree_of (TStruct tn fs) v bt) vals in
  word_ok bt -> Forall lex_ok bl -> csizes bl + 1 < 2^64 ->
  let src := render (tokens_of_progs ftext bt bl) in
  map strip (fst (lex [src])) = map strip (tokens_of_progs ftext bt bl) /\
  let pr := parse_whole name src in
  pr_ok pr = true /\ pr_oof pr = false /\ pr_panic pr = false /\
  let rr := execute (pr_prog pr) false false in
  (limit_res (rr_res rr) \/
   exists bl', rr_res rr = VOk /\ rr_binding rr = BSlice bl' /\ print_lines (rr_out rr) = [] /\ rr_warn rr = [] /\
     bind (TgtPtr (TSlice (TStruct tn fs)) v0) (BdSlice bl') = BOk (GPtrTo (GSlice vals))).
Proof.
  intros d tn fs vals bt v0 name Hfam Hd Hne Hall Htx Htn bl Hw Hl Hsz src.
  pose proof (slice_blocks_text_ok ftext d tn fs vals bt Hfam Htx) as Ht. fold bl in Ht.
  split.
  - apply lex_writer_slice; [exact Hw|]. rewrite Forall_forall in *. intros x Hx.
    split; [|apply Hl; exact Hx]. destruct (Ht x Hx) as (t & n & fs' & _ & A). exact A.
  - intros pr. pose proof (parse_written_text_slice bt bl name Hw Ht Hl) as H. cbv zeta in H.
    fold src in H. fold pr in H. destruct H as (P1 & P2 & P3 & P4).
    repeat (split; [assumption|]). intros rr. unfold rr. rewrite P4.
    exact (proj2 (C05_code_roundtrip_slice_bfam d tn fs vals bt v0 name _ _ Hfam Hd Hne Hall Htn Hsz)).
Qed.
End WriterText.

Print Assumptions writer_lexable.
Print Assumptions lex_writer.
Print Assumptions text_parse.
Print Assumptions parse_written_text.
Print Assumptions C05_text_roundtrip.
Print Assumptions C05_text_roundtrip_slice.

(* ---------------------------------------------------------------------------------------- *)
(* 5. examples, and why the side conditions are there                                          *)
(* ---------------------------------------------------------------------------------------- *)
Lemma one_lexable : forall t, lexable t -> Forall lexable [t].
Proof. intros t H. constructor; [exact H|constructor]. Qed.

(* a lexable text on its own is one token *)
Theorem lex_one : forall t, lexable t -> map strip (fst (lex [tval t])) = [(ttyp t, tval t); (tEOF, [])].
Proof.
  intros t H. pose proof (lex_render [t] (one_lexable t H)) as E. unfold render in E.
  rewrite (lexable_no_eof _ (one_lexable t H)) in E. cbn [render_sep tail_sep] in E.
  rewrite app_nil_r in E. exact E.
Qed.

(* one float literal on its own: the semantic reading of [float_text] *)
Corollary float_text_lexes : forall t, float_text t ->
  map strip (fst (lex [t])) = [(tFLOAT, t); (tEOF, [])].
Proof.
  intros t H. exact (lex_one (tmk tFLOAT t) H).
Qed.

Corollary int_text_lexes : forall n, map strip (fst (lex [int_text n])) = [(tINT, int_text n); (tEOF, [])].
Proof.
  intros n. exact (lex_one (tmk tINT (int_text n)) (int_text_digits1 n)).
Qed.

Corollary quote_text_lexes : forall s, Forall byte_ok s ->
  map strip (fst (lex [quote_text s])) = [(tSTR, quote_text s); (tEOF, [])].
Proof.
  intros s H. exact (lex_one _ (quote_text_lexable s H)).
Qed.

(* the minus sign of a negative number is a token of its own, separated by the blank *)
Example minus_then_number :
  map strip (fst (lex [render [tMinus; tmk tINT (int_text 5); tMinus; tmk tFLOAT (bs "0.5")]])) =
  [(tMINUS, bs "-"); (tINT, bs "5"); (tMINUS, bs "-"); (tFLOAT, bs "0.5"); (tEOF, [])].
Proof. vm_compute. reflexivity. Qed.

(* the example of C05Tokens.v, as text *)
Example server_text :
  render (tokens_of_prog ex_ftext (tree_of t_server v_server (bs "server"))) =
  bs "def server ""main"" { max_conns = 7 ratio = - 0.5 debug = true offset = - 9223372036854775807 - 1 def listen { host = ""localhost"" port = 8080 } def tls_config ""edge"" { min_version = 12 } } bind server -> struct".
Proof. vm_compute. reflexivity. Qed.

Ltac conjs := repeat match goal with |- _ /\ _ => split end.

Example v_server_lex_ok : lex_ok ex_ftext (tree_of t_server v_server (bs "server")).
Proof.
  vm_compute. conjs; try reflexivity; try exact I.
  apply (float_text_intro [48] [46; 53] []); [split; [discriminate|reflexivity]| |constructor|left; discriminate].
  apply frac_some. split; [discriminate|reflexivity].
Qed.

(* by computation ... *)
Example server_text_lexes :
  let ts := tokens_of_prog ex_ftext (tree_of t_server v_server (bs "server")) in
  map strip (fst (lex [render ts])) = map strip ts.
Proof. vm_compute. reflexivity. Qed.

(* ... and from the theorem: the text is accepted, and what it compiles to binds v_server *)
Example server_text_roundtrip :
  let src := render (tokens_of_prog ex_ftext (tree_of t_server v_server (bs "server"))) in
  let pr := parse_whole (bs "server.bcl") src in
  pr_ok pr = true /\ pr_oof pr = false /\ pr_panic pr = false /\
  let rr := execute (pr_prog pr) false false in
  (limit_res (rr_res rr) \/
   exists b', rr_res rr = VOk /\ rr_binding rr = BStruct b' /\ print_lines (rr_out rr) = [] /\ rr_warn rr = [] /\
     bind (TgtPtr t_server GZero) (BdStruct b') = BOk (GPtrTo v_server)).
Proof.
  apply (C05_text_roundtrip ex_ftext 2);
    [exact t_server_bfam|lia|exact v_server_inhabits|right; vm_compute; reflexivity|exact v_server_vals_ok
    |exact v_server_gtext_ok|exact v_server_lex_ok|vm_compute; reflexivity].
Qed.

(* why a key must not be a keyword: the lexer delivers the keyword token *)
Example keyword_key :
  map strip (fst (lex [render [tmk tIDENT (bs "def"); tmk tEQ (bs "="); tmk tINT (bs "5")]])) =
  [(tDEF, bs "def"); (tEQ, bs "="); (tINT, bs "5"); (tEOF, [])].
Proof. vm_compute. reflexivity. Qed.

(* why identifiers are ASCII: a letter outside ASCII (here U+00E9) is an unknown character *)
Example non_ascii_key :
  map strip (fst (lex [render [tmk tIDENT (bs "caf" ++ [195; 169]); tmk tEQ (bs "=")]])) =
  [(tIDENT, bs "caf"); (tERR, []); (tFAIL, [])].
Proof. vm_compute. reflexivity. Qed.

(* why [float_text] asks for a fraction or an exponent: ParseFloat reads "5" as 5.0, so the premise of
   C05Tokens.v is met, but the lexer reads an integer; "NaN" and "Inf" are identifiers *)
Example float_without_fraction :
  parse_float (bs "5") = inr 4617315517961601024 /\
  map strip (fst (lex [render [tmk tFLOAT (bs "5")]])) = [(tINT, bs "5"); (tEOF, [])] /\
  map strip (fst (lex [render [tmk tFLOAT (bs "NaN")]])) = [(tIDENT, bs "NaN"); (tEOF, [])] /\
  map strip (fst (lex [render [tmk tFLOAT (bs "+Inf")]])) = [(tPLUS, bs "+"); (tIDENT, bs "Inf"); (tEOF, [])].
Proof. vm_compute. repeat split. Qed.

(* why the separator is needed, and why [stop_rune] excludes '=' and '>' *)
Example glued_tokens :
  map strip (fst (lex [bs "-" ++ bs ">"])) = [(tARROW, bs "->"); (tEOF, [])] /\
  map strip (fst (lex [bs "=" ++ bs "="])) = [(tEE, bs "=="); (tEOF, [])] /\
  map strip (fst (lex [bs "x" ++ bs "5"])) = [(tIDENT, bs "x5"); (tEOF, [])] /\
  map strip (fst (lex [bs "5" ++ bs ".5"])) = [(tFLOAT, bs "5.5"); (tEOF, [])].
Proof. vm_compute. repeat split. Qed.

(* why the bytes of a string are escaped: a raw newline ends the literal with an error, a raw quote ends it early *)
Example raw_string_bytes :
  map strip (fst (lex [[34; 97; 10; 98; 34]])) = [(tERR, []); (tFAIL, [])] /\
  map strip (fst (lex [[34; 97; 34; 98; 34]])) = [(tERR, []); (tFAIL, [])] /\
  map strip (fst (lex [quote_text [97; 10; 34; 92; 98]])) = [(tSTR, quote_text [97; 10; 34; 92; 98]); (tEOF, [])].
Proof. vm_compute. repeat split. Qed.

Check lexable_emits.
Check lex_render_sep.
Check lex_render.
Check lex_render_eof.
Check lex_render_any_sep.
Check writer_lexable.
Check lex_writer.
Check text_parse.
Check parse_written_text.
Check C05_text_roundtrip.
Check lex_writer_slice.
Check parse_written_text_slice.
Check C05_text_roundtrip_slice.
Print Assumptions server_text_roundtrip.
