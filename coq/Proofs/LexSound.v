(* LexSound.v: soundness of the lexical grammar.

   Proofs/LexWrite.v gives the lexical grammar as a predicate on tokens ([lexable]) and proves
   it COMPLETE for written text: token lists with lexable texts are lexed back to themselves.
   This file proves the converse direction, for every input and every cut into chunks:

     - every ordinary token the lexer delivers has the shape the grammar gives its type
       ([lex_tokens_lexable]); the grammar has to be widened in two places ([lexable']):
       integer literals may be hexadecimal (0x / 0X and any number of hex digits, none
       included), and the body of a string literal may contain any byte above 127;
     - the text of a token is the piece of the source that ends at its position
       ([lex_token_substring]);
     - when the lexer reaches the end of the input, the token texts and the layout between
       them are the whole source, in order: nothing is dropped, nothing invented ([lex_tiles]).

   Method: on a cursor that holds the whole input (LayoutProofs.mk) one step of the lexer from
   a token start is characterised completely ([lex_start_flat]); the run is a chain of such
   steps ([Tile]); chunk independence (LexerProofs) carries the result to every chunking. *)
From Coq Require Import Lia ZifyN ZifyNat ZifyBool List Bool.
From BCL Require Import Model.Lexer Proofs.LineCalcProofs Proofs.LexerProofs Proofs.LayoutProofs
  Proofs.ParserInvProofs Proofs.LexFuel Proofs.LexLayout Proofs.ReflectProofs Proofs.LexWrite.
Import ListNotations.
Open Scope N_scope.

Ltac Zify.zify_post_hook ::= Z.div_mod_to_equations.

(* ---------------------------------------------------------------------------------------- *)
(* 1. the grammar, widened to what the lexer really delivers                                   *)
(* ---------------------------------------------------------------------------------------- *)
Definition ishex (b : N) : bool :=
  isdig b || ((97 <=? b) && (b <=? 102)) || ((65 <=? b) && (b <=? 70)).

(* decimal digits (leading zeros allowed), or 0x / 0X and hexadecimal digits -- possibly none *)
Definition int_text' (v : bytes) : Prop :=
  digits1 v \/ exists x H, v = 48 :: x :: H /\ (x = 120 \/ x = 88) /\ forallb ishex H = true.

(* between the quotes: any byte but the quote, the backslash and the newline; a backslash and
   any byte but the newline.  (Bytes above 127 included: they are whole or broken UTF-8
   sequences, which the lexer passes through.) *)
Inductive qbody' : bytes -> Prop :=
| qb'_nil : qbody' []
| qb'_raw : forall b r, b <> 34 -> b <> 92 -> b <> 10 -> qbody' r -> qbody' (b :: r)
| qb'_esc : forall b r, b <> 10 -> qbody' r -> qbody' (92 :: b :: r).

Definition lexable' (t : token) : Prop :=
  match ttyp t with
  | tIDENT => ident_text (tval t) /\ keyword_of (tval t) = None
  | tINT => int_text' (tval t)
  | tFLOAT => float_text (tval t)
  | tSTR => exists body, tval t = 34 :: body ++ [34] /\ qbody' body
  | tEOF | tERR | tFAIL => False
  | k => fixed_text k = Some (tval t)
  end.

Lemma qbody_qbody' : forall b, qbody b -> qbody' b.
Proof. induction 1; [apply qb'_nil|apply qb'_raw; assumption|apply qb'_esc; assumption]. Qed.

Theorem lexable_lexable' : forall t, lexable t -> lexable' t.
Proof.
  intros [ty v e p]. unfold lexable, lexable'. cbn [ttyp tval].
  destruct ty; try exact (fun H => H).
  - intros H. left. exact H.
  - intros (body & E & Hq). exists body. split; [exact E|apply qbody_qbody'; exact Hq].
Qed.

(* both widenings are needed *)
Example hex_int_needed :
  map (fun t => (ttyp t, tval t)) (fst (lex [bs "0x1F 0X1f 0x"])) =
    [(tINT, bs "0x1F"); (tINT, bs "0X1f"); (tINT, bs "0x"); (tEOF, [])] /\
  ~ digits1 (bs "0x1F") /\ ~ digits1 (bs "0X1f") /\ ~ digits1 (bs "0x").
Proof. split; [vm_compute; reflexivity|]. repeat split; intros [_ H]; vm_compute in H; discriminate H. Qed.

Lemma qbody_ascii : forall b, qbody b -> forall x, In x b -> x < 128.
Proof.
  induction 1 as [|b r Hb _ _ _ _ IH|b r Hb _ _ IH]; intros x Hx; cbn [In] in Hx.
  - contradiction.
  - destruct Hx as [<-|Hx]; [exact Hb|apply IH; exact Hx].
  - destruct Hx as [<-|[<-|Hx]]; [lia|exact Hb|apply IH; exact Hx].
Qed.

(* a two-byte character, a byte that is no UTF-8 at all, and both after a backslash *)
Example high_bytes_needed :
  map (fun t => (ttyp t, tval t)) (fst (lex [[34; 195; 169; 255; 92; 195; 169; 92; 255; 34]])) =
    [(tSTR, [34; 195; 169; 255; 92; 195; 169; 92; 255; 34]); (tEOF, [])] /\
  ~ (exists body, [34; 195; 169; 255; 92; 195; 169; 92; 255; 34] = 34 :: body ++ [34] /\ qbody body).
Proof.
  split; [vm_compute; reflexivity|]. intros (body & E & Hq).
  injection E as E. destruct body as [|x body]; [discriminate E|]. injection E as <- _.
  pose proof (qbody_ascii _ Hq 195 (or_introl eq_refl)). lia.
Qed.

(* not widened: a raw tab or carriage return in a string is already in [qbody]; "1." and ".5"
   are lexical errors, and so is an identifier with a letter outside ASCII *)
Example not_widened :
  map ttyp (fst (lex [bs "1."])) = [tERR; tFAIL] /\ map ttyp (fst (lex [bs ".5"])) = [tERR; tFAIL] /\
  map ttyp (fst (lex [bs "1e"])) = [tERR; tFAIL] /\ map ttyp (fst (lex [bs "00x1"])) = [tERR; tFAIL] /\
  map ttyp (fst (lex [[97; 195; 169]])) = [tIDENT; tERR; tFAIL] /\
  map (fun t => (ttyp t, tval t)) (fst (lex [[34; 9; 13; 34]])) = [(tSTR, [34; 9; 13; 34]); (tEOF, [])] /\
  qbody [9; 13].
Proof.
  repeat split; try (vm_compute; reflexivity).
  apply qb_raw; try lia. apply qb_raw; try lia. apply qb_nil.
Qed.

(* the first character of a token text: ASCII, not white space *)
Lemma lexable'_head : forall t, lexable' t -> head_ok (tval t).
Proof.
  intros [ty v e p] H. unfold lexable' in H. cbn [ttyp tval] in *.
  destruct ty; try contradiction; cbn [fixed_text] in H; try (injection H as <-);
    try (eexists; eexists; split; [reflexivity|split; [cbn; lia|reflexivity]]).
  - destruct H as [H|(x & Hx & -> & _)]; [apply digits1_head; exact H|].
    eexists; eexists. split; [reflexivity|split; [lia|reflexivity]].
  - destruct H as [ip fp ep Hip _ _ _]. destruct (digits1_head ip Hip) as (b & r & -> & Hb).
    exists b, (r ++ fp ++ ep). split; [reflexivity|exact Hb].
  - destruct H as (body & -> & _). eexists; eexists. split; [reflexivity|split; [lia|reflexivity]].
  - destruct H as [Hi _]. destruct v as [|b r]; [destruct Hi|]. destruct Hi as [Hi _].
    exists b, r. split; [reflexivity|]. unfold ident_start, is_alpha in Hi. unfold is_space, zin. cbn [existsb]. lia.
Qed.

(* ---------------------------------------------------------------------------------------- *)
(* 2. next, backup, peek, accept on a cursor that holds the whole input                        *)
(* ---------------------------------------------------------------------------------------- *)
Definition hi (p : bytes) : Prop := Forall (fun b => 128 <= b) p.

(* next: the end of the input; one ASCII byte; or a rune >= 128 (U+FFFD for broken UTF-8)
   whose bytes are all >= 128 *)
Lemma next_cases : forall bef aft g w l o,
  (aft = [] /\ next (cmk bef aft g w l o) = (eof, cmk bef [] g 0 l o)) \/
  (exists b rest, aft = b :: rest /\ b < 128 /\
     next (cmk bef aft g w l o) = (Z.of_N b, cmk (b :: bef) rest (g + 1) 1 l o)) \/
  (exists pre rest r, aft = pre ++ rest /\ pre <> [] /\ hi pre /\ 128 <= r /\
     next (cmk bef aft g w l o) = (Z.of_N r, cmk (rev pre ++ bef) rest (g + nlen pre) (length pre) l o)).
Proof.
  intros bef [|b0 l0] g w l o; [left; split; reflexivity|right].
  destruct (N.ltb_spec b0 128) as [Hb|Hb].
  - left. exists b0, l0. split; [reflexivity|]. split; [exact Hb|]. apply next_a; exact Hb.
  - right. destruct (decode_rune_shape b0 l0) as (cont & post & E & Hw & HF & Hr).
    exists (b0 :: cont), post, (fst (decode_rune (b0 :: l0))).
    split; [cbn [app]; rewrite E; reflexivity|]. split; [discriminate|].
    split; [constructor; [exact Hb|exact HF]|]. split; [destruct Hr as [(_ & H & _)|Hr]; [lia|exact Hr]|].
    subst l0. change (b0 :: cont ++ post) with ((b0 :: cont) ++ post).
    apply next_mk; [|discriminate]. cbn [length]. rewrite <- Hw. apply surjective_pairing.
Qed.

Lemma next_rune : forall bef aft g w l o, fst (next (cmk bef aft g w l o)) = peek_rune aft.
Proof.
  intros. pose proof (peek_mk bef aft g w l o) as H. unfold peek in H.
  destruct (next (cmk bef aft g w l o)) as [r c1]. injection H as H _. exact H.
Qed.

Lemma nb_flat : forall bef aft g w l o,
  backup (snd (next (cmk bef aft g w l o))) = cmk bef aft g (snd (decode_rune aft)) l o.
Proof.
  intros. pose proof (peek_mk bef aft g w l o) as H. unfold peek in H.
  destruct (next (cmk bef aft g w l o)) as [r c1]. injection H as _ H. exact H.
Qed.

(* next as a pair of the rune and the cursor; the cursor gives back the whole by backup *)
Lemma next_pair : forall bef aft g w l o, exists c1,
  next (cmk bef aft g w l o) = (peek_rune aft, c1) /\
  backup c1 = cmk bef aft g (snd (decode_rune aft)) l o.
Proof.
  intros. exists (snd (next (cmk bef aft g w l o))). split; [|apply nb_flat].
  rewrite <- (next_rune bef aft g w l o). apply surjective_pairing.
Qed.

Lemma peek_rune_ascii : forall b r, b < 128 -> peek_rune (b :: r) = Z.of_N b.
Proof. intros. cbn [peek_rune]. rewrite decode_ascii by assumption. reflexivity. Qed.

(* an ASCII rune has been read: one byte *)
Lemma next_ascii_inv : forall bef aft g w l o c1,
  next (cmk bef aft g w l o) = (peek_rune aft, c1) -> (0 <= peek_rune aft < 128)%Z ->
  exists b rest, aft = b :: rest /\ b < 128 /\ peek_rune aft = Z.of_N b /\
                 c1 = cmk (b :: bef) rest (g + 1) 1 l o.
Proof.
  intros bef aft g w l o c1 E Hr.
  destruct (next_cases bef aft g w l o) as [(-> & E')|[(b & rest & -> & Hb & E')|(pre & rest & r & -> & _ & _ & Hr' & E')]];
    rewrite E' in E.
  - cbn [peek_rune] in Hr. unfold eof in Hr. lia.
  - injection E as E1 E2. exists b, rest. repeat split; auto.
  - injection E as E1 E2. lia.
Qed.

Lemma zin_In : forall b v, zin (Z.of_N b) v = true -> In b v.
Proof.
  intros b v H. unfold zin in H. apply existsb_exists in H. destruct H as (x & Hx & E).
  apply Z.eqb_eq in E. apply N2Z.inj in E. subst x. exact Hx.
Qed.

Lemma zin_range : forall z v, (forall x, In x v -> x < 128) -> zin z v = true -> (0 <= z < 128)%Z.
Proof.
  intros z v Hv H. unfold zin in H. apply existsb_exists in H. destruct H as (x & Hx & E).
  apply Z.eqb_eq in E. specialize (Hv x Hx). lia.
Qed.

Lemma accept_flat : forall v, (forall x, In x v -> x < 128) -> forall bef aft g w l o,
  (exists b rest, aft = b :: rest /\ In b v /\
     accept v (cmk bef aft g w l o) = (true, cmk (b :: bef) rest (g + 1) 1 l o)) \/
  (exists w', zin (peek_rune aft) v = false /\
     accept v (cmk bef aft g w l o) = (false, cmk bef aft g w' l o)).
Proof.
  intros v Hv bef aft g w l o. unfold accept.
  destruct (next_pair bef aft g w l o) as (c1 & E & Hb). rewrite E.
  destruct (zin (peek_rune aft) v) eqn:Z.
  - left. destruct (next_ascii_inv _ _ _ _ _ _ _ E (zin_range _ _ Hv Z)) as (b & rest & -> & Hb' & Er & ->).
    exists b, rest. split; [reflexivity|]. split; [|reflexivity]. apply zin_In. rewrite <- Er. exact Z.
  - right. exists (snd (decode_rune aft)). split; [reflexivity|]. rewrite Hb. reflexivity.
Qed.

(* acceptRunFunc with a predicate that only holds for ASCII: the longest prefix of such bytes *)
Lemma run_flat : forall (p : Z -> bool), (forall r, p r = true -> (0 <= r < 128)%Z) ->
  forall fuel aft bef g w l o acc, (length aft < fuel)%nat ->
  exists body rest w', aft = body ++ rest /\ forallb (fun b => p (Z.of_N b)) body = true /\
    p (peek_rune rest) = false /\
    accept_run_f fuel p acc (cmk bef aft g w l o) =
      (match body with [] => acc | _ => true end, cmk (rev body ++ bef) rest (g + nlen body) w' l o).
Proof.
  intros p Hp. induction fuel as [|f IH]; intros aft bef g w l o acc Hf; [lia|].
  cbn [accept_run_f]. destruct (next_pair bef aft g w l o) as (c1 & E & Hb). rewrite E.
  destruct (p (peek_rune aft)) eqn:P.
  - destruct (next_ascii_inv _ _ _ _ _ _ _ E (Hp _ P)) as (b & rest & -> & Hb' & Er & ->).
    cbn [length] in Hf.
    destruct (IH rest (b :: bef) (g + 1) 1%nat l o true ltac:(lia)) as (body & rest' & w' & -> & HB & HP & ->).
    exists (b :: body), rest', w'. split; [reflexivity|]. split; [cbn [forallb]; rewrite <- Er, P, HB; reflexivity|].
    split; [exact HP|]. cbn [rev]. rewrite <- app_assoc. cbn [app].
    replace (g + 1 + nlen body) with (g + nlen (b :: body)) by (rewrite nlen_cons; lia).
    destruct body; reflexivity.
  - exists [], aft, (snd (decode_rune aft)). split; [reflexivity|]. split; [reflexivity|]. split; [exact P|].
    rewrite Hb. cbn [rev app]. replace (g + nlen []) with g by (unfold nlen; cbn [length]; lia). reflexivity.
Qed.

(* ---------------------------------------------------------------------------------------- *)
(* 3. the lexer has stopped on an error: tERR, tFAIL on top of the tokens so far               *)
(* ---------------------------------------------------------------------------------------- *)
Definition failed (o : list token) (x : bool * cur) : Prop :=
  fst x = false /\ exists t1 t2, out (snd x) = t2 :: t1 :: o /\ ttyp t2 = tFAIL /\ ttyp t1 = tERR.

Lemma fail_failed : forall e c, failed (out c) (false, fail e c).
Proof. intros. split; [reflexivity|]. eexists; eexists. cbn. split; [reflexivity|split; reflexivity]. Qed.

Lemma sticky_failed : forall c, failed (out c) (sticky_fail c).
Proof.
  intros c. unfold sticky_fail. destruct (unbackup_facts c) as (E & _). rewrite <- E. apply fail_failed.
Qed.

Lemma fail_failed_mk : forall e bef aft g w l o, failed o (false, fail e (cmk bef aft g w l o)).
Proof. intros. exact (fail_failed e (cmk bef aft g w l o)). Qed.

Lemma sticky_failed_mk : forall bef aft g w l o, failed o (sticky_fail (cmk bef aft g w l o)).
Proof. intros. exact (sticky_failed (cmk bef aft g w l o)). Qed.

(* ---------------------------------------------------------------------------------------- *)
(* 4. the state functions, on any input                                                        *)
(* ---------------------------------------------------------------------------------------- *)
Lemma forallb_eq : forall {A} (f h : A -> bool) l, (forall x, f x = h x) -> forallb f l = forallb h l.
Proof. intros A f h l H. induction l as [|x l IH]; [reflexivity|]. cbn [forallb]. rewrite H, IH. reflexivity. Qed.

Lemma rune_hi_class : forall r, 128 <= r ->
  is_alnum (Z.of_N r) = false /\ is_alpha (Z.of_N r) = false /\ is_digit_r (Z.of_N r) = false /\
  Z.eqb (Z.of_N r) 95 = false /\ Z.eqb (Z.of_N r) 34 = false /\ Z.eqb (Z.of_N r) 35 = false /\
  Z.eqb (Z.of_N r) 92 = false /\ Z.eqb (Z.of_N r) 10 = false /\ Z.eqb (Z.of_N r) eof = false /\
  two_rune_of (Z.of_N r) = None /\ one_rune_of (Z.of_N r) = None.
Proof.
  intros r H. set (z := Z.of_N r). assert (Hz : (128 <= z)%Z) by (unfold z; lia).
  unfold is_alnum, is_alpha, is_digit_r, eof. repeat split; try lia.
  - unfold two_rune_of.
    repeat match goal with |- context [Z.eqb z ?k] => destruct (Z.eqb_spec z k); [lia|] end. reflexivity.
  - unfold one_rune_of.
    repeat match goal with |- context [Z.eqb z ?k] => destruct (Z.eqb_spec z k); [lia|] end. reflexivity.
Qed.

(* 4a. identifiers and keywords *)
Definition ident_fin (c2 : cur) : bool * cur :=
  let '(p, c3) := peek c2 in
  if Z.eqb p 34 then sticky_fail c3
  else match keyword_of (current c3) with
       | Some k => (true, emit k c3)
       | None => (true, emit tIDENT c3)
       end.

Lemma lex_ident_S : forall f c, lex_ident (S f) c =
  let '(r, c1) := next c in if ident_rune r then lex_ident f c1 else ident_fin (backup c1).
Proof. reflexivity. Qed.

Lemma ident_fin_flat : forall bef aft g w l o,
  failed o (ident_fin (cmk bef aft g w l o)) \/
  exists w', ident_fin (cmk bef aft g w l o) = (true, emit (word_tok (rev bef)) (cmk bef aft g w' l o)).
Proof.
  intros. unfold ident_fin. rewrite peek_mk.
  match goal with |- context [Z.eqb ?p 34] => destruct (Z.eqb p 34) end; [left; apply sticky_failed_mk|right].
  exists (snd (decode_rune aft)). unfold word_tok, current. cbn [before LayoutProofs.mk]. rewrite frev_eq.
  destruct (keyword_of (rev bef)); reflexivity.
Qed.

Lemma ident_rune_range : forall r, ident_rune r = true -> (0 <= r < 128)%Z.
Proof. intros r. unfold ident_rune, is_alnum, is_alpha, is_digit_r. lia. Qed.

Lemma ident_flat : forall fuel aft bef g w l o, (length aft < fuel)%nat ->
  failed o (lex_ident fuel (cmk bef aft g w l o)) \/
  exists body rest w', aft = body ++ rest /\ forallb ident_byte body = true /\
    lex_ident fuel (cmk bef aft g w l o) =
      (true, emit (word_tok (rev (rev body ++ bef))) (cmk (rev body ++ bef) rest (g + nlen body) w' l o)).
Proof.
  induction fuel as [|f IH]; intros aft bef g w l o Hf; [lia|].
  rewrite lex_ident_S. destruct (next_pair bef aft g w l o) as (c1 & E & Hb). rewrite E.
  destruct (ident_rune (peek_rune aft)) eqn:P.
  - destruct (next_ascii_inv _ _ _ _ _ _ _ E (ident_rune_range _ P)) as (b & rest & -> & Hb' & Er & ->).
    cbn [length] in Hf.
    destruct (IH rest (b :: bef) (g + 1) 1%nat l o ltac:(lia)) as [F|(body & rest' & w' & -> & HB & ->)];
      [left; exact F|right].
    exists (b :: body), rest', w'. split; [reflexivity|].
    split; [cbn [forallb]; unfold ident_byte at 1; rewrite <- Er, P, HB; reflexivity|].
    cbn [rev]. rewrite <- !app_assoc. cbn [app].
    replace (g + 1 + nlen body) with (g + nlen (b :: body)) by (rewrite nlen_cons; lia). reflexivity.
  - rewrite Hb. destruct (ident_fin_flat bef aft g (snd (decode_rune aft)) l o) as [F|(w' & ->)];
      [left; exact F|right].
    exists [], aft, w'. split; [reflexivity|]. split; [reflexivity|].
    cbn [rev app]. replace (g + nlen []) with g by (unfold nlen; cbn [length]; lia). reflexivity.
Qed.

Lemma keyword_lexable' : forall w k p, keyword_of w = Some k -> lexable' (ltok k w p).
Proof.
  intros w k p. unfold keyword_of, is_lit.
  repeat match goal with
  | |- context [bytes_eqb w ?s] =>
      let E := fresh "E" in
      destruct (bytes_eqb w s) eqn:E;
      [apply bytes_eqb_eq in E; subst w; intros H; injection H as <-; reflexivity|clear E]
  end.
  intros H; discriminate H.
Qed.

Lemma word_lexable' : forall w p, ident_text w -> lexable' (ltok (word_tok w) w p).
Proof.
  intros w p H. unfold word_tok. destruct (keyword_of w) as [k|] eqn:K.
  - apply keyword_lexable'; exact K.
  - unfold lexable'. cbn [ttyp tval ltok]. split; assumption.
Qed.

(* 4b. quoted strings *)
Lemma qbody'_hi : forall p r, hi p -> qbody' r -> qbody' (p ++ r).
Proof.
  induction 1 as [|x p Hx Hp IH]; intros Hr; [exact Hr|]. cbn [app]. apply qb'_raw; try lia. apply IH; exact Hr.
Qed.

Lemma qbody'_esc_hi : forall p r, p <> [] -> hi p -> qbody' r -> qbody' (92 :: p ++ r).
Proof.
  intros [|x p] r Hne Hp Hr; [congruence|]. inversion Hp as [|x' p' Hx Hp']; subst.
  cbn [app]. apply qb'_esc; [lia|]. apply qbody'_hi; assumption.
Qed.

Lemma length_hi_pos : forall (p : bytes), p <> [] -> (1 <= length p)%nat.
Proof. intros [|x p] H; [congruence|cbn [length]; lia]. Qed.

Lemma quote_flat : forall fuel aft bef g w l o, (length aft < fuel)%nat ->
  failed o (lex_quote fuel (cmk bef aft g w l o)) \/
  exists body rest w', aft = body ++ 34 :: rest /\ qbody' body /\
    lex_quote fuel (cmk bef aft g w l o) =
      (true, emit tSTR (cmk (34 :: rev body ++ bef) rest (g + nlen body + 1) w' l o)).
Proof.
  induction fuel as [|f IH]; intros aft bef g w l o Hf; [lia|].
  cbn [lex_quote].
  destruct (next_cases bef aft g w l o) as [(-> & E)|[(b & rest & -> & Hb & E)|(pre & rest & r & -> & Hne & Hhi & Hr & E)]];
    rewrite E; clear E.
  - (* the end of the input *)
    left. change (Z.eqb eof 92) with false. change (Z.eqb eof eof) with true. cbn [orb]. apply fail_failed_mk.
  - cbn [length] in Hf. destruct (Z.eqb_spec (Z.of_N b) 92) as [E92|N92].
    + (* a backslash and the next rune *)
      assert (b = 92) by lia. subst b. clear E92.
      destruct (next_cases (92 :: bef) rest (g + 1) 1%nat l o)
        as [(-> & E)|[(b & rest2 & -> & Hb2 & E)|(pre & rest2 & r & -> & Hne & Hhi & Hr & E)]];
        rewrite E; clear E.
      * left. change (Z.eqb eof eof) with true. cbn [negb andb]. apply fail_failed_mk.
      * rewrite of_N_not_eof. cbn [negb andb]. destruct (Z.eqb_spec (Z.of_N b) 10) as [E10|N10]; cbn [negb].
        { left. apply fail_failed_mk. }
        cbn [length] in Hf.
        destruct (IH rest2 (b :: 92 :: bef) (g + 1 + 1) 1%nat l o ltac:(lia))
          as [F|(body & rest' & w' & -> & HB & ->)]; [left; exact F|right].
        exists (92 :: b :: body), rest', w'. split; [reflexivity|].
        split; [apply qb'_esc; [lia|exact HB]|].
        cbn [rev]. rewrite <- !app_assoc. cbn [app].
        replace (g + 1 + 1 + nlen body + 1) with (g + nlen (92 :: b :: body) + 1) by (rewrite !nlen_cons; lia).
        reflexivity.
      * destruct (rune_hi_class r Hr) as (_ & _ & _ & _ & _ & _ & _ & R10 & Reof & _).
        rewrite R10, Reof. cbn [negb andb].
        pose proof (length_hi_pos pre Hne) as Hl. rewrite app_length in Hf.
        destruct (IH rest2 (rev pre ++ 92 :: bef) (g + 1 + nlen pre) (length pre) l o ltac:(lia))
          as [F|(body & rest' & w' & -> & HB & ->)]; [left; exact F|right].
        exists (92 :: pre ++ body), rest', w'. split; [cbn [app]; rewrite <- app_assoc; reflexivity|].
        split; [apply qbody'_esc_hi; assumption|].
        cbn [rev]. rewrite rev_app_distr, <- !app_assoc. cbn [app].
        replace (g + 1 + nlen pre + nlen body + 1) with (g + nlen (92 :: pre ++ body) + 1)
          by (rewrite nlen_cons, nlen_app; lia).
        reflexivity.
    + rewrite of_N_not_eof. cbn [orb]. destruct (Z.eqb_spec (Z.of_N b) 10) as [E10|N10].
      { left. apply fail_failed_mk. }
      destruct (Z.eqb_spec (Z.of_N b) 34) as [E34|N34].
      * (* the closing quote *)
        assert (b = 34) by lia. subst b. rewrite peek_mk.
        match goal with |- context [is_alnum ?p] => destruct (is_alnum p) end; [left; apply sticky_failed_mk|right].
        exists [], rest, (snd (decode_rune rest)). split; [reflexivity|]. split; [apply qb'_nil|].
        cbn [rev app]. replace (g + nlen [] + 1) with (g + 1) by (unfold nlen; cbn [length]; lia). reflexivity.
      * destruct (IH rest (b :: bef) (g + 1) 1%nat l o ltac:(lia))
          as [F|(body & rest' & w' & -> & HB & ->)]; [left; exact F|right].
        exists (b :: body), rest', w'. split; [reflexivity|].
        split; [apply qb'_raw; [lia|lia|lia|exact HB]|].
        cbn [rev]. rewrite <- !app_assoc. cbn [app].
        replace (g + 1 + nlen body + 1) with (g + nlen (b :: body) + 1) by (rewrite nlen_cons; lia).
        reflexivity.
  - (* a rune outside ASCII *)
    destruct (rune_hi_class r Hr) as (_ & _ & _ & _ & R34 & _ & R92 & R10 & Reof & _).
    rewrite R92, R10, Reof, R34. cbn [orb].
    pose proof (length_hi_pos pre Hne) as Hl. rewrite app_length in Hf.
    destruct (IH rest (rev pre ++ bef) (g + nlen pre) (length pre) l o ltac:(lia))
      as [F|(body & rest' & w' & -> & HB & ->)]; [left; exact F|right].
    exists (pre ++ body), rest', w'. split; [rewrite <- app_assoc; reflexivity|].
    split; [apply qbody'_hi; assumption|].
    rewrite rev_app_distr, <- !app_assoc.
    replace (g + nlen pre + nlen body + 1) with (g + nlen (pre ++ body) + 1) by (rewrite nlen_app; lia).
    reflexivity.
Qed.

(* 4c. numbers *)
Lemma dig_rune_byte : forall b, is_digit_r (Z.of_N b) = isdig b.
Proof. intros b. unfold is_digit_r, isdig. lia. Qed.

Lemma dig_range : forall r, zin r digits_set = true -> (0 <= r < 128)%Z.
Proof. intros r. rewrite zin_digits. unfold is_digit_r. lia. Qed.

Lemma digrun_flat : forall fuel aft bef g w l o, (length aft < fuel)%nat ->
  exists D rest w', aft = D ++ rest /\ forallb isdig D = true /\ is_digit_r (peek_rune rest) = false /\
    accept_run fuel digits_set (cmk bef aft g w l o) =
      (match D with [] => false | _ => true end, cmk (rev D ++ bef) rest (g + nlen D) w' l o).
Proof.
  intros fuel aft bef g w l o Hf. unfold accept_run.
  destruct (run_flat (fun r => zin r digits_set) dig_range fuel aft bef g w l o false Hf)
    as (D & rest & w' & E & HD & HP & ER).
  exists D, rest, w'. split; [exact E|]. split; [|split; [rewrite <- zin_digits; exact HP|exact ER]].
  rewrite <- HD. apply forallb_eq. intros x. rewrite zin_digits. symmetry. apply dig_rune_byte.
Qed.

Lemma hexset_ascii : forall x, In x hexdigits_set -> x < 128.
Proof.
  unfold hexdigits_set, digits_set. cbn [app In]. intros x H.
  repeat (destruct H as [<-|H]; [lia|]). contradiction.
Qed.

Lemma zin_hex : forall b, zin (Z.of_N b) hexdigits_set = ishex b.
Proof. intros b. unfold zin, hexdigits_set, digits_set, ishex, isdig. cbn [app existsb]. lia. Qed.

Lemma hex_flat : forall fuel aft bef g w l o, (length aft < fuel)%nat ->
  failed o (lex_hex fuel (cmk bef aft g w l o)) \/
  exists H rest w', aft = H ++ rest /\ forallb ishex H = true /\
    lex_hex fuel (cmk bef aft g w l o) = (true, emit tINT (cmk (rev H ++ bef) rest (g + nlen H) w' l o)).
Proof.
  intros fuel aft bef g w l o Hf. unfold lex_hex, accept_run.
  destruct (run_flat (fun r => zin r hexdigits_set) (fun r => zin_range r _ hexset_ascii) fuel aft bef g w l o false Hf)
    as (H & rest & w' & E & HD & _ & ->).
  rewrite peek_mk.
  match goal with |- context [if ?d then sticky_fail _ else _] => destruct d end; [left; apply sticky_failed_mk|right].
  exists H, rest, (snd (decode_rune rest)). split; [exact E|]. split; [|reflexivity].
  rewrite <- HD. apply forallb_eq. intros x. symmetry. apply zin_hex.
Qed.

Lemma in1 : forall (x a : N), In x [a] -> x = a.
Proof. intros x a [<-|[]]. reflexivity. Qed.
Lemma in2 : forall (x a b : N), In x [a; b] -> x = a \/ x = b.
Proof. intros x a b [<-|[<-|[]]]; auto. Qed.
Lemma lt1 : forall a, a < 128 -> forall x, In x [a] -> x < 128.
Proof. intros a Ha x H. apply in1 in H. subst. exact Ha. Qed.
Lemma lt2 : forall a b, a < 128 -> b < 128 -> forall x, In x [a; b] -> x < 128.
Proof. intros a b Ha Hb x H. apply in2 in H. destruct H; subst; assumption. Qed.

Lemma digits1_intro : forall d D, forallb isdig (d :: D) = true -> digits1 (d :: D).
Proof. intros d D H. split; [discriminate|exact H]. Qed.

(* the fraction: nothing, or a dot and digits *)
Lemma frac_flat : forall fuel aft bef g w l o, (length aft < fuel)%nat ->
  (exists c2, fl_frac fuel (cmk bef aft g w l o) = (false, c2) /\ out c2 = o) \/
  (exists fp rest w', aft = fp ++ rest /\ frac_part fp /\ (fp = [] -> zin (peek_rune aft) [46] = false) /\
     fl_frac fuel (cmk bef aft g w l o) = (true, cmk (rev fp ++ bef) rest (g + nlen fp) w' l o)).
Proof.
  intros fuel aft bef g w l o Hf. unfold fl_frac.
  destruct (accept_flat [46] (lt1 46 ltac:(lia)) bef aft g w l o) as [(b & rest & -> & Hb & ->)|(w' & Z & ->)].
  - apply in1 in Hb. subst b. cbn [length] in Hf.
    destruct (digrun_flat fuel rest (46 :: bef) (g + 1) 1%nat l o ltac:(lia)) as (D & rest' & w' & -> & HD & _ & ->).
    destruct D as [|d D]; [left; eexists; split; reflexivity|right].
    exists (46 :: d :: D), rest', w'. split; [reflexivity|]. split; [apply frac_some, digits1_intro; exact HD|].
    split; [discriminate|]. cbn [rev]. rewrite <- !app_assoc. cbn [app].
    replace (g + 1 + nlen (d :: D)) with (g + nlen (46 :: d :: D)) by (rewrite !nlen_cons; lia). reflexivity.
  - right. exists [], aft, w'. split; [reflexivity|]. split; [apply frac_none|]. split; [intros _; exact Z|].
    cbn [rev app]. replace (g + nlen []) with g by (unfold nlen; cbn [length]; lia). reflexivity.
Qed.

(* the exponent: nothing, or e / E, a sign or none, and digits *)
Lemma exp_flat : forall fuel aft bef g w l o, (length aft < fuel)%nat ->
  (exists c4, fl_exp fuel (cmk bef aft g w l o) = (false, c4) /\ out c4 = o) \/
  (exists ep rest w', aft = ep ++ rest /\ exp_part ep /\ (ep = [] -> zin (peek_rune aft) [101; 69] = false) /\
     fl_exp fuel (cmk bef aft g w l o) = (true, cmk (rev ep ++ bef) rest (g + nlen ep) w' l o)).
Proof.
  intros fuel aft bef g w l o Hf. unfold fl_exp.
  destruct (accept_flat [101; 69] (lt2 101 69 ltac:(lia) ltac:(lia)) bef aft g w l o)
    as [(e & rest & -> & He & ->)|(w' & Z & ->)].
  - apply in2 in He. cbn [length] in Hf.
    destruct (accept_flat [43; 45] (lt2 43 45 ltac:(lia) ltac:(lia)) (e :: bef) rest (g + 1) 1%nat l o)
      as [(s & rest2 & -> & Hs & ->)|(w' & _ & ->)].
    + apply in2 in Hs. cbn [length] in Hf.
      destruct (digrun_flat fuel rest2 (s :: e :: bef) (g + 1 + 1) 1%nat l o ltac:(lia))
        as (D & rest' & w' & -> & HD & _ & ->).
      destruct D as [|d D]; [left; eexists; split; reflexivity|right].
      exists (e :: [s] ++ d :: D), rest', w'. split; [reflexivity|].
      split; [apply exp_some; [exact He|destruct Hs; subst s; auto|apply digits1_intro; exact HD]|].
      split; [discriminate|]. cbn [rev app]. rewrite <- !app_assoc. cbn [app].
      replace (g + 1 + 1 + nlen (d :: D)) with (g + nlen (e :: s :: d :: D)) by (rewrite !nlen_cons; lia).
      reflexivity.
    + destruct (digrun_flat fuel rest (e :: bef) (g + 1) w' l o ltac:(lia))
        as (D & rest' & w'' & -> & HD & _ & ->).
      destruct D as [|d D]; [left; eexists; split; reflexivity|right].
      exists (e :: [] ++ d :: D), rest', w''. split; [reflexivity|].
      split; [apply exp_some; [exact He|auto|apply digits1_intro; exact HD]|].
      split; [discriminate|]. cbn [rev app]. rewrite <- !app_assoc. cbn [app].
      replace (g + 1 + nlen (d :: D)) with (g + nlen (e :: d :: D)) by (rewrite !nlen_cons; lia).
      reflexivity.
  - right. exists [], aft, w'. split; [reflexivity|]. split; [apply exp_none|]. split; [intros _; exact Z|].
    cbn [rev app]. replace (g + nlen []) with g by (unfold nlen; cbn [length]; lia). reflexivity.
Qed.

Lemma failed_out : forall e c o, out c = o -> failed o (false, fail e c).
Proof. intros e c o <-. apply fail_failed. Qed.

(* lex_float is entered on a dot or an e / E: the fraction and the exponent are not both empty *)
Lemma float_flat : forall fuel aft bef g w l o, (length aft < fuel)%nat ->
  Z.eqb (peek_rune aft) 46 || Z.eqb (peek_rune aft) 101 || Z.eqb (peek_rune aft) 69 = true ->
  failed o (lex_float fuel (cmk bef aft g w l o)) \/
  exists fp ep rest w', aft = fp ++ ep ++ rest /\ frac_part fp /\ exp_part ep /\ (fp <> [] \/ ep <> []) /\
    lex_float fuel (cmk bef aft g w l o) =
      (true, emit tFLOAT (cmk (rev ep ++ rev fp ++ bef) rest (g + nlen fp + nlen ep) w' l o)).
Proof.
  intros fuel aft bef g w l o Hf Hpk. rewrite lex_float_eq.
  destruct (frac_flat fuel aft bef g w l o Hf) as [(c2 & -> & Ho)|(fp & rest & w1 & -> & Hfp & Hz1 & ->)].
  { left. cbn [negb]. apply failed_out; exact Ho. }
  cbn [negb]. rewrite app_length in Hf.
  destruct (exp_flat fuel rest (rev fp ++ bef) (g + nlen fp) w1 l o ltac:(lia))
    as [(c4 & -> & Ho)|(ep & rest' & w2 & -> & Hep & Hz2 & ->)].
  { left. cbn [negb]. apply failed_out; exact Ho. }
  cbn [negb]. rewrite peek_mk.
  match goal with |- context [if ?d then sticky_fail _ else _] => destruct d end; [left; apply sticky_failed_mk|right].
  exists fp, ep, rest', (snd (decode_rune rest')). split; [reflexivity|]. split; [exact Hfp|]. split; [exact Hep|].
  split; [|reflexivity].
  destruct fp as [|x fp]; [|left; discriminate]. destruct ep as [|y ep]; [|right; discriminate]. exfalso.
  specialize (Hz1 eq_refl). specialize (Hz2 eq_refl). cbn [app] in *.
  unfold zin in Hz1, Hz2. cbn [existsb] in Hz1, Hz2. change (Z.of_N 46) with 46%Z in Hz1.
  change (Z.of_N 101) with 101%Z in Hz2. change (Z.of_N 69) with 69%Z in Hz2.
  destruct (Z.eqb (peek_rune rest') 46); [discriminate Hz1|].
  destruct (Z.eqb (peek_rune rest') 101); [discriminate Hz2|].
  destruct (Z.eqb (peek_rune rest') 69); [discriminate Hz2|]. discriminate Hpk.
Qed.

(* after the digits D of the integer part, which start at offset g0 *)
Lemma numcont_flat : forall fuel D aft g0 w l o, digits1 D -> (length aft < fuel)%nat ->
  failed o (num_cont fuel (cmk (rev D) aft (g0 + nlen D) w l o)) \/
  exists t text rest w', D ++ aft = text ++ rest /\
    ((t = tINT /\ text = D) \/ (t = tFLOAT /\ float_text text)) /\
    num_cont fuel (cmk (rev D) aft (g0 + nlen D) w l o) =
      (true, emit t (cmk (rev text) rest (g0 + nlen text) w' l o)).
Proof.
  intros fuel D aft g0 w l o HD Hf. unfold num_cont. rewrite peek_mk. fold (peek_rune aft).
  destruct (Z.eqb (peek_rune aft) 46 || Z.eqb (peek_rune aft) 101 || Z.eqb (peek_rune aft) 69) eqn:Hpk.
  - destruct (float_flat fuel aft (rev D) (g0 + nlen D) (snd (decode_rune aft)) l o Hf Hpk)
      as [F|(fp & ep & rest & w' & -> & Hfp & Hep & Hne & ->)]; [left; exact F|right].
    exists tFLOAT, (D ++ fp ++ ep), rest, w'. split; [rewrite <- !app_assoc; reflexivity|].
    split; [right; split; [reflexivity|constructor; assumption]|].
    rewrite !rev_app_distr, <- !app_assoc.
    replace (g0 + nlen D + nlen fp + nlen ep) with (g0 + nlen (D ++ fp ++ ep)) by (rewrite !nlen_app; lia).
    reflexivity.
  - match goal with |- context [if ?d then sticky_fail _ else _] => destruct d end; [left; apply sticky_failed_mk|right].
    exists tINT, D, aft, (snd (decode_rune aft)). split; [reflexivity|]. split; [left; split; reflexivity|reflexivity].
Qed.

Lemma number_flat : forall fuel b rest g w l o, isdig b = true -> (length (b :: rest) < fuel)%nat ->
  failed o (lex_number_tail fuel (cmk [] (b :: rest) g w l o)) \/
  exists t text rest' w', b :: rest = text ++ rest' /\
    ((t = tINT /\ int_text' text) \/ (t = tFLOAT /\ float_text text)) /\
    lex_number_tail fuel (cmk [] (b :: rest) g w l o) =
      (true, emit t (cmk (rev text) rest' (g + nlen text) w' l o)).
Proof.
  intros fuel b rest g w l o Hd Hf. cbn [length] in Hf.
  unfold lex_number_tail. fold (num_cont fuel).
  destruct (accept_flat [48] (lt1 48 ltac:(lia)) [] (b :: rest) g w l o)
    as [(z & rest0 & E0 & Hz & ->)|(w0 & Z0 & ->)].
  - apply in1 in Hz. subst z. injection E0 as -> <-.
    destruct (accept_flat [120; 88] (lt2 120 88 ltac:(lia) ltac:(lia)) [48] rest (g + 1) 1%nat l o)
      as [(x & rest2 & -> & Hx & ->)|(w1 & _ & ->)].
    + (* 0x / 0X *)
      apply in2 in Hx. cbn [length] in Hf.
      destruct (hex_flat fuel rest2 [x; 48] (g + 1 + 1) 1%nat l o ltac:(lia))
        as [F|(H & rest' & w' & -> & HH & ->)]; [left; exact F|right].
      exists tINT, (48 :: x :: H), rest', w'. split; [reflexivity|].
      split; [left; split; [reflexivity|right; exists x, H; auto]|].
      cbn [rev]. rewrite <- !app_assoc. cbn [app].
      replace (g + 1 + 1 + nlen H) with (g + nlen (48 :: x :: H)) by (rewrite !nlen_cons; lia). reflexivity.
    + destruct (digrun_flat fuel rest [48] (g + 1) w1 l o ltac:(lia)) as (D & rest' & w' & -> & HD & _ & ->).
      assert (H1 : digits1 (48 :: D)) by (apply digits1_intro; cbn [forallb]; rewrite HD; reflexivity).
      rewrite app_length in Hf.
      replace (cmk (rev D ++ [48]) rest' (g + 1 + nlen D) w' l o)
        with (cmk (rev (48 :: D)) rest' (g + nlen (48 :: D)) w' l o)
        by (cbn [rev]; rewrite nlen_cons; f_equal; lia).
      fold (num_cont fuel (cmk (rev (48 :: D)) rest' (g + nlen (48 :: D)) w' l o)).
      destruct (numcont_flat fuel (48 :: D) rest' g w' l o H1 ltac:(lia))
        as [F|(t & text & rest2 & w2 & E & Ht & ->)]; [left; exact F|right].
      exists t, text, rest2, w2. split; [exact E|]. split; [|reflexivity].
      destruct Ht as [(-> & ->)|Ht]; [left; split; [reflexivity|left; exact H1]|right; exact Ht].
  - destruct (digrun_flat fuel (b :: rest) [] g w0 l o ltac:(cbn [length]; lia)) as (D & rest' & w' & E & HD & HP & ->).
    destruct D as [|d D].
    { exfalso. cbn [app] in E. subst rest'. destruct (isdig_rune b Hd) as [H1 H2].
      rewrite (peek_rune_ascii b rest H2), H1 in HP. discriminate HP. }
    assert (H1 : digits1 (d :: D)) by (apply digits1_intro; exact HD).
    assert (Hl : (length rest' < fuel)%nat).
    { apply (f_equal (@length N)) in E. rewrite app_length in E. cbn [length] in E. lia. }
    rewrite app_nil_r. fold (num_cont fuel (cmk (rev (d :: D)) rest' (g + nlen (d :: D)) w' l o)).
    destruct (numcont_flat fuel (d :: D) rest' g w' l o H1 Hl)
      as [F|(t & text & rest2 & w2 & E2 & Ht & ->)]; [left; exact F|right].
    exists t, text, rest2, w2. split; [rewrite E; exact E2|]. split; [|reflexivity].
    destruct Ht as [(-> & ->)|Ht]; [left; split; [reflexivity|left; exact H1]|right; exact Ht].
Qed.

(* 4d. one- and two-character tokens *)
Lemma one_rune_lexable' : forall b t p, one_rune_of (Z.of_N b) = Some t -> lexable' (ltok t [b] p).
Proof.
  intros b t p. unfold one_rune_of.
  repeat match goal with
  | |- context [Z.eqb (Z.of_N b) ?k] =>
      let E := fresh "E" in
      destruct (Z.eqb_spec (Z.of_N b) k) as [E|_];
      [apply (f_equal Z.to_N) in E; rewrite N2Z.id in E; cbn in E; subst b;
       intros H; injection H as <-; reflexivity|]
  end.
  intros H; discriminate H.
Qed.

Lemma two_rune_lexable' : forall b r2 t2, two_rune_of (Z.of_N b) = Some (r2, t2) ->
  (0 <= r2 < 128)%Z /\ forall b2 p, r2 = Z.of_N b2 -> lexable' (ltok t2 [b; b2] p).
Proof.
  intros b r2 t2. unfold two_rune_of.
  repeat match goal with
  | |- context [Z.eqb (Z.of_N b) ?k] =>
      let E := fresh "E" in
      destruct (Z.eqb_spec (Z.of_N b) k) as [E|_];
      [apply (f_equal Z.to_N) in E; rewrite N2Z.id in E; cbn in E; subst b;
       intros H; injection H as <- <-; split; [lia|];
       intros b2 p E2; apply (f_equal Z.to_N) in E2; rewrite N2Z.id in E2; cbn in E2; subst b2; reflexivity|]
  end.
  intros H; discriminate H.
Qed.

(* ---------------------------------------------------------------------------------------- *)
(* 5. one step from a token start                                                              *)
(* ---------------------------------------------------------------------------------------- *)
(* the step ends the run (end of the input, or an error), or skips a run of white space or a
   comment up to its line end, or delivers one token whose text is a prefix of the unread input
   and fits its type *)
Inductive step_ok (g : N) (src : bytes) (l : list N) (o : list token) : bool * cur -> Prop :=
| so_eof : forall w', src = [] -> step_ok g src l o (false, cmk [] [] g w' l (ltok tEOF [] g :: o))
| so_ws : forall parts rest w', src = concat parts ++ rest -> parts <> [] -> Forall ws_char parts ->
    step_ok g src l o (true, cmk [] rest (g + nlen (concat parts)) w' l o)
| so_comment : forall body tail w', src = 35 :: body ++ tail -> nocrlf body -> eol_or_end tail ->
    step_ok g src l o (true, cmk [] tail (g + 1 + nlen body) w' l o)
| so_tok : forall t text rest w', src = text ++ rest -> lexable' (ltok t text (g + nlen text)) ->
    step_ok g src l o (true, cmk [] rest (g + nlen text) w' l (ltok t text (g + nlen text) :: o))
| so_fail : forall x, failed o x -> step_ok g src l o x.

Lemma emit_tok : forall t text rest g w l o, lexable' (ltok t text (g + nlen text)) ->
  step_ok g (text ++ rest) l o (true, emit t (cmk (rev text) rest (g + nlen text) w l o)).
Proof. intros. rewrite emit_mk, rev_involutive. apply so_tok; [reflexivity|assumption]. Qed.

Lemma comment_split : forall l : bytes, exists body tail, l = body ++ tail /\ nocrlf body /\ eol_or_end tail.
Proof.
  induction l as [|x l (body & tail & -> & Hb & Ht)].
  - exists [], []. split; [reflexivity|]. split; [intros b []|left; reflexivity].
  - destruct (N.eq_dec x 10) as [E10|N10]; [|destruct (N.eq_dec x 13) as [E13|N13]].
    + exists [], (x :: body ++ tail). split; [reflexivity|]. split; [intros b []|].
      right. exists x, (body ++ tail). auto.
    + exists [], (x :: body ++ tail). split; [reflexivity|]. split; [intros b []|].
      right. exists x, (body ++ tail). auto.
    + exists (x :: body), tail. split; [reflexivity|]. split; [|exact Ht].
      intros b [<-|H]; [split; assumption|apply Hb; exact H].
Qed.

Theorem lex_start_flat : forall f src g w l o, (length src < f)%nat ->
  step_ok g src l o (lex_start f (cmk [] src g w l o)).
Proof.
  intros f src g w l o Hf. destruct src as [|b0 l0].
  { (* the end of the input *)
    unfold lex_start. rewrite next_mk_eof. change (Z.eqb eof eof) with true. cbv iota. rewrite emit_mk.
    apply so_eof. reflexivity. }
  destruct (is_space (peek_rune (b0 :: l0))) eqn:Sp.
  { (* white space *)
    destruct (ws_split (b0 :: l0)) as (parts & rest & E & F & S).
    assert (Hne : parts <> []).
    { intros ->. cbn [concat app] in E. subst rest. congruence. }
    pose proof (length_parts_le parts F) as Hl.
    assert (Hl2 : (length (concat parts) <= length (b0 :: l0))%nat) by (rewrite E, app_length; lia).
    assert (Hl3 : (length parts <= f)%nat) by (unfold bytes in *; lia).
    rewrite (C20_space_run parts rest (cmk [] (b0 :: l0) g w l o) f eq_refl E Hne F S Hl3).
    cbn [gpos lfs out LayoutProofs.mk]. rewrite E. apply so_ws; auto. }
  destruct (N.ltb_spec b0 128) as [Hb|Hb].
  2:{ (* a character outside ASCII that is no white space *)
    destruct (next_cases [] (b0 :: l0) g w l o)
      as [(E0 & _)|[(b & rest & E0 & Hb' & _)|(pre & rest & r & E0 & Hne & Hhi & Hr & E)]].
    - discriminate E0.
    - injection E0 as -> _. lia.
    - pose proof (next_rune [] (b0 :: l0) g w l o) as HR. rewrite E in HR. cbn [fst] in HR. rewrite <- HR in Sp.
      unfold lex_start. rewrite E.
      destruct (rune_hi_class r Hr) as (_ & Ra & Rd & R95 & R34 & R35 & _ & _ & Reof & R2 & R1).
      rewrite Reof, R2, R1, Sp, R35, R34, Ra, R95, Rd. cbn [orb].
      apply so_fail, fail_failed_mk. }
  rewrite (peek_rune_ascii b0 l0 Hb) in Sp.
  destruct (N.eq_dec b0 35) as [->|N35].
  { (* a comment *)
    destruct (comment_split l0) as (body & tail & -> & Hbody & Htail).
    cbn [length] in Hf. rewrite app_length in Hf.
    rewrite (C20_comment_lex_start body tail (cmk [] (35 :: body ++ tail) g w l o) f eq_refl eq_refl Htail Hbody ltac:(lia)).
    cbn [gpos lfs out LayoutProofs.mk]. apply so_comment; auto. }
  destruct (N.eq_dec b0 34) as [->|N34].
  { (* a string *)
    rewrite (lex_start_quote f _ _ (next_a [] 34 l0 g w l o ltac:(lia))).
    cbn [length] in Hf.
    destruct (quote_flat f l0 [34] (g + 1) 1%nat l o ltac:(lia)) as [F|(body & rest & w' & -> & HB & ->)];
      [apply so_fail; exact F|].
    replace (34 :: rev body ++ [34]) with (rev (34 :: body ++ [34]))
      by (cbn [rev]; rewrite rev_app_distr; reflexivity).
    replace (g + 1 + nlen body + 1) with (g + nlen (34 :: body ++ [34]))
      by (rewrite nlen_cons, nlen_app; unfold nlen; cbn [length]; lia).
    change (34 :: body ++ 34 :: rest) with ((34 :: body) ++ [34] ++ rest).
    rewrite app_assoc. apply emit_tok. exists body. split; [reflexivity|exact HB]. }
  destruct (ident_start b0) eqn:Hid.
  { (* an identifier or a keyword *)
    rewrite start_ident by exact Hid. cbn [length] in Hf.
    destruct (ident_flat f l0 [b0] (g + 1) 1%nat l o ltac:(lia)) as [F|(body & rest & w' & -> & HB & ->)];
      [apply so_fail; exact F|].
    replace (rev body ++ [b0]) with (rev (b0 :: body)) by reflexivity. rewrite rev_involutive.
    replace (g + 1 + nlen body) with (g + nlen (b0 :: body)) by (rewrite nlen_cons; lia).
    change (b0 :: body ++ rest) with ((b0 :: body) ++ rest).
    apply emit_tok, word_lexable'. split; assumption. }
  destruct (isdig b0) eqn:Hdg.
  { (* a number *)
    rewrite start_digit by exact Hdg.
    destruct (number_flat f b0 l0 g 1%nat l o Hdg Hf) as [F|(t & text & rest & w' & -> & Ht & ->)];
      [apply so_fail; exact F|].
    apply emit_tok. unfold lexable'. cbn [ttyp tval ltok].
    destruct Ht as [(-> & H)|(-> & H)]; exact H. }
  (* one- and two-character tokens, unknown characters *)
  unfold lex_start. rewrite next_a by exact Hb. rewrite of_N_not_eof. cbv zeta.
  assert (E35 : Z.eqb (Z.of_N b0) 35 = false) by lia.
  assert (E34 : Z.eqb (Z.of_N b0) 34 = false) by lia.
  assert (Edg : is_digit_r (Z.of_N b0) = false) by (rewrite dig_rune_byte; exact Hdg).
  unfold ident_start in Hid.
  destruct (two_rune_of (Z.of_N b0)) as [[r2 t2]|] eqn:E2.
  - destruct (two_rune_lexable' b0 r2 t2 E2) as [Hr2 L2].
    destruct (next_pair [b0] l0 (g + 1) 1%nat l o) as (c2 & E & Hbk). rewrite E.
    destruct (Z.eqb_spec (peek_rune l0) r2) as [Er|Nr].
    + rewrite <- Er in Hr2.
      destruct (next_ascii_inv _ _ _ _ _ _ _ E Hr2) as (b2 & rest & -> & Hb2 & Er2 & ->).
      replace [b2; b0] with (rev [b0; b2]) by reflexivity.
      replace (g + 1 + 1) with (g + nlen [b0; b2]) by (unfold nlen; cbn [length]; lia).
      change (b0 :: b2 :: rest) with ([b0; b2] ++ rest).
      apply emit_tok, L2. congruence.
    + rewrite Hbk. destruct (one_rune_of (Z.of_N b0)) as [t1|] eqn:E1.
      * replace [b0] with (rev [b0]) by reflexivity.
        replace (g + 1) with (g + nlen [b0]) by (unfold nlen; cbn [length]; lia).
        change (b0 :: l0) with ([b0] ++ l0).
        apply emit_tok, one_rune_lexable'. exact E1.
      * apply so_fail, fail_failed_mk.
  - destruct (one_rune_of (Z.of_N b0)) as [t1|] eqn:E1.
    + replace [b0] with (rev [b0]) by reflexivity.
      replace (g + 1) with (g + nlen [b0]) by (unfold nlen; cbn [length]; lia).
      change (b0 :: l0) with ([b0] ++ l0).
      apply emit_tok, one_rune_lexable'. exact E1.
    + rewrite Sp, E35, E34, Hid, Edg. apply so_fail, fail_failed_mk.
Qed.

(* ---------------------------------------------------------------------------------------- *)
(* 6. the run: the source is cut into layout and token texts                                   *)
(* ---------------------------------------------------------------------------------------- *)
(* Tile g src ts: the input `src`, which starts at offset g, is lexed to the tokens ts *)
Inductive Tile : N -> bytes -> list token -> Prop :=
| T_eof : forall g, Tile g [] [ltok tEOF [] g]
| T_ws : forall g parts rest ts, parts <> [] -> Forall ws_char parts ->
    Tile (g + nlen (concat parts)) rest ts -> Tile g (concat parts ++ rest) ts
| T_comment : forall g body tail ts, nocrlf body -> eol_or_end tail ->
    Tile (g + 1 + nlen body) tail ts -> Tile g (35 :: body ++ tail) ts
| T_tok : forall g t text rest ts, lexable' (ltok t text (g + nlen text)) ->
    Tile (g + nlen text) rest ts -> Tile g (text ++ rest) (ltok t text (g + nlen text) :: ts)
| T_fail : forall g src t1 t2, ttyp t1 = tERR -> ttyp t2 = tFAIL -> Tile g src [t1; t2].

Lemma parts_pos : forall parts, parts <> [] -> Forall ws_char parts -> (1 <= length (concat parts))%nat.
Proof.
  intros parts Hne F. pose proof (length_parts_le parts F). destruct parts; [congruence|].
  cbn [length] in *. unfold bytes in *. lia.
Qed.

Theorem lex_run_tile : forall s f src g w l o, (length src < s)%nat -> (length src < f)%nat ->
  exists ts, out (lex_run s f (cmk [] src g w l o)) = rev ts ++ o /\ Tile g src ts.
Proof.
  induction s as [|s IH]; intros f src g w l o Hs Hf; [lia|].
  cbn [lex_run]. pose proof (lex_start_flat f src g w l o Hf) as H.
  remember (lex_start f (cmk [] src g w l o)) as x eqn:Ex. clear Ex.
  destruct H as [w' E|parts rest w' E Hne F|body tail w' E Hb Ht|t text rest w' E L|x F].
  - subst src. exists [ltok tEOF [] g]. split; [reflexivity|apply T_eof].
  - pose proof (parts_pos parts Hne F) as Hp. subst src. rewrite app_length in Hs, Hf.
    destruct (IH f rest (g + nlen (concat parts)) w' l o ltac:(lia) ltac:(lia)) as (ts & Eo & T).
    exists ts. split; [exact Eo|apply T_ws; assumption].
  - subst src. cbn [length] in Hs, Hf. rewrite app_length in Hs, Hf.
    destruct (IH f tail (g + 1 + nlen body) w' l o ltac:(lia) ltac:(lia)) as (ts & Eo & T).
    exists ts. split; [exact Eo|apply T_comment; assumption].
  - destruct (lexable'_head _ L) as (b & r & Et & _). cbn [tval ltok] in Et.
    assert (Hl : (1 <= length text)%nat) by (rewrite Et; cbn [length]; lia).
    subst src. rewrite app_length in Hs, Hf.
    destruct (IH f rest (g + nlen text) w' l (ltok t text (g + nlen text) :: o) ltac:(lia) ltac:(lia))
      as (ts & Eo & T).
    exists (ltok t text (g + nlen text) :: ts). split; [|apply T_tok; assumption].
    rewrite Eo. cbn [rev]. rewrite <- app_assoc. reflexivity.
  - destruct x as [go c']. destruct F as (Hgo & t1 & t2 & Ho & H2 & H1). cbn [fst snd] in *. subst go.
    exists [t1; t2]. split; [exact Ho|apply T_fail; assumption].
Qed.

(* every input, cut into chunks in any way *)
Theorem lex_tile : forall cs, Tile 0 (concat cs) (fst (lex cs)).
Proof.
  intros cs. rewrite lex_chunk_independent, lex_flat.
  destruct (lex_run_tile (S (S (length (concat cs)))) (S (S (length (concat cs)))) (concat cs) 0 0%nat [] []
              ltac:(lia) ltac:(lia)) as (ts & E & T).
  rewrite E, app_nil_r, rev_involutive. exact T.
Qed.

(* 6a. soundness of the lexical grammar *)
Lemma Tile_lexable : forall g src ts, Tile g src ts ->
  forall t, In t ts -> ttyp t <> tEOF -> ttyp t <> tERR -> ttyp t <> tFAIL -> lexable' t.
Proof.
  induction 1 as [g|g parts rest ts Hne F T IH|g body tail ts Hb Ht T IH|g t text rest ts L T IH|g src t1 t2 H1 H2];
    intros x Hin N1 N2 N3; cbn [In] in Hin.
  - destruct Hin as [<-|[]]. cbn [ttyp ltok] in N1. congruence.
  - apply IH; assumption.
  - apply IH; assumption.
  - destruct Hin as [<-|Hin]; [exact L|apply IH; assumption].
  - destruct Hin as [<-|[<-|[]]]; congruence.
Qed.

Theorem lex_tokens_lexable : forall cs t, In t (fst (lex cs)) ->
  ttyp t <> tEOF -> ttyp t <> tERR -> ttyp t <> tFAIL -> lexable' t.
Proof. intros cs t. apply (Tile_lexable _ _ _ (lex_tile cs)). Qed.
Print Assumptions lex_tokens_lexable.

(* 6b. the text of a token is the piece of the source that ends at its position *)
Lemma Tile_substring : forall g src ts, Tile g src ts ->
  forall t, In t ts -> ttyp t <> tERR -> ttyp t <> tFAIL ->
  exists pre post, src = pre ++ tval t ++ post /\ tpos t = g + nlen pre + nlen (tval t).
Proof.
  induction 1 as [g|g parts rest ts Hne F T IH|g body tail ts Hb Ht T IH|g t text rest ts L T IH|g src t1 t2 H1 H2];
    intros x Hin N2 N3; cbn [In] in Hin.
  - destruct Hin as [<-|[]]. exists [], []. split; [reflexivity|]. cbn [tpos tval ltok]. unfold nlen. cbn [length]. lia.
  - destruct (IH x Hin N2 N3) as (pre & post & -> & Ep). exists (concat parts ++ pre), post.
    split; [rewrite <- app_assoc; reflexivity|]. rewrite Ep, nlen_app. lia.
  - destruct (IH x Hin N2 N3) as (pre & post & -> & Ep). exists (35 :: body ++ pre), post.
    split; [cbn [app]; rewrite <- app_assoc; reflexivity|]. rewrite Ep, nlen_cons, nlen_app. lia.
  - destruct Hin as [<-|Hin].
    + exists [], rest. split; [reflexivity|]. cbn [tpos tval ltok]. unfold nlen at 2. cbn [length]. lia.
    + destruct (IH x Hin N2 N3) as (pre & post & -> & Ep). exists (text ++ pre), post.
      split; [rewrite <- app_assoc; reflexivity|]. rewrite Ep, nlen_app. lia.
  - destruct Hin as [<-|[<-|[]]]; congruence.
Qed.

(* tEOF included: its text is empty and its position is the length of the source *)
Theorem lex_token_substring : forall cs t, In t (fst (lex cs)) -> ttyp t <> tERR -> ttyp t <> tFAIL ->
  exists pre post, concat cs = pre ++ tval t ++ post /\ tpos t = nlen pre + nlen (tval t).
Proof.
  intros cs t Hin N2 N3. destruct (Tile_substring _ _ _ (lex_tile cs) t Hin N2 N3) as (pre & post & E & Ep).
  exists pre, post. split; [exact E|lia].
Qed.
Print Assumptions lex_token_substring.

(* the same with firstn / skipn: the bytes [tpos t - |tval t|, tpos t) of the source *)
Corollary lex_token_at : forall cs t, In t (fst (lex cs)) -> ttyp t <> tERR -> ttyp t <> tFAIL ->
  nlen (tval t) <= tpos t /\ tpos t <= nlen (concat cs) /\
  firstn (length (tval t)) (skipn (N.to_nat (tpos t - nlen (tval t))) (concat cs)) = tval t.
Proof.
  intros cs t Hin N2 N3. destruct (lex_token_substring cs t Hin N2 N3) as (pre & post & E & Ep).
  split; [lia|]. split; [rewrite E, !nlen_app; lia|].
  replace (N.to_nat (tpos t - nlen (tval t))) with (length pre) by (unfold nlen in *; lia).
  rewrite E. destruct (firstn_skipn_exact pre (tval t ++ post) (length pre) eq_refl) as [_ ->].
  destruct (firstn_skipn_exact (tval t) post (length (tval t)) eq_refl) as [-> _]. reflexivity.
Qed.
Print Assumptions lex_token_at.

(* 6c. nothing is dropped, nothing invented: layout and token texts, in turn, are the source *)
Fixpoint interleave (gaps texts : list bytes) : list bytes :=
  match gaps, texts with
  | g :: gs, t :: ts => g :: t :: interleave gs ts
  | gs, [] => gs
  | [], ts => ts
  end.

Lemma layout_parts : forall parts, Forall ws_char parts -> layout (concat parts).
Proof. induction 1 as [|p parts Hp F IH]; [apply layout_nil|]. cbn [concat]. apply layout_ws; assumption. Qed.

(* a layout that starts with a line end: the rest is a layout *)
Lemma layout_eol_inv : forall e r, layout (e :: r) -> (e = 10 \/ e = 13) -> layout r.
Proof.
  intros e r H He. inversion H as [|p l0 Hp Hl E|body e' l0 Hb He' Hl E].
  - unfold ws_char, ws_chars in Hp. cbn [In] in Hp.
    destruct Hp as [<-|[<-|[<-|[<-|[<-|[<-|[<-|[<-|[]]]]]]]]]; cbn [app] in E;
      injection E as E1 E2; try (subst; exact Hl); exfalso; destruct He; lia.
  - exfalso. destruct He; lia.
Qed.

Lemma layout_end_app : forall a b, layout a -> layout_end b -> layout_end (a ++ b).
Proof.
  intros a b Ha [Hb|(l0 & body & Hl & Hn & ->)].
  - left. apply layout_app; assumption.
  - right. exists (a ++ l0), body. split; [apply layout_app; assumption|]. split; [exact Hn|].
    rewrite <- app_assoc. reflexivity.
Qed.

(* a comment and what follows it: a line end (or nothing) *)
Lemma layout_comment_gap : forall body g0, nocrlf body -> layout g0 ->
  (exists e r, g0 = e :: r /\ (e = 10 \/ e = 13)) -> layout (35 :: body ++ g0).
Proof.
  intros body g0 Hb Hl (e & r & -> & He). apply layout_comment; [exact Hb|exact He|].
  apply (layout_eol_inv e r Hl He).
Qed.

Lemma layout_end_comment : forall body last, nocrlf body -> layout_end last -> eol_or_end last ->
  layout_end (35 :: body ++ last).
Proof.
  intros body last Hb Hl [->|(e & r & -> & He)].
  - right. exists [], body. split; [apply layout_nil|]. split; [exact Hb|]. rewrite app_nil_r. reflexivity.
  - destruct Hl as [Hl|(l0 & body2 & Hl0 & Hn & E)].
    + left. apply layout_comment_gap; [exact Hb|exact Hl|]. exists e, r. auto.
    + destruct l0 as [|x l0]; cbn [app] in E.
      { exfalso. injection E as E _. destruct He; lia. }
      injection E as <- ->. right. exists (35 :: body ++ e :: l0), body2.
      split; [apply layout_comment_gap; [exact Hb|exact Hl0|exists e, l0; auto]|]. split; [exact Hn|].
      cbn [app]. rewrite <- app_assoc. reflexivity.
Qed.

(* a run that reaches tEOF consists of ordinary tokens *)
Lemma Tile_normal : forall g src all, Tile g src all ->
  forall ts e, all = ts ++ [e] -> ttyp e = tEOF -> Forall lexable' ts.
Proof.
  induction 1 as [g|g parts rest ts Hne F T IH|g body tail ts Hb Ht T IH|g t text rest ts L T IH|g src t1 t2 H1 H2];
    intros ts0 e E He.
  - change [ltok tEOF [] g] with ([] ++ [ltok tEOF [] g]) in E. apply app_inj_tail in E. destruct E as [<- _]. constructor.
  - eapply IH; eassumption.
  - eapply IH; eassumption.
  - destruct ts0 as [|t0 ts0]; cbn [app] in E.
    + exfalso. injection E as E _. subst e. unfold lexable' in L. cbn [ttyp ltok] in *. subst t. exact L.
    + injection E as <- E. constructor; [exact L|]. eapply IH; eassumption.
  - exfalso. change [t1; t2] with ([t1] ++ [t2]) in E. apply app_inj_tail in E. destruct E as [_ <-]. congruence.
Qed.

Lemma head_not_eol : forall text (rest : bytes), head_ok text -> ~ eol_or_end (text ++ rest).
Proof.
  intros text rest (b & r & -> & Hb & Hs) [E|(e & r' & E & He)]; cbn [app] in E; [discriminate E|].
  injection E as -> _. destruct He; subst e; discriminate Hs.
Qed.

Lemma Tile_tiles : forall g src all, Tile g src all ->
  forall ts e, all = ts ++ [e] -> ttyp e = tEOF ->
  exists gaps last, length gaps = length ts /\ Forall layout gaps /\ layout_end last /\
    src = concat (interleave (gaps ++ [last]) (map tval ts)).
Proof.
  induction 1 as [g|g parts rest ts Hne F T IH|g body tail ts Hb Ht T IH|g t text rest ts L T IH|g src t1 t2 H1 H2];
    intros ts0 e E He.
  - change [ltok tEOF [] g] with ([] ++ [ltok tEOF [] g]) in E. apply app_inj_tail in E. destruct E as [<- _].
    exists [], []. split; [reflexivity|]. split; [constructor|]. split; [left; apply layout_nil|reflexivity].
  - destruct (IH ts0 e E He) as (gaps & last & Hl & Hg & Hlast & ->).
    pose proof (layout_parts parts F) as HP.
    destruct ts0 as [|t0 ts0], gaps as [|g0 gaps]; try discriminate Hl.
    + exists [], (concat parts ++ last). split; [reflexivity|]. split; [constructor|].
      split; [apply layout_end_app; assumption|].
      cbn [app map interleave concat]. rewrite !app_nil_r. reflexivity.
    + inversion Hg as [|g0' gaps' Hg0 Hgs]; subst.
      exists ((concat parts ++ g0) :: gaps), last. split; [exact Hl|]. split; [|split; [exact Hlast|]].
      * constructor; [apply layout_app; assumption|exact Hgs].
      * cbn [app map interleave concat]. rewrite <- app_assoc. reflexivity.
  - pose proof (Tile_normal _ _ _ T ts0 e E He) as HN.
    destruct (IH ts0 e E He) as (gaps & last & Hl & Hg & Hlast & ->).
    destruct ts0 as [|t0 ts0], gaps as [|g0 gaps]; try discriminate Hl.
    + cbn [app map interleave concat] in Ht. rewrite app_nil_r in Ht.
      exists [], (35 :: body ++ last). split; [reflexivity|]. split; [constructor|].
      split; [apply layout_end_comment; assumption|].
      cbn [app map interleave concat]. rewrite !app_nil_r. reflexivity.
    + inversion Hg as [|g0' gaps' Hg0 Hgs]; subst. inversion HN as [|t0' ts0' L0 _]; subst.
      cbn [app map interleave concat] in Ht.
      exists ((35 :: body ++ g0) :: gaps), last. split; [exact Hl|]. split; [|split; [exact Hlast|]].
      * constructor; [|exact Hgs]. apply layout_comment_gap; [exact Hb|exact Hg0|].
        destruct g0 as [|x g0].
        { exfalso. cbn [app] in Ht. exact (head_not_eol _ _ (lexable'_head _ L0) Ht). }
        destruct Ht as [Ht|(e' & r' & Ht & He')]; [discriminate Ht|]. cbn [app] in Ht. injection Ht as -> _.
        exists e', g0. auto.
      * cbn [app map interleave concat]. rewrite <- app_assoc. reflexivity.
  - destruct ts0 as [|t0 ts0]; cbn [app] in E.
    + exfalso. injection E as E _. subst e. unfold lexable' in L. cbn [ttyp ltok] in *. subst t. exact L.
    + injection E as <- E. destruct (IH ts0 e E He) as (gaps & last & Hl & Hg & Hlast & ->).
      exists ([] :: gaps), last. split; [cbn [length]; lia|]. split; [constructor; [apply layout_nil|exact Hg]|].
      split; [exact Hlast|reflexivity].
  - exfalso. change [t1; t2] with ([t1] ++ [t2]) in E. apply app_inj_tail in E. destruct E as [_ <-]. congruence.
Qed.

(* a run that reaches the end of the input: the source is
     gap_0 text_1 gap_1 ... text_n gap_n
   where text_i are the texts of the tokens, in order, every gap but the last is a layout
   (white space and whole comment lines, possibly empty) and the last one a layout that may
   end in a comment without line end *)
Theorem lex_tiles : forall cs ts e, fst (lex cs) = ts ++ [e] -> ttyp e = tEOF ->
  exists gaps last, length gaps = length ts /\ Forall layout gaps /\ layout_end last /\
    concat (interleave (gaps ++ [last]) (map tval ts)) = concat cs.
Proof.
  intros cs ts e E He. destruct (Tile_tiles _ _ _ (lex_tile cs) ts e E He) as (gaps & last & H1 & H2 & H3 & H4).
  exists gaps, last. auto.
Qed.
Print Assumptions lex_tiles.

(* the form with one list of gaps *)
Corollary lex_tiles_gaps : forall cs ts e, fst (lex cs) = ts ++ [e] -> ttyp e = tEOF ->
  exists gaps, length gaps = S (length ts) /\ Forall layout_end gaps /\
    concat (interleave gaps (map tval ts)) = concat cs.
Proof.
  intros cs ts e E He. destruct (lex_tiles cs ts e E He) as (gaps & last & H1 & H2 & H3 & H4).
  exists (gaps ++ [last]). split; [rewrite app_length; cbn [length]; lia|]. split; [|exact H4].
  apply Forall_app. split; [|constructor; [exact H3|constructor]].
  eapply Forall_impl; [|exact H2]. intros a Ha. left. exact Ha.
Qed.
Print Assumptions lex_tiles_gaps.

(* the hypothesis in the form used elsewhere: the last token is tEOF *)
Lemma last_opt_split : forall {A} (l : list A) a, last_opt l = Some a -> exists l', l = l' ++ [a].
Proof.
  induction l as [|x l IH]; intros a H; [discriminate H|]. destruct l as [|y l].
  - injection H as <-. exists []. reflexivity.
  - rewrite last_opt_cons in H. destruct (IH a H) as (l' & ->). exists (x :: l'). reflexivity.
Qed.

Corollary lex_tiles_last : forall cs e, last_opt (fst (lex cs)) = Some e -> ttyp e = tEOF ->
  exists ts gaps, fst (lex cs) = ts ++ [e] /\ length gaps = S (length ts) /\ Forall layout_end gaps /\
    concat (interleave gaps (map tval ts)) = concat cs.
Proof.
  intros cs e H He. destruct (last_opt_split _ _ H) as (ts & E).
  destruct (lex_tiles_gaps cs ts e E He) as (gaps & H1 & H2 & H3). exists ts, gaps. auto.
Qed.
Print Assumptions lex_tiles_last.

(* sanity: a source with all kinds of gaps *)
Example tiles_example :
  let src := bs "# c" ++ [10; 32] ++ bs "x=0x1F" ++ [9] ++ bs """a b""" ++ bs " # end" in
  map tval (fst (lex [src])) = [bs "x"; bs "="; bs "0x1F"; bs """a b"""; []] /\
  src = concat (interleave [bs "# c" ++ [10; 32]; []; []; [9]; bs " # end"] [bs "x"; bs "="; bs "0x1F"; bs """a b"""]).
Proof. split; vm_compute; reflexivity. Qed.

(* ---------------------------------------------------------------------------------------- *)
(* 7. the widened grammar is exact: every text it allows is delivered by the lexer             *)
(* ---------------------------------------------------------------------------------------- *)
(* 7a. hexadecimal literals *)
Lemma ishex_rune : forall b, ishex b = true -> zin (Z.of_N b) hexdigits_set = true /\ b < 128.
Proof. intros b H. rewrite zin_hex. split; [exact H|]. unfold ishex, isdig in H. lia. Qed.

Lemma hex_scan : forall fuel H rest bef g w0 l o acc,
  forallb ishex H = true -> arest rest -> zin (hd_rune rest) hexdigits_set = false -> (length H < fuel)%nat ->
  accept_run_f fuel (fun r => zin r hexdigits_set) acc (cmk bef (H ++ rest) g w0 l o) =
  (match H with [] => acc | _ => true end, cmk (rev H ++ bef) rest (g + nlen H) (width_at rest) l o).
Proof.
  induction fuel as [|f IH]; intros H rest bef g w0 l o acc HH Ha Hr Hf; [lia|].
  destruct H as [|d H].
  - cbn [app accept_run_f rev]. rewrite next_ar by exact Ha. rewrite Hr, backup_adv.
    replace (g + nlen []) with g by (unfold nlen; cbn [length]; lia). reflexivity.
  - cbn [forallb] in HH. apply andb_prop in HH. destruct HH as [Hd HH].
    destruct (ishex_rune d Hd) as [Hd1 Hd2].
    cbn [app accept_run_f]. rewrite next_a by exact Hd2. rewrite Hd1.
    rewrite IH; [|exact HH|exact Ha|exact Hr|cbn [length] in Hf; lia].
    cbn [rev]. rewrite <- !app_assoc. cbn [app].
    replace (g + 1 + nlen H) with (g + nlen (d :: H)) by (rewrite nlen_cons; lia).
    destruct H; reflexivity.
Qed.

Theorem hex_emits : forall x H rest, (x = 120 \/ x = 88) -> forallb ishex H = true -> fstop rest ->
  emits tINT (48 :: x :: H) rest.
Proof.
  intros x H rest Hx HH [Ha Hs] f g w l o Hf. exists (width_at rest). cbn [length] in Hf.
  assert (HS : zin (hd_rune rest) hexdigits_set = false /\
               Z.eqb (hd_rune rest) 46 || Z.eqb (hd_rune rest) 34 || is_alpha (hd_rune rest) = false).
  { unfold stop_rune, is_alnum, is_alpha, is_digit_r, zin, hexdigits_set, digits_set in *. cbn [app existsb]. lia. }
  destruct HS as [S1 S2].
  cbn [app]. rewrite start_digit by reflexivity. unfold lex_number_tail.
  rewrite accept_yes by (reflexivity || lia).
  rewrite accept_yes; [|destruct Hx; subst x; lia|destruct Hx; subst x; reflexivity].
  unfold lex_hex, accept_run. rewrite hex_scan; [|exact HH|exact Ha|exact S1|lia].
  rewrite peek_ar by exact Ha. rewrite S2, emit_mk. cbn [rev]. rewrite rev_app_distr, rev_involutive. cbn [rev app].
  replace (g + 1 + 1 + nlen H) with (g + nlen (48 :: x :: H)) by (rewrite !nlen_cons; lia).
  reflexivity.
Qed.

(* 7b. strings with any bytes *)
Lemma qbody'_drop_hi : forall p r, hi p -> qbody' (p ++ r) -> qbody' r.
Proof.
  induction 1 as [|x p Hx Hp IH]; intros H; [exact H|]. cbn [app] in H.
  inversion H as [|b r' _ _ _ Hr|b r' _ Hr]; subst; [apply IH; exact Hr|lia].
Qed.

Lemma quote_scan' : forall n body, (length body <= n)%nat -> qbody' body ->
  forall fuel rest bef g w0 l o, arest rest -> is_alnum (hd_rune rest) = false -> (length body < fuel)%nat ->
  lex_quote fuel (cmk bef (body ++ 34 :: rest) g w0 l o) =
  (true, emit tSTR (cmk (34 :: rev body ++ bef) rest (g + nlen body + 1) (width_at rest) l o)).
Proof.
  induction n as [|n IH]; intros body Hn Hq fuel rest bef g w0 l o Ha Hs Hf.
  { destruct body; [|cbn [length] in Hn; lia]. apply (quote_scan_esc [] qb_nil); assumption. }
  destruct fuel as [|f]; [lia|].
  assert (AT : ascii_or_end (34 :: rest)) by (apply ascii_tail; lia).
  inversion Hq as [|b r N34 N92 N10 Hr|b r N10 Hr]; subst.
  - apply (quote_scan_esc [] qb_nil); assumption.
  - (* a raw byte: one ASCII byte, or a rune of bytes >= 128 *)
    cbn [lex_quote]. cbn [length] in Hn, Hf.
    destruct (next_cases bef ((b :: r) ++ 34 :: rest) g w0 l o)
      as [(E0 & _)|[(b' & rest0 & E0 & Hb & E)|(pre & rest0 & rr & E0 & Hne & Hhi & Hrr & E)]].
    + discriminate E0.
    + cbn [app] in E0. injection E0 as <- <-. rewrite E. clear E.
      assert (E1 : Z.eqb (Z.of_N b) 92 = false) by lia.
      assert (E2 : Z.eqb (Z.of_N b) eof || Z.eqb (Z.of_N b) 10 = false) by (unfold eof; lia).
      assert (E3 : Z.eqb (Z.of_N b) 34 = false) by lia.
      rewrite E1, E2, E3. rewrite (IH r); [|lia|exact Hr|exact Ha|exact Hs|lia].
      cbn [rev]. rewrite <- !app_assoc. cbn [app].
      replace (g + 1 + nlen r + 1) with (g + nlen (b :: r) + 1) by (rewrite nlen_cons; lia). reflexivity.
    + destruct (cont_prefix pre rest0 (b :: r) (34 :: rest) (eq_sym E0) Hhi AT) as (body' & Eb & ->).
      rewrite E. clear E.
      destruct (rune_hi_class rr Hrr) as (_ & _ & _ & _ & R34 & _ & R92 & R10 & Reof & _).
      rewrite R92, R10, Reof, R34. cbn [orb].
      pose proof (length_hi_pos pre Hne) as Hl.
      assert (El : length (b :: r) = (length pre + length body')%nat) by (rewrite Eb, app_length; reflexivity).
      cbn [length] in El.
      rewrite (IH body'); [|lia|apply (qbody'_drop_hi pre); [exact Hhi|rewrite <- Eb; exact Hq]|exact Ha|exact Hs|lia].
      rewrite Eb, rev_app_distr, <- !app_assoc.
      replace (g + nlen pre + nlen body' + 1) with (g + nlen (pre ++ body') + 1) by (rewrite nlen_app; lia).
      reflexivity.
  - (* a backslash and the next rune *)
    cbn [lex_quote app]. cbn [length] in Hn, Hf. rewrite next_a by lia. change (Z.of_N 92) with 92%Z.
    cbn [Z.eqb Pos.eqb].
    destruct (next_cases (92 :: bef) ((b :: r) ++ 34 :: rest) (g + 1) 1%nat l o)
      as [(E0 & _)|[(b' & rest0 & E0 & Hb & E)|(pre & rest0 & rr & E0 & Hne & Hhi & Hrr & E)]].
    + discriminate E0.
    + cbn [app] in E0. injection E0 as <- <-. change (b :: r ++ 34 :: rest) with ((b :: r) ++ 34 :: rest). rewrite E. clear E.
      assert (E1 : negb (Z.eqb (Z.of_N b) eof) && negb (Z.eqb (Z.of_N b) 10) = true) by (unfold eof; lia).
      rewrite E1. rewrite (IH r); [|lia|exact Hr|exact Ha|exact Hs|lia].
      cbn [rev]. rewrite <- !app_assoc. cbn [app].
      replace (g + 1 + 1 + nlen r + 1) with (g + nlen (92 :: b :: r) + 1) by (rewrite !nlen_cons; lia). reflexivity.
    + destruct (cont_prefix pre rest0 (b :: r) (34 :: rest) (eq_sym E0) Hhi AT) as (body' & Eb & ->).
      change (b :: r ++ 34 :: rest) with ((b :: r) ++ 34 :: rest). rewrite E. clear E.
      destruct (rune_hi_class rr Hrr) as (_ & _ & _ & _ & _ & _ & _ & R10 & Reof & _).
      rewrite R10, Reof. cbn [negb andb].
      pose proof (length_hi_pos pre Hne) as Hl.
      assert (El : length (b :: r) = (length pre + length body')%nat) by (rewrite Eb, app_length; reflexivity).
      cbn [length] in El.
      assert (Hq' : qbody' body').
      { destruct pre as [|x pre]; [congruence|]. cbn [app] in Eb. injection Eb as <- Er.
        inversion Hhi as [|x' p' _ Hhi']; subst. apply (qbody'_drop_hi pre); assumption. }
      rewrite (IH body'); [|lia|exact Hq'|exact Ha|exact Hs|lia].
      rewrite Eb. cbn [rev]. rewrite rev_app_distr, <- !app_assoc. cbn [app].
      replace (g + 1 + nlen pre + nlen body' + 1) with (g + nlen (92 :: pre ++ body') + 1)
        by (rewrite nlen_cons, nlen_app; lia).
      reflexivity.
Qed.

Theorem str'_emits : forall body rest, qbody' body -> fstop rest -> emits tSTR (34 :: body ++ [34]) rest.
Proof.
  intros body rest Hq [Ha Hs] f g w l o Hf. exists (width_at rest).
  assert (Hal : is_alnum (hd_rune rest) = false).
  { unfold stop_rune in Hs. destruct (is_alnum (hd_rune rest)); [discriminate Hs|reflexivity]. }
  cbn [app]. rewrite <- app_assoc. cbn [app].
  rewrite (lex_start_quote f _ _ (next_a [] 34 _ g w l o ltac:(lia))).
  rewrite (quote_scan' (length body) body (le_n _) Hq);
    [|exact Ha|exact Hal|cbn [length] in Hf; rewrite app_length in Hf; lia].
  rewrite emit_mk. cbn [rev]. rewrite rev_app_distr, rev_involutive. cbn [rev app].
  replace (g + 1 + nlen body + 1) with (g + nlen (34 :: body ++ [34]))
    by (rewrite nlen_cons, nlen_app; unfold nlen; cbn [length]; lia).
  reflexivity.
Qed.

(* 7c. completeness for the widened grammar, and the characterisation *)
Theorem lexable'_emits : forall t rest, lexable' t -> fstop rest -> emits (ttyp t) (tval t) rest.
Proof.
  intros [ty v e p] rest H Hs.
  destruct ty;
    try (match goal with |- emits (ttyp ?t) _ _ => exact (lexable_emits t rest H Hs) end);
    unfold lexable' in H; cbn [ttyp tval] in *.
  - destruct H as [H|(x & HH & -> & Hx & Hh)]; [apply int_emits; assumption|apply hex_emits; assumption].
  - destruct H as (body & -> & Hq). apply str'_emits; assumption.
Qed.

(* a (type, text) pair fits the widened grammar exactly when the lexer delivers it for some input *)
Theorem lexable'_exact : forall ty v,
  lexable' (ltok ty v 0) <->
  exists cs t, In t (fst (lex cs)) /\ ttyp t = ty /\ tval t = v /\ ty <> tEOF /\ ty <> tERR /\ ty <> tFAIL.
Proof.
  intros ty v. split.
  - intros H. exists [v].
    destruct (lexable'_emits _ [] H fstop_nil (S (S (length v))) 0 0%nat [] [] ltac:(cbn [tval ltok]; lia)) as (w' & E).
    cbn [ttyp tval ltok] in E. rewrite app_nil_r in E.
    exists (ltok ty v (0 + nlen v)). split.
    + rewrite lex_flat. rewrite (lex_run_step _ _ _ _ E). cbn [lex_run]. unfold lex_start. rewrite next_mk_eof.
      change (Z.eqb eof eof) with true. cbv iota. rewrite emit_mk. cbn [out LayoutProofs.mk rev app In]. auto.
    + cbn [ttyp tval ltok]. split; [reflexivity|]. split; [reflexivity|].
      unfold lexable' in H. cbn [ttyp ltok] in H. repeat split; intros ->; exact H.
  - intros (cs & t & Hin & <- & <- & N1 & N2 & N3). exact (lex_tokens_lexable cs t Hin N1 N2 N3).
Qed.
Print Assumptions lexable'_emits.
Print Assumptions lexable'_exact.
