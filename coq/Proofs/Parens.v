(* Parens.v: redundant parentheses never change the syntax tree.

   Spec/Syntax.v gives '(' e ')' in operand position the tree of e (no node).  This file proves the
   general statement: whenever the grammar parses an expression at some position -- a call
   pexpr f q ts = Some (e, r), at any binding level q, consuming the segment seg with ts = seg ++ r --
   writing that segment in parentheses gives the same tree and the same rest.

   1. locality: a parse depends on the tokens it consumes and on the kind of the one token after
      them only ([expr_local]); a token that is neither an infix operator nor '=' ("hard stop", for
      example ')') can replace any follower.
   2. levels: a parse that ends at a hard stop is the same at every lower level ([pexpr_lower]).
   3. [paren_subexpr]: the theorem above; [paren_primary], [paren_operand], [complete_paren],
      [paren_double]: the operand forms.
   4. statement level: print / eval / var / expression statement / assignment.
   5. contexts: the parenthesised node may sit anywhere in a program ([PT_sound]), and by T2 the two
      programs compile to the same code ([paren_same_program]). *)
From Coq Require Import Lia ZifyNat ZifyBool List Bool.
From BCL Require Import Model.Api Model.Compile Spec.Syntax Proofs.ParserInvProofs Proofs.T2Expr Proofs.T2Proofs
                        Proofs.Language Proofs.LayoutTree.
Import ListNotations.
Open Scope N_scope.

(* ------------------------------------------------------------------ *)
(* 0. the infix loop in one equation                                   *)
(* ------------------------------------------------------------------ *)

(* the loop at level q takes the operator t *)
Definition takes (q : nat) (t : tok) : bool := (0 <? infix_lvl t)%nat && (q <=? infix_lvl t)%nat.

(* level of the right operand and the node built *)
Definition infix_of (t : tok) : option (nat * (expr -> expr -> expr)) :=
  match t with
  | tAND => Some (lvl_and, EAnd)
  | tOR => Some (lvl_or, EOr)
  | _ => match binop_of t with Some (o, l) => Some (S l, EBin o) | None => None end
  end.

Lemma ploop_step : forall f q lhs ts,
  ploop (S f) q lhs ts =
    if takes q (hd_typ ts) then
      match infix_of (hd_typ ts) with
      | Some (lv, k) => match pexpr f lv (tl ts) with
                        | Some (rhs, r) => ploop f q (k lhs rhs) r | None => None end
      | None => None
      end
    else Some (lhs, ts).
Proof. intros. cbn [ploop]. unfold takes. destruct (hd_typ ts); reflexivity. Qed.

(* a token that ends every expression: not an infix operator, not '=' *)
Definition hard (t : tok) : Prop := infix_lvl t = 0%nat /\ t <> tEQ.

(* r2 may stand for r after a parse that stopped at r *)
Definition look (r r2 : list token) : Prop := hd_typ r2 = hd_typ r \/ hard (hd_typ r2).

Lemma hard_not_eq : forall t, hard t -> tok_eqb t tEQ = false.
Proof. intros t [_ H]. apply tok_eqb_neq. exact H. Qed.

Lemma hard_takes : forall q t, hard t -> takes q t = false.
Proof. intros q t [H _]. unfold takes. rewrite H. reflexivity. Qed.

Lemma hard_rparen : forall c r, ttyp c = tRPAREN -> hard (hd_typ (c :: r)).
Proof. intros c r H. cbn [hd_typ]. rewrite H. split; [reflexivity|discriminate]. Qed.

Lemma hard_lparen : forall c r, ttyp c = tLPAREN -> hard (hd_typ (c :: r)).
Proof. intros c r H. cbn [hd_typ]. rewrite H. split; [reflexivity|discriminate]. Qed.

Lemma look_app : forall s r r2, look r r2 -> look (s ++ r) (s ++ r2).
Proof. intros [|a s] r r2 H; [exact H|left; reflexivity]. Qed.

Lemma look_refl : forall r, look r r.
Proof. intros r. left. reflexivity. Qed.

Lemma look_takes : forall q r r2, look r r2 -> takes q (hd_typ r) = false -> takes q (hd_typ r2) = false.
Proof. intros q r r2 [E|H] Hc; [rewrite E; exact Hc|apply hard_takes, H]. Qed.

Lemma look_check : forall q r r2, look r r2 ->
  (q <=? lvl_assign)%nat && tok_eqb (hd_typ r) tEQ = false ->
  (q <=? lvl_assign)%nat && tok_eqb (hd_typ r2) tEQ = false.
Proof.
  intros q r r2 [E|H] Hc; [rewrite E; exact Hc|rewrite (hard_not_eq _ H); apply andb_false_r].
Qed.

(* ------------------------------------------------------------------ *)
(* 1. locality                                                         *)
(* ------------------------------------------------------------------ *)

Definition ExprL (f : nat) : Prop := forall q ts e r, pexpr f q ts = Some (e, r) ->
  exists seg, ts = seg ++ r /\ forall r2, look r r2 -> pexpr f q (seg ++ r2) = Some (e, r2).
Definition LoopL (f : nat) : Prop := forall q l ts e r, ploop f q l ts = Some (e, r) ->
  exists seg, ts = seg ++ r /\ forall r2, look r r2 -> ploop f q l (seg ++ r2) = Some (e, r2).
Definition PreL (f : nat) : Prop := forall q ts e r, ppre f q ts = Some (e, r) ->
  exists seg, ts = seg ++ r /\ forall r2, look r r2 -> ppre f q (seg ++ r2) = Some (e, r2).

Lemma ppre_local : forall f, ExprL f -> PreL f.
Proof.
  intros f HE q ts e r H. destruct ts as [|t r0]; [discriminate H|]. unfold ppre in H.
  destruct (ttyp t) eqn:Et; try discriminate H.
  - destruct (parse_int (tval t)) eqn:Ep; [discriminate H|]. injection H as <- <-.
    exists [t]. split; [reflexivity|]. intros r2 _. cbn [app]. unfold ppre. rewrite Et, Ep. reflexivity.
  - destruct (parse_float (tval t)) eqn:Ep; [discriminate H|]. injection H as <- <-.
    exists [t]. split; [reflexivity|]. intros r2 _. cbn [app]. unfold ppre. rewrite Et, Ep. reflexivity.
  - destruct (unquote (tval t)) eqn:Ep; [|discriminate H]. injection H as <- <-.
    exists [t]. split; [reflexivity|]. intros r2 _. cbn [app]. unfold ppre. rewrite Et, Ep. reflexivity.
  - destruct ((q <=? lvl_assign)%nat && tok_eqb (hd_typ r0) tEQ) eqn:Ec.
    + destruct (pexpr f lvl_assign (tl r0)) as [[e1 r1]|] eqn:E1; [|discriminate H]. injection H as <- <-.
      destruct r0 as [|c r0]; [cbn in Ec; rewrite andb_false_r in Ec; discriminate Ec|].
      cbn [tl] in E1. destruct (HE _ _ _ _ E1) as (seg & -> & L).
      exists (t :: c :: seg). split; [reflexivity|]. intros r2 H2. cbn [app]. unfold ppre. rewrite Et.
      cbn [hd_typ tl] in *. rewrite Ec, (L r2 H2). reflexivity.
    + injection H as <- <-. exists [t]. split; [reflexivity|]. intros r2 H2. cbn [app]. unfold ppre.
      rewrite Et, (look_check _ _ _ H2 Ec). reflexivity.
  - injection H as <- <-. exists [t]. split; [reflexivity|]. intros r2 _. cbn [app]. unfold ppre. rewrite Et. reflexivity.
  - injection H as <- <-. exists [t]. split; [reflexivity|]. intros r2 _. cbn [app]. unfold ppre. rewrite Et. reflexivity.
  - injection H as <- <-. exists [t]. split; [reflexivity|]. intros r2 _. cbn [app]. unfold ppre. rewrite Et. reflexivity.
  - destruct (pexpr f lvl_assign r0) as [[e1 r1]|] eqn:E1; [|discriminate H].
    destruct r1 as [|c r1]; [discriminate H|].
    destruct (tok_eqb (ttyp c) tRPAREN) eqn:Ec; [|discriminate H]. injection H as <- <-.
    destruct (HE _ _ _ _ E1) as (seg & -> & L).
    exists (t :: seg ++ [c]). split; [cbn [app]; rewrite <- app_assoc; reflexivity|].
    intros r2 H2. cbn [app]. rewrite <- app_assoc. cbn [app]. unfold ppre.
    rewrite Et, (L (c :: r2)) by (left; reflexivity). rewrite Ec. reflexivity.
  - destruct (pexpr f lvl_not r0) as [[e1 r1]|] eqn:E1; [|discriminate H]. injection H as <- <-.
    destruct (HE _ _ _ _ E1) as (seg & -> & L). exists (t :: seg). split; [reflexivity|].
    intros r2 H2. cbn [app]. unfold ppre. rewrite Et, (L r2 H2). reflexivity.
  - destruct (pexpr f lvl_unary r0) as [[e1 r1]|] eqn:E1; [|discriminate H]. injection H as <- <-.
    destruct (HE _ _ _ _ E1) as (seg & -> & L). exists (t :: seg). split; [reflexivity|].
    intros r2 H2. cbn [app]. unfold ppre. rewrite Et, (L r2 H2). reflexivity.
  - destruct (pexpr f lvl_unary r0) as [[e1 r1]|] eqn:E1; [|discriminate H]. injection H as <- <-.
    destruct (HE _ _ _ _ E1) as (seg & -> & L). exists (t :: seg). split; [reflexivity|].
    intros r2 H2. cbn [app]. unfold ppre. rewrite Et, (L r2 H2). reflexivity.
Qed.

Lemma ptail_local : forall f, LoopL f -> forall q e0 r0 e r, ptail f q (Some (e0, r0)) = Some (e, r) ->
  exists seg, r0 = seg ++ r /\ forall r2, look r r2 -> ptail f q (Some (e0, seg ++ r2)) = Some (e, r2).
Proof.
  intros f HL q e0 r0 e r H. unfold ptail in H.
  destruct (ploop f q e0 r0) as [[e1 r1]|] eqn:E; [|discriminate H].
  destruct ((q <=? lvl_assign)%nat && tok_eqb (hd_typ r1) tEQ) eqn:Ec; [discriminate H|]. injection H as <- <-.
  destruct (HL _ _ _ _ _ E) as (seg & -> & L). exists seg. split; [reflexivity|].
  intros r2 H2. unfold ptail. rewrite (L r2 H2), (look_check _ _ _ H2 Ec). reflexivity.
Qed.

Lemma expr_local_step : forall f, ExprL f -> LoopL f -> ExprL (S f).
Proof.
  intros f HE HL q ts e r H. rewrite LayoutTree.pexpr_S in H.
  destruct (ppre f q ts) as [[e0 r0]|] eqn:Ep; [|discriminate H].
  destruct (ppre_local f HE _ _ _ _ Ep) as (s0 & -> & L0).
  destruct (ptail_local f HL _ _ _ _ _ H) as (s1 & -> & L1).
  exists (s0 ++ s1). split; [apply app_assoc|]. intros r2 H2.
  rewrite LayoutTree.pexpr_S, <- app_assoc, (L0 (s1 ++ r2)) by (apply look_app, H2). apply L1, H2.
Qed.

Lemma loop_local_step : forall f, ExprL f -> LoopL f -> LoopL (S f).
Proof.
  intros f HE HL q l ts e r H. rewrite ploop_step in H. destruct (takes q (hd_typ ts)) eqn:Ec.
  - destruct ts as [|c ts]; [cbn in Ec; discriminate Ec|]. cbn [hd_typ tl] in *.
    destruct (infix_of (ttyp c)) as [[lv k]|] eqn:Ei; [|discriminate H].
    destruct (pexpr f lv ts) as [[rhs r1]|] eqn:E1; [|discriminate H].
    destruct (HE _ _ _ _ E1) as (s0 & -> & L0). destruct (HL _ _ _ _ _ H) as (s1 & -> & L1).
    exists (c :: s0 ++ s1). split; [cbn [app]; rewrite app_assoc; reflexivity|].
    intros r2 H2. cbn [app]. rewrite ploop_step. cbn [hd_typ tl].
    rewrite Ec, Ei, <- app_assoc, (L0 (s1 ++ r2)) by (apply look_app, H2). apply L1, H2.
  - injection H as <- <-. exists []. split; [reflexivity|]. intros r2 H2. cbn [app].
    rewrite ploop_step, (look_takes _ _ _ H2 Ec). reflexivity.
Qed.

(* A1.  What a parse returns depends on the tokens it consumed (seg) and on the kind of the
   follower only; any follower that is neither an infix operator nor '=' will do. *)
Theorem expr_local : forall f, ExprL f /\ LoopL f.
Proof.
  induction f as [|f [HE HL]].
  - split; [intros q ts e r H|intros q l ts e r H]; discriminate H.
  - split; [apply expr_local_step|apply loop_local_step]; assumption.
Qed.

Corollary pexpr_local : forall f q ts e r, pexpr f q ts = Some (e, r) ->
  exists seg, ts = seg ++ r /\ forall r2, look r r2 -> pexpr f q (seg ++ r2) = Some (e, r2).
Proof. intros f. exact (proj1 (expr_local f)). Qed.
Print Assumptions pexpr_local.

(* where a parse stops: the loop at its level does not take the follower, and if assignments are
   allowed the follower is not '=' *)
Lemma ploop_stops : forall f q l ts e r, ploop f q l ts = Some (e, r) -> takes q (hd_typ r) = false.
Proof.
  induction f as [|f IH]; intros q l ts e r H; [discriminate H|]. rewrite ploop_step in H.
  destruct (takes q (hd_typ ts)) eqn:Ec.
  - destruct (infix_of (hd_typ ts)) as [[lv k]|]; [|discriminate H].
    destruct (pexpr f lv (tl ts)) as [[rhs r1]|]; [|discriminate H]. exact (IH _ _ _ _ _ H).
  - injection H as _ <-. exact Ec.
Qed.

Lemma pexpr_stops : forall f q ts e r, pexpr f q ts = Some (e, r) ->
  takes q (hd_typ r) = false /\ (q <=? lvl_assign)%nat && tok_eqb (hd_typ r) tEQ = false.
Proof.
  intros [|f] q ts e r H; [discriminate H|]. rewrite LayoutTree.pexpr_S in H. unfold ptail in H.
  destruct (ppre f q ts) as [[e0 r0]|]; [|discriminate H].
  destruct (ploop f q e0 r0) as [[e1 r1]|] eqn:El; [|discriminate H].
  destruct ((q <=? lvl_assign)%nat && tok_eqb (hd_typ r1) tEQ) eqn:Ec; [discriminate H|]. injection H as _ <-.
  split; [exact (ploop_stops _ _ _ _ _ _ El)|exact Ec].
Qed.

Lemma ptail_stop : forall f q e r,
  takes q (hd_typ r) = false -> (q <=? lvl_assign)%nat && tok_eqb (hd_typ r) tEQ = false ->
  ptail (S f) q (Some (e, r)) = Some (e, r).
Proof. intros f q e r H1 H2. unfold ptail. rewrite ploop_step, H1, H2. reflexivity. Qed.

(* ------------------------------------------------------------------ *)
(* 2. a parse that ends at a hard stop is the same at every lower level *)
(* ------------------------------------------------------------------ *)

Lemma takes_lower : forall q q' t, (q' <= Nat.max q 1)%nat -> takes q t = true -> takes q' t = true.
Proof. unfold takes. intros. lia. Qed.

Lemma ploop_lower : forall f q q' l ts e r, (q' <= Nat.max q 1)%nat ->
  ploop f q l ts = Some (e, r) -> infix_lvl (hd_typ r) = 0%nat -> ploop f q' l ts = Some (e, r).
Proof.
  induction f as [|f IH]; intros q q' l ts e r Hq H Hr; [discriminate H|]. rewrite ploop_step in *.
  destruct (takes q (hd_typ ts)) eqn:Ec.
  - rewrite (takes_lower _ _ _ Hq Ec).
    destruct (infix_of (hd_typ ts)) as [[lv k]|]; [|discriminate H].
    destruct (pexpr f lv (tl ts)) as [[rhs r1]|]; [|discriminate H]. exact (IH _ _ _ _ _ _ Hq H Hr).
  - injection H as <- <-. unfold takes. rewrite Hr. reflexivity.
Qed.

Lemma ppre_lower : forall f q q' ts e0 r0, (q' <= Nat.max q 1)%nat ->
  ppre f q ts = Some (e0, r0) -> hd_typ r0 <> tEQ -> ppre f q' ts = Some (e0, r0).
Proof.
  intros f q q' ts e0 r0 Hq. unfold ppre. destruct ts as [|t r]; [discriminate|].
  destruct (ttyp t); try (intros H _; exact H).
  destruct (tok_eqb (hd_typ r) tEQ) eqn:Eq; [|rewrite !andb_false_r; intros H _; exact H].
  destruct (q <=? lvl_assign)%nat eqn:E1, (q' <=? lvl_assign)%nat eqn:E2; cbn [andb];
    try (intros H _; exact H).
  - unfold lvl_assign in *. lia.
  - intros H Hne. injection H as _ <-. apply tok_eqb_eq in Eq. contradiction.
Qed.

Theorem pexpr_lower : forall f q q' ts e r, (q' <= Nat.max q 1)%nat ->
  pexpr f q ts = Some (e, r) -> hard (hd_typ r) -> pexpr f q' ts = Some (e, r).
Proof.
  intros [|f] q q' ts e r Hq H Hh; [discriminate H|]. rewrite LayoutTree.pexpr_S in *.
  destruct (ppre f q ts) as [[e0 r0]|] eqn:Ep; [|discriminate H]. unfold ptail in H.
  destruct (ploop f q e0 r0) as [[e1 r1]|] eqn:El; [|discriminate H].
  destruct ((q <=? lvl_assign)%nat && tok_eqb (hd_typ r1) tEQ); [discriminate H|]. injection H as <- <-.
  assert (Hne : hd_typ r0 <> tEQ).
  { intros E. destruct f as [|f]; [discriminate El|]. rewrite ploop_step in El. rewrite E in El.
    change (takes q tEQ) with false in El. injection El as _ <-. destruct Hh as [_ Hh]. exact (Hh E). }
  rewrite (ppre_lower _ _ _ _ _ _ Hq Ep Hne). unfold ptail.
  rewrite (ploop_lower _ _ _ _ _ _ _ Hq El (proj1 Hh)), (hard_not_eq _ Hh), andb_false_r. reflexivity.
Qed.
Print Assumptions pexpr_lower.

(* ------------------------------------------------------------------ *)
(* 3. parentheses around a node of the parse                           *)
(* ------------------------------------------------------------------ *)

Lemma ppre_paren : forall f q lp seg rp r e, ttyp lp = tLPAREN -> ttyp rp = tRPAREN ->
  pexpr f lvl_assign (seg ++ rp :: r) = Some (e, rp :: r) ->
  ppre f q (lp :: seg ++ rp :: r) = Some (e, r).
Proof. intros f q lp seg rp r e Hl Hr H. unfold ppre. rewrite Hl, H, Hr. reflexivity. Qed.

(* A2.  A segment that parses completely inside one pair of parentheses is, in parentheses, an
   operand with the same tree at every level q: the parse goes on with the infix loop on what
   follows, exactly as after a single-token operand. *)
Theorem paren_primary : forall f g q lp seg rp r e, ttyp lp = tLPAREN -> ttyp rp = tRPAREN ->
  pexpr f lvl_assign (seg ++ rp :: r) = Some (e, rp :: r) -> (f <= g)%nat ->
  pexpr (S g) q (lp :: seg ++ rp :: r) = ptail g q (Some (e, r)).
Proof.
  intros f g q lp seg rp r e Hl Hr H Hg. rewrite LayoutTree.pexpr_S.
  rewrite (ppre_paren g q lp seg rp r e Hl Hr (pexpr_fuel_mono _ _ _ _ _ Hg H)). reflexivity.
Qed.

(* A3, general form.  If the grammar, called at level q on ts, returns the tree e and the rest r,
   then ts = seg ++ r, seg alone is a complete expression with tree e, and the same call on
   "( seg ) r" returns the same tree and the same rest. *)
Theorem paren_subexpr : forall f q ts e r lp rp, ttyp lp = tLPAREN -> ttyp rp = tRPAREN ->
  pexpr f q ts = Some (e, r) ->
  exists seg, ts = seg ++ r /\
    pexpr f lvl_assign (seg ++ rp :: r) = Some (e, rp :: r) /\
    forall g, (f < g)%nat -> pexpr g q (lp :: seg ++ rp :: r) = Some (e, r).
Proof.
  intros f q ts e r lp rp Hl Hr H.
  destruct (pexpr_local _ _ _ _ _ H) as (seg & -> & L). exists seg. split; [reflexivity|].
  pose proof (hard_rparen rp r Hr) as Hh.
  pose proof (L (rp :: r) (or_intror Hh)) as H1.
  apply (pexpr_lower _ _ lvl_assign) in H1; [|unfold lvl_assign; lia|exact Hh].
  split; [exact H1|]. intros g Hg. apply (pexpr_fuel_mono (S f)); [lia|].
  rewrite (paren_primary f f q lp seg rp r e Hl Hr H1 (le_n _)).
  destruct (pexpr_stops _ _ _ _ _ H) as [S1 S2]. destruct f as [|f]; [discriminate H|].
  apply ptail_stop; assumption.
Qed.
Print Assumptions paren_subexpr.

(* a complete expression: the whole segment, up to any hard stop, is one expression *)
Definition complete (seg : list token) (e : expr) : Prop :=
  exists f, forall r, hard (hd_typ r) -> pexpr f lvl_assign (seg ++ r) = Some (e, r).

Definition rparen0 : token := {| ttyp := tRPAREN; tval := []; terr := None; tpos := 0 |}.
Definition lparen0 : token := {| ttyp := tLPAREN; tval := []; terr := None; tpos := 0 |}.

(* A1, as asked: parsing up to one closing parenthesis is parsing up to any hard stop *)
Theorem complete_iff : forall seg e,
  complete seg e <->
  exists f rp r, ttyp rp = tRPAREN /\ pexpr f lvl_assign (seg ++ rp :: r) = Some (e, rp :: r).
Proof.
  intros seg e. split.
  - intros (f & H). exists f, rparen0, []. split; [reflexivity|]. apply H, hard_rparen. reflexivity.
  - intros (f & rp & r & Hr & H). exists f. intros r2 H2.
    destruct (pexpr_local _ _ _ _ _ H) as (seg' & E & L). apply app_inv_tail in E. subst seg'.
    apply L. right. exact H2.
Qed.

Lemma complete_rparen : forall seg e, complete seg e ->
  exists f, forall rp r, ttyp rp = tRPAREN -> pexpr f lvl_assign (seg ++ rp :: r) = Some (e, rp :: r).
Proof. intros seg e (f & H). exists f. intros rp r Hr. apply H, hard_rparen, Hr. Qed.

(* every call of the grammar consumes a complete expression *)
Theorem pexpr_complete : forall f q ts e r, pexpr f q ts = Some (e, r) ->
  exists seg, ts = seg ++ r /\ complete seg e.
Proof.
  intros f q ts e r H.
  destruct (paren_subexpr f q ts e r lparen0 rparen0) as (seg & E & H1 & _); [reflexivity..|exact H|].
  exists seg. split; [exact E|]. apply complete_iff. exists f, rparen0, r. split; [reflexivity|exact H1].
Qed.

(* parentheses keep an expression complete, with the same tree *)
Theorem complete_paren : forall lp rp seg e, ttyp lp = tLPAREN -> ttyp rp = tRPAREN ->
  complete seg e -> complete (lp :: seg ++ [rp]) e.
Proof.
  intros lp rp seg e Hl Hr (f & H). exists (S (S f)). intros r Hh.
  cbn [app]. rewrite <- app_assoc. cbn [app].
  rewrite (paren_primary f (S f) lvl_assign lp seg rp r e Hl Hr) by (try apply H; try apply hard_rparen; auto).
  apply ptail_stop; [apply hard_takes, Hh|rewrite (hard_not_eq _ Hh); apply andb_false_r].
Qed.

(* A3, operand form (the general form of LayoutTree.paren_atom_closure).  An operand -- what the
   prefix step of pexpr consumes: a literal, a name, an assignment, a parenthesised expression, a
   unary or `not` expression -- can be written in parentheses: whatever expression starts with it
   is the same expression then. *)
Theorem paren_operand : forall f q ts e0 r lp rp, ttyp lp = tLPAREN -> ttyp rp = tRPAREN ->
  ppre f q ts = Some (e0, r) ->
  exists seg, ts = seg ++ r /\ complete seg e0 /\
    (forall g, (f + 2 <= g)%nat -> ppre g q (lp :: seg ++ rp :: r) = Some (e0, r)) /\
    (forall f1 g x, (Nat.max f f1 + 3 <= g)%nat ->
       pexpr f1 q ts = Some x -> pexpr g q (lp :: seg ++ rp :: r) = Some x).
Proof.
  intros f q ts e0 r lp rp Hl Hr H.
  destruct (ppre_local f (proj1 (expr_local f)) _ _ _ _ H) as (seg & -> & L). exists seg.
  split; [reflexivity|].
  assert (HC : forall r2, hard (hd_typ r2) -> pexpr (S (S f)) lvl_assign (seg ++ r2) = Some (e0, r2)).
  { intros r2 Hh. pose proof (L r2 (or_intror Hh)) as H1.
    apply (ppre_lower _ _ lvl_assign) in H1;
      [|unfold lvl_assign; lia|intros E; destruct Hh as [_ Hh]; exact (Hh E)].
    rewrite LayoutTree.pexpr_S.
    rewrite (ppre_mono f (S f) (fun q ts x => pexpr_fuel_mono f (S f) q ts x (le_S _ _ (le_n _))) _ _ _ H1).
    apply ptail_stop; [apply hard_takes, Hh|rewrite (hard_not_eq _ Hh); apply andb_false_r]. }
  assert (HP : forall g, (f + 2 <= g)%nat -> ppre g q (lp :: seg ++ rp :: r) = Some (e0, r)).
  { intros g Hg. apply ppre_paren; [exact Hl|exact Hr|].
    apply (pexpr_fuel_mono (S (S f))); [lia|]. apply HC, hard_rparen, Hr. }
  split; [exists (S (S f)); exact HC|]. split; [exact HP|].
  intros f1 g x Hg Hx. set (m := Nat.max f f1) in *.
  apply (pexpr_fuel_mono (S (S (S m)))); [lia|].
  apply (pexpr_fuel_mono f1 (S m)) in Hx; [|lia].
  rewrite LayoutTree.pexpr_S in *. rewrite HP by lia.
  rewrite (ppre_mono f m (fun q ts x => pexpr_fuel_mono f m q ts x (Nat.le_max_l _ _)) _ _ _ H) in Hx.
  exact (ptail_mono m (S (S m)) (fun q l ts x => ploop_fuel_mono m (S (S m)) q l ts x ltac:(lia)) _ _ _ Hx).
Qed.
Print Assumptions paren_operand.

(* the same as equations between the two parses (same fuel on both sides, failure included) *)
Corollary paren_operand_eq : forall f g q seg r e0 lp rp, ttyp lp = tLPAREN -> ttyp rp = tRPAREN ->
  ppre f q (seg ++ r) = Some (e0, r) -> (f + 2 <= g)%nat ->
  pexpr (S g) q (lp :: seg ++ rp :: r) = pexpr (S g) q (seg ++ r).
Proof.
  intros f g q seg r e0 lp rp Hl Hr H Hg.
  destruct (paren_operand f q (seg ++ r) e0 r lp rp Hl Hr H) as (seg' & E & _ & HP & _).
  apply app_inv_tail in E. subst seg'. rewrite !LayoutTree.pexpr_S, (HP g Hg).
  rewrite (ppre_mono f g (fun q ts x => pexpr_fuel_mono f g q ts x ltac:(lia)) _ _ _ H). reflexivity.
Qed.

Corollary paren_subexpr_eq : forall f g q seg r e lp rp, ttyp lp = tLPAREN -> ttyp rp = tRPAREN ->
  pexpr f q (seg ++ r) = Some (e, r) -> (f < g)%nat ->
  pexpr g q (lp :: seg ++ rp :: r) = pexpr g q (seg ++ r).
Proof.
  intros f g q seg r e lp rp Hl Hr H Hg.
  destruct (paren_subexpr f q (seg ++ r) e r lp rp Hl Hr H) as (seg' & E & _ & P).
  apply app_inv_tail in E. subst seg'. rewrite (P g Hg). symmetry. apply (pexpr_fuel_mono f); [lia|exact H].
Qed.

(* A3 (i).  Doubling: "(( S ))" is "( S )", at every level, in every context that follows. *)
Theorem paren_double : forall f g q lp lp' seg rp' rp r e,
  ttyp lp = tLPAREN -> ttyp lp' = tLPAREN -> ttyp rp' = tRPAREN -> ttyp rp = tRPAREN ->
  pexpr f lvl_assign (seg ++ rp :: r) = Some (e, rp :: r) -> (f + 2 <= g)%nat ->
  pexpr (S g) q (lp :: (lp' :: seg ++ [rp']) ++ rp :: r) = pexpr (S g) q (lp :: seg ++ rp :: r).
Proof.
  intros f g q lp lp' seg rp' rp r e Hl Hl' Hr' Hr H Hg.
  assert (C : forall r2, hard (hd_typ r2) -> pexpr f lvl_assign (seg ++ r2) = Some (e, r2)).
  { intros r2 H2. destruct (pexpr_local _ _ _ _ _ H) as (seg' & E & L). apply app_inv_tail in E. subst seg'.
    apply L. right. exact H2. }
  rewrite (paren_primary f g q lp seg rp r e Hl Hr H) by lia.
  apply (paren_primary (S (S f)) g q lp (lp' :: seg ++ [rp']) rp r e Hl Hr); [|lia].
  cbn [app]. rewrite <- app_assoc. cbn [app].
  rewrite (paren_primary f (S f) lvl_assign lp' seg rp' (rp :: r) e Hl' Hr')
    by (try apply C; try apply hard_rparen; auto).
  pose proof (hard_rparen rp r Hr) as Hh.
  apply ptail_stop; [apply hard_takes, Hh|rewrite (hard_not_eq _ Hh); apply andb_false_r].
Qed.
Print Assumptions paren_double.

(* ------------------------------------------------------------------ *)
(* 4. A3 (ii): parentheses around the whole expression of a statement  *)
(* ------------------------------------------------------------------ *)

(* print E / eval E *)
Theorem paren_stmt_kw : forall f b t ts s r lp rp, ttyp lp = tLPAREN -> ttyp rp = tRPAREN ->
  ttyp t = tPRINT \/ ttyp t = tEVAL ->
  pstmt f b (t :: ts) = Some (s, r) ->
  exists seg, ts = seg ++ r /\ forall g, (f < g)%nat -> pstmt g b (t :: lp :: seg ++ rp :: r) = Some (s, r).
Proof.
  intros [|f] b t ts s r lp rp Hl Hr Ht H; [discriminate H|]. rewrite pstmt_S in H.
  destruct (pexpr f lvl_assign ts) as [[e r1]|] eqn:E; [|destruct Ht as [Et|Et]; rewrite Et in H; discriminate H].
  destruct (paren_subexpr _ _ _ _ _ lp rp Hl Hr E) as (seg & -> & _ & P).
  assert (r1 = r) by (destruct Ht as [Et|Et]; rewrite Et in H; injection H as _ <-; reflexivity). subst r1.
  exists seg. split; [reflexivity|]. intros [|g] Hg; [lia|]. rewrite pstmt_S.
  destruct Ht as [Et|Et]; rewrite Et in *; rewrite (P g) by lia; injection H as <-; reflexivity.
Qed.

(* var x = E *)
Theorem paren_stmt_var : forall f b t x c ts s r lp rp, ttyp lp = tLPAREN -> ttyp rp = tRPAREN ->
  ttyp t = tVAR -> ttyp c = tEQ ->
  pstmt f b (t :: x :: c :: ts) = Some (s, r) ->
  exists seg, ts = seg ++ r /\
    forall g, (f < g)%nat -> pstmt g b (t :: x :: c :: lp :: seg ++ rp :: r) = Some (s, r).
Proof.
  intros [|f] b t x c ts s r lp rp Hl Hr Ht Hc H; [discriminate H|]. rewrite pstmt_S, Ht in H.
  unfold pvar in H. cbn [hd_typ tl] in H. rewrite Hc in H.
  destruct (tok_eqb (ttyp x) tIDENT) eqn:Ex; [|discriminate H].
  change (tok_eqb tEQ tEQ) with true in H. cbv iota in H.
  destruct (pexpr f lvl_assign ts) as [[e r1]|] eqn:E; [|discriminate H]. injection H as <- <-.
  destruct (paren_subexpr _ _ _ _ _ lp rp Hl Hr E) as (seg & -> & _ & P).
  exists seg. split; [reflexivity|]. intros [|g] Hg; [lia|]. rewrite pstmt_S, Ht.
  unfold pvar. cbn [hd_typ tl]. rewrite Hc, Ex. change (tok_eqb tEQ tEQ) with true. cbv iota.
  rewrite (P g) by lia. reflexivity.
Qed.

(* an expression statement (inside a block) *)
Theorem paren_stmt_expr : forall f b ts e r lp rp, ttyp lp = tLPAREN -> ttyp rp = tRPAREN ->
  pstmt f b ts = Some (SExpr e, r) ->
  exists seg, ts = seg ++ r /\ forall g, (f < g)%nat -> pstmt g b (lp :: seg ++ rp :: r) = Some (SExpr e, r).
Proof.
  intros [|f] b ts e r lp rp Hl Hr H; [discriminate H|]. rewrite pstmt_S in H.
  destruct ts as [|t ts]; [discriminate H|].
  assert (Hx : (if b then match pexpr f lvl_assign (t :: ts) with
                          | Some (e, r1) => Some (SExpr e, r1) | None => None end else None) = Some (SExpr e, r)).
  { destruct (ttyp t); try exact H.
    - unfold pvar in H. gdestr H; discriminate H.
    - unfold pdef in H. destruct ts as [|ty r1]; [discriminate H|]. destruct (negb _); [discriminate H|].
      destruct (pdef_name r1) as [[nm|] [|l r3]]; try discriminate H.
      destruct (tok_eqb _ _); [|discriminate H]. destruct (pitems f r3) as [[bd r4]|]; [|discriminate H].
      unfold pdef_close in H. gdestr H; discriminate H.
    - gdestr H; discriminate H.
    - gdestr H; discriminate H.
    - rewrite pbind_eq in H. gdestr H. unfold ptgt in H. cbv zeta in H. gdestr H; discriminate H. }
  destruct b; [|discriminate Hx].
  destruct (pexpr f lvl_assign (t :: ts)) as [[e1 r1]|] eqn:E; [|discriminate Hx]. injection Hx as <- <-.
  destruct (paren_subexpr _ _ _ _ _ lp rp Hl Hr E) as (seg & -> & _ & P).
  exists seg. split; [reflexivity|]. intros [|g] Hg; [lia|]. rewrite pstmt_S, Hl, (P g) by lia. reflexivity.
Qed.

Lemma takes_le1 : forall q t, (q <= lvl_assign)%nat -> takes q t = takes lvl_assign t.
Proof.
  intros q t Hq. unfold takes, lvl_assign in *.
  destruct ((0 <? infix_lvl t)%nat && (q <=? infix_lvl t)%nat) eqn:E1,
           ((0 <? infix_lvl t)%nat && (1 <=? infix_lvl t)%nat) eqn:E2; try reflexivity; lia.
Qed.

(* the assignment x = E, where assignments are allowed (statement level, after '(', after '=') *)
Theorem paren_assign_rhs : forall f q x c ts e r lp rp, ttyp lp = tLPAREN -> ttyp rp = tRPAREN ->
  ttyp x = tIDENT -> ttyp c = tEQ -> (q <= lvl_assign)%nat ->
  pexpr f q (x :: c :: ts) = Some (e, r) ->
  exists seg, ts = seg ++ r /\ forall g, (f < g)%nat -> pexpr g q (x :: c :: lp :: seg ++ rp :: r) = Some (e, r).
Proof.
  intros [|f] q x c ts e r lp rp Hl Hr Hx Hc Hq H; [discriminate H|].
  assert (Hcond : forall r0, (q <=? lvl_assign)%nat && tok_eqb (hd_typ (c :: r0)) tEQ = true).
  { intros r0. cbn [hd_typ]. rewrite Hc. unfold lvl_assign in *.
    change (tok_eqb tEQ tEQ) with true. lia. }
  rewrite LayoutTree.pexpr_S in H. unfold ppre in H. rewrite Hx, Hcond in H. cbn [tl] in H.
  destruct (pexpr f lvl_assign ts) as [[e1 r1]|] eqn:E; [|discriminate H].
  destruct (pexpr_stops _ _ _ _ _ E) as [S1 S2].
  destruct f as [|f]; [discriminate E|]. unfold ptail in H. rewrite ploop_step in H.
  rewrite (takes_le1 _ _ Hq), S1 in H.
  destruct ((q <=? lvl_assign)%nat && tok_eqb (hd_typ r1) tEQ) eqn:Ec; [discriminate H|]. injection H as <- <-.
  destruct (paren_subexpr _ _ _ _ _ lp rp Hl Hr E) as (seg & -> & _ & P).
  exists seg. split; [reflexivity|]. intros g Hg. apply (pexpr_fuel_mono (S (S (S f)))); [lia|].
  rewrite LayoutTree.pexpr_S. unfold ppre. rewrite Hx, Hcond. cbn [tl]. rewrite (P (S (S f))) by lia.
  unfold ptail. rewrite ploop_step, (takes_le1 _ _ Hq), S1, Ec. reflexivity.
Qed.
Print Assumptions paren_stmt_kw.
Print Assumptions paren_stmt_var.
Print Assumptions paren_stmt_expr.
Print Assumptions paren_assign_rhs.

(* ------------------------------------------------------------------ *)
(* 5. the parenthesised node anywhere in a program                     *)
(* ------------------------------------------------------------------ *)

(* 5a. more fuel never changes the result of a statement parse *)
Ltac mono_expr H f :=
  match type of H with
  | context [pexpr f ?q ?ts] =>
      let E := fresh "E" in
      destruct (pexpr f q ts) as [[? ?]|] eqn:E; [|discriminate H];
      rewrite (pexpr_fuel_mono f (S f) _ _ _ (le_S _ _ (le_n _)) E); exact H
  end.

Lemma stmt_mono_S : forall f,
  (forall b ts x, pstmt f b ts = Some x -> pstmt (S f) b ts = Some x) /\
  (forall ts x, pitems f ts = Some x -> pitems (S f) ts = Some x).
Proof.
  induction f as [|f [IHs IHi]]; [split; intros; discriminate|]. split.
  - intros b ts x H. rewrite pstmt_S in H |- *. destruct ts as [|t ts]; [discriminate H|].
    destruct (ttyp t); try (destruct b; [|discriminate H]; mono_expr H f); try mono_expr H f; try exact H.
    + unfold pvar in H |- *. destruct ts as [|y r1]; [discriminate H|].
      destruct (tok_eqb (ttyp y) tIDENT); [|discriminate H].
      destruct (tok_eqb (hd_typ r1) tEQ); [mono_expr H f|exact H].
    + unfold pdef in H |- *. destruct ts as [|ty r1]; [discriminate H|].
      destruct (negb _); [discriminate H|]. destruct (pdef_name r1) as [[nm|] [|l r3]]; try discriminate H.
      destruct (tok_eqb (ttyp l) tLCURLY); [|discriminate H].
      destruct (pitems f r3) as [[bd r4]|] eqn:E; [|discriminate H]. rewrite (IHi _ _ E). exact H.
  - intros ts x H. rewrite pitems_S in H |- *.
    assert (X : match pstmt f true ts with
                | Some (s, r) => match pitems f (skip_semi r) with
                                 | Some (ss, r') => Some (s :: ss, r') | None => None end
                | None => None end = Some x ->
                match pstmt (S f) true ts with
                | Some (s, r) => match pitems (S f) (skip_semi r) with
                                 | Some (ss, r') => Some (s :: ss, r') | None => None end
                | None => None end = Some x).
    { intros H'. destruct (pstmt f true ts) as [[s r]|] eqn:E1; [|discriminate H'].
      destruct (pitems f (skip_semi r)) as [[ss r']|] eqn:E2; [|discriminate H'].
      rewrite (IHs _ _ _ E1), (IHi _ _ E2). exact H'. }
    destruct (hd_typ ts); try (apply X, H); exact H.
Qed.

Lemma pstmt_fuel_mono : forall f g b ts x, (f <= g)%nat -> pstmt f b ts = Some x -> pstmt g b ts = Some x.
Proof.
  intros f g b ts x Hle H. induction Hle as [|g _ IH]; [exact H|]. apply (proj1 (stmt_mono_S g)), IH.
Qed.

Lemma pitems_fuel_mono : forall f g ts x, (f <= g)%nat -> pitems f ts = Some x -> pitems g ts = Some x.
Proof.
  intros f g ts x Hle H. induction Hle as [|g _ IH]; [exact H|]. apply (proj2 (stmt_mono_S g)), IH.
Qed.

Lemma ptop_mono_S : forall f ts p, ptop f ts = Some p -> ptop (S f) ts = Some p.
Proof.
  induction f as [|f IH]; intros ts p H; [discriminate H|]. rewrite ptop_S in H |- *.
  destruct ts as [|a [|b r]]; try exact H.
  destruct (pstmt f false (a :: b :: r)) as [[s r1]|] eqn:E; [|discriminate H].
  rewrite (proj1 (stmt_mono_S f) _ _ _ E).
  destruct (ptop f (skip_semi r1)) as [ss|] eqn:E2; [|discriminate H]. rewrite (IH _ _ E2). exact H.
Qed.

Theorem ptop_fuel_mono : forall f g ts p, (f <= g)%nat -> ptop f ts = Some p -> ptop g ts = Some p.
Proof.
  intros f g ts p Hle H. induction Hle as [|g _ IH]; [exact H|]. apply ptop_mono_S, IH.
Qed.

(* 5b. locality of statements.  At statement level the follower that matters is the '(' that is
   going to be inserted: it is neither '=' nor ';' nor an infix operator. *)
Definition lookp (r r2 : list token) : Prop := hd_typ r2 = hd_typ r \/ hd_typ r2 = tLPAREN.

Lemma lookp_look : forall r r2, lookp r r2 -> look r r2.
Proof. intros r r2 [E|E]; [left; exact E|right; rewrite E; split; [reflexivity|discriminate]]. Qed.

Lemma lookp_app : forall s r r2, lookp r r2 -> lookp (s ++ r) (s ++ r2).
Proof. intros [|a s] r r2 H; [exact H|left; reflexivity]. Qed.

Lemma lookp_not_eq : forall r r2, lookp r r2 -> tok_eqb (hd_typ r) tEQ = false -> tok_eqb (hd_typ r2) tEQ = false.
Proof. intros r r2 [E|E] H; rewrite E; [exact H|reflexivity]. Qed.

Lemma nonempty_of_shorter : forall (seg r ts : list token), ts = seg ++ r -> (length r < length ts)%nat -> seg <> [].
Proof. intros seg r ts -> H E. subst seg. cbn [app] in H. lia. Qed.

Lemma pexpr_local_ne : forall f q ts e r, pexpr f q ts = Some (e, r) ->
  exists seg, ts = seg ++ r /\ seg <> [] /\ forall r2, look r r2 -> pexpr f q (seg ++ r2) = Some (e, r2).
Proof.
  intros f q ts e r H. destruct (pexpr_local _ _ _ _ _ H) as (seg & E & L). exists seg.
  split; [exact E|]. split; [|exact L]. destruct (pexpr_ssuf _ _ _ _ _ H) as [_ Hl].
  exact (nonempty_of_shorter _ _ _ E Hl).
Qed.

Lemma ptgt_local : forall ty sl r1 st r, ptgt ty sl r1 = Some (st, r) ->
  exists a tg, r1 = a :: tg :: r /\ forall r2, ptgt ty sl (a :: tg :: r2) = Some (st, r2).
Proof.
  intros ty sl r1 st r H. destruct r1 as [|a [|tg r2]]; try discriminate H. exists a, tg.
  unfold ptgt in *. cbv zeta in *. gdestr H; injection H as <- <-; split; reflexivity.
Qed.

Lemma pbind_local : forall ts st r, pbind ts = Some (st, r) ->
  exists seg, ts = seg ++ r /\ seg <> [] /\ forall r2, pbind (seg ++ r2) = Some (st, r2).
Proof.
  intros ts st r H. rewrite pbind_eq in H. destruct ts as [|ty r0]; [discriminate H|].
  destruct (negb (tok_eqb (ttyp ty) tIDENT)) eqn:En; [discriminate H|].
  destruct r0 as [|c [|s r']]; try discriminate H.
  unfold psel in H. destruct (tok_eqb (ttyp c) tCOLON) eqn:Ec.
  - assert (Y : exists v : option bsel,
               (if tok_eqb (ttyp s) tINT then (if bytes_eqb (tval s) [49] then Some BSone else None, r')
                else if tok_eqb (ttyp s) tIDENT then
                  ((if is_lit (tval s) "first" then Some BSfirst else if is_lit (tval s) "last" then Some BSlast
                    else if is_lit (tval s) "all" then Some BSall else None), r')
                else (None, r')) = (v, r') /\
               forall r2 : list token,
               (if tok_eqb (ttyp s) tINT then (if bytes_eqb (tval s) [49] then Some BSone else None, r2)
                else if tok_eqb (ttyp s) tIDENT then
                  ((if is_lit (tval s) "first" then Some BSfirst else if is_lit (tval s) "last" then Some BSlast
                    else if is_lit (tval s) "all" then Some BSall else None), r2)
                else (None, r2)) = (v, r2)).
    { destruct (tok_eqb (ttyp s) tINT); [eexists; split; [reflexivity|intros; reflexivity]|].
      destruct (tok_eqb (ttyp s) tIDENT); eexists; split; try reflexivity; intros; reflexivity. }
    destruct Y as (v & Y1 & Y2). rewrite Y1 in H. cbn [fst snd] in H.
    destruct v as [sl|]; [|discriminate H].
    destruct (ptgt_local _ _ _ _ _ H) as (a & tg & -> & L).
    exists [ty; c; s; a; tg]. split; [reflexivity|]. split; [discriminate|].
    intros r2. rewrite pbind_eq. cbn [app]. rewrite En. unfold psel. rewrite Ec, Y2. cbn [fst snd]. apply L.
  - cbn [fst snd] in H. destruct (ptgt_local _ _ _ _ _ H) as (a & tg & E & L). injection E as <- <- <-.
    exists [ty; c; s]. split; [reflexivity|]. split; [discriminate|].
    intros r2. rewrite pbind_eq. cbn [app]. rewrite En. unfold psel. rewrite Ec. cbn [fst snd]. apply L.
Qed.

Lemma pvar_local : forall f r st r2, pvar f r = Some (st, r2) ->
  exists seg, r = seg ++ r2 /\ seg <> [] /\ forall r3, lookp r2 r3 -> pvar f (seg ++ r3) = Some (st, r3).
Proof.
  intros f r st r2 H. unfold pvar in H. destruct r as [|x r1]; [discriminate H|].
  destruct (tok_eqb (ttyp x) tIDENT) eqn:Ex; [|discriminate H].
  destruct (tok_eqb (hd_typ r1) tEQ) eqn:Eq.
  - destruct r1 as [|c r1]; [discriminate Eq|]. cbn [hd_typ tl] in *.
    destruct (pexpr f lvl_assign r1) as [[e r3]|] eqn:E; [|discriminate H]. injection H as <- <-.
    destruct (pexpr_local _ _ _ _ _ E) as (seg & -> & L).
    exists (x :: c :: seg). split; [reflexivity|]. split; [discriminate|].
    intros r4 H4. cbn [app]. unfold pvar. cbn [hd_typ tl]. rewrite Ex, Eq, (L r4 (lookp_look _ _ H4)). reflexivity.
  - injection H as <- <-. exists [x]. split; [reflexivity|]. split; [discriminate|].
    intros r3 H3. cbn [app]. unfold pvar. rewrite Ex, (lookp_not_eq _ _ H3 Eq). reflexivity.
Qed.

Definition StmtL (f : nat) : Prop := forall b ts s r, pstmt f b ts = Some (s, r) ->
  exists seg, ts = seg ++ r /\ seg <> [] /\ forall r2, lookp r r2 -> pstmt f b (seg ++ r2) = Some (s, r2).
Definition ItemsL (f : nat) : Prop := forall ts ss r, pitems f ts = Some (ss, r) ->
  exists seg, ts = seg ++ r /\ forall r2, hd_typ r2 = hd_typ r -> pitems f (seg ++ r2) = Some (ss, r2).

Lemma pdef_local : forall f, ItemsL f -> forall r st r2, pdef f r = Some (st, r2) ->
  exists seg, r = seg ++ r2 /\ seg <> [] /\ forall r3, pdef f (seg ++ r3) = Some (st, r3).
Proof.
  intros f HI r st r2 H. unfold pdef in H. destruct r as [|ty r1]; [discriminate H|].
  destruct (negb (tok_eqb (ttyp ty) tIDENT)) eqn:En; [discriminate H|].
  assert (X : forall (hdr : list token) nm l r3,
            (forall r3', pdef_name (hdr ++ l :: r3') = (nm, l :: r3')) ->
            match nm, l :: r3 with
            | Some name, l :: r3 =>
              if tok_eqb (ttyp l) tLCURLY then
                match pitems f r3 with
                | Some (body, r4) => pdef_close (tval ty) name body r4
                | None => None
                end
              else None
            | _, _ => None
            end = Some (st, r2) ->
            exists seg, ty :: hdr ++ l :: r3 = seg ++ r2 /\ seg <> [] /\
              forall r3', pdef f (seg ++ r3') = Some (st, r3')).
  { intros hdr nm l r3 Hn H'. destruct nm as [name|]; [|discriminate H'].
    destruct (tok_eqb (ttyp l) tLCURLY) eqn:El; [|discriminate H'].
    destruct (pitems f r3) as [[body r4]|] eqn:Ei; [|discriminate H'].
    unfold pdef_close in H'. destruct r4 as [|c r5]; [discriminate H'|].
    destruct (tok_eqb (ttyp c) tRCURLY) eqn:Ec; [|discriminate H']. injection H' as <- <-.
    destruct (HI _ _ _ Ei) as (seg & -> & L).
    exists (ty :: hdr ++ l :: seg ++ [c]). split.
    { cbn [app]. rewrite <- !app_assoc. cbn [app]. rewrite <- app_assoc. reflexivity. }
    split; [discriminate|]. intros r3'. cbn [app]. rewrite <- !app_assoc. cbn [app]. rewrite <- app_assoc. cbn [app].
    unfold pdef. rewrite En, Hn, El, (L (c :: r3') eq_refl). unfold pdef_close. rewrite Ec. reflexivity. }
  destruct r1 as [|s r']; [discriminate H|]. unfold pdef_name in H.
  destruct (tok_eqb (ttyp s) tSTR) eqn:Es.
  - destruct r' as [|l r3]; [destruct (unquote (tval s)); discriminate H|].
    apply (X [s] (unquote (tval s)) l r3); [|exact H].
    intros r3'. cbn [app]. unfold pdef_name. rewrite Es. reflexivity.
  - apply (X [] (Some []) s r'); [|exact H].
    intros r3'. cbn [app]. unfold pdef_name. rewrite Es. reflexivity.
Qed.

Lemma skip_semi_split : forall r,
  (exists c, ttyp c = tSEMICOLON /\ r = c :: skip_semi r) \/ (skip_semi r = r /\ hd_typ r <> tSEMICOLON).
Proof.
  intros [|c r]; [right; split; [reflexivity|discriminate]|]. cbn [skip_semi hd_typ].
  destruct (tok_eqb (ttyp c) tSEMICOLON) eqn:E.
  - left. exists c. apply tok_eqb_eq in E. split; [exact E|reflexivity].
  - right. apply tok_eqb_neq in E. split; [reflexivity|exact E].
Qed.

Lemma skip_semi_id : forall r, hd_typ r <> tSEMICOLON -> skip_semi r = r.
Proof.
  intros [|c r] H; [reflexivity|]. cbn [skip_semi hd_typ] in *. apply tok_eqb_neq in H. rewrite H. reflexivity.
Qed.

Lemma stmt_local_step : forall f, ItemsL f -> StmtL (S f).
Proof.
  intros f HI b ts s r H. rewrite pstmt_S in H. destruct ts as [|t ts]; [discriminate H|].
  assert (G : (if b then match pexpr f lvl_assign (t :: ts) with
                         | Some (e, r1) => Some (SExpr e, r1) | None => None end else None) = Some (s, r) ->
              (forall b' ts', pstmt (S f) b' (t :: ts') =
                 if b' then match pexpr f lvl_assign (t :: ts') with
                            | Some (e, r1) => Some (SExpr e, r1) | None => None end else None) ->
              exists seg, t :: ts = seg ++ r /\ seg <> [] /\
                forall r2, lookp r r2 -> pstmt (S f) b (seg ++ r2) = Some (s, r2)).
  { intros H' Hs. destruct b; [|discriminate H'].
    destruct (pexpr f lvl_assign (t :: ts)) as [[e r1]|] eqn:E; [|discriminate H']. injection H' as <- <-.
    destruct (pexpr_local_ne _ _ _ _ _ E) as (seg & E1 & Hne & L). exists seg. split; [exact E1|].
    split; [exact Hne|]. intros r2 H2. destruct seg as [|t' seg]; [contradiction|].
    cbn [app] in E1. injection E1 as <- _. cbn [app]. rewrite Hs.
    change (t :: seg ++ r2) with ((t :: seg) ++ r2). rewrite (L r2 (lookp_look _ _ H2)). reflexivity. }
  destruct (ttyp t) eqn:Et;
    try (apply G; [exact H|intros b' ts'; rewrite pstmt_S, Et; reflexivity]); clear G.
  - (* var *)
    destruct (pvar_local _ _ _ _ H) as (seg & -> & _ & L). exists (t :: seg). split; [reflexivity|].
    split; [discriminate|]. intros r2 H2. cbn [app]. rewrite pstmt_S, Et. apply L, H2.
  - (* def *)
    destruct (pdef_local f HI _ _ _ H) as (seg & -> & _ & L). exists (t :: seg). split; [reflexivity|].
    split; [discriminate|]. intros r2 _. cbn [app]. rewrite pstmt_S, Et. apply L.
  - (* eval *)
    destruct (pexpr f lvl_assign ts) as [[e r1]|] eqn:E; [|discriminate H]. injection H as <- <-.
    destruct (pexpr_local _ _ _ _ _ E) as (seg & -> & L). exists (t :: seg). split; [reflexivity|].
    split; [discriminate|]. intros r2 H2. cbn [app]. rewrite pstmt_S, Et, (L r2 (lookp_look _ _ H2)). reflexivity.
  - (* print *)
    destruct (pexpr f lvl_assign ts) as [[e r1]|] eqn:E; [|discriminate H]. injection H as <- <-.
    destruct (pexpr_local _ _ _ _ _ E) as (seg & -> & L). exists (t :: seg). split; [reflexivity|].
    split; [discriminate|]. intros r2 H2. cbn [app]. rewrite pstmt_S, Et, (L r2 (lookp_look _ _ H2)). reflexivity.
  - (* bind *)
    destruct (pbind_local _ _ _ H) as (seg & -> & _ & L). exists (t :: seg). split; [reflexivity|].
    split; [discriminate|]. intros r2 _. cbn [app]. rewrite pstmt_S, Et. apply L.
Qed.

Definition blk_end (t : tok) : bool := match t with tRCURLY | tEOF | tFAIL => true | _ => false end.

Lemma pitems_step : forall f ts,
  pitems (S f) ts =
    if blk_end (hd_typ ts) then Some ([], ts)
    else match pstmt f true ts with
         | Some (s, r) => match pitems f (skip_semi r) with
                          | Some (ss, r') => Some (s :: ss, r') | None => None end
         | None => None
         end.
Proof. intros. rewrite pitems_S. destruct (hd_typ ts); reflexivity. Qed.

Lemma items_local_step : forall f, StmtL f -> ItemsL f -> ItemsL (S f).
Proof.
  intros f HS HI ts ss r H. rewrite pitems_step in H. destruct (blk_end (hd_typ ts)) eqn:Eb.
  - injection H as <- <-. exists []. split; [reflexivity|]. intros r2 H2. cbn [app].
    rewrite pitems_step, H2, Eb. reflexivity.
  - destruct (pstmt f true ts) as [[s r1]|] eqn:E1; [|discriminate H].
    destruct (pitems f (skip_semi r1)) as [[ss1 r']|] eqn:E2; [|discriminate H]. injection H as <- <-.
    destruct (HS _ _ _ _ E1) as (seg1 & -> & Hne & L1).
    destruct (HI _ _ _ E2) as (seg2 & E3 & L2).
    assert (Hhd : forall tl', hd_typ (seg1 ++ tl') = hd_typ (seg1 ++ r1)).
    { intros tl'. destruct seg1; [contradiction|reflexivity]. }
    destruct (skip_semi_split r1) as [(c & Hc & Er)|[Er Hn]].
    + rewrite E3 in Er. exists (seg1 ++ c :: seg2). split; [rewrite Er, <- app_assoc; reflexivity|].
      intros r2 H2. rewrite <- app_assoc. cbn [app]. rewrite pitems_step, Hhd, Eb.
      rewrite (L1 (c :: seg2 ++ r2)) by (left; rewrite Er; reflexivity).
      cbn [skip_semi]. rewrite Hc. change (tok_eqb tSEMICOLON tSEMICOLON) with true. cbv iota.
      rewrite (L2 r2 H2). reflexivity.
    + rewrite Er in E3. exists (seg1 ++ seg2). split; [rewrite E3, <- app_assoc; reflexivity|].
      intros r2 H2. rewrite <- app_assoc, pitems_step, Hhd, Eb.
      assert (Hh : hd_typ (seg2 ++ r2) = hd_typ r1).
      { rewrite E3. destruct seg2; [exact H2|reflexivity]. }
      rewrite (L1 (seg2 ++ r2)) by (left; exact Hh).
      rewrite skip_semi_id by (rewrite Hh; exact Hn). rewrite (L2 r2 H2). reflexivity.
Qed.

Theorem stmt_local : forall f, StmtL f /\ ItemsL f.
Proof.
  induction f as [|f [HS HI]].
  - split; [intros b ts s r H|intros ts ss r H]; discriminate H.
  - split; [apply stmt_local_step|apply items_local_step]; assumption.
Qed.
Print Assumptions stmt_local.

(* 5c. expression contexts.  [PE f q ts ts']: in the run pexpr f q ts there is a call of pexpr
   (a node of the parse), and ts' is ts with the segment consumed by that call in parentheses.
   The constructors follow the run from the outside in:
     here   the call is this one
     paren / asg / unary   it is inside the operand of '(' , of "x =", of a prefix operator
     tail   the prefix step consumed seg; the call is in the infix loop that follows
   and in the loop [PL]: in the right operand of the operator at the front (rhs), or after that
   operand (next). *)
Definition unary_of (t : tok) : option (nat * (expr -> expr)) :=
  match t with
  | tMINUS => Some (lvl_unary, ENeg) | tPLUS => Some (lvl_unary, EPos) | tNOT => Some (lvl_not, ENot)
  | _ => None
  end.

Inductive PE : nat -> nat -> list token -> list token -> Prop :=
| PE_here : forall f q seg r e lp rp, ttyp lp = tLPAREN -> ttyp rp = tRPAREN ->
    pexpr f q (seg ++ r) = Some (e, r) -> PE f q (seg ++ r) (lp :: seg ++ rp :: r)
| PE_paren : forall f q t r r', ttyp t = tLPAREN -> PE f lvl_assign r r' -> PE (S f) q (t :: r) (t :: r')
| PE_asg : forall f q t c r r', ttyp t = tIDENT -> ttyp c = tEQ -> (q <= lvl_assign)%nat ->
    PE f lvl_assign r r' -> PE (S f) q (t :: c :: r) (t :: c :: r')
| PE_unary : forall f q t lv k r r', unary_of (ttyp t) = Some (lv, k) ->
    PE f lv r r' -> PE (S f) q (t :: r) (t :: r')
| PE_tail : forall f q seg r0 r0' e0, ppre f q (seg ++ r0) = Some (e0, r0) ->
    PL f q e0 r0 r0' -> PE (S f) q (seg ++ r0) (seg ++ r0')
with PL : nat -> nat -> expr -> list token -> list token -> Prop :=
| PL_rhs : forall f q l c lv k r r', takes q (ttyp c) = true -> infix_of (ttyp c) = Some (lv, k) ->
    PE f lv r r' -> PL (S f) q l (c :: r) (c :: r')
| PL_next : forall f q l c lv k seg rhs r1 r1', takes q (ttyp c) = true -> infix_of (ttyp c) = Some (lv, k) ->
    pexpr f lv (seg ++ r1) = Some (rhs, r1) -> PL f q (k l rhs) r1 r1' ->
    PL (S f) q l (c :: seg ++ r1) (c :: seg ++ r1').

Scheme PE_mut := Minimality for PE Sort Prop
  with PL_mut := Minimality for PL Sort Prop.
Combined Scheme PE_PL_mut from PE_mut, PL_mut.

Lemma PL_hd : forall f q l ts ts', PL f q l ts ts' -> hd_typ ts' = hd_typ ts.
Proof. intros f q l ts ts' H. destruct H; reflexivity. Qed.

Lemma PE_lookp : forall f q ts ts', PE f q ts ts' -> lookp ts ts'.
Proof.
  intros f q ts ts' H. destruct H; try (left; reflexivity).
  - right. exact H.
  - apply lookp_app. left. exact (PL_hd _ _ _ _ _ H0).
Qed.

Lemma ppre_unary : forall f q t lv k r, unary_of (ttyp t) = Some (lv, k) ->
  ppre f q (t :: r) = match pexpr f lv r with Some (e, r') => Some (k e, r') | None => None end.
Proof.
  intros f q t lv k r. unfold ppre, unary_of. destruct (ttyp t); try discriminate;
    intros H; injection H as <- <-; reflexivity.
Qed.

Lemma ptail_S : forall f q p x, ptail f q p = Some x -> ptail (S f) q p = Some x.
Proof.
  intros f q p x. apply ptail_mono. intros q' l ts y. apply ploop_fuel_mono. lia.
Qed.

Lemma ppre_S : forall f q ts x, ppre f q ts = Some x -> ppre (S f) q ts = Some x.
Proof.
  intros f q ts x. apply ppre_mono. intros q' ts' y. apply pexpr_fuel_mono. lia.
Qed.

Lemma pexpr_local_seg : forall f q seg r e r2, pexpr f q (seg ++ r) = Some (e, r) -> look r r2 ->
  pexpr f q (seg ++ r2) = Some (e, r2).
Proof.
  intros f q seg r e r2 H H2. destruct (pexpr_local _ _ _ _ _ H) as (seg' & E & L).
  apply app_inv_tail in E. subst seg'. exact (L r2 H2).
Qed.

Lemma ppre_local_seg : forall f q seg r e r2, ppre f q (seg ++ r) = Some (e, r) -> look r r2 ->
  ppre f q (seg ++ r2) = Some (e, r2).
Proof.
  intros f q seg r e r2 H H2. destruct (ppre_local f (proj1 (expr_local f)) _ _ _ _ H) as (seg' & E & L).
  apply app_inv_tail in E. subst seg'. exact (L r2 H2).
Qed.

(* the parse of the parenthesised list gives the same tree and the same rest, with one more unit
   of fuel *)
Theorem PE_PL_sound :
  (forall f q ts ts', PE f q ts ts' -> forall x, pexpr f q ts = Some x -> pexpr (S f) q ts' = Some x) /\
  (forall f q l ts ts', PL f q l ts ts' -> forall x, ploop f q l ts = Some x -> ploop (S f) q l ts' = Some x).
Proof.
  apply PE_PL_mut.
  - intros f q seg r e lp rp Hl Hr H x Hx. rewrite H in Hx. injection Hx as <-.
    destruct (paren_subexpr _ _ _ _ _ lp rp Hl Hr H) as (seg' & E & _ & P).
    apply app_inv_tail in E. subst seg'. apply P. lia.
  - intros f q t r r' Ht _ IH x Hx. rewrite LayoutTree.pexpr_S in Hx |- *. unfold ppre in Hx |- *.
    rewrite Ht in Hx |- *. destruct (pexpr f lvl_assign r) as [[e1 r1]|] eqn:E; [|discriminate Hx].
    rewrite (IH _ eq_refl). apply ptail_S, Hx.
  - intros f q t c r r' Ht Hc Hq _ IH x Hx. rewrite LayoutTree.pexpr_S in Hx |- *. unfold ppre in Hx |- *.
    rewrite Ht in Hx |- *. cbn [hd_typ tl] in Hx |- *. rewrite Hc in Hx |- *.
    assert (Hcond : (q <=? lvl_assign)%nat && tok_eqb tEQ tEQ = true)
      by (unfold lvl_assign in *; change (tok_eqb tEQ tEQ) with true; lia).
    rewrite Hcond in Hx |- *. destruct (pexpr f lvl_assign r) as [[e1 r1]|] eqn:E; [|discriminate Hx].
    rewrite (IH _ eq_refl). apply ptail_S, Hx.
  - intros f q t lv k r r' Hu _ IH x Hx. rewrite LayoutTree.pexpr_S in Hx |- *.
    rewrite (ppre_unary _ _ _ _ _ _ Hu) in Hx. rewrite (ppre_unary _ _ _ _ _ _ Hu).
    destruct (pexpr f lv r) as [[e1 r1]|] eqn:E; [|discriminate Hx].
    rewrite (IH _ eq_refl). apply ptail_S, Hx.
  - intros f q seg r0 r0' e0 Hp HPL IH x Hx. rewrite LayoutTree.pexpr_S in Hx |- *. rewrite Hp in Hx.
    rewrite (ppre_S _ _ _ _ (ppre_local_seg _ _ _ _ _ r0' Hp (or_introl (PL_hd _ _ _ _ _ HPL)))).
    unfold ptail in Hx |- *. destruct (ploop f q e0 r0) as [[e1 r1]|] eqn:El; [|discriminate Hx].
    rewrite (IH _ eq_refl). exact Hx.
  - intros f q l c lv k r r' Hta Hi _ IH x Hx. rewrite ploop_step in Hx |- *. cbn [hd_typ tl] in Hx |- *.
    rewrite Hta, Hi in Hx |- *. destruct (pexpr f lv r) as [[rhs r1]|] eqn:E; [|discriminate Hx].
    rewrite (IH _ eq_refl). apply (ploop_fuel_mono f (S f)); [lia|exact Hx].
  - intros f q l c lv k seg rhs r1 r1' Hta Hi Hp HPL IH x Hx. rewrite ploop_step in Hx |- *.
    cbn [hd_typ tl] in Hx |- *. rewrite Hta, Hi in Hx |- *. rewrite Hp in Hx.
    rewrite (pexpr_fuel_mono f (S f) _ _ _ (le_S _ _ (le_n _))
               (pexpr_local_seg _ _ _ _ _ r1' Hp (or_introl (PL_hd _ _ _ _ _ HPL)))).
    apply IH, Hx.
Qed.

Corollary PE_sound : forall f q ts ts' x, PE f q ts ts' -> pexpr f q ts = Some x -> pexpr (S f) q ts' = Some x.
Proof. intros f q ts ts' x H. exact (proj1 PE_PL_sound f q ts ts' H x). Qed.
Print Assumptions PE_sound.

(* two tokens are added *)
Lemma PE_PL_length :
  (forall f q ts ts', PE f q ts ts' -> length ts' = S (S (length ts))) /\
  (forall f q l ts ts', PL f q l ts ts' -> length ts' = S (S (length ts))).
Proof.
  apply PE_PL_mut; intros; cbn [length]; rewrite ?app_length in *; cbn [length]; rewrite ?app_length; lia.
Qed.

(* an expression starts with a literal, a name, '(' or a prefix operator *)
Definition estart (t : tok) : bool :=
  match t with
  | tINT | tFLOAT | tSTR | tIDENT | tTRUE | tFALSE | tNIL | tLPAREN | tNOT | tPLUS | tMINUS => true
  | _ => false
  end.

Lemma ppre_start : forall f q ts x, ppre f q ts = Some x -> estart (hd_typ ts) = true.
Proof.
  intros f q [|t r] x H; [discriminate H|]. unfold ppre in H. cbn [hd_typ].
  destruct (ttyp t); try discriminate H; reflexivity.
Qed.

Lemma pexpr_start : forall f q ts x, pexpr f q ts = Some x -> estart (hd_typ ts) = true.
Proof.
  intros [|f] q ts x H; [discriminate H|]. rewrite LayoutTree.pexpr_S in H.
  destruct (ppre f q ts) eqn:E; [|discriminate H]. exact (ppre_start _ _ _ _ E).
Qed.

Lemma PE_start : forall f q ts ts', PE f q ts ts' -> estart (hd_typ ts) = true /\ estart (hd_typ ts') = true.
Proof.
  intros f q ts ts' H. assert (H1 : estart (hd_typ ts) = true).
  { destruct H; cbn [hd_typ]; try (rewrite H; reflexivity).
    - exact (pexpr_start _ _ _ _ H1).
    - unfold unary_of in H. destruct (ttyp t); try discriminate H; reflexivity.
    - exact (ppre_start _ _ _ _ H). }
  split; [exact H1|]. destruct (PE_lookp _ _ _ _ H) as [E|E]; rewrite E; [exact H1|reflexivity].
Qed.

(* 5d. statement contexts.  [PS]: the node is in the expression of print / eval / var / an
   expression statement, or in the body of a def; [PI], [PT]: in the first statement of a block
   body / of the program, or after a statement (and an optional ';'). *)
Inductive def_hdr : list token -> Prop :=
| dh_plain : forall t ty l, ttyp t = tDEF -> ttyp l = tLCURLY -> def_hdr [t; ty; l]
| dh_named : forall t ty s l, ttyp t = tDEF -> ttyp s = tSTR -> ttyp l = tLCURLY -> def_hdr [t; ty; s; l].

Definition sep_ok (sep r : list token) : Prop :=
  (exists c, sep = [c] /\ ttyp c = tSEMICOLON) \/ (sep = [] /\ hd_typ r <> tSEMICOLON).

Inductive PS : nat -> bool -> list token -> list token -> Prop :=
| PS_kw : forall f b t r r', ttyp t = tPRINT \/ ttyp t = tEVAL ->
    PE f lvl_assign r r' -> PS (S f) b (t :: r) (t :: r')
| PS_var : forall f b t x c r r', ttyp t = tVAR -> ttyp c = tEQ ->
    PE f lvl_assign r r' -> PS (S f) b (t :: x :: c :: r) (t :: x :: c :: r')
| PS_expr : forall f ts ts', PE f lvl_assign ts ts' -> PS (S f) true ts ts'
| PS_def : forall f b hdr r r', def_hdr hdr -> PI f r r' -> PS (S f) b (hdr ++ r) (hdr ++ r')
with PI : nat -> list token -> list token -> Prop :=
| PI_first : forall f ts ts', PS f true ts ts' -> PI (S f) ts ts'
| PI_next : forall f seg sep s r2 r2', pstmt f true (seg ++ sep ++ r2) = Some (s, sep ++ r2) ->
    sep_ok sep r2 -> PI f r2 r2' -> PI (S f) (seg ++ sep ++ r2) (seg ++ sep ++ r2').

Inductive PT : nat -> list token -> list token -> Prop :=
| PT_first : forall f ts ts', PS f false ts ts' -> PT (S f) ts ts'
| PT_next : forall f seg sep s r2 r2', pstmt f false (seg ++ sep ++ r2) = Some (s, sep ++ r2) ->
    sep_ok sep r2 -> PT f r2 r2' -> PT (S f) (seg ++ sep ++ r2) (seg ++ sep ++ r2').

Scheme PS_mut := Minimality for PS Sort Prop
  with PI_mut := Minimality for PI Sort Prop.
Combined Scheme PS_PI_mut from PS_mut, PI_mut.

Lemma sep_skip : forall sep r, sep_ok sep r -> skip_semi (sep ++ r) = r.
Proof.
  intros sep r [(c & -> & Hc)|[-> Hn]]; cbn [app].
  - cbn [skip_semi]. rewrite Hc. reflexivity.
  - apply skip_semi_id, Hn.
Qed.

Lemma sep_lookp : forall sep r r', sep_ok sep r -> lookp r r' -> sep_ok sep r'.
Proof.
  intros sep r r' [H|[-> Hn]] Hl; [left; exact H|]. right. split; [reflexivity|].
  destruct Hl as [E|E]; rewrite E; [exact Hn|discriminate].
Qed.

Lemma def_hdr_eq : forall hdr, def_hdr hdr ->
  exists K : option (list stmt * list token) -> option (stmt * list token),
    K None = None /\ forall f b r, pstmt (S f) b (hdr ++ r) = K (pitems f r).
Proof.
  intros hdr [t ty l Ht Hl|t ty s l Ht Hs Hl].
  - exists (fun p => if negb (tok_eqb (ttyp ty) tIDENT) then None else
                     match p with Some (body, r4) => pdef_close (tval ty) [] body r4 | None => None end).
    split; [destruct (negb _); reflexivity|]. intros f b r. rewrite pstmt_S. cbn [app]. rewrite Ht.
    unfold pdef, pdef_name. rewrite Hl. destruct (negb _); [reflexivity|].
    change (tok_eqb tLCURLY tSTR) with false. cbv beta iota. rewrite Hl. reflexivity.
  - exists (fun p => if negb (tok_eqb (ttyp ty) tIDENT) then None else
                     match unquote (tval s) with
                     | Some name => match p with Some (body, r4) => pdef_close (tval ty) name body r4 | None => None end
                     | None => None
                     end).
    split; [destruct (negb _); [|destruct (unquote _)]; reflexivity|]. intros f b r. rewrite pstmt_S. cbn [app]. rewrite Ht.
    unfold pdef, pdef_name. rewrite Hs. destruct (negb _); [reflexivity|].
    change (tok_eqb tSTR tSTR) with true. cbv beta iota. rewrite Hl.
    destruct (unquote (tval s)); reflexivity.
Qed.

Lemma hd_app_ne : forall (seg a b : list token), seg <> [] -> hd_typ (seg ++ a) = hd_typ (seg ++ b).
Proof. intros [|x seg] a b H; [contradiction|reflexivity]. Qed.

Lemma PS_PI_lookp :
  (forall f b ts ts', PS f b ts ts' -> lookp ts ts') /\ (forall f ts ts', PI f ts ts' -> lookp ts ts').
Proof.
  apply PS_PI_mut; intros; try (left; reflexivity).
  - exact (PE_lookp _ _ _ _ H).
  - apply lookp_app. exact H1.
  - exact H0.
  - apply lookp_app, lookp_app. exact H2.
Qed.

Lemma pstmt_head : forall f b ts x, pstmt f b ts = Some x -> blk_end (hd_typ ts) = false.
Proof.
  intros [|f] b [|t ts] x H; try discriminate H. rewrite pstmt_S in H. cbn [hd_typ].
  destruct (ttyp t) eqn:Et; try reflexivity;
    (destruct b; [|discriminate H];
     destruct (pexpr f lvl_assign (t :: ts)) as [y|] eqn:E; [|discriminate H];
     apply pexpr_start in E; cbn [hd_typ] in E; rewrite Et in E; discriminate E).
Qed.

Lemma pstmt_expr_eq : forall f b ts, estart (hd_typ ts) = true ->
  pstmt (S f) b ts = if b then match pexpr f lvl_assign ts with
                               | Some (e, r1) => Some (SExpr e, r1) | None => None end else None.
Proof.
  intros f b [|t ts] H; [discriminate H|]. rewrite pstmt_S. cbn [hd_typ] in H.
  destruct (ttyp t); try discriminate H; reflexivity.
Qed.

Lemma PS_head : forall f b ts ts', PS f b ts ts' -> blk_end (hd_typ ts) = false /\ blk_end (hd_typ ts') = false.
Proof.
  intros f b ts ts' H. destruct H.
  - cbn [hd_typ]. destruct H as [E|E]; rewrite E; split; reflexivity.
  - cbn [hd_typ]. rewrite H. split; reflexivity.
  - destruct (PE_start _ _ _ _ H) as [H1 H2].
    split; [destruct (hd_typ ts)|destruct (hd_typ ts')]; try reflexivity; discriminate.
  - destruct H; cbn [app hd_typ]; rewrite H; split; reflexivity.
Qed.

Theorem PS_PI_sound :
  (forall f b ts ts', PS f b ts ts' -> forall x, pstmt f b ts = Some x -> pstmt (S f) b ts' = Some x) /\
  (forall f ts ts', PI f ts ts' -> forall x, pitems f ts = Some x -> pitems (S f) ts' = Some x).
Proof.
  apply PS_PI_mut.
  - intros f b t r r' Ht HPE x Hx. rewrite pstmt_S in Hx |- *.
    destruct Ht as [Et|Et]; rewrite Et in Hx |- *;
      (destruct (pexpr f lvl_assign r) as [[e r1]|] eqn:E; [|discriminate Hx];
       rewrite (PE_sound _ _ _ _ _ HPE E); exact Hx).
  - intros f b t y c r r' Ht Hc HPE x Hx. rewrite pstmt_S in Hx |- *. rewrite Ht in Hx |- *.
    unfold pvar in Hx |- *. cbn [hd_typ tl] in Hx |- *. rewrite Hc in Hx |- *.
    destruct (tok_eqb (ttyp y) tIDENT); [|discriminate Hx].
    change (tok_eqb tEQ tEQ) with true in Hx |- *. cbv iota in Hx |- *.
    destruct (pexpr f lvl_assign r) as [[e r1]|] eqn:E; [|discriminate Hx].
    rewrite (PE_sound _ _ _ _ _ HPE E). exact Hx.
  - intros f ts ts' HPE x Hx. destruct (PE_start _ _ _ _ HPE) as [H1 H2].
    rewrite (pstmt_expr_eq _ _ _ H1) in Hx. rewrite (pstmt_expr_eq _ _ _ H2).
    destruct (pexpr f lvl_assign ts) as [[e r1]|] eqn:E; [|discriminate Hx].
    rewrite (PE_sound _ _ _ _ _ HPE E). exact Hx.
  - intros f b hdr r r' Hh _ IH x Hx. destruct (def_hdr_eq hdr Hh) as (K & K0 & HK).
    rewrite HK in Hx |- *. destruct (pitems f r) as [y|] eqn:E; [|rewrite K0 in Hx; discriminate Hx].
    rewrite (IH _ eq_refl). exact Hx.
  - intros f ts ts' HPS IH x Hx. destruct (PS_head _ _ _ _ HPS) as [H1 H2].
    rewrite pitems_step in Hx |- *. rewrite H1 in Hx. rewrite H2.
    destruct (pstmt f true ts) as [[s r]|] eqn:E; [|discriminate Hx]. rewrite (IH _ eq_refl).
    destruct (pitems f (skip_semi r)) as [[ss r1]|] eqn:E2; [|discriminate Hx].
    rewrite (proj2 (stmt_mono_S f) _ _ E2). exact Hx.
  - intros f seg sep s r2 r2' Hp Hsep HPI IH x Hx.
    pose proof (proj2 PS_PI_lookp _ _ _ HPI) as Hl.
    destruct (proj1 (stmt_local f) _ _ _ _ Hp) as (seg' & E & Hne & L). apply app_inv_tail in E. subst seg'.
    rewrite pitems_step in Hx |- *. rewrite (pstmt_head _ _ _ _ Hp) in Hx.
    rewrite (hd_app_ne seg (sep ++ r2') (sep ++ r2) Hne), (pstmt_head _ _ _ _ Hp).
    rewrite Hp in Hx. rewrite (proj1 (stmt_mono_S f) _ _ _ (L (sep ++ r2') (lookp_app _ _ _ Hl))).
    rewrite (sep_skip _ _ Hsep) in Hx. rewrite (sep_skip _ _ (sep_lookp _ _ _ Hsep Hl)).
    destruct (pitems f r2) as [[ss r1]|] eqn:E2; [|discriminate Hx]. rewrite (IH _ eq_refl). exact Hx.
Qed.
Print Assumptions PS_PI_sound.

Lemma PS_PI_length :
  (forall f b ts ts', PS f b ts ts' -> length ts' = S (S (length ts))) /\
  (forall f ts ts', PI f ts ts' -> length ts' = S (S (length ts))).
Proof.
  apply PS_PI_mut; intros;
    try match goal with H : PE _ _ _ _ |- _ => apply (proj1 PE_PL_length) in H end;
    cbn [length]; rewrite ?app_length in *; cbn [length]; rewrite ?app_length; lia.
Qed.

Lemma two_of_length : forall ts : list token, (2 <= length ts)%nat -> exists a b r, ts = a :: b :: r.
Proof. intros [|a [|b r]] H; cbn [length] in H; try lia. exists a, b, r. reflexivity. Qed.

Lemma PS_false_two : forall f ts ts', PS f false ts ts' -> (2 <= length ts)%nat.
Proof.
  intros f ts ts' H. inversion H; subst; cbn [length]; try lia.
  - destruct (PE_start _ _ _ _ H1) as [E _]. destruct r; [discriminate E|cbn [length]; lia].
  - destruct H0; cbn [length app]; lia.
Qed.

Lemma ptop_two : forall f a b r,
  ptop (S f) (a :: b :: r) =
    match pstmt f false (a :: b :: r) with
    | Some (s, r1) => match ptop f (skip_semi r1) with Some ss => Some (s :: ss) | None => None end
    | None => None
    end.
Proof. reflexivity. Qed.

Lemma PT_length : forall f ts ts', PT f ts ts' -> length ts' = S (S (length ts)) /\ (2 <= length ts)%nat.
Proof.
  induction 1 as [f ts ts' H|f seg sep s r2 r2' Hp Hsep H IH].
  - split; [exact (proj1 PS_PI_length _ _ _ _ H)|exact (PS_false_two _ _ _ H)].
  - destruct IH as [IH1 IH2]. rewrite !app_length. split; [lia|].
    destruct (proj1 (stmt_suf f) _ _ _ _ Hp) as [_ Hl]. rewrite !app_length in Hl. lia.
Qed.

Lemma PT_lookp : forall f ts ts', PT f ts ts' -> lookp ts ts'.
Proof.
  induction 1 as [f ts ts' H|f seg sep s r2 r2' Hp Hsep H IH].
  - exact (proj1 PS_PI_lookp _ _ _ _ H).
  - apply lookp_app, lookp_app, IH.
Qed.

Theorem PT_sound : forall f ts ts' p, PT f ts ts' -> ptop f ts = Some p -> ptop (S f) ts' = Some p.
Proof.
  intros f ts ts' p H. revert p. induction H as [f ts ts' H|f seg sep s r2 r2' Hp Hsep H IH]; intros p Hx.
  - pose proof (PS_false_two _ _ _ H) as H2. pose proof (proj1 PS_PI_length _ _ _ _ H) as H3.
    destruct (two_of_length ts H2) as (a & b & r & ->).
    destruct (two_of_length ts' ltac:(lia)) as (a' & b' & r' & ->).
    rewrite ptop_two in Hx |- *.
    destruct (pstmt f false (a :: b :: r)) as [[s r1]|] eqn:E; [|discriminate Hx].
    rewrite (proj1 PS_PI_sound _ _ _ _ H _ E).
    destruct (ptop f (skip_semi r1)) as [ss|] eqn:E2; [|discriminate Hx].
    rewrite (ptop_mono_S _ _ _ E2). exact Hx.
  - destruct (PT_length _ _ _ H) as [HL1 HL2].
    pose proof (PT_lookp _ _ _ H) as Hl.
    destruct (proj1 (stmt_local f) _ _ _ _ Hp) as (seg' & E & Hne & L). apply app_inv_tail in E. subst seg'.
    destruct (two_of_length (seg ++ sep ++ r2)) as (a & b & r & E1).
    { destruct seg; [contradiction|]. cbn [length app]. rewrite !app_length. lia. }
    destruct (two_of_length (seg ++ sep ++ r2')) as (a' & b' & r' & E1').
    { destruct seg; [contradiction|]. cbn [length app]. rewrite !app_length. lia. }
    rewrite E1 in Hx, Hp. rewrite E1'. rewrite ptop_two in Hx |- *. rewrite Hp in Hx.
    rewrite <- E1'. rewrite (proj1 (stmt_mono_S f) _ _ _ (L (sep ++ r2') (lookp_app _ _ _ Hl))).
    rewrite (sep_skip _ _ Hsep) in Hx. rewrite (sep_skip _ _ (sep_lookp _ _ _ Hsep Hl)).
    destruct (ptop f r2) as [ss|] eqn:E2; [|discriminate Hx]. rewrite (IH _ eq_refl). exact Hx.
Qed.
Print Assumptions PT_sound.

(* 5e. what the relations say about the two token lists: one pair of parentheses is inserted *)
Definition ins (ts ts' : list token) : Prop :=
  exists pre seg r lp rp, ttyp lp = tLPAREN /\ ttyp rp = tRPAREN /\
    ts = pre ++ seg ++ r /\ ts' = pre ++ lp :: seg ++ rp :: r.

Lemma ins_app : forall s ts ts', ins ts ts' -> ins (s ++ ts) (s ++ ts').
Proof.
  intros s ts ts' (pre & seg & r & lp & rp & Hl & Hr & -> & ->).
  exists (s ++ pre), seg, r, lp, rp. rewrite <- !app_assoc. repeat split; assumption.
Qed.

Lemma ins_cons : forall a ts ts', ins ts ts' -> ins (a :: ts) (a :: ts').
Proof. intros a ts ts' H. exact (ins_app [a] ts ts' H). Qed.

Lemma PE_PL_ins :
  (forall f q ts ts', PE f q ts ts' -> ins ts ts') /\ (forall f q l ts ts', PL f q l ts ts' -> ins ts ts').
Proof.
  apply PE_PL_mut; intros; repeat apply ins_cons; try apply ins_app; try assumption.
  exists [], seg, r, lp, rp. repeat split; assumption.
Qed.

Lemma PS_PI_ins :
  (forall f b ts ts', PS f b ts ts' -> ins ts ts') /\ (forall f ts ts', PI f ts ts' -> ins ts ts').
Proof.
  apply PS_PI_mut; intros;
    try match goal with H : PE _ _ _ _ |- _ => apply (proj1 PE_PL_ins) in H end;
    repeat apply ins_cons; repeat apply ins_app; assumption.
Qed.

Theorem PT_ins : forall f ts ts', PT f ts ts' -> ins ts ts'.
Proof.
  induction 1 as [f ts ts' H|f seg sep s r2 r2' Hp Hsep H IH].
  - exact (proj1 PS_PI_ins _ _ _ _ H).
  - apply ins_app, ins_app, IH.
Qed.

(* the shape of a lexer output is kept *)
Lemma ins_lex_shape : forall ts ts', ins ts ts' -> lex_shape ts ->
  (exists pre e, ts = pre ++ [e] /\ ttyp e = tEOF) ->
  (exists pre e, ts' = pre ++ [e] /\ ttyp e = tEOF) -> lex_shape ts'.
Proof.
  intros ts ts' (pre & seg & r & lp & rp & Hl & Hr & E1 & E2) Hs He (pre' & e' & E' & He').
  destruct (lex_shape_eof ts Hs He) as (body & e & Fb & Hee & Eb).
  destruct (exists_last (l := r)) as (r0 & x & ->).
  { intros ->. rewrite E2 in E'. change (pre ++ lp :: seg ++ [rp]) with (pre ++ (lp :: seg) ++ [rp]) in E'.
    rewrite !app_assoc in E'. apply app_inj_tail in E'. destruct E' as [_ <-]. congruence. }
  rewrite Eb in E1. rewrite !app_assoc in E1. apply app_inj_tail in E1. destruct E1 as [-> <-].
  exists (pre ++ lp :: seg ++ rp :: r0). split.
  - rewrite <- app_assoc in Fb. apply Forall_app in Fb. destruct Fb as [F1 F2].
    apply Forall_app in F2. destruct F2 as [F2 F3].
    assert (Nl : normal lp) by (unfold normal, normalt; rewrite Hl; repeat split; discriminate).
    assert (Nr : normal rp) by (unfold normal, normalt; rewrite Hr; repeat split; discriminate).
    apply Forall_app. split; [exact F1|]. constructor; [exact Nl|].
    apply Forall_app. split; [exact F2|]. constructor; [exact Nr|exact F3].
  - left. exists e. split; [exact Hee|]. rewrite E2, <- !app_assoc. cbn [app]. rewrite <- app_assoc. reflexivity.
Qed.

(* ------------------------------------------------------------------ *)
(* 6. programs                                                         *)
(* ------------------------------------------------------------------ *)

(* parentheses around any node of the parse of a program: the same tree *)
Theorem paren_program : forall ts ts' p,
  PT (4 * length ts + 8) ts ts' -> ast_program ts = Some p -> ast_program ts' = Some p.
Proof.
  intros ts ts' p H Ha. unfold ast_program in *. destruct (PT_length _ _ _ H) as [HL _]. rewrite HL.
  apply (ptop_fuel_mono (S (4 * length ts + 8))); [lia|]. exact (PT_sound _ _ _ _ H Ha).
Qed.
Print Assumptions paren_program.

(* A4.  ... and by T2 the same code, constants and identifier table *)
Theorem paren_same_program : forall ts ts', lex_shape ts -> PT (4 * length ts + 8) ts ts' ->
  hadError (parse_tokens ts) = false -> oof (parse_tokens ts) = false -> ppanic (parse_tokens ts) = false ->
  lex_shape ts' /\
  hadError (parse_tokens ts') = false /\ oof (parse_tokens ts') = false /\ ppanic (parse_tokens ts') = false /\
  code (parse_tokens ts) = code (parse_tokens ts') /\
  consts (parse_tokens ts) = consts (parse_tokens ts') /\
  identRefs (parse_tokens ts) = identRefs (parse_tokens ts').
Proof.
  intros ts ts' Hs HT He Ho Hp.
  destruct (T2_code_equal ts Hs He Ho Hp) as (p & Ha & Hc & C1 & K1 & _ & _ & I1).
  pose proof (paren_program _ _ _ HT Ha) as Ha2.
  assert (Hs2 : lex_shape ts').
  { apply (ins_lex_shape ts ts' (PT_ins _ _ _ HT) Hs); [exact (ptop_eof _ _ _ Ha)|exact (ptop_eof _ _ _ Ha2)]. }
  destruct (T2_sound ts' p Hs2 Ha2 Hc) as (E2 & O2 & P2 & C2 & K2 & _ & _ & I2).
  repeat split; congruence.
Qed.
Print Assumptions paren_same_program.

(* for sources: if the tokens of src2 are those of src1 with a node of its parse in parentheses,
   src2 is accepted with src1 and compiles to the same code and constants *)
Theorem parens_irrelevant : forall n1 n2 src1 src2,
  PT (4 * length (fst (lex [src1])) + 8) (fst (lex [src1])) (fst (lex [src2])) ->
  pr_ok (parse_whole n1 src1) = true -> pr_oof (parse_whole n1 src1) = false ->
  pr_panic (parse_whole n1 src1) = false ->
  pr_ok (parse_whole n2 src2) = true /\ pr_oof (parse_whole n2 src2) = false /\
  pr_panic (parse_whole n2 src2) = false /\
  g_code (pr_prog (parse_whole n1 src1)) = g_code (pr_prog (parse_whole n2 src2)) /\
  g_consts (pr_prog (parse_whole n1 src1)) = g_consts (pr_prog (parse_whole n2 src2)).
Proof.
  intros n1 n2 src1 src2. unfold parse_whole, parse_chunks.
  pose proof (lex_tokens_shape [src1]) as Hs.
  destruct (lex [src1]) as [ts1 l1], (lex [src2]) as [ts2 l2]. cbn [fst] in *.
  cbn [pr_ok pr_oof pr_panic pr_prog g_code g_consts].
  intros HT Hok Ho Hp. apply Bool.negb_true_iff in Hok.
  destruct (paren_same_program ts1 ts2 Hs HT Hok Ho Hp) as (_ & E2 & O2 & P2 & C & K & _).
  rewrite E2, C, K. repeat split; assumption.
Qed.
Print Assumptions parens_irrelevant.

(* ------------------------------------------------------------------ *)
(* 7. examples                                                         *)
(* ------------------------------------------------------------------ *)

Definition tk (t : tok) (v : string) : token := {| ttyp := t; tval := bs v; terr := None; tpos := 0 |}.

(* print 1 + 2 * 3   and   print 1 + (2 * 3): "2 * 3" is the right operand of '+' *)
Example ex_rhs :
  let ts := [tk tPRINT "print"; tk tINT "1"; tk tPLUS "+"; tk tINT "2"; tk tSTAR "*"; tk tINT "3"; tk tEOF ""] in
  let ts' := [tk tPRINT "print"; tk tINT "1"; tk tPLUS "+"; tk tLPAREN "("; tk tINT "2"; tk tSTAR "*"; tk tINT "3";
              tk tRPAREN ")"; tk tEOF ""] in
  PT (4 * length ts + 8) ts ts' /\ ast_program ts' = ast_program ts.
Proof.
  cbv zeta. assert (H : PT 36
    [tk tPRINT "print"; tk tINT "1"; tk tPLUS "+"; tk tINT "2"; tk tSTAR "*"; tk tINT "3"; tk tEOF ""]
    [tk tPRINT "print"; tk tINT "1"; tk tPLUS "+"; tk tLPAREN "("; tk tINT "2"; tk tSTAR "*"; tk tINT "3";
     tk tRPAREN ")"; tk tEOF ""]).
  { apply PT_first, PS_kw; [left; reflexivity|].
    apply (PE_tail 33 lvl_assign [tk tINT "1"] _ _ (ELit (VInt 1))); [reflexivity|].
    apply (PL_rhs 32 lvl_assign _ (tk tPLUS "+") (S lvl_term) (EBin OAdd)); [reflexivity..|].
    apply (PE_here 32 (S lvl_term) [tk tINT "2"; tk tSTAR "*"; tk tINT "3"] [tk tEOF ""]
             (EBin OMul (ELit (VInt 2)) (ELit (VInt 3)))); reflexivity. }
  split; [exact H|]. vm_compute. reflexivity.
Qed.

(* def T { x = 1 ; y = x }   and   def T { x = 1 ; y = (x) }: the node is in the second
   statement of a block *)
Example ex_block :
  let pre := [tk tDEF "def"; tk tIDENT "T"; tk tLCURLY "{"] in
  let s1 := [tk tIDENT "x"; tk tEQ "="; tk tINT "1"] in
  PT 56 (pre ++ s1 ++ [tk tSEMICOLON ";"] ++ [tk tIDENT "y"; tk tEQ "="; tk tIDENT "x"; tk tRCURLY "}"; tk tEOF ""])
        (pre ++ s1 ++ [tk tSEMICOLON ";"] ++ [tk tIDENT "y"; tk tEQ "="; tk tLPAREN "("; tk tIDENT "x"; tk tRPAREN ")";
                                              tk tRCURLY "}"; tk tEOF ""]).
Proof.
  cbv zeta. apply PT_first. apply PS_def; [apply dh_plain; reflexivity|].
  apply (PI_next 53 _ _ (SExpr (EAsg (bs "x") (ELit (VInt 1))))); [reflexivity|left; eexists; split; reflexivity|].
  apply PI_first, PS_expr, PE_asg; [reflexivity..|unfold lvl_assign; lia|].
  apply (PE_here 50 lvl_assign [tk tIDENT "x"] [tk tRCURLY "}"; tk tEOF ""] (EId (bs "x"))); reflexivity.
Qed.

(* parentheses that are not around a node of the parse do change the tree *)
Example ex_not_redundant :
  ast_program [tk tPRINT "print"; tk tLPAREN "("; tk tINT "1"; tk tPLUS "+"; tk tINT "2"; tk tRPAREN ")";
               tk tSTAR "*"; tk tINT "3"; tk tEOF ""] <>
  ast_program [tk tPRINT "print"; tk tINT "1"; tk tPLUS "+"; tk tINT "2"; tk tSTAR "*"; tk tINT "3"; tk tEOF ""].
Proof. vm_compute. discriminate. Qed.

(* the subtle case: after a prefix minus the operand is parsed at level lvl_unary, so in "- a * b"
   the node is "a" (and "- a"), not "a * b" *)
Example ex_unary :
  let m := tk tMINUS "-" in let a := tk tIDENT "a" in let b := tk tIDENT "b" in
  let st := tk tSTAR "*" in let lp := tk tLPAREN "(" in let rp := tk tRPAREN ")" in let e := tk tEOF "" in
  pexpr 9 lvl_assign [lp; m; a; rp; st; b; e] = pexpr 9 lvl_assign [m; a; st; b; e] /\
  pexpr 9 lvl_assign [m; lp; a; rp; st; b; e] = pexpr 9 lvl_assign [m; a; st; b; e] /\
  pexpr 9 lvl_assign [m; lp; a; st; b; rp; e] <> pexpr 9 lvl_assign [m; a; st; b; e].
Proof. vm_compute. repeat split; discriminate. Qed.

(* two sources, through lexer, parser and code generator *)
Example ex_sources :
  g_code (pr_prog (parse_whole (bs "f") (bs "var x = 2 print 1 + x * 3"))) =
  g_code (pr_prog (parse_whole (bs "f") (bs "var x = (2) print (1 + ((x) * 3))"))).
Proof. vm_compute. reflexivity. Qed.
