(* VerifyFrag.v: the verifier's walk (Model/Verify.v) read compositionally.

   vok p o r cur pd     : the walk from offset o over the remaining code r, entered with the fall-through
                          label cur and the pending jump targets pd, accepts (for some fuel);
   frag p fr d b d' b'  : the bytes fr, wherever they are placed, take the label (d, b) to (d', b'),
                          every jump created inside fr is resolved inside fr, and no pending target is
                          disturbed: acceptance of what follows fr implies acceptance from the start of fr.
   Fragments compose (frag_app); every straight-line instruction the generator emits is a fragment
   (the f_ lemmas); JFALSE / JUMP have step lemmas (vok_jfalse, vok_jump_land) and a pending target that
   agrees with the fall-through label is absorbed (vok_absorb).  vok_fuel: an accepting walk accepts
   with the fuel `verify` supplies. *)
From Coq Require Import Lia ZifyN ZifyNat ZifyBool.
From BCL Require Import Model.Verify Proofs.EncodingProofs Proofs.OptionsProofs Proofs.VerifyProofs Proofs.T1Code.
Open Scope N_scope.

(* ---------------------------------------------------------------------------------------- *)
(* one step of the walk                                                                      *)
(* ---------------------------------------------------------------------------------------- *)
Definition pick (cur : option (N * N)) (here : list (N * N)) : option (N * N) :=
  match cur, here with
  | Some l, _ => if forallb (lab_eqb l) here then Some l else None
  | None, l :: more => if forallb (lab_eqb l) more then Some l else None
  | None, [] => None
  end.

Lemma vwalk_S f p o r cur pd :
  vwalk (S f) p o r cur pd =
  let '(here, pd1) := pend_at o pd in
  match pick cur here with
  | None => false
  | Some (d, b) =>
    match r with
    | [] => false
    | instr :: rest =>
      if instr =? opRET then
        (d =? 0) && (b =? 0) && match rest with [] => true | _ => false end && match pd1 with [] => true | _ => false end
      else
        match vstep p o r d b with
        | None => false
        | Some (size, next, newp) =>
          let o' := o + size in
          let pd2 := match newp with Some x => x :: pd1 | None => pd1 end in
          if forallb (fun t => o' <=? fst t) pd2
          then vwalk f p o' (skipn (N.to_nat size) r) next pd2
          else false
        end
    end
  end.
Proof. reflexivity. Qed.

Definition pd_ge (t : N) (pd : pend) : Prop := Forall (fun e => t <= fst e) pd.

Lemma pd_ge_le t t' pd : t' <= t -> pd_ge t pd -> pd_ge t' pd.
Proof. intros H F. eapply Forall_impl; [|exact F]. cbv beta. intros e He. lia. Qed.
Lemma pd_ge_cons t x l pd : t <= x -> pd_ge t pd -> pd_ge t ((x, l) :: pd).
Proof. intros H F. constructor; [exact H | exact F]. Qed.

Lemma pend_at_gt o t pd : pd_ge t pd -> o < t -> pend_at o pd = ([], pd).
Proof.
  intros F H. induction F as [|[x l] pd Hx F IH]; [reflexivity|].
  cbn [pend_at]. rewrite IH. cbn [fst] in Hx.
  replace (x =? o) with false by (symmetry; apply N.eqb_neq; lia). reflexivity.
Qed.
Lemma pend_at_hit o l pd : pend_at o ((o, l) :: pd) = (l :: fst (pend_at o pd), snd (pend_at o pd)).
Proof. cbn [pend_at]. destruct (pend_at o pd) as [h r]. rewrite N.eqb_refl. reflexivity. Qed.
Lemma pend_at_miss o t l pd : t <> o ->
  pend_at o ((t, l) :: pd) = (fst (pend_at o pd), (t, l) :: snd (pend_at o pd)).
Proof.
  intros H. cbn [pend_at]. destruct (pend_at o pd) as [h r].
  replace (t =? o) with false by (symmetry; apply N.eqb_neq; exact H). reflexivity.
Qed.

Lemma forallb_ge t pd : pd_ge t pd -> forallb (fun e => t <=? fst e) pd = true.
Proof. intros F. apply forallb_forall. unfold pd_ge in F. rewrite Forall_forall in F. intros e He. apply N.leb_le, F, He. Qed.

Lemma lab_eqb_refl l : lab_eqb l l = true.
Proof. destruct l. unfold lab_eqb. cbn [fst snd]. rewrite !N.eqb_refl. reflexivity. Qed.

Definition vok (p : prog) (o : N) (r : bytes) (cur : option (N * N)) (pd : pend) : Prop :=
  exists fuel, vwalk fuel p o r cur pd = true.

(* the walk looks at pd only through pend_at *)
Lemma vwalk_pend_eq fuel p o r cur cur' pd pd' :
  snd (pend_at o pd) = snd (pend_at o pd') ->
  pick cur (fst (pend_at o pd)) = pick cur' (fst (pend_at o pd')) ->
  vwalk fuel p o r cur pd = vwalk fuel p o r cur' pd'.
Proof.
  intros H1 H2. destruct fuel as [|f]; [reflexivity|]. rewrite !vwalk_S.
  destruct (pend_at o pd) as [h1 r1], (pend_at o pd') as [h2 r2]. cbn [fst snd] in *. subst r2. rewrite H2.
  reflexivity.
Qed.

(* a pending target at the current offset that carries the fall-through label changes nothing *)
Lemma vok_absorb p o r l pd : pd_ge o pd ->
  vok p o r (Some l) pd -> vok p o r (Some l) ((o, l) :: pd).
Proof.
  intros _ [fuel H]. exists fuel. rewrite <- H. apply vwalk_pend_eq; rewrite pend_at_hit; cbn [fst snd]; [reflexivity|].
  cbn [pick forallb]. rewrite lab_eqb_refl. reflexivity.
Qed.

(* after a JUMP the label comes from the pending target alone *)
Lemma vok_land p o r l t pd : o < t -> pd_ge t pd ->
  vok p o r (Some l) ((t, l) :: pd) -> vok p o r None ((t, l) :: (o, l) :: pd).
Proof.
  intros Ht F [fuel H]. exists fuel. rewrite <- H.
  assert (E : pend_at o pd = ([], pd)) by (eapply pend_at_gt; eassumption).
  apply vwalk_pend_eq; rewrite (pend_at_miss o t l pd), (pend_at_miss o t l ((o, l) :: pd)) by lia;
    rewrite pend_at_hit, E; cbn [fst snd]; reflexivity.
Qed.

Lemma skipn_instr (instr : N) (args post : bytes) :
  skipn (N.to_nat (1 + nlen args)) (instr :: args ++ post) = post.
Proof.
  replace (N.to_nat (1 + nlen args)) with (S (length args)) by (unfold nlen; lia).
  cbn [skipn]. rewrite skipn_app, skipn_all, Nat.sub_diag. reflexivity.
Qed.

Lemma vok_step p o instr args post d b next newp pd :
  (instr =? opRET) = false ->
  vstep p o (instr :: args ++ post) d b = Some (1 + nlen args, next, newp) ->
  pd_ge (o + (1 + nlen args)) pd ->
  (forall t l, newp = Some (t, l) -> o + (1 + nlen args) <= t) ->
  vok p (o + (1 + nlen args)) post next (match newp with Some x => x :: pd | None => pd end) ->
  vok p o (instr :: args ++ post) (Some (d, b)) pd.
Proof.
  intros Hret Hv F Hn [f H]. exists (S f). rewrite vwalk_S.
  rewrite (pend_at_gt o _ pd F) by lia. cbn [pick forallb]. rewrite Hret, Hv.
  cbv zeta. rewrite skipn_instr.
  replace (forallb _ _) with true; [exact H|]. symmetry.
  destruct newp as [[t l]|]; [|apply forallb_ge, F].
  cbn [forallb fst]. rewrite (forallb_ge _ _ F). rewrite Bool.andb_true_r. apply N.leb_le. eapply Hn. reflexivity.
Qed.

(* the fuel verify supplies is enough *)
Lemma vok_fuel : forall fuel p o r cur pd,
  vwalk fuel p o r cur pd = true -> forall fuel', (length r < fuel')%nat -> vwalk fuel' p o r cur pd = true.
Proof.
  induction fuel as [|f IH]; intros p o r cur pd H fuel' Hf; [discriminate H|].
  destruct fuel' as [|f']; [lia|]. rewrite vwalk_S in *.
  destruct (pend_at o pd) as [here pd1]. destruct (pick cur here) as [[d b]|]; [|discriminate H].
  destruct r as [|instr rest]; [discriminate H|]. destruct (instr =? opRET); [exact H|].
  destruct (vstep p o (instr :: rest) d b) as [[[size next] newp]|] eqn:Ev; [|discriminate H].
  pose proof (vstep_size _ _ _ _ _ _ _ _ Ev) as Hs. cbv zeta in *.
  destruct (forallb _ _); [|discriminate H].
  eapply IH; [exact H|]. rewrite skipn_length. cbn [length] in *. lia.
Qed.

(* ---------------------------------------------------------------------------------------- *)
(* fragments                                                                                 *)
(* ---------------------------------------------------------------------------------------- *)
Section Frag.
Variable p : prog.

Definition frag (fr : bytes) (d b d' b' : N) : Prop :=
  forall o post pd, pd_ge (o + nlen fr) pd ->
    vok p (o + nlen fr) post (Some (d', b')) pd -> vok p o (fr ++ post) (Some (d, b)) pd.

Lemma frag_nil d b : frag [] d b d b.
Proof. intros o post pd _ H. change (nlen (@nil N)) with 0 in H. rewrite N.add_0_r in H. exact H. Qed.

Lemma frag_app f1 f2 d b d1 b1 d2 b2 :
  frag f1 d b d1 b1 -> frag f2 d1 b1 d2 b2 -> frag (f1 ++ f2) d b d2 b2.
Proof.
  intros A B o post pd F H. rewrite nlen_app in *. rewrite <- app_assoc. apply A.
  - eapply pd_ge_le; [|exact F]. lia.
  - apply B; rewrite <- N.add_assoc; assumption.
Qed.

Lemma frag_instr instr args d b d' b' :
  (instr =? opRET) = false ->
  (forall o post, vstep p o (instr :: args ++ post) d b = Some (1 + nlen args, Some (d', b'), None)) ->
  frag (instr :: args) d b d' b'.
Proof.
  intros Hret Hv o post pd F H. rewrite nlen_cons', (N.add_comm (nlen args) 1) in F, H.
  change ((instr :: args) ++ post) with (instr :: args ++ post).
  eapply vok_step; [exact Hret | apply Hv | exact F | discriminate | exact H].
Qed.

Ltac leb_true :=
  repeat match goal with
         | |- context [?a <=? ?b] => replace (a <=? b) with true by (symmetry; apply N.leb_le; lia)
         | |- context [?a <? ?b] => replace (a <? b) with true by (symmetry; apply N.ltb_lt; lia)
         end; cbn [andb].

Lemma some3 (s s' : N) (l l' : N * N) : s = s' -> l = l' ->
  Some (s, Some l, @None (N * (N * N))) = Some (s', Some l', None).
Proof. intros -> ->. reflexivity. Qed.
Ltac fin3 := apply some3; [rewrite ?nlen_app; unfold nlen; cbn [length]; lia | f_equal; lia].

Ltac op_frag := apply (frag_instr _ []); [reflexivity|]; intros o post; cbn [app]; unfold vstep; closed_tests; leb_true.

Lemma f_push op d b : In op [opZERO; opONE; opTRUE; opFALSE; opNIL] -> frag [op] d b (d + 1) b.
Proof.
  intros Hin. cbn [In] in Hin.
  repeat (destruct Hin as [Hin|Hin]; [subst op; op_frag; reflexivity|]). destruct Hin.
Qed.

Lemma f_binop op d b : In op [opEQ; opLT; opGT; opADD; opSUB; opMUL; opDIV] -> frag [op] (d + 2) b (d + 1) b.
Proof.
  intros Hin. cbn [In] in Hin.
  repeat (destruct Hin as [Hin|Hin]; [subst op; op_frag; fin3|]). destruct Hin.
Qed.

Lemma f_unop op d b : In op [opNEG; opUNPLUS; opNOT] -> frag [op] (d + 1) b (d + 1) b.
Proof.
  intros Hin. cbn [In] in Hin.
  repeat (destruct Hin as [Hin|Hin]; [subst op; op_frag; reflexivity|]). destruct Hin.
Qed.

Lemma f_pop op d b : In op [opPOP; opPRINT] -> frag [op] (d + 1) b d b.
Proof.
  intros Hin. cbn [In] in Hin.
  repeat (destruct Hin as [Hin|Hin]; [subst op; op_frag; fin3|]). destruct Hin.
Qed.

Lemma f_endblock d b : frag [opENDBLOCK] d (b + 1) d b.
Proof. op_frag. fin3. Qed.

Lemma size_uv x : 1 + N.of_nat (length (uv_enc x)) = 1 + nlen (uv_enc x).
Proof. reflexivity. Qed.

Ltac uv_frag x :=
  apply (frag_instr _ (uv_enc x)); [reflexivity|]; intros o post; unfold vstep; closed_tests;
  rewrite uvarint_roundtrip by lia.

Lemma f_const i d b : const_ok p i = true -> i < 2^64 -> frag (opCONST :: uv_enc i) d b (d + 1) b.
Proof. intros C Hi. uv_frag i. rewrite C. reflexivity. Qed.

Lemma f_popn k d b : k < 2^64 -> frag (opPOPN :: uv_enc k) (d + k) b d b.
Proof. intros Hk. uv_frag k. leb_true. unfold nlen. fin3. Qed.

Lemma f_getlocal i d b : i < d -> i < 2^64 -> frag (opGETLOCAL :: uv_enc i) d b (d + 1) b.
Proof. intros H Hi. uv_frag i. leb_true. reflexivity. Qed.

Lemma f_setlocal i d b : i < d + 1 -> i < 2^64 -> frag (opSETLOCAL :: uv_enc i) (d + 1) b (d + 1) b.
Proof. intros H Hi. uv_frag i. leb_true. reflexivity. Qed.

Lemma f_getfield i d b : const_is_str p i = true -> i < 2^64 -> frag (opGETFIELD :: uv_enc i) d (b + 1) (d + 1) (b + 1).
Proof. intros C Hi. uv_frag i. rewrite C. leb_true. reflexivity. Qed.

Lemma f_setfield i d b : const_is_str p i = true -> i < 2^64 ->
  frag (opSETFIELD :: uv_enc i) (d + 1) (b + 1) (d + 1) (b + 1).
Proof. intros C Hi. uv_frag i. rewrite C. leb_true. reflexivity. Qed.

Lemma f_defblock ti ni d b : const_is_str p ti = true -> const_is_str p ni = true -> ti < 2^64 -> ni < 2^64 ->
  frag (opDEFBLOCK :: uv_enc ti ++ uv_enc ni) d b d (b + 1).
Proof.
  intros C1 C2 H1 H2. apply (frag_instr _ (uv_enc ti ++ uv_enc ni)); [reflexivity|]. intros o post.
  unfold vstep; closed_tests. rewrite <- app_assoc. rewrite uvarint_roundtrip by lia.
  rewrite skipn_app, skipn_all, Nat.sub_diag. cbn [app skipn]. rewrite uvarint_roundtrip by lia.
  rewrite C1, C2. cbn [andb]. rewrite nlen_app. unfold nlen. fin3.
Qed.

Lemma f_bind i opt d b : const_is_str p i = true -> i < 2^64 -> frag (opBIND :: uv_enc i ++ [opt]) d b d b.
Proof.
  intros C Hi. apply (frag_instr _ (uv_enc i ++ [opt])); [reflexivity|]. intros o post.
  unfold vstep; closed_tests. rewrite <- app_assoc. rewrite uvarint_roundtrip by lia.
  rewrite <- (Nat.add_0_r (length (uv_enc i))), nth_opt_app_r. cbn [app nth_opt]. rewrite C.
  rewrite nlen_app. unfold nlen. cbn [length]. fin3.
Qed.

(* ---------------------------------------------------------------------------------------- *)
(* jumps                                                                                     *)
(* ---------------------------------------------------------------------------------------- *)
Lemma u16_back J : J <= 65535 -> (J / 256 mod 256) * 256 + J mod 256 = J.
Proof.
  intros H. rewrite (N.mod_small (J / 256) 256) by (apply N.div_lt_upper_bound; lia).
  pose proof (N.div_mod J 256 ltac:(lia)). lia.
Qed.

(* JFALSE hi lo: the target becomes pending with the label of the fall-through edge *)
Lemma vstep_jfalse o J post d b : J <= 65535 ->
  vstep p o (opJFALSE :: [J / 256 mod 256; J mod 256] ++ post) (d + 1) b =
  Some (3, Some (d + 1, b), Some (o + 3 + J, (d + 1, b))).
Proof. intros HJ. unfold vstep; closed_tests. cbn [app]. leb_true. rewrite u16_back by exact HJ. reflexivity. Qed.
Lemma vstep_jump o J post d b : J <= 65535 ->
  vstep p o (opJUMP :: [J / 256 mod 256; J mod 256] ++ post) d b = Some (3, None, Some (o + 3 + J, (d, b))).
Proof. intros HJ. unfold vstep; closed_tests. cbn [app]. rewrite u16_back by exact HJ. reflexivity. Qed.

Lemma vok_jfalse o J post d b pd : J <= 65535 ->
  pd_ge (o + 3) pd ->
  vok p (o + 3) post (Some (d + 1, b)) ((o + 3 + J, (d + 1, b)) :: pd) ->
  vok p o (opJFALSE :: J / 256 mod 256 :: J mod 256 :: post) (Some (d + 1, b)) pd.
Proof.
  intros HJ F H. pose proof (vstep_jfalse o J post d b HJ) as V.
  change (opJFALSE :: J / 256 mod 256 :: J mod 256 :: post) with (opJFALSE :: [J / 256 mod 256; J mod 256] ++ post).
  set (args := [J / 256 mod 256; J mod 256]) in *.
  assert (E3 : 3 = 1 + nlen args) by reflexivity. rewrite E3 in *.
  eapply vok_step; [reflexivity | exact V | exact F | | exact H].
  intros t l E. inversion E. lia.
Qed.

(* JUMP hi lo, landing directly after it on a target that is already pending with the same label *)
Lemma vok_jump_land o J post l pd : J <= 65535 -> 1 <= J ->
  pd_ge (o + 3 + J) pd ->
  vok p (o + 3) post (Some l) ((o + 3 + J, l) :: pd) ->
  vok p o (opJUMP :: J / 256 mod 256 :: J mod 256 :: post) (Some l) ((o + 3, l) :: pd).
Proof.
  intros HJ H1 F H. destruct l as [d b]. pose proof (vstep_jump o J post d b HJ) as V.
  change (opJUMP :: J / 256 mod 256 :: J mod 256 :: post) with (opJUMP :: [J / 256 mod 256; J mod 256] ++ post).
  set (args := [J / 256 mod 256; J mod 256]) in *.
  assert (E3 : 3 = 1 + nlen args) by reflexivity. rewrite E3 in *.
  eapply vok_step; [reflexivity | exact V | | | ].
  - apply pd_ge_cons; [lia|]. eapply pd_ge_le; [|exact F]. lia.
  - intros t l E. inversion E. lia.
  - apply vok_land; [lia | exact F | exact H].
Qed.

(* the end of the program *)
Lemma vok_ret o : vok p o [opRET] (Some (0, 0)) [].
Proof. exists 1%nat. reflexivity. Qed.

End Frag.
