(* VmSpecProofs.v: the VM (Model/Vm.v) implements the documented semantics (Spec/Sem.v). *)
From RecordUpdate Require Import RecordSet.
From Coq Require Import Lia ZArith.
From BCL Require Import Model.Vm Spec.Sem.
Import RecordSetNotations.
Open Scope N_scope.

Ltac vmsimp := cbn [set pc rest stack tos bstack btos result bind_ vout vwarn tosMax btosMax opsRead].

(* ---------------------------------------------------------------------------------------- *)
(* separately defined helpers agree                                                          *)
(* ---------------------------------------------------------------------------------------- *)
Lemma wrap_eq : forall z, wrap64 z = Sem.wrap z.
Proof. reflexivity. Qed.

Lemma repeat_eq : forall n s, repeat_bytes n s = Sem.repeat_str n s.
Proof. induction n as [|n IH]; intros s; cbn [repeat_bytes repeat_str]; [reflexivity|]. rewrite IH. reflexivity. Qed.

Theorem C01_falsey : forall v, is_falsey v = Sem.falsey v.
Proof.
  intros [ | [|] | z | f | [|c s] | t n fs]; reflexivity.
Qed.
Print Assumptions C01_falsey.

Definition bop_of (instr : N) : option bop :=
  if instr =? opEQ then Some BEq else if instr =? opLT then Some BLt
  else if instr =? opGT then Some BGt else if instr =? opADD then Some BAdd
  else if instr =? opSUB then Some BSub else if instr =? opMUL then Some BMul
  else if instr =? opDIV then Some BDiv else None.

Definition instr_of (o : bop) : N :=
  match o with BEq => opEQ | BLt => opLT | BGt => opGT | BAdd => opADD | BSub => opSUB | BMul => opMUL | BDiv => opDIV end.

Lemma bop_of_instr_of : forall instr o, bop_of instr = Some o -> instr = instr_of o.
Proof.
  intros instr o. unfold bop_of.
  repeat match goal with |- context [if ?i =? ?c then _ else _] => destruct (N.eqb_spec i c) as [->|_] end;
    intros H; inversion H; reflexivity.
Qed.


Lemma instr_of_bop_of : forall o, bop_of (instr_of o) = Some o.
Proof. destruct o; reflexivity. Qed.

(* the operand stack after popping both operands *)
Definition popped2 (stk : list value) (m : vm) : vm := m <| stack := stk |> <| tos := tos m - 2 |>.

(* string + nil is the one cell where machine.go pops one slot instead of popping two and pushing
   one: tos goes to [tos m - 1] directly and tosMax is not touched *)
Definition is_str_nil_add (o : bop) (a b : value) : bool :=
  match o, a, b with BAdd, VStr _, VNil => true | _, _, _ => false end.

Definition binop_outcome_raw (p : prog) (instr : N) (o : bop) (a b : value) (stk : list value) (m : vm) : vm * vres :=
  match Sem.binop o a b with
  | RVal v => (if is_str_nil_add o a b then m <| stack := v :: stk |> <| tos := tos m - 1 |>
               else push v (popped2 stk m), VOk)
  | RTypeError => (m, VErr (pos_at p (pc m)) (invalid_types instr a b))
  | RDivZero => (m, VErr (pos_at p (pc m)) (bs "division by int zero"))
  | RNegRepeat => (m, VErr (pos_at p (pc m)) (bs "MUL: negative repeat count"))
  | RExcluded => (m, VPanic PExcluded)
  end.

Definition binop_outcome (p : prog) (instr : N) (o : bop) (a b : value) (stk : list value) (m : vm) : vm * vres :=
  match Sem.binop o a b with
  | RVal v => (push v (popped2 stk m), VOk)
  | RTypeError => (m, VErr (pos_at p (pc m)) (invalid_types instr a b))
  | RDivZero => (m, VErr (pos_at p (pc m)) (bs "division by int zero"))
  | RNegRepeat => (m, VErr (pos_at p (pc m)) (bs "MUL: negative repeat count"))
  | RExcluded => (m, VPanic PExcluded)
  end.

Ltac opcodes :=
  cbn [N.eqb Pos.eqb orb andb negb
       opNOP opRET opPRINT opSETLOCAL opGETLOCAL opDEFBLOCK opENDBLOCK opSETFIELD opGETFIELD opCONST opNIL
       opZERO opONE opTRUE opFALSE opNOT opEQ opLT opGT opADD opSUB opMUL opDIV opNEG opUNPLUS opJUMP opLOOP
       opJFALSE opPOP opPOPN opBIND].

Lemma binop_raw_instr_of : forall p o a b stk m,
  stack m = b :: a :: stk ->
  exec_op p (instr_of o) m = binop_outcome_raw p (instr_of o) o a b stk m.
Proof.
  intros p o a b stk m H. unfold exec_op, binop_outcome_raw, popped2, rt_err.
  destruct o; cbn [instr_of]; opcodes; rewrite Bool.andb_false_r, H.
  all: destruct a, b; cbn [is_number is_int is_float orb andb negb is_block binop_numeric as_float Sem.binop int_op float_op is_str_nil_add value_eq]; opcodes; try reflexivity.
  - (* string * int *)
    destruct (z <? 0)%Z; [reflexivity|]. destruct (1048576 <? Z.of_N (nlen s) * z)%Z; [reflexivity|].
    destruct s; [reflexivity|]. rewrite repeat_eq. reflexivity.
  - (* int / int *) destruct z0; reflexivity.
  - (* float / int *) destruct z; reflexivity.
Qed.

(* C01, exact form: no side condition at all *)
Theorem C01_binop_spec_raw : forall p instr o a b stk m,
  bop_of instr = Some o -> stack m = b :: a :: stk ->
  exec_op p instr m = binop_outcome_raw p instr o a b stk m.
Proof.
  intros p instr o a b stk m Ho H. apply bop_of_instr_of in Ho. subst instr.
  apply binop_raw_instr_of. exact H.
Qed.
Print Assumptions C01_binop_spec_raw.

Lemma vm_eq : forall a1 a2 a3 a4 a5 a6 a7 a8 a9 a10 a11 a12 a13 b3 b4 b11,
  a3 = b3 -> a4 = b4 -> a11 = b11 ->
  mkVm a1 a2 a3 a4 a5 a6 a7 a8 a9 a10 a11 a12 a13 = mkVm a1 a2 b3 b4 a5 a6 a7 a8 a9 a10 b11 a12 a13.
Proof. intros; subst; reflexivity. Qed.

(* C01: with the two facts every reachable state satisfies (both operands are counted in tos, and
   tosMax is a high-water mark) the str+nil cell is the same pop-pop-push as all the others *)
Theorem C01_binop_spec : forall p instr o a b stk m,
  bop_of instr = Some o -> stack m = b :: a :: stk ->
  2 <= tos m -> tos m - 1 <= tosMax m ->
  exec_op p instr m = binop_outcome p instr o a b stk m.
Proof.
  intros p instr o a b stk m Ho H Ht Hm. rewrite (C01_binop_spec_raw p instr o a b stk m Ho H).
  unfold binop_outcome_raw, binop_outcome.
  destruct (is_str_nil_add o a b) eqn:E; [|reflexivity].
  destruct o, a, b; try discriminate E. cbn [Sem.binop]. f_equal.
  unfold push, popped2. vmsimp. destruct m. unfold set; cbn in *. apply vm_eq; [reflexivity|lia|lia].
Qed.
Print Assumptions C01_binop_spec.

(* the two side conditions are needed: a (never reached) state with a too small tosMax *)
Lemma C01_binop_side_conditions_needed : exists p m,
  stack m = [VNil; VStr []] /\ tos m = 2 /\
  exec_op p opADD m <> binop_outcome p opADD BAdd (VStr []) VNil [] m.
Proof.
  exists {| g_name := []; g_code := []; g_consts := []; g_pos := []; g_lfs := [] |}.
  exists {| pc := 1; rest := []; stack := [VNil; VStr []]; tos := 2; bstack := []; btos := 0; result := [];
            bind_ := BNone; vout := []; vwarn := []; tosMax := 0; btosMax := 0; opsRead := 1 |}.
  split; [reflexivity|]. split; [reflexivity|]. vm_compute. discriminate.
Qed.

(* ---------------------------------------------------------------------------------------- *)
(* C01: unary operators, falsey, JFALSE                                                      *)
(* ---------------------------------------------------------------------------------------- *)
Definition uop_of (instr : N) : option uop :=
  if instr =? opNEG then Some UNeg else if instr =? opUNPLUS then Some UPlus
  else if instr =? opNOT then Some UNot else None.
Definition uinstr_of (o : uop) : N := match o with UNeg => opNEG | UPlus => opUNPLUS | UNot => opNOT end.

Lemma uop_of_uinstr_of : forall instr o, uop_of instr = Some o -> instr = uinstr_of o.
Proof.
  intros instr o. unfold uop_of.
  repeat match goal with |- context [if ?i =? ?c then _ else _] => destruct (N.eqb_spec i c) as [->|_] end;
    intros H; inversion H; reflexivity.
Qed.

(* NOT has no type error *)
Definition unop_msg (o : uop) (a : value) : bytes :=
  match o with
  | UNeg => bs "NEG: invalid type: " ++ vtype a ++ bs ", expected number"
  | UPlus => bs "UNPLUS: invalid type: " ++ vtype a ++ bs ", expected number"
  | UNot => []
  end.

Lemma unop_shape : forall o a, (exists v, Sem.unop o a = RVal v) \/ (Sem.unop o a = RTypeError /\ o <> UNot).
Proof. intros [] []; cbn; try (left; eexists; reflexivity); right; split; try reflexivity; discriminate. Qed.

Lemma set_stack_same : forall m s, stack m = s -> m <| stack := s |> = m.
Proof. intros m s <-. destruct m. reflexivity. Qed.

(* the operand is replaced in place: tos, tosMax and everything else are untouched *)
Theorem C01_unop_spec : forall p instr o a stk m,
  uop_of instr = Some o -> stack m = a :: stk ->
  exec_op p instr m =
  match Sem.unop o a with
  | RVal v => (m <| stack := v :: stk |>, VOk)
  | _ => (m, VErr (pos_at p (pc m)) (unop_msg o a))      (* only RTypeError occurs: unop_shape *)
  end.
Proof.
  intros p instr o a stk m Ho H. apply uop_of_uinstr_of in Ho. subst instr.
  unfold exec_op, rt_err. destruct o; cbn [uinstr_of]; opcodes; rewrite Bool.andb_false_r, H.
  - destruct a; reflexivity.
  - destruct a; cbn [is_number is_int is_float orb Sem.unop unop_msg]; try reflexivity;
      rewrite set_stack_same by exact H; reflexivity.
  - cbn [Sem.unop]. rewrite C01_falsey. reflexivity.
Qed.
Print Assumptions C01_unop_spec.

(* JFALSE: jumps iff the top of the stack is falsey; the operand stays *)
Theorem C01_jfalse : forall p m j m1 a stk,
  read_u16 m = Some (j, m1) -> stack m = a :: stk ->
  exec_op p opJFALSE m = (if Sem.falsey a then jump_to p m1 (pc m1 + j) else m1, VOk)
  /\ stack (fst (exec_op p opJFALSE m)) = stack m /\ tos (fst (exec_op p opJFALSE m)) = tos m.
Proof.
  intros p m j m1 a stk Hr H.
  assert (Hs : stack m1 = stack m /\ tos m1 = tos m).
  { unfold read_u16 in Hr. destruct (rest m) as [|b0 [|b1 r]]; try discriminate Hr.
    inversion Hr; subst. vmsimp. split; reflexivity. }
  destruct Hs as [Hs Ht].
  assert (E : exec_op p opJFALSE m = (if Sem.falsey a then jump_to p m1 (pc m1 + j) else m1, VOk)).
  { unfold exec_op. opcodes. rewrite Bool.andb_false_r, Hr, Hs, H, C01_falsey.
    destruct (Sem.falsey a); reflexivity. }
  split; [exact E|]. rewrite E. cbn [fst]. unfold jump_to.
  destruct (Sem.falsey a); vmsimp; rewrite Hs, Ht; split; reflexivity.
Qed.
Print Assumptions C01_jfalse.

(* the same with the operand decoding spelled out *)
Corollary C01_jfalse_bytes : forall p m b0 b1 r a stk,
  rest m = b0 :: b1 :: r -> stack m = a :: stk ->
  exec_op p opJFALSE m =
  (if Sem.falsey a
   then m <| pc := pc m + 2 + (b0 * 256 + b1) |> <| rest := skipn (N.to_nat (pc m + 2 + (b0 * 256 + b1))) (g_code p) |>
   else m <| pc := pc m + 2 |> <| rest := r |>, VOk).
Proof.
  intros p m b0 b1 r a stk Hr H.
  destruct (C01_jfalse p m (b0 * 256 + b1) (m <| pc := pc m + 2 |> <| rest := r |>) a stk) as [E _];
    [unfold read_u16; rewrite Hr; reflexivity | exact H |].
  rewrite E. unfold jump_to. destruct (Sem.falsey a); reflexivity.
Qed.

(* ---------------------------------------------------------------------------------------- *)
(* C04: bind                                                                                 *)
(* ---------------------------------------------------------------------------------------- *)
Definition sel_of (opt : N) : option selector :=
  let s := N.land opt 15 in
  if s =? 1 then Some SelOne else if s =? 2 then Some SelFirst else if s =? 3 then Some SelLast
  else if s =? 15 then Some SelAll else None.
Definition tgt_of (opt : N) : option tgt :=
  let t := N.land opt 240 in
  if t =? 16 then Some TStructTgt else if t =? 32 then Some TSliceTgt else None.

(* the state in which the operands are read: a repeated bind has left its warning already *)
Definition bind_warned (p : prog) (m : vm) : vm :=
  match bind_ m with
  | BNone => m
  | _ => m <| vwarn := (pos_at p (pc m), bs "repeated bind statement, last one overrides") :: vwarn m |>
  end.

Definition bind_invalid (p : prog) (m2 : vm) : vm * vres := rt_err p m2 (bs "invalid bind target and selector").
Definition bind_no_blocks (p : prog) (m2 : vm) (ty : bytes) : vm * vres :=
  rt_err p m2 (bs "bind: no blocks of type " ++ ty).
Definition bind_not_one (p : prog) (m2 : vm) (ty : bytes) (n : N) : vm * vres :=
  rt_err p m2 (bs "bind: found " ++ dec_of_N n ++ bs " blocks of type " ++ ty ++ bs " but expected just 1").

Definition bind_outcome (p : prog) (m2 : vm) (ty : bytes) (r : sel_res) : vm * vres :=
  match r with
  | SStruct b => (m2 <| bind_ := BStruct b |>, VOk)
  | SSlice l => (m2 <| bind_ := BSlice l |>, VOk)
  | SNoBlocks => bind_no_blocks p m2 ty
  | SNotExactlyOne n => bind_not_one p m2 ty n
  | SInvalid => bind_invalid p m2
  end.

Lemma read_uvarint_result : forall m x m1, read_uvarint m = Some (x, m1) -> result m1 = result m.
Proof.
  unfold read_uvarint. intros m x m1 H. destruct (uv_dec (rest m)) as [[y n]|]; inversion H; reflexivity.
Qed.
Lemma read_byte_result : forall m x m1, read_byte m = Some (x, m1) -> result m1 = result m.
Proof.
  unfold read_byte. intros m x m1 H. destruct (rest m); inversion H; reflexivity.
Qed.
Lemma bind_warned_result : forall p m, result (bind_warned p m) = result m.
Proof. intros p m. unfold bind_warned. destruct (bind_ m); reflexivity. Qed.

(* the exact order of the checks in the VM: no blocks, then "one" with a count other than 1 (both
   before the option byte is validated), then the (target, selector) table *)
Theorem C04_bind_spec_raw : forall p m i m1 ty opt m2,
  read_uvarint (bind_warned p m) = Some (i, m1) -> get_const p i = Some (VStr ty) ->
  read_byte m1 = Some (opt, m2) ->
  let blocks := matching_blocks ty (result m) in
  exec_op p opBIND m =
  match blocks with
  | [] => bind_no_blocks p m2 ty
  | _ :: _ =>
    if negb (nlen blocks =? 1) && (N.land opt 15 =? 1) then bind_not_one p m2 ty (nlen blocks)
    else match sel_of opt, tgt_of opt with
         | Some s, Some t => bind_outcome p m2 ty (Sem.select s t blocks)
         | _, _ => bind_invalid p m2
         end
  end.
Proof.
  intros p m i m1 ty opt m2 H1 Hc H2 blocks.
  assert (Hres : result m2 = result m).
  { rewrite (read_byte_result _ _ _ H2), (read_uvarint_result _ _ _ H1). apply bind_warned_result. }
  unfold exec_op. opcodes. rewrite Bool.andb_false_r. fold (bind_warned p m).
  rewrite H1, Hc, H2, Hres. fold blocks.
  unfold sel_of, tgt_of, bind_invalid, bind_no_blocks, bind_not_one.
  destruct blocks as [|first tl] eqn:Eb; [reflexivity|].
  unfold bindOne, bindFirst, bindLast, bindAll, bindStruct, bindSlice.
  generalize (N.land opt 15) (N.land opt 240). intros s t.
  destruct (N.eqb_spec s 1) as [->|_]; [|
  destruct (N.eqb_spec s 2) as [->|_]; [|
  destruct (N.eqb_spec s 3) as [->|_]; [|
  destruct (N.eqb_spec s 15) as [->|_]]]];
  (destruct (N.eqb_spec t 16) as [->|_]; [|destruct (N.eqb_spec t 32) as [->|_]]);
  cbn [N.eqb Pos.eqb orb andb negb Sem.select bind_outcome];
  destruct (nlen (first :: tl) =? 1); cbn [negb andb]; try reflexivity.
Qed.
Print Assumptions C04_bind_spec_raw.

(* C04: a well-formed option byte: the VM does exactly what Sem.select prescribes *)
Theorem C04_bind_spec : forall p m i m1 ty opt m2 s t,
  read_uvarint (bind_warned p m) = Some (i, m1) -> get_const p i = Some (VStr ty) ->
  read_byte m1 = Some (opt, m2) ->
  sel_of opt = Some s -> tgt_of opt = Some t ->
  exec_op p opBIND m = bind_outcome p m2 ty (Sem.select s t (matching_blocks ty (result m))).
Proof.
  intros p m i m1 ty opt m2 s t H1 Hc H2 Hs Ht.
  rewrite (C04_bind_spec_raw p m i m1 ty opt m2 H1 Hc H2). cbv zeta. rewrite Hs, Ht.
  destruct (matching_blocks ty (result m)) as [|first tl]; [reflexivity|].
  destruct (N.eqb_spec (N.land opt 15) 1) as [E|E].
  - unfold sel_of in Hs. cbv zeta in Hs. rewrite E in Hs. cbn in Hs. inversion Hs; subst s.
    destruct (nlen (first :: tl) =? 1) eqn:En; cbn [negb andb]; [reflexivity|].
    unfold Sem.select. rewrite En. reflexivity.
  - rewrite Bool.andb_false_r. reflexivity.
Qed.
Print Assumptions C04_bind_spec.

(* a malformed option byte: the two block-count errors still win, as the VM checks them first *)
Theorem C04_bind_invalid_byte : forall p m i m1 ty opt m2,
  read_uvarint (bind_warned p m) = Some (i, m1) -> get_const p i = Some (VStr ty) ->
  read_byte m1 = Some (opt, m2) ->
  sel_of opt = None \/ tgt_of opt = None ->
  let blocks := matching_blocks ty (result m) in
  exec_op p opBIND m =
  match blocks with
  | [] => bind_no_blocks p m2 ty
  | _ :: _ => match sel_of opt with
              | Some SelOne => if nlen blocks =? 1 then bind_invalid p m2 else bind_not_one p m2 ty (nlen blocks)
              | _ => bind_invalid p m2
              end
  end.
Proof.
  intros p m i m1 ty opt m2 H1 Hc H2 Hinv blocks.
  rewrite (C04_bind_spec_raw p m i m1 ty opt m2 H1 Hc H2). cbv zeta. fold blocks.
  destruct blocks as [|first tl]; [reflexivity|].
  unfold sel_of in *. cbv zeta in *.
  destruct (N.eqb_spec (N.land opt 15) 1) as [E|E].
  - destruct Hinv as [Hinv|Hinv]; [discriminate Hinv|]. rewrite Hinv.
    destruct (nlen (first :: tl) =? 1); reflexivity.
  - rewrite Bool.andb_false_r.
    destruct Hinv as [Hinv|Hinv]; rewrite Hinv.
    + reflexivity.
    + destruct (N.land opt 15 =? 2); [reflexivity|]. destruct (N.land opt 15 =? 3); [reflexivity|].
      destruct (N.land opt 15 =? 15); reflexivity.
Qed.
Print Assumptions C04_bind_invalid_byte.

(* select never answers SInvalid except for all -> struct *)
Lemma select_invalid_iff : forall s t l, Sem.select s t l = SInvalid <-> (l <> [] /\ s = SelAll /\ t = TStructTgt).
Proof.
  intros s t [|x l]; cbn [Sem.select]; [split; [discriminate|intros [H _]; congruence]|].
  destruct s, t; try destruct (nlen (x :: l) =? 1); split; try discriminate; try (intros (_ & A & B); discriminate).
  all: intros _; repeat split; discriminate.
Qed.

Definition block_of_type (ty : bytes) (b : value) : bool :=
  match b with VBlock t _ _ => bytes_eqb t ty | _ => false end.

Lemma bytes_eqb_eq : forall a b, bytes_eqb a b = true <-> a = b.
Proof.
  induction a as [|x a IH]; intros [|y b]; cbn [bytes_eqb]; split; intros H; try reflexivity; try discriminate H.
  - apply Bool.andb_true_iff in H. destruct H as [H1 H2]. apply N.eqb_eq in H1. apply IH in H2. subst. reflexivity.
  - inversion H; subst. rewrite N.eqb_refl. cbn [andb]. apply IH. reflexivity.
Qed.
Lemma bytes_eqb_refl : forall a, bytes_eqb a a = true.
Proof. intros a. apply bytes_eqb_eq. reflexivity. Qed.
Lemma bytes_eqb_neq : forall a b, bytes_eqb a b = false <-> a <> b.
Proof.
  intros a b. split.
  - intros H E. apply bytes_eqb_eq in E. congruence.
  - intros H. destruct (bytes_eqb a b) eqn:E; [|reflexivity]. apply bytes_eqb_eq in E. contradiction.
Qed.

(* result holds the completed blocks newest first; rev result is completion order *)
Theorem C04_matching_blocks_spec : forall ty res,
  matching_blocks ty res = filter (block_of_type ty) (rev res).
Proof. intros ty res. unfold matching_blocks. rewrite frev_eq. reflexivity. Qed.

Theorem C04_matching_blocks_in : forall ty res b,
  In b (matching_blocks ty res) <-> In b res /\ exists n fs, b = VBlock ty n fs.
Proof.
  intros ty res b. rewrite C04_matching_blocks_spec, filter_In, <- in_rev.
  split; intros [H1 H2]; split; try exact H1.
  - destruct b; try discriminate H2. cbn in H2. apply bytes_eqb_eq in H2. subst. eauto.
  - destruct H2 as (n & fs & ->). cbn. apply bytes_eqb_refl.
Qed.
Print Assumptions C04_matching_blocks_in.

(* the warning: whatever else happens (errors and panics included), BIND adds the warning, at the
   position of the opcode, iff a bind is already in effect *)
Ltac cascade :=
  repeat match goal with
         | |- context [match ?x with _ => _ end] =>
           lazymatch x with
           | context [match _ with _ => _ end] => fail
           | _ => destruct x; vmsimp
           end
         end.

Theorem C04_warning_iff_rebind : forall p m,
  vwarn (fst (exec_op p opBIND m)) =
  match bind_ m with
  | BNone => vwarn m
  | _ => (pos_at p (pc m), bs "repeated bind statement, last one overrides") :: vwarn m
  end.
Proof.
  intros p m. unfold exec_op. opcodes. rewrite Bool.andb_false_r.
  unfold read_uvarint, read_byte, rt_err, vpanic. vmsimp.
  cascade; reflexivity.
Qed.
Print Assumptions C04_warning_iff_rebind.

Corollary C04_warning_iff_rebind' : forall p m,
  vwarn (fst (exec_op p opBIND m)) <> vwarn m <-> bind_ m <> BNone.
Proof.
  intros p m. rewrite C04_warning_iff_rebind. destruct (bind_ m); split; intros H; try congruence.
  all: intros E; apply (f_equal (@length _)) in E; cbn [length] in E; lia.
Qed.

(* ---------------------------------------------------------------------------------------- *)
(* C03: the block stack and field maps                                                       *)
(* ---------------------------------------------------------------------------------------- *)
Definition keys (fs : list (bytes * value)) : list bytes := map fst fs.

Lemma fields_get_set_same : forall n v fs, fields_get n (fields_set n v fs) = Some v.
Proof.
  intros n v fs. induction fs as [|[k w] fs IH]; cbn [fields_set fields_get].
  - rewrite bytes_eqb_refl. reflexivity.
  - destruct (bytes_eqb n k) eqn:E; cbn [fields_get]; [rewrite bytes_eqb_refl; reflexivity|].
    rewrite E. exact IH.
Qed.

Lemma fields_get_set_other : forall k n v fs, k <> n -> fields_get k (fields_set n v fs) = fields_get k fs.
Proof.
  intros k n v fs Hk. apply bytes_eqb_neq in Hk.
  induction fs as [|[k' w] fs IH]; cbn [fields_set fields_get].
  - rewrite Hk. reflexivity.
  - destruct (bytes_eqb n k') eqn:E; cbn [fields_get].
    + apply bytes_eqb_eq in E. subst k'. rewrite Hk. reflexivity.
    + rewrite IH. reflexivity.
Qed.

Lemma fields_get_none_iff : forall k fs, fields_get k fs = None <-> ~ In k (keys fs).
Proof.
  intros k fs. induction fs as [|[k' w] fs IH]; cbn [fields_get keys map fst In].
  - split; [intros _ []|reflexivity].
  - destruct (bytes_eqb k k') eqn:E.
    + apply bytes_eqb_eq in E. subst. split; [discriminate|]. intros H. exfalso. apply H. left. reflexivity.
    + apply bytes_eqb_neq in E. rewrite IH. unfold keys. split.
      * intros H [A|A]; [congruence|contradiction].
      * intros H A. apply H. right. exact A.
Qed.

(* the key list: unchanged when the key exists, extended at the end otherwise *)
Lemma fields_set_keys : forall n v fs,
  keys (fields_set n v fs) = if fields_get n fs then keys fs else keys fs ++ [n].
Proof.
  intros n v fs. induction fs as [|[k w] fs IH]; cbn [fields_set fields_get keys map fst app]; [reflexivity|].
  destruct (bytes_eqb n k) eqn:E; cbn [map fst].
  - apply bytes_eqb_eq in E. subst. reflexivity.
  - fold (keys (fields_set n v fs)). rewrite IH. destruct (fields_get n fs); reflexivity.
Qed.

Lemma fields_set_nodup : forall n v fs, NoDup (keys fs) -> NoDup (keys (fields_set n v fs)).
Proof.
  intros n v fs H. rewrite fields_set_keys. destruct (fields_get n fs) eqn:E; [exact H|].
  apply fields_get_none_iff in E.
  apply NoDup_rev in H. rewrite <- (rev_involutive (keys fs ++ [n])). apply NoDup_rev.
  rewrite rev_app_distr. cbn [rev app]. constructor; [|exact H].
  intros A. apply in_rev in A. contradiction.
Qed.

Lemma fields_set_length : forall n v fs,
  length (fields_set n v fs) = if fields_get n fs then length fs else S (length fs).
Proof.
  intros n v fs. pose proof (fields_set_keys n v fs) as H. apply (f_equal (@length _)) in H.
  unfold keys in H. rewrite map_length in H. rewrite H.
  destruct (fields_get n fs); rewrite ?app_length, map_length; cbn [length]; lia.
Qed.

Lemma read_uvarint_frame : forall m x m1, read_uvarint m = Some (x, m1) ->
  stack m1 = stack m /\ tos m1 = tos m /\ bstack m1 = bstack m /\ btos m1 = btos m /\ result m1 = result m
  /\ bind_ m1 = bind_ m /\ tosMax m1 = tosMax m.
Proof.
  unfold read_uvarint. intros m x m1 H. destruct (uv_dec (rest m)) as [[y n]|]; inversion H; repeat split; reflexivity.
Qed.

(* reading an operand only advances pc / rest *)
Lemma read_uvarint_eq : forall m x m1, read_uvarint m = Some (x, m1) ->
  exists k, uv_dec (rest m) = Some (x, k) /\ m1 = m <| pc := pc m + N.of_nat k |> <| rest := skipn k (rest m) |>.
Proof.
  unfold read_uvarint. intros m x m1 H. destruct (uv_dec (rest m)) as [[y n]|]; inversion H; subst.
  exists n. split; reflexivity.
Qed.

(* (a) SETFIELD: field [name] of the innermost open block becomes the top of the operand stack; m1 is
   m with only pc/rest advanced, so every other block, the operand stack, tos ... are untouched *)
Theorem C03_setfield : forall p m i m1 name t n fs up a stk,
  read_uvarint m = Some (i, m1) -> get_const p i = Some (VStr name) ->
  bstack m = VBlock t n fs :: up -> stack m = a :: stk ->
  exec_op p opSETFIELD m = (m1 <| bstack := VBlock t n (fields_set name a fs) :: up |>, VOk).
Proof.
  intros p m i m1 name t n fs up a stk H1 Hc Hb Hs.
  destruct (read_uvarint_frame _ _ _ H1) as (E1 & _ & E2 & _).
  unfold exec_op. opcodes. rewrite Bool.andb_false_r, H1, Hc, E1, E2, Hb, Hs. reflexivity.
Qed.
Print Assumptions C03_setfield.

(* what (a) means for the field map *)
Corollary C03_setfield_fields : forall name a fs,
  fields_get name (fields_set name a fs) = Some a
  /\ (forall k, k <> name -> fields_get k (fields_set name a fs) = fields_get k fs)
  /\ (NoDup (keys fs) -> NoDup (keys (fields_set name a fs))).
Proof.
  intros. split; [apply fields_get_set_same|]. split; [intros; apply fields_get_set_other; assumption|].
  apply fields_set_nodup.
Qed.

Print Assumptions C03_setfield_fields.

(* (b) ENDBLOCK *)
Theorem C03_endblock_nested : forall p m t n fs pt pn pfs up,
  bstack m = VBlock t n fs :: VBlock pt pn pfs :: up ->
  exec_op p opENDBLOCK m =
  match fields_get (block_key t n) pfs with
  | Some _ => (m <| btos := btos m - 1 |>,
               VErr (pos_at p (pc m)) (bs "child " ++ block_key t n ++ bs " duplicate at parent"))
  | None => (m <| bstack := VBlock pt pn (fields_set (block_key t n) (VBlock t n fs) pfs) :: up |>
               <| btos := btos m - 1 |>, VOk)
  end.
Proof.
  intros p m t n fs pt pn pfs up Hb. unfold exec_op. opcodes. rewrite Bool.andb_false_r, Hb.
  unfold rt_err. vmsimp. destruct (fields_get (block_key t n) pfs); reflexivity.
Qed.
Print Assumptions C03_endblock_nested.

Corollary C03_endblock_duplicate_iff : forall p m t n fs pt pn pfs up,
  bstack m = VBlock t n fs :: VBlock pt pn pfs :: up ->
  (snd (exec_op p opENDBLOCK m) <> VOk <-> In (block_key t n) (keys pfs))
  /\ (snd (exec_op p opENDBLOCK m) <> VOk ->
      snd (exec_op p opENDBLOCK m) =
      VErr (pos_at p (pc m)) (bs "child " ++ block_key t n ++ bs " duplicate at parent")).
Proof.
  intros p m t n fs pt pn pfs up Hb. rewrite (C03_endblock_nested _ _ _ _ _ _ _ _ _ Hb).
  destruct (fields_get (block_key t n) pfs) eqn:E; cbn [snd].
  - split; [|reflexivity]. split; [|discriminate]. intros _.
    destruct (in_dec (list_eq_dec N.eq_dec) (block_key t n) (keys pfs)) as [A|A]; [exact A|].
    apply fields_get_none_iff in A. congruence.
  - split; [|congruence]. split; [congruence|]. intros A. apply fields_get_none_iff in E. contradiction.
Qed.

Print Assumptions C03_endblock_duplicate_iff.

Theorem C03_endblock_toplevel : forall p m t n fs,
  bstack m = [VBlock t n fs] ->
  exec_op p opENDBLOCK m = (m <| bstack := [] |> <| btos := 0 |> <| result := VBlock t n fs :: result m |>, VOk).
Proof.
  intros p m t n fs Hb. unfold exec_op. opcodes. rewrite Bool.andb_false_r, Hb. reflexivity.
Qed.
Print Assumptions C03_endblock_toplevel.

(* (c) GETFIELD *)
Definition lookup_field (name : bytes) (bstk : list value) : option value :=
  match bstk with
  | VBlock t n _ :: _ =>
    if is_lit name "TYPE" then Some (VStr t) else if is_lit name "NAME" then Some (VStr n)
    else block_find name bstk
  | _ => None
  end.

Theorem C03_getfield : forall p m i m1 name t n fs up,
  tos m <> stackSize ->
  read_uvarint m = Some (i, m1) -> get_const p i = Some (VStr name) ->
  bstack m = VBlock t n fs :: up ->
  exec_op p opGETFIELD m =
  match lookup_field name (bstack m) with
  | Some v => (push v m1, VOk)
  | None => (m1, VErr (pos_at p (pc m1)) (bs "identifier '" ++ name ++ bs "' not resolved as var or field"))
  end.
Proof.
  intros p m i m1 name t n fs up Ht H1 Hc Hb.
  destruct (read_uvarint_frame _ _ _ H1) as (_ & _ & E2 & _).
  apply N.eqb_neq in Ht.
  unfold exec_op. opcodes. rewrite Ht. cbn [andb]. rewrite H1, Hc, E2, Hb. unfold lookup_field, rt_err.
  destruct (is_lit name "TYPE"); [reflexivity|]. destruct (is_lit name "NAME"); [reflexivity|].
  destruct (block_find name (VBlock t n fs :: up)); reflexivity.
Qed.
Print Assumptions C03_getfield.

Theorem C03_getfield_overflow : forall p m, tos m = stackSize ->
  exec_op p opGETFIELD m = (m, VErr (pos_at p (pc m)) (bs "stack overflow")).
Proof.
  intros p m Ht. apply N.eqb_eq in Ht. unfold exec_op. opcodes. rewrite Ht. reflexivity.
Qed.

(* block_find: the nearest enclosing block that has the field *)
Theorem C03_block_find_spec : forall k bstk v,
  block_find k bstk = Some v <->
  exists pre t n fs post,
    bstk = pre ++ VBlock t n fs :: post /\ fields_get k fs = Some v /\
    Forall (fun b => match b with VBlock _ _ fs' => fields_get k fs' = None | _ => True end) pre.
Proof.
  intros k bstk v. induction bstk as [|b bstk IH].
  - cbn [block_find]. split; [discriminate|]. intros (pre & t & n & fs & post & E & _). destruct pre; discriminate E.
  - assert (Hskip : (match b with VBlock _ _ fs' => fields_get k fs' = None | _ => True end) ->
                    (block_find k (b :: bstk) = Some v <-> block_find k bstk = Some v)).
    { intros Hn. destruct b; cbn [block_find]; try reflexivity. rewrite Hn. reflexivity. }
    split.
    + intros H. destruct b as [ | | | | |t n fs].
      1-5: (apply (Hskip I) in H; apply IH in H; destruct H as (pre & t & n & fs & post & E & G & F);
            eexists (_ :: pre), t, n, fs, post; rewrite E; split; [reflexivity|]; split; [exact G|];
            constructor; [exact I|exact F]).
      destruct (fields_get k fs) eqn:G.
      * cbn [block_find] in H. rewrite G in H. inversion H; subst.
        exists [], t, n, fs, bstk. split; [reflexivity|]. split; [exact G|constructor].
      * apply (Hskip eq_refl) in H. apply IH in H. destruct H as (pre & t' & n' & fs' & post & E & G' & F).
        exists (VBlock t n fs :: pre), t', n', fs', post. rewrite E. split; [reflexivity|]. split; [exact G'|].
        constructor; [exact G|exact F].
    + intros (pre & t & n & fs & post & E & G & F). destruct pre as [|b' pre].
      * cbn [app] in E. inversion E; subst. cbn [block_find]. rewrite G. reflexivity.
      * cbn [app] in E. inversion E; subst b' bstk. inversion F; subst.
        apply Hskip; [assumption|]. apply IH. exists pre, t, n, fs, post. repeat split; assumption.
Qed.
Print Assumptions C03_block_find_spec.

(* ---------------------------------------------------------------------------------------- *)
(* C01: 64-bit wrap-around and truncated division                                            *)
(* ---------------------------------------------------------------------------------------- *)
Open Scope Z_scope.

Lemma two63 : 2^63 = 9223372036854775808. Proof. reflexivity. Qed.
Lemma two64 : 2^64 = 18446744073709551616. Proof. reflexivity. Qed.

Theorem C01_int_wrap : forall z, - 2^63 <= wrap64 z < 2^63.
Proof.
  intros z. unfold wrap64. rewrite two63, two64.
  pose proof (Z.mod_pos_bound (z + 9223372036854775808) 18446744073709551616 eq_refl). lia.
Qed.
Print Assumptions C01_int_wrap.

Theorem C01_int_wrap_id : forall z, - 2^63 <= z < 2^63 -> wrap64 z = z.
Proof.
  intros z. unfold wrap64. rewrite two63, two64. intros H.
  rewrite Z.mod_small by lia. lia.
Qed.
Print Assumptions C01_int_wrap_id.

(* wrap64 picks the representative of z modulo 2^64 *)
Theorem C01_int_wrap_cong : forall z, exists k, wrap64 z = z + k * 2^64.
Proof.
  intros z. unfold wrap64. rewrite two63, two64.
  exists (- ((z + 9223372036854775808) / 18446744073709551616)).
  pose proof (Z.div_mod (z + 9223372036854775808) 18446744073709551616). lia.
Qed.

Lemma quot_0_r : forall x, x ÷ 0 = 0.
Proof. destruct x; reflexivity. Qed.

Lemma quot_bound : forall x y, Z.abs (x ÷ y) <= Z.abs x.
Proof.
  intros x y. destruct (Z.eq_dec y 0) as [->|Hy].
  - rewrite quot_0_r. cbn. lia.
  - rewrite <- Z.quot_abs by exact Hy.
    assert (Hp : 0 < Z.abs y) by lia.
    pose proof (Z.quot_le_upper_bound (Z.abs x) (Z.abs y) (Z.abs x) Hp) as H.
    pose proof (Z.quot_pos (Z.abs x) (Z.abs y)) as H0.
    assert (Z.abs x <= Z.abs y * Z.abs x) by nia. lia.
Qed.

Theorem C01_int_div : forall x y, - 2^63 <= x < 2^63 ->
  int_div x y = if (x =? - 2^63) && (y =? -1) then - 2^63 else x ÷ y.
Proof.
  intros x y Hx. unfold int_div.
  destruct (Z.eqb_spec x (- 2^63)) as [->|Nx]; cbn [andb].
  - destruct (Z.eqb_spec y (-1)) as [->|Ny]; [reflexivity|].
    apply C01_int_wrap_id. pose proof (quot_bound (- 2^63) y) as B. rewrite two63 in *.
    change (- (9223372036854775808)) with (-9223372036854775808) in *.
    assert (-9223372036854775808 ÷ y <> 9223372036854775808); [|lia].
    intros E. destruct (Z.eq_dec y 0) as [->|Hy]; [rewrite quot_0_r in E; discriminate E|].
    pose proof (Z.quot_rem' (- 9223372036854775808) y) as Q. rewrite E in Q.
    pose proof (Z.rem_bound_pos_neg (-9223372036854775808) y) as R1.
    pose proof (Z.rem_bound_neg_neg (-9223372036854775808) y) as R2. lia.
  - apply C01_int_wrap_id. pose proof (quot_bound x y) as B. rewrite two63 in *. lia.
Qed.
Print Assumptions C01_int_div.

Corollary C01_int_div_quot : forall x y, - 2^63 <= x < 2^63 -> ~ (x = - 2^63 /\ y = -1) -> int_div x y = x ÷ y.
Proof.
  intros x y Hx Hn. rewrite C01_int_div by exact Hx.
  destruct (Z.eqb_spec x (- 2^63)); [|reflexivity]. destruct (Z.eqb_spec y (-1)); [|reflexivity].
  exfalso. apply Hn. split; assumption.
Qed.

Corollary C01_int_div_min : int_div (- 2^63) (-1) = - 2^63.
Proof. reflexivity. Qed.

(* truncation toward zero *)
Lemma C01_int_div_examples : int_div 7 2 = 3 /\ int_div (-7) 2 = -3 /\ int_div 7 (-2) = -3 /\ int_div (-7) (-2) = 3.
Proof. repeat split. Qed.

(* ---------------------------------------------------------------------------------------- *)
(* the side conditions of C01_binop_spec hold in every state a run can reach                 *)
(* ---------------------------------------------------------------------------------------- *)
Close Scope Z_scope.
Open Scope N_scope.

Definition vm_inv (m : vm) : Prop := tos m = nlen (stack m) /\ tos m <= tosMax m.

Lemma set_nth_length : forall {A} (l : list A) i v, length (set_nth l i v) = length l.
Proof.
  induction l as [|x l IH]; intros [|i] v; cbn [set_nth length]; try reflexivity. rewrite IH. reflexivity.
Qed.

Ltac cascade_eq :=
  repeat match goal with
         | |- context [match ?x with _ => _ end] =>
           lazymatch x with
           | context [match _ with _ => _ end] => fail
           | _ => destruct x eqn:?; vmsimp
           end
         end.

Lemma exec_op_inv : forall p instr m, vm_inv m -> vm_inv (fst (exec_op p instr m)).
Proof.
  intros p instr m. unfold vm_inv, exec_op.
  unfold read_uvarint, read_u16, read_byte, push, rt_err, vpanic, jump_to. vmsimp.
  cascade_eq; cbn [fst]; vmsimp; intros [H1 H2];
    try match goal with E : stack m = _ |- _ => rewrite E end;
    unfold nlen in *; rewrite ?skipn_length, ?set_nth_length; cbn [length] in *; split; lia.
Qed.

Print Assumptions exec_op_inv.

Lemma init_vm_inv : forall p, vm_inv (init_vm p).
Proof. intros p. unfold vm_inv, init_vm, nlen. vmsimp. cbn. split; lia. Qed.

Lemma run_fuel_inv : forall fuel p tr m, vm_inv m -> vm_inv (fst (run_fuel fuel p tr m)).
Proof.
  induction fuel as [|f IH]; intros p tr m H; [exact H|].
  cbn [run_fuel]. vmsimp. destruct (rest m) as [|instr r]; [exact H|].
  destruct (instr =? opRET); [destruct (tos m =? 0); exact H|].
  match goal with |- context [exec_op p instr ?m1] =>
    pose proof (exec_op_inv p instr m1 H) as H'; destruct (exec_op p instr m1) as [m2 res] end.
  cbn [fst] in H'. destruct res; try exact H'. apply IH. exact H'.
Qed.

Print Assumptions run_fuel_inv.

(* C01 for states with the invariant (all states of a run from init_vm: run_fuel_inv) *)
Theorem C01_binop_spec_inv : forall p instr o a b stk m,
  vm_inv m -> bop_of instr = Some o -> stack m = b :: a :: stk ->
  exec_op p instr m = binop_outcome p instr o a b stk m.
Proof.
  intros p instr o a b stk m [H1 H2] Ho H. apply C01_binop_spec; try assumption.
  - rewrite H1, H. unfold nlen. cbn [length]. lia.
  - lia.
Qed.
Print Assumptions C01_binop_spec_inv.
