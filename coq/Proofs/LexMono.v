(* LexMono.v: the end offsets `tpos` of the tokens delivered by the lexer are non-decreasing.

   `emit` stamps a token with the global offset of the cursor, gpos c, and empties the pending
   text (`before`).  The offset at which the pending text starts, gpos c - |before c|, never
   decreases: next / backup / unbackup move gpos and `before` together, ignore and emit move the
   start up to gpos.  Every token emitted so far ends at or before that start.  (emit_error alone
   would break this -- the tERR token is stamped with gpos while `before` is kept -- but it only
   occurs inside `fail`, which ignores the pending text right after.)

   This discharges the hypothesis of DiagProofs.prog_positions_sorted. *)
From Coq Require Import Lia ZifyN ZifyNat ZifyBool List Bool Sorted.
From BCL Require Import Model.Lexer Model.Api Proofs.LexerProofs Proofs.ParserInvProofs Proofs.DiagProofs.
Import ListNotations.
Open Scope N_scope.

(* global offset at which the pending token text starts *)
Definition tstart (c : cur) : N := gpos c - nlen (before c).

(* `out` is kept newest first *)
Definition ge_tpos (a b : token) : Prop := le_tpos b a.

Definition Mono (c : cur) : Prop :=
  nlen (before c) <= gpos c /\
  StronglySorted ge_tpos (out c) /\
  Forall (fun t => tpos t <= tstart c) (out c).

(* the cursor moved, nothing was emitted, the start of the pending text did not go back *)
Lemma Mono_move : forall c c',
  Mono c -> out c' = out c -> nlen (before c') <= gpos c' -> tstart c <= tstart c' -> Mono c'.
Proof.
  intros c c' (H1 & H2 & H3) Eo Hb Hs. unfold Mono. rewrite Eo. repeat split; auto.
  eapply Forall_impl; [|exact H3]. cbv beta. intros; lia.
Qed.

Lemma next_mono : forall c, Mono c -> Mono (snd (next c)).
Proof.
  intros c H. pose proof H as (Hb & _). unfold next.
  destruct (refill (pending c) (after c) (gpos c) (lfs c)) as [[pend aft] l].
  destruct (decode_rune aft) as [r w] eqn:ED.
  pose proof (decode_rune_width_le _ _ _ ED) as Hw.
  destruct w as [|w]; cbn [snd].
  - apply (Mono_move c); unfold tstart; cbn [before gpos out]; auto; lia.
  - rewrite move_rev_eq. cbn [snd].
    apply (Mono_move c); unfold tstart, nlen in *; cbn [before gpos out]; auto;
      rewrite app_length, rev_length, firstn_length; lia.
Qed.

Lemma backup_mono : forall c, Mono c -> bk c -> Mono (backup c).
Proof.
  intros c H Hk. pose proof H as (Hb & _). unfold bk in Hk. unfold backup. rewrite move_rev_eq.
  apply (Mono_move c); unfold tstart, nlen in *; cbn [before gpos out]; auto;
    rewrite skipn_length; lia.
Qed.

Lemma unbackup_mono : forall c, Mono c -> ok c -> Mono (unbackup c).
Proof.
  intros c H Hk. pose proof H as (Hb & _). unfold ok in Hk. unfold unbackup. rewrite move_rev_eq.
  apply (Mono_move c); unfold tstart, nlen in *; cbn [before gpos out]; auto;
    rewrite app_length, rev_length, firstn_length; lia.
Qed.

Lemma ignore_mono : forall c, Mono c -> Mono (ignore c).
Proof.
  intros c H. pose proof H as (Hb & _).
  apply (Mono_move c); unfold tstart, nlen, ignore in *; cbn [before gpos out length]; auto; lia.
Qed.

Lemma emit_mono : forall t c, Mono c -> Mono (emit t c).
Proof.
  intros t c (H1 & H2 & H3). unfold Mono, emit, tstart, nlen in *. cbn [before gpos out length].
  assert (F : Forall (fun x => tpos x <= gpos c) (out c)).
  { eapply Forall_impl; [|exact H3]. cbv beta. intros; lia. }
  repeat split.
  - lia.
  - constructor; [exact H2|]. eapply Forall_impl; [|exact F]. intros a Ha. exact Ha.
  - constructor; [cbn [tpos]; lia|]. eapply Forall_impl; [|exact F]. cbv beta. intros; lia.
Qed.

(* tERR and tFAIL are both stamped with gpos, and the pending text is dropped *)
Lemma fail_mono : forall e c, Mono c -> Mono (fail e c).
Proof.
  intros e c (H1 & H2 & H3). unfold fail, emit, ignore, emit_error, Mono, tstart, nlen in *.
  cbn [before gpos out length after width pending lfs].
  assert (F : Forall (fun x => tpos x <= gpos c) (out c)).
  { eapply Forall_impl; [|exact H3]. cbv beta. intros; lia. }
  repeat split.
  - lia.
  - constructor; [constructor; [exact H2|]|].
    + eapply Forall_impl; [|exact F]. intros a Ha. exact Ha.
    + constructor; [unfold ge_tpos, le_tpos; cbn [tpos]; lia|].
      eapply Forall_impl; [|exact F]. intros a Ha. exact Ha.
  - constructor; [cbn [tpos]; lia|]. constructor; [cbn [tpos]; lia|].
    eapply Forall_impl; [|exact F]. cbv beta. intros; lia.
Qed.

Lemma peek_mono : forall c, Mono c -> Mono (snd (peek c)).
Proof.
  intros c H. unfold peek. generalize (next_mono c H) (next_bk c).
  destruct (next c) as [r c1]. cbn [snd]. apply backup_mono.
Qed.

Lemma accept_mono : forall v c, Mono c -> Mono (snd (accept v c)).
Proof.
  intros v c H. unfold accept. generalize (next_mono c H) (next_bk c).
  destruct (next c) as [r c1]. cbn [snd]. intros H1 H2.
  destruct (zin r v); cbn [snd]; [assumption|apply backup_mono; assumption].
Qed.

Lemma accept_run_f_mono : forall fuel p acc c, Mono c -> Mono (snd (accept_run_f fuel p acc c)).
Proof.
  induction fuel as [|f IH]; intros p acc c H; cbn [accept_run_f]; [exact H|].
  generalize (next_mono c H) (next_bk c).
  destruct (next c) as [r c1]. cbn [snd]. intros H1 H2.
  destruct (p r); [apply IH; assumption|cbn [snd]; apply backup_mono; assumption].
Qed.

Lemma accept_run_mono : forall fuel v c, Mono c -> Mono (snd (accept_run fuel v c)).
Proof. intros. unfold accept_run. apply accept_run_f_mono. assumption. Qed.

Lemma sticky_fail_mono : forall c, Mono c -> ok c -> Mono (snd (sticky_fail c)).
Proof. intros. unfold sticky_fail. cbn [snd]. apply fail_mono, unbackup_mono; assumption. Qed.

Definition Mp {A} (x : A * cur) : Prop := Mono (snd x).

Create HintDb mono.
#[local] Hint Resolve next_mono peek_mono accept_mono accept_run_f_mono accept_run_mono backup_mono
  ignore_mono emit_mono fail_mono : mono.

Ltac mstep_core g a :=
  let H := fresh "HM" in
  assert (H : Mono (snd (g a))) by (auto with mono);
  revert H;
  lazymatch g with
  | next => generalize (next_bk a)
  | peek => generalize (peek_ok a)
  | _ => idtac
  end;
  destruct (g a) as [? ?]; cbn [fst snd]; intros.

Ltac mstep :=
  lazymatch goal with
  | |- Mp (let '(_, _) := (let '(_, _) := ?g ?a in _) in _) => mstep_core g a
  | |- Mp (let '(_, _) := ?g ?a in _) => mstep_core g a
  end.

Ltac msplit_if :=
  match goal with
  | |- Mp (let '(_, _) := (if ?d then _ else _) in _) => destruct d; cbv beta iota
  | |- Mp (if ?d then _ else _) => destruct d eqn:?
  end.

Ltac mdone := unfold Mp; cbn [snd]; eauto with mono.
Ltac msticky := apply sticky_fail_mono; assumption.

Lemma lex_space_mono : forall fuel c, Mono c -> Mp (lex_space fuel c).
Proof. intros fuel c H. unfold lex_space. mstep. mdone. Qed.

Lemma lex_line_comment_mono : forall fuel c, Mono c -> Mp (lex_line_comment fuel c).
Proof.
  induction fuel as [|f IH]; intros c H; cbn [lex_line_comment]; [mdone|].
  mstep. msplit_if; [mdone|apply IH; assumption].
Qed.

Lemma lex_ident_mono : forall fuel c, Mono c -> Mp (lex_ident fuel c).
Proof.
  induction fuel as [|f IH]; intros c H; cbn [lex_ident]; [mdone|].
  mstep. msplit_if; [apply IH; assumption|].
  cbv zeta. mstep. msplit_if; [msticky|].
  destruct (keyword_of _); mdone.
Qed.

Lemma lex_float_mono : forall fuel c, Mono c -> Mp (lex_float fuel c).
Proof.
  intros fuel c H. unfold lex_float.
  mstep. msplit_if.
  - mstep. msplit_if; [mdone|].
    mstep. msplit_if.
    + mstep. mstep. msplit_if; [mdone|].
      mstep. msplit_if; [msticky|mdone].
    + msplit_if; [mdone|].
      mstep. msplit_if; [msticky|mdone].
  - msplit_if; [mdone|].
    mstep. msplit_if.
    + mstep. mstep. msplit_if; [mdone|].
      mstep. msplit_if; [msticky|mdone].
    + msplit_if; [mdone|].
      mstep. msplit_if; [msticky|mdone].
Qed.

Lemma lex_hex_mono : forall fuel c, Mono c -> Mp (lex_hex fuel c).
Proof.
  intros fuel c H. unfold lex_hex. mstep. mstep. msplit_if; [msticky|mdone].
Qed.

Lemma lex_number_mono : forall fuel c, Mono c -> bk c -> Mp (lex_number fuel c).
Proof.
  intros fuel c H Hb. unfold lex_number. cbv zeta.
  mstep. msplit_if.
  - mstep. msplit_if; [apply lex_hex_mono; assumption|].
    mstep. mstep. msplit_if; [apply lex_float_mono; assumption|].
    msplit_if; [msticky|mdone].
  - mstep. mstep. msplit_if; [apply lex_float_mono; assumption|].
    msplit_if; [msticky|mdone].
Qed.

Lemma lex_quote_mono : forall fuel c, Mono c -> Mp (lex_quote fuel c).
Proof.
  induction fuel as [|f IH]; intros c H; cbn [lex_quote]; [mdone|].
  mstep. msplit_if.
  - mstep. msplit_if; [apply IH; assumption|mdone].
  - msplit_if; [mdone|]. msplit_if; [|apply IH; assumption].
    mstep. msplit_if; [msticky|mdone].
Qed.

Lemma lex_start_mono : forall fuel c, Mono c -> Mp (lex_start fuel c).
Proof.
  intros fuel c H. unfold lex_start.
  mstep. msplit_if; [mdone|]. cbv zeta.
  match goal with |- context [two_rune_of ?r] => destruct (two_rune_of r) as [[r2want t2]|] end.
  - mstep. msplit_if; [mdone|].
    match goal with |- context [one_rune_of ?r] => destruct (one_rune_of r) end; mdone.
  - match goal with |- context [one_rune_of ?r] => destruct (one_rune_of r) end; [mdone|].
    msplit_if; [apply lex_space_mono; assumption|].
    msplit_if; [apply lex_line_comment_mono; assumption|].
    msplit_if; [apply lex_quote_mono; assumption|].
    msplit_if; [apply lex_ident_mono; assumption|].
    msplit_if; [apply lex_number_mono; assumption|mdone].
Qed.

Lemma lex_run_mono : forall steps fuel c, Mono c -> Mono (lex_run steps fuel c).
Proof.
  induction steps as [|s IH]; intros fuel c H; cbn [lex_run]; [exact H|].
  pose proof (lex_start_mono fuel c H) as H1. revert H1. unfold Mp.
  destruct (lex_start fuel c) as [go c1]. cbn [snd]. intros H1.
  destruct go; [apply IH; assumption|assumption].
Qed.

Lemma init_mono : forall cs, Mono (init_cur cs).
Proof.
  intros cs. unfold Mono, init_cur. cbn [before gpos out]. repeat split; try constructor. cbn. lia.
Qed.

(* the token stream of every input, cut into chunks in any way, has non-decreasing positions:
   normal tokens, the tERR / tFAIL pair of a lexical error, and the final tEOF alike *)
Theorem lex_tpos_mono : forall cs, tpos_mono (fst (lex cs)).
Proof.
  intros cs. rewrite lex_final. cbn [fst]. rewrite frev_eq. unfold tpos_mono.
  apply StronglySorted_rev.
  exact (proj1 (proj2 (lex_run_mono _ _ _ (init_mono cs)))).
Qed.
Print Assumptions lex_tpos_mono.

(* the same, as a statement about neighbours *)
Corollary lex_tpos_mono_nth : forall cs i j d,
  (i <= j < length (fst (lex cs)))%nat ->
  tpos (nth i (fst (lex cs)) d) <= tpos (nth j (fst (lex cs)) d).
Proof.
  intros cs i j d. generalize (lex_tpos_mono cs). generalize (fst (lex cs)). clear cs.
  intros ts H. revert i j. induction H as [|a l H IH F]; intros i j Hij; cbn [length] in Hij; [lia|].
  destruct j as [|j]; [replace i with 0%nat by lia; lia|].
  destruct i as [|i]; cbn [nth].
  - rewrite Forall_forall in F. apply (F (nth j l d)). apply nth_In. lia.
  - apply IH. lia.
Qed.

(* the position table of every parsed program is sorted, unconditionally *)
Theorem prog_positions_sorted_all : forall name cs,
  StronglySorted N.le (g_pos (pr_prog (parse_chunks name cs))).
Proof. intros name cs. apply prog_positions_sorted, lex_tpos_mono. Qed.
Print Assumptions prog_positions_sorted_all.

(* error streams too: a string cut by a newline (tERR, tFAIL at the same offset) *)
Example lex_tpos_error_example :
  map tpos (fst (lex [[97; 32; 34; 98; 10]])) = [1; 5; 5].
Proof. vm_compute. reflexivity. Qed.
