(* CompileVerifies.v: the code generator only produces code the verifier accepts.

   compile_verifies : for every syntax tree p whose generated code has no error flag (and fewer than
                      2^64 constants), verify accepts the generated program: along ALL control-flow paths
                      the instructions tile the code, operands are in range and of the right kind, local
                      slots are below the stack depth, jumps land on boundaries with equal depths, the
                      depths are 0 at the final RET and blocks are balanced.
   parsed_verifies  : the same for every program the parser accepts (through T2).
   Method: Proofs/VerifyFrag.v (fragments); by induction on expressions (ExprV: one value is pushed),
   statements (StmtV: the stack depth follows nlocals, the block depth follows depth) and programs. *)
From RecordUpdate Require Import RecordSet.
From Coq Require Import Lia ZifyN ZifyNat ZifyBool.
From BCL Require Import Model.Api Model.Verify Model.Compile Proofs.EncodingProofs Proofs.VerifyFrag
  Proofs.T1Code Proofs.T1Expr Proofs.T1Proofs Proofs.ParserInvProofs Proofs.T2Proofs.
Import RecordSetNotations.
Open Scope N_scope.

Ltac in_list := cbn [In]; repeat (first [left; reflexivity | right]).

Lemma extl_inj s s' f1 f2 : extl s s' f1 -> extl s s' f2 -> f1 = f2.
Proof. intros A B. eapply emits_inj; eapply extl_emits; eassumption. Qed.
Lemma ext_inj s s' f1 f2 : ext s s' f1 -> ext s s' f2 -> f1 = f2.
Proof. intros [A _] [B _]. eapply emits_inj; eassumption. Qed.

(* ---------------------------------------------------------------------------------------- *)
(* locals                                                                                    *)
(* ---------------------------------------------------------------------------------------- *)
(* every slot the generator can resolve is below d *)
Definition lres (s : pst) (d : N) : Prop :=
  forall x idx, resolve_local (locals s) (nlocals s) x = Some idx -> idx < d /\ idx < 2^64.

Lemma lres_lframe s s' d : lframe s s' -> lres s d -> lres s' d.
Proof. intros (L1 & L2 & _) H x idx. rewrite L1, L2. apply H. Qed.
Lemma lres_mono s d d' : d <= d' -> lres s d -> lres s d'.
Proof. intros Hd H x idx R. destruct (H x idx R). split; lia. Qed.

Lemma resolve_lt x : forall ls n idx, nlen ls <= n -> resolve_local ls n x = Some idx -> idx < n.
Proof.
  induction ls as [|[nm ld] r IH]; intros n idx Hn R; cbn [resolve_local] in R; [discriminate R|].
  rewrite nlen_cons' in Hn.
  destruct (bytes_eqb x nm && negb (ld =? -1)%Z).
  - inversion R. lia.
  - apply IH in R; lia.
Qed.

(* the scope tables at statement boundaries *)
Definition sinv (s : pst) : Prop :=
  nlocals s = nlen (locals s) /\ nlocals s <= 1024 /\ Forall (fun l => (snd l <= depth s)%Z) (locals s).

Lemma sinv_lres s : sinv s -> lres s (nlocals s).
Proof.
  intros (A & B & _) x idx R. apply resolve_lt in R; [|lia]. split; lia.
Qed.

(* what a statement does to the scope tables: it declares variables of the current scope *)
Definition sgrow (s s' : pst) : Prop :=
  depth s' = depth s /\
  exists new, locals s' = new ++ locals s /\ Forall (fun l => snd l = depth s) new /\ nlocals s' = nlocals s + nlen new.

Lemma sgrow_lframe s s' : lframe s s' -> sgrow s s'.
Proof.
  intros (L1 & L2 & L3). split; [exact L3|]. exists []. split; [exact L1|]. split; [constructor|].
  rewrite L2. cbn. lia.
Qed.
Lemma sgrow_trans a b c : sgrow a b -> sgrow b c -> sgrow a c.
Proof.
  intros (D1 & n1 & A1 & A2 & A3) (D2 & n2 & B1 & B2 & B3). split; [congruence|].
  exists (n2 ++ n1). split; [rewrite B1, A1, app_assoc; reflexivity|]. split.
  - apply Forall_app. split; [rewrite <- D1; exact B2 | exact A2].
  - rewrite B3, A3, nlen_app. lia.
Qed.
Lemma sinv_grow s s' : sinv s -> sgrow s s' -> nlocals s' <= 1024 -> sinv s'.
Proof.
  intros (A & B & C) (D & new & E1 & E2 & E3) H. split; [|split; [exact H|]].
  - rewrite E3, E1, nlen_app, A. lia.
  - rewrite E1, D. apply Forall_app. split; [|exact C].
    eapply Forall_impl; [|exact E2]. cbv beta. intros l ->. lia.
Qed.

Lemma drop_spec (new old : list (bytes * Z)) D : forall n,
  Forall (fun l => snd l = (D + 1)%Z) new -> Forall (fun l => (snd l <= D)%Z) old ->
  drop_locals (new ++ old) D n = (old, n + nlen new).
Proof.
  induction new as [|[nm ld] new IH]; intros n Hn Ho; cbn [app].
  - change (nlen (@nil (bytes * Z))) with 0. rewrite N.add_0_r. destruct old as [|[nm ld] r]; [reflexivity|].
    cbn [drop_locals]. inversion Ho as [|x xs Hx _]; subst. cbn [snd] in Hx.
    replace (D <? ld)%Z with false by (symmetry; apply Z.ltb_ge; exact Hx). reflexivity.
  - inversion Hn as [|x xs Hx Hn']; subst. cbn [snd] in Hx. cbn [drop_locals].
    replace (D <? ld)%Z with true by (symmetry; apply Z.ltb_lt; lia).
    rewrite IH by assumption. rewrite nlen_cons'. f_equal. lia.
Qed.

(* ---------------------------------------------------------------------------------------- *)
(* the generator against a fixed final program                                               *)
(* ---------------------------------------------------------------------------------------- *)
Section Gen.
Variable p : prog.
Hypothesis HK : nlen (g_consts p) < 2^64.

Notation cext := (cext p).
Notation frag := (frag p).

Lemma c_ok s i v : cext s -> nth_opt (rev (consts s)) (N.to_nat i) = Some v -> const_ok p i = true /\ i < 2^64.
Proof.
  intros C H. destruct (get_const_ext p HK s i v C H) as [G L]. split; [|exact L].
  unfold const_ok. rewrite G. reflexivity.
Qed.
Lemma c_str s i nm : cext s -> nth_opt (rev (consts s)) (N.to_nat i) = Some (VStr nm) ->
  const_is_str p i = true /\ i < 2^64.
Proof.
  intros C H. destruct (get_const_ext p HK s i _ C H) as [G L]. split; [|exact L].
  unfold const_is_str. rewrite G. reflexivity.
Qed.

Lemma cext_ext' s s' fr : ext s s' fr -> cext s' -> cext s.
Proof. intros (_ & G & _). apply cext_back. exact G. Qed.

Lemma f_pop_code k d b : k < 2^64 -> frag (pop_code k) (d + k) b d b.
Proof.
  intros Hk. unfold pop_code. destruct (k =? 0) eqn:E0; [|destruct (k =? 1) eqn:E1].
  - apply N.eqb_eq in E0. subst k. rewrite N.add_0_r. apply frag_nil.
  - apply N.eqb_eq in E1. subst k. apply f_pop. in_list.
  - apply f_popn; exact Hk.
Qed.

(* ---- expressions ---- *)
Definition ExprV (e : expr) : Prop :=
  forall s fr d b, hadError (cexpr e s) = false -> extl s (cexpr e s) fr -> wfs s -> cext (cexpr e s) ->
    lres s d -> depth s = Z.of_N b -> frag fr d b (d + 1) b.

Lemma push_frag op s fr d b : In op [opZERO; opONE; opTRUE; opFALSE; opNIL] ->
  extl s (emit_op op s) fr -> frag fr d b (d + 1) b.
Proof.
  intros Hin E. rewrite (extl_inj _ _ _ _ E (extl_estep _ _ _ (estep_emit_op op s))). apply f_push. exact Hin.
Qed.

Lemma const_frag v s fr d b : extl s (emit_const v s) fr -> wfs s -> cext (emit_const v s) -> frag fr d b (d + 1) b.
Proof.
  intros E W C. destruct (emit_const_extl v s) as [E' G].
  rewrite (extl_inj _ _ _ _ E E'). destruct (c_ok _ _ _ C (G W)) as [C1 C2].
  apply f_const; assumption.
Qed.

Lemma lit_frag v : ExprV (ELit v).
Proof.
  intros s fr d b H E W C _ _. cbn [cexpr] in *. unfold clit in *.
  destruct v as [ |[|]|z| | | ]; try (eapply const_frag; eassumption);
    try (eapply push_frag; [|exact E]; in_list).
  destruct z as [|[q|q|]|]; try (eapply const_frag; eassumption);
    try (eapply push_frag; [|exact E]; in_list).
Qed.

Lemma op_uv_estep op idx s : estep s (emit_uvarint idx (emit_op op s)) ([op] ++ uv_enc idx).
Proof. eapply estep_trans; [apply estep_emit_op | apply estep_emit_uvarint]. Qed.

Lemma estep_consts s s' fr : estep s s' fr -> consts s' = consts s.
Proof. intros (_ & A & _). exact A. Qed.

Lemma depth_pos s b : depth s = Z.of_N b -> (depth s =? 0)%Z = false -> b = b - 1 + 1.
Proof. intros D H. apply Z.eqb_neq in H. lia. Qed.

Lemma id_frag x : ExprV (EId x).
Proof.
  intros s fr d b H E W C L D. cbn [cexpr] in *.
  destruct (resolve_local (locals s) (nlocals s) x) as [idx|] eqn:R.
  - rewrite (extl_inj _ _ _ _ E (extl_estep _ _ _ (op_uv_estep opGETLOCAL idx s))).
    destruct (L x idx R) as [L1 L2]. apply f_getlocal; assumption.
  - destruct (depth s =? 0)%Z eqn:Dz; [rewrite perr_err in H; discriminate H|].
    destruct (ident_const_spec x s) as [A B]. destruct (ident_const x s) as [idx s1]. cbn [fst snd] in A, B.
    pose proof (op_uv_estep opGETFIELD idx s1) as S1.
    rewrite (extl_inj _ _ _ _ E (extl_trans _ _ _ _ _ (extl_cstep _ _ A) (extl_estep _ _ _ S1))).
    destruct (c_str s1 idx x (cext_same p _ _ (estep_consts _ _ _ S1) C) (B W)) as [C1 C2].
    rewrite (depth_pos s b D Dz). cbn [app]. apply f_getfield; assumption.
Qed.

Lemma cstep_lres s s' d : cstep s s' -> lres s d -> lres s' d.
Proof. intros (_ & _ & _ & LF & _). apply lres_lframe. exact LF. Qed.
Lemma cstep_depth s s' : cstep s s' -> depth s' = depth s.
Proof. intros (_ & _ & _ & (_ & _ & LF) & _). exact LF. Qed.
Lemma cstep_wfs s s' : cstep s s' -> wfs s -> wfs s'.
Proof. intros (_ & _ & _ & _ & _ & A). exact A. Qed.

Lemma asg_frag x e : ExprV e -> ExprV (EAsg x e).
Proof.
  intros IH s fr d b H E W C L D. cbn [cexpr] in *.
  destruct (resolve_local (locals s) (nlocals s) x) as [idx|] eqn:R.
  - pose proof (op_uv_estep opSETLOCAL idx (cexpr e s)) as S1.
    pose proof (extl_noerr _ _ _ (extl_estep _ _ _ S1) H) as He.
    destruct (cexpr_extl e s He) as [fe Fe].
    rewrite (extl_inj _ _ _ _ E (extl_trans _ _ _ _ _ Fe (extl_estep _ _ _ S1))).
    destruct (L x idx R) as [L1 L2].
    apply frag_app with (d1 := d + 1) (b1 := b).
    + apply (IH s fe d b He Fe W); [|exact L|exact D]. exact (cext_same p _ _ (estep_consts _ _ _ S1) C).
    + apply f_setlocal; [lia | exact L2].
  - destruct (depth s =? 0)%Z eqn:Dz; [rewrite perr_err in H; discriminate H|].
    destruct (ident_const_spec x s) as [A B]. destruct (ident_const x s) as [idx s1]. cbn [fst snd] in A, B.
    pose proof (op_uv_estep opSETFIELD idx (cexpr e s1)) as S1.
    pose proof (extl_noerr _ _ _ (extl_estep _ _ _ S1) H) as He.
    destruct (cexpr_extl e s1 He) as [fe Fe].
    rewrite (extl_inj _ _ _ _ E (extl_trans _ _ _ _ _ (extl_cstep _ _ A) (extl_trans _ _ _ _ _ Fe (extl_estep _ _ _ S1)))).
    pose proof (cext_same p _ _ (estep_consts _ _ _ S1) C) as Ce.
    destruct (c_str s1 idx x (cext_extl p _ _ _ Fe Ce) (B W)) as [C1 C2].
    cbn [app]. pose proof (depth_pos s b D Dz) as Eb.
    apply frag_app with (d1 := d + 1) (b1 := b).
    + apply (IH s1 fe d b He Fe (cstep_wfs _ _ A W) Ce (cstep_lres _ _ _ A L)).
      rewrite (cstep_depth _ _ A). exact D.
    + rewrite Eb. apply f_setfield; assumption.
Qed.

Lemma ops_frag o d b : frag (ops_of o) (d + 2) b (d + 1) b.
Proof.
  destruct o; cbn [ops_of].
  all: first [ apply f_binop; in_list
             | apply (frag_app p [_] [opNOT] (d + 2) b (d + 1) b (d + 1) b); [apply f_binop; in_list | apply f_unop; in_list] ].
Qed.

Lemma bin_frag o a c : ExprV a -> ExprV c -> ExprV (EBin o a c).
Proof.
  intros IHa IHc s fr d b H E W C L D. cbn [cexpr] in *.
  pose proof (estep_emit_ops (ops_of o) (cexpr c (cexpr a s))) as S1.
  pose proof (extl_noerr _ _ _ (extl_estep _ _ _ S1) H) as Hc.
  destruct (cexpr_extl c _ Hc) as [fc Fc].
  pose proof (extl_noerr _ _ _ Fc Hc) as Ha.
  destruct (cexpr_extl a _ Ha) as [fa Fa].
  rewrite (extl_inj _ _ _ _ E (extl_trans _ _ _ _ _ Fa (extl_trans _ _ _ _ _ Fc (extl_estep _ _ _ S1)))).
  pose proof (cext_same p _ _ (estep_consts _ _ _ S1) C) as Cc.
  apply frag_app with (d1 := d + 1) (b1 := b).
  - apply (IHa s fa d b Ha Fa W (cext_extl p _ _ _ Fc Cc) L D).
  - apply frag_app with (d1 := d + 2) (b1 := b); [|apply ops_frag].
    replace (d + 2) with (d + 1 + 1) by lia.
    apply (IHc _ fc (d + 1) b Hc Fc (extl_wfs _ _ _ Fa W) Cc).
    + eapply lres_lframe; [eapply extl_lframe; exact Fa|]. eapply lres_mono; [|exact L]. lia.
    + destruct (extl_lframe _ _ _ Fa) as (_ & _ & LD). rewrite LD. exact D.
Qed.

Lemma un_frag op a s fr d b : In op [opNEG; opUNPLUS; opNOT] -> ExprV a ->
  hadError (emit_op op (cexpr a s)) = false -> extl s (emit_op op (cexpr a s)) fr -> wfs s ->
  cext (emit_op op (cexpr a s)) -> lres s d -> depth s = Z.of_N b -> frag fr d b (d + 1) b.
Proof.
  intros Hin IH H E W C L D.
  pose proof (estep_emit_op op (cexpr a s)) as S1.
  pose proof (extl_noerr _ _ _ (extl_estep _ _ _ S1) H) as Ha.
  destruct (cexpr_extl a _ Ha) as [fa Fa].
  rewrite (extl_inj _ _ _ _ E (extl_trans _ _ _ _ _ Fa (extl_estep _ _ _ S1))).
  apply frag_app with (d1 := d + 1) (b1 := b).
  - apply (IH s fa d b Ha Fa W (cext_same p _ _ (estep_consts _ _ _ S1) C) L D).
  - apply f_unop. exact Hin.
Qed.

(* `a and b`:  [a] JFALSE end POP [b] end: *)
Lemma and_frag a c : ExprV a -> ExprV c -> ExprV (EAnd a c).
Proof.
  intros IHa IHc s fr d b H E W C L D.
  destruct (and_struct a c s H) as (fa & fc & Fa & F0 & Fc & Hc & J & Ft & Ec).
  cbv zeta in *. rewrite (extl_inj _ _ _ _ E Ft). clear E Ft.
  set (sa := cexpr a s) in *. set (s2 := emit_op opPOP (snd (emit_jump opJFALSE sa))) in *.
  set (sc := cexpr c s2) in *.
  assert (Cc : cext sc) by (apply (cext_same p _ _ Ec C)).
  assert (Ha : hadError sa = false) by (eapply extl_noerr; [exact F0|]; eapply extl_noerr; [exact Fc | exact Hc]).
  assert (Ga : frag fa d b (d + 1) b).
  { apply (IHa s fa d b Ha Fa W); [|exact L|exact D]. eapply cext_extl; [exact F0|]. eapply cext_extl; [exact Fc | exact Cc]. }
  assert (L2 : lframe s s2) by (eapply lframe_trans; eapply extl_lframe; eassumption).
  assert (Gc : frag fc d b (d + 1) b).
  { apply (IHc s2 fc d b Hc Fc); [|exact Cc| |].
    - eapply extl_wfs; [exact F0|]. eapply extl_wfs; [exact Fa | exact W].
    - eapply lres_lframe; [exact L2 | exact L].
    - destruct L2 as (_ & _ & LD). rewrite LD. exact D. }
  clear - Ga Gc J.
  set (JJ := nlen fc + 1) in *.
  intros o post pd F K. rewrite <- app_assoc. apply Ga.
  { eapply pd_ge_le; [|exact F]. rewrite nlen_app. lia. }
  rewrite !nlen_app in F, K.
  change (nlen [opJFALSE; JJ / 256 mod 256; JJ mod 256; opPOP]) with 4 in F, K.
  set (o1 := o + nlen fa) in *.
  replace (o + (nlen fa + (4 + nlen fc))) with (o1 + 4 + nlen fc) in F, K by lia.
  cbn [app]. apply vok_jfalse; [exact J | eapply pd_ge_le; [|exact F]; lia |].
  assert (F' : pd_ge (o1 + 4 + nlen fc) ((o1 + 3 + JJ, (d + 1, b)) :: pd)) by (apply pd_ge_cons; [lia | exact F]).
  apply (f_pop p opPOP d b (or_introl eq_refl) (o1 + 3) (fc ++ post)).
  { eapply pd_ge_le; [|exact F']. change (nlen [opPOP]) with 1. lia. }
  change (nlen [opPOP]) with 1. replace (o1 + 3 + 1) with (o1 + 4) by lia.
  apply Gc; [exact F'|].
  replace (o1 + 3 + JJ) with (o1 + 4 + nlen fc) by lia.
  apply vok_absorb; [exact F | exact K].
Qed.

(* `a or b`:  [a] JFALSE mid JUMP end mid: POP [b] end: *)
Lemma or_frag a c : ExprV a -> ExprV c -> ExprV (EOr a c).
Proof.
  intros IHa IHc s fr d b H E W C L D.
  destruct (or_struct a c s H) as (fa & fc & Fa & F0 & Fc & Hc & J & Ft & Ec).
  cbv zeta in *. rewrite (extl_inj _ _ _ _ E Ft). clear E Ft.
  set (sa := cexpr a s) in *.
  set (s4 := emit_op opPOP (patch_jump (ncode sa + 1) (snd (emit_jump opJUMP (snd (emit_jump opJFALSE sa)))))) in *.
  set (sc := cexpr c s4) in *.
  assert (Cc : cext sc) by (apply (cext_same p _ _ Ec C)).
  assert (Ha : hadError sa = false) by (eapply extl_noerr; [exact F0|]; eapply extl_noerr; [exact Fc | exact Hc]).
  assert (Ga : frag fa d b (d + 1) b).
  { apply (IHa s fa d b Ha Fa W); [|exact L|exact D]. eapply cext_extl; [exact F0|]. eapply cext_extl; [exact Fc | exact Cc]. }
  assert (L2 : lframe s s4) by (eapply lframe_trans; eapply extl_lframe; eassumption).
  assert (Gc : frag fc d b (d + 1) b).
  { apply (IHc s4 fc d b Hc Fc); [|exact Cc| |].
    - eapply extl_wfs; [exact F0|]. eapply extl_wfs; [exact Fa | exact W].
    - eapply lres_lframe; [exact L2 | exact L].
    - destruct L2 as (_ & _ & LD). rewrite LD. exact D. }
  clear - Ga Gc J.
  set (JJ := nlen fc + 1) in *.
  intros o post pd F K. rewrite <- app_assoc. apply Ga.
  { eapply pd_ge_le; [|exact F]. rewrite nlen_app. lia. }
  rewrite !nlen_app in F, K.
  change (nlen [opJFALSE; 0; 3; opJUMP; JJ / 256 mod 256; JJ mod 256; opPOP]) with 7 in F, K.
  set (o1 := o + nlen fa) in *.
  replace (o + (nlen fa + (7 + nlen fc))) with (o1 + 7 + nlen fc) in F, K by lia.
  cbn [app].
  refine (vok_jfalse p o1 3 _ d b pd _ _ _); [lia | eapply pd_ge_le; [|exact F]; lia |].
  assert (F3 : pd_ge (o1 + 3 + 3 + JJ) pd) by (eapply pd_ge_le; [|exact F]; lia).
  apply vok_jump_land; [exact J | lia | exact F3 |].
  assert (F' : pd_ge (o1 + 7 + nlen fc) ((o1 + 3 + 3 + JJ, (d + 1, b)) :: pd)) by (apply pd_ge_cons; [lia | exact F]).
  apply (f_pop p opPOP d b (or_introl eq_refl) (o1 + 3 + 3) (fc ++ post)).
  { eapply pd_ge_le; [|exact F']. change (nlen [opPOP]) with 1. lia. }
  change (nlen [opPOP]) with 1. replace (o1 + 3 + 3 + 1) with (o1 + 7) by lia.
  apply Gc; [exact F'|].
  replace (o1 + 3 + 3 + JJ) with (o1 + 7 + nlen fc) by lia.
  apply vok_absorb; [exact F | exact K].
Qed.

Theorem cexpr_frag : forall e, ExprV e.
Proof.
  induction e as [v|x|x e IH|o a IHa c IHc|a IHa c IHc|a IHa c IHc|a IH|a IH|a IH].
  - apply lit_frag.
  - apply id_frag.
  - apply asg_frag; exact IH.
  - apply bin_frag; assumption.
  - apply and_frag; assumption.
  - apply or_frag; assumption.
  - intros s fr d b. cbn [cexpr]. apply un_frag; [in_list | exact IH].
  - intros s fr d b. cbn [cexpr]. apply un_frag; [in_list | exact IH].
  - intros s fr d b. cbn [cexpr]. apply un_frag; [in_list | exact IH].
Qed.

(* ---- statements ---- *)
Definition StmtR (s s' : pst) (fr : bytes) (b : N) : Prop :=
  sgrow s s' /\ nlocals s' <= 1024 /\ frag fr (nlocals s) b (nlocals s') b.

Definition StmtV (st : stmt) : Prop :=
  forall s fr b, hadError (cstmt st s) = false -> ext s (cstmt st s) fr -> wfs s -> cext (cstmt st s) ->
    sinv s -> depth s = Z.of_N b -> StmtR s (cstmt st s) fr b.
Definition ListV (l : list stmt) : Prop :=
  forall s fr b, hadError (cstmts l s) = false -> ext s (cstmts l s) fr -> wfs s -> cext (cstmts l s) ->
    sinv s -> depth s = Z.of_N b -> StmtR s (cstmts l s) fr b.

Lemma listV_of l : Forall StmtV l -> ListV l.
Proof.
  induction 1 as [|x r Hx _ IH]; intros s fr b H E W C I D.
  - cbn [cstmts fold_left] in *. rewrite (ext_inj _ _ _ _ E (ext_refl s)).
    split; [apply sgrow_lframe, lframe_refl|]. split; [apply I | apply frag_nil].
  - rewrite cstmts_cons in *.
    destruct (cstmts_ext r _ H) as [f2 F2].
    pose proof (ext_noerr _ _ _ F2 H) as H1.
    destruct (cstmt_ext x s H1) as [f1 F1].
    rewrite (ext_inj _ _ _ _ E (ext_trans _ _ _ _ _ F1 F2)).
    destruct (Hx s f1 b H1 F1 W (cext_ext' _ _ _ F2 C) I D) as (G1 & B1 & R1).
    assert (I1 : sinv (cstmt x s)) by (eapply sinv_grow; eassumption).
    assert (D1 : depth (cstmt x s) = Z.of_N b) by (destruct G1 as [G1 _]; rewrite G1; exact D).
    destruct (IH _ f2 b H F2 (ext_wfs _ _ _ F1 W) C I1 D1) as (G2 & B2 & R2).
    split; [eapply sgrow_trans; eassumption|]. split; [exact B2|].
    eapply frag_app; eassumption.
Qed.

Lemma expr_stmt_frag e op s fr b : In op [opPOP; opPRINT] ->
  hadError (emit_op op (cexpr e s)) = false -> ext s (emit_op op (cexpr e s)) fr -> wfs s ->
  cext (emit_op op (cexpr e s)) -> sinv s -> depth s = Z.of_N b -> StmtR s (emit_op op (cexpr e s)) fr b.
Proof.
  intros Hin H E W C I D.
  pose proof (estep_emit_op op (cexpr e s)) as S1.
  pose proof (extl_noerr _ _ _ (extl_estep _ _ _ S1) H) as He.
  destruct (cexpr_extl e _ He) as [fe Fe].
  pose proof (extl_trans _ _ _ _ _ Fe (extl_estep _ _ _ S1)) as Ft.
  rewrite (ext_inj _ _ _ _ E (extl_ext _ _ _ Ft)).
  pose proof (extl_lframe _ _ _ Ft) as LF.
  split; [apply sgrow_lframe; exact LF|].
  destruct LF as (_ & LN & _). rewrite LN. split; [apply I|].
  apply frag_app with (d1 := nlocals s + 1) (b1 := b).
  - apply (cexpr_frag e s fe _ b He Fe W (cext_same p _ _ (estep_consts _ _ _ S1) C) (sinv_lres s I) D).
  - apply f_pop. exact Hin.
Qed.

Lemma var_s1_lres x s : sinv s -> lres (var_s1 x s) (nlocals s).
Proof.
  intros I y idx. unfold var_s1. psimp. cbn [resolve_local]. change (-1 =? -1)%Z with true. cbn [negb].
  rewrite Bool.andb_false_r, N.add_sub. apply (sinv_lres s I).
Qed.

Lemma def_var_fields s nm ld r : locals s = (nm, ld) :: r ->
  locals (def_var s) = (nm, depth s) :: r /\ nlocals (def_var s) = nlocals s /\ depth (def_var s) = depth s.
Proof. intros E. unfold def_var. rewrite E. psimp. repeat split. Qed.
Lemma var_s1_fields x s :
  locals (var_s1 x s) = (x, (-1)%Z) :: locals s /\ nlocals (var_s1 x s) = nlocals s + 1 /\ depth (var_s1 x s) = depth s.
Proof. unfold var_s1. psimp. repeat split. Qed.

Lemma svar_frag x init : StmtV (SVar x init).
Proof.
  intros s fr b H E W C I D.
  destruct (svar_struct x init s H) as (E0 & N1 & HI & Eq). rewrite Eq in *.
  destruct (var_init_extl x init s HI) as [f0 F0].
  pose proof (sstep_def_var (var_sI x init s)) as Sd.
  pose proof (ext_trans _ _ _ _ _ (ext_trans _ _ _ _ _ (sstep_ext _ _ (sstep_var_s1 x s)) (extl_ext _ _ _ F0))
                (sstep_ext _ _ Sd)) as Ft.
  rewrite (ext_inj _ _ _ _ E Ft). cbn [app]. rewrite app_nil_r.
  assert (Ci : cext (var_sI x init s)).
  { destruct Sd as (_ & _ & Sc & _). exact (cext_same p _ _ Sc C). }
  assert (W1 : wfs (var_s1 x s)) by (eapply ext_wfs; [apply sstep_ext, sstep_var_s1 | exact W]).
  destruct (extl_lframe _ _ _ F0) as (L1 & L2 & L3).
  assert (Dl : locals (def_var (var_sI x init s)) = (x, depth s) :: locals s /\
               nlocals (def_var (var_sI x init s)) = nlocals s + 1 /\
               depth (def_var (var_sI x init s)) = depth s).
  { destruct (var_s1_fields x s) as (V1 & V2 & V3). rewrite V1 in L1. rewrite V2 in L2. rewrite V3 in L3.
    destruct (def_var_fields _ _ _ _ L1) as (X1 & X2 & X3). rewrite X1, X2, X3, L2, L3. repeat split. }
  destruct Dl as (D1 & D2 & D3). destruct I as (I1 & I2 & I3).
  split; [|split].
  - split; [exact D3|]. exists [(x, depth s)]. split; [rewrite D1; reflexivity|].
    split; [constructor; [reflexivity|constructor] | rewrite D2; reflexivity].
  - rewrite D2. unfold localsMaxSize in N1. lia.
  - rewrite D2. unfold var_sI in *. destruct init as [e|].
    + apply (cexpr_frag e (var_s1 x s) f0 _ b HI F0 W1 Ci).
      * apply var_s1_lres. repeat split; assumption.
      * unfold var_s1. psimp. exact D.
    + eapply push_frag; [|exact F0]. in_list.
Qed.

Lemma begin_scope_fields s :
  locals (begin_scope s) = locals s /\ nlocals (begin_scope s) = nlocals s /\ depth (begin_scope s) = (depth s + 1)%Z.
Proof. unfold begin_scope. psimp. repeat split. Qed.

Lemma sdef_frag typ name body : Forall StmtV body -> StmtV (SDef typ name body).
Proof.
  intros HB s fr b H E W C I D. rewrite cstmt_def in *.
  destruct (ident_const_spec typ s) as [A A']. destruct (ident_const typ s) as [ti s1]. cbn [fst snd] in A, A'.
  destruct (make_const_spec (VStr name) s1) as [B B']. destruct (make_const (VStr name) s1) as [ni s2]. cbn [fst snd] in B, B'.
  cbv zeta in *.
  set (s2' := emit_uvarint ni (emit_uvarint ti (emit_op opDEFBLOCK s2))) in *.
  set (s3 := begin_scope s2') in *.
  set (s4 := cstmts body s3) in *.
  pose proof (estep_emit_op opENDBLOCK (end_scope s4)) as S5.
  pose proof (extl_ext _ _ _ (extl_estep _ _ _ S5)) as E5.
  pose proof (end_scope_ext s4) as E4.
  assert (H4 : hadError s4 = false) by (eapply ext_noerr; [exact E4|]; eapply ext_noerr; [exact E5 | exact H]).
  destruct (cstmts_ext body s3 H4) as [fb Fb]. fold s4 in Fb.
  assert (S3 : estep s2 s2' ([opDEFBLOCK] ++ uv_enc ti ++ uv_enc ni)).
  { eapply estep_trans; [apply estep_emit_op|]. eapply estep_trans; apply estep_emit_uvarint. }
  assert (E3 : ext s2 s3 (([opDEFBLOCK] ++ uv_enc ti ++ uv_enc ni) ++ [])).
  { eapply ext_trans; [|apply sstep_ext, sstep_begin_scope]. apply extl_ext, extl_estep. exact S3. }
  pose proof (ext_trans _ _ _ _ _ (extl_ext _ _ _ (extl_cstep _ _ A))
               (ext_trans _ _ _ _ _ (extl_ext _ _ _ (extl_cstep _ _ B))
                 (ext_trans _ _ _ _ _ E3 (ext_trans _ _ _ _ _ Fb (ext_trans _ _ _ _ _ E4 E5))))) as Ft.
  rewrite (ext_inj _ _ _ _ E Ft). clear E. cbn [app]. rewrite app_nil_r.
  (* constants *)
  assert (C4 : cext s4) by (eapply cext_ext'; [exact E4|]; eapply cext_ext'; [exact E5 | exact C]).
  assert (C3 : cext s3) by (eapply cext_ext'; [exact Fb | exact C4]).
  assert (C2 : cext s2) by (eapply cext_ext'; [exact E3 | exact C3]).
  assert (W1 : wfs s1) by (apply (cstep_wfs _ _ A W)).
  assert (W2 : wfs s2) by (apply (cstep_wfs _ _ B W1)).
  assert (W3 : wfs s3) by (apply (ext_wfs _ _ _ E3 W2)).
  destruct (c_str s2 ti typ C2) as [Ct Ct'].
  { destruct B as (_ & _ & _ & _ & G & _). eapply cgrow_nth; [exact G | exact (A' W)]. }
  destruct (c_str s2 ni name C2 (B' W1)) as [Cn Cn'].
  (* scope tables *)
  assert (LF2 : lframe s s2').
  { eapply lframe_trans; [apply (extl_lframe _ _ _ (extl_cstep _ _ A))|].
    eapply lframe_trans; [apply (extl_lframe _ _ _ (extl_cstep _ _ B))|]. apply (extl_lframe _ _ _ (extl_estep _ _ _ S3)). }
  destruct LF2 as (Q1 & Q2 & Q3).
  destruct (begin_scope_fields s2') as (P1 & P2 & P3). fold s3 in P1, P2, P3.
  rewrite Q1 in P1. rewrite Q2 in P2. rewrite Q3 in P3.
  assert (I3 : sinv s3).
  { destruct I as (I1 & I2 & I3). unfold sinv. rewrite P1, P2, P3. split; [exact I1|]. split; [exact I2|].
    eapply Forall_impl; [|exact I3]. cbv beta. intros l Hl. lia. }
  assert (D3 : depth s3 = Z.of_N (b + 1)) by (rewrite P3, D; lia).
  destruct (listV_of body HB s3 fb (b + 1) H4 Fb W3 C4 I3 D3) as (G4 & B4 & R4). fold s4 in G4, B4, R4.
  destruct G4 as (G41 & new & G42 & G43 & G44).
  assert (DL : drop_locals (locals s4) (depth s4 - 1) 0 = (locals s, nlen new)).
  { rewrite G42, G41, P1, P3. replace (depth s + 1 - 1)%Z with (depth s) by lia.
    rewrite drop_spec; [reflexivity | rewrite <- P3; exact G43 | apply I]. }
  rewrite DL. cbn [snd].
  (* the state after end_scope *)
  assert (LE : locals (emit_op opENDBLOCK (end_scope s4)) = locals s /\
               nlocals (emit_op opENDBLOCK (end_scope s4)) = nlocals s /\
               depth (emit_op opENDBLOCK (end_scope s4)) = depth s).
  { destruct (extl_lframe _ _ _ (extl_estep _ _ _ S5)) as (X1 & X2 & X3). rewrite X1, X2, X3.
    rewrite end_scope_eq, DL. cbn [fst snd].
    destruct (extl_lframe _ _ _ (extl_estep _ _ _ (estep_pop_n (nlen new)
       (s4 <| depth := (depth s4 - 1)%Z |> <| locals := locals s |> <| nlocals := nlocals s4 - nlen new |>))))
      as (Y1 & Y2 & Y3).
    rewrite Y1, Y2, Y3. psimp. rewrite G44, G41, P2, P3. repeat split; lia. }
  destruct LE as (LE1 & LE2 & LE3).
  split; [apply sgrow_lframe; repeat split; assumption|]. rewrite LE2. split; [apply I|].
  change (frag ((opDEFBLOCK :: uv_enc ti ++ uv_enc ni) ++ fb ++ pop_code (nlen new) ++ [opENDBLOCK]) (nlocals s) b (nlocals s) b).
  apply frag_app with (d1 := nlocals s) (b1 := b + 1).
  { apply f_defblock; assumption. }
  apply frag_app with (d1 := nlocals s4) (b1 := b + 1).
  { rewrite <- P2. exact R4. }
  apply frag_app with (d1 := nlocals s) (b1 := b + 1); [|apply f_endblock].
  rewrite G44, P2. apply f_pop_code. lia.
Qed.

Lemma sbind_frag typ sel tg : StmtV (SBind typ sel tg).
Proof.
  intros s fr b H E W C I D.
  destruct (sbind_struct typ sel tg s) as (Eq & F0 & A & F1 & G). cbv zeta in *. rewrite Eq in *.
  set (s0 := emit_op opBIND s) in *. set (s1 := snd (ident_const typ s0)) in *. set (idx := fst (ident_const typ s0)) in *.
  set (opt := N.lor (N.land (tgt_code tg) 240) (N.land (sel_code sel) 15)) in *.
  pose proof (extl_trans _ _ _ _ _ F0 (extl_trans _ _ _ _ _ (extl_cstep _ _ A) F1)) as Ft.
  rewrite (ext_inj _ _ _ _ E (extl_ext _ _ _ Ft)). cbn [app].
  pose proof (extl_lframe _ _ _ Ft) as LF.
  split; [apply sgrow_lframe; exact LF|]. destruct LF as (_ & LN & _). rewrite LN. split; [apply I|].
  destruct (c_str s1 idx typ (cext_extl p _ _ _ F1 C) (G (extl_wfs _ _ _ F0 W))) as [C1 C2].
  apply f_bind; assumption.
Qed.

Theorem cstmt_frag : forall st, StmtV st.
Proof.
  apply stmt_ind2.
  - apply svar_frag.
  - intros e s fr b. cbn [cstmt]. apply expr_stmt_frag. in_list.
  - intros e s fr b. cbn [cstmt]. apply expr_stmt_frag. in_list.
  - intros e s fr b. cbn [cstmt]. apply expr_stmt_frag. in_list.
  - apply sdef_frag.
  - apply sbind_frag.
Qed.

Lemma cstmts_frag l : ListV l.
Proof. apply listV_of. apply Forall_forall. intros st _. apply cstmt_frag. Qed.

End Gen.

(* ---------------------------------------------------------------------------------------- *)
(* programs                                                                                  *)
(* ---------------------------------------------------------------------------------------- *)
Lemma sinv_init : sinv (init_pst []).
Proof. unfold sinv, init_pst. psimp. split; [reflexivity|]. split; [lia | constructor]. Qed.

Theorem compile_verifies : forall (p : list stmt) name pos lfs,
  let cs := compile_program p in
  hadError cs = false -> nconsts cs < 2^64 ->
  length pos = length (code cs) ->
  verify {| g_name := name; g_code := rev (code cs); g_consts := rev (consts cs); g_pos := pos; g_lfs := lfs |} = true.
Proof.
  intros p name pos lfs cs H HN HP. unfold verify. cbn [g_pos g_code]. apply andb_true_intro. split.
  { apply N.eqb_eq. unfold nlen. rewrite rev_length, HP. reflexivity. }
  revert H HN. clear HP. unfold cs, compile_program. clear cs. cbv zeta.
  set (s := cstmts p (init_pst [])).
  destruct (hadError s) eqn:Hs; [intros H; rewrite H in Hs; discriminate Hs|]. intros _ HN.
  set (cs := emit_op opRET (pop_n (nlocals s) s)) in *.
  set (g := {| g_name := name; g_code := rev (code cs); g_consts := rev (consts cs); g_pos := pos; g_lfs := lfs |}).
  destruct (cstmts_ext p (init_pst []) Hs) as [fr Fr]. fold s in Fr.
  pose proof (estep_trans _ _ _ _ _ (estep_pop_n (nlocals s) s) (estep_emit_op opRET (pop_n (nlocals s) s))) as S12.
  fold cs in S12. fold (pop_code (nlocals s)) in S12.
  pose proof (ext_trans _ _ _ _ _ Fr (extl_ext _ _ _ (extl_estep _ _ _ S12))) as Ft.
  pose proof (ext_wfs _ _ _ Ft wfs_init) as [Wc _].
  assert (HK : nlen (g_consts g) < 2^64).
  { cbn [g g_consts]. rewrite nlen_rev, <- Wc. exact HN. }
  assert (Cs : cext g s).
  { exists []. cbn [g g_consts]. rewrite (estep_consts _ _ _ S12), app_nil_r. reflexivity. }
  destruct (cstmts_frag g HK p (init_pst []) fr 0 Hs Fr wfs_init Cs sinv_init eq_refl) as (_ & Bn & R).
  fold s in Bn, R. change (nlocals (init_pst [])) with 0 in R.
  assert (Ec : rev (code cs) = fr ++ pop_code (nlocals s) ++ [opRET]).
  { destruct Ft as [[Ec _] _]. rewrite Ec. change (code (init_pst [])) with (@nil N).
    rewrite app_nil_r, rev_involutive. reflexivity. }
  assert (V : vok g 0 (rev (code cs)) (Some (0, 0)) []).
  { rewrite Ec. apply R; [constructor|]. apply (f_pop_code g (nlocals s) 0 0); [lia|constructor|]. apply vok_ret. }
  destruct V as [fuel V]. apply (vok_fuel fuel g 0 _ _ _ V). lia.
Qed.
Print Assumptions compile_verifies.

(* ---- the parser: one position per code byte ---- *)
Lemma parse_pos_len ts : length (positions (parse_tokens ts)) = length (code (parse_tokens ts)).
Proof.
  set (P := fun s : pst => length (positions s) = length (code s)).
  assert (PF : forall s s', cframe s s' -> P s -> P s').
  { intros s s' (_ & _ & A & B & _) H. unfold P in *. rewrite A, B. exact H. }
  apply (parse_tokens_pres P (fun _ => True) (fun _ => True)); try (intros; exact I).
  - intros s. apply PF, cframe_advance.
  - intros m s. apply PF, cframe_error_at.
  - intros m s. apply PF, cframe_error_at.
  - intros b s H. unfold P, write in *. psimp. cbn [length]. rewrite H. reflexivity.
  - intros o s H. unfold P, emit_op, write in *. psimp. cbn [length]. rewrite H. reflexivity.
  - intros v s _ H. unfold P, add_const in *. cbn [snd]. psimp. exact H.
  - intros x s. apply PF, cframe_identRefs.
  - intros k a b s H. unfold P in *. psimp. rewrite !set_nth_length. exact H.
  - intros s. apply PF, cframe_begin_scope.
  - intros d ls n s. apply PF, cframe_scope_upd.
  - intros l n m s. apply PF, cframe_add_local_upd.
  - intros l s. apply PF, cframe_locals.
  - intros s. apply PF, cframe_ppanic.
  - intros s. apply PF, cframe_oof.
  - intros s. apply PF, cframe_panicMode.
  - reflexivity.
Qed.

Theorem parsed_verifies : forall name src,
  let pr := parse_whole name src in
  pr_ok pr = true -> pr_oof pr = false -> pr_panic pr = false -> ps_constants (pr_stats pr) < 2^64 ->
  verify (pr_prog pr) = true.
Proof.
  intros name src. unfold parse_whole, parse_chunks.
  pose proof (lex_tokens_shape [src]) as Hs.
  destruct (lex [src]) as [ts l]. cbn [fst] in *.
  cbn [pr_ok pr_oof pr_panic pr_stats ps_constants pr_prog].
  intros Hok Ho Hp Hn. apply Bool.negb_true_iff in Hok.
  destruct (T2_code_equal ts Hs Hok Ho Hp) as (p & Ha & Hc & E1 & E2 & E3 & _).
  rewrite !frev_eq, E1, E2. rewrite E3 in Hn.
  apply (compile_verifies p name (rev (positions (parse_tokens ts))) l Hc Hn).
  rewrite rev_length, <- E1. apply parse_pos_len.
Qed.
Print Assumptions parsed_verifies.

(* non-vacuity: a tree with every statement form, `and`, `or`, assignment, locals in two scopes *)
Example compile_verifies_example :
  let p := [SVar (bs "a") (Some (ELit (VInt 5)));
            SDef (bs "blk") (bs "n")
              [SVar (bs "t") (Some (EOr (EAnd (EId (bs "a")) (ELit (VBool false))) (ENot (EId (bs "f")))));
               SVar (bs "u") None;
               SExpr (EAsg (bs "g") (EBin OLe (EId (bs "t")) (EAsg (bs "a") (ELit (VInt 7)))));
               SDef (bs "in") [] [SPrint (ENeg (EId (bs "u")))]];
            SBind (bs "blk") BSall BTslice;
            SEval (EPos (EId (bs "a")))] in
  hadError (compile_program p) = false /\
  verify {| g_name := []; g_code := rev (code (compile_program p)); g_consts := rev (consts (compile_program p));
            g_pos := repeat 0 (length (code (compile_program p))); g_lfs := [] |} = true.
Proof. vm_compute. split; reflexivity. Qed.
