(* LineCalcProofs.v: specification lemmas for Model/LineCalc.v.

   Sortedness hypothesis used throughout:  sorted l := StronglySorted N.le l
   (the weakest convenient one; newlines_at produces StronglySorted N.lt lists, and
   ssorted_lt_le turns those into `sorted`). *)
From Coq Require Import Lia ZifyN ZifyNat ZifyBool Sorted.
From BCL Require Import Model.LineCalc.
Open Scope N_scope.

Definition sorted (l : list N) : Prop := StronglySorted N.le l.

Lemma ssorted_lt_le : forall l, StronglySorted N.lt l -> sorted l.
Proof.
  induction 1 as [|a l HS IH HF]; constructor; auto.
  eapply Forall_impl; [|exact HF]. cbn. intros; lia.
Qed.

Lemma sorted_app_l : forall l r, sorted (l ++ r) -> sorted l.
Proof.
  induction l as [|a l IH]; intros r H; [constructor|].
  cbn [app] in H. inversion H as [|a' l' HS HF]; subst.
  constructor; [eapply IH; eauto|].
  apply Forall_app in HF. tauto.
Qed.

Lemma sorted_app_r : forall l r, sorted (l ++ r) -> sorted r.
Proof.
  induction l as [|a l IH]; intros r H; [exact H|].
  cbn [app] in H. inversion H; subst. auto.
Qed.

(* the entries strictly below x *)
Definition below (x : N) (l : list N) : list N := filter (fun a => a <? x) l.

Lemma below_all_ge : forall x l, Forall (fun a => x <= a) l -> below x l = [].
Proof.
  induction 1 as [|a l Ha HF IH]; cbn [below filter]; [reflexivity|].
  destruct (a <? x) eqn:E; [lia|]. exact IH.
Qed.

Lemma below_app : forall x l r, below x (l ++ r) = below x l ++ below x r.
Proof. intros. apply filter_app. Qed.

(* 1. search_ints on a sorted list counts the entries < x *)
Theorem search_ints_spec : forall l x, sorted l ->
  search_ints l x = length (filter (fun a => a <? x) l).
Proof.
  induction l as [|a r IH]; intros x HS; cbn [search_ints filter]; [reflexivity|].
  inversion HS as [|a' r' HS' HF]; subst.
  destruct (x <=? a) eqn:E.
  - destruct (a <? x) eqn:E2; [lia|].
    change (filter (fun a0 => a0 <? x) r) with (below x r).
    rewrite below_all_ge; [reflexivity|].
    eapply Forall_impl; [|exact HF]. cbn. intros; lia.
  - destruct (a <? x) eqn:E2; [|lia]. cbn [length]. f_equal. apply IH; assumption.
Qed.
Print Assumptions search_ints_spec.

(* last element, if any *)
Fixpoint last_opt {A} (l : list A) : option A :=
  match l with
  | [] => None
  | a :: r => match r with [] => Some a | _ :: _ => last_opt r end
  end.

Lemma last_opt_app1 : forall {A} (l : list A) a, last_opt (l ++ [a]) = Some a.
Proof.
  induction l as [|b l IH]; intros a; [reflexivity|].
  cbn [app last_opt]. destruct (l ++ [a]) eqn:E.
  - destruct l; discriminate.
  - rewrite <- E. apply IH.
Qed.

Lemma last_opt_cons : forall {A} (a b : A) l, last_opt (a :: b :: l) = last_opt (b :: l).
Proof. reflexivity. Qed.

(* on a sorted list, the entry just before the search index is the last entry < x *)
Lemma nth_pred_search : forall l x, sorted l -> search_ints l x <> 0%nat ->
  last_opt (below x l) = Some (nth (search_ints l x - 1) l 0).
Proof.
  induction l as [|a r IH]; intros x HS Hj; [cbn in Hj; congruence|].
  inversion HS as [|a' r' HS' HF]; subst.
  pose proof (search_ints_spec r x HS') as Hr.
  cbn [search_ints] in *. cbn [below filter].
  destruct (x <=? a) eqn:E; [congruence|].
  destruct (a <? x) eqn:E2; [|lia].
  change (filter (fun a0 => a0 <? x) r) with (below x r) in *.
  destruct (search_ints r x) as [|k] eqn:Ek.
  - cbn [Nat.sub nth]. destruct (below x r); [reflexivity|discriminate].
  - specialize (IH x HS'). rewrite Ek in IH. specialize (IH ltac:(discriminate)).
    replace (S (S k) - 1)%nat with (S k) by lia. cbn [nth].
    replace (S k - 1)%nat with k in IH by lia.
    destruct (below x r) as [|b q] eqn:Eb; [discriminate|].
    rewrite last_opt_cons. exact IH.
Qed.

(* 2. line = 1 + number of newline offsets before pos;
      column = distance from the last newline offset before pos (pos+1 if none) *)
Theorem line_col_spec : forall lfs pos, sorted lfs ->
  line_col_at lfs pos =
  (1 + nlen (filter (fun a => a <? pos) lfs),
   match last_opt (filter (fun a => a <? pos) lfs) with
   | Some p => (Z.of_N pos - Z.of_N p)%Z
   | None => (Z.of_N pos + 1)%Z
   end).
Proof.
  intros lfs pos HS. unfold line_col_at.
  pose proof (search_ints_spec lfs pos HS) as Hj.
  pose proof (nth_pred_search lfs pos HS) as Hn.
  change (filter (fun a => a <? pos) lfs) with (below pos lfs) in *.
  unfold nlen. rewrite <- Hj.
  destruct (search_ints lfs pos) as [|k] eqn:Ej.
  - assert (Hb : below pos lfs = []) by (destruct (below pos lfs); [reflexivity|discriminate]).
    rewrite Hb. cbn [last_opt].
    destruct (0 =? length lfs)%nat; cbn [Nat.eqb Nat.ltb Nat.leb]; f_equal; lia.
  - rewrite (Hn ltac:(discriminate)).
    destruct (S k =? length lfs)%nat.
    + cbn [Nat.eqb]. f_equal. lia.
    + change (0 <? S k)%nat with true. cbn iota. f_equal. lia.
Qed.
Print Assumptions line_col_spec.

(* 3. newlines_at *)
Fixpoint nl_indices_from (s : bytes) (i : nat) : list nat :=
  match s with
  | [] => []
  | c :: r => if c =? 10 then i :: nl_indices_from r (S i) else nl_indices_from r (S i)
  end.
(* indices of the bytes equal to 10 in s, increasing *)
Definition nl_indices (s : bytes) : list nat := nl_indices_from s 0.

Lemma nl_indices_from_In : forall s k i,
  In i (nl_indices_from s k) <-> (k <= i)%nat /\ nth_error s (i - k) = Some 10.
Proof.
  induction s as [|c r IH]; intros k i; cbn [nl_indices_from].
  - split; [intros []|]. intros [_ H]. destruct (i - k)%nat; discriminate.
  - destruct (c =? 10) eqn:E.
    + cbn [In]. rewrite IH. split.
      * intros [->|[H1 H2]].
        -- split; [lia|]. rewrite Nat.sub_diag. cbn. f_equal. lia.
        -- split; [lia|]. replace (i - k)%nat with (S (i - S k)) by lia. exact H2.
      * intros [H1 H2]. destruct (Nat.eq_dec k i) as [->|Hne]; [left; reflexivity|right].
        split; [lia|]. replace (i - k)%nat with (S (i - S k)) in H2 by lia. exact H2.
    + rewrite IH. split.
      * intros [H1 H2]. split; [lia|]. replace (i - k)%nat with (S (i - S k)) by lia. exact H2.
      * intros [H1 H2]. destruct (Nat.eq_dec k i) as [->|Hne].
        -- rewrite Nat.sub_diag in H2. cbn in H2. injection H2 as H2. lia.
        -- split; [lia|]. replace (i - k)%nat with (S (i - S k)) in H2 by lia. exact H2.
Qed.

Lemma nl_indices_In : forall s i, In i (nl_indices s) <-> nth_error s i = Some 10.
Proof.
  intros. unfold nl_indices. rewrite nl_indices_from_In, Nat.sub_0_r.
  split; [tauto|]. split; [lia|assumption].
Qed.

Lemma nl_indices_from_sorted : forall s k,
  StronglySorted lt (nl_indices_from s k) /\ Forall (fun i => (k <= i)%nat) (nl_indices_from s k).
Proof.
  induction s as [|c r IH]; intros k; cbn [nl_indices_from]; [split; constructor|].
  destruct (IH (S k)) as [H1 H2].
  assert (H3 : Forall (fun i => (k < i)%nat) (nl_indices_from r (S k))).
  { eapply Forall_impl; [|exact H2]. cbn. intros; lia. }
  destruct (c =? 10).
  - split; constructor; auto. eapply Forall_impl; [|exact H2]. cbn. intros; lia.
  - split; auto. eapply Forall_impl; [|exact H2]. cbn. intros; lia.
Qed.

Lemma nl_indices_sorted : forall s, StronglySorted lt (nl_indices s).
Proof. intros. apply nl_indices_from_sorted. Qed.

Lemma newlines_at_from : forall s off k,
  newlines_at s (off + N.of_nat k) = map (fun i => off + N.of_nat i) (nl_indices_from s k).
Proof.
  induction s as [|c r IH]; intros off k; cbn [newlines_at nl_indices_from]; [reflexivity|].
  replace (off + N.of_nat k + 1) with (off + N.of_nat (S k)) by lia.
  destruct (c =? 10); cbn [map]; rewrite IH; reflexivity.
Qed.

Theorem newlines_at_spec : forall s off,
  newlines_at s off = map (fun i => off + N.of_nat i) (nl_indices s).
Proof.
  intros. unfold nl_indices. rewrite <- newlines_at_from. f_equal. lia.
Qed.
Print Assumptions newlines_at_spec.

Lemma newlines_at_bounds : forall s off,
  Forall (fun x => off <= x /\ x < off + nlen s) (newlines_at s off).
Proof.
  induction s as [|c r IH]; intros off; cbn [newlines_at]; [constructor|].
  assert (H : Forall (fun x => off <= x /\ x < off + nlen (c :: r)) (newlines_at r (off + 1))).
  { eapply Forall_impl; [|apply IH]. unfold nlen. cbn [length]. intros; lia. }
  destruct (c =? 10); [constructor|]; auto. unfold nlen; cbn [length]; lia.
Qed.

(* strictly increasing, all >= off *)
Theorem newlines_at_sorted : forall s off,
  StronglySorted N.lt (newlines_at s off) /\ Forall (fun x => off <= x) (newlines_at s off).
Proof.
  induction s as [|c r IH]; intros off; cbn [newlines_at]; [split; constructor|].
  destruct (IH (off + 1)) as [H1 H2].
  destruct (c =? 10).
  - split; constructor; try lia; auto.
    + eapply Forall_impl; [|exact H2]. cbn. intros; lia.
    + eapply Forall_impl; [|exact H2]. cbn. intros; lia.
  - split; auto. eapply Forall_impl; [|exact H2]. cbn. intros; lia.
Qed.
Print Assumptions newlines_at_sorted.

Lemma newlines_at_sorted_le : forall s off, sorted (newlines_at s off).
Proof. intros. apply ssorted_lt_le, newlines_at_sorted. Qed.

Theorem newlines_at_app : forall s t off,
  newlines_at (s ++ t) off = newlines_at s off ++ newlines_at t (off + nlen s).
Proof.
  induction s as [|c r IH]; intros t off; cbn [app newlines_at].
  - f_equal. unfold nlen. cbn. lia.
  - rewrite IH. replace (off + 1 + nlen r) with (off + nlen (c :: r)) by (unfold nlen; cbn [length]; lia).
    destruct (c =? 10); reflexivity.
Qed.
Print Assumptions newlines_at_app.

(* 4. entries at or after pos do not matter *)
Theorem line_col_ignores_later : forall l later pos,
  sorted (l ++ later) -> (forall x, In x later -> pos <= x) ->
  line_col_at (l ++ later) pos = line_col_at l pos.
Proof.
  intros l later pos HS Hl.
  rewrite (line_col_spec _ _ HS), (line_col_spec _ _ (sorted_app_l _ _ HS)).
  change (filter (fun a => a <? pos)) with (below pos).
  rewrite below_app, (below_all_ge pos later), app_nil_r; [reflexivity|].
  apply Forall_forall. exact Hl.
Qed.
Print Assumptions line_col_ignores_later.
