(* T1Expr.v: theorem T1 for expressions: running the code of an expression = AstSem.eval. *)
From RecordUpdate Require Import RecordSet.
From Coq Require Import Lia ZifyN ZifyNat ZifyBool.
From BCL Require Import Model.Api Model.Compile Spec.AstSem Proofs.VmSpecProofs Proofs.EncodingProofs
  Proofs.T1Code Proofs.T1Vm.
Import RecordSetNotations.
Open Scope N_scope.

(* ---------------------------------------------------------------------------------------- *)
(* the message of a run-time error (= show_rerr of Extract/Suites.v)                         *)
(* ---------------------------------------------------------------------------------------- *)
Definition msg_of (e : rerr) : bytes :=
  match e with
  | XTypes op a b => op ++ bs ": invalid types: " ++ vtype a ++ bs ", " ++ vtype b
  | XType1 op a => op ++ bs ": invalid type: " ++ vtype a ++ bs ", expected number"
  | XDivZero => bs "division by int zero"
  | XNegRepeat => bs "MUL: negative repeat count"
  | XExcluded => bs "EXCLUDED"
  | XUnresolved x => bs "identifier '" ++ x ++ bs "' not resolved as var or field"
  | XDupChild k => bs "child " ++ k ++ bs " duplicate at parent"
  | XBindNone t => bs "bind: no blocks of type " ++ t
  | XBindCount n t => bs "bind: found " ++ dec_of_N n ++ bs " blocks of type " ++ t ++ bs " but expected just 1"
  | XStatic => bs "STATIC"
  end.

Definition err_res (e : rerr) (r : vres) : Prop :=
  match e with
  | XExcluded => r = VPanic PExcluded
  | XStatic => False
  | _ => exists pos, r = VErr pos (msg_of e)
  end.

(* ---------------------------------------------------------------------------------------- *)
(* environments as flat lists                                                                *)
(* ---------------------------------------------------------------------------------------- *)
Definition blk (b : oblock) : value := VBlock (ob_typ b) (ob_name b) (ob_fields b).
Definition flat (en : env) : list (bytes * value) := @concat (bytes * value) (scopes en).
Definition vals (en : env) : list value := map snd (flat en).
Definition names (en : env) : list (list bytes) := map (map fst) (scopes en).

Lemma concat_names (scs : list (list (bytes * value))) : concat (map (map fst) scs) = map fst (concat scs).
Proof. rewrite concat_map. reflexivity. Qed.

Lemma fields_get_app x a b :
  fields_get x (a ++ b) = match fields_get x a with Some v => Some v | None => fields_get x b end.
Proof.
  induction a as [|[k w] a IH]; cbn [app fields_get]; [reflexivity|]. destruct (bytes_eqb x k); [reflexivity|exact IH].
Qed.

Lemma lookup_frames_flat x scs : lookup_frames x scs = fields_get x (concat scs).
Proof.
  induction scs as [|f r IH]; cbn [lookup_frames concat]; [reflexivity|].
  rewrite fields_get_app, IH. reflexivity.
Qed.

Lemma fields_set_app_in x v a b w :
  fields_get x a = Some w -> fields_set x v (a ++ b) = fields_set x v a ++ b.
Proof.
  induction a as [|[k u] a IH]; cbn [app fields_get fields_set]; [discriminate|].
  destruct (bytes_eqb x k); [reflexivity|]. intros H. rewrite IH by exact H. reflexivity.
Qed.
Lemma fields_set_app_notin x v a b :
  fields_get x a = None -> fields_set x v (a ++ b) = a ++ fields_set x v b.
Proof.
  induction a as [|[k u] a IH]; cbn [app fields_get fields_set]; [reflexivity|].
  destruct (bytes_eqb x k); [discriminate|]. intros H. rewrite IH by exact H. reflexivity.
Qed.
Lemma fields_set_fst_in x v a w : fields_get x a = Some w -> map fst (fields_set x v a) = map fst a.
Proof.
  induction a as [|[k u] a IH]; cbn [fields_get fields_set map fst]; [discriminate|].
  destruct (bytes_eqb x k) eqn:E.
  - intros _. cbn [map fst]. apply bytes_eqb_true in E. subst. reflexivity.
  - intros H. cbn [map fst]. rewrite IH by exact H. reflexivity.
Qed.

Lemma assign_frames_flat x v scs :
  match fields_get x (concat scs) with
  | Some _ => exists scs', assign_frames x v scs = Some scs' /\ concat scs' = fields_set x v (concat scs) /\
                           map (map fst) scs' = map (map fst) scs
  | None => assign_frames x v scs = None
  end.
Proof.
  induction scs as [|f r IH]; cbn [assign_frames concat fields_get]; [reflexivity|].
  rewrite fields_get_app. destruct (fields_get x f) as [w|] eqn:E.
  - eexists. split; [reflexivity|]. cbn [concat map]. split.
    + symmetry. eapply fields_set_app_in. exact E.
    + f_equal. eapply fields_set_fst_in. exact E.
  - destruct (fields_get x (concat r)) as [w|].
    + destruct IH as (r' & A & B & C). rewrite A. eexists. split; [reflexivity|]. cbn [concat map]. split.
      * rewrite B. symmetry. apply fields_set_app_notin. exact E.
      * rewrite C. reflexivity.
    + rewrite IH. reflexivity.
Qed.

(* the compiler's resolveLocal on a table of initialised locals *)
Fixpoint rl (l : list bytes) (n : N) (x : bytes) : option N :=
  match l with
  | [] => None
  | nm :: r => if bytes_eqb x nm then Some (n - 1) else rl r (n - 1) x
  end.

Lemma rl_spec x fl : forall n, nlen fl <= n ->
  match rl (map fst fl) n x with
  | Some idx => exists i w, (i < length fl)%nat /\ idx = n - 1 - N.of_nat i /\
                 fields_get x fl = Some w /\ nth_opt (map snd fl) i = Some w /\
                 forall v, map snd (fields_set x v fl) = set_nth (map snd fl) i v
  | None => fields_get x fl = None
  end.
Proof.
  induction fl as [|[k w] fl IH]; intros n Hn; cbn [map fst rl fields_get]; [reflexivity|].
  destruct (bytes_eqb x k) eqn:E.
  - exists 0%nat, w. cbn [length]. split; [lia|]. split; [lia|]. split; [reflexivity|]. split; [reflexivity|].
    intros v. cbn [fields_set]. rewrite E. reflexivity.
  - rewrite nlen_cons' in Hn. specialize (IH (n - 1)). destruct (rl (map fst fl) (n - 1) x) as [idx|].
    + destruct IH as (i & u & A & B & C & D & F); [lia|]. exists (S i), u. cbn [length]. split; [lia|]. split; [lia|].
      split; [exact C|]. split; [exact D|]. intros v. cbn [fields_set]. rewrite E. cbn [map snd set_nth]. rewrite F. reflexivity.
    + apply IH. lia.
Qed.

Lemma set_nth_app_r {A} (a b : list A) i v : set_nth (a ++ b) (length a + i) v = a ++ set_nth b i v.
Proof. induction a as [|x a IH]; cbn [app length Nat.add set_nth]; [reflexivity|]. rewrite IH. reflexivity. Qed.

(* ---------------------------------------------------------------------------------------- *)
(* what evaluation leaves alone                                                              *)
(* ---------------------------------------------------------------------------------------- *)
Definition shape (en en' : env) : Prop :=
  names en' = names en /\ length (oblocks en') = length (oblocks en) /\ results en' = results en /\
  binding_ en' = binding_ en /\ output en' = output en /\ warnings en' = warnings en.

Lemma shape_refl en : shape en en. Proof. repeat split. Qed.
Lemma shape_trans a b c : shape a b -> shape b c -> shape a c.
Proof. intros (A1 & A2 & A3 & A4 & A5 & A6) (B1 & B2 & B3 & B4 & B5 & B6). repeat split; congruence. Qed.

Lemma eval_shape : forall e en, shape en (snd (eval e en)).
Proof.
  induction e as [v|x|x e IH|o a IHa b IHb|a IHa b IHb|a IHa b IHb|a IH|a IH|a IH]; intros en; cbn [eval].
  - apply shape_refl.
  - destruct (lookup_frames x (scopes en)); [apply shape_refl|]. destruct (oblocks en); [apply shape_refl|].
    destruct (is_lit x "TYPE"); [apply shape_refl|]. destruct (is_lit x "NAME"); [apply shape_refl|].
    destruct (field_find x (o :: l)); apply shape_refl.
  - assert (G : shape en (snd (match eval e en with
       | (ROk v, en1) =>
         match assign_frames x v (scopes en1) with
         | Some s' => (ROk v, set_scopes en1 s')
         | None => match oblocks en1 with
                   | b :: up => (ROk v, set_oblocks en1 ({| ob_typ := ob_typ b; ob_name := ob_name b;
                                                           ob_fields := fields_set x v (ob_fields b) |} :: up))
                   | [] => (RErr XStatic, en1) end
         end
       | other => other end))).
    { specialize (IH en). destruct (eval e en) as [[v|err] en1]; cbn [snd] in *; [|exact IH].
      pose proof (assign_frames_flat x v (scopes en1)) as AF.
      destruct (fields_get x (concat (scopes en1))).
      - destruct AF as (s' & A & B & C). rewrite A. cbn [snd]. eapply shape_trans; [exact IH|].
        unfold shape, names, set_scopes. cbn [scopes oblocks results binding_ output warnings]. repeat split. exact C.
      - rewrite AF. destruct (oblocks en1) as [|b up] eqn:Eo; cbn [snd]; [exact IH|].
        eapply shape_trans; [exact IH|]. unfold shape, names, set_oblocks. cbn [scopes oblocks results binding_ output warnings].
        rewrite Eo. repeat split. }
    destruct (lookup_frames x (scopes en)); [exact G|]. destruct (oblocks en); [apply shape_refl | exact G].
  - specialize (IHa en). destruct (eval a en) as [[va|err] en1]; cbn [snd] in *; [|exact IHa].
    specialize (IHb en1). destruct (eval b en1) as [[vb|err] en2]; cbn [snd] in *; eapply shape_trans; eassumption.
  - specialize (IHa en). destruct (eval a en) as [[va|err] en1]; cbn [snd] in *; [|exact IHa].
    destruct (falsey va); [exact IHa|]. eapply shape_trans; [exact IHa | apply IHb].
  - specialize (IHa en). destruct (eval a en) as [[va|err] en1]; cbn [snd] in *; [|exact IHa].
    destruct (falsey va); [|exact IHa]. eapply shape_trans; [exact IHa | apply IHb].
  - specialize (IH en). destruct (eval a en) as [[va|err] en1]; cbn [snd] in *; exact IH.
  - specialize (IH en). destruct (eval a en) as [[va|err] en1]; cbn [snd] in *; exact IH.
  - specialize (IH en). destruct (eval a en) as [[va|err] en1]; cbn [snd] in *; exact IH.
Qed.

(* ---------------------------------------------------------------------------------------- *)
(* the simulation relation                                                                   *)
(* ---------------------------------------------------------------------------------------- *)
Definition bind_rel (b : option sel_res) (v : binding) : Prop :=
  match b, v with
  | None, BNone => True
  | Some (SStruct x), BStruct y => x = y
  | Some (SSlice x), BSlice y => x = y
  | _, _ => False
  end.

Definition ObsR (en : env) (c : core) : Prop :=
  c_result c = results en /\ bind_rel (binding_ en) (c_bind c) /\
  c_out c = map (fun l => (OPrint, l)) (output en) /\ nlen (c_warn c) = warnings en.
Definition CoreR (en : env) (c : core) : Prop :=
  c_bstack c = map blk (oblocks en) /\ c_btos c = nlen (oblocks en) /\ ObsR en c.

Lemma ObsR_shape en en' c : shape en en' -> ObsR en c -> ObsR en' c.
Proof.
  intros (_ & _ & A & B & C & D) (O1 & O2 & O3 & O4). unfold ObsR. rewrite A, B, C, D. repeat split; assumption.
Qed.

Lemma flat_len en en' : names en' = names en -> nlen (flat en') = nlen (flat en).
Proof.
  unfold names, flat, nlen. intros H. f_equal.
  rewrite <- (map_length fst (concat (scopes en'))), <- (map_length fst (concat (scopes en))), <- !concat_names, H.
  reflexivity.
Qed.

Definition ER (s : pst) (en : env) : Prop :=
  (forall x, resolve_local (locals s) (nlocals s) x = rl (concat (names en)) (nlen (flat en)) x) /\
  depth s = Z.of_nat (length (oblocks en)) /\ nlen (flat en) <= 1024.

Lemma ER_extl s s' fr en en' : extl s s' fr -> shape en en' -> ER s en -> ER s' en'.
Proof.
  intros [_ (L1 & L2 & L3)] (S1 & S2 & _) (A & B & C). unfold ER. rewrite L1, L2, L3, S1, S2, (flat_len _ _ S1).
  repeat split; assumption.
Qed.

Lemma resolve_some s en x idx (temps : list value) :
  ER s en -> resolve_local (locals s) (nlocals s) x = Some idx ->
  exists i w, idx < nlen (flat en) /\ idx < 2^64 /\ fields_get x (flat en) = Some w /\
    N.to_nat (nlen (temps ++ vals en) - 1 - idx) = (length temps + i)%nat /\
    nth_opt (vals en) i = Some w /\
    forall v, map snd (fields_set x v (flat en)) = set_nth (vals en) i v.
Proof.
  intros (A & _ & C) R. rewrite A in R. unfold names in R. rewrite concat_names in R. fold (flat en) in R.
  pose proof (rl_spec x (flat en) (nlen (flat en)) (N.le_refl _)) as S. rewrite R in S.
  destruct S as (i & w & S1 & S2 & S3 & S4 & S5). exists i, w.
  unfold vals. rewrite nlen_app. unfold nlen in *. rewrite map_length.
  repeat split; try assumption; try lia.
Qed.

Lemma resolve_none s en x :
  ER s en -> resolve_local (locals s) (nlocals s) x = None -> fields_get x (flat en) = None.
Proof.
  intros (A & _ & C) R. rewrite A in R. unfold names in R. rewrite concat_names in R. fold (flat en) in R.
  pose proof (rl_spec x (flat en) (nlen (flat en)) (N.le_refl _)) as S. rewrite R in S. exact S.
Qed.

Lemma block_find_map x obs : block_find x (map blk obs) = field_find x obs.
Proof.
  induction obs as [|b r IH]; cbn [map block_find field_find blk]; [reflexivity|].
  destruct (fields_get x (ob_fields b)); [reflexivity|exact IH].
Qed.

Section Sim.
Variable g : prog.
Hypothesis HK : nlen (g_consts g) < 2^64.

Definition cext (s : pst) : Prop := exists post, g_consts g = rev (consts s) ++ post.

Lemma cext_back s s' : cgrow s s' -> cext s' -> cext s.
Proof.
  intros [a A] [post P]. exists (rev a ++ post). rewrite P, A, rev_app_distr, <- app_assoc. reflexivity.
Qed.
Lemma cext_extl s s' fr : extl s s' fr -> cext s' -> cext s.
Proof. intros E. apply cext_back. eapply extl_cgrow. exact E. Qed.
Lemma cext_same s s' : consts s' = consts s -> cext s' -> cext s.
Proof. intros E [post P]. exists post. rewrite <- E. exact P. Qed.

Lemma get_const_ext s i v :
  cext s -> nth_opt (rev (consts s)) (N.to_nat i) = Some v -> get_const g i = Some v /\ i < 2^64.
Proof.
  intros [post P] H. pose proof (nth_opt_lt _ _ _ H) as L.
  assert (Hi : i < nlen (g_consts g)). { rewrite P. unfold nlen. rewrite app_length. lia. }
  split; [|lia]. unfold get_const.
  replace (i <? nlen (g_consts g)) with true by (symmetry; apply N.ltb_lt; exact Hi).
  rewrite P. apply nth_opt_app_l. exact H.
Qed.

Definition Abort (m : vm) (e : rerr) (en' : env) : Prop :=
  exists mf r, aborts g m mf r /\ (limit r \/ (err_res e r /\ ObsR en' (core_of mf))).

Definition Outcome (m : vm) (p' : N) (temps : list value) (r : res value * env) : Prop :=
  match r with
  | (ROk v, en') =>
    (exists m' c', runs g m m' /\ vstate g m' p' (v :: temps ++ vals en') c' /\ CoreR en' c') \/ Limit g m
  | (RErr err, en') => Abort m err en'
  end.

Lemma Abort_limit m e en' : Limit g m -> Abort m e en'.
Proof. intros (mf & r & A & B). exists mf, r. split; [exact A | left; exact B]. Qed.
Lemma Abort_runs m m1 e en' : runs g m m1 -> Abort m1 e en' -> Abort m e en'.
Proof. intros R (mf & r & A & B). exists mf, r. split; [eapply aborts_runs; eassumption | exact B]. Qed.
Lemma Outcome_limit m p' temps r : Limit g m -> Outcome m p' temps r.
Proof. intros L. destruct r as [[v|e] en']; cbn; [right; exact L | apply Abort_limit; exact L]. Qed.
Lemma Outcome_runs m m1 p' temps r : runs g m m1 -> Outcome m1 p' temps r -> Outcome m p' temps r.
Proof.
  intros R. destruct r as [[v|e] en']; cbn.
  - intros [(m' & c' & A & B)|L].
    + left. exists m', c'. split; [eapply runs_trans; eassumption | exact B].
    + right. eapply Limit_runs; eassumption.
  - apply Abort_runs. exact R.
Qed.
Lemma Outcome_ok m p' temps v en' m' c' :
  runs g m m' -> vstate g m' p' (v :: temps ++ vals en') c' -> CoreR en' c' -> Outcome m p' temps (ROk v, en').
Proof. intros A B C. left. exists m', c'. split; [exact A|]. split; [exact B | exact C]. Qed.

Definition SimP (e : expr) : Prop :=
  forall s fr en temps m c,
    wfs s -> hadError (cexpr e s) = false -> emits s (cexpr e s) fr -> frag_at g (ncode s) fr ->
    cext (cexpr e s) -> ER s en -> vstate g m (ncode s) (temps ++ vals en) c -> CoreR en c ->
    Outcome m (ncode s + nlen fr) temps (eval e en).

(* ---- literals ---- *)
Lemma sim_push op v s fr en temps m c : In (op, v) push_ops ->
  emits s (emit_op op s) fr -> frag_at g (ncode s) fr -> vstate g m (ncode s) (temps ++ vals en) c -> CoreR en c ->
  Outcome m (ncode s + nlen fr) temps (ROk v, en).
Proof.
  intros Hin Em Ff St Cr.
  destruct (estep_emit_op op s) as (E & _). rewrite (emits_inj _ _ _ _ Em E) in *.
  destruct (i_push g op v m _ _ c Hin St Ff) as [(m' & R & S)|L].
  - eapply Outcome_ok; eassumption.
  - right. exact L.
Qed.

Lemma sim_const v s fr en temps m c :
  wfs s -> emits s (emit_const v s) fr -> frag_at g (ncode s) fr -> cext (emit_const v s) ->
  vstate g m (ncode s) (temps ++ vals en) c -> CoreR en c ->
  Outcome m (ncode s + nlen fr) temps (ROk v, en).
Proof.
  intros W Em Ff Cx St Cr.
  destruct (emit_const_extl v s) as [E N]. specialize (N W).
  rewrite (emits_inj _ _ _ _ Em (extl_emits _ _ _ E)) in *.
  destruct (get_const_ext _ _ _ Cx N) as [G B].
  destruct (i_const g m _ _ c _ v St Ff B G) as [(m' & R & S)|L].
  - eapply Outcome_ok; try eassumption.
    replace (ncode s + nlen (opCONST :: uv_enc (fst (make_const v s)))) with (ncode s + 1 + nlen (uv_enc (fst (make_const v s))))
      by (rewrite nlen_cons'; lia). exact S.
  - right. exact L.
Qed.

Lemma sim_lit v : SimP (ELit v).
Proof.
  intros s fr en temps m c W H Em Ff Cx Er St Cr. cbn [eval cexpr] in *.
  assert (G : clit v s = emit_const v s -> Outcome m (ncode s + nlen fr) temps (ROk v, en)).
  { intros E. rewrite E in *. eapply sim_const; eassumption. }
  unfold clit in *.
  destruct v as [ |[|]|z| | | ]; try (apply G; reflexivity).
  - eapply (sim_push opNIL VNil); try eassumption. cbn; tauto.
  - eapply (sim_push opTRUE (VBool true)); try eassumption. cbn; tauto.
  - eapply (sim_push opFALSE (VBool false)); try eassumption. cbn; tauto.
  - destruct z as [|[p|p|]|]; try (apply G; reflexivity).
    + eapply (sim_push opZERO (VInt 0)); try eassumption. cbn; tauto.
    + eapply (sim_push opONE (VInt 1)); try eassumption. cbn; tauto.
Qed.

(* ---- identifiers ---- *)
Lemma depth_nonzero s en : ER s en -> (depth s =? 0)%Z = false -> exists b up, oblocks en = b :: up.
Proof.
  intros (_ & D & _) H. apply Z.eqb_neq in H. destruct (oblocks en) as [|b up]; [cbn in D; lia|eauto].
Qed.

Lemma sim_id x : SimP (EId x).
Proof.
  intros s fr en temps m c W H Em Ff Cx Er St Cr. cbn [eval cexpr] in *.
  rewrite lookup_frames_flat. fold (flat en).
  destruct (resolve_local (locals s) (nlocals s) x) as [idx|] eqn:R.
  - destruct (resolve_some s en x idx temps Er R) as (i & w & A1 & A2 & A3 & A4 & A5 & _).
    rewrite A3.
    assert (E : estep s (emit_uvarint idx (emit_op opGETLOCAL s)) ([opGETLOCAL] ++ uv_enc idx))
      by (eapply estep_trans; [apply estep_emit_op | apply estep_emit_uvarint]).
    destruct E as (E & _). rewrite (emits_inj _ _ _ _ Em E) in *. cbn [app] in *.
    destruct (i_getlocal g m _ _ c idx w St Ff) as [(m' & Rn & S)|L].
    + rewrite nlen_app. unfold vals, nlen in *. rewrite map_length. lia.
    + exact A2.
    + rewrite A4. rewrite nth_opt_app_r. exact A5.
    + eapply Outcome_ok; try eassumption.
      replace (ncode s + nlen (opGETLOCAL :: uv_enc idx)) with (ncode s + 1 + nlen (uv_enc idx)) by (rewrite nlen_cons'; lia).
      exact S.
    + right. exact L.
  - rewrite (resolve_none s en x Er R).
    destruct (depth s =? 0)%Z eqn:D; [rewrite perr_err in H; discriminate H|].
    destruct (depth_nonzero s en Er D) as (b & up & Eo). rewrite Eo.
    destruct (ident_const_spec x s) as [A B]. specialize (B W).
    destruct (ident_const x s) as [idx s1]. cbn [fst snd] in *.
    assert (E : estep s1 (emit_uvarint idx (emit_op opGETFIELD s1)) ([opGETFIELD] ++ uv_enc idx))
      by (eapply estep_trans; [apply estep_emit_op | apply estep_emit_uvarint]).
    pose proof (extl_trans _ _ _ _ _ (extl_cstep _ _ A) (extl_estep _ _ _ E)) as F. cbn [app] in F.
    rewrite (emits_inj _ _ _ _ Em (extl_emits _ _ _ F)) in *.
    destruct E as (_ & Ec & _).
    destruct (get_const_ext s1 idx (VStr x) (cext_same _ _ Ec Cx) B) as [G Bd].
    destruct Cr as (C1 & C2 & C3). rewrite Eo in C1. cbn [map blk] in C1.
    pose proof (i_getfield g m _ _ c idx x _ _ _ _ St Ff Bd G C1) as I.
    rewrite C1 in I. unfold lookup_field, blk at 1 in I.
    change (blk b :: map blk up) with (map blk (b :: up)) in I.
    rewrite block_find_map in I.
    replace (ncode s + nlen (opGETFIELD :: uv_enc idx)) with (ncode s + 1 + nlen (uv_enc idx)) by (rewrite nlen_cons'; lia).
    assert (Cr : CoreR en c) by (split; [rewrite Eo; exact C1 | split; assumption]).
    destruct (is_lit x "TYPE").
    { destruct I as [(m' & Rn & S)|L]; [eapply Outcome_ok; eassumption | right; exact L]. }
    destruct (is_lit x "NAME").
    { destruct I as [(m' & Rn & S)|L]; [eapply Outcome_ok; eassumption | right; exact L]. }
    destruct (field_find x (b :: up)) as [v|].
    { destruct I as [(m' & Rn & S)|L]; [eapply Outcome_ok; eassumption | right; exact L]. }
    destruct I as [(mf & pos & Ab & Co)|L]; [|apply Abort_limit; exact L].
    exists mf, (VErr pos (bs "identifier '" ++ x ++ bs "' not resolved as var or field")).
    split; [exact Ab|]. right. split; [exists pos; reflexivity|]. rewrite Co. exact C3.
Qed.


Lemma vstate_pos m p p' stk c : vstate g m p stk c -> p = p' -> vstate g m p' stk c.
Proof. intros H <-. exact H. Qed.

(* ---- unary operators ---- *)
Definition uerr (uo : uop) (v : value) : rerr :=
  match uo with UNeg => XType1 (bs "NEG") v | UPlus => XType1 (bs "UNPLUS") v | UNot => XStatic end.

Lemma CoreR_Obs en c : CoreR en c -> ObsR en c.
Proof. intros (_ & _ & H). exact H. Qed.

Lemma sim_un a uo (IH : SimP a) s fr en temps m c :
  wfs s -> hadError (emit_op (uinstr_of uo) (cexpr a s)) = false ->
  emits s (emit_op (uinstr_of uo) (cexpr a s)) fr -> frag_at g (ncode s) fr ->
  cext (emit_op (uinstr_of uo) (cexpr a s)) -> ER s en -> vstate g m (ncode s) (temps ++ vals en) c -> CoreR en c ->
  Outcome m (ncode s + nlen fr) temps
    (match eval a en with
     | (ROk v, en1) => (match Sem.unop uo v with RVal r => ROk r | _ => RErr (uerr uo v) end, en1)
     | other => other
     end).
Proof.
  intros W H Em Ff Cx Er St Cr.
  pose proof (extl_estep _ _ _ (estep_emit_op (uinstr_of uo) (cexpr a s))) as E1.
  assert (Ha : hadError (cexpr a s) = false) by (eapply extl_noerr; eassumption).
  destruct (cexpr_extl a s Ha) as [fa Fa].
  rewrite (emits_inj _ _ _ _ Em (extl_emits _ _ _ (extl_trans _ _ _ _ _ Fa E1))) in *.
  destruct (frag_at_app g _ _ _ Ff) as [Ffa Fop].
  pose proof (IH s fa en temps m c W Ha (extl_emits _ _ _ Fa) Ffa (cext_extl _ _ _ E1 Cx) Er St Cr) as O.
  destruct (eval a en) as [[v|err] en1]; [|exact O].
  destruct O as [(m1 & c1 & R1 & S1 & C1)|L]; [|apply Outcome_limit; exact L].
  pose proof (i_unop g m1 _ v _ c1 uo S1 Fop) as I.
  destruct (unop_shape uo v) as [[r U]|[U Hn]]; rewrite U in *.
  - destruct I as (m' & R & S). eapply Outcome_runs; [exact R1|]. eapply Outcome_ok; [exact R | | exact C1].
    rewrite nlen_app. change (nlen [uinstr_of uo]) with 1. rewrite N.add_assoc. exact S.
  - destruct I as (mf & pos & Ab & Co). eapply Abort_runs; [exact R1|].
    exists mf, (VErr pos (unop_msg uo v)). split; [exact Ab|]. right. split.
    + destruct uo; try (exists pos; reflexivity). congruence.
    + rewrite Co. apply CoreR_Obs. exact C1.
Qed.

Lemma sim_not a : SimP a -> SimP (ENot a).
Proof.
  intros IH s fr en temps m c W H Em Ff Cx Er St Cr.
  pose proof (sim_un a UNot IH s fr en temps m c W H Em Ff Cx Er St Cr) as O.
  cbn [eval]. destruct (eval a en) as [[v|err] en1]; exact O.
Qed.
Lemma sim_neg a : SimP a -> SimP (ENeg a).
Proof.
  intros IH s fr en temps m c W H Em Ff Cx Er St Cr.
  pose proof (sim_un a UNeg IH s fr en temps m c W H Em Ff Cx Er St Cr) as O.
  cbn [eval]. destruct (eval a en) as [[v|err] en1]; exact O.
Qed.
Lemma sim_pos a : SimP a -> SimP (EPos a).
Proof.
  intros IH s fr en temps m c W H Em Ff Cx Er St Cr.
  pose proof (sim_un a UPlus IH s fr en temps m c W H Em Ff Cx Er St Cr) as O.
  cbn [eval]. destruct (eval a en) as [[v|err] en1]; exact O.
Qed.

(* ---- binary operators ---- *)
Definition bin_dec (o : bino) : bop * bool :=
  match o with
  | OAdd => (BAdd, false) | OSub => (BSub, false) | OMul => (BMul, false) | ODiv => (BDiv, false)
  | OEq => (BEq, false) | ONe => (BEq, true) | OLt => (BLt, false) | OLe => (BGt, true)
  | OGt => (BGt, false) | OGe => (BLt, true)
  end.
Lemma ops_of_dec o : ops_of o = instr_of (fst (bin_dec o)) :: (if snd (bin_dec o) then [opNOT] else []).
Proof. destruct o; reflexivity. Qed.
Lemma apply_binop_dec o a b :
  apply_binop o a b = match lift_binop (fst (bin_dec o)) a b with
                      | ROk v => ROk (if snd (bin_dec o) then vnot v else v)
                      | RErr e => RErr e
                      end.
Proof. destruct o; cbn [apply_binop bin_dec fst snd]; destruct (lift_binop _ a b); reflexivity. Qed.
Lemma invalid_types_msg bo a b : invalid_types (instr_of bo) a b = msg_of (XTypes (bop_name bo) a b).
Proof. destruct bo; reflexivity. Qed.

Lemma sim_bin o a b : SimP a -> SimP b -> SimP (EBin o a b).
Proof.
  intros IHa IHb s fr en temps m c W H Em Ff Cx Er St Cr. cbn [eval cexpr] in *.
  pose proof (extl_estep _ _ _ (estep_emit_ops (ops_of o) (cexpr b (cexpr a s)))) as E3.
  assert (Hb : hadError (cexpr b (cexpr a s)) = false) by (eapply extl_noerr; eassumption).
  destruct (cexpr_extl b _ Hb) as [fb Fb].
  assert (Ha : hadError (cexpr a s) = false) by (eapply extl_noerr; eassumption).
  destruct (cexpr_extl a s Ha) as [fa Fa].
  rewrite (emits_inj _ _ _ _ Em (extl_emits _ _ _ (extl_trans _ _ _ _ _ Fa (extl_trans _ _ _ _ _ Fb E3)))) in *.
  destruct (frag_at_app g _ _ _ Ff) as [Ffa Ff2]. destruct (frag_at_app g _ _ _ Ff2) as [Ffb Fop].
  pose proof (cext_extl _ _ _ E3 Cx) as Cxb. pose proof (cext_extl _ _ _ Fb Cxb) as Cxa.
  pose proof (IHa s fa en temps m c W Ha (extl_emits _ _ _ Fa) Ffa Cxa Er St Cr) as Oa.
  pose proof (eval_shape a en) as Sa.
  destruct (eval a en) as [[va|err] en1]; [|exact Oa]. cbn [snd] in Sa.
  destruct Oa as [(m1 & c1 & R1 & S1 & C1)|L]; [|apply Outcome_limit; exact L].
  eapply Outcome_runs; [exact R1|].
  pose proof (extl_ncode _ _ _ Fa) as Na. rewrite <- Na in Ffb, Fop, S1.
  pose proof (IHb (cexpr a s) fb en1 (va :: temps) m1 c1 (extl_wfs _ _ _ Fa W) Hb (extl_emits _ _ _ Fb) Ffb Cxb
                  (ER_extl _ _ _ _ _ Fa Sa Er) S1 C1) as Ob.
  destruct (eval b en1) as [[vb|err] en2]; [|exact Ob].
  destruct Ob as [(m2 & c2 & R2 & S2 & C2)|L]; [|apply Outcome_limit; exact L].
  eapply Outcome_runs; [exact R2|].
  pose proof (extl_ncode _ _ _ Fb) as Nb. rewrite <- Nb in Fop, S2.
  rewrite apply_binop_dec. rewrite ops_of_dec in *. unfold lift_binop.
  set (bo := fst (bin_dec o)) in *. set (neg := snd (bin_dec o)) in *.
  change (instr_of bo :: (if neg then [opNOT] else [])) with ([instr_of bo] ++ (if neg then [opNOT] else [])) in Fop.
  destruct (frag_at_app g _ _ _ Fop) as [Fo1 Fo2]. change (nlen [instr_of bo]) with 1 in Fo2.
  cbn [app] in S2.
  pose proof (i_binop g m2 _ va vb _ c2 bo S2 Fo1) as I.
  pose proof (CoreR_Obs _ _ C2) as Ob2.
  destruct (Sem.binop bo va vb) as [v| | | |].
  - destruct I as (m3 & R3 & S3). eapply Outcome_runs; [exact R3|].
    destruct neg.
    + pose proof (i_unop g m3 _ v _ c2 UNot S3 Fo2) as I2. cbn [Sem.unop] in I2. destruct I2 as (m4 & R4 & S4).
      eapply Outcome_ok; [exact R4 | | exact C2].
      eapply vstate_pos; [exact S4|]. rewrite !nlen_app. change (nlen [instr_of bo; opNOT]) with 2. lia.
    + eapply Outcome_ok; [apply runs_refl | | exact C2].
      eapply vstate_pos; [exact S3|]. rewrite !nlen_app. change (nlen [instr_of bo]) with 1. lia.
  - destruct I as (mf & pos & Ab & Co). exists mf, (VErr pos (invalid_types (instr_of bo) va vb)).
    split; [exact Ab|]. right. split; [exists pos; rewrite invalid_types_msg; reflexivity | rewrite Co; exact Ob2].
  - destruct I as (mf & pos & Ab & Co). exists mf, (VErr pos (bs "division by int zero")).
    split; [exact Ab|]. right. split; [exists pos; reflexivity | rewrite Co; exact Ob2].
  - destruct I as (mf & pos & Ab & Co). exists mf, (VErr pos (bs "MUL: negative repeat count")).
    split; [exact Ab|]. right. split; [exists pos; reflexivity | rewrite Co; exact Ob2].
  - destruct I as (mf & Ab & Co). exists mf, (VPanic PExcluded).
    split; [exact Ab|]. right. split; [reflexivity | rewrite Co; exact Ob2].
Qed.


(* ---- and / or ---- *)
Lemma sim_and a b : SimP a -> SimP b -> SimP (EAnd a b).
Proof.
  intros IHa IHb s fr en temps m c W H Em Ff Cx Er St Cr.
  destruct (and_struct a b s H) as (fa & fb & Fa & F0 & Fb & Hb & Jb & F & Ec). cbv zeta in *.
  set (sa := cexpr a s) in *. set (s2 := emit_op opPOP (snd (emit_jump opJFALSE sa))) in *.
  set (sb := cexpr b s2) in *. set (J := nlen fb + 1) in *.
  rewrite (emits_inj _ _ _ _ Em (extl_emits _ _ _ F)) in *. clear Em.
  destruct (frag_at_app g _ _ _ Ff) as [Ffa Ff2].
  pose proof (extl_ncode _ _ _ Fa) as Na. rewrite <- Na in Ff2.
  change ([opJFALSE; J / 256 mod 256; J mod 256; opPOP] ++ fb)
    with ([opJFALSE; J / 256 mod 256; J mod 256] ++ [opPOP] ++ fb) in Ff2.
  destruct (frag_at_app g _ _ _ Ff2) as [Fj Ff3]. change (nlen [opJFALSE; J / 256 mod 256; J mod 256]) with 3 in Ff3.
  destruct (frag_at_app g _ _ _ Ff3) as [Fp Ffb]. change (nlen [opPOP]) with 1 in Ffb.
  pose proof (extl_ncode _ _ _ F0) as N2. change (nlen [opJFALSE; 255; 255; opPOP]) with 4 in N2.
  pose proof (cext_same _ _ Ec Cx) as Cxb.
  pose proof (cext_extl _ _ _ F0 (cext_extl _ _ _ Fb Cxb)) as Cxa.
  assert (Ha : hadError sa = false) by (eapply extl_noerr; [exact F0|]; eapply extl_noerr; [exact Fb | exact Hb]).
  pose proof (IHa s fa en temps m c W Ha (extl_emits _ _ _ Fa) Ffa Cxa Er St Cr) as Oa.
  pose proof (eval_shape a en) as Sa. cbn [eval].
  destruct (eval a en) as [[va|err] en1]; [|exact Oa]. cbn [snd] in Sa.
  destruct Oa as [(m1 & c1 & R1 & S1 & C1)|L]; [|apply Outcome_limit; exact L].
  eapply Outcome_runs; [exact R1|]. rewrite <- Na in S1.
  destruct (i_jfalse g m1 _ va _ c1 _ _ S1 Fj) as (m2 & R2 & S2).
  eapply Outcome_runs; [exact R2|].
  rewrite (u16_val _ _ J Jb eq_refl eq_refl) in S2.
  destruct (falsey va).
  - eapply Outcome_ok; [apply runs_refl | | exact C1].
    eapply vstate_pos; [exact S2|]. rewrite !nlen_app. change (nlen [opJFALSE; J / 256 mod 256; J mod 256; opPOP]) with 4.
    subst J. lia.
  - destruct (i_pop g m2 _ va _ c1 S2 Fp) as (m3 & R3 & S3). eapply Outcome_runs; [exact R3|].
    replace (ncode sa + 3 + 1) with (ncode s2) in * by lia.
    pose proof (IHb s2 fb en1 temps m3 c1 (extl_wfs _ _ _ F0 (extl_wfs _ _ _ Fa W)) Hb (extl_emits _ _ _ Fb) Ffb Cxb
                    (ER_extl _ _ _ _ _ (extl_trans _ _ _ _ _ Fa F0) Sa Er) S3 C1) as Ob.
    replace (ncode s + nlen (fa ++ [opJFALSE; J / 256 mod 256; J mod 256; opPOP] ++ fb)) with (ncode s2 + nlen fb).
    + exact Ob.
    + rewrite !nlen_app. change (nlen [opJFALSE; J / 256 mod 256; J mod 256; opPOP]) with 4. lia.
Qed.

Lemma sim_or a b : SimP a -> SimP b -> SimP (EOr a b).
Proof.
  intros IHa IHb s fr en temps m c W H Em Ff Cx Er St Cr.
  destruct (or_struct a b s H) as (fa & fb & Fa & F0 & Fb & Hb & Jb & F & Ec). cbv zeta in *.
  set (sa := cexpr a s) in *.
  set (s4 := emit_op opPOP (patch_jump (ncode sa + 1) (snd (emit_jump opJUMP (snd (emit_jump opJFALSE sa)))))) in *.
  set (sb := cexpr b s4) in *. set (J := nlen fb + 1) in *.
  rewrite (emits_inj _ _ _ _ Em (extl_emits _ _ _ F)) in *. clear Em.
  destruct (frag_at_app g _ _ _ Ff) as [Ffa Ff2].
  pose proof (extl_ncode _ _ _ Fa) as Na. rewrite <- Na in Ff2.
  change ([opJFALSE; 0; 3; opJUMP; J / 256 mod 256; J mod 256; opPOP] ++ fb)
    with ([opJFALSE; 0; 3] ++ [opJUMP; J / 256 mod 256; J mod 256] ++ [opPOP] ++ fb) in Ff2.
  destruct (frag_at_app g _ _ _ Ff2) as [Fj Ff3]. change (nlen [opJFALSE; 0; 3]) with 3 in Ff3.
  destruct (frag_at_app g _ _ _ Ff3) as [Fk Ff4]. change (nlen [opJUMP; J / 256 mod 256; J mod 256]) with 3 in Ff4.
  destruct (frag_at_app g _ _ _ Ff4) as [Fp Ffb]. change (nlen [opPOP]) with 1 in Ffb.
  pose proof (extl_ncode _ _ _ F0) as N4. change (nlen [opJFALSE; 0; 3; opJUMP; 255; 255; opPOP]) with 7 in N4.
  pose proof (cext_same _ _ Ec Cx) as Cxb.
  pose proof (cext_extl _ _ _ F0 (cext_extl _ _ _ Fb Cxb)) as Cxa.
  assert (Ha : hadError sa = false) by (eapply extl_noerr; [exact F0|]; eapply extl_noerr; [exact Fb | exact Hb]).
  pose proof (IHa s fa en temps m c W Ha (extl_emits _ _ _ Fa) Ffa Cxa Er St Cr) as Oa.
  pose proof (eval_shape a en) as Sa. cbn [eval].
  destruct (eval a en) as [[va|err] en1]; [|exact Oa]. cbn [snd] in Sa.
  destruct Oa as [(m1 & c1 & R1 & S1 & C1)|L]; [|apply Outcome_limit; exact L].
  eapply Outcome_runs; [exact R1|]. rewrite <- Na in S1.
  destruct (i_jfalse g m1 _ va _ c1 _ _ S1 Fj) as (m2 & R2 & S2).
  eapply Outcome_runs; [exact R2|]. change (0 * 256 + 3) with 3 in S2.
  destruct (falsey va).
  - destruct (i_pop g m2 _ va _ c1 S2 Fp) as (m3 & R3 & S3). eapply Outcome_runs; [exact R3|].
    replace (ncode sa + 3 + 3 + 1) with (ncode s4) in * by lia.
    pose proof (IHb s4 fb en1 temps m3 c1 (extl_wfs _ _ _ F0 (extl_wfs _ _ _ Fa W)) Hb (extl_emits _ _ _ Fb) Ffb Cxb
                    (ER_extl _ _ _ _ _ (extl_trans _ _ _ _ _ Fa F0) Sa Er) S3 C1) as Ob.
    replace (ncode s + nlen (fa ++ [opJFALSE; 0; 3; opJUMP; J / 256 mod 256; J mod 256; opPOP] ++ fb)) with (ncode s4 + nlen fb).
    + exact Ob.
    + rewrite !nlen_app. change (nlen [opJFALSE; 0; 3; opJUMP; J / 256 mod 256; J mod 256; opPOP]) with 7. lia.
  - destruct (i_jump g m2 _ _ c1 _ _ S2 Fk) as (m3 & R3 & S3). eapply Outcome_runs; [exact R3|].
    rewrite (u16_val _ _ J Jb eq_refl eq_refl) in S3.
    eapply Outcome_ok; [apply runs_refl | | exact C1].
    eapply vstate_pos; [exact S3|]. rewrite !nlen_app.
    change (nlen [opJFALSE; 0; 3; opJUMP; J / 256 mod 256; J mod 256; opPOP]) with 7. subst J. lia.
Qed.


(* ---- assignment ---- *)
Lemma CoreR_set_scopes en c scs : CoreR en c -> CoreR (set_scopes en scs) c.
Proof. exact (fun H => H). Qed.

Lemma vals_set_scopes en scs : vals (set_scopes en scs) = map snd (concat scs).
Proof. reflexivity. Qed.

Lemma sim_asg x e : SimP e -> SimP (EAsg x e).
Proof.
  intros IH s fr en temps m c W H Em Ff Cx Er St Cr. cbn [eval cexpr] in *.
  rewrite lookup_frames_flat. fold (flat en).
  destruct (resolve_local (locals s) (nlocals s) x) as [idx|] eqn:R.
  - (* a local *)
    destruct (resolve_some s en x idx temps Er R) as (i0 & w0 & _ & _ & A3 & _). rewrite A3.
    assert (E : estep (cexpr e s) (emit_uvarint idx (emit_op opSETLOCAL (cexpr e s))) ([opSETLOCAL] ++ uv_enc idx))
      by (eapply estep_trans; [apply estep_emit_op | apply estep_emit_uvarint]).
    apply extl_estep in E. cbn [app] in E.
    assert (He : hadError (cexpr e s) = false) by (eapply extl_noerr; eassumption).
    destruct (cexpr_extl e s He) as [fe Fe].
    rewrite (emits_inj _ _ _ _ Em (extl_emits _ _ _ (extl_trans _ _ _ _ _ Fe E))) in *. clear Em.
    destruct (frag_at_app g _ _ _ Ff) as [Ffe Fop].
    pose proof (extl_ncode _ _ _ Fe) as Ne. rewrite <- Ne in Fop.
    pose proof (IH s fe en temps m c W He (extl_emits _ _ _ Fe) Ffe (cext_extl _ _ _ E Cx) Er St Cr) as O.
    pose proof (eval_shape e en) as Sh.
    destruct (eval e en) as [[v|err] en1]; [|exact O]. cbn [snd] in Sh.
    destruct O as [(m1 & c1 & R1 & S1 & C1)|L]; [|apply Outcome_limit; exact L].
    eapply Outcome_runs; [exact R1|]. rewrite <- Ne in S1.
    pose proof (ER_extl _ _ _ _ _ Fe Sh Er) as Er1.
    assert (R' : resolve_local (locals (cexpr e s)) (nlocals (cexpr e s)) x = Some idx).
    { destruct (extl_lframe _ _ _ Fe) as (L1 & L2 & _). rewrite L1, L2. exact R. }
    destruct (resolve_some _ en1 x idx (v :: temps) Er1 R') as (i & w & B1 & B2 & B3 & B4 & B5 & B6).
    pose proof (assign_frames_flat x v (scopes en1)) as AF. fold (flat en1) in AF. rewrite B3 in AF.
    destruct AF as (scs' & AF1 & AF2 & AF3). rewrite AF1.
    destruct (i_setlocal g m1 _ v _ c1 idx S1 Fop) as (m2 & R2 & S2).
    + change (v :: temps ++ vals en1) with ((v :: temps) ++ vals en1). rewrite nlen_app. unfold vals, nlen in *.
      rewrite map_length. lia.
    + exact B2.
    + eapply Outcome_ok; [exact R2 | | apply CoreR_set_scopes; exact C1].
      change (v :: temps ++ vals en1) with ((v :: temps) ++ vals en1) in S2.
      rewrite B4, set_nth_app_r, <- B6 in S2. rewrite vals_set_scopes, AF2.
      eapply vstate_pos; [exact S2|]. rewrite nlen_app, nlen_cons'. lia.
  - (* a field of the current block *)
    rewrite (resolve_none s en x Er R).
    destruct (depth s =? 0)%Z eqn:D; [rewrite perr_err in H; discriminate H|].
    destruct (depth_nonzero s en Er D) as (b & up & Eo). rewrite Eo.
    destruct (ident_const_spec x s) as [A B]. specialize (B W).
    destruct (ident_const x s) as [idx s1]. cbn [fst snd] in *.
    assert (E : estep (cexpr e s1) (emit_uvarint idx (emit_op opSETFIELD (cexpr e s1))) ([opSETFIELD] ++ uv_enc idx))
      by (eapply estep_trans; [apply estep_emit_op | apply estep_emit_uvarint]).
    apply extl_estep in E. cbn [app] in E.
    assert (He : hadError (cexpr e s1) = false) by (eapply extl_noerr; eassumption).
    destruct (cexpr_extl e s1 He) as [fe Fe].
    pose proof (extl_cstep _ _ A) as F1.
    pose proof (extl_trans _ _ _ _ _ F1 (extl_trans _ _ _ _ _ Fe E)) as F. cbn [app] in F.
    rewrite (emits_inj _ _ _ _ Em (extl_emits _ _ _ F)) in *. clear Em.
    destruct (frag_at_app g _ _ _ Ff) as [Ffe Fop].
    pose proof (extl_ncode _ _ _ F1) as N1. change (nlen []) with 0 in N1. rewrite N.add_0_r in N1.
    rewrite <- N1 in Ffe, Fop, St.
    pose proof (extl_ncode _ _ _ Fe) as Ne. rewrite <- Ne in Fop.
    pose proof (cext_extl _ _ _ E Cx) as Cxe.
    pose proof (ER_extl _ _ _ _ _ F1 (shape_refl en) Er) as Er0.
    pose proof (IH s1 fe en temps m c (extl_wfs _ _ _ F1 W) He (extl_emits _ _ _ Fe) Ffe Cxe Er0 St Cr) as O.
    pose proof (eval_shape e en) as Sh.
    destruct (eval e en) as [[v|err] en1]; [|exact O]. cbn [snd] in Sh.
    destruct O as [(m1 & c1 & R1 & S1 & C1)|L]; [|apply Outcome_limit; exact L].
    eapply Outcome_runs; [exact R1|]. rewrite <- Ne in S1.
    pose proof (ER_extl _ _ _ _ _ Fe Sh Er0) as Er1.
    assert (R' : resolve_local (locals (cexpr e s1)) (nlocals (cexpr e s1)) x = None).
    { destruct (extl_lframe _ _ _ (extl_trans _ _ _ _ _ F1 Fe)) as (L1 & L2 & _). rewrite L1, L2. exact R. }
    pose proof (assign_frames_flat x v (scopes en1)) as AF. fold (flat en1) in AF.
    rewrite (resolve_none _ en1 x Er1 R') in AF. rewrite AF.
    destruct Sh as (_ & Sl & _). rewrite Eo in Sl.
    destruct (oblocks en1) as [|b1 up1] eqn:Eo1; [discriminate Sl|].
    destruct (get_const_ext s1 idx (VStr x) (cext_extl _ _ _ Fe Cxe) B) as [G Bd].
    destruct C1 as (K1 & K2 & K3). rewrite Eo1 in K1, K2. cbn [map] in K1. unfold blk at 1 in K1.
    destruct (i_setfield g m1 _ v _ c1 idx x _ _ _ _ S1 Fop Bd G K1) as (m2 & R2 & S2).
    eapply Outcome_ok; [exact R2 | |].
    + eapply vstate_pos; [exact S2|]. rewrite nlen_app, nlen_cons'. lia.
    + unfold CoreR, ObsR, set_oblocks, with_bstack in *.
      cbn [c_bstack c_btos c_result c_bind c_out c_warn scopes oblocks results binding_ output warnings].
      cbn [map]. unfold blk at 1. cbn [ob_typ ob_name ob_fields].
      split; [reflexivity|]. split; [rewrite K2; unfold nlen; cbn [length]; reflexivity | exact K3].
Qed.

Theorem expr_sim : forall e, SimP e.
Proof.
  induction e as [v|x|x e IH|o a IHa b IHb|a IHa b IHb|a IHa b IHb|a IH|a IH|a IH].
  - apply sim_lit.
  - apply sim_id.
  - apply sim_asg; assumption.
  - apply sim_bin; assumption.
  - apply sim_and; assumption.
  - apply sim_or; assumption.
  - apply sim_not; assumption.
  - apply sim_neg; assumption.
  - apply sim_pos; assumption.
Qed.

End Sim.
Print Assumptions expr_sim.
