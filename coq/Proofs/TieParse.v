(* Tie obligations: the Pratt parser's tables in the Go source equal the pinned ones. *)
From BCL Require Gen.GenTables Spec.Pinned.
Lemma tie_token_types : GenTables.token_types = Pinned.token_types. Proof. reflexivity. Qed.
Lemma tie_precedences : GenTables.precedences = Pinned.precedences. Proof. reflexivity. Qed.
Lemma tie_rules : GenTables.rules = Pinned.rules. Proof. reflexivity. Qed.
Lemma tie_binary_ops : GenTables.binary_ops = Pinned.binary_ops. Proof. reflexivity. Qed.
Lemma tie_unary_ops : GenTables.unary_ops = Pinned.unary_ops. Proof. reflexivity. Qed.
Lemma tie_sync_tokens : GenTables.sync_tokens = Pinned.sync_tokens. Proof. reflexivity. Qed.
Lemma tie_parse_constants : GenTables.constants = Pinned.constants. Proof. reflexivity. Qed.
