(* Tie obligations: the Pratt parser's tables in the Go source equal the pinned ones. *)
From Coq Require Import List NArith String.
From BCL Require Gen.GenTables Spec.Pinned.
Import ListNotations.
Open Scope string_scope.
Fixpoint get (k : string) (l : list (string * N)) : option N :=
  match l with [] => None | (k', v) :: r => if String.eqb k k' then Some v else get k r end.
Lemma tie_token_types : GenTables.token_types = Pinned.token_types. Proof. reflexivity. Qed.
Lemma tie_precedences : GenTables.precedences = Pinned.precedences. Proof. reflexivity. Qed.
Lemma tie_rules : GenTables.rules = Pinned.rules. Proof. reflexivity. Qed.
Lemma tie_binary_ops : GenTables.binary_ops = Pinned.binary_ops. Proof. reflexivity. Qed.
Lemma tie_unary_ops : GenTables.unary_ops = Pinned.unary_ops. Proof. reflexivity. Qed.
Lemma tie_sync_tokens : GenTables.sync_tokens = Pinned.sync_tokens. Proof. reflexivity. Qed.
Lemma tie_locals_max : get "localsMaxSize" GenTables.constants = Some 1024%N /\ get "jumpByteLength" GenTables.constants = Some 2%N.
Proof. split; reflexivity. Qed.
