(* ParserTotal.v: the parser model never runs out of fuel and never reaches a Go panic site,
   on ANY token list the lexer can produce -- accepted or rejected.

   Sites (Model/Parser.v):
     oof    := true   at fuel 0 of sync_loop, parse_prec, infix_loop, resolve_ident, decl,
                      block_stmt, block_loop, top_loop
     ppanic := true   (a) infix_loop: the token whose precedence is >= prec has no infix rule
                          (only possible for prec = 0; every call site passes prec >= 1)
                      (b) def_var: no local at all (decl_var has just pushed one, or -- table full --
                          nlocals = localsMaxSize = 1024 > 0 locals exist)

   Measure: len s = length (toks s), under the invariant J: the last token of cur_ :: toks is
   tEOF/tFAIL (so: cur_ not an end token -> toks <> [] -> advance strictly consumes).
   Needed fuel:  parse_prec 2n+2, infix_loop / resolve_ident 2n+3, sync n+1,
                 decl 3n+3, block_loop 3n+4, block_stmt 3n+5, top_loop 3n+4   (n = len s);
   parse_fuel = 8n+64. *)
From Coq Require Import Lia ZifyN ZifyNat ZifyBool List.
From RecordUpdate Require Import RecordSet.
From BCL Require Import Model.Api Proofs.ParserInvProofs.
Import RecordSetNotations ListNotations.
Open Scope N_scope.

(* ================================================================== *)
(* 1. the invariant, the measure, the step relations                   *)
(* ================================================================== *)

Definition isend (t : token) : bool := tok_num (ttyp t) <=? 1.
Definition J (s : pst) : Prop := isend (last (toks s) (cur_ s)) = true.
Definition len (s : pst) : nat := length (toks s).
Definition LI (s : pst) : Prop := nlocals s = N.of_nat (length (locals s)).
Definition Inv (s : pst) : Prop := J s /\ LI s /\ (0 <= depth s)%Z.

(* b is reached from a: tokens only consumed, the model flags and the scope depth unchanged *)
Definition SW (a b : pst) : Prop :=
  J b /\ (len b <= len a)%nat /\ oof b = oof a /\ ppanic b = ppanic a /\ depth b = depth a.
(* ... and the locals untouched (expressions, bind) *)
Definition SE (a b : pst) : Prop := SW a b /\ locals b = locals a /\ nlocals b = nlocals a.
(* ... or the locals still counted correctly (statements) *)
Definition SS (a b : pst) : Prop := SW a b /\ LI b.

(* nothing but emitter / diagnostic fields changed *)
Definition TFr (s s' : pst) : Prop :=
  toks s' = toks s /\ cur_ s' = cur_ s /\ oof s' = oof s /\ ppanic s' = ppanic s /\
  depth s' = depth s /\ locals s' = locals s /\ nlocals s' = nlocals s.

Lemma SW_refl : forall s, J s -> SW s s.
Proof. intros s H. repeat split; auto. Qed.
Lemma SE_refl : forall s, J s -> SE s s.
Proof. intros s H. repeat split; auto. Qed.
Lemma SW_trans : forall a b c, SW a b -> SW b c -> SW a c.
Proof.
  intros a b c (A1 & A2 & A3 & A4 & A5) (B1 & B2 & B3 & B4 & B5).
  repeat split; [exact B1|lia|congruence..].
Qed.
Lemma SE_trans : forall a b c, SE a b -> SE b c -> SE a c.
Proof.
  intros a b c (A & A1 & A2) (B & B1 & B2). split; [eapply SW_trans; eassumption|].
  split; congruence.
Qed.
Lemma SE_TFr : forall a s s', TFr s s' -> SE a s -> SE a s'.
Proof.
  intros a s s' (T1 & T2 & T3 & T4 & T5 & T6 & T7) ((A1 & A2 & A3 & A4 & A5) & A6 & A7).
  unfold SE, SW, J, len in *. rewrite T1, T2, T3, T4, T5, T6, T7. repeat split; assumption.
Qed.
Lemma SE_SS : forall a b, LI a -> SE a b -> SS a b.
Proof. intros a b H (A & A1 & A2). split; [exact A|]. unfold LI in *. congruence. Qed.
Lemma SS_trans : forall a b c, SS a b -> SS b c -> SS a c.
Proof. intros a b c [A _] [B L]. split; [eapply SW_trans; eassumption|exact L]. Qed.
Lemma SS_SE : forall a b c, SS a b -> SE b c -> SS a c.
Proof.
  intros a b c [A L] (B & B1 & B2). split; [eapply SW_trans; eassumption|].
  unfold LI in *. congruence.
Qed.
Lemma SE_J : forall a b, SE a b -> J b.
Proof. intros a b H. apply H. Qed.
Lemma SE_len : forall a b, SE a b -> (len b <= len a)%nat.
Proof. intros a b H. apply H. Qed.
Lemma SS_Inv : forall a b, (0 <= depth a)%Z -> SS a b -> Inv b.
Proof. intros a b H ((B1 & B2 & B3 & B4 & B5) & L). repeat split; [exact B1|exact L|lia]. Qed.

(* ---- facts about the rules table ---- *)

Lemma isend_prefix : forall t, isend t = true -> rule_prefix (ttyp t) = PFnil.
Proof. intros t H. unfold isend in H. destruct (ttyp t); vm_compute in H; try discriminate H; reflexivity. Qed.
Lemma isend_prec : forall t, isend t = true -> rule_prec (ttyp t) = 0.
Proof. intros t H. unfold isend in H. destruct (ttyp t); vm_compute in H; try discriminate H; reflexivity. Qed.
Lemma rule_infix_nil : forall k, rule_infix k = IFnil -> rule_prec k = 0.
Proof. intros k H. destruct k; vm_compute in H; try discriminate H; reflexivity. Qed.

Lemma last_cons : forall {A} (t : A) r d, last (t :: r) d = last r t.
Proof.
  intros A t r. revert t. induction r as [|x r IH]; intros t d; [reflexivity|].
  change (last (t :: x :: r) d) with (last (x :: r) d). rewrite (IH x d), (IH x t). reflexivity.
Qed.

Lemma J_toks : forall s, J s -> isend (cur_ s) = false -> toks s <> [].
Proof. intros s H E C. unfold J in H. rewrite C in H. cbn [last] in H. congruence. Qed.
Lemma J_len : forall s, J s -> isend (cur_ s) = false -> (1 <= len s)%nat.
Proof.
  intros s H E. pose proof (J_toks s H E) as N. unfold len. destruct (toks s); [congruence|cbn [length]; lia].
Qed.

(* ---- advance ---- *)

Definition RF (s s' : pst) : Prop :=
  oof s' = oof s /\ ppanic s' = ppanic s /\ depth s' = depth s /\ locals s' = locals s /\
  nlocals s' = nlocals s.

Lemma RF_adv_tok : forall t s, RF s (adv_tok t s).
Proof. intros. unfold adv_tok. cbv zeta. destruct (tok_eqb (ttyp t) tFAIL); repeat split. Qed.
Lemma RF_error_at : forall t m s, RF s (error_at t m s).
Proof. intros. repeat split. Qed.
Lemma RF_set_toks : forall r s, RF s (s <| toks := r |>).
Proof. intros. repeat split. Qed.
Lemma RF_set_prev : forall p s, RF s (s <| prev := p |>).
Proof. intros. repeat split. Qed.
Lemma RF_trans : forall a b c, RF a b -> RF b c -> RF a c.
Proof.
  intros a b c (A1 & A2 & A3 & A4 & A5) (B1 & B2 & B3 & B4 & B5). repeat split; congruence.
Qed.

Lemma advance_loop_prev' : forall ts s, prev (advance_loop ts s) = prev s.
Proof.
  induction ts as [|t r IH]; intros s; [reflexivity|].
  rewrite advance_loop_cons. destruct (tok_eqb (ttyp t) tERR).
  - rewrite IH. unfold error_at_current.
    destruct (error_at_fields (cur_ (adv_tok t s)) (lexerr_msg (terr t)) (adv_tok t s)) as (_ & -> & _).
    apply adv_tok_fields.
  - destruct (set_toks_fields r (adv_tok t s)) as (_ & -> & _). apply adv_tok_fields.
Qed.

Lemma advance_loop_tot : forall ts s, isend (last ts (cur_ s)) = true ->
  J (advance_loop ts s) /\ (len (advance_loop ts s) <= pred (length ts))%nat /\ RF s (advance_loop ts s).
Proof.
  induction ts as [|t r IH]; intros s H.
  - rewrite advance_loop_nil. unfold J, len.
    destruct (set_toks_fields [] s) as (-> & _ & -> & _). cbn [last length pred] in *.
    repeat split; [exact H|lia].
  - rewrite advance_loop_cons. rewrite last_cons in H. destruct (tok_eqb (ttyp t) tERR).
    + set (s' := error_at_current (lexerr_msg (terr t)) (adv_tok t s)).
      assert (Ec : cur_ s' = t).
      { unfold s', error_at_current.
        destruct (error_at_fields (cur_ (adv_tok t s)) (lexerr_msg (terr t)) (adv_tok t s)) as (_ & _ & -> & _).
        apply adv_tok_fields. }
      destruct (IH s') as (I1 & I2 & I3); [rewrite Ec; exact H|].
      split; [exact I1|]. split; [cbn [length pred]; lia|].
      eapply RF_trans; [|exact I3]. eapply RF_trans; [apply RF_adv_tok|apply RF_error_at].
    + unfold J, len. destruct (set_toks_fields r (adv_tok t s)) as (-> & _ & -> & _).
      destruct (adv_tok_fields t s) as (_ & _ & -> & _).
      split; [exact H|]. split; [cbn [length pred]; lia|].
      eapply RF_trans; [apply RF_adv_tok|apply RF_set_toks].
Qed.

Lemma advance_tot : forall s, J s ->
  SE s (advance s) /\ (len (advance s) <= pred (len s))%nat /\ prev (advance s) = cur_ s.
Proof.
  intros s H. unfold advance.
  destruct (advance_loop_tot (toks s) (s <| prev := cur_ s |>)) as (I1 & I2 & I3).
  { destruct (set_prev_fields (cur_ s) s) as (_ & _ & -> & _). exact H. }
  pose proof (RF_trans _ _ _ (RF_set_prev (cur_ s) s) I3) as (R1 & R2 & R3 & R4 & R5).
  split; [|split].
  - unfold SE, SW. fold (len s) in I2. repeat split; try assumption. lia.
  - exact I2.
  - rewrite advance_loop_prev'. reflexivity.
Qed.

(* ================================================================== *)
(* 2. the primitives and the fuel-free functions preserve SE a         *)
(* ================================================================== *)

Section Leaf.
Variable a : pst.

Lemma SEp_advance : forall s, SE a s -> SE a (advance s).
Proof. intros s H. eapply SE_trans; [exact H|]. apply advance_tot. eapply SE_J; exact H. Qed.
Lemma SEp_perror : forall m s, SE a s -> SE a (perror m s).
Proof. intros m s. apply SE_TFr. repeat split. Qed.
Lemma SEp_errc : forall m s, SE a s -> SE a (error_at_current m s).
Proof. intros m s. apply SE_TFr. repeat split. Qed.
Lemma SEp_write : forall b s, SE a s -> SE a (write b s).
Proof. intros b s. apply SE_TFr. repeat split. Qed.
Lemma SEp_emit_op : forall o s, SE a s -> SE a (emit_op o s).
Proof. intros o s. apply SE_TFr. repeat split. Qed.
Lemma SEp_add_const : forall v s, True -> SE a s -> SE a (snd (add_const v s)).
Proof. intros v s _. apply SE_TFr. repeat split. Qed.
Lemma SEp_identRefs : forall x s, SE a s -> SE a (s <| identRefs := x |>).
Proof. intros x s. apply SE_TFr. repeat split. Qed.
Lemma SEp_patch : forall k x y s, SE a s -> SE a (s <| code := set_nth (set_nth (code s) k x) (S k) y |>).
Proof. intros k x y s. apply SE_TFr. repeat split. Qed.
Lemma SEp_panicMode : forall s, SE a s -> SE a (s <| panicMode := false |>).
Proof. intros s. apply SE_TFr. repeat split. Qed.

Ltac leaf L :=
  intros;
  first [eapply (L (SE a) (fun _ => True) (fun _ => True))
        | eapply (L (SE a) (fun _ => True))
        | eapply (L (SE a))];
  eauto using SEp_advance, SEp_perror, SEp_errc, SEp_write, SEp_emit_op, SEp_add_const,
    SEp_identRefs, SEp_patch.

Lemma SEp_perr : forall m s, SE a s -> SE a (perr m s).
Proof. leaf perr_pres. Qed.
Lemma SEp_perrc : forall m s, SE a s -> SE a (perrc m s).
Proof. leaf perrc_pres. Qed.
Lemma SEp_consume : forall t m s, SE a s -> SE a (consume t m s).
Proof. leaf consume_pres. Qed.
Lemma SEp_pmatch : forall t s, SE a s -> SE a (snd (pmatch t s)).
Proof. leaf pmatch_pres. Qed.
Lemma SEp_match_end : forall s, SE a s -> SE a (snd (match_end s)).
Proof. leaf match_end_pres. Qed.
Lemma SEp_emit_uvarint : forall x s, SE a s -> SE a (emit_uvarint x s).
Proof. leaf emit_uvarint_pres. Qed.
Lemma SEp_emit_ops : forall os s, SE a s -> SE a (emit_ops os s).
Proof. leaf emit_ops_pres. Qed.
Lemma SEp_make_const : forall v s, SE a s -> SE a (snd (make_const v s)).
Proof. leaf make_const_pres. Qed.
Lemma SEp_ident_const : forall n s, SE a s -> SE a (snd (ident_const n s)).
Proof. leaf ident_const_pres. Qed.
Lemma SEp_emit_const : forall v s, SE a s -> SE a (emit_const v s).
Proof. leaf emit_const_pres. Qed.
Lemma SEp_emit_jump : forall o s, SE a s -> SE a (snd (emit_jump o s)).
Proof. leaf emit_jump_pres. Qed.
Lemma SEp_patch_jump : forall off s, SE a s -> SE a (patch_jump off s).
Proof. leaf patch_jump_pres. Qed.
Lemma SEp_pop_n : forall n s, SE a s -> SE a (pop_n n s).
Proof. leaf pop_n_pres. Qed.
Lemma SEp_int_lit : forall s, SE a s -> SE a (int_lit s).
Proof. leaf int_lit_pres. Qed.
Lemma SEp_float_lit : forall s, SE a s -> SE a (float_lit s).
Proof. leaf float_lit_pres. Qed.
Lemma SEp_string_lit : forall s, SE a s -> SE a (string_lit s).
Proof. leaf string_lit_pres. Qed.
Lemma SEp_bool_lit : forall s, SE a s -> SE a (bool_lit s).
Proof. leaf bool_lit_pres. Qed.
Lemma SEp_nil_lit : forall s, SE a s -> SE a (nil_lit s).
Proof. leaf nil_lit_pres. Qed.
Lemma SEp_bind_stmt : forall s, SE a s -> SE a (bind_stmt s).
Proof. leaf bind_stmt_pres. Qed.
Lemma SEp_decl_scan : forall ls name d s, SE a s -> SE a (decl_scan ls name d s).
Proof. leaf decl_scan_pres. Qed.
End Leaf.

Create HintDb tot.
#[export] Hint Resolve SEp_advance SEp_perror SEp_errc SEp_write SEp_emit_op SEp_identRefs SEp_patch
  SEp_panicMode SEp_perr SEp_perrc SEp_consume SEp_pmatch SEp_match_end SEp_emit_uvarint SEp_emit_ops
  SEp_make_const SEp_ident_const SEp_emit_const SEp_emit_jump SEp_patch_jump SEp_pop_n SEp_int_lit
  SEp_float_lit SEp_string_lit SEp_bool_lit SEp_nil_lit SEp_bind_stmt SEp_decl_scan : tot.
#[export] Hint Extern 1 (1 <= _) =>
  solve [assumption | unfold precAssign, precUnary, precNot, precAnd, precOr; lia] : tot.

(* the walk through a chain of lets (after ParserInvProofs.pauto): the intermediate states
   satisfy P, the goal is Q (chain) *)
Ltac pdone := solve [eauto 12 with tot | exfalso; eauto].
Ltac pair_destruct P e :=
  let H := fresh "HP" in
  assert (H : P (snd e)) by eauto 12 with tot;
  destruct e as [? ?] eqn:?; cbn [fst snd] in H.
Ltac pstep_fallback :=
  match goal with
  | |- context C [let x := ?e in @?body x] =>
      lazymatch type of e with
      | pst => fail
      | _ => let g := context C [body e] in change g; cbv beta
      end
  | |- context [if ?b then _ else _] => destruct b eqn:?
  end.
Ltac pauto P := cbv beta iota; repeat (try pdone; pstep P); try pdone
with pstep P := first [pstep_main P | pstep_fallback]; cbv beta iota
with pstep_main P :=
  lazymatch goal with
  | |- ?Q (let x := ?e in @?body x) =>
      tryif is_var e then (change (Q (body e)); cbv beta) else
      lazymatch type of e with
      | pst =>
        let H := fresh "HP" in
        let s := fresh "s" in
        assert (H : P e) by (solve [pauto P]);
        revert H; generalize e; intros s H; change (Q (body s)); cbv beta
      | _ => change (Q (body e)); cbv beta
      end
  | |- ?Q (let '(_, _) := (if ?b then _ else _) in _) => destruct b eqn:?
  | |- ?Q (let '(_, _) := (let '(_, _) := ?e in _) in _) => pair_destruct P e
  | |- ?Q (let '(_, _) := (match ?x with _ => _ end) in _) => destruct x eqn:?
  | |- ?Q (let '(_, _) := ?e in _) => pair_destruct P e
  | |- ?Q (if ?b then _ else _) => destruct b eqn:?
  | |- ?Q (match ?x with _ => _ end) => destruct x eqn:?
  end.

(* ================================================================== *)
(* 3. expressions                                                      *)
(* ================================================================== *)

Definition ExprTot (f : nat) : Prop :=
  (forall prec s, 1 <= prec -> J s -> (2 * len s + 2 <= f)%nat ->
     SE s (parse_prec f prec s) /\ (len (parse_prec f prec s) <= pred (len s))%nat) /\
  (forall prec ca s, 1 <= prec -> J s -> (2 * len s + 3 <= f)%nat -> SE s (infix_loop f prec ca s)) /\
  (forall name ca s, J s -> (2 * len s + 3 <= f)%nat -> SE s (resolve_ident f name ca s)).

Lemma expr_tot : forall f, ExprTot f.
Proof.
  induction f as [|f (IHp & IHi & IHr)]; [repeat split; intros; lia|].
  split; [|split].
  - (* parse_prec *)
    intros prec s0 Hprec HJ Hf. rewrite parse_prec_S.
    destruct (advance_tot s0 HJ) as (A1 & A2 & A3).
    revert A1 A2 A3. generalize (advance s0). intros s A1 A2 A3.
    assert (G : SE s (
      let canAssign := prec <=? precAssign in
      match rule_prefix (ttyp (prev s)) with
      | PFnil => perr "expected expression" s
      | pf =>
        let s1 :=
          match pf with
          | PFparens => consume tRPAREN "expected ')' after expression" (parse_prec f precAssign s)
          | PFunary =>
              let opType := ttyp (prev s) in
              let s' := parse_prec f precUnary s in
              match opType with tMINUS => emit_op opNEG s' | tPLUS => emit_op opUNPLUS s' | _ => s' end
          | PFboolNot =>
              let opType := ttyp (prev s) in
              let s' := parse_prec f precNot s in
              match opType with tNOT => emit_op opNOT s' | _ => s' end
          | PFidentRef => resolve_ident f (tval (prev s)) canAssign s
          | PFstringLit => string_lit s
          | PFintLit => int_lit s
          | PFfloatLit => float_lit s
          | PFboolLit => bool_lit s
          | PFnilLit => nil_lit s
          | PFnil => s
          end in
        let s2 := infix_loop f prec canAssign s1 in
        if canAssign then
          let '(m, s3) := pmatch tEQ s2 in if m then perr "invalid assignment target" s3 else s3
        else s2
      end)).
    { pose proof (SE_refl s (SE_J _ _ A1)) as R.
      destruct (isend (cur_ s0)) eqn:Ee.
      - rewrite A3, (isend_prefix _ Ee). cbv zeta. pdone.
      - pose proof (J_len s0 HJ Ee) as L1.
        assert (IHp' : forall q x, 1 <= q -> SE s x -> SE s (parse_prec f q x)).
        { intros q x Hq Hx. eapply SE_trans; [exact Hx|].
          apply IHp; [exact Hq|eapply SE_J; exact Hx|]. pose proof (SE_len _ _ Hx). lia. }
        assert (IHi' : forall q ca x, 1 <= q -> SE s x -> SE s (infix_loop f q ca x)).
        { intros q ca x Hq Hx. eapply SE_trans; [exact Hx|].
          apply IHi; [exact Hq|eapply SE_J; exact Hx|]. pose proof (SE_len _ _ Hx). lia. }
        assert (IHr' : forall n ca x, SE s x -> SE s (resolve_ident f n ca x)).
        { intros n ca x Hx. eapply SE_trans; [exact Hx|].
          apply IHr; [eapply SE_J; exact Hx|]. pose proof (SE_len _ _ Hx). lia. }
        clear IHp IHi IHr. pauto (SE s). }
    revert G. cbv zeta. intros G. split; [eapply SE_trans; eassumption|].
    pose proof (SE_len _ _ G). lia.
  - (* infix_loop *)
    intros prec ca s Hprec HJ Hf. rewrite infix_loop_S.
    destruct (prec <=? rule_prec (ttyp (cur_ s))) eqn:Ep; [|apply SE_refl; exact HJ].
    assert (Ee : isend (cur_ s) = false).
    { destruct (isend (cur_ s)) eqn:E; [|reflexivity]. rewrite (isend_prec _ E) in Ep. lia. }
    pose proof (J_len s HJ Ee) as L1.
    destruct (advance_tot s HJ) as (A1 & A2 & A3).
    revert A1 A2 A3. generalize (advance s). intros s1 A1 A2 A3.
    eapply SE_trans; [exact A1|].
    pose proof (SE_refl s1 (SE_J _ _ A1)) as R.
    assert (IHp' : forall q x, 1 <= q -> SE s1 x -> SE s1 (parse_prec f q x)).
    { intros q x Hq Hx. eapply SE_trans; [exact Hx|].
      apply IHp; [exact Hq|eapply SE_J; exact Hx|]. pose proof (SE_len _ _ Hx). lia. }
    assert (IHi' : forall q ca x, 1 <= q -> SE s1 x -> SE s1 (infix_loop f q ca x)).
    { intros q ca' x Hq Hx. eapply SE_trans; [exact Hx|].
      apply IHi; [exact Hq|eapply SE_J; exact Hx|]. pose proof (SE_len _ _ Hx). lia. }
    assert (HX : rule_infix (ttyp (prev s1)) = IFnil -> False).
    { rewrite A3. intros E. apply rule_infix_nil in E. lia. }
    clear IHp IHi IHr. pauto (SE s1).
  - (* resolve_ident *)
    intros name ca s HJ Hf. rewrite resolve_ident_S.
    pose proof (SE_refl s HJ) as R.
    assert (IHp' : forall q x, 1 <= q -> SE s x -> SE s (parse_prec f q x)).
    { intros q x Hq Hx. eapply SE_trans; [exact Hx|].
      apply IHp; [exact Hq|eapply SE_J; exact Hx|]. pose proof (SE_len _ _ Hx). lia. }
    clear IHp IHi IHr. pauto (SE s).
Qed.

Lemma parse_prec_tot : forall f prec s, 1 <= prec -> J s -> (2 * len s + 2 <= f)%nat ->
  SE s (parse_prec f prec s) /\ (len (parse_prec f prec s) <= pred (len s))%nat.
Proof. intros f. apply (expr_tot f). Qed.

Lemma expr_fn_tot : forall f s, J s -> (2 * len s + 2 <= f)%nat ->
  SE s (expr f s) /\ (len (expr f s) <= pred (len s))%nat.
Proof. intros f s H Hf. unfold expr. apply parse_prec_tot; [unfold precAssign; lia|exact H|exact Hf]. Qed.

(* ================================================================== *)
(* 4. sync                                                             *)
(* ================================================================== *)

Lemma sync_loop_tot : forall f s, J s -> (len s + 1 <= f)%nat -> SE s (sync_loop f s).
Proof.
  induction f as [|f IH]; intros s HJ Hf; [lia|]. cbn [sync_loop].
  destruct (check_end s) eqn:Ec; [apply SE_refl; exact HJ|].
  assert (Ee : isend (cur_ s) = false) by exact Ec.
  destruct (advance_tot s HJ) as (A1 & A2 & _). pose proof (J_len s HJ Ee) as L1.
  assert (G : SE s (sync_loop f (advance s))).
  { eapply SE_trans; [exact A1|]. apply IH; [eapply SE_J; exact A1|lia]. }
  clear Ec Ee. destruct (ttyp (cur_ s)); try exact G; apply SE_refl; exact HJ.
Qed.

Lemma TFr_panicMode : forall s, TFr s (s <| panicMode := false |>).
Proof. intros. repeat split. Qed.

Lemma sync_tot : forall f s, J s -> (len s + 1 <= f)%nat -> SE s (sync f s).
Proof.
  intros f s HJ Hf. unfold sync.
  pose proof (SE_TFr s s _ (TFr_panicMode s) (SE_refl s HJ)) as H.
  eapply SE_trans; [exact H|]. apply sync_loop_tot; [eapply SE_J; exact H|].
  pose proof (SE_len _ _ H). lia.
Qed.

Lemma check_not_end : forall t s, check t s = true -> 1 < tok_num t -> isend (cur_ s) = false.
Proof.
  intros t s H Ht. unfold check, tok_eqb in H. apply N.eqb_eq in H. unfold isend. lia.
Qed.

(* after "expected statement": the offending token is skipped *)
Lemma sync_strict : forall f s, J s -> (len s + 1 <= f)%nat -> isend (cur_ s) = false ->
  check tVAR s = false -> check tDEF s = false -> check tPRINT s = false -> check tEVAL s = false ->
  (len (sync f s) <= pred (len s))%nat.
Proof.
  intros f s HJ Hf Ee C1 C2 C3 C4. destruct f as [|f]; [lia|].
  unfold sync. set (s' := s <| panicMode := false |>).
  pose proof (SE_TFr s s _ (TFr_panicMode s) (SE_refl s HJ)) as H. fold s' in H.
  assert (Ec : cur_ s' = cur_ s) by reflexivity.
  assert (Et : toks s' = toks s) by reflexivity.
  cbn [sync_loop]. change (check_end s') with (isend (cur_ s')). rewrite Ec, Ee.
  destruct (advance_tot s' (SE_J _ _ H)) as (A1 & A2 & _).
  assert (L : (len s' = len s)%nat) by (unfold len; rewrite Et; reflexivity).
  assert (G : (len (sync_loop f (advance s')) <= pred (len s))%nat).
  { assert (G1 : SE (advance s') (sync_loop f (advance s'))).
    { apply sync_loop_tot; [eapply SE_J; exact A1|]. pose proof (J_len s HJ Ee). lia. }
    pose proof (SE_len _ _ G1). lia. }
  unfold check in C1, C2, C3, C4.
  destruct (ttyp (cur_ s)); try exact G; vm_compute in C1, C2, C3, C4; congruence.
Qed.

(* ================================================================== *)
(* 5. locals: decl_var, def_var, scopes                                *)
(* ================================================================== *)

Lemma localsMaxSize_pos : localsMaxSize <> 0.
Proof. unfold localsMaxSize. lia. Qed.

Lemma add_local_upd_fields : forall l n m s,
  let s' := s <| locals := l |> <| nlocals := n |> <| st_localMax := m |> in
  toks s' = toks s /\ cur_ s' = cur_ s /\ oof s' = oof s /\ ppanic s' = ppanic s /\
  depth s' = depth s /\ locals s' = l /\ nlocals s' = n.
Proof. intros. repeat split. Qed.

Lemma decl_var_tot : forall a s, SE a s -> LI s ->
  SW a (decl_var s) /\ LI (decl_var s) /\ locals (decl_var s) <> [].
Proof.
  intros a s H HL. unfold decl_var.
  pose proof (SEp_decl_scan a (locals s) (tval (prev s)) (depth s) s H) as H1.
  assert (HL1 : LI (decl_scan (locals s) (tval (prev s)) (depth s) s)).
  { destruct H1 as (_ & E1 & E2), H as (_ & F1 & F2). unfold LI in *. congruence. }
  revert H1 HL1. generalize (decl_scan (locals s) (tval (prev s)) (depth s) s). intros x H1 HL1.
  unfold add_local. destruct (nlocals x =? localsMaxSize) eqn:En.
  - pose proof (SEp_perr a "too many local variables" x H1) as H2.
    assert (E : locals (perr "too many local variables" x) = locals x) by reflexivity.
    assert (E' : nlocals (perr "too many local variables" x) = nlocals x) by reflexivity.
    split; [apply H2|]. unfold LI in *. rewrite E, E'. split; [exact HL1|].
    pose proof localsMaxSize_pos. destruct (locals x); [cbn [length] in HL1; lia|discriminate].
  - destruct (add_local_upd_fields ((tval (prev s), (-1)%Z) :: locals x) (nlocals x + 1)
               (N.max (st_localMax x) (nlocals x + 1)) x) as (T1 & T2 & T3 & T4 & T5 & T6 & T7).
    cbv zeta in T1, T2, T3, T4, T5, T6, T7.
    destruct H1 as ((A1 & A2 & A3 & A4 & A5) & _ & _).
    unfold SW, J, len, LI in *. rewrite T1, T2, T3, T4, T5, T6, T7.
    repeat split; try assumption; [cbn [length]; lia|discriminate].
Qed.

Lemma set_locals_fields : forall l s,
  let s' := s <| locals := l |> in
  toks s' = toks s /\ cur_ s' = cur_ s /\ oof s' = oof s /\ ppanic s' = ppanic s /\
  depth s' = depth s /\ locals s' = l /\ nlocals s' = nlocals s.
Proof. intros. repeat split. Qed.

Lemma def_var_tot : forall x, J x -> LI x -> locals x <> [] -> SW x (def_var x) /\ LI (def_var x).
Proof.
  intros x HJ HL Hne. unfold def_var. destruct (locals x) as [|[nm z] r] eqn:El; [congruence|].
  destruct (set_locals_fields ((nm, depth x) :: r) x) as (T1 & T2 & T3 & T4 & T5 & T6 & T7).
  cbv zeta in T1, T2, T3, T4, T5, T6, T7.
  unfold SW, J, len, LI in *. rewrite T1, T2, T3, T4, T5, T6, T7.
  repeat split; try assumption; [lia|]. rewrite El in HL. cbn [length] in *. exact HL.
Qed.

Lemma SE_SW : forall a b c, SE a b -> SW b c -> SW a c.
Proof. intros a b c [H _] H2. eapply SW_trans; eassumption. Qed.
Lemma SE_then_SS : forall a b c, SE a b -> SS b c -> SS a c.
Proof. intros a b c H [H2 L]. split; [eapply SE_SW; eassumption|exact L]. Qed.

Lemma var_decl_tot : forall f s, J s -> LI s -> (2 * len s + 2 <= f)%nat -> SS s (var_decl f s).
Proof.
  intros f s HJ HL Hf. unfold var_decl. cbv zeta.
  assert (H1 : SE s (consume tIDENT "expected variable name" s)) by (apply SEp_consume, SE_refl, HJ).
  revert H1. generalize (consume tIDENT "expected variable name" s). intros s1 H1.
  destruct (panicMode s1); [apply SE_SS; assumption|].
  assert (HL1 : LI s1) by (apply (SE_SS s s1 HL H1)).
  destruct (decl_var_tot s s1 H1 HL1) as (D1 & D2 & D3).
  revert D1 D2 D3. generalize (decl_var s1). intros s2 D1 D2 D3.
  assert (HJ2 : J s2) by apply D1.
  pose proof (SEp_pmatch s2 tEQ s2 (SE_refl s2 HJ2)) as H3.
  destruct (pmatch tEQ s2) as [m s3]. cbn [snd] in H3.
  set (X := if m then expr f s3 else emit_op opNIL s3).
  assert (HX : SE s3 X).
  { unfold X. destruct m; [|apply SEp_emit_op, SE_refl, (SE_J _ _ H3)].
    apply expr_fn_tot; [apply (SE_J _ _ H3)|].
    pose proof (SE_len _ _ H3). destruct D1 as (_ & D1 & _). lia. }
  pose proof (SE_trans _ _ _ H3 HX) as H4.
  assert (LX : LI X) by (apply (SE_SS s2 X D2 H4)).
  assert (NX : locals X <> []) by (destruct H4 as (_ & -> & _); exact D3).
  destruct (def_var_tot X (SE_J _ _ H4) LX NX) as [F1 F2].
  split; [|exact F2]. eapply SW_trans; [exact D1|]. eapply SE_SW; eassumption.
Qed.

Lemma drop_locals_len : forall ls d n ls' n', drop_locals ls d n = (ls', n') ->
  n' = n + N.of_nat (length ls) - N.of_nat (length ls') /\ (length ls' <= length ls)%nat.
Proof.
  induction ls as [|[nm ld] r IH]; intros d n ls' n' H; cbn [drop_locals] in H.
  - injection H as <- <-. cbn [length]. lia.
  - destruct (d <? ld)%Z.
    + apply IH in H. cbn [length]. lia.
    + injection H as <- <-. cbn [length]. lia.
Qed.

Lemma scope_upd_fields : forall d ls n s,
  let s' := s <| depth := d |> <| locals := ls |> <| nlocals := n |> in
  toks s' = toks s /\ cur_ s' = cur_ s /\ oof s' = oof s /\ ppanic s' = ppanic s /\
  depth s' = d /\ locals s' = ls /\ nlocals s' = n.
Proof. intros. repeat split. Qed.

Lemma end_scope_tot : forall s, J s -> LI s ->
  J (end_scope s) /\ (len (end_scope s) <= len s)%nat /\ oof (end_scope s) = oof s /\
  ppanic (end_scope s) = ppanic s /\ depth (end_scope s) = (depth s - 1)%Z /\ LI (end_scope s).
Proof.
  intros s HJ HL. unfold end_scope. cbv zeta.
  destruct (drop_locals (locals s) (depth s - 1) 0) as [ls popped] eqn:Ed.
  apply drop_locals_len in Ed. destruct Ed as [Ep El].
  destruct (scope_upd_fields (depth s - 1)%Z ls (nlocals s - popped) s) as (T1 & T2 & T3 & T4 & T5 & T6 & T7).
  cbv zeta in T1, T2, T3, T4, T5, T6, T7.
  revert T1 T2 T3 T4 T5 T6 T7.
  match goal with |- toks ?v = _ -> _ => generalize v end.
  intros u T1 T2 T3 T4 T5 T6 T7.
  assert (Ju : J u) by (unfold J in *; rewrite T1, T2; exact HJ).
  pose proof (SEp_pop_n u popped u (SE_refl u Ju)) as ((B1 & B2 & B3 & B4 & B5) & B6 & B7).
  unfold LI, len in *. rewrite B3, B4, B5, B6, B7, T3, T4, T5, T6, T7. rewrite T1 in B2.
  repeat split; try assumption. lia.
Qed.

Lemma begin_scope_fields : forall s,
  toks (begin_scope s) = toks s /\ cur_ (begin_scope s) = cur_ s /\ oof (begin_scope s) = oof s /\
  ppanic (begin_scope s) = ppanic s /\ depth (begin_scope s) = (depth s + 1)%Z /\
  locals (begin_scope s) = locals s /\ nlocals (begin_scope s) = nlocals s.
Proof. intros. repeat split. Qed.

(* ================================================================== *)
(* 6. statements                                                       *)
(* ================================================================== *)

Definition decl_finish (f : nat) (s2 : pst) : pst :=
  if panicMode s2 && (depth s2 =? 0)%Z then sync f s2 else s2.
Definition decl_core (f : nat) (s : pst) : pst :=
  if check tVAR s then var_decl f (advance s)
  else if check tPRINT s then emit_op opPRINT (expr f (advance s))
  else if check tEVAL s then emit_op opPOP (expr f (advance s))
  else if check tDEF s then block_stmt f (advance s)
  else if check tBIND s then bind_stmt (advance s)
  else if (0 <? depth s)%Z then emit_op opPOP (expr f s)
  else perrc "expected statement" s.

Lemma decl_S2 : forall f s, decl (S f) s = decl_finish f (decl_core f s).
Proof.
  intros f s. rewrite decl_S. unfold decl_core, decl_finish, pmatch.
  destruct (check tVAR s); [cbv beta iota zeta; reflexivity|].
  destruct (check tPRINT s); [cbv beta iota zeta; reflexivity|].
  destruct (check tEVAL s); [cbv beta iota zeta; reflexivity|].
  destruct (check tDEF s); [cbv beta iota zeta; reflexivity|].
  destruct (check tBIND s); cbv beta iota zeta; reflexivity.
Qed.

Definition block_tail (f : nat) (s7 : pst) : pst :=
  let s8 := block_loop f (begin_scope s7) in
  let s9 := if hadLexFail s8 then s8 else consume tRCURLY "expected '}'" s8 in
  emit_op opENDBLOCK (end_scope s9).

Lemma block_stmt_S2 : forall f s,
  block_stmt (S f) s =
    let s1 := consume tIDENT "expected block type" s in
    if panicMode s1 then s1 else
    let blockType := tval (prev s1) in
    let '(ms, s2) := pmatch tSTR s1 in
    let '(blockName, s3) :=
      if ms then match unquote (tval (prev s2)) with
                 | Some v => (v, s2)
                 | None => ([], perror (bs "invalid string literal: invalid syntax") s2)
                 end
      else ([], s2) in
    let s4 := consume tLCURLY "expected '{'" s3 in
    let '(ti, s5) := ident_const blockType s4 in
    let '(ni, s6) := make_const (VStr blockName) s5 in
    let s7 := emit_uvarint ni (emit_uvarint ti (emit_op opDEFBLOCK s6)) in
    block_tail f s7.
Proof. intros f s. rewrite block_stmt_S. unfold block_tail. reflexivity. Qed.

Definition StmtTot (f : nat) : Prop :=
  (forall s, Inv s -> (3 * len s + 3 <= f)%nat ->
     SS s (decl f s) /\ (isend (cur_ s) = false -> (len (decl f s) <= pred (len s))%nat)) /\
  (forall s, Inv s -> (3 * len s + 5 <= f)%nat -> SS s (block_stmt f s)) /\
  (forall s, Inv s -> (3 * len s + 4 <= f)%nat -> SS s (block_loop f s)).

Lemma SS_len : forall a b, SS a b -> (len b <= len a)%nat.
Proof. intros a b H. apply H. Qed.
Lemma SS_J : forall a b, SS a b -> J b.
Proof. intros a b H. apply H. Qed.
Lemma SS_refl : forall s, J s -> LI s -> SS s s.
Proof. intros s H L. split; [apply SW_refl; exact H|exact L]. Qed.

Lemma decl_finish_tot : forall f a x, SS a x -> (len a + 1 <= f)%nat ->
  SS a (decl_finish f x) /\ (len (decl_finish f x) <= len x)%nat.
Proof.
  intros f a x H Hf. unfold decl_finish.
  destruct (panicMode x && (depth x =? 0)%Z); [|split; [exact H|lia]].
  pose proof (SS_len _ _ H).
  assert (G : SE x (sync f x)) by (apply sync_tot; [apply (SS_J _ _ H)|lia]).
  split; [eapply SS_SE; eassumption|apply (SE_len _ _ G)].
Qed.

Lemma stmt_tot : forall f, StmtTot f.
Proof.
  induction f as [|f (IHd & IHb & IHl)]; [repeat split; intros; lia|].
  split; [|split].
  - (* decl *)
    intros s (HJ & HL & HD) Hf. rewrite decl_S2.
    destruct (advance_tot s HJ) as (A1 & A2 & _).
    pose proof (SE_J _ _ A1) as JA. pose proof (SE_SS _ _ HL A1) as [_ LA].
    assert (DA : depth (advance s) = depth s) by apply A1.
    (* the statement proper: consumed something, or is the bare "expected statement" *)
    assert (C : SS s (decl_core f s) /\
      ((len (decl_core f s) <= pred (len s))%nat \/
       (decl_core f s = perrc "expected statement" s /\ depth s = 0%Z /\
        check tVAR s = false /\ check tDEF s = false /\ check tPRINT s = false /\ check tEVAL s = false))).
    { unfold decl_core.
      destruct (check tVAR s) eqn:C1.
      { assert (G : SS (advance s) (var_decl f (advance s))) by (apply var_decl_tot; [exact JA|exact LA|lia]).
        split; [eapply SE_then_SS; eassumption|]. left. pose proof (SS_len _ _ G). lia. }
      destruct (check tPRINT s) eqn:C2.
      { destruct (expr_fn_tot f (advance s) JA ltac:(lia)) as [G1 G2].
        pose proof (SEp_emit_op _ opPRINT _ (SE_trans _ _ _ A1 G1)) as G.
        split; [apply SE_SS; assumption|]. left.
        pose proof (SE_len _ _ (SEp_emit_op _ opPRINT _ G1)). lia. }
      destruct (check tEVAL s) eqn:C3.
      { destruct (expr_fn_tot f (advance s) JA ltac:(lia)) as [G1 G2].
        pose proof (SEp_emit_op _ opPOP _ (SE_trans _ _ _ A1 G1)) as G.
        split; [apply SE_SS; assumption|]. left.
        pose proof (SE_len _ _ (SEp_emit_op _ opPOP _ G1)). lia. }
      destruct (check tDEF s) eqn:C4.
      { pose proof (J_len s HJ (check_not_end _ _ C4 ltac:(vm_compute; reflexivity))) as L1.
        assert (G : SS (advance s) (block_stmt f (advance s))).
        { apply IHb; [repeat split; [exact JA|exact LA|lia]|lia]. }
        split; [eapply SE_then_SS; eassumption|]. left. pose proof (SS_len _ _ G). lia. }
      destruct (check tBIND s) eqn:C5.
      { pose proof (SEp_bind_stmt _ _ (SE_refl _ JA)) as G1.
        split; [apply SE_SS; [exact HL|eapply SE_trans; eassumption]|]. left.
        pose proof (SE_len _ _ G1). lia. }
      destruct (0 <? depth s)%Z eqn:C6.
      { destruct (expr_fn_tot f s HJ ltac:(lia)) as [G1 G2].
        pose proof (SEp_emit_op _ opPOP _ G1) as G.
        split; [apply SE_SS; assumption|]. left. pose proof (SE_len _ _ G). 
        pose proof (SE_len _ _ (SEp_emit_op _ opPOP _ (SE_refl _ (SE_J _ _ G1)))). lia. }
      split; [apply SE_SS; [exact HL|apply SEp_perrc, SE_refl, HJ]|]. right.
      repeat split; try assumption. lia. }
    destruct C as [C1 C2].
    destruct (decl_finish_tot f s _ C1 ltac:(lia)) as [F1 F2].
    split; [exact F1|]. intros Ee. destruct C2 as [C2|(E & D0 & K1 & K2 & K3 & K4)]; [lia|].
    rewrite E. unfold decl_finish.
    change (panicMode (perrc "expected statement" s)) with true.
    change (depth (perrc "expected statement" s)) with (depth s). rewrite D0. cbn [andb Z.eqb].
    set (x := perrc "expected statement" s).
    assert (Hx : SE s x) by (apply SEp_perrc, SE_refl, HJ).
    assert (Lx : len x = len s) by reflexivity.
    rewrite <- Lx. apply sync_strict; [apply (SE_J _ _ Hx)|lia|exact Ee|exact K1|exact K2|exact K3|exact K4].
  - (* block_stmt *)
    intros s (HJ & HL & HD) Hf. rewrite block_stmt_S2.
    pose proof (SE_refl s HJ) as R.
    assert (Hfin : forall x, SE s x -> SS s x) by (intros x Hx; apply SE_SS; assumption).
    assert (Htail : forall x, SE s x -> SS s (block_tail f x)).
    { intros x Hx. unfold block_tail. cbv zeta.
      destruct (begin_scope_fields x) as (T1 & T2 & T3 & T4 & T5 & T6 & T7).
      destruct Hx as ((X1 & X2 & X3 & X4 & X5) & X6 & X7).
      assert (Ib : Inv (begin_scope x)).
      { unfold Inv, J, LI in *. rewrite T1, T2, T5, T6, T7. repeat split; [exact X1|congruence|lia]. }
      assert (Lb : (len (begin_scope x) = len x)%nat) by (unfold len; rewrite T1; reflexivity).
      pose proof (IHl (begin_scope x) Ib ltac:(lia)) as G8.
      revert G8. generalize (block_loop f (begin_scope x)). intros s8 G8.
      assert (G9 : SE s8 (if hadLexFail s8 then s8 else consume tRCURLY "expected '}'" s8)).
      { destruct (hadLexFail s8); [apply SE_refl, (SS_J _ _ G8)|apply SEp_consume, SE_refl, (SS_J _ _ G8)]. }
      revert G9. generalize (if hadLexFail s8 then s8 else consume tRCURLY "expected '}'" s8). intros s9 G9.
      pose proof (SS_SE _ _ _ G8 G9) as ((Y1 & Y2 & Y3 & Y4 & Y5) & Y6).
      destruct (end_scope_tot s9 Y1 Y6) as (E1 & E2 & E3 & E4 & E5 & E6).
      pose proof (SEp_emit_op _ opENDBLOCK _ (SE_refl _ E1)) as ((Z1 & Z2 & Z3 & Z4 & Z5) & Z6 & Z7).
      unfold SS, SW, LI in *. rewrite Z3, Z4, Z5, Z6, Z7.
      repeat split; [exact Z1|lia|congruence|congruence|lia|exact E6]. }
    clear IHd IHb IHl. pauto (SE s).
  - (* block_loop *)
    intros s (HJ & HL & HD) Hf. rewrite block_loop_S.
    destruct (check tRCURLY s || check_end s) eqn:Ec; [apply SS_refl; assumption|].
    apply orb_false_elim in Ec. destruct Ec as [_ Ec].
    assert (Ee : isend (cur_ s) = false) by exact Ec.
    pose proof (J_len s HJ Ee) as L1.
    destruct (IHd s (conj HJ (conj HL HD)) ltac:(lia)) as [G1 G1'].
    specialize (G1' Ee). revert G1 G1'. generalize (decl f s). intros s1 G1 G1'. cbv zeta.
    assert (G2 : SE s1 (if panicMode s1 then advance s1 else s1)).
    { destruct (panicMode s1); [apply SEp_advance|]; apply SE_refl, (SS_J _ _ G1). }
    revert G2. generalize (if panicMode s1 then advance s1 else s1). intros s2 G2.
    pose proof (SEp_pmatch _ tSEMICOLON _ G2) as G3.
    destruct (pmatch tSEMICOLON s2) as [m s3]. cbn [snd] in G3.
    pose proof (SS_SE _ _ _ G1 G3) as G4.
    destruct (oof s3 || ppanic s3); [exact G4|].
    eapply SS_trans; [exact G4|]. apply IHl; [apply (SS_Inv _ _ HD G4)|].
    pose proof (SE_len _ _ G3). lia.
Qed.

Lemma decl_tot : forall f s, Inv s -> (3 * len s + 3 <= f)%nat ->
  SS s (decl f s) /\ (isend (cur_ s) = false -> (len (decl f s) <= pred (len s))%nat).
Proof. intros f. apply (stmt_tot f). Qed.

(* ================================================================== *)
(* 7. the toplevel loop, the whole parser                              *)
(* ================================================================== *)

Lemma top_loop_tot : forall f s, Inv s -> (3 * len s + 4 <= f)%nat -> SS s (top_loop f s).
Proof.
  induction f as [|f IH]; intros s (HJ & HL & HD) Hf; [lia|]. cbn [top_loop]. unfold match_end.
  destruct (check_end s) eqn:Ec.
  - apply SE_SS; [exact HL|]. apply SEp_advance, SE_refl, HJ.
  - assert (Ee : isend (cur_ s) = false) by exact Ec.
    pose proof (J_len s HJ Ee) as L1.
    destruct (decl_tot f s (conj HJ (conj HL HD)) ltac:(lia)) as [G1 G1'].
    specialize (G1' Ee). revert G1 G1'. generalize (decl f s). intros s2 G1 G1'.
    pose proof (SEp_pmatch _ tSEMICOLON _ (SE_refl _ (SS_J _ _ G1))) as G3.
    destruct (pmatch tSEMICOLON s2) as [m s3]. cbn [snd] in G3.
    pose proof (SS_SE _ _ _ G1 G3) as G4.
    destruct (oof s3 || ppanic s3); [exact G4|].
    eapply SS_trans; [exact G4|]. apply IH; [apply (SS_Inv _ _ HD G4)|].
    pose proof (SE_len _ _ G3). lia.
Qed.

Lemma lex_shape_last : forall ts d, lex_shape ts -> isend (last ts d) = true.
Proof.
  intros ts d (body & _ & [(e & He & ->)|(e & f & He & Hf & ->)]).
  - rewrite last_last. unfold isend. rewrite He. reflexivity.
  - change [e; f] with ([e] ++ [f]). rewrite app_assoc, last_last. unfold isend. rewrite Hf. reflexivity.
Qed.

(* the statement for every token list whose last token is tEOF or tFAIL *)
Theorem parser_total_last : forall ts, isend (last ts tok0) = true ->
  oof (parse_tokens ts) = false /\ ppanic (parse_tokens ts) = false.
Proof.
  intros ts Hl.
  assert (I0 : Inv (init_pst ts)).
  { unfold Inv, J, LI, init_pst. cbn [toks cur_ nlocals locals depth length]. repeat split; [exact Hl|lia]. }
  destruct I0 as (J0 & L0 & D0).
  destruct (advance_tot _ J0) as (A1 & A2 & _).
  assert (La : (len (advance (init_pst ts)) <= length ts)%nat).
  { change (len (init_pst ts)) with (length ts) in A2. lia. }
  pose proof (SE_SS _ _ L0 A1) as A3.
  assert (G : SS (init_pst ts) (top_loop (parse_fuel ts) (advance (init_pst ts)))).
  { eapply SS_trans; [exact A3|]. apply top_loop_tot; [apply (SS_Inv _ _ D0 A3)|].
    unfold parse_fuel. lia. }
  unfold parse_tokens. revert G. generalize (top_loop (parse_fuel ts) (advance (init_pst ts))).
  intros s ((G1 & _ & G3 & G4 & _) & _). cbv zeta.
  change (oof (init_pst ts)) with false in G3. change (ppanic (init_pst ts)) with false in G4.
  destruct (hadError s || oof s || ppanic s); [split; assumption|].
  pose proof (SEp_emit_op s opRET _ (SEp_pop_n s (nlocals s) s (SE_refl s G1))) as ((_ & _ & E3 & E4 & _) & _).
  split; congruence.
Qed.

Theorem parser_total : forall ts, lex_shape ts ->
  oof (parse_tokens ts) = false /\ ppanic (parse_tokens ts) = false.
Proof. intros ts H. apply parser_total_last, lex_shape_last, H. Qed.
Print Assumptions parser_total.

Theorem parse_total : forall name cs,
  pr_oof (parse_chunks name cs) = false /\ pr_panic (parse_chunks name cs) = false.
Proof.
  intros name cs. destruct (parse_chunks_fields name cs) as (_ & _ & -> & -> & _).
  unfold pst_of. apply parser_total, lex_tokens_shape.
Qed.
Print Assumptions parse_total.

(* Interpret never ends in the model's "parser out of fuel" / "parser panic site" outcome *)
Corollary interpret_parser_total : forall name src d t s,
  snd (interpret name src d t s) <> IModelFail (bs "parser out of fuel") /\
  snd (interpret name src d t s) <> IModelFail (bs "parser panic site").
Proof.
  intros name src d t s. unfold interpret, parse_whole.
  destruct (parse_total name [src]) as [E1 E2]. cbv zeta. rewrite E1, E2.
  destruct (negb (pr_ok (parse_chunks name [src]))); cbn [snd]; split; discriminate.
Qed.
Print Assumptions interpret_parser_total.

(* non-vacuity on rejected inputs: deep unclosed nesting, operator runs, unclosed blocks, a lexing
   failure after errors -- all rejected (pr_ok = false), none out of fuel, none at a panic site *)
Definition rp (s : bytes) (n : nat) : bytes := concat (repeat s n).
Definition flags (src : bytes) : bool * bool * bool :=
  let pr := parse_whole (bs "f") src in (pr_ok pr, pr_oof pr, pr_panic pr).
Example rejected_deep_parens : flags (rp (bs "(") 500) = (false, false, false).
Proof. vm_compute. reflexivity. Qed.
Example rejected_minus_run : flags (rp (bs "- ") 500) = (false, false, false).
Proof. vm_compute. reflexivity. Qed.
Example rejected_open_blocks : flags (rp (bs "def x { a = (") 300) = (false, false, false).
Proof. vm_compute. reflexivity. Qed.
Example rejected_lexfail : flags (rp (bs "def x { ( ") 300 ++ bs "$") = (false, false, false).
Proof. vm_compute. reflexivity. Qed.
