(* T2Proofs.v: theorem T2 -- the one-pass Pratt parser of Model/Parser.v is the grammar of
   Spec/Syntax.v followed by the code generator of Model/Compile.v.  (Expressions: T2Expr.v.)

   Part I  (sections 1-8): statements.  decl / var_decl / block_stmt / block_loop / bind_stmt
     against pstmt / pitems / pbind followed by cstmt / cstmts.
   Part II: the toplevel loop, and for every token list of the lexer's shape:
     T2_sound      grammar accepts and generator reports no error  ==>  the parser accepts, does not
                   run out of fuel, does not panic, and produces the same code, constants, counts and
                   identifier table
     T2_complete   the parser accepts (no error, no fuel exhaustion, no panic)  ==>  the grammar
                   accepts and the generator reports no error
     T2_accepts_iff, T2_code_equal: the two together. *)
From Coq Require Import Lia ZifyN ZifyNat ZifyBool.
From RecordUpdate Require Import RecordSet.
From BCL Require Import Model.Compile Proofs.LineCalcProofs Proofs.ParserInvProofs Proofs.T2Expr.
Import RecordSetNotations.
Open Scope N_scope.

(* ================================================================== *)
(* 1. scope depth and locals are untouched by everything but scopes    *)
(* ================================================================== *)

Definition dl (s' s : pst) : Prop := depth s' = depth s /\ locals s' = locals s.
Lemma dl_refl : forall s, dl s s.
Proof. intros. split; reflexivity. Qed.
Lemma dl_trans : forall a b c, dl a b -> dl b c -> dl a c.
Proof. intros a b c [H1 H2] [H3 H4]. split; congruence. Qed.

Create HintDb dl.
Lemma dl_write : forall b s' s, dl s' s -> dl (write b s') s.
Proof. intros b s' s H. exact H. Qed.
Lemma dl_emit_op : forall o s' s, dl s' s -> dl (emit_op o s') s.
Proof. intros o s' s H. exact H. Qed.
Lemma dl_emit_bytes : forall bb s' s, dl s' s -> dl (emit_bytes bb s') s.
Proof.
  unfold emit_bytes. induction bb as [|b bb IH]; intros s' s H; cbn [fold_left]; [exact H|].
  apply IH, dl_write, H.
Qed.
Lemma dl_emit_uvarint : forall x s' s, dl s' s -> dl (emit_uvarint x s') s.
Proof. intros. apply dl_emit_bytes. assumption. Qed.
Lemma dl_emit_ops : forall os s' s, dl s' s -> dl (emit_ops os s') s.
Proof.
  unfold emit_ops. induction os as [|o os IH]; intros s' s H; cbn [fold_left]; [exact H|].
  apply IH, dl_emit_op, H.
Qed.
Lemma dl_error_at : forall t m s' s, dl s' s -> dl (error_at t m s') s.
Proof. intros t m s' s H. exact H. Qed.
Lemma dl_perr : forall m s' s, dl s' s -> dl (perr m s') s.
Proof. intros m s' s H. exact H. Qed.
Lemma dl_make_const : forall v s' s, dl s' s -> dl (snd (make_const v s')) s.
Proof.
  intros v s' s H. unfold make_const. destruct v as [| | | |[|b r]|]; try exact H.
  destruct (assoc_bytes [] (identRefs s')); exact H.
Qed.
Lemma dl_ident_const : forall n s' s, dl s' s -> dl (snd (ident_const n s')) s.
Proof.
  intros n s' s H. unfold ident_const. destruct (assoc_bytes n (identRefs s')); [exact H|].
  pose proof (dl_make_const (VStr n) s' s H) as H1.
  destruct (make_const (VStr n) s') as [i s1]. exact H1.
Qed.
Lemma dl_emit_const : forall v s' s, dl s' s -> dl (emit_const v s') s.
Proof.
  intros v s' s H. rewrite emit_const_eq. apply dl_emit_uvarint, dl_emit_op, dl_make_const, H.
Qed.
Lemma dl_emit_jump : forall o s' s, dl s' s -> dl (snd (emit_jump o s')) s.
Proof. intros o s' s H. unfold emit_jump. cbn [snd]. apply dl_emit_bytes, dl_emit_op, H. Qed.
Lemma dl_patch_jump : forall o s' s, dl s' s -> dl (patch_jump o s') s.
Proof. intros o s' s H. unfold patch_jump. cbv zeta. destruct (_ <? _); exact H. Qed.
Lemma dl_pop_n : forall n s' s, dl s' s -> dl (pop_n n s') s.
Proof.
  intros n s' s H. unfold pop_n. destruct (n =? 0); [exact H|]. destruct (n =? 1); [exact H|].
  apply dl_emit_uvarint, dl_emit_op, H.
Qed.
Lemma dl_clit : forall v s' s, dl s' s -> dl (clit v s') s.
Proof.
  intros v s' s H. destruct v as [|[|]|z| | |].
  4: { rewrite clit_int. destruct (z =? 0)%Z; [exact H|]. destruct (z =? 1)%Z; [exact H|apply dl_emit_const, H]. }
  all: cbn [clit]; try (apply dl_emit_const, H); try exact H.
Qed.
#[export] Hint Resolve dl_refl dl_write dl_emit_op dl_emit_bytes dl_emit_uvarint dl_emit_ops dl_error_at
  dl_perr dl_make_const dl_ident_const dl_emit_const dl_emit_jump dl_patch_jump dl_pop_n dl_clit : dl.

Lemma dl_cexpr : forall e s' s, dl s' s -> dl (cexpr e s') s.
Proof.
  induction e; intros s' s H; cbn [cexpr].
  - auto with dl.
  - destruct (resolve_local _ _ _); [auto with dl|]. destruct (depth s' =? 0)%Z; [auto with dl|].
    rewrite let_pair. auto with dl.
  - destruct (resolve_local _ _ _); [auto with dl|]. destruct (depth s' =? 0)%Z; [auto with dl|].
    rewrite let_pair. auto 10 with dl.
  - auto with dl.
  - rewrite let_pair. auto 10 with dl.
  - rewrite !let_pair. auto 12 with dl.
  - auto with dl.
  - auto with dl.
  - auto with dl.
Qed.
#[export] Hint Resolve dl_cexpr : dl.

Lemma depth_cdecl_var : forall n s, depth (cdecl_var n s) = depth s.
Proof.
  intros n s. unfold cdecl_var.
  assert (H : forall ls d s, depth (decl_scan ls n d s) = depth s).
  { induction ls as [|[nm ld] r IH]; intros d s0; cbn [decl_scan]; [reflexivity|].
    destruct (_ && _); [reflexivity|]. rewrite IH. destruct (bytes_eqb n nm); reflexivity. }
  unfold add_local. destruct (_ =? _); cbn; apply H.
Qed.
Lemma depth_def_var : forall s, depth (def_var s) = depth s.
Proof. intros s. unfold def_var. destruct (locals s) as [|[nm z] r]; reflexivity. Qed.
Lemma depth_begin_scope : forall s, depth (begin_scope s) = (depth s + 1)%Z.
Proof. reflexivity. Qed.
Lemma depth_end_scope : forall s, depth (end_scope s) = (depth s - 1)%Z.
Proof.
  intros s. rewrite end_scope_eq.
  match goal with |- depth (pop_n ?n ?x) = _ => destruct (dl_pop_n n x x (dl_refl x)) as [E _]; rewrite E end.
  reflexivity.
Qed.

(* ================================================================== *)
(* 2. the code generator on statements                                 *)
(* ================================================================== *)

Definition block_open (typ name : bytes) (s : pst) : pst :=
  begin_scope
    (emit_uvarint (fst (make_const (VStr name) (snd (ident_const typ s))))
       (emit_uvarint (fst (ident_const typ s))
          (emit_op opDEFBLOCK (snd (make_const (VStr name) (snd (ident_const typ s))))))).

Lemma cstmts_eq : forall body s,
  (fix go (l : list stmt) (a : pst) : pst := match l with [] => a | x :: r => go r (cstmt x a) end) body s
  = cstmts body s.
Proof. unfold cstmts. induction body as [|x r IH]; intros s; cbn [fold_left]; [reflexivity|apply IH]. Qed.

Lemma cstmt_SDef : forall typ name body s,
  cstmt (SDef typ name body) s = emit_op opENDBLOCK (end_scope (cstmts body (block_open typ name s))).
Proof.
  intros. cbn [cstmt]. unfold block_open.
  destruct (ident_const typ s) as [ti s1]. cbn [fst snd].
  destruct (make_const (VStr name) s1) as [ni s2]. cbn [fst snd]. rewrite cstmts_eq. reflexivity.
Qed.

Lemma cstmts_cons : forall x r s, cstmts (x :: r) s = cstmts r (cstmt x s).
Proof. reflexivity. Qed.

Lemma EP_block_open : forall typ name, EP (block_open typ name).
Proof.
  intros typ name. unfold block_open.
  apply (EP_comp begin_scope); [apply EP_begin_scope|].
  apply (EP_bind (ident_const typ)
           (fun ti s1 => emit_uvarint (fst (make_const (VStr name) s1))
                           (emit_uvarint ti (emit_op opDEFBLOCK (snd (make_const (VStr name) s1)))))).
  - apply EP2_ident_const.
  - intros ti.
    apply (EP_bind (make_const (VStr name))
             (fun ni s2 => emit_uvarint ni (emit_uvarint ti (emit_op opDEFBLOCK s2)))).
    + apply EP2_make_const.
    + intros ni. apply (EP_comp (emit_uvarint ni)); [apply EP_emit_uvarint|].
      apply (EP_comp (emit_uvarint ti)); [apply EP_emit_uvarint|apply EP_emit_op].
Qed.

Lemma depth_block_open : forall typ name s, depth (block_open typ name s) = (depth s + 1)%Z.
Proof.
  intros. unfold block_open. rewrite depth_begin_scope. f_equal.
  assert (H : dl (emit_uvarint (fst (make_const (VStr name) (snd (ident_const typ s))))
       (emit_uvarint (fst (ident_const typ s))
          (emit_op opDEFBLOCK (snd (make_const (VStr name) (snd (ident_const typ s))))))) s)
    by auto 10 with dl.
  apply H.
Qed.

Lemma he_block_open : forall typ name s, hadError s = true -> hadError (block_open typ name s) = true.
Proof. intros typ name. apply he_EP, EP_block_open. Qed.
#[export] Hint Resolve he_block_open : he.

(* induction over statements with the nested list *)
Section StmtInd.
Variable P : stmt -> Prop.
Hypothesis HVar : forall x i, P (SVar x i).
Hypothesis HEval : forall e, P (SEval e).
Hypothesis HPrint : forall e, P (SPrint e).
Hypothesis HExpr : forall e, P (SExpr e).
Hypothesis HDef : forall typ name body, Forall P body -> P (SDef typ name body).
Hypothesis HBind : forall typ sel tg, P (SBind typ sel tg).
Fixpoint stmt_ind' (st : stmt) : P st :=
  match st with
  | SVar x i => HVar x i
  | SEval e => HEval e
  | SPrint e => HPrint e
  | SExpr e => HExpr e
  | SDef typ name body =>
      HDef typ name body
        ((fix go (l : list stmt) : Forall P l :=
            match l with [] => Forall_nil P | x :: r => Forall_cons x (stmt_ind' x) (go r) end) body)
  | SBind typ sel tg => HBind typ sel tg
  end.
End StmtInd.

Lemma he_cstmt : forall st s, hadError s = true -> hadError (cstmt st s) = true.
Proof.
  induction st as [x i|e|e|e|typ name body IHb|typ sel tg] using stmt_ind'; intros s H.
  - cbn [cstmt]. destruct i; auto 10 with he.
  - cbn [cstmt]. auto with he.
  - cbn [cstmt]. auto with he.
  - cbn [cstmt]. auto with he.
  - rewrite cstmt_SDef. apply he_emit_op, he_end_scope.
    assert (X : forall s0, hadError s0 = true -> hadError (cstmts body s0) = true).
    { clear s H. induction IHb as [|x r Hx Hr IH]; intros s0 H0; [exact H0|].
      rewrite cstmts_cons. apply IH, Hx, H0. }
    apply X, he_block_open, H.
  - cbn [cstmt]. rewrite let_pair. auto 10 with he.
Qed.
#[export] Hint Resolve he_cstmt : he.

Lemma he_cstmts : forall l s, hadError s = true -> hadError (cstmts l s) = true.
Proof.
  induction l as [|x r IH]; intros s H; [exact H|]. rewrite cstmts_cons. auto with he.
Qed.
#[export] Hint Resolve he_cstmts : he.

Lemma depth_cstmt : forall st s, depth (cstmt st s) = depth s.
Proof.
  induction st as [x i|e|e|e|typ name body IHb|typ sel tg] using stmt_ind'; intros s.
  - cbn [cstmt]. rewrite depth_def_var. destruct i.
    + destruct (dl_cexpr e _ _ (dl_refl (cdecl_var x s))) as [-> _]. apply depth_cdecl_var.
    + apply depth_cdecl_var.
  - cbn [cstmt]. apply (dl_cexpr e _ _ (dl_refl s)).
  - cbn [cstmt]. apply (dl_cexpr e _ _ (dl_refl s)).
  - cbn [cstmt]. apply (dl_cexpr e _ _ (dl_refl s)).
  - rewrite cstmt_SDef.
    assert (X : forall s0, depth (cstmts body s0) = depth s0).
    { induction IHb as [|x r Hx Hr IH]; intros s0; [reflexivity|]. rewrite cstmts_cons, IH. apply Hx. }
    change (depth (end_scope (cstmts body (block_open typ name s))) = depth s).
    rewrite depth_end_scope, X, depth_block_open. lia.
  - cbn [cstmt]. rewrite let_pair.
    assert (H : dl (write (N.lor (N.land (tgt_code tg) 240) (N.land (sel_code sel) 15))
                 (emit_uvarint (fst (ident_const typ (emit_op opBIND s)))
                    (snd (ident_const typ (emit_op opBIND s))))) s) by auto 10 with dl.
    apply H.
Qed.

(* ================================================================== *)
(* 3. the statement grammar in named pieces; it consumes input         *)
(* ================================================================== *)

Definition pvar (f : nat) (r : list token) : option (stmt * list token) :=
  match r with
  | x :: r1 =>
    if tok_eqb (ttyp x) tIDENT then
      if tok_eqb (hd_typ r1) tEQ then
        match pexpr f lvl_assign (tl r1) with
        | Some (e, r2) => Some (SVar (tval x) (Some e), r2) | None => None end
      else Some (SVar (tval x) None, r1)
    else None
  | [] => None
  end.

Definition pdef_name (r1 : list token) : option bytes * list token :=
  match r1 with
  | s :: r' => if tok_eqb (ttyp s) tSTR then (unquote (tval s), r') else (Some [], r1)
  | [] => (Some [], r1)
  end.

Definition pdef_close (ty name : bytes) (body : list stmt) (r4 : list token) : option (stmt * list token) :=
  match r4 with
  | c :: r5 => if tok_eqb (ttyp c) tRCURLY then Some (SDef ty name body, r5) else None
  | [] => None
  end.

Definition pdef (f : nat) (r : list token) : option (stmt * list token) :=
  match r with
  | ty :: r1 =>
    if negb (tok_eqb (ttyp ty) tIDENT) then None else
    let '(nm, r2) := pdef_name r1 in
    match nm, r2 with
    | Some name, l :: r3 =>
      if tok_eqb (ttyp l) tLCURLY then
        match pitems f r3 with
        | Some (body, r4) => pdef_close (tval ty) name body r4
        | None => None
        end
      else None
    | _, _ => None
    end
  | [] => None
  end.

Lemma pstmt_S : forall f b ts,
  pstmt (S f) b ts =
    match ts with
    | [] => None
    | t :: r =>
      match ttyp t with
      | tVAR => pvar f r
      | tPRINT => match pexpr f lvl_assign r with Some (e, r1) => Some (SPrint e, r1) | None => None end
      | tEVAL => match pexpr f lvl_assign r with Some (e, r1) => Some (SEval e, r1) | None => None end
      | tBIND => pbind r
      | tDEF => pdef f r
      | _ => if b then
               match pexpr f lvl_assign ts with Some (e, r1) => Some (SExpr e, r1) | None => None end
             else None
      end
    end.
Proof. reflexivity. Qed.

Lemma pitems_S : forall f ts,
  pitems (S f) ts =
    match hd_typ ts with
    | tRCURLY | tEOF | tFAIL => Some ([], ts)
    | _ => match pstmt f true ts with
           | Some (s, r) => match pitems f (skip_semi r) with
                            | Some (ss, r') => Some (s :: ss, r') | None => None end
           | None => None
           end
    end.
Proof. reflexivity. Qed.

Definition psel (r : list token) : option bsel * list token :=
  match r with
  | c :: s :: r' =>
    if tok_eqb (ttyp c) tCOLON then
      if tok_eqb (ttyp s) tINT then (if bytes_eqb (tval s) [49] then Some BSone else None, r')
      else if tok_eqb (ttyp s) tIDENT then
        ((if is_lit (tval s) "first" then Some BSfirst else if is_lit (tval s) "last" then Some BSlast
          else if is_lit (tval s) "all" then Some BSall else None), r')
      else (None, r')
    else (Some BSone, r)
  | _ => (Some BSone, r)
  end.

Definition ptgt (ty : bytes) (sl : bsel) (r1 : list token) : option (stmt * list token) :=
  match r1 with
  | a :: tg :: r2 =>
    if tok_eqb (ttyp a) tARROW && tok_eqb (ttyp tg) tIDENT then
      let tgo := if is_lit (tval tg) "struct" then Some BTstruct
                 else if is_lit (tval tg) "slice" then Some BTslice else None in
      match tgo with
      | Some BTstruct => match sl with BSall => None | _ => Some (SBind ty sl BTstruct, r2) end
      | Some BTslice => Some (SBind ty sl BTslice, r2)
      | None => None
      end
    else None
  | _ => None
  end.

Lemma pbind_eq : forall ts,
  pbind ts =
    match ts with
    | ty :: r =>
      if negb (tok_eqb (ttyp ty) tIDENT) then None else
      match fst (psel r) with
      | Some sl => ptgt (tval ty) sl (snd (psel r))
      | None => None
      end
    | [] => None
    end.
Proof.
  intros [|ty r]; [reflexivity|]. unfold pbind. destruct (negb _); [reflexivity|].
  fold (psel r). destruct (psel r) as [[sl|] r1]; cbn [fst snd]; [|reflexivity].
  unfold ptgt. destruct r1 as [|a [|tg r2]]; reflexivity.
Qed.

Ltac gdestr H :=
  repeat (match type of H with
          | match ?x with _ => _ end = Some _ =>
              let E := fresh "E" in destruct x eqn:E; try discriminate H
          end).

Lemma suf_tl_l : forall r ts, suf r (tl ts) -> suf r ts.
Proof. intros r ts H. eapply suf_trans; [exact H|apply suf_tl]. Qed.
Lemma suf_skip_l : forall r ts, suf r (skip_semi ts) -> suf r ts.
Proof. intros r ts H. eapply suf_trans; [exact H|apply suf_skip_semi]. Qed.
Create HintDb suf.
#[export] Hint Resolve suf_refl suf_cons ssuf_cons ssuf_suf suf_tl_l : suf.

Lemma psel_suf : forall r, suf (snd (psel r)) r.
Proof.
  intros r. unfold psel. destruct r as [|c [|s r']]; cbn [snd]; auto with suf.
  destruct (tok_eqb (ttyp c) tCOLON); cbn [snd]; auto with suf.
  destruct (tok_eqb (ttyp s) tINT); cbn [snd]; auto with suf.
  destruct (tok_eqb (ttyp s) tIDENT); cbn [snd]; auto with suf.
Qed.

Lemma ptgt_ssuf : forall ty sl r1 st r, ptgt ty sl r1 = Some (st, r) -> ssuf r r1.
Proof.
  intros ty sl r1 st r H. unfold ptgt in H. cbv zeta in H. gdestr H; injection H as _ <-; auto with suf.
Qed.

Lemma pbind_ssuf : forall ts st r, pbind ts = Some (st, r) -> ssuf r ts.
Proof.
  intros ts st r H. rewrite pbind_eq in H. gdestr H. apply ptgt_ssuf in H.
  apply ssuf_cons. eapply suf_trans; [apply ssuf_suf, H|apply psel_suf].
Qed.

Lemma pvar_ssuf : forall f r st r2, pvar f r = Some (st, r2) -> ssuf r2 r.
Proof.
  intros f r st r2 H. unfold pvar in H. gdestr H; injection H as _ <-; auto with suf.
  apply pexpr_ssuf in E2. auto with suf.
Qed.

Lemma pdef_name_suf : forall r1, suf (snd (pdef_name r1)) r1.
Proof.
  intros [|s r']; cbn [pdef_name snd]; auto with suf.
  destruct (tok_eqb _ _); cbn [snd]; auto with suf.
Qed.

Lemma pdef_ssuf : forall f, (forall ts b r, pitems f ts = Some (b, r) -> suf r ts) ->
  forall r st r2, pdef f r = Some (st, r2) -> ssuf r2 r.
Proof.
  intros f IH r st r2 H. unfold pdef in H. destruct r as [|ty r1]; [discriminate|].
  destruct (negb _); [discriminate|]. pose proof (pdef_name_suf r1) as Hn.
  destruct (pdef_name r1) as [nm r2']. cbn [snd] in Hn.
  destruct nm as [name|]; [|discriminate]. destruct r2' as [|l r3]; [discriminate|].
  destruct (tok_eqb (ttyp l) tLCURLY); [|discriminate].
  destruct (pitems f r3) as [[body r4]|] eqn:Ei; [|discriminate]. apply IH in Ei.
  unfold pdef_close in H. destruct r4 as [|c r5]; [discriminate|].
  destruct (tok_eqb _ _); [|discriminate]. injection H as _ <-.
  apply ssuf_cons. eapply suf_trans; [|exact Hn]. apply suf_cons.
  eapply suf_trans; [|exact Ei]. apply suf_cons, suf_refl.
Qed.

Lemma stmt_suf : forall f,
  (forall b ts st r, pstmt f b ts = Some (st, r) -> ssuf r ts) /\
  (forall ts body r, pitems f ts = Some (body, r) -> suf r ts).
Proof.
  induction f as [|f [IHs IHi]]; [split; intros; discriminate|]. split.
  - intros b ts st r H. rewrite pstmt_S in H. destruct ts as [|t ts]; [discriminate|].
    destruct (ttyp t); try discriminate H;
      try (destruct b; [|discriminate H];
           destruct (pexpr f lvl_assign (t :: ts)) as [[e r1]|] eqn:E; [|discriminate H];
           injection H as _ <-; apply (pexpr_ssuf _ _ _ _ _ E)).
    + apply pvar_ssuf in H. auto with suf.
    + apply (pdef_ssuf f IHi) in H. auto with suf.
    + destruct (pexpr f lvl_assign ts) as [[e r1]|] eqn:E; [|discriminate H].
      injection H as _ <-. apply pexpr_ssuf in E. auto with suf.
    + destruct (pexpr f lvl_assign ts) as [[e r1]|] eqn:E; [|discriminate H].
      injection H as _ <-. apply pexpr_ssuf in E. auto with suf.
    + apply pbind_ssuf in H. auto with suf.
  - intros ts body r H. rewrite pitems_S in H.
    assert (X : match pstmt f true ts with
                | Some (s, r) => match pitems f (skip_semi r) with
                                 | Some (ss, r') => Some (s :: ss, r') | None => None end
                | None => None end = Some (body, r) -> suf r ts).
    { intros H'. destruct (pstmt f true ts) as [[s r1]|] eqn:E; [|discriminate].
      destruct (pitems f (skip_semi r1)) as [[ss r']|] eqn:E2; [|discriminate]. injection H' as _ <-.
      eapply suf_trans; [apply (IHi _ _ _ E2)|]. eapply suf_trans; [apply suf_skip_semi|].
      apply ssuf_suf, (IHs _ _ _ _ E). }
    destruct (hd_typ ts); try (apply X, H); injection H as _ <-; apply suf_refl.
Qed.

(* ================================================================== *)
(* 4. the parser's statement functions in named pieces                 *)
(* ================================================================== *)

Ltac zeta1 :=
  lazymatch goal with
  | |- (let x := ?e in @?L x) = ?R => let t := eval cbv beta in (L e) in change (t = R)
  end.

(* Note on the unfolding equations below: they are proved by walking through the `let`s with the
   intermediate states abstracted to variables.  Comparing the zeta-expanded body of bind_stmt with a
   folded form by conversion (reflexivity / cbv zeta) takes minutes in tactic mode and again at Qed,
   because the states s1..s7 are duplicated exponentially; with variables it is immediate. *)
(* ---- bind ---- *)
Definition errsel := bs "expected 1,first,last,all as a block selector".
Definition errtgt := bs "expected bind target ('struct' or 'slice')".

Definition bind_sel (s1 : pst) : N * pst :=
  let '(colon, s2) := pmatch tCOLON s1 in
  if colon then
    let '(mi, a) := pmatch tINT s2 in
    if mi then (bindOne, if bytes_eqb (tval (prev a)) [49] then a else perror errsel a)
    else
      let '(mid, b) := pmatch tIDENT s2 in
      if mid then
        let v := tval (prev b) in
        if is_lit v "first" then (bindFirst, b)
        else if is_lit v "last" then (bindLast, b)
        else if is_lit v "all" then (bindAll, b)
        else (bindOne, perror errsel b)
      else (bindOne, error_at_current errsel b)
  else (bindOne, s2).

Definition bind_emit (blockType : bytes) (target sel : N) (s7 : pst) : pst :=
  let '(idx, s8) := ident_const blockType (emit_op opBIND s7) in
  write (N.lor (N.land target 240) (N.land sel 15)) (emit_uvarint idx s8).

Definition bind_rest3 (blockType : bytes) (sel : N) (s5 : pst) : pst :=
  let v := tval (prev s5) in
  let '(target, s6) := if is_lit v "struct" then (bindStruct, s5)
                       else if is_lit v "slice" then (bindSlice, s5)
                       else (0, perror errtgt s5) in
  let s7 := if (sel =? bindAll) && negb (target =? bindSlice)
            then perr "bind of multiple blocks requires slice target" s6 else s6 in
  if panicMode s7 then s7 else bind_emit blockType target sel s7.

Definition bind_rest2 (blockType : bytes) (sel : N) (s4 : pst) : pst :=
  let s5 := if check tIDENT s4 then advance s4 else error_at_current errtgt s4 in
  if panicMode s5 then s5 else bind_rest3 blockType sel s5.

Definition bind_rest (blockType : bytes) (sel : N) (s3 : pst) : pst :=
  let s4 := consume tARROW "expected '->'" s3 in
  if panicMode s4 then s4 else bind_rest2 blockType sel s4.

Lemma bind_rest_eq : forall blockType sel s3, bind_rest blockType sel s3 =
  let s4 := consume tARROW "expected '->'" s3 in
  if panicMode s4 then s4 else
  let errtgt := bs "expected bind target ('struct' or 'slice')" in
  let s5 := if check tIDENT s4 then advance s4 else error_at_current errtgt s4 in
  if panicMode s5 then s5 else
  let v := tval (prev s5) in
  let '(target, s6) := if is_lit v "struct" then (bindStruct, s5)
                       else if is_lit v "slice" then (bindSlice, s5)
                       else (0, perror errtgt s5) in
  let s7 := if (sel =? bindAll) && negb (target =? bindSlice)
            then perr "bind of multiple blocks requires slice target" s6 else s6 in
  if panicMode s7 then s7 else
  let '(idx, s8) := ident_const blockType (emit_op opBIND s7) in
  write (N.lor (N.land target 240) (N.land sel 15)) (emit_uvarint idx s8).
Proof. reflexivity. Qed.

Lemma bind_stmt_eq : forall s,
  bind_stmt s =
    let s1 := consume tIDENT "expected block type" s in
    if panicMode s1 then s1 else bind_rest (tval (prev s1)) (fst (bind_sel s1)) (snd (bind_sel s1)).
Proof.
  intros s. cbv beta delta [bind_stmt].
  lazymatch goal with
  | |- (let x := ?e in @?L x) = (let y := ?e in @?R y) =>
      generalize e; intros s1; change (L s1 = R s1); cbv beta
  end.
  destruct (panicMode s1); [reflexivity|].
  zeta1. zeta1. change (bs "expected 1,first,last,all as a block selector") with errsel.
  cbv beta delta [bind_sel]. destruct (pmatch tCOLON s1) as [colon s2]. destruct colon.
  2: { cbv beta iota. cbn [fst snd]. symmetry. apply bind_rest_eq. }
  destruct (pmatch tINT s2) as [mi a]. destruct mi.
  { cbv beta iota. cbn [fst snd].
    generalize (if bytes_eqb (tval (prev a)) [49] then a else perror errsel a). intros x.
    symmetry. apply bind_rest_eq. }
  destruct (pmatch tIDENT s2) as [mid b]. destruct mid.
  2: { cbv beta iota. cbn [fst snd]. generalize (error_at_current errsel b). intros x.
       symmetry. apply bind_rest_eq. }
  repeat match goal with
    | |- context C [let v := tval (prev b) in @?B v] =>
        let t := eval cbv beta in (B (tval (prev b))) in let g := context C [t] in change g
    end.
  destruct (is_lit _ "first"); [cbv beta iota; cbn [fst snd]; symmetry; apply bind_rest_eq|].
  destruct (is_lit _ "last"); [cbv beta iota; cbn [fst snd]; symmetry; apply bind_rest_eq|].
  destruct (is_lit _ "all"); [cbv beta iota; cbn [fst snd]; symmetry; apply bind_rest_eq|].
  cbv beta iota. cbn [fst snd]. generalize (perror errsel b). intros x. symmetry. apply bind_rest_eq.
Qed.

(* ---- var ---- *)
Definition var_rest (F : nat) (s2 : pst) : pst :=
  def_var (if fst (pmatch tEQ s2) then Parser.expr F (snd (pmatch tEQ s2))
           else emit_op opNIL (snd (pmatch tEQ s2))).

Lemma var_decl_eq : forall F s,
  var_decl F s =
    let s1 := consume tIDENT "expected variable name" s in
    if panicMode s1 then s1 else var_rest F (decl_var s1).
Proof.
  intros F s. cbv beta delta [var_decl var_rest].
  lazymatch goal with
  | |- (let x := ?e in @?L x) = (let y := ?e in @?R y) =>
      generalize e; intros s1; change (L s1 = R s1); cbv beta
  end.
  destruct (panicMode s1); [reflexivity|]. zeta1. generalize (decl_var s1). intros s2.
  destruct (pmatch tEQ s2) as [m s3]. reflexivity.
Qed.

(* ---- def ---- *)
Definition block_name (s1 : pst) : bytes * pst :=
  let '(ms, s2) := pmatch tSTR s1 in
  if ms then match unquote (tval (prev s2)) with
             | Some v => (v, s2)
             | None => ([], perror (bs "invalid string literal: invalid syntax") s2)
             end
  else ([], s2).

Definition block_close (s8 : pst) : pst :=
  emit_op opENDBLOCK (end_scope (if hadLexFail s8 then s8 else consume tRCURLY "expected '}'" s8)).

Definition block_body (f : nat) (blockType blockName : bytes) (s3 : pst) : pst :=
  block_close (block_loop f (block_open blockType blockName (consume tLCURLY "expected '{'" s3))).

Lemma block_body_eq : forall f blockType blockName s3,
  block_body f blockType blockName s3 =
    let s4 := consume tLCURLY "expected '{'" s3 in
    let '(ti, s5) := ident_const blockType s4 in
    let '(ni, s6) := make_const (VStr blockName) s5 in
    let s7 := emit_uvarint ni (emit_uvarint ti (emit_op opDEFBLOCK s6)) in
    let s8 := block_loop f (begin_scope s7) in
    let s9 := if hadLexFail s8 then s8 else consume tRCURLY "expected '}'" s8 in
    emit_op opENDBLOCK (end_scope s9).
Proof.
  intros. cbv beta delta [block_body block_close block_open].
  generalize (consume tLCURLY "expected '{'" s3). intros s4. symmetry. zeta1.
  destruct (ident_const blockType s4) as [ti s5]. cbn [fst snd].
  destruct (make_const (VStr blockName) s5) as [ni s6]. reflexivity.
Qed.

Lemma block_stmt_S' : forall f s,
  block_stmt (S f) s =
    let s1 := consume tIDENT "expected block type" s in
    if panicMode s1 then s1 else
    block_body f (tval (prev s1)) (fst (block_name s1)) (snd (block_name s1)).
Proof.
  intros f s. rewrite block_stmt_S.
  lazymatch goal with
  | |- (let x := ?e in @?L x) = (let y := ?e in @?R y) =>
      generalize e; intros s1; change (L s1 = R s1); cbv beta
  end.
  destruct (panicMode s1); [reflexivity|]. zeta1.
  cbv beta delta [block_name]. destruct (pmatch tSTR s1) as [ms s2]. destruct ms.
  - destruct (unquote (tval (prev s2))) as [v|]; cbv beta iota; cbn [fst snd].
    + symmetry. apply block_body_eq.
    + generalize (perror (bs "invalid string literal: invalid syntax") s2). intros x.
      symmetry. apply block_body_eq.
  - cbv beta iota. cbn [fst snd]. symmetry. apply block_body_eq.
Qed.

(* ---- decl ---- *)
Definition decl_body (f : nat) (s : pst) : pst :=
  match ttyp (cur_ s) with
  | tVAR => var_decl f (advance s)
  | tPRINT => emit_op opPRINT (Parser.expr f (advance s))
  | tEVAL => emit_op opPOP (Parser.expr f (advance s))
  | tDEF => block_stmt f (advance s)
  | tBIND => bind_stmt (advance s)
  | _ => if (0 <? depth s)%Z then emit_op opPOP (Parser.expr f s) else perrc "expected statement" s
  end.

Definition decl_finish (f : nat) (s2 : pst) : pst :=
  if panicMode s2 && (depth s2 =? 0)%Z then sync f s2 else s2.

Definition decl_body0 (f : nat) (s : pst) : pst :=
  let '(mv, s1) := pmatch tVAR s in
  if mv then var_decl f s1
  else
    let '(mp, a) := pmatch tPRINT s1 in
    if mp then emit_op opPRINT (Parser.expr f a) else
    let '(me, b) := pmatch tEVAL a in
    if me then emit_op opPOP (Parser.expr f b) else
    let '(md, c) := pmatch tDEF b in
    if md then block_stmt f c else
    let '(mb, d) := pmatch tBIND c in
    if mb then bind_stmt d else
    if (0 <? depth d)%Z then emit_op opPOP (Parser.expr f d)
    else perrc "expected statement" d.

Lemma decl_body0_eq : forall f s, decl_body0 f s = decl_body f s.
Proof.
  intros f s. unfold decl_body0, decl_body, pmatch, check.
  destruct (ttyp (cur_ s)) eqn:E;
    repeat (cbv beta iota; rewrite ?E; cbn [tok_eqb tok_num N.eqb Pos.eqb]); reflexivity.
Qed.

Lemma decl_S' : forall f s, decl (S f) s = decl_finish f (decl_body f s).
Proof.
  intros f s. rewrite decl_S, <- decl_body0_eq. cbv beta delta [decl_body0 decl_finish].
  destruct (pmatch tVAR s) as [mv s1].
  lazymatch goal with
  | |- (let x := ?e in @?L x) = _ => generalize e; intros s2
  end.
  reflexivity.
Qed.

(* ---- loops ---- *)
Definition unpanic (s1 : pst) : pst := if panicMode s1 then advance s1 else s1.
Definition block_next (f : nat) (s3 : pst) : pst := if oof s3 || ppanic s3 then s3 else block_loop f s3.
Definition top_next (f : nat) (s3 : pst) : pst := if oof s3 || ppanic s3 then s3 else top_loop f s3.
Definition is_stop (t : tok) : bool := match t with tRCURLY | tEOF | tFAIL => true | _ => false end.

Lemma block_loop_S' : forall f s,
  block_loop (S f) s =
    if is_stop (ttyp (cur_ s)) then s
    else block_next f (snd (pmatch tSEMICOLON (unpanic (decl f s)))).
Proof.
  intros f s. rewrite block_loop_S.
  assert (E : check tRCURLY s || check_end s = is_stop (ttyp (cur_ s))).
  { unfold check, check_end. destruct (ttyp (cur_ s)); reflexivity. }
  rewrite E. destruct (is_stop _); [reflexivity|]. cbv zeta. fold (unpanic (decl f s)).
  destruct (pmatch tSEMICOLON (unpanic (decl f s))). reflexivity.
Qed.

Lemma top_loop_S' : forall f s,
  top_loop (S f) s =
    if check_end s then advance s
    else top_next f (snd (pmatch tSEMICOLON (decl f s))).
Proof.
  intros f s. cbn [top_loop]. unfold match_end. destruct (check_end s); [reflexivity|].
  destruct (pmatch tSEMICOLON (decl f s)). reflexivity.
Qed.

Lemma pitems_S' : forall f ts,
  pitems (S f) ts =
    if is_stop (hd_typ ts) then Some ([], ts)
    else match pstmt f true ts with
         | Some (s, r) => match pitems f (skip_semi r) with
                          | Some (ss, r') => Some (s :: ss, r') | None => None end
         | None => None
         end.
Proof. intros. rewrite pitems_S. destruct (hd_typ ts); reflexivity. Qed.

(* ================================================================== *)
(* 5. error monotonicity of the pieces; small simulation steps          *)
(* ================================================================== *)

Lemma he_var_rest : forall F s, hadError s = true -> hadError (var_rest F s) = true.
Proof. intros F s H. unfold var_rest. destruct (fst (pmatch tEQ s)); auto with he. Qed.
Lemma he_block_name : forall s, hadError s = true -> hadError (snd (block_name s)) = true.
Proof.
  intros s H. unfold block_name. rewrite let_pair. destruct (fst (pmatch tSTR s)); cbn [snd]; auto with he.
  destruct (unquote _); cbn [snd]; auto with he.
Qed.
Lemma he_block_close : forall s, hadError s = true -> hadError (block_close s) = true.
Proof. intros s H. unfold block_close. destruct (hadLexFail s); auto with he. Qed.
#[export] Hint Resolve he_var_rest he_block_name he_block_close : he.
Lemma he_block_body : forall f a b s, hadError s = true -> hadError (block_body f a b s) = true.
Proof. intros f a b s H. unfold block_body. auto 10 with he. Qed.
Lemma he_decl_finish : forall f s, hadError s = true -> hadError (decl_finish f s) = true.
Proof. intros f s H. unfold decl_finish. destruct (_ && _); auto with he. Qed.
Lemma he_unpanic : forall s, hadError s = true -> hadError (unpanic s) = true.
Proof. intros s H. unfold unpanic. destruct (panicMode s); auto with he. Qed.
Lemma he_block_next : forall f s, hadError s = true -> hadError (block_next f s) = true.
Proof. intros f s H. unfold block_next. destruct (_ || _); auto with he. Qed.
Lemma he_top_next : forall f s, hadError s = true -> hadError (top_next f s) = true.
Proof. intros f s H. unfold top_next. destruct (_ || _); auto with he. Qed.
Lemma EP_bind_emit : forall bt target sel, EP (bind_emit bt target sel).
Proof.
  intros bt target sel. unfold bind_emit.
  apply (EP_ext (fun s => write (N.lor (N.land target 240) (N.land sel 15))
                    (emit_uvarint (fst (ident_const bt (emit_op opBIND s)))
                       (snd (ident_const bt (emit_op opBIND s))))));
    [intros s; destruct (ident_const bt (emit_op opBIND s)); reflexivity|].
  apply (EP_comp (fun s1 => write (N.lor (N.land target 240) (N.land sel 15))
                              (emit_uvarint (fst (ident_const bt s1)) (snd (ident_const bt s1))))
                 (emit_op opBIND)); [|apply EP_emit_op].
  apply (EP_bind (ident_const bt)
           (fun idx s8 => write (N.lor (N.land target 240) (N.land sel 15)) (emit_uvarint idx s8))).
  - apply EP2_ident_const.
  - intros idx. apply (EP_comp (write _) (emit_uvarint idx)); [apply EP_write|apply EP_emit_uvarint].
Qed.
Lemma he_bind_emit : forall bt t sl s, hadError s = true -> hadError (bind_emit bt t sl s) = true.
Proof. intros bt t sl. apply he_EP, EP_bind_emit. Qed.
#[export] Hint Resolve he_block_body he_decl_finish he_unpanic he_block_next he_top_next he_bind_emit : he.

Lemma he_bind_rest3 : forall bt sel s, hadError s = true -> hadError (bind_rest3 bt sel s) = true.
Proof.
  intros bt sel s H. unfold bind_rest3. cbv zeta.
  destruct (is_lit _ "struct"); [|destruct (is_lit _ "slice")];
    destruct (_ && _); destruct (panicMode _); auto with he.
Qed.
Lemma he_bind_rest2 : forall bt sel s, hadError s = true -> hadError (bind_rest2 bt sel s) = true.
Proof.
  intros bt sel s H. unfold bind_rest2. cbv zeta.
  destruct (check tIDENT s); destruct (panicMode _); auto using he_bind_rest3 with he.
Qed.
Lemma he_bind_rest : forall bt sel s, hadError s = true -> hadError (bind_rest bt sel s) = true.
Proof.
  intros bt sel s H. unfold bind_rest. cbv zeta. destruct (panicMode _); auto using he_bind_rest2 with he.
Qed.
#[export] Hint Resolve he_bind_rest3 he_bind_rest2 he_bind_rest : he.

Lemma def_var_hadError : forall s, hadError (def_var s) = hadError s.
Proof. intros s. unfold def_var. destruct (locals s) as [|[nm z] r]; reflexivity. Qed.

Lemma Sim_def_var : forall r s c, Sim r s c -> (hadError c = false -> locals c <> []) ->
  Sim r (def_var s) (def_var c).
Proof.
  intros r s c [[Hc Hs]|(Hc & Hev & Hg & Htv)] Hl.
  - left. split; apply he_def_var; assumption.
  - assert (Hls : locals s <> []) by (rewrite (ev_locals _ _ Hev); exact (Hl Hc)).
    destruct (fr_good _ _ (def_var_fr s Hls) Hg) as (G & T & _).
    apply Sim_good; [rewrite def_var_hadError; exact Hc|apply def_var_ev, Hev|exact G|congruence].
Qed.

Lemma cdecl_var_locals : forall x c, hadError (cdecl_var x c) = false -> locals (cdecl_var x c) <> [].
Proof.
  intros x c. unfold cdecl_var, add_local. destruct (_ =? _).
  - intros H. discriminate H.
  - intros _. cbn. discriminate.
Qed.

Lemma Sim_skip_semi : forall r s c, Sim r s c -> Sim (skip_semi r) (snd (pmatch tSEMICOLON s)) c.
Proof.
  intros r s c HS. destruct r as [|x r].
  - destruct HS as [[Hc Hs]|(Hc & Hev & Hg & Htv)]; [left; split; auto with he|discriminate Htv].
  - cbn [skip_semi]. destruct (tok_eqb (ttyp x) tSEMICOLON) eqn:E.
    + apply tok_eqb_eq in E. apply (Sim_pmatch_yes tSEMICOLON x r s c HS E). discriminate.
    + apply (Sim_pmatch_no tSEMICOLON (x :: r) s c HS). exact E.
Qed.

Lemma Sim_unpanic : forall r s c, Sim r s c -> Sim r (unpanic s) c.
Proof.
  intros r s c [[Hc Hs]|(Hc & Hev & Hg & Htv)].
  - left. split; auto with he.
  - unfold unpanic. pose proof Hg as (_ & -> & _). apply Sim_good; assumption.
Qed.

Lemma Sim_decl_finish : forall f r s c, Sim r s c -> Sim r (decl_finish f s) c.
Proof.
  intros f r s c [[Hc Hs]|(Hc & Hev & Hg & Htv)].
  - left. split; auto with he.
  - unfold decl_finish. pose proof Hg as (_ & -> & _). apply Sim_good; assumption.
Qed.

(* the good case of Sim, as facts *)
Lemma good_panic : forall s, good s -> panicMode s = false.
Proof. intros s H. apply H. Qed.

(* ================================================================== *)
(* 6. var                                                              *)
(* ================================================================== *)

Lemma var_ok : forall f, ExprOK f -> forall F r s c, (2 * f <= F)%nat -> Sim r s c ->
  match pvar f r with
  | Some (st, r2) => Sim r2 (var_decl F s) (cstmt st c)
  | None => (length r < f)%nat -> hadError (var_decl F s) = true
  end.
Proof.
  intros f IH F r s c HF HS.
  destruct HS as [[Hc Hs]|(Hc & Hev & Hg & Htv)].
  { destruct (pvar f r) as [[st r2]|]; [left; split; auto with he|intros _; auto with he]. }
  unfold tv in Htv. subst r. rewrite var_decl_eq. cbv zeta. unfold pvar.
  destruct (tok_eqb (ttyp (cur_ s)) tIDENT) eqn:Hx.
  2: { intros _. rewrite consume_false by exact Hx. reflexivity. }
  rewrite consume_true by exact Hx. apply tok_eqb_eq in Hx.
  destruct (advance_good s _ _ Hg eq_refl ltac:(rewrite Hx; discriminate)) as (A1 & A2 & A3 & A4).
  rewrite (good_panic _ A2), decl_var_eq, A4.
  assert (HS1 : Sim (toks s) (advance s) c) by (apply Sim_good; [exact Hc|congruence|exact A2|exact A3]).
  pose proof (Sim_prim (cdecl_var (tval (cur_ s))) _ _ _ (EP_cdecl_var _) HS1) as HS2.
  set (s2 := cdecl_var (tval (cur_ s)) (advance s)) in *.
  set (c2 := cdecl_var (tval (cur_ s)) c) in *.
  assert (Hloc : forall c', dl c' c2 -> hadError c' = false -> (hadError c2 = true -> hadError c' = true) ->
                 locals c' <> []).
  { intros c' [_ Hl] H1 H2. rewrite Hl. apply cdecl_var_locals. apply not_true_false. intros E.
    rewrite (H2 E) in H1. discriminate H1. }
  destruct HS2 as [[Hc2 Hs2]|(Hc2 & Hev2 & Hg2 & Htv2)].
  { destruct (tok_eqb (hd_typ (toks s)) tEQ);
      [destruct (pexpr f lvl_assign (tl (toks s))) as [[e r2]|]|];
      [left; split; [cbn [cstmt]; fold c2; auto with he|auto with he]
      |intros _; auto with he
      |left; split; [cbn [cstmt]; fold c2; auto with he|auto with he]]. }
  assert (HS2 : Sim (toks s) s2 c2) by (apply Sim_good; assumption).
  unfold var_rest. destruct (tok_eqb (hd_typ (toks s)) tEQ) eqn:Heq.
  - destruct (toks s) as [|y r1] eqn:Et; [cbn in Heq; discriminate|]. cbn [hd_typ tl] in *.
    apply tok_eqb_eq in Heq.
    destruct (Sim_pmatch_yes tEQ y r1 s2 c2 HS2 Heq ltac:(discriminate)) as [H1 H2].
    rewrite (H2 Hc2).
    pose proof (IH F lvl_assign _ c2 r1 HF (le_n 1) H1) as IH1.
    change (N.of_nat lvl_assign) with precAssign in IH1. fold (Parser.expr F (snd (pmatch tEQ s2))) in IH1.
    destruct (pexpr f lvl_assign r1) as [[e r2]|].
    + cbn [cstmt]. fold c2. apply Sim_def_var; [exact IH1|].
      intros Hf. apply Hloc; [auto with dl|exact Hf|auto with he].
    + intros Hlen. apply he_def_var, IH1. cbn [length] in Hlen. lia.
  - destruct (Sim_pmatch_no tEQ _ s2 c2 HS2 Heq) as [H1 H2]. rewrite (H2 Hc2).
    cbn [cstmt]. fold c2. apply Sim_def_var.
    + apply Sim_prim; [apply EP_emit_op|exact H1].
    + intros Hf. apply Hloc; [auto with dl|exact Hf|auto with he].
Qed.

(* ================================================================== *)
(* 7. bind                                                             *)
(* ================================================================== *)

Lemma he_bind_sel : forall s, hadError s = true -> hadError (snd (bind_sel s)) = true.
Proof.
  intros s H. unfold bind_sel.
  pose proof (he_pmatch tCOLON s H) as H2. destruct (pmatch tCOLON s) as [colon s2]. cbn [snd] in H2.
  destruct colon; [|exact H2].
  pose proof (he_pmatch tINT s2 H2) as H3. destruct (pmatch tINT s2) as [mi a]. cbn [snd] in H3.
  destruct mi; [cbn [snd]; destruct (bytes_eqb _ _); auto with he|].
  pose proof (he_pmatch tIDENT s2 H2) as H4. destruct (pmatch tIDENT s2) as [mid b]. cbn [snd] in H4.
  destruct mid; [|reflexivity]. cbv zeta.
  destruct (is_lit _ "first"); [exact H4|]. destruct (is_lit _ "last"); [exact H4|].
  destruct (is_lit _ "all"); [exact H4|reflexivity].
Qed.
#[export] Hint Resolve he_bind_sel : he.

Lemma sel_ok : forall r s1 c, Sim r s1 c ->
  match fst (psel r) with
  | Some sl => Sim (snd (psel r)) (snd (bind_sel s1)) c /\
               (hadError c = false -> fst (bind_sel s1) = sel_code sl)
  | None => hadError (snd (bind_sel s1)) = true
  end.
Proof.
  intros r s1 c HS. destruct HS as [[Hc Hs]|(Hc & Hev & Hg & Htv)].
  { destruct (fst (psel r)); [split; [left; split; auto with he|congruence]|auto with he]. }
  unfold tv in Htv. subst r. unfold psel, bind_sel.
  destruct (tok_eqb (ttyp (cur_ s1)) tCOLON) eqn:Hcol.
  2: { rewrite pmatch_false by exact Hcol.
       destruct (toks s1) as [|x r'] eqn:Et; cbn [fst snd];
         (split; [apply Sim_good; [exact Hc|exact Hev|exact Hg|unfold tv; rewrite Et; reflexivity]|reflexivity]). }
  rewrite pmatch_true by exact Hcol. apply tok_eqb_eq in Hcol.
  destruct (advance_good s1 _ _ Hg eq_refl ltac:(rewrite Hcol; discriminate)) as (A1 & A2 & A3 & A4).
  set (s2 := advance s1) in *.
  destruct (toks s1) as [|x r'] eqn:Et; [discriminate A3|].
  assert (Hx : cur_ s2 = x) by (unfold tv in A3; injection A3 as H _; exact H).
  destruct (tok_eqb (ttyp x) tINT) eqn:Hint.
  - rewrite (pmatch_true tINT s2) by (unfold check; rewrite Hx; exact Hint). apply tok_eqb_eq in Hint.
    destruct (advance_good s2 _ _ A2 A3 ltac:(rewrite Hint; discriminate)) as (B1 & B2 & B3 & B4).
    rewrite B4. destruct (bytes_eqb (tval x) [49]); cbn [fst snd].
    + split; [|reflexivity]. apply Sim_good; [exact Hc|congruence|exact B2|exact B3].
    + reflexivity.
  - rewrite (pmatch_false tINT s2) by (unfold check; rewrite Hx; exact Hint).
    destruct (tok_eqb (ttyp x) tIDENT) eqn:Hid.
    + rewrite (pmatch_true tIDENT s2) by (unfold check; rewrite Hx; exact Hid). apply tok_eqb_eq in Hid.
      destruct (advance_good s2 _ _ A2 A3 ltac:(rewrite Hid; discriminate)) as (B1 & B2 & B3 & B4).
      cbv zeta. rewrite B4.
      assert (HSb : Sim r' (advance s2) c) by (apply Sim_good; [exact Hc|congruence|exact B2|exact B3]).
      destruct (is_lit (tval x) "first"); [cbn [fst snd]; split; [exact HSb|reflexivity]|].
      destruct (is_lit (tval x) "last"); [cbn [fst snd]; split; [exact HSb|reflexivity]|].
      destruct (is_lit (tval x) "all"); [cbn [fst snd]; split; [exact HSb|reflexivity]|].
      reflexivity.
    + rewrite (pmatch_false tIDENT s2) by (unfold check; rewrite Hx; exact Hid). reflexivity.
Qed.

Lemma cstmt_SBind : forall bt sl tg c,
  cstmt (SBind bt sl tg) c = bind_emit bt (tgt_code tg) (sel_code sl) c.
Proof. reflexivity. Qed.

Lemma tgt_ok : forall bt sl r1 s3 c sel, Sim r1 s3 c -> (hadError c = false -> sel = sel_code sl) ->
  match ptgt bt sl r1 with
  | Some (st, r2) => Sim r2 (bind_rest bt sel s3) (cstmt st c)
  | None => hadError (bind_rest bt sel s3) = true
  end.
Proof.
  intros bt sl r1 s3 c sel HS Hsel. destruct HS as [[Hc Hs]|(Hc & Hev & Hg & Htv)].
  { destruct (ptgt bt sl r1) as [[st r2]|]; [left; split; auto with he|auto with he]. }
  rewrite (Hsel Hc). clear Hsel sel. unfold tv in Htv. subst r1.
  unfold bind_rest. cbv zeta.
  destruct (tok_eqb (ttyp (cur_ s3)) tARROW) eqn:Ha.
  2: { rewrite consume_false by exact Ha.
       replace (ptgt bt sl (cur_ s3 :: toks s3)) with (@None (stmt * list token)); [reflexivity|].
       unfold ptgt. destruct (toks s3) as [|tg r2]; [reflexivity|]. rewrite Ha. reflexivity. }
  rewrite consume_true by exact Ha. apply tok_eqb_eq in Ha.
  destruct (advance_good s3 _ _ Hg eq_refl ltac:(rewrite Ha; discriminate)) as (A1 & A2 & A3 & A4).
  set (s4 := advance s3) in *. rewrite (good_panic _ A2).
  destruct (toks s3) as [|tg r2] eqn:Et; [discriminate A3|].
  assert (Hx : cur_ s4 = tg) by (unfold tv in A3; injection A3 as H _; exact H).
  unfold ptgt. rewrite Ha. replace (tok_eqb tARROW tARROW) with true by reflexivity. cbn [andb].
  unfold bind_rest2. cbv zeta.
  assert (Hck : check tIDENT s4 = tok_eqb (ttyp tg) tIDENT) by (unfold check; rewrite Hx; reflexivity).
  rewrite Hck.
  destruct (tok_eqb (ttyp tg) tIDENT) eqn:Hid; [|reflexivity].
  apply tok_eqb_eq in Hid.
  destruct (advance_good s4 _ _ A2 A3 ltac:(rewrite Hid; discriminate)) as (B1 & B2 & B3 & B4).
  set (s5 := advance s4) in *. rewrite (good_panic _ B2).
  assert (HS5 : Sim r2 s5 c) by (apply Sim_good; [exact Hc|congruence|exact B2|exact B3]).
  unfold bind_rest3. cbv zeta. rewrite B4.
  destruct (is_lit (tval tg) "struct").
  - destruct sl; cbn [sel_code];
      try (change ((_ =? bindAll) && negb (bindStruct =? bindSlice)) with false; cbv iota;
           rewrite (good_panic _ B2), cstmt_SBind; apply Sim_prim; [apply EP_bind_emit|exact HS5]).
    reflexivity.
  - destruct (is_lit (tval tg) "slice").
    + replace ((sel_code sl =? bindAll) && negb (bindSlice =? bindSlice)) with false
        by (destruct sl; reflexivity).
      cbv iota. rewrite (good_panic _ B2), cstmt_SBind. apply Sim_prim; [apply EP_bind_emit|exact HS5].
    + destruct (_ && _); reflexivity.
Qed.

Lemma bind_ok : forall r s c, Sim r s c ->
  match pbind r with
  | Some (st, r2) => Sim r2 (bind_stmt s) (cstmt st c)
  | None => hadError (bind_stmt s) = true
  end.
Proof.
  intros r s c HS. destruct HS as [[Hc Hs]|(Hc & Hev & Hg & Htv)].
  { destruct (pbind r) as [[st r2]|]; [left; split; auto with he|auto with he]. }
  unfold tv in Htv. subst r. rewrite pbind_eq, bind_stmt_eq. cbv zeta.
  destruct (tok_eqb (ttyp (cur_ s)) tIDENT) eqn:Hid; cbn [negb].
  2: { rewrite consume_false by exact Hid. reflexivity. }
  rewrite consume_true by exact Hid. apply tok_eqb_eq in Hid.
  destruct (advance_good s _ _ Hg eq_refl ltac:(rewrite Hid; discriminate)) as (A1 & A2 & A3 & A4).
  rewrite (good_panic _ A2), A4.
  assert (HS1 : Sim (toks s) (advance s) c) by (apply Sim_good; [exact Hc|congruence|exact A2|exact A3]).
  pose proof (sel_ok _ _ _ HS1) as HSel.
  destruct (fst (psel (toks s))) as [sl|].
  - destruct HSel as [HS3 Hsel]. apply tgt_ok; assumption.
  - apply he_bind_rest, HSel.
Qed.

(* ================================================================== *)
(* 8. def, and the mutual induction for statements / block items        *)
(* ================================================================== *)

Definition StmtOK (f : nat) : Prop :=
  forall F b s c r0, (2 * f <= F)%nat -> Sim r0 s c -> b = (0 <? depth c)%Z -> (0 <= depth c)%Z ->
  match pstmt f b r0 with
  | Some (st, r) => Sim r (decl F s) (cstmt st c)
  | None => (2 * length r0 + 2 <= f)%nat -> hadError (decl F s) = true
  end.

Definition ItemsOK (f : nat) : Prop :=
  forall F s c r0, (2 * f <= F)%nat -> Sim r0 s c -> (0 < depth c)%Z ->
  match pitems f r0 with
  | Some (body, r) => Sim r (block_loop F s) (cstmts body c)
  | None => (2 * length r0 + 3 <= f)%nat -> hadError (block_loop F s) = true
  end.

Lemma name_ok : forall r1 s1 c, Sim r1 s1 c ->
  match fst (pdef_name r1) with
  | Some name => Sim (snd (pdef_name r1)) (snd (block_name s1)) c /\
                 (hadError c = false -> fst (block_name s1) = name)
  | None => hadError (snd (block_name s1)) = true
  end.
Proof.
  intros r1 s1 c HS. destruct HS as [[Hc Hs]|(Hc & Hev & Hg & Htv)].
  { destruct (fst (pdef_name r1)); [split; [left; split; auto with he|congruence]|auto with he]. }
  unfold tv in Htv. subst r1. unfold pdef_name, block_name.
  destruct (tok_eqb (ttyp (cur_ s1)) tSTR) eqn:Hs.
  - rewrite pmatch_true by exact Hs. apply tok_eqb_eq in Hs.
    destruct (advance_good s1 _ _ Hg eq_refl ltac:(rewrite Hs; discriminate)) as (A1 & A2 & A3 & A4).
    rewrite A4. destruct (unquote (tval (cur_ s1))) as [v|]; cbn [fst snd]; [|reflexivity].
    split; [|reflexivity]. apply Sim_good; [exact Hc|congruence|exact A2|exact A3].
  - rewrite pmatch_false by exact Hs. cbn [fst snd].
    split; [|reflexivity]. apply Sim_good; [exact Hc|exact Hev|exact Hg|reflexivity].
Qed.

Lemma close_ok : forall ty name body r4 s8 c8, Sim r4 s8 c8 ->
  match pdef_close ty name body r4 with
  | Some (st, r5) => st = SDef ty name body /\
                     Sim r5 (block_close s8) (emit_op opENDBLOCK (end_scope c8))
  | None => hadError (block_close s8) = true
  end.
Proof.
  intros ty name body r4 s8 c8 HS. destruct HS as [[Hc Hs]|(Hc & Hev & Hg & Htv)].
  { destruct (pdef_close _ _ _ _) as [[st r5]|] eqn:E; [|auto with he].
    split; [|left; split; auto with he].
    unfold pdef_close in E. destruct r4 as [|x r5']; [discriminate|]. destruct (tok_eqb _ _); [|discriminate].
    injection E as <- _. reflexivity. }
  unfold tv in Htv. subst r4. unfold pdef_close, block_close.
  pose proof Hg as (-> & _).
  destruct (tok_eqb (ttyp (cur_ s8)) tRCURLY) eqn:Hx.
  - split; [reflexivity|]. apply tok_eqb_eq in Hx.
    apply (Sim_prim (emit_op opENDBLOCK)); [apply EP_emit_op|].
    apply (Sim_prim end_scope); [apply EP_end_scope|].
    apply (Sim_consume_yes _ _ (cur_ s8)); [apply Sim_good; [exact Hc|exact Hev|exact Hg|reflexivity]|exact Hx|discriminate].
  - rewrite consume_false by exact Hx. apply he_emit_op, he_end_scope. reflexivity.
Qed.

Lemma def_ok : forall f, ItemsOK f -> forall F r s c, (2 * f + 1 <= F)%nat -> Sim r s c ->
  (0 <= depth c)%Z ->
  match pdef f r with
  | Some (st, r2) => Sim r2 (block_stmt F s) (cstmt st c)
  | None => (2 * length r + 3 <= f)%nat -> hadError (block_stmt F s) = true
  end.
Proof.
  intros f IHi F r s c HF HS Hd.
  destruct HS as [[Hc Hs]|(Hc & Hev & Hg & Htv)].
  { destruct (pdef f r) as [[st r2]|]; [left; split; auto with he|intros _; auto with he]. }
  unfold tv in Htv. subst r. destruct F as [|F1]; [lia|]. rewrite block_stmt_S'. cbv zeta. unfold pdef.
  destruct (tok_eqb (ttyp (cur_ s)) tIDENT) eqn:Hid; cbn [negb].
  2: { intros _. rewrite consume_false by exact Hid. reflexivity. }
  rewrite consume_true by exact Hid. apply tok_eqb_eq in Hid.
  destruct (advance_good s _ _ Hg eq_refl ltac:(rewrite Hid; discriminate)) as (A1 & A2 & A3 & A4).
  rewrite (good_panic _ A2), A4.
  assert (HS1 : Sim (toks s) (advance s) c) by (apply Sim_good; [exact Hc|congruence|exact A2|exact A3]).
  pose proof (name_ok _ _ _ HS1) as HN. pose proof (pdef_name_suf (toks s)) as Hsuf.
  destruct (pdef_name (toks s)) as [nm r2]. cbn [fst snd] in HN, Hsuf.
  destruct nm as [name|]; [|intros _; apply he_block_body, HN].
  destruct HN as [HS3 Hname]. rewrite (Hname Hc). unfold block_body.
  destruct r2 as [|l r3].
  { exfalso. apply (Sim_nonempty _ _ _ HS3 Hc). reflexivity. }
  destruct (tok_eqb (ttyp l) tLCURLY) eqn:Hl.
  2: { intros _. apply he_block_close, he_block_loop, he_block_open.
       apply (Sim_consume_no _ _ _ _ _ HS3). exact Hl. }
  apply tok_eqb_eq in Hl.
  pose proof (Sim_consume_yes tLCURLY "expected '{'" l r3 _ c HS3 Hl ltac:(discriminate)) as HS4.
  pose proof (Sim_prim (block_open (tval (cur_ s)) name) _ _ _ (EP_block_open _ _) HS4) as HS7.
  pose proof (IHi F1 _ _ r3 ltac:(lia) HS7 ltac:(rewrite depth_block_open; lia)) as HI.
  destruct (pitems f r3) as [[body r4]|].
  - pose proof (close_ok (tval (cur_ s)) name body r4 _ _ HI) as HC.
    destruct (pdef_close (tval (cur_ s)) name body r4) as [[st r5]|]; [|intros _; exact HC].
    destruct HC as [-> HC]. rewrite cstmt_SDef. exact HC.
  - intros Hlen. apply he_block_close, HI. apply suf_len in Hsuf. cbn [length] in *. lia.
Qed.

Lemma expr_stmt_ok : forall f, ExprOK f -> forall F1 b s c, (2 * f <= F1)%nat ->
  hadError c = false -> ev s = ev c -> good s -> b = (0 <? depth c)%Z ->
  match (if b then match pexpr f lvl_assign (cur_ s :: toks s) with
                   | Some (e, r1) => Some (SExpr e, r1) | None => None end
         else None) with
  | Some (st, r) =>
      Sim r (decl_finish F1 (if (0 <? depth s)%Z then emit_op opPOP (Parser.expr F1 s)
                             else perrc "expected statement" s)) (cstmt st c)
  | None => (2 * length (cur_ s :: toks s) + 2 <= S f)%nat ->
      hadError (decl_finish F1 (if (0 <? depth s)%Z then emit_op opPOP (Parser.expr F1 s)
                                else perrc "expected statement" s)) = true
  end.
Proof.
  intros f IH F1 b s c HF Hc Hev Hg Hb. rewrite (ev_depth _ _ Hev), <- Hb. destruct b.
  - pose proof (IH F1 lvl_assign s c _ HF (le_n 1) (Sim_good _ _ _ Hc Hev Hg eq_refl)) as IH1.
    unfold tv in IH1. destruct (pexpr f lvl_assign (cur_ s :: toks s)) as [[e r1]|].
    + apply Sim_decl_finish. cbn [cstmt]. apply Sim_prim; [apply EP_emit_op|exact IH1].
    + intros Hlen. apply he_decl_finish, he_emit_op, IH1. cbn [length] in *. lia.
  - intros _. apply he_decl_finish. reflexivity.
Qed.

Lemma stmt_step : forall f, ExprOK f -> ItemsOK f -> StmtOK (S f).
Proof.
  intros f IHe IHi F b s c r0 HF HS Hb Hd.
  destruct HS as [[Hc Hs]|(Hc & Hev & Hg & Htv)].
  { destruct (pstmt (S f) b r0) as [[st r]|]; [left; split; auto with he|intros _; auto with he]. }
  unfold tv in Htv. subst r0. destruct F as [|F1]; [lia|]. rewrite decl_S', pstmt_S. unfold decl_body.
  assert (HS0 : Sim (cur_ s :: toks s) s c) by (apply Sim_good; [exact Hc|exact Hev|exact Hg|reflexivity]).
  destruct (ttyp (cur_ s)) eqn:Ht; cbv beta iota;
    try (apply (expr_stmt_ok f IHe F1 b s c); [lia|exact Hc|exact Hev|exact Hg|exact Hb]).
  - (* var *)
    pose proof (Sim_advance _ _ _ _ HS0 ltac:(rewrite Ht; discriminate)) as HS1.
    pose proof (var_ok f IHe F1 _ _ _ ltac:(lia) HS1) as HV.
    destruct (pvar f (toks s)) as [[st r2]|].
    + apply Sim_decl_finish, HV.
    + intros Hlen. apply he_decl_finish, HV. cbn [length] in Hlen. lia.
  - (* def *)
    pose proof (Sim_advance _ _ _ _ HS0 ltac:(rewrite Ht; discriminate)) as HS1.
    pose proof (def_ok f IHi F1 _ _ _ ltac:(lia) HS1 Hd) as HV.
    destruct (pdef f (toks s)) as [[st r2]|].
    + apply Sim_decl_finish, HV.
    + intros Hlen. apply he_decl_finish, HV. cbn [length] in Hlen. lia.
  - (* eval *)
    pose proof (Sim_advance _ _ _ _ HS0 ltac:(rewrite Ht; discriminate)) as HS1.
    pose proof (IHe F1 lvl_assign _ c _ ltac:(lia) (le_n 1) HS1) as IH1.
    destruct (pexpr f lvl_assign (toks s)) as [[e r1]|].
    + apply Sim_decl_finish. cbn [cstmt]. apply Sim_prim; [apply EP_emit_op|exact IH1].
    + intros Hlen. apply he_decl_finish, he_emit_op, IH1. cbn [length] in Hlen. lia.
  - (* print *)
    pose proof (Sim_advance _ _ _ _ HS0 ltac:(rewrite Ht; discriminate)) as HS1.
    pose proof (IHe F1 lvl_assign _ c _ ltac:(lia) (le_n 1) HS1) as IH1.
    destruct (pexpr f lvl_assign (toks s)) as [[e r1]|].
    + apply Sim_decl_finish. cbn [cstmt]. apply Sim_prim; [apply EP_emit_op|exact IH1].
    + intros Hlen. apply he_decl_finish, he_emit_op, IH1. cbn [length] in Hlen. lia.
  - (* bind *)
    pose proof (Sim_advance _ _ _ _ HS0 ltac:(rewrite Ht; discriminate)) as HS1.
    pose proof (bind_ok _ _ _ HS1) as HV.
    destruct (pbind (toks s)) as [[st r2]|].
    + apply Sim_decl_finish, HV.
    + intros _. apply he_decl_finish, HV.
Qed.

Lemma block_next_ok : forall f, ItemsOK f -> forall F s c r0, (2 * f <= F)%nat -> Sim r0 s c ->
  (0 < depth c)%Z ->
  match pitems f r0 with
  | Some (body, r) => Sim r (block_next F s) (cstmts body c)
  | None => (2 * length r0 + 3 <= f)%nat -> hadError (block_next F s) = true
  end.
Proof.
  intros f IHi F s c r0 HF HS Hd. destruct HS as [[Hc Hs]|(Hc & Hev & Hg & Htv)].
  - destruct (pitems f r0) as [[body r]|]; [left; split; auto with he|intros _; auto with he].
  - unfold block_next. pose proof Hg as (_ & _ & -> & -> & _). cbn [orb].
    apply IHi; [exact HF|apply Sim_good; assumption|exact Hd].
Qed.

Lemma items_step : forall f, StmtOK f -> ItemsOK f -> ItemsOK (S f).
Proof.
  intros f IHs IHi F s c r0 HF HS Hd.
  destruct HS as [[Hc Hs]|(Hc & Hev & Hg & Htv)].
  { destruct (pitems (S f) r0) as [[body r]|]; [left; split; auto with he|intros _; auto with he]. }
  unfold tv in Htv. subst r0. destruct F as [|F1]; [lia|]. rewrite block_loop_S', pitems_S'. cbn [hd_typ].
  assert (HS0 : Sim (cur_ s :: toks s) s c) by (apply Sim_good; [exact Hc|exact Hev|exact Hg|reflexivity]).
  destruct (is_stop (ttyp (cur_ s))); [exact HS0|].
  pose proof (IHs F1 true s c _ ltac:(lia) HS0
                ltac:(symmetry; apply Z.ltb_lt; exact Hd) ltac:(lia)) as HS1.
  destruct (pstmt f true (cur_ s :: toks s)) as [[st r1]|] eqn:E.
  - pose proof (Sim_skip_semi _ _ _ (Sim_unpanic _ _ _ HS1)) as HS3.
    pose proof (block_next_ok f IHi F1 _ _ _ ltac:(lia) HS3 ltac:(rewrite depth_cstmt; exact Hd)) as HN.
    destruct (pitems f (skip_semi r1)) as [[ss r']|].
    + rewrite cstmts_cons. exact HN.
    + intros Hlen. apply HN. destruct (proj1 (stmt_suf f) _ _ _ _ E) as [_ Hl].
      pose proof (suf_len _ _ (suf_skip_semi r1)). lia.
  - intros Hlen. apply he_block_next, he_pmatch, he_unpanic, HS1. lia.
Qed.

Theorem stmt_ok : forall f, StmtOK f /\ ItemsOK f.
Proof.
  induction f as [|f [IHs IHi]].
  - split.
    + intros F b s c r0 _ _ _ _. cbn [pstmt]. lia.
    + intros F s c r0 _ _ _. cbn [pitems]. lia.
  - split; [apply stmt_step|apply items_step]; try assumption. apply pexpr_ok.
Qed.

(* ====================================================================== *)
(* Part II: programs                                                        *)
(* ====================================================================== *)

(* ================================================================== *)
(* 9. the toplevel loop                                                *)
(* ================================================================== *)

Definition TopOK (f : nat) : Prop :=
  forall F s c r0, (2 * f <= F)%nat -> Sim r0 s c -> depth c = 0%Z ->
  match ptop f r0 with
  | Some p => exists r, Sim r (top_loop F s) (cstmts p c)
  | None => (2 * length r0 + 3 <= f)%nat -> hadError (top_loop F s) = true
  end.

Lemma ptop_S : forall f ts,
  ptop (S f) ts =
    match ts with
    | [t] => if tok_eqb (ttyp t) tEOF then Some [] else None
    | [] => None
    | _ => match pstmt f false ts with
           | Some (s, r) => match ptop f (skip_semi r) with Some ss => Some (s :: ss) | None => None end
           | None => None
           end
    end.
Proof. reflexivity. Qed.

Lemma normal_check_end : forall t, normal t -> (tok_num (ttyp t) <=? 1) = false.
Proof.
  intros t H. unfold normal, normalt in H. revert H.
  destruct (ttyp t); intros (H1 & H2 & H3);
    first [reflexivity | exfalso; apply H1; reflexivity | exfalso; apply H3; reflexivity].
Qed.

Lemma eshape_nil : ~ eshape [].
Proof. intros H. destruct (eshape_hd _ H) as (t & r & E & _). discriminate E. Qed.

Lemma top_next_ok : forall f, TopOK f -> forall F s c r0, (2 * f <= F)%nat -> Sim r0 s c ->
  depth c = 0%Z ->
  match ptop f r0 with
  | Some p => exists r, Sim r (top_next F s) (cstmts p c)
  | None => (2 * length r0 + 3 <= f)%nat -> hadError (top_next F s) = true
  end.
Proof.
  intros f IH F s c r0 HF HS Hd. destruct HS as [[Hc Hs]|(Hc & Hev & Hg & Htv)].
  - destruct (ptop f r0) as [p|]; [exists []; left; split; auto with he|intros _; auto with he].
  - unfold top_next. pose proof Hg as (_ & _ & -> & -> & _). cbn [orb].
    apply IH; [exact HF|apply Sim_good; assumption|exact Hd].
Qed.

Lemma top_step : forall f, TopOK f -> TopOK (S f).
Proof.
  intros f IH F s c r0 HF HS Hd.
  destruct HS as [[Hc Hs]|(Hc & Hev & Hg & Htv)].
  { destruct (ptop (S f) r0) as [p|]; [exists []; left; split; auto with he|intros _; auto with he]. }
  unfold tv in Htv. subst r0. destruct F as [|F1]; [lia|]. rewrite top_loop_S', ptop_S.
  assert (HS0 : Sim (cur_ s :: toks s) s c) by (apply Sim_good; [exact Hc|exact Hev|exact Hg|reflexivity]).
  pose proof Hg as (_ & _ & _ & _ & Hsh). unfold tv in Hsh.
  destruct (toks s) as [|x r'] eqn:Et.
  - destruct (eshape_inv _ _ Hsh) as [[He _]|[_ Hn]]; [|exfalso; exact (eshape_nil Hn)].
    rewrite He. replace (tok_eqb tEOF tEOF) with true by reflexivity.
    unfold check_end. rewrite He. replace (tok_num tEOF <=? 1) with true by reflexivity.
    destruct (advance_good_eof s (cur_ s) [] Hg ltac:(unfold tv; rewrite Et; reflexivity) He)
      as (A1 & A2 & A3 & _).
    exists (tv s). apply Sim_good; [exact Hc|rewrite A1; exact Hev|exact A2|exact A3].
  - destruct (eshape_inv _ _ Hsh) as [[_ Hx]|[Hn _]]; [discriminate Hx|].
    unfold check_end. rewrite (normal_check_end _ Hn).
    pose proof (proj1 (stmt_ok f) F1 false s c _ ltac:(lia) HS0
                  ltac:(rewrite Hd; reflexivity) ltac:(lia)) as HS1.
    destruct (pstmt f false (cur_ s :: x :: r')) as [[st r1]|] eqn:E.
    + pose proof (Sim_skip_semi _ _ _ HS1) as HS3.
      pose proof (top_next_ok f IH F1 _ _ _ ltac:(lia) HS3 ltac:(rewrite depth_cstmt; exact Hd)) as HN.
      destruct (ptop f (skip_semi r1)) as [ss|].
      * rewrite cstmts_cons. exact HN.
      * intros Hlen. apply HN. destruct (proj1 (stmt_suf f) _ _ _ _ E) as [_ Hl].
        pose proof (suf_len _ _ (suf_skip_semi r1)). lia.
    + intros Hlen. apply he_top_next, he_pmatch, HS1. lia.
Qed.

Theorem top_ok : forall f, TopOK f.
Proof.
  induction f as [|f IH].
  - intros F s c r0 _ _ _. cbn [ptop]. lia.
  - apply top_step, IH.
Qed.

(* ================================================================== *)
(* 10. token lists of the lexer's shape                                *)
(* ================================================================== *)

(* a sentence ends in tEOF *)
Lemma ptop_eof : forall f ts p, ptop f ts = Some p -> exists pre e, ts = pre ++ [e] /\ ttyp e = tEOF.
Proof.
  induction f as [|f IH]; intros ts p H; [discriminate|]. rewrite ptop_S in H.
  destruct ts as [|t [|x r]]; [discriminate| |].
  - destruct (tok_eqb (ttyp t) tEOF) eqn:E; [|discriminate]. apply tok_eqb_eq in E.
    exists [], t. split; [reflexivity|exact E].
  - destruct (pstmt f false (t :: x :: r)) as [[st r1]|] eqn:E; [|discriminate].
    destruct (ptop f (skip_semi r1)) as [ss|] eqn:E2; [|discriminate].
    destruct (IH _ _ E2) as (pre & e & Hpre & He).
    destruct (proj1 (stmt_suf f) _ _ _ _ E) as [[p1 H1] _]. destruct (suf_skip_semi r1) as [p2 H2].
    exists (p1 ++ p2 ++ pre), e. split; [|exact He]. rewrite H1, H2, Hpre, <- !app_assoc. reflexivity.
Qed.

Lemma lex_shape_eof : forall ts, lex_shape ts ->
  (exists pre e, ts = pre ++ [e] /\ ttyp e = tEOF) -> eshape ts.
Proof.
  intros ts (body & Fb & [(e & He & ->)|(e & f & He & Hf & ->)]) (pre & e' & E & He').
  - exists body, e. repeat split; assumption.
  - exfalso. change [e; f] with ([e] ++ [f]) in E. rewrite app_assoc in E.
    apply app_inj_tail in E. destruct E as [_ <-]. congruence.
Qed.

Lemma lex_shape_last_eof : forall ts tk, lex_shape ts -> last_opt ts = Some tk -> ttyp tk = tEOF ->
  eshape ts.
Proof.
  intros ts tk (body & Fb & [(e & He & ->)|(e & f & He & Hf & ->)]) Hl Ht.
  - exists body, e. repeat split; assumption.
  - exfalso. change [e; f] with ([e] ++ [f]) in Hl. rewrite app_assoc, last_opt_app1 in Hl.
    injection Hl as <-. congruence.
Qed.

(* ================================================================== *)
(* 11. the whole parser against grammar ; generator                    *)
(* ================================================================== *)

Lemma init_sim : forall ts, eshape ts -> Sim ts (advance (init_pst ts)) (init_pst []).
Proof.
  intros ts H. destruct (eshape_hd _ H) as (t & r & -> & N1 & N2).
  destruct (advance_cons (init_pst (t :: r)) t r eq_refl N1 N2) as (A1 & A2 & A3 & A4 & A5 & A6).
  apply Sim_good; [reflexivity|rewrite A1; reflexivity| |exact A2].
  unfold good. rewrite A2, A3, A4, A5, A6. repeat split; assumption.
Qed.

Theorem T2_top : forall ts, eshape ts ->
  match ast_program ts with
  | Some p => exists r, Sim r (top_loop (parse_fuel ts) (advance (init_pst ts))) (cstmts p (init_pst []))
  | None => hadError (top_loop (parse_fuel ts) (advance (init_pst ts))) = true
  end.
Proof.
  intros ts H. unfold ast_program.
  pose proof (top_ok (4 * length ts + 8) (parse_fuel ts) _ _ ts
                ltac:(unfold parse_fuel; lia) (init_sim ts H) eq_refl) as HT.
  destruct (ptop (4 * length ts + 8) ts) as [p|]; [exact HT|]. apply HT. lia.
Qed.

Lemma emit_bytes_hadError : forall bb s, hadError (emit_bytes bb s) = hadError s.
Proof.
  unfold emit_bytes. induction bb as [|b bb IH]; intros s; cbn [fold_left]; [reflexivity|].
  rewrite IH. reflexivity.
Qed.

Lemma pop_ret_hadError : forall n c, hadError (emit_op opRET (pop_n n c)) = hadError c.
Proof.
  intros n c. unfold pop_n. destruct (n =? 0); [reflexivity|]. destruct (n =? 1); [reflexivity|].
  change (hadError (emit_uvarint n (emit_op opPOPN c)) = hadError c).
  unfold emit_uvarint. rewrite emit_bytes_hadError. reflexivity.
Qed.

(* end(): pop the toplevel locals, emit RET *)
Lemma finish_sim : forall r s c, Sim r s c ->
  let ps := if hadError s || oof s || ppanic s then s else emit_op opRET (pop_n (nlocals s) s) in
  let cs := if hadError c then c else emit_op opRET (pop_n (nlocals c) c) in
  (hadError cs = true /\ hadError ps = true) \/
  (hadError cs = false /\ hadError ps = false /\ oof ps = false /\ ppanic ps = false /\ ev ps = ev cs).
Proof.
  intros r s c [[Hc Hs]|(Hc & Hev & Hg & Htv)]; cbv zeta.
  - left. rewrite Hc, Hs. cbn [orb]. split; assumption.
  - right. rewrite Hc, (ev_hadError _ _ Hev), Hc. pose proof Hg as (_ & _ & -> & -> & _). cbn [orb].
    rewrite (ev_nlocals _ _ Hev).
    pose proof (Sim_prim (fun x => emit_op opRET (pop_n (nlocals c) x)) r s c
                  (EP_comp (emit_op opRET) (pop_n (nlocals c)) (EP_emit_op _) (EP_pop_n _))
                  (Sim_good _ _ _ Hc Hev Hg Htv)) as HS.
    cbv beta in HS. rewrite pop_ret_hadError.
    destruct HS as [[Hc' _]|(Hc' & Hev' & Hg' & _)]; [rewrite pop_ret_hadError in Hc'; congruence|].
    destruct Hg' as (_ & _ & Ho & Hp & _).
    split; [exact Hc|]. split; [rewrite (ev_hadError _ _ Hev'); exact Hc'|].
    split; [exact Ho|]. split; [exact Hp|exact Hev'].
Qed.

(* the common core of both directions *)
Theorem T2_core : forall ts, eshape ts ->
  match ast_program ts with
  | Some p =>
      (hadError (compile_program p) = true /\ hadError (parse_tokens ts) = true) \/
      (hadError (compile_program p) = false /\ hadError (parse_tokens ts) = false /\
       oof (parse_tokens ts) = false /\ ppanic (parse_tokens ts) = false /\
       ev (parse_tokens ts) = ev (compile_program p))
  | None => hadError (parse_tokens ts) = true
  end.
Proof.
  intros ts H. pose proof (T2_top ts H) as HT. unfold parse_tokens, compile_program. cbv zeta.
  destruct (ast_program ts) as [p|].
  - destruct HT as [r HS]. exact (finish_sim _ _ _ HS).
  - rewrite HT. cbn [orb]. exact HT.
Qed.

Print Assumptions T2_core.

(* A: soundness of grammar ; generator with respect to the parser *)
Theorem T2_sound : forall ts p, lex_shape ts ->
  ast_program ts = Some p -> hadError (compile_program p) = false ->
  hadError (parse_tokens ts) = false /\ oof (parse_tokens ts) = false /\
  ppanic (parse_tokens ts) = false /\
  code (parse_tokens ts) = code (compile_program p) /\
  consts (parse_tokens ts) = consts (compile_program p) /\
  nconsts (parse_tokens ts) = nconsts (compile_program p) /\
  ncode (parse_tokens ts) = ncode (compile_program p) /\
  identRefs (parse_tokens ts) = identRefs (compile_program p).
Proof.
  intros ts p Hs Ha Hc.
  assert (He : eshape ts) by (apply lex_shape_eof; [exact Hs|apply (ptop_eof _ _ _ Ha)]).
  pose proof (T2_core ts He) as HT. rewrite Ha in HT.
  destruct HT as [[Hc' _]|(_ & H1 & H2 & H3 & Hev)]; [congruence|].
  unfold ev in Hev. injection Hev as _ _ _ Hir Hco Hnc Hcs Hncs _.
  repeat split; assumption.
Qed.
Print Assumptions T2_sound.

(* B: completeness *)
Theorem T2_complete_eof : forall ts, eshape ts -> hadError (parse_tokens ts) = false ->
  exists p, ast_program ts = Some p /\ hadError (compile_program p) = false.
Proof.
  intros ts He Hp. pose proof (T2_core ts He) as HT.
  destruct (ast_program ts) as [p|]; [|congruence].
  exists p. split; [reflexivity|]. destruct HT as [[_ H]|[H _]]; [congruence|exact H].
Qed.

(* on input that ends in tEOF, acceptance alone excludes fuel exhaustion and panics *)
Corollary T2_accept_no_oof : forall ts, eshape ts -> hadError (parse_tokens ts) = false ->
  oof (parse_tokens ts) = false /\ ppanic (parse_tokens ts) = false.
Proof.
  intros ts He Hp. pose proof (T2_core ts He) as HT.
  destruct (ast_program ts) as [p|]; [|congruence].
  destruct HT as [[_ H]|(_ & _ & H1 & H2 & _)]; [congruence|]. split; assumption.
Qed.

Theorem T2_complete : forall ts, lex_shape ts ->
  hadError (parse_tokens ts) = false -> oof (parse_tokens ts) = false ->
  ppanic (parse_tokens ts) = false ->
  exists p, ast_program ts = Some p /\ hadError (compile_program p) = false.
Proof.
  intros ts Hs Hp Ho Hpp.
  destruct (parse_ok_reaches_eof ts Hs Hp Ho Hpp) as (tk & Hl & Ht).
  apply T2_complete_eof; [|exact Hp]. exact (lex_shape_last_eof ts tk Hs Hl Ht).
Qed.
Print Assumptions T2_complete.

Theorem T2_accepts_iff : forall ts, lex_shape ts ->
  (hadError (parse_tokens ts) = false /\ oof (parse_tokens ts) = false /\
   ppanic (parse_tokens ts) = false) <->
  (exists p, ast_program ts = Some p /\ hadError (compile_program p) = false).
Proof.
  intros ts Hs. split.
  - intros (H1 & H2 & H3). apply T2_complete; assumption.
  - intros (p & Ha & Hc). destruct (T2_sound ts p Hs Ha Hc) as (H1 & H2 & H3 & _).
    repeat split; assumption.
Qed.
Print Assumptions T2_accepts_iff.

Theorem T2_code_equal : forall ts, lex_shape ts ->
  hadError (parse_tokens ts) = false -> oof (parse_tokens ts) = false ->
  ppanic (parse_tokens ts) = false ->
  exists p, ast_program ts = Some p /\ hadError (compile_program p) = false /\
    code (parse_tokens ts) = code (compile_program p) /\
    consts (parse_tokens ts) = consts (compile_program p) /\
    nconsts (parse_tokens ts) = nconsts (compile_program p) /\
    ncode (parse_tokens ts) = ncode (compile_program p) /\
    identRefs (parse_tokens ts) = identRefs (compile_program p).
Proof.
  intros ts Hs Hp Ho Hpp. destruct (T2_complete ts Hs Hp Ho Hpp) as (p & Ha & Hc).
  exists p. destruct (T2_sound ts p Hs Ha Hc) as (_ & _ & _ & H).
  split; [exact Ha|]. split; [exact Hc|exact H].
Qed.
Print Assumptions T2_code_equal.

(* the statement for sources: whatever the lexer produces *)
Corollary T2_source : forall cs,
  let ts := fst (lex cs) in
  (hadError (parse_tokens ts) = false /\ oof (parse_tokens ts) = false /\
   ppanic (parse_tokens ts) = false) <->
  (exists p, ast_program ts = Some p /\ hadError (compile_program p) = false).
Proof. intros cs. apply T2_accepts_iff, lex_tokens_shape. Qed.
Print Assumptions T2_source.
