(* Language.v: T1 and T2 composed, at the level of the API model.

   For every source text: if Parse accepts it then the token list is a sentence of the grammar of
   Spec/Syntax.v, and executing the compiled program gives exactly the result, output, blocks, binding
   and warnings that the big-step semantics over names (Spec/AstSem.v) gives to the tree of that
   sentence -- or stops at one of the two implementation limits (operand stack 1024, block nesting 16).
   Conversely every sentence whose tree the code generator accepts is accepted by Parse. *)
From Coq Require Import Lia List.
From BCL Require Import Model.Api Model.Compile Spec.AstSem Proofs.LineCalcProofs Proofs.ParserInvProofs
                        Proofs.T2Expr Proofs.T2Proofs Proofs.T1Expr Proofs.T1Proofs.
Import ListNotations.
Open Scope N_scope.

Theorem bcl_language : forall name src,
  let pr := parse_whole name src in
  let ts := fst (lex [src]) in
  pr_ok pr = true -> pr_oof pr = false -> pr_panic pr = false ->
  ps_constants (pr_stats pr) < 2^64 ->
  exists p, ast_program ts = Some p /\
    let rr := execute (pr_prog pr) false false in
    limit_res (rr_res rr) \/
    (res_match (fst (run_program p)) (rr_res rr) /\ obs_match (snd (run_program p)) rr).
Proof.
  intros name src. unfold parse_whole, parse_chunks.
  pose proof (lex_tokens_shape [src]) as Hs.
  destruct (lex [src]) as [ts l]. cbn [fst] in *.
  cbn [pr_ok pr_oof pr_panic pr_stats ps_constants pr_prog].
  intros Hok Ho Hp Hn. apply Bool.negb_true_iff in Hok.
  destruct (T2_code_equal ts Hs Hok Ho Hp) as (p & Ha & Hc & E1 & E2 & E3 & _).
  exists p. split; [exact Ha|].
  rewrite !frev_eq, E1, E2. rewrite E3 in Hn.
  exact (T1_program ts p name (rev (positions (parse_tokens ts))) l Ha Hc Hn).
Qed.
Print Assumptions bcl_language.

(* acceptance: Parse accepts exactly the sentences of the grammar that the generator accepts
   (the generator rejects: redeclaration in one scope, a variable read in its own initialiser,
   an unknown name at toplevel, more than 1024 locals, a jump over more than 65535 bytes) *)
Theorem bcl_accepts_iff : forall name src,
  let pr := parse_whole name src in
  let ts := fst (lex [src]) in
  (pr_ok pr = true /\ pr_oof pr = false /\ pr_panic pr = false) <->
  (exists p, ast_program ts = Some p /\ hadError (compile_program p) = false).
Proof.
  intros name src. unfold parse_whole, parse_chunks.
  pose proof (T2_source [src]) as H.
  destruct (lex [src]) as [ts l]. cbn [fst] in *.
  cbn [pr_ok pr_oof pr_panic]. rewrite Bool.negb_true_iff. exact H.
Qed.
Print Assumptions bcl_accepts_iff.

(* Two token lists with the same tree compile to the same program: whatever differs between two
   sources without changing the tree -- layout, comments (no tokens at all), redundant parentheses
   (no node in the tree: Spec/Syntax.pexpr returns the inner tree for '(' e ')') -- cannot change the
   code, the constant pool or the identifier table. *)
Theorem same_tree_same_program : forall ts1 ts2 p,
  lex_shape ts1 -> lex_shape ts2 ->
  ast_program ts1 = Some p -> ast_program ts2 = Some p ->
  hadError (compile_program p) = false ->
  hadError (parse_tokens ts1) = false /\ hadError (parse_tokens ts2) = false /\
  code (parse_tokens ts1) = code (parse_tokens ts2) /\
  consts (parse_tokens ts1) = consts (parse_tokens ts2) /\
  identRefs (parse_tokens ts1) = identRefs (parse_tokens ts2).
Proof.
  intros ts1 ts2 p H1 H2 A1 A2 Hc.
  destruct (T2_sound ts1 p H1 A1 Hc) as (E1 & _ & _ & C1 & K1 & _ & _ & I1).
  destruct (T2_sound ts2 p H2 A2 Hc) as (E2 & _ & _ & C2 & K2 & _ & _ & I2).
  repeat split; congruence.
Qed.
Print Assumptions same_tree_same_program.

(* '(' e ')' in operand position contributes exactly the tree of e *)
Lemma paren_is_transparent : forall f q lp r e rp r',
  ttyp lp = tLPAREN -> ttyp rp = tRPAREN ->
  pexpr f lvl_assign r = Some (e, rp :: r') ->
  pexpr (S f) q (lp :: r) =
    match ploop f q e r' with
    | Some (e', r2) => if (q <=? lvl_assign)%nat && tok_eqb (hd_typ r2) tEQ then None else Some (e', r2)
    | None => None
    end.
Proof.
  intros f q lp r e rp r' Hl Hr He. cbn [pexpr]. rewrite Hl, He, Hr. reflexivity.
Qed.

(* a compiled program never ends in an internal error of the VM: the result is success, a runtime
   error of the language, or one of the two documented limits *)
Corollary compiled_runs_clean : forall name src,
  let pr := parse_whole name src in
  pr_ok pr = true -> pr_oof pr = false -> pr_panic pr = false ->
  ps_constants (pr_stats pr) < 2^64 ->
  match rr_res (execute (pr_prog pr) false false) with
  | VOk | VErr _ _ | VPanic PExcluded => True
  | VPanic _ | VInternal _ => False
  end.
Proof.
  intros name src pr H1 H2 H3 H4.
  destruct (bcl_language name src H1 H2 H3 H4) as (p & _ & H). fold pr in H. cbv zeta in H.
  destruct H as [(pos & [L|L])|[M _]].
  - rewrite L. exact I.
  - rewrite L. exact I.
  - unfold res_match in M. destruct (fst (run_program p)) as [u|e].
    + rewrite M. exact I.
    + destruct e; cbn [err_res] in M; try (destruct M as (q & ->); exact I); try (rewrite M; exact I); contradiction.
Qed.
Print Assumptions compiled_runs_clean.
