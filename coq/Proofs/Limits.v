(* Limits.v: the two implementation limits of the VM (operand stack 1024, block nesting 16), characterised.

   Theorem T1 (Proofs/T1Proofs.v, Proofs/Language.v) has the escape disjunct `limit_res`: "or the run ended
   in `stack overflow` / `too many nested blocks`".  Here the disjunct is tied to the program:

   Part A (VM level).  `plabels p` computes the verifier's table of (operand depth, block depth) per
     instruction boundary; `peak p` = the maxima of the two columns.  A run of accepted code ends in
     "stack overflow" only if some boundary is labelled 1025 (= a push is executed at depth 1024), in "too
     many nested blocks" only if some boundary is labelled with block depth 17 (peak_stack_overflow,
     peak_too_many_blocks); hence peak <= (1024, 16) excludes both (no_limit_below).
   Part B (tree level).  need_stmts / nest_stmts: the operand slots (live locals + temporaries) and the
     block nesting a syntax tree needs.  For every tree the generator accepts,
     peak (compiled program) = Some (need_stmts p 0, nest_stmts p)   (compile_peak: EQUALITY).
   Part C.  T1 without the disjunct for programs with need_stmts p 0 <= 1024 and nest_stmts p <= 16
     (T1_exact_within_limits), the source-level form (bcl_language_within_limits), and the converse
     reading: a limit error implies that the tree exceeds the corresponding limit.
   Part D.  Examples at and just above both bounds (vm_compute). *)
From RecordUpdate Require Import RecordSet.
From Coq Require Import Lia ZifyN ZifyNat ZifyBool.
From BCL Require Import Model.Api Model.Verify Model.Compile Spec.AstSem
  Proofs.EncodingProofs Proofs.OptionsProofs Proofs.VerifyProofs Proofs.VerifyFrag
  Proofs.T1Code Proofs.T1Expr Proofs.T1Proofs Proofs.ParserInvProofs Proofs.T2Proofs
  Proofs.CompileVerifies Proofs.Language.
Import RecordSetNotations.
Open Scope N_scope.

(* ======================================================================================== *)
(* Part A.  the VM                                                                          *)
(* ======================================================================================== *)

(* ---------------------------------------------------------------------------------------- *)
(* A1. where exec_op reports the two limit errors                                            *)
(* ---------------------------------------------------------------------------------------- *)
(* the instructions that push without popping first (the test at the head of exec_op) *)
Definition pushing (instr : N) : bool :=
  (instr =? opCONST) || (instr =? opZERO) || (instr =? opONE) || (instr =? opTRUE) || (instr =? opFALSE)
  || (instr =? opNIL) || (instr =? opGETLOCAL) || (instr =? opGETFIELD).

(* the two messages are recognised by their first byte: no other run-time message starts with s or t *)
Definition c_s := 115.
Definition c_t := 116.

Lemma opcode_name_hd o x : hd 0 (opcode_name o ++ x) <> c_s /\ hd 0 (opcode_name o ++ x) <> c_t.
Proof.
  unfold opcode_name. remember (N.to_nat o) as n eqn:En. clear En.
  do 31 (destruct n as [|n]; [lazy; split; discriminate|]).
  destruct n; lazy; split; discriminate.
Qed.

Lemma invalid_types_hd o a b : hd 0 (invalid_types o a b) <> c_s /\ hd 0 (invalid_types o a b) <> c_t.
Proof. unfold invalid_types. apply opcode_name_hd. Qed.

Ltac cascade_eq :=
  repeat match goal with
         | |- context [match ?x with _ => _ end] =>
           lazymatch x with
           | context [match _ with _ => _ end] => fail
           | _ => destruct x eqn:?; vmsimp
           end
         end.

Definition lim_site (instr : N) (m : vm) (res : vm * vres) : Prop :=
  match res with
  | (_, VErr _ msg) =>
    (hd 0 msg = c_s -> tos m = stackSize /\ pushing instr = true) /\
    (hd 0 msg = c_t -> instr = opDEFBLOCK /\ btos m = blockStackSize)
  | _ => True
  end.

Ltac lim_leaf :=
  lazymatch goal with
  | |- True => exact I
  | |- _ /\ _ =>
    split; intros Hh;
    first
      [ exfalso; lazymatch type of Hh with
                 | hd 0 (invalid_types ?o ?a ?b) = _ =>
                   first [exact (proj1 (invalid_types_hd o a b) Hh) | exact (proj2 (invalid_types_hd o a b) Hh)]
                 end
      | exfalso; lazy in Hh; discriminate Hh
      | idtac ]
  end.

Lemma exec_op_lim p instr m : lim_site instr m (exec_op p instr m).
Proof.
  unfold lim_site, exec_op.
  destruct ((tos m =? stackSize) && _) eqn:E0.
  - unfold rt_err. split; intros Hh; [|exfalso; lazy in Hh; discriminate Hh].
    apply andb_prop in E0. destruct E0 as [E1 E2]. apply N.eqb_eq in E1. split; [exact E1 | exact E2].
  - clear E0. unfold read_uvarint, read_u16, read_byte, push, rt_err, vpanic, jump_to. vmsimp.
    cascade_eq; lim_leaf.
    all: split; [|apply N.eqb_eq; assumption].
    all: match goal with H : (?i =? opDEFBLOCK) = true |- ?i = opDEFBLOCK => apply N.eqb_eq; exact H end.
Qed.

(* ---------------------------------------------------------------------------------------- *)
(* A2. the verifier's successor label of those instructions                                  *)
(* ---------------------------------------------------------------------------------------- *)
Lemma vstep_pushing p o instr args d b size next newp :
  vstep p o (instr :: args) d b = Some (size, next, newp) -> pushing instr = true -> next = Some (d + 1, b).
Proof.
  intros Hv Hp. unfold pushing in Hp. unfold vstep in Hv. cbv zeta in Hv.
  split_or Hp; subst instr; revert Hv; closed_tests; intros Hv; inv_some Hv; subst; reflexivity.
Qed.

Lemma vstep_defblock p o args d b size next newp :
  vstep p o (opDEFBLOCK :: args) d b = Some (size, next, newp) -> next = Some (d, b + 1).
Proof.
  intros Hv. unfold vstep in Hv. cbv zeta in Hv. revert Hv; closed_tests; intros Hv; inv_some Hv; subst; reflexivity.
Qed.

(* ---------------------------------------------------------------------------------------- *)
(* A3. runs of well-labelled code                                                            *)
(* ---------------------------------------------------------------------------------------- *)
Definition overflow_res (r : vres) : Prop := exists pos, r = VErr pos (bs "stack overflow").
Definition nesting_res (r : vres) : Prop := exists pos, r = VErr pos (bs "too many nested blocks").

Lemma limit_res_split r : limit_res r <-> overflow_res r \/ nesting_res r.
Proof.
  unfold limit_res, overflow_res, nesting_res. split.
  - intros (pos & [H|H]); [left | right]; exists pos; exact H.
  - intros [(pos & H)|(pos & H)]; exists pos; [left | right]; exact H.
Qed.

(* a run from a labelled boundary that ends in a limit error has executed a push at depth 1024 (so the
   boundary after that push is labelled 1025), resp. a DEFBLOCK at block depth 16 *)
Lemma run_limit_site p L tr : well_labelled p L -> forall fuel m, agrees p L m ->
  (overflow_res (snd (run_fuel fuel p tr m)) -> exists o b, In (o, (stackSize + 1, b)) L) /\
  (nesting_res (snd (run_fuel fuel p tr m)) -> exists o d, In (o, (d, blockStackSize + 1)) L).
Proof.
  intros HL. induction fuel as [|f IH]; intros m Ha.
  - cbn [run_fuel snd]. split; intros (pos & H); discriminate H.
  - pose proof (agrees_node _ _ _ HL Ha) as Hn.
    rewrite run_fuel_S. cbv zeta. rewrite rest_setout.
    unfold node_ok in Hn. pose proof Ha as (Hrest & Hin & W). rewrite <- Hrest in Hn. clear Hrest.
    destruct (rest m) as [|instr r] eqn:Er; [destruct Hn|].
    destruct (instr =? opRET) eqn:Eret.
    + destruct (tos _ =? 0); cbn [snd]; split; intros (pos & H); discriminate H.
    + pose proof (iter_sound p L tr m instr r HL Ha Er Eret) as G.
      pose proof (exec_op_lim p instr (advance r (setout (tr m ++ vout m) m))) as S.
      destruct (exec_op p instr (advance r (setout (tr m ++ vout m) m))) as [m2 r2].
      unfold good in G. unfold lim_site in S. destruct r2 as [|q msg| |k].
      * destruct G as [Ha2 _]. apply IH. exact Ha2.
      * rewrite tos_advance, tos_setout in S. destruct S as [S1 S2].
        destruct Hn as (size & next & newp & Hv & _ & Hnx & _).
        cbn [snd]. split; intros (pos & H); inversion H; subst q msg.
        -- destruct (S1 eq_refl) as [T1 T2]. pose proof (vstep_pushing _ _ _ _ _ _ _ _ _ Hv T2) as En.
           exists (pc m + size), (btos m). rewrite <- T1. apply Hnx. exact En.
        -- destruct (S2 eq_refl) as [T1 T2]. subst instr. pose proof (vstep_defblock _ _ _ _ _ _ _ _ Hv) as En.
           exists (pc m + size), (tos m). change (btos (advance r (setout (tr m ++ vout m) m))) with (btos m) in T2.
           rewrite <- T2. apply Hnx. exact En.
      * cbn [snd]. split; intros (pos & H); discriminate H.
      * cbn [snd]. split; intros (pos & H); discriminate H.
Qed.

(* labels bounded by D (operand depth) and B (block depth) *)
Definition bounded (D B : N) (L : labels) : Prop := forall o d b, In (o, (d, b)) L -> d <= D /\ b <= B.

(* goal 1, for any labelling: if no boundary is labelled beyond the sizes of the two stacks, no run (any fuel,
   any trace hook) ends in a limit error.  The bound is tight: a label may be 1024 (a full stack at an
   instruction that does not push), 1025 is what a push from a full stack would give. *)
Theorem no_limit_labelled : forall p L, well_labelled p L -> bounded stackSize blockStackSize L ->
  forall fuel tr, ~ limit_res (snd (run_fuel fuel p tr (init_vm p))).
Proof.
  intros p L HL HB fuel tr H. apply limit_res_split in H.
  destruct (run_limit_site p L tr HL fuel (init_vm p) (agrees_init p L HL)) as [H1 H2].
  destruct H as [H|H].
  - destruct (H1 H) as (o & b & Hin). apply HB in Hin. lia.
  - destruct (H2 H) as (o & d & Hin). apply HB in Hin. lia.
Qed.
Print Assumptions no_limit_labelled.

(* ---------------------------------------------------------------------------------------- *)
(* A4. the labelling, computed: the verifier's walk returning its table                      *)
(* ---------------------------------------------------------------------------------------- *)
Fixpoint lwalk (fuel : nat) (p : prog) (o : N) (r : bytes) (cur : option (N * N)) (pd : pend) : option labels :=
  match fuel with
  | O => None
  | S f =>
    let '(here, pd1) := pend_at o pd in
    match pick cur here with
    | None => None
    | Some (d, b) =>
      match r with
      | [] => None
      | instr :: rest =>
        if instr =? opRET then
          if (d =? 0) && (b =? 0) && match rest with [] => true | _ => false end && match pd1 with [] => true | _ => false end
          then Some [(o, (d, b))] else None
        else
          match vstep p o r d b with
          | None => None
          | Some (size, next, newp) =>
            let o' := o + size in
            let pd2 := match newp with Some x => x :: pd1 | None => pd1 end in
            if forallb (fun t => o' <=? fst t) pd2
            then match lwalk f p o' (skipn (N.to_nat size) r) next pd2 with
                 | Some L => Some ((o, (d, b)) :: L)
                 | None => None
                 end
            else None
          end
      end
    end
  end.

Definition plabels (p : prog) : option labels :=
  if nlen (g_pos p) =? nlen (g_code p)
  then lwalk (S (length (g_code p))) p 0 (g_code p) (Some (0, 0)) []
  else None.

Definition maxd (L : labels) : N := fold_right (fun e a => N.max (fst (snd e)) a) 0 L.
Definition maxb (L : labels) : N := fold_right (fun e a => N.max (snd (snd e)) a) 0 L.

(* the peak operand depth and the peak block depth over all instruction boundaries; None = not accepted *)
Definition peak (p : prog) : option (N * N) :=
  match plabels p with Some L => Some (maxd L, maxb L) | None => None end.

Lemma lwalk_S f p o r cur pd :
  lwalk (S f) p o r cur pd =
  let '(here, pd1) := pend_at o pd in
  match pick cur here with
  | None => None
  | Some (d, b) =>
    match r with
    | [] => None
    | instr :: rest =>
      if instr =? opRET then
        if (d =? 0) && (b =? 0) && match rest with [] => true | _ => false end && match pd1 with [] => true | _ => false end
        then Some [(o, (d, b))] else None
      else
        match vstep p o r d b with
        | None => None
        | Some (size, next, newp) =>
          let o' := o + size in
          let pd2 := match newp with Some x => x :: pd1 | None => pd1 end in
          if forallb (fun t => o' <=? fst t) pd2
          then match lwalk f p o' (skipn (N.to_nat size) r) next pd2 with
               | Some L => Some ((o, (d, b)) :: L)
               | None => None
               end
          else None
        end
    end
  end.
Proof. reflexivity. Qed.

(* lwalk answers exactly when vwalk accepts *)
Lemma lwalk_vwalk : forall fuel p o r cur pd,
  vwalk fuel p o r cur pd = match lwalk fuel p o r cur pd with Some _ => true | None => false end.
Proof.
  induction fuel as [|f IH]; intros p o r cur pd; [reflexivity|].
  rewrite vwalk_S, lwalk_S. destruct (pend_at o pd) as [here pd1].
  destruct (pick cur here) as [[d b]|]; [|reflexivity].
  destruct r as [|instr rest]; [reflexivity|].
  destruct (instr =? opRET).
  { destruct ((d =? 0) && (b =? 0) && _ && _); reflexivity. }
  destruct (vstep p o (instr :: rest) d b) as [[[size next] newp]|]; [|reflexivity].
  cbv zeta. destruct (forallb _ _); [|reflexivity].
  rewrite IH. destruct (lwalk f p _ _ next _); reflexivity.
Qed.

Theorem verify_plabels p : verify p = true <-> exists L, plabels p = Some L.
Proof.
  unfold verify, plabels. rewrite lwalk_vwalk. destruct (nlen (g_pos p) =? nlen (g_code p)); cbn [andb].
  - destruct (lwalk _ _ _ _ _ _) as [L|]; split; try discriminate.
    + intros _. exists L. reflexivity.
    + reflexivity.
    + intros [L H]. discriminate H.
  - split; [discriminate|]. intros [L H]. discriminate H.
Qed.

Theorem verify_peak p : verify p = true <-> exists d b, peak p = Some (d, b).
Proof.
  rewrite verify_plabels. unfold peak. split.
  - intros [L H]. rewrite H. eexists _, _. reflexivity.
  - intros (d & b & H). destruct (plabels p) as [L|]; [exists L; reflexivity | discriminate H].
Qed.

(* the table is a labelling in the sense of VerifyProofs (proof: as vwalk_labels) *)
Lemma lwalk_labels : forall fuel p o r cur pd L,
  lwalk fuel p o r cur pd = Some L -> r = code_at p o ->
    (forall l, cur = Some l -> In (o, l) L) /\
    (forall t l, In (t, l) pd -> In (t, l) L) /\
    (forall o' d b, In (o', (d, b)) L -> node_ok p L o' d b) /\
    (forall e, In e L -> o <= fst e) /\
    NoDup (map fst L).
Proof.
  induction fuel as [|f IH]; intros p o r cur pd L H Hr; [discriminate|].
  rewrite lwalk_S in H. destruct (pend_at o pd) as [here pd1] eqn:Ep.
  pose proof (pend_at_spec _ _ _ _ Ep) as Hpd.
  destruct (pick cur here) as [[d b]|] eqn:El; [|discriminate].
  apply walk_label in El. destruct El as [Hcur Hhere].
  destruct r as [|instr args]; [discriminate|].
  destruct (instr =? opRET) eqn:Eret.
  - destruct ((d =? 0) && (b =? 0) && _ && _) eqn:H4; [|discriminate]. inversion H; subst L; clear H.
    apply andb_prop in H4. destruct H4 as [H4 H5]. apply andb_prop in H4. destruct H4 as [H4 H3].
    apply andb_prop in H4. destruct H4 as [H1 H2]. apply N.eqb_eq in H1, H2. subst d b.
    destruct args; [|discriminate]. destruct pd1; [|discriminate].
    split; [|split; [|split; [|split]]].
    + intros l E. rewrite (Hcur l E). left. reflexivity.
    + intros t l Hin. destruct (Hpd t l Hin) as [[H1 H2]|[]]. subst t. rewrite (Hhere l H2). left. reflexivity.
    + intros o' d b [E|[]]. inversion E; subst o' d b. unfold node_ok. rewrite <- Hr, Eret. repeat split.
    + intros e [E|[]]. subst e. cbn [fst]. lia.
    + cbn [map fst]. constructor; [intros []|constructor].
  - destruct (vstep p o (instr :: args) d b) as [[[size next] newp]|] eqn:Ev; [|discriminate].
    pose proof (vstep_size _ _ _ _ _ _ _ _ Ev) as Hsz. cbv zeta in H.
    match type of H with (if forallb ?f ?pd2 then _ else _) = _ => destruct (forallb f pd2) eqn:Ef; [|discriminate] end.
    match type of H with match ?x with _ => _ end = _ => destruct x as [L'|] eqn:EL'; [|discriminate] end.
    inversion H; subst L; clear H.
    apply IH in EL'; [|rewrite Hr; apply code_at_skip].
    destruct EL' as (Hn' & Hp' & Hok' & Hge' & Hnd').
    split; [|split; [|split; [|split]]].
    + intros l E. rewrite (Hcur l E). left. reflexivity.
    + intros t l Hin. destruct (Hpd t l Hin) as [[H1 H2]|H1].
      * subst t. rewrite (Hhere l H2). left. reflexivity.
      * right. apply Hp'. destruct newp; [right|]; exact H1.
    + intros o' d' b' [E|Hin].
      * inversion E; subst o' d' b'. unfold node_ok. rewrite <- Hr, Eret.
        exists size, next, newp. split; [exact Ev|]. split; [exact Hsz|]. split.
        -- intros l E'. right. apply Hn'. exact E'.
        -- intros t l E'. subst newp. split; [right; apply Hp'; left; reflexivity|].
           cbn [forallb fst] in Ef. apply andb_prop in Ef. destruct Ef as [Ef _]. apply N.leb_le in Ef. exact Ef.
      * apply node_ok_mono with (L := L'); [intros x Hx; right; exact Hx | apply Hok'; exact Hin].
    + intros e [E|Hin]; [subst e; cbn [fst]; lia|]. specialize (Hge' e Hin). lia.
    + cbn [map fst]. constructor; [|exact Hnd'].
      intros Hin. apply in_map_iff in Hin. destruct Hin as (e & E1 & E2). specialize (Hge' e E2). lia.
Qed.

Theorem plabels_well_labelled p L : plabels p = Some L -> well_labelled p L /\ functional L.
Proof.
  unfold plabels. destruct (nlen (g_pos p) =? nlen (g_code p)); [|discriminate]. intros H.
  apply lwalk_labels in H; [|reflexivity]. destruct H as (Hc & _ & Hok & _ & Hnd).
  split; [split; [apply Hc; reflexivity | exact Hok] | apply nodup_functional, Hnd].
Qed.

Lemma maxd_bound L : forall o d b, In (o, (d, b)) L -> d <= maxd L /\ b <= maxb L.
Proof.
  induction L as [|e L IH]; intros o d b Hin; [destruct Hin|].
  unfold maxd, maxb in *. cbn [fold_right]. destruct Hin as [E|Hin].
  - subst e. cbn [fst snd]. lia.
  - specialize (IH o d b Hin). lia.
Qed.

Lemma maxd_attained L : L <> [] -> (exists o b, In (o, (maxd L, b)) L) /\ (exists o d, In (o, (d, maxb L)) L).
Proof.
  induction L as [|[o [d b]] L IH]; intros Hne; [congruence|].
  destruct L as [|e L'].
  - unfold maxd, maxb. cbn [fold_right fst snd]. rewrite !N.max_0_r. split; eexists _, _; left; reflexivity.
  - destruct IH as [(o1 & b1 & I1) (o2 & d2 & I2)]; [discriminate|]. set (L := e :: L') in *.
    change (maxd ((o, (d, b)) :: L)) with (N.max d (maxd L)). change (maxb ((o, (d, b)) :: L)) with (N.max b (maxb L)).
    split.
    + destruct (N.max_spec d (maxd L)) as [[_ ->]|[_ ->]]; [exists o1, b1; right; exact I1 | exists o, b; left; reflexivity].
    + destruct (N.max_spec b (maxb L)) as [[_ ->]|[_ ->]]; [exists o2, d2; right; exact I2 | exists o, d; left; reflexivity].
Qed.

(* ---------------------------------------------------------------------------------------- *)
(* A5. goal 1 with the executable bound                                                      *)
(* ---------------------------------------------------------------------------------------- *)
(* a limit error names the column of the table that exceeds the size of the corresponding stack *)
Theorem peak_stack_overflow : forall p d b fuel tr, peak p = Some (d, b) ->
  overflow_res (snd (run_fuel fuel p tr (init_vm p))) -> stackSize < d.
Proof.
  intros p d b fuel tr Hp H. unfold peak in Hp. destruct (plabels p) as [L|] eqn:EL; [|discriminate Hp].
  inversion Hp; subst d b. destruct (plabels_well_labelled p L EL) as [HL _].
  destruct (run_limit_site p L tr HL fuel (init_vm p) (agrees_init p L HL)) as [H1 _].
  destruct (H1 H) as (o & b & Hin). apply maxd_bound in Hin. lia.
Qed.

Theorem peak_too_many_blocks : forall p d b fuel tr, peak p = Some (d, b) ->
  nesting_res (snd (run_fuel fuel p tr (init_vm p))) -> blockStackSize < b.
Proof.
  intros p d b fuel tr Hp H. unfold peak in Hp. destruct (plabels p) as [L|] eqn:EL; [|discriminate Hp].
  inversion Hp; subst d b. destruct (plabels_well_labelled p L EL) as [HL _].
  destruct (run_limit_site p L tr HL fuel (init_vm p) (agrees_init p L HL)) as [_ H2].
  destruct (H2 H) as (o & d & Hin). apply maxd_bound in Hin. lia.
Qed.

Theorem no_limit_below : forall p d b, peak p = Some (d, b) -> d <= stackSize -> b <= blockStackSize ->
  forall fuel tr, ~ limit_res (snd (run_fuel fuel p tr (init_vm p))).
Proof.
  intros p d b Hp Hd Hb fuel tr H. apply limit_res_split in H. destruct H as [H|H].
  - pose proof (peak_stack_overflow p d b fuel tr Hp H). lia.
  - pose proof (peak_too_many_blocks p d b fuel tr Hp H). lia.
Qed.
Print Assumptions no_limit_below.

(* the same for the run Api.execute performs *)
Corollary execute_no_limit : forall p d b, peak p = Some (d, b) -> d <= stackSize -> b <= blockStackSize ->
  ~ limit_res (rr_res (execute p false false)).
Proof.
  intros p d b Hp Hd Hb. rewrite execute_plain.
  pose proof (no_limit_below p d b Hp Hd Hb (run_bound p) T1Vm.tr0) as H.
  destruct (run_fuel (run_bound p) p T1Vm.tr0 (init_vm p)) as [m r]. exact H.
Qed.

(* ======================================================================================== *)
(* Part B.  the generated code: its table, compositionally, with the peaks                   *)
(* ======================================================================================== *)

(* ---------------------------------------------------------------------------------------- *)
(* B1. fragments with peaks (Proofs/VerifyFrag.v, for lwalk)                                 *)
(* ---------------------------------------------------------------------------------------- *)
Lemma lwalk_pend_eq fuel p o r cur cur' pd pd' :
  snd (pend_at o pd) = snd (pend_at o pd') ->
  pick cur (fst (pend_at o pd)) = pick cur' (fst (pend_at o pd')) ->
  lwalk fuel p o r cur pd = lwalk fuel p o r cur' pd'.
Proof.
  intros H1 H2. destruct fuel as [|f]; [reflexivity|]. rewrite !lwalk_S.
  destruct (pend_at o pd) as [h1 r1], (pend_at o pd') as [h2 r2]. cbn [fst snd] in *. subst r2. rewrite H2.
  reflexivity.
Qed.

Lemma lwalk_fuel : forall fuel p o r cur pd L,
  lwalk fuel p o r cur pd = Some L -> forall fuel', (length r < fuel')%nat -> lwalk fuel' p o r cur pd = Some L.
Proof.
  induction fuel as [|f IH]; intros p o r cur pd L H fuel' Hf; [discriminate H|].
  destruct fuel' as [|f']; [lia|]. rewrite lwalk_S in *.
  destruct (pend_at o pd) as [here pd1]. destruct (pick cur here) as [[d b]|]; [|discriminate H].
  destruct r as [|instr rest]; [discriminate H|]. destruct (instr =? opRET); [exact H|].
  destruct (vstep p o (instr :: rest) d b) as [[[size next] newp]|] eqn:Ev; [|discriminate H].
  pose proof (vstep_size _ _ _ _ _ _ _ _ Ev) as Hs. cbv zeta in *.
  destruct (forallb _ _); [|discriminate H].
  destruct (lwalk f p _ _ next _) as [L'|] eqn:EL'; [|discriminate H].
  erewrite IH; [exact H | exact EL' |]. rewrite skipn_length. cbn [length] in *. lia.
Qed.

Section FragB.
Variable p : prog.

(* the walk from o accepts, and the maxima of the two columns of its table are D and B *)
Definition lok (o : N) (r : bytes) (cur : option (N * N)) (pd : pend) (D B : N) : Prop :=
  exists fuel L, lwalk fuel p o r cur pd = Some L /\ maxd L = D /\ maxb L = B.

Lemma lok_cast o r cur pd D B D' B' : lok o r cur pd D B -> D = D' -> B = B' -> lok o r cur pd D' B'.
Proof. intros H -> ->. exact H. Qed.

Lemma lok_ge o r d b pd D B : lok o r (Some (d, b)) pd D B -> d <= D /\ b <= B.
Proof.
  intros (fuel & L & H & HD & HB). destruct fuel as [|f]; [discriminate H|]. rewrite lwalk_S in H.
  destruct (pend_at o pd) as [here pd1]. cbn [pick] in H.
  destruct (forallb (lab_eqb (d, b)) here); [|discriminate H].
  destruct r as [|instr rest]; [discriminate H|].
  assert (G : exists L', L = (o, (d, b)) :: L').
  { destruct (instr =? opRET).
    - destruct (_ && _ && _ && _); [|discriminate H]. inversion H. eexists. reflexivity.
    - destruct (vstep p o (instr :: rest) d b) as [[[size next] newp]|]; [|discriminate H]. cbv zeta in H.
      destruct (forallb _ _); [|discriminate H]. destruct (lwalk f p _ _ next _); [|discriminate H].
      inversion H. eexists. reflexivity. }
  destruct G as [L' ->]. subst D B. unfold maxd, maxb. cbn [fold_right fst snd]. lia.
Qed.

Lemma lok_absorb o r l pd D B : lok o r (Some l) pd D B -> lok o r (Some l) ((o, l) :: pd) D B.
Proof.
  intros (fuel & L & H & HD). exists fuel, L. split; [|exact HD]. rewrite <- H.
  apply lwalk_pend_eq; rewrite pend_at_hit; cbn [fst snd]; [reflexivity|].
  cbn [pick forallb]. rewrite lab_eqb_refl. reflexivity.
Qed.

Lemma lok_land o r l t pd D B : o < t -> pd_ge t pd ->
  lok o r (Some l) ((t, l) :: pd) D B -> lok o r None ((t, l) :: (o, l) :: pd) D B.
Proof.
  intros Ht F (fuel & L & H & HD). exists fuel, L. split; [|exact HD]. rewrite <- H.
  assert (E : pend_at o pd = ([], pd)) by (eapply pend_at_gt; eassumption).
  apply lwalk_pend_eq; rewrite (pend_at_miss o t l pd), (pend_at_miss o t l ((o, l) :: pd)) by lia;
    rewrite pend_at_hit, E; cbn [fst snd]; reflexivity.
Qed.

Lemma lok_step o instr args post d b next newp pd D B :
  (instr =? opRET) = false ->
  vstep p o (instr :: args ++ post) d b = Some (1 + nlen args, next, newp) ->
  pd_ge (o + (1 + nlen args)) pd ->
  (forall t l, newp = Some (t, l) -> o + (1 + nlen args) <= t) ->
  lok (o + (1 + nlen args)) post next (match newp with Some x => x :: pd | None => pd end) D B ->
  lok o (instr :: args ++ post) (Some (d, b)) pd (N.max d D) (N.max b B).
Proof.
  intros Hret Hv F Hn (f & L & H & HD & HB). exists (S f), ((o, (d, b)) :: L). split.
  - rewrite lwalk_S. rewrite (pend_at_gt o _ pd F) by lia. cbn [pick forallb]. rewrite Hret, Hv.
    cbv zeta. rewrite skipn_instr.
    replace (forallb _ _) with true;
      [exact (f_equal (fun x => match x with Some L0 => Some ((o, (d, b)) :: L0) | None => None end) H)|]. symmetry.
    destruct newp as [[t l]|]; [|apply forallb_ge, F].
    cbn [forallb fst]. rewrite (forallb_ge _ _ F). rewrite Bool.andb_true_r. apply N.leb_le. eapply Hn. reflexivity.
  - subst D B. split; reflexivity.
Qed.

(* the bytes fr take the label (d, b) to (d', b'); the labels of the boundaries inside fr have the
   maxima Df and Bf (the exit label belongs to what follows) *)
Definition fragb (fr : bytes) (d b d' b' Df Bf : N) : Prop :=
  forall o post pd D B, pd_ge (o + nlen fr) pd ->
    lok (o + nlen fr) post (Some (d', b')) pd D B -> lok o (fr ++ post) (Some (d, b)) pd (N.max Df D) (N.max Bf B).

(* what follows starts with the exit label: only the maxima together with it matter *)
Lemma fragb_adj fr d b d' b' Df Bf Df2 Bf2 : fragb fr d b d' b' Df Bf ->
  N.max Df d' = N.max Df2 d' -> N.max Bf b' = N.max Bf2 b' -> fragb fr d b d' b' Df2 Bf2.
Proof.
  intros H E1 E2 o post pd D B F K. destruct (lok_ge _ _ _ _ _ _ _ K) as [G1 G2].
  eapply lok_cast; [apply H; eassumption | lia | lia].
Qed.

Lemma fragb_nil d b : fragb [] d b d b 0 0.
Proof.
  intros o post pd D B _ H. change (nlen (@nil N)) with 0 in H. rewrite N.add_0_r in H.
  eapply lok_cast; [exact H | lia | lia].
Qed.

Lemma fragb_app f1 f2 d b d1 b1 d2 b2 D1 B1 D2 B2 :
  fragb f1 d b d1 b1 D1 B1 -> fragb f2 d1 b1 d2 b2 D2 B2 -> fragb (f1 ++ f2) d b d2 b2 (N.max D1 D2) (N.max B1 B2).
Proof.
  intros X Y o post pd D B F H. rewrite nlen_app in *. rewrite <- app_assoc.
  eapply lok_cast; [apply X; [eapply pd_ge_le; [|exact F]; lia | apply Y; rewrite <- N.add_assoc; eassumption] |lia|lia].
Qed.

Lemma fragb_instr instr args d b d' b' :
  (instr =? opRET) = false ->
  (forall o post, vstep p o (instr :: args ++ post) d b = Some (1 + nlen args, Some (d', b'), None)) ->
  fragb (instr :: args) d b d' b' d b.
Proof.
  intros Hret Hv o post pd D B F H. rewrite nlen_cons', (N.add_comm (nlen args) 1) in F, H.
  change ((instr :: args) ++ post) with (instr :: args ++ post).
  eapply lok_step; [exact Hret | apply Hv | exact F | discriminate | exact H].
Qed.

Ltac leb_true :=
  repeat match goal with
         | |- context [?a <=? ?b] => replace (a <=? b) with true by (symmetry; apply N.leb_le; lia)
         | |- context [?a <? ?b] => replace (a <? b) with true by (symmetry; apply N.ltb_lt; lia)
         end; cbn [andb].
Ltac fin3 := apply some3; [rewrite ?nlen_app; unfold nlen; cbn [length]; lia | f_equal; lia].
Ltac op_frag := apply (fragb_instr _ []); [reflexivity|]; intros o post; cbn [app]; unfold vstep; closed_tests; leb_true.

Lemma g_push op d b : In op [opZERO; opONE; opTRUE; opFALSE; opNIL] -> fragb [op] d b (d + 1) b d b.
Proof.
  intros Hin. cbn [In] in Hin.
  repeat (destruct Hin as [Hin|Hin]; [subst op; op_frag; reflexivity|]). destruct Hin.
Qed.

Lemma g_binop op d b : In op [opEQ; opLT; opGT; opADD; opSUB; opMUL; opDIV] -> fragb [op] (d + 2) b (d + 1) b (d + 2) b.
Proof.
  intros Hin. cbn [In] in Hin.
  repeat (destruct Hin as [Hin|Hin]; [subst op; op_frag; fin3|]). destruct Hin.
Qed.

Lemma g_unop op d b : In op [opNEG; opUNPLUS; opNOT] -> fragb [op] (d + 1) b (d + 1) b (d + 1) b.
Proof.
  intros Hin. cbn [In] in Hin.
  repeat (destruct Hin as [Hin|Hin]; [subst op; op_frag; reflexivity|]). destruct Hin.
Qed.

Lemma g_pop op d b : In op [opPOP; opPRINT] -> fragb [op] (d + 1) b d b (d + 1) b.
Proof.
  intros Hin. cbn [In] in Hin.
  repeat (destruct Hin as [Hin|Hin]; [subst op; op_frag; fin3|]). destruct Hin.
Qed.

Lemma g_endblock d b : fragb [opENDBLOCK] d (b + 1) d b d (b + 1).
Proof. op_frag. fin3. Qed.

Ltac uv_frag x :=
  apply (fragb_instr _ (uv_enc x)); [reflexivity|]; intros o post; unfold vstep; closed_tests;
  rewrite uvarint_roundtrip by lia.

Lemma g_const i d b : const_ok p i = true -> i < 2^64 -> fragb (opCONST :: uv_enc i) d b (d + 1) b d b.
Proof. intros C Hi. uv_frag i. rewrite C. reflexivity. Qed.

Lemma g_popn k d b : k < 2^64 -> fragb (opPOPN :: uv_enc k) (d + k) b d b (d + k) b.
Proof. intros Hk. uv_frag k. leb_true. unfold nlen. fin3. Qed.

Lemma g_getlocal i d b : i < d -> i < 2^64 -> fragb (opGETLOCAL :: uv_enc i) d b (d + 1) b d b.
Proof. intros H Hi. uv_frag i. leb_true. reflexivity. Qed.

Lemma g_setlocal i d b : i < d + 1 -> i < 2^64 -> fragb (opSETLOCAL :: uv_enc i) (d + 1) b (d + 1) b (d + 1) b.
Proof. intros H Hi. uv_frag i. leb_true. reflexivity. Qed.

Lemma g_getfield i d b : const_is_str p i = true -> i < 2^64 ->
  fragb (opGETFIELD :: uv_enc i) d (b + 1) (d + 1) (b + 1) d (b + 1).
Proof. intros C Hi. uv_frag i. rewrite C. leb_true. reflexivity. Qed.

Lemma g_setfield i d b : const_is_str p i = true -> i < 2^64 ->
  fragb (opSETFIELD :: uv_enc i) (d + 1) (b + 1) (d + 1) (b + 1) (d + 1) (b + 1).
Proof. intros C Hi. uv_frag i. rewrite C. leb_true. reflexivity. Qed.

Lemma g_defblock ti ni d b : const_is_str p ti = true -> const_is_str p ni = true -> ti < 2^64 -> ni < 2^64 ->
  fragb (opDEFBLOCK :: uv_enc ti ++ uv_enc ni) d b d (b + 1) d b.
Proof.
  intros C1 C2 H1 H2. apply (fragb_instr _ (uv_enc ti ++ uv_enc ni)); [reflexivity|]. intros o post.
  unfold vstep; closed_tests. rewrite <- app_assoc. rewrite uvarint_roundtrip by lia.
  rewrite skipn_app, skipn_all, Nat.sub_diag. cbn [app skipn]. rewrite uvarint_roundtrip by lia.
  rewrite C1, C2. cbn [andb]. rewrite nlen_app. unfold nlen. fin3.
Qed.

Lemma g_bind i opt d b : const_is_str p i = true -> i < 2^64 -> fragb (opBIND :: uv_enc i ++ [opt]) d b d b d b.
Proof.
  intros C Hi. apply (fragb_instr _ (uv_enc i ++ [opt])); [reflexivity|]. intros o post.
  unfold vstep; closed_tests. rewrite <- app_assoc. rewrite uvarint_roundtrip by lia.
  rewrite <- (Nat.add_0_r (length (uv_enc i))), nth_opt_app_r. cbn [app nth_opt]. rewrite C.
  rewrite nlen_app. unfold nlen. cbn [length]. fin3.
Qed.

Lemma lok_jfalse o J post d b pd D B : J <= 65535 ->
  pd_ge (o + 3) pd ->
  lok (o + 3) post (Some (d + 1, b)) ((o + 3 + J, (d + 1, b)) :: pd) D B ->
  lok o (opJFALSE :: J / 256 mod 256 :: J mod 256 :: post) (Some (d + 1, b)) pd (N.max (d + 1) D) (N.max b B).
Proof.
  intros HJ F H. pose proof (vstep_jfalse p o J post d b HJ) as V.
  change (opJFALSE :: J / 256 mod 256 :: J mod 256 :: post) with (opJFALSE :: [J / 256 mod 256; J mod 256] ++ post).
  set (args := [J / 256 mod 256; J mod 256]) in *.
  assert (E3 : 3 = 1 + nlen args) by reflexivity. rewrite E3 in *.
  eapply lok_step; [reflexivity | exact V | exact F | | exact H].
  intros t l E. inversion E. lia.
Qed.

Lemma lok_jump_land o J post d b pd D B : J <= 65535 -> 1 <= J ->
  pd_ge (o + 3 + J) pd ->
  lok (o + 3) post (Some (d, b)) ((o + 3 + J, (d, b)) :: pd) D B ->
  lok o (opJUMP :: J / 256 mod 256 :: J mod 256 :: post) (Some (d, b)) ((o + 3, (d, b)) :: pd) (N.max d D) (N.max b B).
Proof.
  intros HJ H1 F H. pose proof (vstep_jump p o J post d b HJ) as V.
  change (opJUMP :: J / 256 mod 256 :: J mod 256 :: post) with (opJUMP :: [J / 256 mod 256; J mod 256] ++ post).
  set (args := [J / 256 mod 256; J mod 256]) in *.
  assert (E3 : 3 = 1 + nlen args) by reflexivity. rewrite E3 in *.
  eapply lok_step; [reflexivity | exact V | | | ].
  - apply pd_ge_cons; [lia|]. eapply pd_ge_le; [|exact F]. lia.
  - intros t l E. inversion E. lia.
  - apply lok_land; [lia | exact F | exact H].
Qed.

Lemma lok_ret o : lok o [opRET] (Some (0, 0)) [] 0 0.
Proof. exists 1%nat, [(o, (0, 0))]. repeat split. Qed.

(* `a and b`:  [a] JFALSE end POP [b] end: *)
Lemma fragb_and fa fc d b Da Ba Dc Bc : let J := nlen fc + 1 in
  fragb fa d b (d + 1) b Da Ba -> fragb fc d b (d + 1) b Dc Bc -> J <= 65535 ->
  fragb (fa ++ [opJFALSE; J / 256 mod 256; J mod 256; opPOP] ++ fc) d b (d + 1) b
        (N.max Da (N.max (d + 1) Dc)) (N.max Ba (N.max b Bc)).
Proof.
  intros JJ Ga Gc J o post pd D B F K. destruct (lok_ge _ _ _ _ _ _ _ K) as [K1 K2].
  rewrite <- app_assoc. eapply lok_cast; [apply Ga|..].
  { eapply pd_ge_le; [|exact F]. rewrite nlen_app. lia. }
  rewrite !nlen_app in F, K.
  change (nlen [opJFALSE; JJ / 256 mod 256; JJ mod 256; opPOP]) with 4 in F, K.
  set (o1 := o + nlen fa) in *.
  replace (o + (nlen fa + (4 + nlen fc))) with (o1 + 4 + nlen fc) in F, K by lia.
  cbn [app]. apply lok_jfalse; [exact J | eapply pd_ge_le; [|exact F]; lia |].
  assert (F' : pd_ge (o1 + 4 + nlen fc) ((o1 + 3 + JJ, (d + 1, b)) :: pd)) by (apply pd_ge_cons; [unfold JJ; lia | exact F]).
  apply (g_pop opPOP d b (or_introl eq_refl) (o1 + 3) (fc ++ post)).
  { eapply pd_ge_le; [|exact F']. change (nlen [opPOP]) with 1. lia. }
  change (nlen [opPOP]) with 1. replace (o1 + 3 + 1) with (o1 + 4) by lia.
  apply Gc; [exact F'|].
  replace (o1 + 3 + JJ) with (o1 + 4 + nlen fc) by (unfold JJ; lia).
  apply lok_absorb. exact K.
  all: lia.
Qed.

(* `a or b`:  [a] JFALSE mid JUMP end mid: POP [b] end: *)
Lemma fragb_or fa fc d b Da Ba Dc Bc : let J := nlen fc + 1 in
  fragb fa d b (d + 1) b Da Ba -> fragb fc d b (d + 1) b Dc Bc -> J <= 65535 ->
  fragb (fa ++ [opJFALSE; 0; 3; opJUMP; J / 256 mod 256; J mod 256; opPOP] ++ fc) d b (d + 1) b
        (N.max Da (N.max (d + 1) Dc)) (N.max Ba (N.max b Bc)).
Proof.
  intros JJ Ga Gc J o post pd D B F K. destruct (lok_ge _ _ _ _ _ _ _ K) as [K1 K2].
  rewrite <- app_assoc. eapply lok_cast; [apply Ga|..].
  { eapply pd_ge_le; [|exact F]. rewrite nlen_app. lia. }
  rewrite !nlen_app in F, K.
  change (nlen [opJFALSE; 0; 3; opJUMP; JJ / 256 mod 256; JJ mod 256; opPOP]) with 7 in F, K.
  set (o1 := o + nlen fa) in *.
  replace (o + (nlen fa + (7 + nlen fc))) with (o1 + 7 + nlen fc) in F, K by lia.
  cbn [app].
  refine (lok_jfalse o1 3 _ d b pd _ _ _ _ _); [lia | eapply pd_ge_le; [|exact F]; lia |].
  assert (F3 : pd_ge (o1 + 3 + 3 + JJ) pd) by (eapply pd_ge_le; [|exact F]; unfold JJ; lia).
  apply lok_jump_land; [exact J | unfold JJ; lia | exact F3 |].
  assert (F' : pd_ge (o1 + 7 + nlen fc) ((o1 + 3 + 3 + JJ, (d + 1, b)) :: pd)) by (apply pd_ge_cons; [unfold JJ; lia | exact F]).
  apply (g_pop opPOP d b (or_introl eq_refl) (o1 + 3 + 3) (fc ++ post)).
  { eapply pd_ge_le; [|exact F']. change (nlen [opPOP]) with 1. lia. }
  change (nlen [opPOP]) with 1. replace (o1 + 3 + 3 + 1) with (o1 + 7) by lia.
  apply Gc; [exact F'|].
  replace (o1 + 3 + 3 + JJ) with (o1 + 7 + nlen fc) by (unfold JJ; lia).
  apply lok_absorb. exact K.
  all: lia.
Qed.

End FragB.

(* ---------------------------------------------------------------------------------------- *)
(* B2. what a tree needs                                                                     *)
(* ---------------------------------------------------------------------------------------- *)
(* operand slots an expression uses above the current depth (its value included):
   a binary operator keeps the left value while the right operand is evaluated;
   and / or drop the left value before the right operand is evaluated (`a; JFALSE; POP; b`);
   an assignment leaves the value (SETLOCAL / SETFIELD do not pop) *)
Fixpoint need_expr (e : expr) : N :=
  match e with
  | ELit _ | EId _ => 1
  | EAsg _ e1 => need_expr e1
  | EBin _ a b => N.max (need_expr a) (1 + need_expr b)
  | EAnd a b | EOr a b => N.max (need_expr a) (need_expr b)
  | ENot a | ENeg a | EPos a => need_expr a
  end.

(* locals a statement leaves on the stack for the rest of its scope *)
Definition grow (st : stmt) : N := match st with SVar _ _ => 1 | _ => 0 end.
Definition grows (l : list stmt) : N := fold_right (fun x a => grow x + a) 0 l.

(* the highest operand depth reached by a statement entered with n live locals; the locals of a block
   body live on the same stack and are popped at its end *)
Fixpoint need_stmt (st : stmt) (n : N) {struct st} : N :=
  match st with
  | SVar _ (Some e) => n + need_expr e
  | SVar _ None => n + 1
  | SEval e | SPrint e | SExpr e => n + need_expr e
  | SDef _ _ body =>
    (fix go (l : list stmt) (n : N) : N :=
       match l with [] => n | x :: r => N.max (need_stmt x n) (go r (n + grow x)) end) body n
  | SBind _ _ _ => n
  end.
Fixpoint need_stmts (l : list stmt) (n : N) : N :=
  match l with [] => n | x :: r => N.max (need_stmt x n) (need_stmts r (n + grow x)) end.

(* block nesting *)
Fixpoint nest_stmt (st : stmt) : N :=
  match st with
  | SDef _ _ body => 1 + (fix go (l : list stmt) : N := match l with [] => 0 | x :: r => N.max (nest_stmt x) (go r) end) body
  | _ => 0
  end.
Fixpoint nest_stmts (l : list stmt) : N :=
  match l with [] => 0 | x :: r => N.max (nest_stmt x) (nest_stmts r) end.

Lemma need_stmt_def t nm body n : need_stmt (SDef t nm body) n = need_stmts body n.
Proof. revert n. induction body as [|x r IH]; intros n; [reflexivity|]. cbn [need_stmts]. rewrite <- IH. reflexivity. Qed.
Lemma nest_stmt_def t nm body : nest_stmt (SDef t nm body) = 1 + nest_stmts body.
Proof.
  assert (E : forall l, (fix go (l : list stmt) : N := match l with [] => 0 | x :: r => N.max (nest_stmt x) (go r) end) l
                        = nest_stmts l).
  { induction l as [|x r IH]; [reflexivity|]. cbn [nest_stmts]. rewrite <- IH. reflexivity. }
  rewrite <- E. reflexivity.
Qed.

Lemma need_expr_pos e : 1 <= need_expr e.
Proof. induction e; cbn [need_expr]; lia. Qed.

Lemma need_stmts_ge l : forall n, n + grows l <= need_stmts l n.
Proof.
  induction l as [|x r IH]; intros n; cbn [need_stmts grows fold_right]; [lia|].
  specialize (IH (n + grow x)). fold (grows r). lia.
Qed.

(* the stack need and the nesting of a whole program *)
Definition need_prog (p : list stmt) : N := need_stmts p 0.
Definition nest_prog (p : list stmt) : N := nest_stmts p.

(* ---------------------------------------------------------------------------------------- *)
(* B3. the generator (Proofs/CompileVerifies.v, with the peaks)                              *)
(* ---------------------------------------------------------------------------------------- *)
Section GenB.
Variable p : prog.
Hypothesis HK : nlen (g_consts p) < 2^64.

Notation cext := (cext p).
Notation fragb := (fragb p).

Ltac adj tac := eapply fragb_adj; [tac | lia | lia].

Lemma g_pop_code k d b : k < 2^64 -> fragb (pop_code k) (d + k) b d b (d + k) b.
Proof.
  intros Hk. unfold pop_code. destruct (k =? 0) eqn:E0; [|destruct (k =? 1) eqn:E1].
  - apply N.eqb_eq in E0. subst k. rewrite N.add_0_r. adj ltac:(apply fragb_nil).
  - apply N.eqb_eq in E1. subst k. apply g_pop. in_list.
  - apply g_popn; exact Hk.
Qed.

(* ---- expressions: one value is pushed, the peak is d + need_expr e ---- *)
Definition ExprB (e : expr) : Prop :=
  forall s fr d b, hadError (cexpr e s) = false -> extl s (cexpr e s) fr -> wfs s -> cext (cexpr e s) ->
    lres s d -> depth s = Z.of_N b -> fragb fr d b (d + 1) b (d + need_expr e) b.

Lemma push_fragb op s fr d b : In op [opZERO; opONE; opTRUE; opFALSE; opNIL] ->
  extl s (emit_op op s) fr -> fragb fr d b (d + 1) b (d + 1) b.
Proof.
  intros Hin E. rewrite (extl_inj _ _ _ _ E (extl_estep _ _ _ (estep_emit_op op s))).
  adj ltac:(apply g_push; exact Hin).
Qed.

Lemma const_fragb v s fr d b : extl s (emit_const v s) fr -> wfs s -> cext (emit_const v s) -> fragb fr d b (d + 1) b (d + 1) b.
Proof.
  intros E W C. destruct (emit_const_extl v s) as [E' G].
  rewrite (extl_inj _ _ _ _ E E'). destruct (c_ok p HK _ _ _ C (G W)) as [C1 C2].
  adj ltac:(apply g_const; assumption).
Qed.

Lemma lit_fragb v : ExprB (ELit v).
Proof.
  intros s fr d b H E W C _ _. cbn [cexpr need_expr] in *. unfold clit in *.
  destruct v as [ |[|]|z| | | ]; try (eapply const_fragb; eassumption);
    try (eapply push_fragb; [|exact E]; in_list).
  destruct z as [|[q|q|]|]; try (eapply const_fragb; eassumption);
    try (eapply push_fragb; [|exact E]; in_list).
Qed.

Lemma id_fragb x : ExprB (EId x).
Proof.
  intros s fr d b H E W C L D. cbn [cexpr need_expr] in *.
  destruct (resolve_local (locals s) (nlocals s) x) as [idx|] eqn:R.
  - rewrite (extl_inj _ _ _ _ E (extl_estep _ _ _ (op_uv_estep opGETLOCAL idx s))).
    destruct (L x idx R) as [L1 L2]. adj ltac:(apply g_getlocal; assumption).
  - destruct (depth s =? 0)%Z eqn:Dz; [rewrite perr_err in H; discriminate H|].
    destruct (ident_const_spec x s) as [A B]. destruct (ident_const x s) as [idx s1]. cbn [fst snd] in A, B.
    pose proof (op_uv_estep opGETFIELD idx s1) as S1.
    rewrite (extl_inj _ _ _ _ E (extl_trans _ _ _ _ _ (extl_cstep _ _ A) (extl_estep _ _ _ S1))).
    destruct (c_str p HK s1 idx x (cext_same p _ _ (estep_consts _ _ _ S1) C) (B W)) as [C1 C2].
    rewrite (depth_pos p HK s b D Dz). cbn [app]. adj ltac:(apply g_getfield; assumption).
Qed.

Lemma asg_fragb x e : ExprB e -> ExprB (EAsg x e).
Proof.
  intros IH s fr d b H E W C L D. cbn [cexpr need_expr] in *. pose proof (need_expr_pos e) as Hpos.
  destruct (resolve_local (locals s) (nlocals s) x) as [idx|] eqn:R.
  - pose proof (op_uv_estep opSETLOCAL idx (cexpr e s)) as S1.
    pose proof (extl_noerr _ _ _ (extl_estep _ _ _ S1) H) as He.
    destruct (cexpr_extl e s He) as [fe Fe].
    rewrite (extl_inj _ _ _ _ E (extl_trans _ _ _ _ _ Fe (extl_estep _ _ _ S1))).
    destruct (L x idx R) as [L1 L2].
    adj ltac:(apply fragb_app with (d1 := d + 1) (b1 := b);
      [ apply (IH s fe d b He Fe W); [|exact L|exact D]; exact (cext_same p _ _ (estep_consts _ _ _ S1) C)
      | apply g_setlocal; [lia | exact L2] ]).
  - destruct (depth s =? 0)%Z eqn:Dz; [rewrite perr_err in H; discriminate H|].
    destruct (ident_const_spec x s) as [A B]. destruct (ident_const x s) as [idx s1]. cbn [fst snd] in A, B.
    pose proof (op_uv_estep opSETFIELD idx (cexpr e s1)) as S1.
    pose proof (extl_noerr _ _ _ (extl_estep _ _ _ S1) H) as He.
    destruct (cexpr_extl e s1 He) as [fe Fe].
    rewrite (extl_inj _ _ _ _ E (extl_trans _ _ _ _ _ (extl_cstep _ _ A) (extl_trans _ _ _ _ _ Fe (extl_estep _ _ _ S1)))).
    pose proof (cext_same p _ _ (estep_consts _ _ _ S1) C) as Ce.
    destruct (c_str p HK s1 idx x (cext_extl p _ _ _ Fe Ce) (B W)) as [C1 C2].
    cbn [app]. pose proof (depth_pos p HK s b D Dz) as Eb.
    assert (G1 : fragb fe d b (d + 1) b (d + need_expr e) b).
    { apply (IH s1 fe d b He Fe (cstep_wfs _ _ A W) Ce (cstep_lres _ _ _ A L)).
      rewrite (cstep_depth _ _ A). exact D. }
    assert (G2 : fragb (opSETFIELD :: uv_enc idx) (d + 1) b (d + 1) b (d + 1) b).
    { rewrite Eb. apply g_setfield; assumption. }
    adj ltac:(apply fragb_app with (d1 := d + 1) (b1 := b); [exact G1 | exact G2]).
Qed.

Lemma ops_fragb o d b : fragb (ops_of o) (d + 2) b (d + 1) b (d + 2) b.
Proof.
  destruct o; cbn [ops_of].
  all: first [ apply g_binop; in_list
             | adj ltac:(apply (fragb_app p [_] [opNOT] (d + 2) b (d + 1) b (d + 1) b); [apply g_binop; in_list | apply g_unop; in_list]) ].
Qed.

Lemma bin_fragb o a c : ExprB a -> ExprB c -> ExprB (EBin o a c).
Proof.
  intros IHa IHc s fr d b H E W C L D. cbn [cexpr need_expr] in *.
  pose proof (need_expr_pos a) as Hpa. pose proof (need_expr_pos c) as Hpc.
  pose proof (estep_emit_ops (ops_of o) (cexpr c (cexpr a s))) as S1.
  pose proof (extl_noerr _ _ _ (extl_estep _ _ _ S1) H) as Hc.
  destruct (cexpr_extl c _ Hc) as [fc Fc].
  pose proof (extl_noerr _ _ _ Fc Hc) as Ha.
  destruct (cexpr_extl a _ Ha) as [fa Fa].
  rewrite (extl_inj _ _ _ _ E (extl_trans _ _ _ _ _ Fa (extl_trans _ _ _ _ _ Fc (extl_estep _ _ _ S1)))).
  pose proof (cext_same p _ _ (estep_consts _ _ _ S1) C) as Cc.
  assert (Ga : fragb fa d b (d + 1) b (d + need_expr a) b).
  { apply (IHa s fa d b Ha Fa W (cext_extl p _ _ _ Fc Cc) L D). }
  assert (Gc : fragb fc (d + 1) b (d + 2) b (d + 1 + need_expr c) b).
  { replace (d + 2) with (d + 1 + 1) by lia.
    apply (IHc _ fc (d + 1) b Hc Fc (extl_wfs _ _ _ Fa W) Cc).
    + eapply lres_lframe; [eapply extl_lframe; exact Fa|]. eapply lres_mono; [|exact L]. lia.
    + destruct (extl_lframe _ _ _ Fa) as (_ & _ & LD). rewrite LD. exact D. }
  adj ltac:(apply fragb_app with (d1 := d + 1) (b1 := b);
    [exact Ga | apply fragb_app with (d1 := d + 2) (b1 := b); [exact Gc | apply ops_fragb]]).
Qed.

Lemma un_fragb op a s fr d b : In op [opNEG; opUNPLUS; opNOT] -> ExprB a ->
  hadError (emit_op op (cexpr a s)) = false -> extl s (emit_op op (cexpr a s)) fr -> wfs s ->
  cext (emit_op op (cexpr a s)) -> lres s d -> depth s = Z.of_N b -> fragb fr d b (d + 1) b (d + need_expr a) b.
Proof.
  intros Hin IH H E W C L D. pose proof (need_expr_pos a) as Hpa.
  pose proof (estep_emit_op op (cexpr a s)) as S1.
  pose proof (extl_noerr _ _ _ (extl_estep _ _ _ S1) H) as Ha.
  destruct (cexpr_extl a _ Ha) as [fa Fa].
  rewrite (extl_inj _ _ _ _ E (extl_trans _ _ _ _ _ Fa (extl_estep _ _ _ S1))).
  adj ltac:(apply fragb_app with (d1 := d + 1) (b1 := b);
    [ apply (IH s fa d b Ha Fa W (cext_same p _ _ (estep_consts _ _ _ S1) C) L D)
    | apply g_unop; exact Hin ]).
Qed.

Lemma and_fragb a c : ExprB a -> ExprB c -> ExprB (EAnd a c).
Proof.
  intros IHa IHc s fr d b H E W C L D.
  pose proof (need_expr_pos a) as Hpa. pose proof (need_expr_pos c) as Hpc.
  destruct (and_struct a c s H) as (fa & fc & Fa & F0 & Fc & Hc & J & Ft & Ec).
  cbv zeta in *. rewrite (extl_inj _ _ _ _ E Ft). clear E Ft.
  set (sa := cexpr a s) in *. set (s2 := emit_op opPOP (snd (emit_jump opJFALSE sa))) in *.
  set (sc := cexpr c s2) in *.
  assert (Cc : cext sc) by (apply (cext_same p _ _ Ec C)).
  assert (Ha : hadError sa = false) by (eapply extl_noerr; [exact F0|]; eapply extl_noerr; [exact Fc | exact Hc]).
  assert (Ga : fragb fa d b (d + 1) b (d + need_expr a) b).
  { apply (IHa s fa d b Ha Fa W); [|exact L|exact D]. eapply cext_extl; [exact F0|]. eapply cext_extl; [exact Fc | exact Cc]. }
  assert (L2 : lframe s s2) by (eapply lframe_trans; eapply extl_lframe; eassumption).
  assert (Gc : fragb fc d b (d + 1) b (d + need_expr c) b).
  { apply (IHc s2 fc d b Hc Fc); [|exact Cc| |].
    - eapply extl_wfs; [exact F0|]. eapply extl_wfs; [exact Fa | exact W].
    - eapply lres_lframe; [exact L2 | exact L].
    - destruct L2 as (_ & _ & LD). rewrite LD. exact D. }
  cbn [need_expr]. adj ltac:(apply fragb_and; [exact Ga | exact Gc | exact J]).
Qed.

Lemma or_fragb a c : ExprB a -> ExprB c -> ExprB (EOr a c).
Proof.
  intros IHa IHc s fr d b H E W C L D.
  pose proof (need_expr_pos a) as Hpa. pose proof (need_expr_pos c) as Hpc.
  destruct (or_struct a c s H) as (fa & fc & Fa & F0 & Fc & Hc & J & Ft & Ec).
  cbv zeta in *. rewrite (extl_inj _ _ _ _ E Ft). clear E Ft.
  set (sa := cexpr a s) in *.
  set (s4 := emit_op opPOP (patch_jump (ncode sa + 1) (snd (emit_jump opJUMP (snd (emit_jump opJFALSE sa)))))) in *.
  set (sc := cexpr c s4) in *.
  assert (Cc : cext sc) by (apply (cext_same p _ _ Ec C)).
  assert (Ha : hadError sa = false) by (eapply extl_noerr; [exact F0|]; eapply extl_noerr; [exact Fc | exact Hc]).
  assert (Ga : fragb fa d b (d + 1) b (d + need_expr a) b).
  { apply (IHa s fa d b Ha Fa W); [|exact L|exact D]. eapply cext_extl; [exact F0|]. eapply cext_extl; [exact Fc | exact Cc]. }
  assert (L2 : lframe s s4) by (eapply lframe_trans; eapply extl_lframe; eassumption).
  assert (Gc : fragb fc d b (d + 1) b (d + need_expr c) b).
  { apply (IHc s4 fc d b Hc Fc); [|exact Cc| |].
    - eapply extl_wfs; [exact F0|]. eapply extl_wfs; [exact Fa | exact W].
    - eapply lres_lframe; [exact L2 | exact L].
    - destruct L2 as (_ & _ & LD). rewrite LD. exact D. }
  cbn [need_expr]. adj ltac:(apply fragb_or; [exact Ga | exact Gc | exact J]).
Qed.

Theorem cexpr_fragb : forall e, ExprB e.
Proof.
  induction e as [v|x|x e IH|o a IHa c IHc|a IHa c IHc|a IHa c IHc|a IH|a IH|a IH].
  - apply lit_fragb.
  - apply id_fragb.
  - apply asg_fragb; exact IH.
  - apply bin_fragb; assumption.
  - apply and_fragb; assumption.
  - apply or_fragb; assumption.
  - intros s fr d b. cbn [cexpr need_expr]. apply un_fragb; [in_list | exact IH].
  - intros s fr d b. cbn [cexpr need_expr]. apply un_fragb; [in_list | exact IH].
  - intros s fr d b. cbn [cexpr need_expr]. apply un_fragb; [in_list | exact IH].
Qed.

(* ---- statements: the depth follows nlocals; the peaks are need_stmt and b + nest_stmt ---- *)
Definition StmtRb (s s' : pst) (fr : bytes) (b Df Bf : N) : Prop :=
  sgrow s s' /\ nlocals s' <= 1024 /\ fragb fr (nlocals s) b (nlocals s') b Df Bf.

Definition StmtB (st : stmt) : Prop :=
  forall s fr b, hadError (cstmt st s) = false -> ext s (cstmt st s) fr -> wfs s -> cext (cstmt st s) ->
    sinv s -> depth s = Z.of_N b ->
    StmtRb s (cstmt st s) fr b (need_stmt st (nlocals s)) (b + nest_stmt st) /\
    nlocals (cstmt st s) = nlocals s + grow st.
Definition ListB (l : list stmt) : Prop :=
  forall s fr b, hadError (cstmts l s) = false -> ext s (cstmts l s) fr -> wfs s -> cext (cstmts l s) ->
    sinv s -> depth s = Z.of_N b ->
    StmtRb s (cstmts l s) fr b (need_stmts l (nlocals s)) (b + nest_stmts l) /\
    nlocals (cstmts l s) = nlocals s + grows l.

Lemma listB_of l : Forall StmtB l -> ListB l.
Proof.
  induction 1 as [|x r Hx _ IH]; intros s fr b H E W C I D.
  - cbn [cstmts fold_left need_stmts nest_stmts grows fold_right] in *. rewrite (ext_inj _ _ _ _ E (ext_refl s)).
    split; [|lia]. split; [apply sgrow_lframe, lframe_refl|]. split; [apply I|]. adj ltac:(apply fragb_nil).
  - rewrite cstmts_cons in *.
    destruct (cstmts_ext r _ H) as [f2 F2].
    pose proof (ext_noerr _ _ _ F2 H) as H1.
    destruct (cstmt_ext x s H1) as [f1 F1].
    rewrite (ext_inj _ _ _ _ E (ext_trans _ _ _ _ _ F1 F2)).
    destruct (Hx s f1 b H1 F1 W (cext_ext' p _ _ _ F2 C) I D) as ((G1 & B1 & R1) & N1).
    assert (I1 : sinv (cstmt x s)) by (eapply sinv_grow; eassumption).
    assert (D1 : depth (cstmt x s) = Z.of_N b) by (destruct G1 as [G1 _]; rewrite G1; exact D).
    destruct (IH _ f2 b H F2 (ext_wfs _ _ _ F1 W) C I1 D1) as ((G2 & B2 & R2) & N2).
    rewrite N1 in R2 at 2. cbn [need_stmts nest_stmts grows fold_right]. fold (grows r).
    split; [|rewrite N2, N1; lia].
    split; [eapply sgrow_trans; eassumption|]. split; [exact B2|].
    adj ltac:(eapply fragb_app; [exact R1 | exact R2]).
Qed.

Lemma expr_stmt_fragb e op s fr b : In op [opPOP; opPRINT] ->
  hadError (emit_op op (cexpr e s)) = false -> ext s (emit_op op (cexpr e s)) fr -> wfs s ->
  cext (emit_op op (cexpr e s)) -> sinv s -> depth s = Z.of_N b ->
  StmtRb s (emit_op op (cexpr e s)) fr b (nlocals s + need_expr e) (b + 0) /\
  nlocals (emit_op op (cexpr e s)) = nlocals s + 0.
Proof.
  intros Hin H E W C I D. pose proof (need_expr_pos e) as Hpe.
  pose proof (estep_emit_op op (cexpr e s)) as S1.
  pose proof (extl_noerr _ _ _ (extl_estep _ _ _ S1) H) as He.
  destruct (cexpr_extl e _ He) as [fe Fe].
  pose proof (extl_trans _ _ _ _ _ Fe (extl_estep _ _ _ S1)) as Ft.
  rewrite (ext_inj _ _ _ _ E (extl_ext _ _ _ Ft)).
  pose proof (extl_lframe _ _ _ Ft) as LF.
  destruct (LF) as (_ & LN & _).
  split; [|rewrite LN; lia].
  split; [apply sgrow_lframe; exact LF|].
  rewrite LN. split; [apply I|].
  adj ltac:(apply fragb_app with (d1 := nlocals s + 1) (b1 := b);
    [ apply (cexpr_fragb e s fe _ b He Fe W (cext_same p _ _ (estep_consts _ _ _ S1) C) (sinv_lres s I) D)
    | apply g_pop; exact Hin ]).
Qed.

Lemma svar_fragb x init : StmtB (SVar x init).
Proof.
  intros s fr b H E W C I D.
  destruct (svar_struct x init s H) as (E0 & N1 & HI & Eq). rewrite Eq in *.
  destruct (var_init_extl x init s HI) as [f0 F0].
  pose proof (sstep_def_var (var_sI x init s)) as Sd.
  pose proof (ext_trans _ _ _ _ _ (ext_trans _ _ _ _ _ (sstep_ext _ _ (sstep_var_s1 x s)) (extl_ext _ _ _ F0))
                (sstep_ext _ _ Sd)) as Ft.
  rewrite (ext_inj _ _ _ _ E Ft). cbn [app]. rewrite app_nil_r.
  assert (Ci : cext (var_sI x init s)).
  { destruct Sd as (_ & _ & Sc & _). exact (cext_same p _ _ Sc C). }
  assert (W1 : wfs (var_s1 x s)) by (eapply ext_wfs; [apply sstep_ext, sstep_var_s1 | exact W]).
  destruct (extl_lframe _ _ _ F0) as (L1 & L2 & L3).
  assert (Dl : locals (def_var (var_sI x init s)) = (x, depth s) :: locals s /\
               nlocals (def_var (var_sI x init s)) = nlocals s + 1 /\
               depth (def_var (var_sI x init s)) = depth s).
  { destruct (var_s1_fields x s) as (V1 & V2 & V3). rewrite V1 in L1. rewrite V2 in L2. rewrite V3 in L3.
    destruct (def_var_fields _ _ _ _ L1) as (X1 & X2 & X3). rewrite X1, X2, X3, L2, L3. repeat split. }
  destruct Dl as (D1 & D2 & D3). destruct I as (I1 & I2 & I3).
  split; [|rewrite D2; reflexivity].
  split; [|split].
  - split; [exact D3|]. exists [(x, depth s)]. split; [rewrite D1; reflexivity|].
    split; [constructor; [reflexivity|constructor] | rewrite D2; reflexivity].
  - rewrite D2. unfold localsMaxSize in N1. lia.
  - rewrite D2. unfold var_sI in *. destruct init as [e|]; cbn [need_stmt nest_stmt].
    + pose proof (need_expr_pos e) as Hpe.
      adj ltac:(apply (cexpr_fragb e (var_s1 x s) f0 _ b HI F0 W1 Ci);
        [ apply var_s1_lres; repeat split; assumption | unfold var_s1; psimp; exact D ]).
    + adj ltac:(eapply push_fragb; [|exact F0]; in_list).
Qed.

Lemma sdef_fragb typ name body : Forall StmtB body -> StmtB (SDef typ name body).
Proof.
  intros HB s fr b H E W C I D. rewrite cstmt_def in *.
  destruct (ident_const_spec typ s) as [A A']. destruct (ident_const typ s) as [ti s1]. cbn [fst snd] in A, A'.
  destruct (make_const_spec (VStr name) s1) as [B B']. destruct (make_const (VStr name) s1) as [ni s2]. cbn [fst snd] in B, B'.
  cbv zeta in *.
  set (s2' := emit_uvarint ni (emit_uvarint ti (emit_op opDEFBLOCK s2))) in *.
  set (s3 := begin_scope s2') in *.
  set (s4 := cstmts body s3) in *.
  pose proof (estep_emit_op opENDBLOCK (end_scope s4)) as S5.
  pose proof (extl_ext _ _ _ (extl_estep _ _ _ S5)) as E5.
  pose proof (end_scope_ext s4) as E4.
  assert (H4 : hadError s4 = false) by (eapply ext_noerr; [exact E4|]; eapply ext_noerr; [exact E5 | exact H]).
  destruct (cstmts_ext body s3 H4) as [fb Fb]. fold s4 in Fb.
  assert (S3 : estep s2 s2' ([opDEFBLOCK] ++ uv_enc ti ++ uv_enc ni)).
  { eapply estep_trans; [apply estep_emit_op|]. eapply estep_trans; apply estep_emit_uvarint. }
  assert (E3 : ext s2 s3 (([opDEFBLOCK] ++ uv_enc ti ++ uv_enc ni) ++ [])).
  { eapply ext_trans; [|apply sstep_ext, sstep_begin_scope]. apply extl_ext, extl_estep. exact S3. }
  pose proof (ext_trans _ _ _ _ _ (extl_ext _ _ _ (extl_cstep _ _ A))
               (ext_trans _ _ _ _ _ (extl_ext _ _ _ (extl_cstep _ _ B))
                 (ext_trans _ _ _ _ _ E3 (ext_trans _ _ _ _ _ Fb (ext_trans _ _ _ _ _ E4 E5))))) as Ft.
  rewrite (ext_inj _ _ _ _ E Ft). clear E. cbn [app]. rewrite app_nil_r.
  (* constants *)
  assert (C4 : cext s4) by (eapply cext_ext'; [exact E4|]; eapply cext_ext'; [exact E5 | exact C]).
  assert (C3 : cext s3) by (eapply cext_ext'; [exact Fb | exact C4]).
  assert (C2 : cext s2) by (eapply cext_ext'; [exact E3 | exact C3]).
  assert (W1 : wfs s1) by (apply (cstep_wfs _ _ A W)).
  assert (W2 : wfs s2) by (apply (cstep_wfs _ _ B W1)).
  assert (W3 : wfs s3) by (apply (ext_wfs _ _ _ E3 W2)).
  destruct (c_str p HK s2 ti typ C2) as [Ct Ct'].
  { destruct B as (_ & _ & _ & _ & G & _). eapply cgrow_nth; [exact G | exact (A' W)]. }
  destruct (c_str p HK s2 ni name C2 (B' W1)) as [Cn Cn'].
  (* scope tables *)
  assert (LF2 : lframe s s2').
  { eapply lframe_trans; [apply (extl_lframe _ _ _ (extl_cstep _ _ A))|].
    eapply lframe_trans; [apply (extl_lframe _ _ _ (extl_cstep _ _ B))|]. apply (extl_lframe _ _ _ (extl_estep _ _ _ S3)). }
  destruct LF2 as (Q1 & Q2 & Q3).
  destruct (begin_scope_fields s2') as (P1 & P2 & P3). fold s3 in P1, P2, P3.
  rewrite Q1 in P1. rewrite Q2 in P2. rewrite Q3 in P3.
  assert (I3 : sinv s3).
  { destruct I as (I1 & I2 & I3). unfold sinv. rewrite P1, P2, P3. split; [exact I1|]. split; [exact I2|].
    eapply Forall_impl; [|exact I3]. cbv beta. intros l Hl. lia. }
  assert (D3 : depth s3 = Z.of_N (b + 1)) by (rewrite P3, D; lia).
  destruct (listB_of body HB s3 fb (b + 1) H4 Fb W3 C4 I3 D3) as ((G4 & B4 & R4) & N4). fold s4 in G4, B4, R4, N4.
  destruct G4 as (G41 & new & G42 & G43 & G44).
  assert (DL : drop_locals (locals s4) (depth s4 - 1) 0 = (locals s, nlen new)).
  { rewrite G42, G41, P1, P3. replace (depth s + 1 - 1)%Z with (depth s) by lia.
    rewrite drop_spec; [reflexivity | rewrite <- P3; exact G43 | apply I]. }
  rewrite DL. cbn [snd].
  (* the state after end_scope *)
  assert (LE : locals (emit_op opENDBLOCK (end_scope s4)) = locals s /\
               nlocals (emit_op opENDBLOCK (end_scope s4)) = nlocals s /\
               depth (emit_op opENDBLOCK (end_scope s4)) = depth s).
  { destruct (extl_lframe _ _ _ (extl_estep _ _ _ S5)) as (X1 & X2 & X3). rewrite X1, X2, X3.
    rewrite end_scope_eq, DL. cbn [fst snd].
    destruct (extl_lframe _ _ _ (extl_estep _ _ _ (estep_pop_n (nlen new)
       (s4 <| depth := (depth s4 - 1)%Z |> <| locals := locals s |> <| nlocals := nlocals s4 - nlen new |>))))
      as (Y1 & Y2 & Y3).
    rewrite Y1, Y2, Y3. psimp. rewrite G44, G41, P2, P3. repeat split; lia. }
  destruct LE as (LE1 & LE2 & LE3).
  split; [|rewrite LE2; cbn [grow]; lia].
  split; [apply sgrow_lframe; repeat split; assumption|]. rewrite LE2. split; [apply I|].
  rewrite need_stmt_def, nest_stmt_def.
  change (fragb ((opDEFBLOCK :: uv_enc ti ++ uv_enc ni) ++ fb ++ pop_code (nlen new) ++ [opENDBLOCK]) (nlocals s) b (nlocals s) b
                (need_stmts body (nlocals s)) (b + (1 + nest_stmts body))).
  rewrite P2 in R4, N4, G44.
  assert (Ek : nlen new = grows body) by lia.
  pose proof (need_stmts_ge body (nlocals s)) as Hge.
  assert (R5 : fragb (pop_code (nlen new)) (nlocals s4) (b + 1) (nlocals s) (b + 1) (nlocals s + nlen new) (b + 1)).
  { rewrite G44. apply g_pop_code. lia. }
  adj ltac:(apply fragb_app with (d1 := nlocals s) (b1 := b + 1);
    [ apply g_defblock; assumption
    | apply fragb_app with (d1 := nlocals s4) (b1 := b + 1);
      [ exact R4
      | apply fragb_app with (d1 := nlocals s) (b1 := b + 1); [exact R5 | apply g_endblock] ] ]).
Qed.

Lemma sbind_fragb typ sel tg : StmtB (SBind typ sel tg).
Proof.
  intros s fr b H E W C I D.
  destruct (sbind_struct typ sel tg s) as (Eq & F0 & A & F1 & G). cbv zeta in *. rewrite Eq in *.
  set (s0 := emit_op opBIND s) in *. set (s1 := snd (ident_const typ s0)) in *. set (idx := fst (ident_const typ s0)) in *.
  set (opt := N.lor (N.land (tgt_code tg) 240) (N.land (sel_code sel) 15)) in *.
  pose proof (extl_trans _ _ _ _ _ F0 (extl_trans _ _ _ _ _ (extl_cstep _ _ A) F1)) as Ft.
  rewrite (ext_inj _ _ _ _ E (extl_ext _ _ _ Ft)). cbn [app].
  pose proof (extl_lframe _ _ _ Ft) as LF. destruct (LF) as (_ & LN & _).
  split; [|rewrite LN; cbn [grow]; lia].
  split; [apply sgrow_lframe; exact LF|]. rewrite LN. split; [apply I|].
  destruct (c_str p HK s1 idx typ (cext_extl p _ _ _ F1 C) (G (extl_wfs _ _ _ F0 W))) as [C1 C2].
  cbn [need_stmt nest_stmt]. adj ltac:(apply g_bind; assumption).
Qed.

Theorem cstmt_fragb : forall st, StmtB st.
Proof.
  apply stmt_ind2.
  - apply svar_fragb.
  - intros e s fr b. cbn [cstmt need_stmt nest_stmt grow]. apply expr_stmt_fragb. in_list.
  - intros e s fr b. cbn [cstmt need_stmt nest_stmt grow]. apply expr_stmt_fragb. in_list.
  - intros e s fr b. cbn [cstmt need_stmt nest_stmt grow]. apply expr_stmt_fragb. in_list.
  - apply sdef_fragb.
  - apply sbind_fragb.
Qed.

Lemma cstmts_fragb l : ListB l.
Proof. apply listB_of. apply Forall_forall. intros st _. apply cstmt_fragb. Qed.

End GenB.

(* ---------------------------------------------------------------------------------------- *)
(* B4. whole programs: the table of the generated code has exactly the peaks the tree needs  *)
(* ---------------------------------------------------------------------------------------- *)
Lemma compile_labels : forall (p : list stmt) name pos lfs,
  let cs := compile_program p in
  hadError cs = false -> nconsts cs < 2^64 ->
  let g := {| g_name := name; g_code := rev (code cs); g_consts := rev (consts cs); g_pos := pos; g_lfs := lfs |} in
  exists L, lwalk (S (length (g_code g))) g 0 (g_code g) (Some (0, 0)) [] = Some L /\
            maxd L = need_prog p /\ maxb L = nest_prog p.
Proof.
  intros p name pos lfs cs H HN. revert H HN. unfold cs, compile_program. clear cs. cbv zeta.
  set (s := cstmts p (init_pst [])).
  destruct (hadError s) eqn:Hs; [intros H; rewrite H in Hs; discriminate Hs|]. intros _ HN.
  set (cs := emit_op opRET (pop_n (nlocals s) s)) in *.
  set (g := {| g_name := name; g_code := rev (code cs); g_consts := rev (consts cs); g_pos := pos; g_lfs := lfs |}).
  destruct (cstmts_ext p (init_pst []) Hs) as [fr Fr]. fold s in Fr.
  pose proof (estep_trans _ _ _ _ _ (estep_pop_n (nlocals s) s) (estep_emit_op opRET (pop_n (nlocals s) s))) as S12.
  fold cs in S12. fold (pop_code (nlocals s)) in S12.
  pose proof (ext_trans _ _ _ _ _ Fr (extl_ext _ _ _ (extl_estep _ _ _ S12))) as Ft.
  pose proof (ext_wfs _ _ _ Ft wfs_init) as [Wc _].
  assert (HK : nlen (g_consts g) < 2^64).
  { cbn [g g_consts]. rewrite nlen_rev, <- Wc. exact HN. }
  assert (Cs : cext g s).
  { exists []. cbn [g g_consts]. rewrite (estep_consts _ _ _ S12), app_nil_r. reflexivity. }
  destruct (cstmts_fragb g HK p (init_pst []) fr 0 Hs Fr wfs_init Cs sinv_init eq_refl) as ((_ & Bn & R) & Nn).
  fold s in Bn, R, Nn. change (nlocals (init_pst [])) with 0 in R, Nn.
  assert (Ec : rev (code cs) = fr ++ pop_code (nlocals s) ++ [opRET]).
  { destruct Ft as [[Ec _] _]. rewrite Ec. change (code (init_pst [])) with (@nil N).
    rewrite app_nil_r, rev_involutive. reflexivity. }
  pose proof (need_stmts_ge p 0) as Hge.
  assert (V : lok g 0 (rev (code cs)) (Some (0, 0)) [] (need_stmts p 0) (nest_stmts p)).
  { rewrite Ec. eapply lok_cast; [apply R; [constructor|]|..].
    - apply (g_pop_code g HK (nlocals s) 0 0); [lia|constructor|]. apply lok_ret.
    - lia.
    - lia. }
  destruct V as (fuel & L & V & HD & HB). exists L. split; [|split; assumption].
  apply (lwalk_fuel fuel g 0 _ _ _ _ V). cbn [g g_code]. lia.
Qed.

(* goal 2: EQUALITY.  The highest operand depth over all instruction boundaries of the generated code is the
   stack need of the tree, the highest block depth is its nesting. *)
Theorem compile_peak : forall (p : list stmt) name pos lfs,
  let cs := compile_program p in
  hadError cs = false -> nconsts cs < 2^64 ->
  length pos = length (code cs) ->
  peak {| g_name := name; g_code := rev (code cs); g_consts := rev (consts cs); g_pos := pos; g_lfs := lfs |}
  = Some (need_prog p, nest_prog p).
Proof.
  intros p name pos lfs cs H HN HP.
  destruct (compile_labels p name pos lfs H HN) as (L & HL & HD & HB). fold cs in HL.
  unfold peak, plabels. cbn [g_pos g_code] in *.
  replace (nlen pos =? nlen (rev (code cs))) with true
    by (symmetry; apply N.eqb_eq; unfold nlen; rewrite rev_length, HP; reflexivity).
  rewrite HL, HD, HB. reflexivity.
Qed.
Print Assumptions compile_peak.

(* the same for every program the parser accepts (through T2) *)
Theorem parsed_peak : forall name src,
  let pr := parse_whole name src in
  pr_ok pr = true -> pr_oof pr = false -> pr_panic pr = false -> ps_constants (pr_stats pr) < 2^64 ->
  exists p, ast_program (fst (lex [src])) = Some p /\ peak (pr_prog pr) = Some (need_prog p, nest_prog p).
Proof.
  intros name src. unfold parse_whole, parse_chunks.
  pose proof (lex_tokens_shape [src]) as Hs.
  destruct (lex [src]) as [ts l]. cbn [fst] in *.
  cbn [pr_ok pr_oof pr_panic pr_stats ps_constants pr_prog].
  intros Hok Ho Hp Hn. apply Bool.negb_true_iff in Hok.
  destruct (T2_code_equal ts Hs Hok Ho Hp) as (p & Ha & Hc & E1 & E2 & E3 & _).
  exists p. split; [exact Ha|].
  rewrite !frev_eq, E1, E2. rewrite E3 in Hn.
  apply (compile_peak p name (rev (positions (parse_tokens ts))) l Hc Hn).
  rewrite rev_length, <- E1. apply parse_pos_len.
Qed.
Print Assumptions parsed_peak.

(* ======================================================================================== *)
(* Part C.  T1 without the escape disjunct                                                  *)
(* ======================================================================================== *)
(* the implementation limits, on the tree: at most 1024 operand slots (live locals + temporaries), blocks
   nested at most 16 deep *)
Definition within_limits (p : list stmt) : Prop := need_prog p <= stackSize /\ nest_prog p <= blockStackSize.

(* a limit error of the generated code names the limit the tree exceeds *)
Theorem compiled_limit_error : forall (p : list stmt) name pos lfs fuel tr,
  let cs := compile_program p in
  hadError cs = false -> nconsts cs < 2^64 ->
  let g := {| g_name := name; g_code := rev (code cs); g_consts := rev (consts cs); g_pos := pos; g_lfs := lfs |} in
  let r := snd (run_fuel fuel g tr (init_vm g)) in
  (overflow_res r -> stackSize < need_prog p) /\ (nesting_res r -> blockStackSize < nest_prog p).
Proof.
  intros p name pos lfs fuel tr cs H HN g r.
  destruct (compile_labels p name pos lfs H HN) as (L & HL & HD & HB). fold cs g in HL.
  pose proof HL as HW. apply lwalk_labels in HW; [|reflexivity]. destruct HW as (Hc & _ & Hok & _ & _).
  assert (WL : well_labelled g L) by (split; [apply Hc; reflexivity | exact Hok]).
  destruct (run_limit_site g L tr WL fuel (init_vm g) (agrees_init g L WL)) as [H1 H2].
  split; intros Hr.
  - destruct (H1 Hr) as (o & b & Hin). apply maxd_bound in Hin. lia.
  - destruct (H2 Hr) as (o & d & Hin). apply maxd_bound in Hin. lia.
Qed.

Corollary compiled_no_limit : forall (p : list stmt) name pos lfs fuel tr,
  let cs := compile_program p in
  hadError cs = false -> nconsts cs < 2^64 -> within_limits p ->
  let g := {| g_name := name; g_code := rev (code cs); g_consts := rev (consts cs); g_pos := pos; g_lfs := lfs |} in
  ~ limit_res (snd (run_fuel fuel g tr (init_vm g))).
Proof.
  intros p name pos lfs fuel tr cs H HN [W1 W2] g Hl.
  destruct (compiled_limit_error p name pos lfs fuel tr H HN) as [H1 H2]. fold cs g in H1, H2.
  apply limit_res_split in Hl. destruct Hl as [Hl|Hl]; [apply H1 in Hl | apply H2 in Hl]; lia.
Qed.

(* goal 3: within the limits the generated code does exactly what the semantics over names says *)
Theorem T1_exact_within_limits : forall (p : list stmt) (name : bytes) (pos lfs : list N),
  let cs := compile_program p in
  hadError cs = false ->
  Forall binds_ok p ->
  nconsts cs < 2^64 ->
  need_prog p <= 1024 ->
  nest_prog p <= 16 ->
  let g := {| g_name := name; g_code := rev (code cs); g_consts := rev (consts cs); g_pos := pos; g_lfs := lfs |} in
  let rr := execute g false false in
  res_match (fst (run_program p)) (rr_res rr) /\ obs_match (snd (run_program p)) rr.
Proof.
  intros p name pos lfs cs Hcs Hb Hn Hd Hbk g rr.
  destruct (T1_program_partial p name pos lfs Hcs Hb Hn) as [Hl|Hm]; [exfalso|exact Hm].
  fold cs g rr in Hl.
  pose proof (compiled_no_limit p name pos lfs (run_bound g) T1Vm.tr0 Hcs Hn (conj Hd Hbk)) as Hno.
  fold cs g in Hno. cbv zeta in Hno. apply Hno.
  assert (E : rr_res rr = snd (run_fuel (run_bound g) g T1Vm.tr0 (init_vm g))).
  { unfold rr. rewrite execute_plain. destruct (run_fuel (run_bound g) g T1Vm.tr0 (init_vm g)) as [m r]. reflexivity. }
  rewrite <- E. exact Hl.
Qed.
Print Assumptions T1_exact_within_limits.

(* T1 in full, the disjunct characterised: either the run matches the semantics, or it stops at a limit
   that the tree really exceeds *)
Theorem T1_program_characterised : forall (p : list stmt) (name : bytes) (pos lfs : list N),
  let cs := compile_program p in
  hadError cs = false ->
  Forall binds_ok p ->
  nconsts cs < 2^64 ->
  let g := {| g_name := name; g_code := rev (code cs); g_consts := rev (consts cs); g_pos := pos; g_lfs := lfs |} in
  let rr := execute g false false in
  (overflow_res (rr_res rr) /\ 1024 < need_prog p) \/
  (nesting_res (rr_res rr) /\ 16 < nest_prog p) \/
  (res_match (fst (run_program p)) (rr_res rr) /\ obs_match (snd (run_program p)) rr).
Proof.
  intros p name pos lfs cs Hcs Hb Hn g rr.
  destruct (T1_program_partial p name pos lfs Hcs Hb Hn) as [Hl|Hm]; [|right; right; exact Hm].
  fold cs g rr in Hl.
  destruct (compiled_limit_error p name pos lfs (run_bound g) T1Vm.tr0 Hcs Hn) as [H1 H2]. fold cs g in H1, H2.
  assert (E : rr_res rr = snd (run_fuel (run_bound g) g T1Vm.tr0 (init_vm g))).
  { unfold rr. rewrite execute_plain. destruct (run_fuel (run_bound g) g T1Vm.tr0 (init_vm g)) as [m r]. reflexivity. }
  rewrite <- E in H1, H2. apply limit_res_split in Hl.
  destruct Hl as [Hl|Hl]; [left; split; [exact Hl | apply H1, Hl] | right; left; split; [exact Hl | apply H2, Hl]].
Qed.
Print Assumptions T1_program_characterised.

(* the source-level form of bcl_language *)
Theorem bcl_language_within_limits : forall name src,
  let pr := parse_whole name src in
  let ts := fst (lex [src]) in
  pr_ok pr = true -> pr_oof pr = false -> pr_panic pr = false ->
  ps_constants (pr_stats pr) < 2^64 ->
  exists p, ast_program ts = Some p /\
    (within_limits p ->
     let rr := execute (pr_prog pr) false false in
     res_match (fst (run_program p)) (rr_res rr) /\ obs_match (snd (run_program p)) rr).
Proof.
  intros name src. unfold parse_whole, parse_chunks.
  pose proof (lex_tokens_shape [src]) as Hs.
  destruct (lex [src]) as [ts l]. cbn [fst] in *.
  cbn [pr_ok pr_oof pr_panic pr_stats ps_constants pr_prog].
  intros Hok Ho Hp Hn. apply Bool.negb_true_iff in Hok.
  destruct (T2_code_equal ts Hs Hok Ho Hp) as (p & Ha & Hc & E1 & E2 & E3 & _).
  exists p. split; [exact Ha|]. intros [W1 W2].
  rewrite !frev_eq, E1, E2. rewrite E3 in Hn.
  exact (T1_exact_within_limits p name (rev (positions (parse_tokens ts))) l Hc (ast_program_binds_ok ts p Ha) Hn W1 W2).
Qed.
Print Assumptions bcl_language_within_limits.

(* and in full: a limit error of an accepted source text means that its tree exceeds that limit *)
Theorem bcl_language_characterised : forall name src,
  let pr := parse_whole name src in
  let ts := fst (lex [src]) in
  pr_ok pr = true -> pr_oof pr = false -> pr_panic pr = false ->
  ps_constants (pr_stats pr) < 2^64 ->
  exists p, ast_program ts = Some p /\
    let rr := execute (pr_prog pr) false false in
    (overflow_res (rr_res rr) /\ 1024 < need_prog p) \/
    (nesting_res (rr_res rr) /\ 16 < nest_prog p) \/
    (res_match (fst (run_program p)) (rr_res rr) /\ obs_match (snd (run_program p)) rr).
Proof.
  intros name src. unfold parse_whole, parse_chunks.
  pose proof (lex_tokens_shape [src]) as Hs.
  destruct (lex [src]) as [ts l]. cbn [fst] in *.
  cbn [pr_ok pr_oof pr_panic pr_stats ps_constants pr_prog].
  intros Hok Ho Hp Hn. apply Bool.negb_true_iff in Hok.
  destruct (T2_code_equal ts Hs Hok Ho Hp) as (p & Ha & Hc & E1 & E2 & E3 & _).
  exists p. split; [exact Ha|].
  rewrite !frev_eq, E1, E2. rewrite E3 in Hn.
  exact (T1_program_characterised p name (rev (positions (parse_tokens ts))) l Hc (ast_program_binds_ok ts p Ha) Hn).
Qed.
Print Assumptions bcl_language_characterised.

(* T1 spelled out as equivalences (T1_program_iff), the hypothesis `~ limit_res` replaced by the limits on
   the tree: in particular every run-time error message of the VM is then the message of the error the
   semantics gives, and never one of the two limit messages *)
Corollary T1_program_iff_within_limits : forall (p : list stmt) (name : bytes) (pos lfs : list N),
  let cs := compile_program p in
  hadError cs = false -> Forall binds_ok p -> nconsts cs < 2^64 ->
  within_limits p ->
  let g := {| g_name := name; g_code := rev (code cs); g_consts := rev (consts cs); g_pos := pos; g_lfs := lfs |} in
  let rr := execute g false false in
  let sr := fst (run_program p) in
  let en := snd (run_program p) in
  ~ limit_res (rr_res rr) /\
  ((exists u, sr = ROk u) <-> rr_res rr = VOk) /\
  (sr = RErr XExcluded <-> rr_res rr = VPanic PExcluded) /\
  sr <> RErr XStatic /\
  (forall e, sr = RErr e -> e <> XExcluded -> exists q, rr_res rr = VErr q (msg_of e)) /\
  (forall q msg, rr_res rr = VErr q msg -> exists e, sr = RErr e /\ msg = msg_of e) /\
  print_lines (rr_out rr) = rev (output en) /\ rr_blocks rr = rev (results en) /\
  binding_match (binding_ en) (rr_binding rr) /\ nlen (rr_warn rr) = warnings en.
Proof.
  intros p name pos lfs cs H1 H2 H3 HW g rr sr en.
  assert (Hno : ~ limit_res (rr_res rr)).
  { pose proof (compiled_no_limit p name pos lfs (run_bound g) T1Vm.tr0 H1 H3 HW) as Hno.
    fold cs g in Hno. cbv zeta in Hno.
    assert (E : rr_res rr = snd (run_fuel (run_bound g) g T1Vm.tr0 (init_vm g))).
    { unfold rr. rewrite execute_plain. destruct (run_fuel (run_bound g) g T1Vm.tr0 (init_vm g)) as [m r]. reflexivity. }
    rewrite E. exact Hno. }
  split; [exact Hno|]. exact (T1_program_iff p name pos lfs H1 H2 H3 Hno).
Qed.
Print Assumptions T1_program_iff_within_limits.

(* ======================================================================================== *)
(* Part D.  the bounds are tight (vm_compute on the model)                                  *)
(* ======================================================================================== *)
Definition ex_vars (n : nat) : bytes :=
  flat_map (fun i => bs "var v" ++ dec_of_N (N.of_nat i) ++ bs " = 1" ++ [10]) (seq 0 n).
Fixpoint ex_nested (n : nat) (inner : bytes) : bytes :=
  match n with O => inner | S k => bs "def b { " ++ ex_nested k inner ++ bs " }" end.
Fixpoint ex_rsum (n : nat) : bytes := match n with O => bs "1" | S k => bs "1+(" ++ ex_rsum k ++ bs ")" end.

(* accepted?, peak of the code, (need, nest) of the tree, result of the run *)
Definition ex_summary (src : bytes) : bool * option (N * N) * option (N * N) * vres :=
  let pr := parse_whole (bs "input") src in
  (pr_ok pr, peak (pr_prog pr),
   match ast_program (fst (lex [src])) with Some p => Some (need_prog p, nest_prog p) | None => None end,
   rr_res (execute (pr_prog pr) false false)).

Definition ex_overflow (r : vres) : bool :=
  match r with VErr _ m => bytes_eqb m (bs "stack overflow") | _ => false end.
Definition ex_nesting (r : vres) : bool :=
  match r with VErr _ m => bytes_eqb m (bs "too many nested blocks") | _ => false end.
Definition ex_ok (r : vres) : bool := match r with VOk => true | _ => false end.
Definition ex_check (src : bytes) (f : vres -> bool) : bool * option (N * N) * option (N * N) * bool :=
  let '(a, pk, nd, r) := ex_summary src in (a, pk, nd, f r).

(* 1022 locals and `print 1+1`: exactly 1024 slots, runs *)
Example at_bound_locals_expr :
  ex_check (ex_vars 1022 ++ bs "print 1+1") ex_ok = (true, Some (1024, 0), Some (1024, 0), true).
Proof. vm_compute. reflexivity. Qed.
(* 1023 locals and `print 1+1`: 1025 slots, stack overflow *)
Example above_bound_locals_expr :
  ex_check (ex_vars 1023 ++ bs "print 1+1") ex_overflow = (true, Some (1025, 0), Some (1025, 0), true).
Proof. vm_compute. reflexivity. Qed.
(* 1024 locals (the most the generator accepts) fit; one temporary more does not *)
Example at_bound_locals :
  ex_check (ex_vars 1024) ex_ok = (true, Some (1024, 0), Some (1024, 0), true).
Proof. vm_compute. reflexivity. Qed.
Example above_bound_locals :
  ex_check (ex_vars 1024 ++ bs "print 1") ex_overflow = (true, Some (1025, 0), Some (1025, 0), true).
Proof. vm_compute. reflexivity. Qed.
(* a single expression: 1+(1+(...)) keeps every left operand *)
Example at_bound_expr :
  ex_check (bs "print " ++ ex_rsum 1023) ex_ok = (true, Some (1024, 0), Some (1024, 0), true).
Proof. vm_compute. reflexivity. Qed.
Example above_bound_expr :
  ex_check (bs "print " ++ ex_rsum 1024) ex_overflow = (true, Some (1025, 0), Some (1025, 0), true).
Proof. vm_compute. reflexivity. Qed.
(* blocks: 16 nested run, 17 do not *)
Example at_bound_blocks :
  ex_check (ex_nested 16 (bs "x = 1")) ex_ok = (true, Some (1, 16), Some (1, 16), true).
Proof. vm_compute. reflexivity. Qed.
Example above_bound_blocks :
  ex_check (ex_nested 17 (bs "x = 1")) ex_nesting = (true, Some (1, 17), Some (1, 17), true).
Proof. vm_compute. reflexivity. Qed.

(* the converse of T1_exact_within_limits is false, as it must be: need and nest are maxima over ALL paths
   of the code; a run that does not take the deep path does not hit the limit.  Here the right operand
   of `and` (2 slots) is skipped. *)
Example beyond_bound_but_runs :
  ex_check (ex_vars 1023 ++ bs "print false and 1+1") ex_ok = (true, Some (1025, 0), Some (1025, 0), true).
Proof. vm_compute. reflexivity. Qed.
