(* ProtoProofs.v: the goroutine protocol of ParseFile (Model/Proto.v): C11, C12.

   Inv (a record of 21 facts relating program counters, channels and counters) holds in every
   reachable state (Inv_init, Inv_step, Inv_reachable).  From it, for ALL scripts, oracles, schedules:
     1. C11_close_once, C11_close_final, C11_read_never_after_close (+ _step)
     2. C12_mutex, C12_mutex_holder
     3. C12_prog_published, C12_prog_seen_on_return, C12_prog_set_before_perr
     4. C11_no_deadlock
     5. mu_, C11_measure_decreases, C11_step_bound, C11_terminates, C11_can_finish, C11_reaches_final,
        C11_fair_terminates, C11_round_robin_terminates, predict_final
     6. C11_result (closed form `expected`, `expected_reads`), C11_result_schedule_independent,
        predict_closed_form
     7. C11_stops_reading
     8. C11_no_leftover, C11_final_clean, C11_no_leftover_reader_runs
   Every main theorem is followed by Print Assumptions (all closed under the global context). *)
From Coq Require Import Lia Bool Arith List.
From BCL Require Import Lib.Base Model.Proto.
Import ListNotations.
Open Scope nat_scope.

Local Arguments Nat.ltb : simpl never.
Local Arguments Nat.eqb : simpl never.

(* ------------------------------------------------------------------ *)
(* reachability *)

Definition reachable (s : st) : Prop :=
  exists sc plan fin syn nd sched, s = exec (init sc plan fin syn nd) sched.

Lemma exec_app : forall a b s, exec s (a ++ b) = exec (exec s a) b.
Proof. induction a as [|x a IH]; intros b s; cbn; [reflexivity|apply IH]. Qed.

Lemma reachable_init : forall sc plan fin syn nd, reachable (init sc plan fin syn nd).
Proof. intros sc plan fin syn nd. exists sc, plan, fin, syn, nd, []. reflexivity. Qed.

Lemma reachable_step : forall s ch s', reachable s -> do s ch = Some s' -> reachable s'.
Proof.
  intros s ch s' (sc & plan & fin & syn & nd & sched & E) H.
  exists sc, plan, fin, syn, nd, (sched ++ [ch]).
  rewrite exec_app, <- E. cbn. rewrite H. reflexivity.
Qed.

Lemma exec_ind_inv : forall (P : st -> Prop),
  (forall s ch s', P s -> do s ch = Some s' -> P s') ->
  forall sched s, P s -> P (exec s sched).
Proof.
  intros P Hstep. induction sched as [|ch more IH]; intros s Hs; cbn; [exact Hs|].
  apply IH. destruct (do s ch) as [s'|] eqn:E; [eapply Hstep; eassumption|exact Hs].
Qed.

Lemma reachable_exec : forall s sched, reachable s -> reachable (exec s sched).
Proof. intros s sched. apply exec_ind_inv. intros; eapply reachable_step; eassumption. Qed.

Lemma reachable_ind' : forall (P : st -> Prop),
  (forall sc plan fin syn nd, P (init sc plan fin syn nd)) ->
  (forall s ch s', P s -> do s ch = Some s' -> P s') ->
  forall s, reachable s -> P s.
Proof.
  intros P Hi Hs s (sc & plan & fin & syn & nd & sched & E). subst s.
  apply exec_ind_inv; [exact Hs|apply Hi].
Qed.

(* ------------------------------------------------------------------ *)
(* the invariant *)

Definition r_sent (x : rpc) : bool :=
  match x with R_closeinpc | R_closefile | R_done => true | _ => false end.
Definition r_closing (x : rpc) : bool :=
  match x with R_closefile | R_done => true | _ => false end.
Definition l_is_done (x : lpc) : bool := match x with L_done => true | _ => false end.
Definition l_ended (x : lpc) : bool := match x with L_close | L_done => true | _ => false end.
Definition p_past (x : ppc) : bool :=
  match x with P_closedone | P_setprog | P_perr | P_done => true | _ => false end.
Definition p_is_done (x : ppc) : bool := match x with P_done => true | _ => false end.
Definition p_wrote (x : ppc) : bool := match x with P_perr | P_done => true | _ => false end.
Definition c_got_perr (x : cpc) : bool := match x with C_readprog | C_ret => true | _ => false end.
Definition perr_value (s : st) : err := if psyntax s || lfailed s then EParse else ENone.

Record Inv (s : st) : Prop := mkInv {
  (* the mutex is held exactly by the process inside its critical section *)
  inv_mu : match l s, p s with
           | L_unlock, P_unlock => False
           | L_unlock, _ => mu s = Some PL
           | _, P_unlock => mu s = Some PP
           | _, _ => mu s = None
           end;
  (* rerr rendezvous: the caller waits on rerr exactly until the reader has sent *)
  inv_rerr : if r_sent (r s) then c s <> C_rerr /\ got_rerr s <> None
             else c s = C_rerr /\ got_rerr s = None;
  inv_rerr_val : match r s with R_rerr v _ => v = ENone \/ v = ERead | _ => True end;
  inv_got_rerr : got_rerr s = None \/ got_rerr s = Some ENone \/ got_rerr s = Some ERead;
  (* f.Close happened iff the reader is finished *)
  inv_closes : closes s = match r s with R_done => 1 | _ => 0 end;
  (* inpc is closed only by the reader just before it closes the file *)
  inv_inpc : inpc_closed s = true -> r_closing (r s) = true;
  (* a reader that left without closing inpc did so because done was closed *)
  inv_rexit : match r s with
              | R_rerr _ false => done_closed s = true
              | R_closefile | R_done => inpc_closed s = true \/ done_closed s = true
              | _ => True
              end;
  (* why the lexer is where it is *)
  inv_l : match l s with
          | L_lock true => inpc_closed s = true
          | L_final _ w => w = true \/ inpc_closed s = true
          | L_close | L_done => inpc_closed s = true \/ lfailed s = true
          | _ => True
          end;
  inv_lfailed : lfailed s = true -> l_ended (l s) = true;
  inv_tclosed : tokens_closed s = l_is_done (l s);
  inv_tokens : tokens s <= tokens_cap;
  (* the parser leaves its receive loop only on the closed, drained token channel *)
  inv_ppast : p_past (p s) = true -> tokens s = 0 /\ tokens_closed s = true;
  inv_done : match p s with
             | P_closedone => (psyntax s || lfailed s) = true /\ done_closed s = false
             | P_setprog | P_perr | P_done => done_closed s = (psyntax s || lfailed s)
             | _ => done_closed s = false
             end;
  inv_pdiags : match p s with P_lock | P_unlock => 1 <= pdiags s | _ => True end;
  inv_prog : prog_set s = p_wrote (p s);
  (* perr rendezvous *)
  inv_perr : c_got_perr (c s) = p_is_done (p s);
  inv_got_perr : got_perr s = if p_is_done (p s) then Some (perr_value s) else None;
  inv_seen : prog_seen s = match c s with C_ret => Some true | _ => None end;
  (* reads after the lexer failed *)
  inv_raf0 : lfailed s = false -> reads_after_fail s = 0;
  inv_raf1 : reads_after_fail s <= 1;
  inv_raf_read : match r s with R_read => reads_after_fail s = 0 | _ => True end
}.

Ltac destruct_inv H :=
  destruct H as [inv_mu inv_rerr inv_rerr_val inv_got_rerr inv_closes inv_inpc inv_rexit inv_l inv_lfailed
                 inv_tclosed inv_tokens inv_ppast inv_done inv_pdiags inv_prog inv_perr inv_got_perr inv_seen
                 inv_raf0 inv_raf1 inv_raf_read].

Lemma Inv_init : forall sc plan fin syn nd, Inv (init sc plan fin syn nd).
Proof.
  intros. constructor; cbn; unfold tokens_cap; auto; try lia; try discriminate.
Qed.

Ltac split_matches H :=
  repeat match type of H with
         | context [match ?x with _ => _ end] => destruct x eqn:?; try discriminate H
         end.

Ltac case_ifs :=
  repeat match goal with
         | |- context [if ?b then _ else _] => destruct b eqn:?
         | H : context [if ?b then _ else _] |- _ => destruct b eqn:?
         | |- context [match ?b with true => _ | false => _ end] => destruct b eqn:?
         end.

Ltac case_hyp_bools :=
  repeat match goal with
         | H : ?b = true -> _ |- _ => is_var b; destruct b
         | H : ?b = false -> _ |- _ => is_var b; destruct b
         end.

Ltac case_goal_matches :=
  repeat match goal with
         | |- context [match ?x with _ => _ end] => is_var x; destruct x; cbn in *
         end.

Ltac case_pcs :=
  repeat match goal with
         | x : ppc |- _ => destruct x
         | x : lpc |- _ => destruct x
         | x : rpc |- _ => destruct x
         | x : cpc |- _ => destruct x
         end.

Ltac fin1 := intuition (try discriminate; try congruence; try lia).

Ltac finish_inv :=
  constructor; cbn in *; unfold perr_value, tokens_cap in *; cbn in *;
  try solve [ assumption | discriminate | reflexivity | lia | fin1
            | case_ifs; cbn in *; fin1
            | case_ifs; case_hyp_bools; cbn in *; fin1
            | case_goal_matches; cbn in *; fin1
            | case_goal_matches; case_ifs; case_hyp_bools; cbn in *; fin1
            | case_pcs; cbn in *; fin1
            | case_pcs; cbn in *; case_ifs; case_hyp_bools; cbn in *; fin1 ].

Ltac destruct_st s :=
  destruct s as [script0 r0 l0 p0 c0 lplan0 lfinal0 psyntax0 pdiags0 inpc_closed0 tokens0 tokens_closed0
                 done_closed0 lfailed0 saw_end0 end_queued0 mu0 prog_set0 reads0 closes0 raf0 got_rerr0
                 got_perr0 prog_seen0].

Ltac inv_some H := inversion H; subst; clear H.

Lemma Inv_step : forall s ch s', Inv s -> do s ch = Some s' -> Inv s'.
Proof.
  intros s ch s' HI H. destruct_st s. destruct HI. cbn in *.
  destruct ch as [[| | |]| |]; cbn in H.
  - (* reader *)
    destruct r0; cbn in *.
    + destruct script0 as [|x rest]; [|destruct x]; inv_some H; finish_inv.
    + destruct l0; try discriminate H. inv_some H. finish_inv.
    + destruct c0; try discriminate H. destruct got_rerr0; try discriminate H.
      inv_some H. destruct close_inpc; finish_inv.
    + inv_some H. finish_inv.
    + inv_some H. finish_inv.
    + discriminate H.
  - (* lexer *)
    destruct l0; cbn in *.
    + destruct inpc_closed0; try discriminate H. inv_some H. finish_inv.
    + destruct mu0; try discriminate H. destruct fin.
      * inv_some H. finish_inv.
      * destruct lplan0 as [|[n f] t]; inv_some H; finish_inv.
    + destruct lplan0 as [|[n f] t]; [|destruct f]; inv_some H; finish_inv.
    + destruct n.
      * inv_some H. finish_inv.
      * destruct (tokens0 <? tokens_cap) eqn:E; try discriminate H.
        apply Nat.ltb_lt in E. inv_some H. finish_inv.
    + destruct (tokens0 <? tokens_cap) eqn:E; try discriminate H.
      apply Nat.ltb_lt in E. destruct n; inv_some H; finish_inv.
    + inv_some H. finish_inv.
    + discriminate H.
  - (* parser *)
    destruct p0; cbn in *.
    + destruct tokens0.
      * destruct tokens_closed0; try discriminate H.
        destruct (psyntax0 || lfailed0) eqn:E; inv_some H; finish_inv.
      * inv_some H. finish_inv.
    + destruct mu0; try discriminate H. inv_some H. finish_inv.
    + inv_some H. finish_inv.
    + inv_some H. finish_inv.
    + inv_some H. finish_inv.
    + destruct c0; try discriminate H. inv_some H. finish_inv.
    + discriminate H.
  - (* caller *)
    destruct c0; try discriminate H. inv_some H. finish_inv.
  - (* Diag *)
    unfold step_diag in H; cbn in H.
    destruct p0; try discriminate H. destruct pdiags0; try discriminate H.
    inv_some H. finish_inv.
  - (* SelDone *)
    unfold step_seldone in H; cbn in H.
    destruct r0; try discriminate H. destruct done_closed0; try discriminate H.
    inv_some H. finish_inv.
Qed.

Theorem Inv_reachable : forall s, reachable s -> Inv s.
Proof.
  apply reachable_ind'; [apply Inv_init|]. intros; eapply Inv_step; eassumption.
Qed.
Print Assumptions Inv_reachable.

(* ------------------------------------------------------------------ *)
(* 1. C11: the file is closed exactly once, and never read afterwards *)

Theorem C11_close_once : forall s, reachable s -> closes s <= 1.
Proof.
  intros s Hr. apply Inv_reachable in Hr. rewrite (inv_closes s Hr). destruct (r s); lia.
Qed.
Print Assumptions C11_close_once.

Theorem C11_close_final : forall s, reachable s -> final s = true -> closes s = 1.
Proof.
  intros s Hr Hf. apply Inv_reachable in Hr. rewrite (inv_closes s Hr).
  unfold final in Hf. destruct (r s); try discriminate Hf. reflexivity.
Qed.
Print Assumptions C11_close_final.

Theorem C11_read_never_after_close : forall s, reachable s -> closes s = 1 -> r s = R_done.
Proof.
  intros s Hr Hc. apply Inv_reachable in Hr. rewrite (inv_closes s Hr) in Hc.
  destruct (r s); try discriminate Hc. reflexivity.
Qed.
Print Assumptions C11_read_never_after_close.

(* the same, on steps: once the file is closed no step of any schedule is a Read or a Close *)
Theorem C11_no_read_after_close_step : forall s ch s',
  reachable s -> closes s = 1 -> do s ch = Some s' -> reads s' = reads s /\ closes s' = 1.
Proof.
  intros s ch s' Hr Hc H.
  assert (Hr' : reachable s') by (eapply reachable_step; eassumption).
  pose proof (C11_read_never_after_close s Hr Hc) as Hd.
  destruct_st s. cbn in *. subst r0.
  destruct ch as [[| | |]| |]; cbn in H; try discriminate H.
  - destruct l0; cbn in H; repeat (split_matches H); inv_some H; cbn; auto.
  - destruct p0; cbn in H; repeat (split_matches H); inv_some H; cbn; auto.
  - destruct c0; cbn in H; try discriminate H; inv_some H; cbn; auto.
  - unfold step_diag in H; cbn in H. split_matches H. inv_some H. cbn; auto.
Qed.
Print Assumptions C11_no_read_after_close_step.

(* ------------------------------------------------------------------ *)
(* 2. C12: mutual exclusion on the line table *)

Theorem C12_mutex : forall s, reachable s -> racy s = false.
Proof.
  intros s Hr. apply Inv_reachable in Hr. pose proof (inv_mu s Hr) as H.
  unfold racy, in_cs_l, in_cs_p. destruct (l s), (p s); try reflexivity. contradiction.
Qed.
Print Assumptions C12_mutex.

Theorem C12_mutex_holder : forall s, reachable s ->
  (mu s = Some PL <-> l s = L_unlock) /\
  (mu s = Some PP <-> p s = P_unlock) /\
  (mu s = None <-> l s <> L_unlock /\ p s <> P_unlock) /\
  mu s <> Some PR /\ mu s <> Some PC.
Proof.
  intros s Hr. apply Inv_reachable in Hr. pose proof (inv_mu s Hr) as H.
  destruct (l s), (p s); try contradiction; rewrite H;
    repeat split; intros; try discriminate; try congruence; try tauto;
    try (destruct H0; congruence).
Qed.
Print Assumptions C12_mutex_holder.

(* ------------------------------------------------------------------ *)
(* 3. C12: prog is published before the caller reads it *)

Theorem C12_prog_published : forall s, reachable s -> prog_seen s <> Some false.
Proof.
  intros s Hr. apply Inv_reachable in Hr. rewrite (inv_seen s Hr). destruct (c s); discriminate.
Qed.
Print Assumptions C12_prog_published.

Theorem C12_prog_seen_on_return : forall s, reachable s -> returned s = true -> prog_seen s = Some true.
Proof.
  intros s Hr Hc. apply Inv_reachable in Hr. rewrite (inv_seen s Hr).
  unfold returned in Hc. destruct (c s); try discriminate Hc. reflexivity.
Qed.
Print Assumptions C12_prog_seen_on_return.

(* the write happens before the perr rendezvous, the read after it *)
Theorem C12_prog_set_before_perr : forall s, reachable s ->
  (p s = P_perr \/ p s = P_done -> prog_set s = true) /\
  (c s = C_readprog \/ c s = C_ret -> p s = P_done).
Proof.
  intros s Hr. apply Inv_reachable in Hr. pose proof (inv_prog s Hr) as H1. pose proof (inv_perr s Hr) as H2.
  split.
  - intros [E|E]; rewrite H1, E; reflexivity.
  - intros [E|E]; rewrite E in H2; cbn in H2; destruct (p s); try discriminate H2; reflexivity.
Qed.
Print Assumptions C12_prog_set_before_perr.

(* ------------------------------------------------------------------ *)
(* 7. C11: after the lexer failed at most one more Read *)

Theorem C11_stops_reading : forall s, reachable s -> reads_after_fail s <= 1.
Proof. intros s Hr. apply Inv_reachable in Hr. apply (inv_raf1 s Hr). Qed.
Print Assumptions C11_stops_reading.

(* ------------------------------------------------------------------ *)
(* 8. C11: when ParseFile returns, the goroutines are finished or about to finish *)

Theorem C11_no_leftover : forall s, reachable s -> returned s = true ->
  (r s = R_closeinpc \/ r s = R_closefile \/ r s = R_done) /\ l s = L_done /\ p s = P_done.
Proof.
  intros s Hr Hc. apply Inv_reachable in Hr. destruct Hr. unfold returned in Hc.
  destruct (c s) eqn:Ec; try discriminate Hc. cbn in *.
  destruct (p s) eqn:Ep; try discriminate inv_perr0. cbn in *.
  destruct inv_ppast0 as [_ Ht]; [reflexivity|]. rewrite inv_tclosed0 in Ht.
  destruct (l s) eqn:El; try discriminate Ht.
  destruct (r s) eqn:Er; cbn in *; intuition congruence.
Qed.
Print Assumptions C11_no_leftover.

(* a final state is clean: token buffer drained, mutex free, both channels closed as expected *)
Theorem C11_final_clean : forall s, reachable s -> final s = true ->
  tokens s = 0 /\ tokens_closed s = true /\ mu s = None /\ prog_set s = true /\
  got_rerr s <> None /\ got_perr s <> None /\ done_closed s = (psyntax s || lfailed s).
Proof.
  intros s Hr Hf. apply Inv_reachable in Hr. destruct_inv Hr. unfold final in Hf.
  destruct (r s) eqn:Er; try discriminate Hf. destruct (l s) eqn:El; try discriminate Hf.
  destruct (p s) eqn:Ep; try discriminate Hf. destruct (c s) eqn:Ec; try discriminate Hf.
  cbn in *. destruct inv_ppast as [A B]; [reflexivity|]. destruct inv_rerr as [_ D].
  repeat split; try assumption. rewrite inv_got_perr. discriminate.
Qed.
Print Assumptions C11_final_clean.

(* the remaining reader steps never block *)
Theorem C11_no_leftover_reader_runs : forall s,
  r s = R_closeinpc \/ r s = R_closefile -> step s PR <> None.
Proof. intros s [E|E]; unfold step; rewrite E; discriminate. Qed.
Print Assumptions C11_no_leftover_reader_runs.

(* ------------------------------------------------------------------ *)
(* 4. C11: no deadlock *)

Section Enabled.
Variable s : st.

Lemma en_R_read : r s = R_read -> do s (Go PR) <> None.
Proof. intros E. cbn. rewrite E. destruct (script s) as [|[] ?]; discriminate. Qed.
Lemma en_R_select : r s = R_select -> l s = L_need -> do s (Go PR) <> None.
Proof. intros E E2. cbn. rewrite E, E2. discriminate. Qed.
Lemma en_R_rerr : forall v k, r s = R_rerr v k -> c s = C_rerr -> got_rerr s = None -> do s (Go PR) <> None.
Proof. intros v k E E2 E3. cbn. rewrite E, E2, E3. discriminate. Qed.
Lemma en_R_closeinpc : r s = R_closeinpc -> do s (Go PR) <> None.
Proof. intros E. cbn. rewrite E. discriminate. Qed.
Lemma en_R_closefile : r s = R_closefile -> do s (Go PR) <> None.
Proof. intros E. cbn. rewrite E. discriminate. Qed.
Lemma en_seldone : r s = R_select -> done_closed s = true -> do s SelDone <> None.
Proof. intros E E2. cbn. unfold step_seldone. rewrite E, E2. discriminate. Qed.

Lemma en_L_need : l s = L_need -> inpc_closed s = true -> do s (Go PL) <> None.
Proof. intros E E2. cbn. rewrite E, E2. discriminate. Qed.
Lemma en_L_lock : forall f, l s = L_lock f -> mu s = None -> do s (Go PL) <> None.
Proof. intros f E E2. cbn. rewrite E, E2. destruct f; [discriminate|]. destruct (lplan s); discriminate. Qed.
Lemma en_L_unlock : l s = L_unlock -> do s (Go PL) <> None.
Proof. intros E. cbn. rewrite E. destruct (lplan s) as [|[? ?] ?]; discriminate. Qed.
Lemma en_L_emit : forall n b, l s = L_emit n b -> tokens s < tokens_cap -> do s (Go PL) <> None.
Proof.
  intros n b E E2. cbn. rewrite E. apply Nat.ltb_lt in E2. rewrite E2. destruct n; discriminate.
Qed.
Lemma en_L_emit0 : forall b, l s = L_emit 0 b -> do s (Go PL) <> None.
Proof. intros b E. cbn. rewrite E. discriminate. Qed.
Lemma en_L_final : forall n b, l s = L_final n b -> tokens s < tokens_cap -> do s (Go PL) <> None.
Proof.
  intros n b E E2. cbn. rewrite E. apply Nat.ltb_lt in E2. rewrite E2. destruct n; discriminate.
Qed.
Lemma en_L_close : l s = L_close -> do s (Go PL) <> None.
Proof. intros E. cbn. rewrite E. discriminate. Qed.

Lemma en_P_recv_tok : p s = P_recv -> tokens s <> 0 -> do s (Go PP) <> None.
Proof. intros E E2. cbn. rewrite E. destruct (tokens s); [congruence|discriminate]. Qed.
Lemma en_P_recv_closed : p s = P_recv -> tokens_closed s = true -> do s (Go PP) <> None.
Proof. intros E E2. cbn. rewrite E, E2. destruct (tokens s); discriminate. Qed.
Lemma en_P_lock : p s = P_lock -> mu s = None -> do s (Go PP) <> None.
Proof. intros E E2. cbn. rewrite E, E2. discriminate. Qed.
Lemma en_P_unlock : p s = P_unlock -> do s (Go PP) <> None.
Proof. intros E. cbn. rewrite E. discriminate. Qed.
Lemma en_P_closedone : p s = P_closedone -> do s (Go PP) <> None.
Proof. intros E. cbn. rewrite E. discriminate. Qed.
Lemma en_P_setprog : p s = P_setprog -> do s (Go PP) <> None.
Proof. intros E. cbn. rewrite E. discriminate. Qed.
Lemma en_P_perr : p s = P_perr -> c s = C_perr -> do s (Go PP) <> None.
Proof. intros E E2. cbn. rewrite E, E2. discriminate. Qed.
Lemma en_C_readprog : c s = C_readprog -> do s (Go PC) <> None.
Proof. intros E. cbn. rewrite E. discriminate. Qed.
End Enabled.

(* a process that can take a step, whatever the others do, or that waits for the mutex *)
Lemma mutex_progress : forall s, Inv s ->
  (exists f, l s = L_lock f) \/ p s = P_lock \/ l s = L_unlock \/ p s = P_unlock ->
  exists ch, do s ch <> None.
Proof.
  intros s HI H. pose proof (inv_mu s HI) as Hm.
  destruct (l s) eqn:El; try (exists (Go PL); apply en_L_unlock; assumption);
  destruct (p s) eqn:Ep; try (exists (Go PP); apply en_P_unlock; assumption);
  try (exists (Go PL); eapply en_L_lock; eassumption);
  try (exists (Go PP); eapply en_P_lock; eassumption);
  exfalso; destruct H as [[f H]|[H|[H|H]]]; discriminate H.
Qed.

Lemma reader_progress : forall s, Inv s -> r s <> R_select -> r s <> R_done -> do s (Go PR) <> None.
Proof.
  intros s HI H1 H2. pose proof (inv_rerr s HI) as Hx.
  destruct (r s) eqn:Er; try congruence; cbn in Hx.
  - apply en_R_read; assumption.
  - eapply en_R_rerr; [eassumption|tauto|tauto].
  - apply en_R_closeinpc; assumption.
  - apply en_R_closefile; assumption.
Qed.

Theorem C11_no_deadlock : forall s, reachable s -> final s = false -> exists ch, do s ch <> None.
Proof.
  intros s Hr Hf. apply Inv_reachable in Hr. pose proof Hr as HI. destruct_inv Hr.
  (* the mutex never blocks for ever *)
  destruct (l s) eqn:El;
    try (apply mutex_progress; [assumption|rewrite El; eauto; fail]);
    try (exists (Go PL); apply en_L_close; assumption).
  all: destruct (p s) eqn:Ep;
    try (apply mutex_progress; [assumption|rewrite Ep; eauto; fail]);
    try (exists (Go PP); first [apply en_P_closedone; assumption|apply en_P_setprog; assumption]).
  all: cbn in *.
  (* the parser leaves its loop only after the lexer is done *)
  all: try (exfalso; destruct inv_ppast as [_ X]; [reflexivity|congruence]).
  - (* L_need, P_recv *)
    destruct (r s) eqn:Er; try (exists (Go PR); apply reader_progress; [assumption|congruence|congruence]).
    + exists (Go PR). apply en_R_select; assumption.
    + exists (Go PL). apply en_L_need; [assumption|]. destruct inv_rexit; congruence.
  - (* L_emit, P_recv *)
    destruct (tokens s) eqn:Et.
    + exists (Go PL). eapply en_L_emit; [eassumption|]. rewrite Et. unfold tokens_cap. lia.
    + exists (Go PP). apply en_P_recv_tok; [assumption|]. rewrite Et. discriminate.
  - (* L_final, P_recv *)
    destruct (tokens s) eqn:Et.
    + exists (Go PL). eapply en_L_final; [eassumption|]. rewrite Et. unfold tokens_cap. lia.
    + exists (Go PP). apply en_P_recv_tok; [assumption|]. rewrite Et. discriminate.
  - (* L_done, P_recv *)
    exists (Go PP). apply en_P_recv_closed; assumption.
  - (* L_done, P_perr *)
    destruct (r s) eqn:Er; try (exists (Go PR); apply reader_progress; [assumption|congruence|congruence]).
    + exists SelDone. apply en_seldone; [assumption|]. rewrite inv_done.
      destruct inv_l as [X|X]; [apply inv_inpc in X; discriminate X|]. rewrite X. apply orb_true_r.
    + cbn in *. exists (Go PP). apply en_P_perr; [assumption|].
      destruct (c s); try discriminate inv_perr; tauto.
  - (* L_done, P_done *)
    destruct (r s) eqn:Er; try (exists (Go PR); apply reader_progress; [assumption|congruence|congruence]).
    + exists SelDone. apply en_seldone; [assumption|]. rewrite inv_done.
      destruct inv_l as [X|X]; [apply inv_inpc in X; discriminate X|]. rewrite X. apply orb_true_r.
    + cbn in *. destruct (c s) eqn:Ec; try discriminate inv_perr.
      * exists (Go PC). apply en_C_readprog; assumption.
      * unfold final in Hf. rewrite Er, El, Ep, Ec in Hf. discriminate Hf.
Qed.
Print Assumptions C11_no_deadlock.

(* ------------------------------------------------------------------ *)
(* 5. C11: termination *)

Fixpoint plansum (pl : list (nat * bool)) : nat :=
  match pl with [] => 0 | (n, _) :: t => n + plansum t end.

Definition rrank (x : rpc) : nat :=
  match x with
  | R_select => 5 | R_read => 4 | R_rerr _ _ => 3 | R_closeinpc => 2 | R_closefile => 1 | R_done => 0
  end.
Definition lmeas (s : st) : nat :=
  match l s with
  | L_lock false => 8 + 2 * lfinal s + 2 * plansum (lplan s)
  | L_unlock => 7 + 2 * lfinal s + 2 * plansum (lplan s)
  | L_emit n _ => 6 + 2 * n + 2 * lfinal s + 2 * plansum (lplan s)
  | L_need => 5 + 2 * lfinal s + 2 * plansum (lplan s)
  | L_lock true => 4 + 2 * lfinal s
  | L_final n _ => 3 + 2 * n
  | L_close => 1
  | L_done => 0
  end.
Definition prank (x : ppc) : nat :=
  match x with
  | P_recv => 6 | P_lock => 5 | P_unlock => 4 | P_closedone => 3 | P_setprog => 2 | P_perr => 1 | P_done => 0
  end.
Definition crank (x : cpc) : nat :=
  match x with C_rerr => 3 | C_perr => 2 | C_readprog => 1 | C_ret => 0 end.

(* remaining work: reads still to come (each read pays for one lexer round), the lexer's plan
   (a token costs one send and one receive), buffered tokens, diagnostics (three steps each),
   and the distance of every process from its end *)
Definition mu_ (s : st) : nat :=
  4 * (2 * length (script s) + rrank (r s)) + lmeas s + tokens s + 3 * pdiags s + prank (p s) + crank (c s).

Local Arguments Nat.mul : simpl never.

Lemma mu_decreases_inv : forall s ch s', Inv s -> do s ch = Some s' -> mu_ s' < mu_ s.
Proof.
  intros s ch s' HI H. pose proof (inv_pdiags s HI) as Hpd. clear HI.
  destruct_st s. unfold mu_, lmeas. cbn in *.
  destruct ch as [[| | |]| |]; cbn in H.
  - destruct r0; cbn in *.
    + destruct script0 as [|x rest]; [|destruct x]; inv_some H; cbn; destruct l0 as [|[]| | | | |]; lia.
    + destruct l0; try discriminate H. inv_some H. cbn. lia.
    + destruct c0; try discriminate H. destruct got_rerr0; try discriminate H.
      inv_some H. destruct close_inpc; cbn; destruct l0 as [|[]| | | | |]; lia.
    + inv_some H. cbn; destruct l0 as [|[]| | | | |]; lia.
    + inv_some H. cbn; destruct l0 as [|[]| | | | |]; lia.
    + discriminate H.
  - destruct l0; cbn in *.
    + destruct inpc_closed0; try discriminate H. inv_some H. cbn. lia.
    + destruct mu0; try discriminate H. destruct fin.
      * inv_some H. cbn. lia.
      * destruct lplan0 as [|[n f] t]; inv_some H; cbn; lia.
    + destruct lplan0 as [|[n f] t]; [|destruct f]; inv_some H; cbn; lia.
    + destruct n.
      * inv_some H. cbn. lia.
      * destruct (tokens0 <? tokens_cap) eqn:E; try discriminate H. inv_some H. cbn. lia.
    + destruct (tokens0 <? tokens_cap) eqn:E; try discriminate H. destruct n; inv_some H; cbn; lia.
    + inv_some H. cbn. lia.
    + discriminate H.
  - destruct p0; cbn in *.
    + destruct tokens0.
      * destruct tokens_closed0; try discriminate H.
        destruct (psyntax0 || lfailed0) eqn:E; inv_some H; cbn; destruct l0 as [|[]| | | | |]; lia.
      * inv_some H. cbn. destruct l0 as [|[]| | | | |]; lia.
    + destruct mu0; try discriminate H. inv_some H. cbn. destruct l0 as [|[]| | | | |]; lia.
    + inv_some H. cbn. destruct l0 as [|[]| | | | |]; lia.
    + inv_some H. cbn. destruct l0 as [|[]| | | | |]; lia.
    + inv_some H. cbn. destruct l0 as [|[]| | | | |]; lia.
    + destruct c0; try discriminate H. inv_some H. cbn. destruct l0 as [|[]| | | | |]; lia.
    + discriminate H.
  - destruct c0; try discriminate H. inv_some H. cbn. destruct l0 as [|[]| | | | |]; lia.
  - unfold step_diag in H; cbn in H.
    destruct p0; try discriminate H. destruct pdiags0; try discriminate H.
    inv_some H. cbn. destruct l0 as [|[]| | | | |]; lia.
  - unfold step_seldone in H; cbn in H.
    destruct r0; try discriminate H. destruct done_closed0; try discriminate H.
    inv_some H. cbn. destruct l0 as [|[]| | | | |]; lia.
Qed.

Theorem C11_measure_decreases : forall s ch s',
  reachable s -> do s ch = Some s' -> mu_ s' < mu_ s.
Proof. intros s ch s' Hr H. eapply mu_decreases_inv; [apply Inv_reachable; exact Hr|exact H]. Qed.
Print Assumptions C11_measure_decreases.

(* number of effective (not skipped) steps of a schedule *)
Fixpoint effective (s : st) (sched : list choice) : nat :=
  match sched with
  | [] => 0
  | ch :: more => match do s ch with
                  | Some s' => S (effective s' more)
                  | None => effective s more
                  end
  end.

Theorem C11_step_bound : forall sched s,
  reachable s -> effective s sched + mu_ (exec s sched) <= mu_ s.
Proof.
  induction sched as [|ch more IH]; intros s Hr; cbn; [lia|].
  destruct (do s ch) as [s'|] eqn:E.
  - pose proof (C11_measure_decreases s ch s' Hr E).
    pose proof (IH s' (reachable_step s ch s' Hr E)). lia.
  - apply IH; exact Hr.
Qed.
Print Assumptions C11_step_bound.

Corollary C11_terminates : forall sc plan fin syn nd sched,
  effective (init sc plan fin syn nd) sched <= mu_ (init sc plan fin syn nd).
Proof.
  intros. pose proof (C11_step_bound sched _ (reachable_init sc plan fin syn nd)). lia.
Qed.
Print Assumptions C11_terminates.

Lemma mu_init : forall sc plan fin syn nd,
  mu_ (init sc plan fin syn nd) = 30 + 8 * length sc + 2 * plansum plan + 2 * fin + 3 * nd.
Proof. intros. unfold mu_, lmeas. cbn. lia. Qed.

Lemma final_stuck : forall s ch, final s = true -> do s ch = None.
Proof.
  intros s ch Hf. unfold final in Hf.
  destruct (r s) eqn:Er; try discriminate Hf. destruct (l s) eqn:El; try discriminate Hf.
  destruct (p s) eqn:Ep; try discriminate Hf. destruct (c s) eqn:Ec; try discriminate Hf.
  destruct ch as [[| | |]| |]; cbn; unfold step_diag, step_seldone; rewrite ?Er, ?El, ?Ep, ?Ec; reflexivity.
Qed.

Lemma final_exec : forall sched s, final s = true -> exec s sched = s.
Proof.
  induction sched as [|ch more IH]; intros s Hf; cbn; [reflexivity|].
  rewrite (final_stuck s ch Hf). apply IH; exact Hf.
Qed.

(* from every reachable state some schedule (of at most mu_ s steps, all effective) leads to a final state *)
Theorem C11_can_finish : forall s, reachable s ->
  exists sched, final (exec s sched) = true /\ length sched <= mu_ s /\ effective s sched = length sched.
Proof.
  intros s. remember (mu_ s) as n eqn:En. revert s En.
  induction n as [n IH] using lt_wf_ind. intros s En Hr.
  destruct (final s) eqn:Hf.
  - exists []. cbn. repeat split; [exact Hf|lia].
  - destruct (C11_no_deadlock s Hr Hf) as [ch Hch].
    destruct (do s ch) as [s'|] eqn:E; [|congruence].
    pose proof (C11_measure_decreases s ch s' Hr E) as Hlt.
    destruct (IH (mu_ s') ltac:(lia) s' eq_refl (reachable_step s ch s' Hr E)) as (sched & H1 & H2 & H3).
    exists (ch :: sched). cbn. rewrite E. repeat split; [exact H1|lia|lia].
Qed.
Print Assumptions C11_can_finish.

Corollary C11_reaches_final : forall s, reachable s -> exists sched, final (exec s sched) = true.
Proof. intros s Hr. destruct (C11_can_finish s Hr) as (sched & H & _). exists sched. exact H. Qed.
Print Assumptions C11_reaches_final.

(* fair schedules: a round is any list that offers every choice at least once *)
Lemma round_progress : forall rd s,
  reachable s -> (exists ch, In ch rd /\ do s ch <> None) -> mu_ (exec s rd) < mu_ s.
Proof.
  induction rd as [|a rest IH]; intros s Hr (ch & Hin & Hen); [destruct Hin|].
  cbn. destruct (do s a) as [s'|] eqn:E.
  - pose proof (C11_measure_decreases s a s' Hr E).
    pose proof (C11_step_bound rest s' (reachable_step s a s' Hr E)). lia.
  - apply IH; [exact Hr|]. exists ch. split; [|exact Hen].
    destruct Hin as [Hin|Hin]; [subst a; congruence|exact Hin].
Qed.

Inductive rounds : nat -> list choice -> Prop :=
| rounds_O : forall tail, rounds 0 tail
| rounds_S : forall n rd rest, (forall ch, In ch rd) -> rounds n rest -> rounds (S n) (rd ++ rest).

Theorem C11_fair_terminates : forall n sched s,
  reachable s -> rounds n sched -> mu_ s <= n -> final (exec s sched) = true.
Proof.
  intros n sched s Hr Hro. revert s Hr. induction Hro as [tail|n rd rest Hall Hro IH]; intros s Hr Hle.
  - destruct (final s) eqn:Hf; [rewrite final_exec; assumption|].
    destruct (C11_no_deadlock s Hr Hf) as [ch Hch].
    destruct (do s ch) as [s'|] eqn:E; [|congruence].
    pose proof (C11_measure_decreases s ch s' Hr E). lia.
  - rewrite exec_app. destruct (final s) eqn:Hf.
    + rewrite (final_exec rd s Hf). rewrite final_exec; assumption.
    + destruct (C11_no_deadlock s Hr Hf) as [ch Hch].
      assert (mu_ (exec s rd) < mu_ s) by (apply round_progress; [exact Hr|exists ch; auto]).
      apply IH; [apply reachable_exec; exact Hr|lia].
Qed.
Print Assumptions C11_fair_terminates.

Lemma round_robin_rounds : forall n, rounds n (round_robin n).
Proof.
  induction n as [|n IH]; [constructor|].
  change (round_robin (S n)) with ([Go PR; SelDone; Go PL; Diag; Go PP; Go PC] ++ round_robin n).
  constructor; [|exact IH]. intros [[| | |]| |]; cbn; tauto.
Qed.

Corollary C11_round_robin_terminates : forall s n,
  reachable s -> mu_ s <= n -> final (exec s (round_robin n)) = true.
Proof. intros s n Hr Hle. eapply C11_fair_terminates; [exact Hr|apply round_robin_rounds|exact Hle]. Qed.
Print Assumptions C11_round_robin_terminates.

Lemma fold_plansum : forall plan a, fold_left (fun a x => a + fst x) plan a = a + plansum plan.
Proof.
  induction plan as [|[n f] t IH]; intros a; cbn; [lia|]. rewrite IH. lia.
Qed.

(* the budget of the executable prediction is enough: predict always reports a final state *)
Theorem predict_final : forall sc plan fin syn nd,
  snd (predict sc plan fin syn nd) = true.
Proof.
  intros. unfold predict. cbn [snd].
  apply C11_round_robin_terminates; [apply reachable_init|].
  rewrite mu_init, fold_plansum. lia.
Qed.
Print Assumptions predict_final.

(* ------------------------------------------------------------------ *)
(* 6. C11: the result, in closed form *)

Definition next_err (sc : list rd) : err := match sc with RdErr :: _ => ERead | _ => ENone end.
Definition plan_fails (pl : list (nat * bool)) : bool := snd (hd (0, false) pl).
Definition bump (x : err * bool * nat) : err * bool * nat := let '(e, f, n) := x in (e, f, S n).
Definition addr (k : nat) (x : err * bool * nat) : err * bool * nat := let '(e, f, n) := x in (e, f, k + n).

(* (value sent on rerr, the lexer fails, number of Reads) from a reader about to Read `sc`
   and a lexer that will handle the following chunks according to `pl` *)
Fixpoint outcome (sc : list rd) (pl : list (nat * bool)) : err * bool * nat :=
  match sc with
  | [] => (ENone, false, 1)
  | RdEOF :: _ => (ENone, false, 1)
  | RdErr :: _ => (ERead, false, 1)
  | _ :: rest =>
    if plan_fails pl then (next_err rest, true, 2)     (* the lexer fails on this chunk: one more Read *)
    else bump (outcome rest (tl pl))
  end.

Definition combine (e : err) (parse_fails : bool) : err :=
  match e with ENone => if parse_fails then EParse else ENone | _ => e end.

Definition expected (sc : list rd) (plan : list (nat * bool)) (syn : bool) : err :=
  let '(e, f, _) := outcome sc plan in combine e (syn || f).
Definition expected_reads (sc : list rd) (plan : list (nat * bool)) : nat := snd (outcome sc plan).

(* the same prediction from an arbitrary state *)
Definition lfail_now (s : st) : bool :=
  match l s with
  | L_lock false | L_unlock => plan_fails (lplan s)
  | L_final _ w => w
  | L_close | L_done => lfailed s
  | _ => false
  end.
(* Some pl: the lexer will come back to receive the next chunk, with plan pl *)
Definition lex_status (s : st) : option (list (nat * bool)) :=
  match l s with
  | L_need | L_emit _ _ => Some (lplan s)
  | L_lock false | L_unlock => if plan_fails (lplan s) then None else Some (tl (lplan s))
  | _ => None
  end.
Definition got_val (s : st) : err := match got_rerr s with Some v => v | None => ENone end.

Definition pred (s : st) : err * bool * nat * bool :=
  (match r s with
   | R_read =>
     match lex_status s with
     | Some pl => addr (reads s) (outcome (script s) pl)
     | None => (next_err (script s), lfail_now s, reads s + 1)
     end
   | R_select =>
     match lex_status s with
     | Some pl => if plan_fails pl then (next_err (script s), true, reads s + 1)
                  else addr (reads s) (outcome (script s) (tl pl))
     | None => (ENone, lfail_now s, reads s)
     end
   | R_rerr v _ => (v, lfail_now s, reads s)
   | _ => (got_val s, lfail_now s, reads s)
   end, psyntax s).

Lemma pred_init : forall sc plan fin syn nd,
  pred (init sc plan fin syn nd) = (outcome sc plan, syn).
Proof. intros. unfold pred. cbn. destruct (outcome sc plan) as [[e f] n]. reflexivity. Qed.

Lemma addr_bump : forall k x, addr k (bump x) = addr (S k) x.
Proof. intros k [[e f] n]. cbn. f_equal. lia. Qed.

Ltac tup :=
  cbn; rewrite ?addr_bump; try reflexivity; try discriminate; try congruence;
  try (f_equal; f_equal; lia); try (repeat f_equal; lia).
Ltac psolve :=
  match goal with
  | l0 : lpc |- _ => destruct l0 as [|[]| | | | |]; cbn in *; case_ifs; tup
  | _ => case_ifs; tup
  end.

Ltac absurd_hyps := try solve [exfalso; intuition (try discriminate; try congruence)].
Ltac rsolve :=
  match goal with
  | r0 : rpc |- _ => destruct r0; cbn in *; absurd_hyps; case_ifs; tup
  end.

Lemma pred_step : forall s ch s', Inv s -> do s ch = Some s' -> pred s' = pred s.
Proof.
  intros s ch s' HI H. destruct_st s. destruct_inv HI. unfold pred, lex_status, lfail_now, got_val. cbn in *.
  destruct ch as [[| | |]| |]; cbn in H.
  - (* reader *)
    destruct r0; cbn in *.
    + destruct script0 as [|x rest]; [|destruct x]; inv_some H; cbn; psolve.
    + destruct l0; try discriminate H. inv_some H. cbn. psolve.
    + destruct c0; try discriminate H. destruct got_rerr0; try discriminate H.
      inv_some H. destruct close_inpc; reflexivity.
    + inv_some H. reflexivity.
    + inv_some H. reflexivity.
    + discriminate H.
  - (* lexer *)
    destruct l0; cbn in *.
    + destruct inpc_closed0; try discriminate H. inv_some H. cbn. rsolve.
    + destruct mu0; try discriminate H. destruct fin.
      * inv_some H. cbn. rsolve.
      * destruct lplan0 as [|[n f] t]; inv_some H; cbn; reflexivity.
    + destruct lplan0 as [|[n f] t]; [|destruct f]; inv_some H; cbn; try reflexivity. all: rsolve.
    + destruct n.
      * inv_some H. reflexivity.
      * destruct (tokens0 <? tokens_cap) eqn:E; try discriminate H. inv_some H. reflexivity.
    + destruct (tokens0 <? tokens_cap) eqn:E; try discriminate H. destruct n; inv_some H; cbn; try reflexivity.
      destruct lfailed0; [discriminate (inv_lfailed eq_refl)|]. rsolve.
    + inv_some H. reflexivity.
    + discriminate H.
  - (* parser *)
    destruct p0; cbn in *.
    + destruct tokens0.
      * destruct tokens_closed0; try discriminate H.
        destruct (psyntax0 || lfailed0) eqn:E; inv_some H; reflexivity.
      * inv_some H. reflexivity.
    + destruct mu0; try discriminate H. inv_some H. reflexivity.
    + inv_some H. reflexivity.
    + inv_some H. reflexivity.
    + inv_some H. reflexivity.
    + destruct c0; try discriminate H. inv_some H. reflexivity.
    + discriminate H.
  - destruct c0; try discriminate H. inv_some H. reflexivity.
  - unfold step_diag in H; cbn in H.
    destruct p0; try discriminate H. destruct pdiags0; try discriminate H.
    inv_some H. reflexivity.
  - unfold step_seldone in H; cbn in H.
    destruct r0; try discriminate H. destruct done_closed0; try discriminate H.
    inv_some H.
    assert (El : l0 = L_done).
    { destruct p0; cbn in *; try discriminate inv_done; try (destruct inv_done; discriminate);
        (destruct inv_ppast as [_ X]; [reflexivity|]; destruct l0; try discriminate X; reflexivity). }
    subst l0. reflexivity.
Qed.

Lemma pred_exec : forall sched s, Inv s -> pred (exec s sched) = pred s.
Proof.
  induction sched as [|ch more IH]; intros s HI; cbn; [reflexivity|].
  destruct (do s ch) as [s'|] eqn:E; [|apply IH; exact HI].
  rewrite IH; [|eapply Inv_step; eassumption]. eapply pred_step; eassumption.
Qed.

(* what ParseFile returns, how often it Reads and that it Closes once are the same for every
   schedule, and given by the closed form *)
Theorem C11_result : forall sc plan fin syn nd sched,
  let s := exec (init sc plan fin syn nd) sched in
  final s = true ->
  result s = Some (expected sc plan syn) /\ reads s = expected_reads sc plan /\ closes s = 1.
Proof.
  intros sc plan fin syn nd sched s Hf.
  assert (Hr : reachable s) by (exists sc, plan, fin, syn, nd, sched; reflexivity).
  pose proof (pred_exec sched _ (Inv_init sc plan fin syn nd)) as Hp. fold s in Hp. rewrite pred_init in Hp.
  clearbody s.
  split; [|split; [|apply C11_close_final; assumption]].
  - apply Inv_reachable in Hr. destruct_inv Hr. unfold final in Hf.
    destruct (r s) eqn:Er; try discriminate Hf. destruct (l s) eqn:El; try discriminate Hf.
    destruct (p s) eqn:Ep; try discriminate Hf. destruct (c s) eqn:Ec; try discriminate Hf.
    unfold pred, lfail_now, got_val in Hp. rewrite Er, El in Hp. cbn in *.
    unfold expected. destruct (outcome sc plan) as [[e f] n]. inversion Hp; subst; clear Hp.
    unfold result. rewrite inv_got_perr. unfold perr_value.
    destruct inv_got_rerr as [X|[X|X]]; rewrite X; cbn; [|reflexivity|reflexivity].
    destruct inv_rerr as [_ Y]; congruence.
  - unfold expected_reads. unfold final in Hf.
    destruct (r s) eqn:Er; try discriminate Hf.
    unfold pred in Hp. rewrite Er in Hp. destruct (outcome sc plan) as [[e f] n]. inversion Hp. reflexivity.
Qed.
Print Assumptions C11_result.

(* schedule independence, as a corollary *)
Corollary C11_result_schedule_independent : forall sc plan fin syn nd sched1 sched2,
  let s0 := init sc plan fin syn nd in
  final (exec s0 sched1) = true -> final (exec s0 sched2) = true ->
  result (exec s0 sched1) = result (exec s0 sched2) /\
  reads (exec s0 sched1) = reads (exec s0 sched2) /\
  closes (exec s0 sched1) = closes (exec s0 sched2).
Proof.
  intros sc plan fin syn nd sched1 sched2 s0 H1 H2.
  destruct (C11_result sc plan fin syn nd sched1 H1) as (A1 & B1 & C1).
  destruct (C11_result sc plan fin syn nd sched2 H2) as (A2 & B2 & C2).
  fold s0 in A1, B1, C1, A2, B2, C2. repeat split; congruence.
Qed.
Print Assumptions C11_result_schedule_independent.

(* readable special cases of the closed form *)
Lemma expected_read_error_first : forall rest plan syn, expected (RdErr :: rest) plan syn = ERead.
Proof. reflexivity. Qed.
Lemma expected_empty : forall plan syn, expected [] plan syn = if syn then EParse else ENone.
Proof. intros. unfold expected. cbn. rewrite orb_false_r. reflexivity. Qed.

(* the executable prediction compared with the implementation computes the closed form *)
Definition budget_of (sc : list rd) (plan : list (nat * bool)) (fin nd : nat) : nat :=
  40 + 8 * (length sc + fold_left (fun a x => a + fst x) plan 0 + fin + nd).
Lemma predict_eq : forall sc plan fin syn nd,
  predict sc plan fin syn nd =
  let s := exec (init sc plan fin syn nd) (round_robin (budget_of sc plan fin nd)) in
  (result s, closes s, reads s, reads_after_fail s, final s).
Proof. reflexivity. Qed.

Theorem predict_closed_form : forall sc plan fin syn nd,
  exists raf, raf <= 1 /\
  predict sc plan fin syn nd = (Some (expected sc plan syn), 1, expected_reads sc plan, raf, true).
Proof.
  intros. pose proof (predict_final sc plan fin syn nd) as Hf. rewrite predict_eq in *.
  generalize dependent (round_robin (budget_of sc plan fin nd)). intros sched Hf. cbn zeta in *. cbn [snd] in Hf.
  destruct (C11_result sc plan fin syn nd sched Hf) as (A & B & C).
  exists (reads_after_fail (exec (init sc plan fin syn nd) sched)). split.
  - apply C11_stops_reading. exists sc, plan, fin, syn, nd, sched. reflexivity.
  - rewrite A, B, C, Hf. reflexivity.
Qed.
Print Assumptions predict_closed_form.
