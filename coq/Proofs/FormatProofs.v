(* FormatProofs.v: Dump writes exactly the documented layout (Spec/Format.v), and the
   independent decoder of Spec/Format.v recovers the program parts from it (C14). *)
From Coq Require Import Lia ZifyN ZifyNat ZifyBool.
From BCL Require Import Model.DumpLoad Proofs.EncodingProofs Proofs.BufioProofs
                        Proofs.DumpLoadProofs Spec.Format.
Open Scope N_scope.
Ltac Zify.zify_post_hook ::= Z.div_mod_to_equations.

Definition file_of (p : parts) : Format.file :=
  {| f_name := p_name p; f_code := p_code p; f_consts := p_consts p;
     f_pos := p_pos p; f_lfs := p_lfs p |}.
Definition parts_of (f : Format.file) : parts :=
  {| p_name := f_name f; p_code := f_code f; p_consts := f_consts f;
     p_pos := f_pos f; p_lfs := f_lfs f |}.

Lemma parts_of_file_of p : parts_of (file_of p) = p.
Proof. destruct p; reflexivity. Qed.
Lemma file_of_parts_of f : file_of (parts_of f) = f.
Proof. destruct f; reflexivity. Qed.

(* ================================================================== *)
(* 1. the two descriptions of the primitive encoders agree             *)
(* ================================================================== *)

Theorem bige_eq : forall k n, Format.bige k n = be k n.
Proof. induction k as [|k IH]; intros n; cbn [bige be]; [reflexivity|]. rewrite IH. reflexivity. Qed.
Print Assumptions bige_eq.

Theorem unbige_eq : forall l acc, Format.unbige l acc = fold_left (fun a b => a * 256 + b) l acc.
Proof. induction l as [|b l IH]; intros acc; cbn [unbige fold_left]; [reflexivity|apply IH]. Qed.
Print Assumptions unbige_eq.

Corollary unbige_from_be : forall l, Format.unbige l 0 = from_be l.
Proof. intros l. apply unbige_eq. Qed.
Print Assumptions unbige_from_be.

Lemma p24 : 2^24 = 16777216. Proof. reflexivity. Qed.
Lemma p32 : 2^32 = 4294967296. Proof. reflexivity. Qed.
Lemma p40 : 2^40 = 1099511627776. Proof. reflexivity. Qed.
Lemma p48 : 2^48 = 281474976710656. Proof. reflexivity. Qed.
Lemma p56 : 2^56 = 72057594037927936. Proof. reflexivity. Qed.

Lemma leb_ltb_succ x a b : b = a + 1 -> (x <=? a) = (x <? b).
Proof.
  intros ->. destruct (x <=? a) eqn:E1; destruct (x <? a + 1) eqn:E2; try reflexivity; lia.
Qed.

Theorem varint_eq : forall x, Format.varint x = uv_enc x.
Proof.
  intros x. unfold varint, uv_enc.
  rewrite p24, p32, p40, p48, p56.
  rewrite (leb_ltb_succ x 240 241) by reflexivity.
  rewrite (leb_ltb_succ x 2287 2288) by reflexivity.
  rewrite (leb_ltb_succ x 67823 67824) by reflexivity.
  rewrite (leb_ltb_succ x 16777215 16777216) by reflexivity.
  rewrite (leb_ltb_succ x 4294967295 4294967296) by reflexivity.
  rewrite (leb_ltb_succ x 1099511627775 1099511627776) by reflexivity.
  rewrite (leb_ltb_succ x 281474976710655 281474976710656) by reflexivity.
  rewrite (leb_ltb_succ x 72057594037927935 72057594037927936) by reflexivity.
  rewrite !bige_eq. reflexivity.
Qed.
Print Assumptions varint_eq.

Lemma flat_varint_eq : forall xs, flat_map Format.varint xs = flat_map uv_enc xs.
Proof. intros xs. apply flat_map_ext. exact varint_eq. Qed.

(* ================================================================== *)
(* 2. values                                                           *)
(* ================================================================== *)

Theorem enc_value_eq : forall v plen b, wf_value v -> value_enc plen v = Ok b ->
  b = Format.enc_value v.
Proof.
  intros v plen b Hwf He.
  destruct v as [| bo | z | bits | s | ty nm fs]; cbn [value_enc enc_value] in *.
  - inversion He; reflexivity.
  - inversion He; reflexivity.
  - inversion He. rewrite varint_eq. reflexivity.
  - inversion He. rewrite bige_eq. reflexivity.
  - destruct (plen <? _); [discriminate|]. inversion He. rewrite varint_eq. reflexivity.
  - discriminate.
Qed.
Print Assumptions enc_value_eq.

Lemma dump_consts_eq : forall vs plen cs, Forall wf_value vs -> dump_consts plen vs = Ok cs ->
  cs = flat_map Format.enc_value vs.
Proof.
  induction vs as [|v more IH]; intros plen cs Hwf Hd; cbn [dump_consts] in Hd.
  - inversion Hd; reflexivity.
  - inversion Hwf as [|? ? Hv Hm]; subst.
    set (plen' := match v with
                  | VStr s => if plen <? 1 + 9 + nlen s then 1 + 9 + nlen s else plen
                  | _ => plen end) in *.
    destruct (value_enc plen' v) as [b| |] eqn:Hb; try discriminate.
    cbn [obind] in Hd.
    destruct (dump_consts plen' more) as [r| |] eqn:Hr; try discriminate.
    cbn [obind] in Hd. inversion Hd; subst cs; clear Hd.
    cbn [flat_map].
    rewrite (enc_value_eq v plen' b Hv Hb), (IH plen' r Hm Hr). reflexivity.
Qed.

(* ================================================================== *)
(* 3. Dump writes the documented layout                                *)
(* ================================================================== *)

(* everything after the four header bytes, as the model writes it / as the format says *)
Definition model_tail (p : parts) (cs : bytes) : bytes :=
  uv_enc (nlen (p_name p)) ++ p_name p
  ++ uv_enc (nlen (p_code p)) ++ p_code p
  ++ uv_enc (nlen (p_consts p)) ++ cs
  ++ uv_enc (nlen (p_pos p)) ++ flat_map uv_enc (p_pos p)
  ++ uv_enc (nlen (p_lfs p)) ++ flat_map uv_enc (p_lfs p).

Definition enc_tail (f : Format.file) : bytes :=
  Format.varint (nlen (f_name f)) ++ f_name f
  ++ Format.varint (nlen (f_code f)) ++ f_code f
  ++ Format.varint (nlen (f_consts f)) ++ flat_map Format.enc_value (f_consts f)
  ++ Format.varint (nlen (f_pos f)) ++ flat_map Format.varint (f_pos f)
  ++ Format.varint (nlen (f_lfs f)) ++ flat_map Format.varint (f_lfs f).

Lemma encode_tail f : Format.encode f = 252 :: 108 :: 1 :: 1 :: enc_tail f.
Proof. reflexivity. Qed.

Lemma dump_shape p b : dump p = Ok b ->
  exists cs, dump_consts scratch0 (p_consts p) = Ok cs /\
             b = 252 :: 108 :: 1 :: 1 :: model_tail p cs.
Proof.
  intros Hd. unfold dump in Hd.
  destruct (dump_consts scratch0 (p_consts p)) as [cs| |] eqn:Hcs; try discriminate.
  cbn [obind] in Hd. inversion Hd; subst b; clear Hd.
  exists cs. split; reflexivity.
Qed.

Lemma model_tail_eq p cs : wf_parts p -> dump_consts scratch0 (p_consts p) = Ok cs ->
  model_tail p cs = enc_tail (file_of p).
Proof.
  intros (Hc & _) Hcs. unfold model_tail, enc_tail.
  cbn [file_of f_name f_code f_consts f_pos f_lfs].
  rewrite !varint_eq, !flat_varint_eq.
  rewrite (dump_consts_eq _ _ _ Hc Hcs). reflexivity.
Qed.

Theorem C14_layout : forall p b, wf_parts p -> dump p = Ok b -> b = Format.encode (file_of p).
Proof.
  intros p b Hwf Hd. destruct (dump_shape p b Hd) as (cs & Hcs & ->).
  rewrite encode_tail, (model_tail_eq p cs Hwf Hcs). reflexivity.
Qed.
Print Assumptions C14_layout.

(* ================================================================== *)
(* 4. the independent decoders invert the encoders                     *)
(* ================================================================== *)

Theorem splitn_app : forall {A} (a b : list A), Format.splitn (length a) (a ++ b) = Some (a, b).
Proof.
  intros A a b. induction a as [|x a IH]; cbn [length app splitn]; [reflexivity|].
  rewrite IH. reflexivity.
Qed.
Print Assumptions splitn_app.

Lemma splitn_take {A} : forall k (l : list A),
  Format.splitn k l = match take k l with Some a => Some (a, skipn k l) | None => None end.
Proof.
  induction k as [|k IH]; intros l; [reflexivity|].
  destruct l as [|x r]; [reflexivity|].
  cbn [splitn take skipn]. rewrite IH. destruct (take k r); reflexivity.
Qed.

(* unvarint agrees with the model's decoder wherever that one succeeds *)
Lemma unvarint_uv_dec : forall l x n, uv_dec l = Some (x, n) ->
  Format.unvarint l = Some (x, skipn n l).
Proof.
  intros l x n H. destruct l as [|b0 r]; [discriminate|].
  cbn [uv_dec unvarint] in *.
  destruct (b0 <=? 240); [inversion H; reflexivity|].
  destruct (b0 <=? 248).
  { destruct r as [|a1 r]; [discriminate|]. inversion H; reflexivity. }
  destruct (b0 =? 249).
  { destruct r as [|a1 [|a2 r]]; try discriminate. inversion H; reflexivity. }
  rewrite splitn_take.
  destruct (take (N.to_nat (b0 - 247)) r) as [t|]; [|discriminate].
  inversion H. rewrite unbige_from_be. reflexivity.
Qed.

Theorem unvarint_varint : forall x rest, x < 2^64 ->
  Format.unvarint (Format.varint x ++ rest) = Some (x, rest).
Proof.
  intros x rest Hx. rewrite varint_eq.
  rewrite (unvarint_uv_dec _ _ _ (uvarint_roundtrip x rest Hx)).
  rewrite skipn_app_exact. reflexivity.
Qed.
Print Assumptions unvarint_varint.

Lemma dec_value_0 r : Format.dec_value (0 :: r) = Some (VNil, r).
Proof. reflexivity. Qed.
Lemma dec_value_1 r : Format.dec_value (1 :: r) =
  match Format.unvarint r with
  | Some (u, r') => Some (VInt (u64_to_i64 u), r')
  | None => None end.
Proof. reflexivity. Qed.
Lemma dec_value_2 r : Format.dec_value (2 :: r) =
  match Format.splitn 8 r with
  | Some (b, r') => Some (VFloat (Format.unbige b 0), r') | None => None end.
Proof. reflexivity. Qed.
Lemma dec_value_3 r : Format.dec_value (3 :: r) =
  match Format.unvarint r with
  | Some (n, r') => match Format.splitn (N.to_nat n) r' with
                    | Some (s, r'') => Some (VStr s, r'') | None => None end
  | None => None end.
Proof. reflexivity. Qed.
Lemma dec_value_4 b r : Format.dec_value (4 :: b :: r) = Some (VBool (negb (b =? 0)), r).
Proof. reflexivity. Qed.

Theorem dec_value_enc : forall v rest, wf_value v ->
  Format.dec_value (Format.enc_value v ++ rest) = Some (v, rest).
Proof.
  intros v rest Hwf.
  destruct v as [| bo | z | bits | s | ty nm fs]; cbn [wf_value enc_value app] in *.
  - apply dec_value_0.
  - rewrite dec_value_4. destruct bo; reflexivity.
  - rewrite dec_value_1.
    change (Z.to_N (z mod 2 ^ 64)) with (i64_to_u64 z).
    rewrite unvarint_varint by apply i64_to_u64_lt.
    rewrite i64_u64_roundtrip by exact Hwf. reflexivity.
  - rewrite dec_value_2.
    replace 8%nat with (length (Format.bige 8 bits)) at 1
      by (rewrite bige_eq; apply be_length).
    rewrite splitn_app, unbige_from_be, bige_eq, from_be_be by exact Hwf. reflexivity.
  - rewrite dec_value_3. rewrite <- app_assoc.
    rewrite unvarint_varint by exact Hwf.
    replace (N.to_nat (nlen s)) with (length s) by (unfold nlen; lia).
    rewrite splitn_app. reflexivity.
  - contradiction.
Qed.
Print Assumptions dec_value_enc.

(* ================================================================== *)
(* 5. decode inverts encode                                            *)
(* ================================================================== *)

Lemma dec_many_flat {A} (enc : A -> bytes) (dec : bytes -> option (A * bytes)) (P : A -> Prop) :
  (forall x rest, P x -> dec (enc x ++ rest) = Some (x, rest)) ->
  forall xs rest, Forall P xs ->
    Format.dec_many dec (length xs) (flat_map enc xs ++ rest) = Some (xs, rest).
Proof.
  intros Hdec. induction xs as [|x more IH]; intros rest HP; [reflexivity|].
  inversion HP as [|? ? Hx Hm]; subst.
  cbn [length flat_map dec_many]. rewrite <- app_assoc.
  rewrite (Hdec x _ Hx), (IH rest Hm). reflexivity.
Qed.

Lemma dec_counted_enc {A} (enc : A -> bytes) (dec : bytes -> option (A * bytes)) (P : A -> Prop) :
  (forall x rest, P x -> dec (enc x ++ rest) = Some (x, rest)) ->
  forall xs rest, Forall P xs -> nlen xs < 2^64 ->
    Format.dec_counted dec (Format.varint (nlen xs) ++ flat_map enc xs ++ rest) = Some (xs, rest).
Proof.
  intros Hdec xs rest HP Hn. unfold dec_counted.
  rewrite unvarint_varint by exact Hn.
  replace (N.to_nat (nlen xs)) with (length xs) by (unfold nlen; lia).
  apply (dec_many_flat enc dec P Hdec); exact HP.
Qed.

Lemma dec_blob_enc s rest : nlen s < 2^64 ->
  Format.dec_blob (Format.varint (nlen s) ++ s ++ rest) = Some (s, rest).
Proof.
  intros Hn. unfold dec_blob. rewrite unvarint_varint by exact Hn.
  replace (N.to_nat (nlen s)) with (length s) by (unfold nlen; lia).
  apply splitn_app.
Qed.

(* everything after the four header bytes *)
Definition dec_tail (r0 : bytes) : option (Format.file * bytes) :=
  match Format.dec_blob r0 with
  | Some (name, r1) =>
    match Format.dec_blob r1 with
    | Some (code, r2) =>
      match Format.dec_counted Format.dec_value r2 with
      | Some (consts, r3) =>
        match Format.dec_counted Format.unvarint r3 with
        | Some (pos, r4) =>
          match Format.dec_counted Format.unvarint r4 with
          | Some (lfs, r5) => Some ({| f_name := name; f_code := code; f_consts := consts;
                                       f_pos := pos; f_lfs := lfs |}, r5)
          | None => None end
        | None => None end
      | None => None end
    | None => None end
  | None => None end.

Lemma decode_hdr mnr r0 :
  Format.decode (252 :: 108 :: 1 :: mnr :: r0) = if 1 <? mnr then None else dec_tail r0.
Proof. reflexivity. Qed.

Lemma dec_tail_enc f rest : wf_parts (parts_of f) ->
  dec_tail (enc_tail f ++ rest) = Some (f, rest).
Proof.
  intros (Hc & Hp & Hl & Hn1 & Hn2 & Hn3 & Hn4 & Hn5).
  cbn [parts_of p_name p_code p_consts p_pos p_lfs] in *.
  unfold enc_tail, dec_tail. repeat rewrite <- app_assoc.
  rewrite dec_blob_enc by exact Hn1.
  rewrite dec_blob_enc by exact Hn2.
  rewrite (dec_counted_enc Format.enc_value Format.dec_value wf_value dec_value_enc)
    by assumption.
  rewrite (dec_counted_enc Format.varint Format.unvarint (fun x => x < 2^64) unvarint_varint)
    by assumption.
  rewrite (dec_counted_enc Format.varint Format.unvarint (fun x => x < 2^64) unvarint_varint)
    by assumption.
  destruct f; reflexivity.
Qed.

Theorem C14_decode_encode : forall f rest, wf_parts (parts_of f) ->
  Format.decode (Format.encode f ++ rest) = Some (f, rest).
Proof.
  intros f rest Hwf. rewrite encode_tail. cbn [app]. rewrite decode_hdr.
  change (1 <? 1) with false. cbv iota. apply dec_tail_enc. exact Hwf.
Qed.
Print Assumptions C14_decode_encode.

(* ================================================================== *)
(* 6. the independent decoder reads what Dump wrote                    *)
(* ================================================================== *)

Theorem C14_decode_dump : forall p b, wf_parts p -> dump p = Ok b ->
  Format.decode b = Some (file_of p, []).
Proof.
  intros p b Hwf Hd. rewrite (C14_layout p b Hwf Hd).
  rewrite <- (app_nil_r (Format.encode (file_of p))).
  apply C14_decode_encode. rewrite parts_of_file_of. exact Hwf.
Qed.
Print Assumptions C14_decode_dump.

(* ================================================================== *)
(* 7. minor version 0 with the same layout still loads                 *)
(* ================================================================== *)

(* load_dump_roundtrip (DumpLoadProofs.v) from the name section on *)
Lemma load_tail_dump p cs extra : wf_parts p -> dump_consts scratch0 (p_consts p) = Ok cs ->
  load_tail' aops (model_tail p cs ++ extra) = Ok (p, extra).
Proof.
  intros (Hc & Hp & Hl & Hn1 & Hn2 & Hn3 & Hn4 & Hn5) Hcs.
  unfold model_tail, load_tail'. repeat rewrite <- app_assoc.
  erewrite bnd_ok by (apply sectf_ok, uvarint_enc_a; exact Hn1).
  erewrite bnd_ok by (apply rd_exact_enc).
  erewrite bnd_ok by (apply sectf_ok, uvarint_enc_a; exact Hn2).
  erewrite bnd_ok by (apply rd_exact_enc).
  erewrite bnd_ok by (apply sectf_ok, uvarint_enc_a; exact Hn3).
  erewrite bnd_ok.
  2:{ rewrite rd_list_a. apply (read_n_consts _ _ _ scratch0); auto.
      apply dump_consts_length in Hcs. rewrite app_length. lia. }
  erewrite bnd_ok by (apply sectf_ok, uvarint_enc_a; exact Hn4).
  erewrite bnd_ok.
  2:{ rewrite rd_list_a. apply read_n_uv; auto.
      pose proof (flat_uv_length (p_pos p)). rewrite app_length. lia. }
  erewrite bnd_ok by (apply sectf_ok, uvarint_enc_a; exact Hn5).
  erewrite bnd_ok.
  2:{ rewrite rd_list_a. apply read_n_uv; auto.
      pose proof (flat_uv_length (p_lfs p)). rewrite app_length. lia. }
  unfold ret. destruct p; reflexivity.
Qed.

(* the loader only compares the version bytes: any minor <= 1 *)
Lemma load_r_minor p cs mnr extra : wf_parts p -> dump_consts scratch0 (p_consts p) = Ok cs ->
  mnr <= 1 ->
  load_r aops (252 :: 108 :: 1 :: mnr :: model_tail p cs ++ extra) = Ok (p, extra).
Proof.
  intros Hwf Hcs Hm. rewrite load_r_eq. unfold load'.
  erewrite bnd_ok by (apply rd_exact_2).
  change (negb (bytes_eqb [252; 108] magic)) with false. cbv iota.
  erewrite bnd_ok by (rewrite rd_ver_a; reflexivity).
  cbn [fst snd]. unfold major, minor.
  change (negb (1 =? 1)) with false. cbv iota.
  destruct (1 <? mnr) eqn:E; [lia|].
  apply load_tail_dump; assumption.
Qed.

Theorem C14_minor_compat : forall p b, wf_parts p -> dump p = Ok b ->
  exists rest, b = 252 :: 108 :: 1 :: 1 :: rest /\
               load_bytes (252 :: 108 :: 1 :: 0 :: rest) = Ok p /\
               Format.decode (252 :: 108 :: 1 :: 0 :: rest) = Some (file_of p, []).
Proof.
  intros p b Hwf Hd. destruct (dump_shape p b Hd) as (cs & Hcs & ->).
  exists (model_tail p cs). split; [reflexivity|]. split.
  - unfold load_bytes, load.
    rewrite <- (app_nil_r (model_tail p cs)).
    rewrite (load_r_minor p cs 0 [] Hwf Hcs) by lia. reflexivity.
  - rewrite decode_hdr. change (1 <? 0) with false. cbv iota.
    rewrite (model_tail_eq p cs Hwf Hcs).
    rewrite <- (app_nil_r (enc_tail (file_of p))).
    apply dec_tail_enc. rewrite parts_of_file_of. exact Hwf.
Qed.
Print Assumptions C14_minor_compat.

(* ================================================================== *)
(* 8. jump operands: 16 bit big endian                                 *)
(* ================================================================== *)

Theorem C14_jump_operands : forall x rest, x < 65536 -> u16_dec (u16_enc x ++ rest) = Some x.
Proof.
  intros x rest Hx. unfold u16_enc. cbn [app u16_dec]. f_equal. lia.
Qed.
Print Assumptions C14_jump_operands.

Theorem C14_jump_operands_be : forall x, x < 65536 -> u16_enc x = [x / 256; x mod 256].
Proof.
  intros x Hx. unfold u16_enc. f_equal. apply N.mod_small. lia.
Qed.
Print Assumptions C14_jump_operands_be.
