(* VerifyProofs.v: soundness of the bytecode verifier Model/Verify.v against the VM Model/Vm.v (C10).

   verify p = true  ==>  there is a labelling L of instruction boundaries with (stack depth, block
   depth) that is closed under the control flow of the code, both outcomes of every conditional
   jump included (well_labelled, verify_labelling, C10_both_branches); every state of every run of
   the VM from init_vm sits on a labelled boundary with exactly the labelled depths (agrees,
   exec_sound, run_sound).  Hence:
     C10_check_sound       no read outside the operand stack / block stack / constant pool / code,
                           no failed type assertion, never the "non-empty stack" internal error;
                           a normal end has both stacks empty (any fuel, any trace hook)
     C10_terminates        no out-of-fuel within run_bound (indeed within |code| steps)
     C10_execute           both, for the run Api.execute performs
     C10_depth_unique      one static table, one entry per offset, obeyed by every reachable state
     C10_depth_unique_any  ANY well-labelling has at most one label per offset
     C10_blocks_balanced   the result list grows exactly at the 1 -> 0 transitions of the block depth
   and concrete accept / reject checks at the end.  Nothing is assumed; no definition was changed. *)
From RecordUpdate Require Import RecordSet.
From Coq Require Import Lia ZifyN ZifyNat ZifyBool.
From BCL Require Import Model.Api Model.Verify Proofs.OptionsProofs.
Import RecordSetNotations.
Open Scope N_scope.

(* ---------------------------------------------------------------------------------------- *)
(* small helpers                                                                             *)
(* ---------------------------------------------------------------------------------------- *)
Lemma skipn_skipn_l {A} (a b : nat) (l : list A) : skipn a (skipn b l) = skipn (b + a) l.
Proof.
  revert l. induction b as [|b IH]; intros l; [reflexivity|].
  destruct l as [|x l]; [rewrite !skipn_nil; reflexivity|]. cbn [skipn Nat.add]. apply IH.
Qed.

Lemma nlen_cons {A} (x : A) l : nlen (x :: l) = nlen l + 1.
Proof. unfold nlen. cbn [length]. lia. Qed.

Lemma nlen_nil {A} : nlen (@nil A) = 0.
Proof. reflexivity. Qed.

Lemma nlen_skipn {A} (k : nat) (l : list A) : nlen (skipn k l) = nlen l - N.of_nat k.
Proof. unfold nlen. rewrite skipn_length. lia. Qed.

Lemma length_set_nth {A} (l : list A) i v : length (set_nth l i v) = length l.
Proof.
  revert i. induction l as [|x l IH]; intros i; [destruct i; reflexivity|].
  destruct i; cbn [set_nth length]; [reflexivity|]. rewrite IH. reflexivity.
Qed.

Lemma nth_opt_some {A} (l : list A) i : (i < length l)%nat -> exists v, nth_opt l i = Some v.
Proof.
  revert i. induction l as [|x l IH]; intros i H; [cbn in H; lia|].
  destruct i; cbn [nth_opt]; [eexists; reflexivity|]. apply IH. cbn [length] in H. lia.
Qed.

Lemma nth_opt_skipn {A} (l : list A) i v : nth_opt l i = Some v -> exists r, skipn i l = v :: r.
Proof.
  revert i. induction l as [|x l IH]; intros i H; [destruct i; discriminate|].
  destruct i; cbn [nth_opt skipn] in *; [inversion H; eexists; reflexivity|]. apply IH. exact H.
Qed.

(* ---------------------------------------------------------------------------------------- *)
(* (a) labellings                                                                            *)
(* ---------------------------------------------------------------------------------------- *)
Definition labels := list (N * (N * N)).
Definition code_at (p : prog) (o : N) : bytes := skipn (N.to_nat o) (g_code p).

(* the local condition at a boundary o labelled (d, b) *)
Definition node_ok (p : prog) (L : labels) (o d b : N) : Prop :=
  match code_at p o with
  | [] => False
  | instr :: args =>
    if instr =? opRET then d = 0 /\ b = 0 /\ args = []
    else exists size next newp,
        vstep p o (instr :: args) d b = Some (size, next, newp) /\
        1 <= size /\
        (forall l, next = Some l -> In (o + size, l) L) /\
        (forall t l, newp = Some (t, l) -> In (t, l) L /\ o + size <= t)
  end.

Definition well_labelled (p : prog) (L : labels) : Prop :=
  In (0, (0, 0)) L /\ forall o d b, In (o, (d, b)) L -> node_ok p L o d b.

(* at most one label per offset *)
Definition functional (L : labels) : Prop :=
  forall o l1 l2, In (o, l1) L -> In (o, l2) L -> l1 = l2.

Lemma node_ok_mono p L L' o d b : incl L L' -> node_ok p L o d b -> node_ok p L' o d b.
Proof.
  intros Hi. unfold node_ok. destruct (code_at p o) as [|instr args]; [exact (fun H => H)|].
  destruct (instr =? opRET); [exact (fun H => H)|].
  intros (size & next & newp & Hv & Hs & Hn & Hp). exists size, next, newp.
  split; [exact Hv|]. split; [exact Hs|]. split.
  - intros l E. apply Hi, Hn, E.
  - intros t l E. destruct (Hp t l E) as [H1 H2]. split; [apply Hi, H1 | exact H2].
Qed.

Lemma code_at_step p o instr args k :
  code_at p o = instr :: args -> code_at p (o + 1 + N.of_nat k) = skipn k args.
Proof.
  unfold code_at. intros H.
  replace (N.to_nat (o + 1 + N.of_nat k)) with (N.to_nat o + S k)%nat by lia.
  rewrite <- skipn_skipn_l, H. reflexivity.
Qed.

Lemma code_at_skip p o size :
  skipn (N.to_nat size) (code_at p o) = code_at p (o + size).
Proof.
  unfold code_at. rewrite skipn_skipn_l. f_equal. lia.
Qed.

Lemma code_at_lt p o : code_at p o <> [] -> o < nlen (g_code p).
Proof.
  unfold code_at, nlen. intros H.
  destruct (Nat.le_gt_cases (length (g_code p)) (N.to_nat o)) as [Hle|Hgt]; [|lia].
  exfalso. apply H. apply skipn_all2. exact Hle.
Qed.

(* ---- vstep: size is positive ---- *)
Lemma vstep_size p o r d b size next newp :
  vstep p o r d b = Some (size, next, newp) -> 1 <= size.
Proof.
  intros H.
  assert (G : match vstep p o r d b with Some (s, _, _) => 1 <= s | None => True end).
  { unfold vstep. cascade; try exact I; lia. }
  rewrite H in G. exact G.
Qed.

(* ---- pend_at ---- *)
Lemma pend_at_spec o pd here pd1 :
  pend_at o pd = (here, pd1) ->
  forall t l, In (t, l) pd -> (t = o /\ In l here) \/ In (t, l) pd1.
Proof.
  revert here pd1. induction pd as [|[t0 l0] pd IH]; intros here pd1 H t l Hin; [destruct Hin|].
  cbn [pend_at] in H. destruct (pend_at o pd) as [h1 r1] eqn:E.
  specialize (IH h1 r1 eq_refl).
  destruct (t0 =? o) eqn:Et; inversion H; subst here pd1; clear H.
  - apply N.eqb_eq in Et. destruct Hin as [Hin|Hin].
    + inversion Hin; subst. left. split; [reflexivity | left; reflexivity].
    + destruct (IH t l Hin) as [[H1 H2]|H1]; [left; split; [exact H1 | right; exact H2] | right; exact H1].
  - destruct Hin as [Hin|Hin].
    + inversion Hin; subst. right. left. reflexivity.
    + destruct (IH t l Hin) as [[H1 H2]|H1]; [left; split; assumption | right; right; exact H1].
Qed.

Lemma lab_eqb_eq a c : lab_eqb a c = true -> a = c.
Proof.
  destruct a as [a1 a2], c as [c1 c2]. unfold lab_eqb. cbn [fst snd]. intros H.
  apply andb_prop in H. destruct H as [H1 H2]. apply N.eqb_eq in H1, H2. subst. reflexivity.
Qed.

Lemma forallb_lab l here : forallb (lab_eqb l) here = true -> forall l', In l' here -> l' = l.
Proof.
  intros H l' Hin. rewrite forallb_forall in H. symmetry. apply lab_eqb_eq, H, Hin.
Qed.

(* the label chosen by the walk agrees with the fall-through edge and with every jump edge *)
Lemma walk_label cur here lab :
  match cur, here with
  | Some l, _ => if forallb (lab_eqb l) here then Some l else None
  | None, l :: more => if forallb (lab_eqb l) more then Some l else None
  | None, [] => None
  end = Some lab ->
  (forall l, cur = Some l -> l = lab) /\ (forall l, In l here -> l = lab).
Proof.
  destruct cur as [l|].
  - destruct (forallb (lab_eqb l) here) eqn:F; [|discriminate]. intros H; inversion H; subst lab.
    split; [intros l' E; inversion E; reflexivity | apply forallb_lab; exact F].
  - destruct here as [|l more]; [discriminate|].
    destruct (forallb (lab_eqb l) more) eqn:F; [|discriminate]. intros H; inversion H; subst lab.
    split; [discriminate|]. intros l' [E|Hin]; [symmetry; exact E | apply (forallb_lab _ _ F), Hin].
Qed.

(* ---- the walk produces a labelling ---- *)
Lemma vwalk_labels : forall fuel p o r cur pd,
  vwalk fuel p o r cur pd = true -> r = code_at p o ->
  exists L : labels,
    (forall l, cur = Some l -> In (o, l) L) /\
    (forall t l, In (t, l) pd -> In (t, l) L) /\
    (forall o' d b, In (o', (d, b)) L -> node_ok p L o' d b) /\
    (forall e, In e L -> o <= fst e) /\
    NoDup (map fst L).
Proof.
  induction fuel as [|f IH]; intros p o r cur pd H Hr; [discriminate|].
  cbn [vwalk] in H. destruct (pend_at o pd) as [here pd1] eqn:Ep.
  pose proof (pend_at_spec _ _ _ _ Ep) as Hpd.
  match type of H with (match ?lab with _ => _ end) = true => destruct lab as [[d b]|] eqn:El end; [|discriminate].
  apply walk_label in El. destruct El as [Hcur Hhere].
  destruct r as [|instr args]; [discriminate|].
  destruct (instr =? opRET) eqn:Eret.
  - (* RET: the walk ends *)
    apply andb_prop in H. destruct H as [H H4]. apply andb_prop in H. destruct H as [H H3].
    apply andb_prop in H. destruct H as [H1 H2]. apply N.eqb_eq in H1, H2. subst d b.
    destruct args; [|discriminate]. destruct pd1; [|discriminate].
    exists [(o, (0, 0))]. split; [|split; [|split; [|split]]].
    + intros l E. rewrite (Hcur l E). left. reflexivity.
    + intros t l Hin. destruct (Hpd t l Hin) as [[H1 H2]|[]]. subst t. rewrite (Hhere l H2). left. reflexivity.
    + intros o' d b [E|[]]. inversion E; subst o' d b. unfold node_ok. rewrite <- Hr, Eret. repeat split.
    + intros e [E|[]]. subst e. cbn [fst]. lia.
    + cbn [map fst]. constructor; [intros []|constructor].
  - destruct (vstep p o (instr :: args) d b) as [[[size next] newp]|] eqn:Ev; [|discriminate].
    pose proof (vstep_size _ _ _ _ _ _ _ _ Ev) as Hsz.
    match type of H with (if forallb ?f ?pd2 then _ else _) = true => destruct (forallb f pd2) eqn:Ef; [|discriminate] end.
    apply IH in H; [|rewrite Hr; apply code_at_skip].
    destruct H as (L' & Hn' & Hp' & Hok' & Hge' & Hnd').
    exists ((o, (d, b)) :: L'). split; [|split; [|split; [|split]]].
    + intros l E. rewrite (Hcur l E). left. reflexivity.
    + intros t l Hin. destruct (Hpd t l Hin) as [[H1 H2]|H1].
      * subst t. rewrite (Hhere l H2). left. reflexivity.
      * right. apply Hp'. destruct newp; [right|]; exact H1.
    + intros o' d' b' [E|Hin].
      * inversion E; subst o' d' b'. unfold node_ok. rewrite <- Hr, Eret.
        exists size, next, newp. split; [exact Ev|]. split; [exact Hsz|]. split.
        -- intros l E'. right. apply Hn'. exact E'.
        -- intros t l E'. subst newp. split; [right; apply Hp'; left; reflexivity|].
           cbn [forallb fst] in Ef. apply andb_prop in Ef. destruct Ef as [Ef _]. apply N.leb_le in Ef. exact Ef.
      * apply node_ok_mono with (L := L'); [intros x Hx; right; exact Hx | apply Hok'; exact Hin].
    + intros e [E|Hin]; [subst e; cbn [fst]; lia|]. specialize (Hge' e Hin). lia.
    + cbn [map fst]. constructor; [|exact Hnd'].
      intros Hin. apply in_map_iff in Hin. destruct Hin as (e & E1 & E2). specialize (Hge' e E2). lia.
Qed.

Lemma nodup_functional (L : labels) : NoDup (map fst L) -> functional L.
Proof.
  induction L as [|[o0 l0] L IH]; intros Hnd o l1 l2 H1 H2; [destruct H1|].
  cbn [map fst] in Hnd. inversion Hnd as [|x xs Hnot Hnd']; subst.
  destruct H1 as [H1|H1], H2 as [H2|H2].
  - inversion H1; inversion H2; subst. reflexivity.
  - inversion H1; subst. exfalso. apply Hnot. apply in_map_iff. exists (o, l2). split; [reflexivity | exact H2].
  - inversion H2; subst. exfalso. apply Hnot. apply in_map_iff. exists (o, l1). split; [reflexivity | exact H1].
  - apply (IH Hnd' o l1 l2 H1 H2).
Qed.

Theorem verify_labelling : forall p,
  verify p = true -> exists L, well_labelled p L /\ functional L.
Proof.
  intros p H. unfold verify in H. apply andb_prop in H. destruct H as [_ H].
  apply vwalk_labels in H; [|reflexivity].
  destruct H as (L & Hc & _ & Hok & _ & Hnd).
  exists L. split; [split; [apply Hc; reflexivity | exact Hok] | apply nodup_functional, Hnd].
Qed.
Print Assumptions verify_labelling.

(* ---------------------------------------------------------------------------------------- *)
(* (b) the VM invariant                                                                      *)
(* ---------------------------------------------------------------------------------------- *)
Definition isblk (v : value) : Prop := match v with VBlock _ _ _ => True | _ => False end.

(* the cached depths are the real ones, and the block stack holds blocks only *)
Definition wf (m : vm) : Prop :=
  tos m = nlen (stack m) /\ btos m = nlen (bstack m) /\ Forall isblk (bstack m).

(* m sits on a labelled boundary, with exactly the labelled depths *)
Definition agrees (p : prog) (L : labels) (m : vm) : Prop :=
  rest m = code_at p (pc m) /\ In (pc m, (tos m, btos m)) L /\ wf m.

(* acceptable outcomes of one instruction: a next state satisfying Q, a run-time error, or the
   excluded input class (string repetition beyond 2^20 bytes); never a Go panic *)
Definition good (res : vm * vres) (Q : vm -> Prop) : Prop :=
  match res with
  | (m', VOk) => Q m'
  | (_, VErr _ _) => True
  | (_, VPanic PExcluded) => True
  | _ => False
  end.

Lemma good_impl res (Q Q' : vm -> Prop) : (forall m', Q m' -> Q' m') -> good res Q -> good res Q'.
Proof.
  intros HQ. destruct res as [m' r]. unfold good. destruct r as [| | |k]; try exact (fun H => H).
  - apply HQ.
Qed.

(* effect of a straight-line instruction on m (positioned after the opcode byte):
   k operand bytes consumed, new depths d' and b' *)
Definition eff (m : vm) (k : nat) (d' b' : N) (m' : vm) : Prop :=
  wf m' /\ pc m' = pc m + N.of_nat k /\ rest m' = skipn k (rest m) /\ tos m' = d' /\ btos m' = b'.

(* normalise every closed opcode test of the goal *)
Ltac closed_tests :=
  repeat match goal with
  | |- context [N.eqb ?a ?b] =>
    let v := eval vm_compute in (N.eqb a b) in
    match v with
    | true => change (N.eqb a b) with true
    | false => change (N.eqb a b) with false
    end
  end; cbn [orb andb].

Ltac open_op :=
  unfold exec_op;
  match goal with |- context [tos ?m =? stackSize] => destruct (tos m =? stackSize) end;
  closed_tests.

Ltac unw W W1 W2 W3 := destruct W as (W1 & W2 & W3).

Ltac eff_tac :=
  unfold eff, wf, push; vmsimp;
  repeat match goal with
         | E : stack ?m = _ |- context [stack ?m] => rewrite E
         end;
  unfold nlen in *; cbn [length] in *;
  repeat match goal with |- _ /\ _ => split end; try assumption; try reflexivity; try lia.

Ltac done_good := unfold good, rt_err, vpanic; cbv beta iota; try exact I.

Lemma stack2 m : wf m -> 2 <= tos m -> exists vb va r, stack m = vb :: va :: r.
Proof.
  intros (W1 & _) H. destruct (stack m) as [|vb [|va r]]; unfold nlen in W1; cbn [length] in W1; try lia.
  eexists _, _, _. reflexivity.
Qed.
Lemma stack1 m : wf m -> 1 <= tos m -> exists va r, stack m = va :: r.
Proof.
  intros (W1 & _) H. destruct (stack m) as [|va r]; unfold nlen in W1; cbn [length] in W1; try lia.
  eexists _, _. reflexivity.
Qed.
Lemma bstack1 m : wf m -> 1 <= btos m -> exists t n fs up, bstack m = VBlock t n fs :: up.
Proof.
  intros (_ & W2 & W3) H. destruct (bstack m) as [|v up]; unfold nlen in W2; cbn [length] in W2; try lia.
  inversion W3 as [|x xs Hx _]; subst. destruct v; try destruct Hx. eexists _, _, _, _. reflexivity.
Qed.

(* ---- straight-line instructions ---- *)
Lemma exec_pushc p m instr :
  In instr [opZERO; opONE; opTRUE; opFALSE; opNIL] -> wf m ->
  good (exec_op p instr m) (eff m 0 (tos m + 1) (btos m)).
Proof.
  intros Hin W. unw W W1 W2 W3. cbn [In] in Hin.
  repeat (destruct Hin as [Hin|Hin]; [subst instr; open_op; done_good; eff_tac|]). try destruct Hin.
Qed.

Lemma exec_nop p m : wf m -> good (exec_op p opNOP m) (eff m 0 (tos m) (btos m)).
Proof. intros W. unw W W1 W2 W3. open_op; done_good; eff_tac. Qed.

Lemma exec_const p m i n :
  uv_dec (rest m) = Some (i, n) -> const_ok p i = true -> wf m ->
  good (exec_op p opCONST m) (eff m n (tos m + 1) (btos m)).
Proof.
  intros U C W. unw W W1 W2 W3. unfold const_ok in C.
  open_op; done_good. unfold read_uvarint. rewrite U.
  destruct (get_const p i) as [v|]; [|discriminate]. eff_tac.
Qed.

Lemma exec_binop p m instr :
  In instr [opEQ; opLT; opGT; opADD; opSUB; opMUL; opDIV] -> wf m -> 2 <= tos m ->
  good (exec_op p instr m) (eff m 0 (tos m - 1) (btos m)).
Proof.
  intros Hin W H2. destruct (stack2 m W H2) as (vb & va & r & Es). unw W W1 W2 W3. rewrite Es in W1.
  cbn [In] in Hin.
  repeat (destruct Hin as [Hin|Hin];
          [subst instr; open_op; rewrite Es; cascade; done_good; eff_tac|]).
  try destruct Hin.
Qed.

Lemma exec_unary p m instr :
  In instr [opNEG; opUNPLUS; opNOT] -> wf m -> 1 <= tos m ->
  good (exec_op p instr m) (eff m 0 (tos m) (btos m)).
Proof.
  intros Hin W H1. destruct (stack1 m W H1) as (va & r & Es). unw W W1 W2 W3. rewrite Es in W1.
  cbn [In] in Hin.
  repeat (destruct Hin as [Hin|Hin];
          [subst instr; open_op; rewrite Es; cascade; done_good; eff_tac|]).
  try destruct Hin.
Qed.

Lemma exec_pop p m instr :
  In instr [opPOP; opPRINT] -> wf m -> 1 <= tos m ->
  good (exec_op p instr m) (eff m 0 (tos m - 1) (btos m)).
Proof.
  intros Hin W H1. destruct (stack1 m W H1) as (va & r & Es). unw W W1 W2 W3. rewrite Es in W1.
  cbn [In] in Hin.
  repeat (destruct Hin as [Hin|Hin];
          [subst instr; open_op; rewrite Es; cascade; done_good; eff_tac|]).
  try destruct Hin.
Qed.

Lemma exec_popn p m k n :
  uv_dec (rest m) = Some (k, n) -> wf m -> k <= tos m ->
  good (exec_op p opPOPN m) (eff m n (tos m - k) (btos m)).
Proof.
  intros U W Hk. unw W W1 W2 W3. open_op; unfold read_uvarint; rewrite U; vmsimp.
  all: destruct (tos m <? k) eqn:Elt; [lia|]; done_good; eff_tac; rewrite skipn_length; lia.
Qed.

Lemma exec_getlocal p m s n :
  uv_dec (rest m) = Some (s, n) -> wf m -> s < tos m ->
  good (exec_op p opGETLOCAL m) (eff m n (tos m + 1) (btos m)).
Proof.
  intros U W Hs. unw W W1 W2 W3. open_op; done_good; unfold read_uvarint; rewrite U; vmsimp.
  destruct (s <? tos m) eqn:Elt; [|lia].
  destruct (nth_opt_some (stack m) (N.to_nat (tos m - 1 - s))) as [v Ev]; [unfold nlen in W1; lia|].
  rewrite Ev. eff_tac.
Qed.

Lemma exec_setlocal p m s n :
  uv_dec (rest m) = Some (s, n) -> wf m -> s < tos m -> 1 <= tos m ->
  good (exec_op p opSETLOCAL m) (eff m n (tos m) (btos m)).
Proof.
  intros U W Hs H1. destruct (stack1 m W H1) as (va & r & Es). unw W W1 W2 W3.
  open_op; unfold read_uvarint; rewrite U; vmsimp; rewrite Es; done_good.
  all: destruct (s <? tos m) eqn:Elt; [|lia].
  all: unfold eff, wf; vmsimp; unfold nlen; rewrite length_set_nth; rewrite <- Es;
    repeat match goal with |- _ /\ _ => split end; try assumption; try reflexivity; try lia.
Qed.

Lemma const_str p i : const_is_str p i = true -> exists s, get_const p i = Some (VStr s).
Proof.
  unfold const_is_str. destruct (get_const p i) as [[| | | |s|]|]; try discriminate. intros _. exists s. reflexivity.
Qed.

Lemma exec_getfield p m i n :
  uv_dec (rest m) = Some (i, n) -> const_is_str p i = true -> wf m -> 1 <= btos m ->
  good (exec_op p opGETFIELD m) (eff m n (tos m + 1) (btos m)).
Proof.
  intros U C W H1. destruct (bstack1 m W H1) as (t & nm & fs & up & Eb).
  destruct (const_str p i C) as [name Ec]. unw W W1 W2 W3.
  open_op; done_good; unfold read_uvarint; rewrite U; vmsimp; rewrite Ec, Eb.
  cascade; done_good; eff_tac.
Qed.

Lemma exec_setfield p m i n :
  uv_dec (rest m) = Some (i, n) -> const_is_str p i = true -> wf m -> 1 <= btos m -> 1 <= tos m ->
  good (exec_op p opSETFIELD m) (eff m n (tos m) (btos m)).
Proof.
  intros U C W Hb H1. destruct (bstack1 m W Hb) as (t & nm & fs & up & Eb).
  destruct (stack1 m W H1) as (va & r & Es).
  destruct (const_str p i C) as [name Ec]. unw W W1 W2 W3.
  rewrite Eb in W2, W3. inversion W3 as [|x xs Hx Hup]; subst.
  open_op; unfold read_uvarint; rewrite U; vmsimp; rewrite Ec, Eb, Es; done_good.
  all: unfold eff, wf; vmsimp; unfold nlen in *; cbn [length] in *;
    repeat match goal with |- _ /\ _ => split end; try assumption; try reflexivity; try lia.
  all: constructor; [exact I | exact Hup].
Qed.

Lemma exec_defblock p m ti ni n1 n2 :
  uv_dec (rest m) = Some (ti, n1) -> uv_dec (skipn n1 (rest m)) = Some (ni, n2) ->
  const_is_str p ti = true -> const_is_str p ni = true -> wf m ->
  good (exec_op p opDEFBLOCK m) (eff m (n1 + n2) (tos m) (btos m + 1)).
Proof.
  intros U1 U2 C1 C2 W. destruct (const_str p ti C1) as [t Et]. destruct (const_str p ni C2) as [nm En].
  unw W W1 W2 W3.
  open_op; unfold read_uvarint; rewrite U1; vmsimp; rewrite U2; vmsimp; rewrite Et, En.
  all: destruct (btos m =? blockStackSize); done_good.
  all: unfold eff, wf; vmsimp; unfold nlen in *; cbn [length] in *; rewrite skipn_skipn_l;
    repeat match goal with |- _ /\ _ => split end; try assumption; try reflexivity; try lia.
  all: constructor; [exact I | exact W3].
Qed.

Lemma exec_endblock p m :
  wf m -> 1 <= btos m -> good (exec_op p opENDBLOCK m) (eff m 0 (tos m) (btos m - 1)).
Proof.
  intros W Hb. destruct (bstack1 m W Hb) as (t & nm & fs & up & Eb). unw W W1 W2 W3.
  rewrite Eb in W2, W3. inversion W3 as [|x xs Hx Hup]; subst.
  open_op; rewrite Eb.
  all: destruct up as [|v up'];
    [|inversion Hup as [|y ys Hy Hup']; subst; destruct v as [| | | | |pt pn pfs]; try (exfalso; exact Hy);
      destruct (fields_get (block_key t nm) pfs)].
  all: done_good.
  all: unfold eff, wf; vmsimp; unfold nlen in *; cbn [length] in *;
    repeat match goal with |- _ /\ _ => split end; try assumption; try reflexivity; try lia.
  all: constructor; try exact I; try assumption.
Qed.

Lemma exec_bind p m i n x :
  uv_dec (rest m) = Some (i, n) -> nth_opt (rest m) n = Some x -> const_is_str p i = true -> wf m ->
  good (exec_op p opBIND m) (eff m (n + 1) (tos m) (btos m)).
Proof.
  intros U Hx C W. destruct (const_str p i C) as [ty Ec]. destruct (nth_opt_skipn _ _ _ Hx) as [r' Er].
  unw W W1 W2 W3.
  assert (Hsk : skipn (n + 1) (rest m) = r').
  { rewrite <- skipn_skipn_l, Er. reflexivity. }
  open_op; unfold read_uvarint, read_byte.
  all: destruct (bind_ m); vmsimp; rewrite U; vmsimp; rewrite Ec, Er.
  all: cascade; done_good; unfold eff, wf; vmsimp; rewrite Hsk;
    repeat match goal with |- _ /\ _ => split end; try assumption; try reflexivity; try lia.
Qed.

(* ---- jumps ---- *)
Lemma exec_jump p m b0 b1 r :
  rest m = b0 :: b1 :: r -> wf m ->
  good (exec_op p opJUMP m)
       (fun m' => wf m' /\ tos m' = tos m /\ btos m' = btos m /\
                  pc m' = pc m + 2 + (b0 * 256 + b1) /\ rest m' = code_at p (pc m')).
Proof.
  intros Er W. unw W W1 W2 W3. open_op; unfold read_u16, jump_to; rewrite Er; vmsimp; done_good.
  all: unfold wf, code_at; vmsimp; repeat match goal with |- _ /\ _ => split end; try assumption; reflexivity.
Qed.

Lemma exec_jfalse p m b0 b1 r :
  rest m = b0 :: b1 :: r -> wf m -> 1 <= tos m ->
  good (exec_op p opJFALSE m)
       (fun m' => wf m' /\ tos m' = tos m /\ btos m' = btos m /\
                  ((pc m' = pc m + 2 /\ rest m' = r) \/
                   (pc m' = pc m + 2 + (b0 * 256 + b1) /\ rest m' = code_at p (pc m')))).
Proof.
  intros Er W H1. destruct (stack1 m W H1) as (va & r' & Es). unw W W1 W2 W3.
  open_op; unfold read_u16, jump_to; rewrite Er; vmsimp; rewrite Es; destruct (is_falsey va); done_good.
  all: unfold wf, code_at; vmsimp; repeat match goal with |- _ /\ _ => split end; try assumption; try reflexivity.
  all: try (right; split; reflexivity). all: try (left; split; reflexivity).
Qed.

(* ---------------------------------------------------------------------------------------- *)
(* one instruction of accepted code, from a labelled boundary                                *)
(* ---------------------------------------------------------------------------------------- *)
Lemma eff_agrees p L o instr args m k d' b' size m' :
  code_at p o = instr :: args -> pc m = o + 1 -> rest m = args ->
  eff m k d' b' m' -> In (o + size, (d', b')) L -> size = 1 + N.of_nat k ->
  agrees p L m' /\ o < pc m'.
Proof.
  intros Hc Hpc Hr (W & E1 & E2 & E3 & E4) Hin Hs.
  assert (Ep : pc m' = o + size) by lia.
  split; [|lia]. unfold agrees. split; [|split; [|exact W]].
  - rewrite E2, Hr, Ep, Hs, N.add_assoc. symmetry. apply (code_at_step _ _ _ _ _ Hc).
  - rewrite Ep, E3, E4. exact Hin.
Qed.

Lemma some3_inj {A B C} (a a' : A) (b b' : B) (c c' : C) :
  Some (a, b, c) = Some (a', b', c') -> a = a' /\ b = b' /\ c = c'.
Proof. intros H. inversion H. repeat split. Qed.

Ltac next_test H E := match type of H with (if ?c then _ else _) = _ => destruct c eqn:E end.
Ltac split_or E := repeat (apply orb_prop in E; destruct E as [E|E]); apply N.eqb_eq in E.
Ltac inv_some H :=
  repeat match type of H with
         | (if ?c then _ else _) = Some _ => let C := fresh "C" in destruct c eqn:C; [|discriminate H]
         | match ?x with _ => _ end = Some _ =>
           let U := fresh "U" in first [destruct x as [[? ?]|] eqn:U | destruct x as [?|] eqn:U]; [|discriminate H]
         end;
  apply some3_inj in H; destruct H as (? & ? & ?).
Ltac conds :=
  repeat match goal with
         | C : (_ && _) = true |- _ => apply andb_prop in C; destruct C as [? ?]
         | C : (_ <=? _) = true |- _ => apply N.leb_le in C
         | C : (_ <? _) = true |- _ => apply N.ltb_lt in C
         end.

Lemma exec_sound p L o d b instr args m :
  node_ok p L o d b -> code_at p o = instr :: args -> (instr =? opRET) = false ->
  wf m -> pc m = o + 1 -> rest m = args -> tos m = d -> btos m = b ->
  good (exec_op p instr m) (fun m' => agrees p L m' /\ o < pc m').
Proof.
  intros Hn Hc Eret W Hpc Hr Ht Hb. unfold node_ok in Hn. rewrite Hc, Eret in Hn.
  destruct Hn as (size & next & newp & Hv & Hsz & Hnx & Hnp). subst d b.
  unfold vstep in Hv. cbv zeta in Hv. rewrite <- Hr in Hv.
  (* ZERO ONE TRUE FALSE NIL *)
  next_test Hv E.
  { split_or E; subst instr; inv_some Hv; subst size next newp.
    all: (eapply good_impl; [|apply exec_pushc; [cbn [In]; auto 10 | exact W]]).
    all: intros m' He; eapply eff_agrees; [exact Hc|exact Hpc|exact Hr|exact He|apply Hnx; reflexivity|lia]. }
  clear E. (* CONST *)
  next_test Hv E.
  { apply N.eqb_eq in E; subst instr; inv_some Hv; subst size next newp.
    eapply good_impl; [|eapply exec_const; eauto].
    intros m' He; eapply eff_agrees; [exact Hc|exact Hpc|exact Hr|exact He|apply Hnx; reflexivity|lia]. }
  clear E. (* EQ LT GT ADD SUB MUL DIV *)
  next_test Hv E.
  { split_or E; subst instr; inv_some Hv; subst size next newp; conds.
    all: (eapply good_impl; [|apply exec_binop; [cbn [In]; auto 10 | exact W | assumption]]).
    all: intros m' He; eapply eff_agrees; [exact Hc|exact Hpc|exact Hr|exact He|apply Hnx; reflexivity|lia]. }
  clear E. (* NEG UNPLUS NOT *)
  next_test Hv E.
  { split_or E; subst instr; inv_some Hv; subst size next newp; conds.
    all: (eapply good_impl; [|apply exec_unary; [cbn [In]; auto 10 | exact W | assumption]]).
    all: intros m' He; eapply eff_agrees; [exact Hc|exact Hpc|exact Hr|exact He|apply Hnx; reflexivity|lia]. }
  clear E. (* POP PRINT *)
  next_test Hv E.
  { split_or E; subst instr; inv_some Hv; subst size next newp; conds.
    all: (eapply good_impl; [|apply exec_pop; [cbn [In]; auto 10 | exact W | assumption]]).
    all: intros m' He; eapply eff_agrees; [exact Hc|exact Hpc|exact Hr|exact He|apply Hnx; reflexivity|lia]. }
  clear E. (* POPN *)
  next_test Hv E.
  { apply N.eqb_eq in E; subst instr; inv_some Hv; subst size next newp; conds.
    eapply good_impl; [|eapply exec_popn; eauto].
    intros m' He; eapply eff_agrees; [exact Hc|exact Hpc|exact Hr|exact He|apply Hnx; reflexivity|lia]. }
  clear E. (* GETLOCAL *)
  next_test Hv E.
  { apply N.eqb_eq in E; subst instr; inv_some Hv; subst size next newp; conds.
    eapply good_impl; [|eapply exec_getlocal; eauto].
    intros m' He; eapply eff_agrees; [exact Hc|exact Hpc|exact Hr|exact He|apply Hnx; reflexivity|lia]. }
  clear E. (* SETLOCAL *)
  next_test Hv E.
  { apply N.eqb_eq in E; subst instr; inv_some Hv; subst size next newp; conds.
    eapply good_impl; [|eapply exec_setlocal; eauto].
    intros m' He; eapply eff_agrees; [exact Hc|exact Hpc|exact Hr|exact He|apply Hnx; reflexivity|lia]. }
  clear E. (* GETFIELD *)
  next_test Hv E.
  { apply N.eqb_eq in E; subst instr; inv_some Hv; subst size next newp; conds.
    eapply good_impl; [|eapply exec_getfield; eauto].
    intros m' He; eapply eff_agrees; [exact Hc|exact Hpc|exact Hr|exact He|apply Hnx; reflexivity|lia]. }
  clear E. (* SETFIELD *)
  next_test Hv E.
  { apply N.eqb_eq in E; subst instr; inv_some Hv; subst size next newp; conds.
    eapply good_impl; [|eapply exec_setfield; eauto].
    intros m' He; eapply eff_agrees; [exact Hc|exact Hpc|exact Hr|exact He|apply Hnx; reflexivity|lia]. }
  clear E. (* DEFBLOCK *)
  next_test Hv E.
  { apply N.eqb_eq in E; subst instr; inv_some Hv; subst size next newp; conds.
    eapply good_impl; [|eapply exec_defblock; eauto].
    intros m' He; eapply eff_agrees; [exact Hc|exact Hpc|exact Hr|exact He|apply Hnx; reflexivity|lia]. }
  clear E. (* ENDBLOCK *)
  next_test Hv E.
  { apply N.eqb_eq in E; subst instr; inv_some Hv; subst size next newp; conds.
    eapply good_impl; [|eapply exec_endblock; eauto].
    intros m' He; eapply eff_agrees; [exact Hc|exact Hpc|exact Hr|exact He|apply Hnx; reflexivity|lia]. }
  clear E. (* BIND *)
  next_test Hv E.
  { apply N.eqb_eq in E; subst instr; inv_some Hv; subst size next newp; conds.
    eapply good_impl; [|eapply exec_bind; eauto].
    intros m' He; eapply eff_agrees; [exact Hc|exact Hpc|exact Hr|exact He|apply Hnx; reflexivity|lia]. }
  clear E. (* JFALSE *)
  next_test Hv E.
  { apply N.eqb_eq in E; subst instr.
    destruct (rest m) as [|b0 [|b1 r]] eqn:Er; try discriminate Hv.
    inv_some Hv; subst size next newp; conds. subst args.
    eapply good_impl; [|eapply exec_jfalse; eauto].
    intros m' (W' & T' & B' & [[P' R']|[P' R']]).
    - split; [|lia]. unfold agrees. split; [|split; [|exact W']].
      + rewrite R', P', Hpc. replace (o + 1 + 2) with (o + 1 + N.of_nat 2) by lia.
        rewrite (code_at_step _ _ _ _ 2 Hc). reflexivity.
      + rewrite P', T', B'. replace (pc m + 2) with (o + 3) by lia. apply Hnx. reflexivity.
    - destruct (Hnp _ _ eq_refl) as [Hin Hle]. split; [|lia].
      unfold agrees. split; [exact R'|split; [|exact W']]. rewrite P', T', B'.
      replace (pc m + 2 + (b0 * 256 + b1)) with (o + 3 + (b0 * 256 + b1)) by lia. exact Hin. }
  clear E. (* JUMP *)
  next_test Hv E.
  { apply N.eqb_eq in E; subst instr.
    destruct (rest m) as [|b0 [|b1 r]] eqn:Er; try discriminate Hv.
    inv_some Hv; subst size next newp. subst args.
    eapply good_impl; [|eapply exec_jump; eauto].
    intros m' (W' & T' & B' & P' & R').
    destruct (Hnp _ _ eq_refl) as [Hin Hle]. split; [|lia].
    unfold agrees. split; [exact R'|split; [|exact W']]. rewrite P', T', B'.
    replace (pc m + 2 + (b0 * 256 + b1)) with (o + 3 + (b0 * 256 + b1)) by lia. exact Hin. }
  clear E. (* NOP *)
  next_test Hv E; [|discriminate Hv].
  apply N.eqb_eq in E; subst instr; inv_some Hv; subst size next newp.
  eapply good_impl; [|eapply exec_nop; eauto].
  intros m' He; eapply eff_agrees; [exact Hc|exact Hpc|exact Hr|exact He|apply Hnx; reflexivity|lia].
Qed.

(* ---------------------------------------------------------------------------------------- *)
(* (c) runs                                                                                  *)
(* ---------------------------------------------------------------------------------------- *)
Lemma agrees_init p L : well_labelled p L -> agrees p L (init_vm p).
Proof.
  intros [H0 _]. unfold agrees, init_vm, wf, code_at; vmsimp. cbn [N.to_nat skipn].
  split; [reflexivity|]. split; [exact H0|]. repeat split. constructor.
Qed.

Lemma agrees_node p L m : well_labelled p L -> agrees p L m -> node_ok p L (pc m) (tos m) (btos m).
Proof. intros [_ H] (_ & Hin & _). apply H, Hin. Qed.

Lemma agrees_pc_lt p L m : well_labelled p L -> agrees p L m -> pc m < nlen (g_code p).
Proof.
  intros HL Ha. pose proof (agrees_node _ _ _ HL Ha) as Hn. unfold node_ok in Hn.
  apply code_at_lt. intros E. rewrite E in Hn. exact Hn.
Qed.

(* what a run may end in *)
Definition final_ok (res : vm * vres) : Prop :=
  match res with
  | (m, VOk) => tos m = 0 /\ btos m = 0 /\ stack m = [] /\ bstack m = [] /\ rest m = []
  | (_, VErr _ _) => True
  | (_, VPanic POutOfFuel) => True
  | (_, VPanic PExcluded) => True
  | (_, VPanic _) => False
  | (_, VInternal _) => False
  end.

(* one iteration of run_fuel from an agreeing state *)
Lemma iter_sound p L tr m instr r :
  well_labelled p L -> agrees p L m -> rest m = instr :: r -> (instr =? opRET) = false ->
  good (exec_op p instr (advance r (setout (tr m ++ vout m) m)))
       (fun m' => agrees p L m' /\ pc m < pc m').
Proof.
  intros HL Ha Er Eret. pose proof (agrees_node _ _ _ HL Ha) as Hn.
  destruct Ha as (Hrest & Hin & W).
  eapply exec_sound with (args := r); [exact Hn | rewrite <- Hrest; exact Er | exact Eret | | | | |];
    unfold advance, setout, wf in *; vmsimp; try reflexivity. exact W.
Qed.

Lemma nil_length_nlen {A} (l : list A) : nlen l = 0 -> l = [].
Proof. destruct l; [reflexivity|]. unfold nlen. cbn [length]. lia. Qed.

Lemma run_sound p L tr : well_labelled p L -> forall fuel m, agrees p L m ->
  final_ok (run_fuel fuel p tr m) /\
  ((N.to_nat (nlen (g_code p) - pc m) <= fuel)%nat -> snd (run_fuel fuel p tr m) <> VPanic POutOfFuel).
Proof.
  intros HL. induction fuel as [|f IH]; intros m Ha.
  - cbn [run_fuel final_ok snd]. split; [exact I|]. pose proof (agrees_pc_lt _ _ _ HL Ha). lia.
  - pose proof (agrees_pc_lt _ _ _ HL Ha) as Hlt.
    pose proof (agrees_node _ _ _ HL Ha) as Hn.
    rewrite run_fuel_S. cbv zeta. rewrite rest_setout.
    unfold node_ok in Hn. pose proof Ha as (Hrest & Hin & W). rewrite <- Hrest in Hn. clear Hrest.
    destruct (rest m) as [|instr r] eqn:Er; [destruct Hn|].
    destruct (instr =? opRET) eqn:Eret.
    + destruct Hn as (Hd & Hb & Hargs). rewrite tos_advance, tos_setout, Hd. cbn [N.eqb final_ok snd].
      split; [|discriminate]. destruct W as (W1 & W2 & W3).
      unfold advance, setout; vmsimp.
      repeat split; try assumption.
      * apply nil_length_nlen. rewrite <- W1. exact Hd.
      * apply nil_length_nlen. rewrite <- W2. exact Hb.
    + pose proof (iter_sound p L tr m instr r HL Ha Er Eret) as G.
      destruct (exec_op p instr (advance r (setout (tr m ++ vout m) m))) as [m2 r2].
      unfold good in G. destruct r2 as [| | |k].
      * destruct G as [Ha2 Hpc2]. destruct (IH m2 Ha2) as [I1 I2]. split; [exact I1|].
        intros Hf. apply I2. lia.
      * cbn [final_ok snd]. split; [exact I | discriminate].
      * destruct G.
      * destruct k; try destruct G. cbn [final_ok snd]. split; [exact I | discriminate].
Qed.

(* ---- main theorems ---- *)

(* every run of accepted code, with any trace hook and any fuel: no read outside the operand stack,
   the block stack, the constant pool or the code, no failed type assertion, never the "non-empty
   stack" internal error; a normal end has both stacks empty *)
Theorem C10_check_sound : forall p fuel tr, verify p = true ->
  let (m, r) := run_fuel fuel p tr (init_vm p) in
  match r with
  | VOk => tos m = 0 /\ btos m = 0 /\ stack m = [] /\ bstack m = [] /\ rest m = []
  | VErr _ _ => True
  | VPanic POutOfFuel => True
  | VPanic PExcluded => True
  | VPanic _ => False
  | VInternal _ => False
  end.
Proof.
  intros p fuel tr Hv. destruct (verify_labelling p Hv) as (L & HL & _).
  destruct (run_sound p L tr HL fuel (init_vm p) (agrees_init p L HL)) as [H _].
  exact H.
Qed.
Print Assumptions C10_check_sound.

(* the statement with the (vacuous) hook hypothesis spelled out *)
Corollary C10_check_sound_hook : forall p fuel tr, verify p = true ->
  (forall m, Forall (fun e => True) (tr m)) ->
  let (m, r) := run_fuel fuel p tr (init_vm p) in
  match r with
  | VOk => tos m = 0 /\ btos m = 0
  | VErr _ _ => True
  | VPanic POutOfFuel => True
  | VPanic PExcluded => True
  | VPanic _ => False
  | VInternal _ => False
  end.
Proof.
  intros p fuel tr Hv _. pose proof (C10_check_sound p fuel tr Hv) as H.
  destruct (run_fuel fuel p tr (init_vm p)) as [m r]. destruct r as [| | |k]; try exact H.
  destruct H as (H1 & H2 & _). split; assumption.
Qed.

(* accepted code terminates within the bound used by Api.execute (indeed within |code| steps) *)
Theorem C10_terminates_len : forall p fuel tr, verify p = true ->
  (length (g_code p) <= fuel)%nat ->
  snd (run_fuel fuel p tr (init_vm p)) <> VPanic POutOfFuel.
Proof.
  intros p fuel tr Hv Hf. destruct (verify_labelling p Hv) as (L & HL & _).
  destruct (run_sound p L tr HL fuel (init_vm p) (agrees_init p L HL)) as [_ H].
  apply H. unfold init_vm, nlen; vmsimp. lia.
Qed.

Theorem C10_terminates : forall p fuel tr, verify p = true ->
  (run_bound p <= fuel)%nat ->
  snd (run_fuel fuel p tr (init_vm p)) <> VPanic POutOfFuel.
Proof.
  intros p fuel tr Hv Hf. apply C10_terminates_len; [exact Hv|]. unfold run_bound in Hf. lia.
Qed.
Print Assumptions C10_terminates.

(* the two together, for the run that Api.execute performs *)
Corollary C10_execute : forall p tr, verify p = true ->
  let (m, r) := run_fuel (run_bound p) p tr (init_vm p) in
  match r with
  | VOk => tos m = 0 /\ btos m = 0 /\ stack m = [] /\ bstack m = [] /\ rest m = []
  | VErr _ _ => True
  | VPanic PExcluded => True
  | _ => False
  end.
Proof.
  intros p tr Hv. pose proof (C10_check_sound p (run_bound p) tr Hv) as H1.
  pose proof (C10_terminates p (run_bound p) tr Hv (le_n _)) as H2.
  destruct (run_fuel (run_bound p) p tr (init_vm p)) as [m r]. cbn [snd] in H2.
  destruct r as [| | |k]; try exact H1. destruct k; try exact H1. congruence.
Qed.
Print Assumptions C10_execute.

(* ---- the depth at each instruction is the same along all paths ---- *)

(* one iteration of run_fuel that continues *)
Definition step1 (p : prog) (tr : vm -> list (otag * bytes)) (m : vm) : option vm :=
  match rest m with
  | [] => None
  | instr :: r =>
    if instr =? opRET then None
    else match exec_op p instr (advance r (setout (tr m ++ vout m) m)) with
         | (m2, VOk) => Some m2
         | _ => None
         end
  end.

Lemma run_fuel_step1 p tr f m m' :
  step1 p tr m = Some m' -> run_fuel (S f) p tr m = run_fuel f p tr m'.
Proof.
  unfold step1. rewrite run_fuel_S. cbv zeta. rewrite rest_setout.
  destruct (rest m) as [|instr r]; [discriminate|]. destruct (instr =? opRET); [discriminate|].
  destruct (exec_op p instr (advance r (setout (tr m ++ vout m) m))) as [m2 [| | |]]; try discriminate.
  intros H. inversion H. reflexivity.
Qed.

Inductive reachable (p : prog) (tr : vm -> list (otag * bytes)) : vm -> Prop :=
| reach_init : reachable p tr (init_vm p)
| reach_step m m' : reachable p tr m -> step1 p tr m = Some m' -> reachable p tr m'.

Lemma reachable_agrees p L tr m : well_labelled p L -> reachable p tr m -> agrees p L m.
Proof.
  intros HL. induction 1 as [|m m' Hr IH Hs]; [apply agrees_init; exact HL|].
  unfold step1 in Hs. destruct (rest m) as [|instr r] eqn:Er; [discriminate|].
  destruct (instr =? opRET) eqn:Eret; [discriminate|].
  pose proof (iter_sound p L tr m instr r HL IH Er Eret) as G.
  destruct (exec_op p instr (advance r (setout (tr m ++ vout m) m))) as [m2 [| | |]]; try discriminate.
  inversion Hs; subst m2. exact (proj1 G).
Qed.

(* there is one static table of depths, with one entry per offset, that every state of every run obeys *)
Theorem C10_depth_unique : forall p, verify p = true ->
  exists L, well_labelled p L /\ functional L /\
    forall tr m, reachable p tr m ->
      In (pc m, (tos m, btos m)) L /\ tos m = nlen (stack m) /\ btos m = nlen (bstack m) /\
      rest m = code_at p (pc m).
Proof.
  intros p Hv. destruct (verify_labelling p Hv) as (L & HL & HF). exists L.
  split; [exact HL|]. split; [exact HF|]. intros tr m Hr.
  destruct (reachable_agrees p L tr m HL Hr) as (H1 & H2 & H3 & H4 & _). repeat split; assumption.
Qed.
Print Assumptions C10_depth_unique.

(* in particular: two runs (any hooks) that are at the same instruction have the same depths *)
Corollary C10_depth_same_pc : forall p tr1 tr2 m1 m2, verify p = true ->
  reachable p tr1 m1 -> reachable p tr2 m2 -> pc m1 = pc m2 ->
  tos m1 = tos m2 /\ btos m1 = btos m2 /\ length (stack m1) = length (stack m2) /\
  length (bstack m1) = length (bstack m2).
Proof.
  intros p tr1 tr2 m1 m2 Hv R1 R2 Hpc. destruct (C10_depth_unique p Hv) as (L & _ & HF & H).
  destruct (H tr1 m1 R1) as (I1 & T1 & B1 & _). destruct (H tr2 m2 R2) as (I2 & T2 & B2 & _).
  rewrite Hpc in I1. pose proof (HF _ _ _ I1 I2) as E. inversion E as [[Et Eb]].
  unfold nlen in *. repeat split; lia.
Qed.

(* the labelling is closed under BOTH outcomes of a conditional jump, whatever the run-time value *)
Lemma C10_both_branches p L o d b b0 b1 r :
  well_labelled p L -> In (o, (d, b)) L -> code_at p o = opJFALSE :: b0 :: b1 :: r ->
  In (o + 3, (d, b)) L /\ In (o + 3 + (b0 * 256 + b1), (d, b)) L /\ 1 <= d.
Proof.
  intros [_ HL] Hin Hc. specialize (HL o d b Hin). unfold node_ok in HL. rewrite Hc in HL.
  change (opJFALSE =? opRET) with false in HL. cbv iota in HL.
  destruct HL as (size & next & newp & Hv & _ & Hn & Hp).
  revert Hv. unfold vstep. closed_tests. intros Hv.
  destruct (1 <=? d) eqn:E1; [|discriminate]. apply some3_inj in Hv. destruct Hv as (<- & <- & <-).
  split; [apply Hn; reflexivity|]. split; [apply (Hp _ _ eq_refl) | lia].
Qed.

(* ---------------------------------------------------------------------------------------- *)
(* any well-labelling is functional: the label of a boundary is determined by its successors *)
(* ---------------------------------------------------------------------------------------- *)
Lemma some_pair_inj {A B} (a a' : A) (b b' : B) : Some (a, b) = Some (a', b') -> a = a' /\ b = b'.
Proof. intros H. inversion H. split; reflexivity. Qed.

Ltac bi_fin :=
  subst; conds;
  repeat (first [split | intro]); try discriminate; try reflexivity;
  repeat match goal with
         | E1 : Some _ = Some ?l, E2 : Some _ = Some ?l |- _ =>
           rewrite <- E2 in E1; clear E2; apply some_pair_inj in E1; destruct E1
         | E : Some (_, _) = Some (_, _) |- _ => apply some_pair_inj in E; destruct E
         | E : (_, _) = (_, _) |- _ => apply pair_equal_spec in E; destruct E
         end; subst; try reflexivity; try lia.

Lemma vstep_back_inj p o r d1 b1 d2 b2 s1 n1 np1 s2 n2 np2 :
  vstep p o r d1 b1 = Some (s1, n1, np1) -> vstep p o r d2 b2 = Some (s2, n2, np2) ->
  s1 = s2 /\ (n1 = None <-> n2 = None) /\
  (forall l, n1 = Some l -> n2 = Some l -> d1 = d2 /\ b1 = b2) /\
  (n1 = None -> exists t l1 l2, np1 = Some (t, l1) /\ np2 = Some (t, l2) /\ (l1 = l2 -> d1 = d2 /\ b1 = b2)).
Proof.
  intros H1 H2. unfold vstep in H1, H2. destruct r as [|instr args]; [discriminate|]. cbv zeta in H1, H2.
  next_test H1 E. { inv_some H1; inv_some H2; bi_fin. } clear E.
  next_test H1 E. { inv_some H1; inv_some H2; bi_fin. } clear E.
  next_test H1 E. { inv_some H1; inv_some H2; bi_fin. } clear E.
  next_test H1 E. { inv_some H1; inv_some H2; bi_fin. } clear E.
  next_test H1 E. { inv_some H1; inv_some H2; bi_fin. } clear E.
  next_test H1 E. { inv_some H1; inv_some H2; bi_fin. } clear E.
  next_test H1 E. { inv_some H1; inv_some H2; bi_fin. } clear E.
  next_test H1 E. { inv_some H1; inv_some H2; bi_fin. } clear E.
  next_test H1 E. { inv_some H1; inv_some H2; bi_fin. } clear E.
  next_test H1 E. { inv_some H1; inv_some H2; bi_fin. } clear E.
  next_test H1 E. { inv_some H1; inv_some H2; bi_fin. } clear E.
  next_test H1 E. { inv_some H1; inv_some H2; bi_fin. } clear E.
  next_test H1 E. { inv_some H1; inv_some H2; bi_fin. } clear E.
  next_test H1 E. { destruct args as [|c0 [|c1 r]]; try discriminate. inv_some H1; inv_some H2; bi_fin. } clear E.
  next_test H1 E.
  { destruct args as [|c0 [|c1 r]]; try discriminate. inv_some H1; inv_some H2. subst.
    split; [reflexivity|]. split; [split; reflexivity|]. split; [discriminate|].
    intros _. eexists _, _, _. split; [reflexivity|]. split; [reflexivity|].
    intros E'. apply pair_equal_spec in E'. exact E'. }
  clear E.
  next_test H1 E; [|discriminate]. inv_some H1; inv_some H2; bi_fin.
Qed.

Lemma well_labelled_functional_aux p L : well_labelled p L ->
  forall k o l1 l2, (N.to_nat (nlen (g_code p) - o) <= k)%nat ->
    In (o, l1) L -> In (o, l2) L -> l1 = l2.
Proof.
  intros HL. pose proof HL as [_ Hok].
  induction k as [|k IH]; intros o [d1 b1] [d2 b2] Hk I1 I2.
  - pose proof (Hok _ _ _ I1) as N1. unfold node_ok in N1.
    assert (Hlt : o < nlen (g_code p)) by (apply code_at_lt; intros E; rewrite E in N1; exact N1). lia.
  - pose proof (Hok _ _ _ I1) as N1. pose proof (Hok _ _ _ I2) as N2. unfold node_ok in N1, N2.
    assert (Hlt : o < nlen (g_code p)) by (apply code_at_lt; intros E; rewrite E in N1; exact N1).
    destruct (code_at p o) as [|instr args]; [destruct N1|].
    destruct (instr =? opRET).
    + destruct N1 as (-> & -> & _). destruct N2 as (-> & -> & _). reflexivity.
    + destruct N1 as (s1 & n1 & np1 & V1 & S1 & X1 & P1).
      destruct N2 as (s2 & n2 & np2 & V2 & S2 & X2 & P2).
      destruct (vstep_back_inj _ _ _ _ _ _ _ _ _ _ _ _ _ V1 V2) as (Es & Enone & Hnext & Hjump). subst s2.
      destruct n1 as [l1'|].
      * destruct n2 as [l2'|]; [|exfalso; destruct Enone as [_ Q]; specialize (Q eq_refl); discriminate].
        assert (El : l1' = l2').
        { apply (IH (o + s1)); [lia | apply X1; reflexivity | apply X2; reflexivity]. }
        subst l2'. destruct (Hnext l1' eq_refl eq_refl) as [-> ->]. reflexivity.
      * destruct (Hjump eq_refl) as (t & l1' & l2' & Ep1 & Ep2 & Himp).
        destruct (P1 _ _ Ep1) as [J1 T1]. destruct (P2 _ _ Ep2) as [J2 T2].
        assert (El : l1' = l2') by (apply (IH t); [lia | exact J1 | exact J2]).
        destruct (Himp El) as [-> ->]. reflexivity.
Qed.

(* the depths are the same along all paths into each instruction: ANY labelling closed under the
   control flow assigns at most one label to each offset *)
Theorem C10_depth_unique_any : forall p L o l1 l2,
  well_labelled p L -> In (o, l1) L -> In (o, l2) L -> l1 = l2.
Proof.
  intros p L o l1 l2 HL. apply (well_labelled_functional_aux p L HL _ o l1 l2 (le_n _)).
Qed.
Print Assumptions C10_depth_unique_any.

(* ---------------------------------------------------------------------------------------- *)
(* blocks: the result list grows exactly when the block depth returns from 1 to 0            *)
(* ---------------------------------------------------------------------------------------- *)
Definition result_step (m m' : vm) : Prop :=
  (result m' = result m /\ (btos m' = 0 -> btos m = 0)) \/
  (btos m = 1 /\ btos m' = 0 /\ exists v, isblk v /\ result m' = v :: result m).

Ltac res_leaf :=
  unfold nlen in *; cbn [length] in *;
  first [ exact I
        | left; split; [reflexivity | lia]
        | left; split; [reflexivity | exact (fun H => H)]
        | right; split; [lia | split; [reflexivity | eexists; split; [|reflexivity]; exact I]]
        | exfalso;
          repeat match goal with
                 | H : Forall isblk (_ :: _) |- _ => inversion H; clear H; subst
                 | H : isblk _ |- _ => exact H
                 end ].

Lemma exec_result p instr m : wf m ->
  match exec_op p instr m with
  | (m', VOk) => result_step m m'
  | _ => True
  end.
Proof.
  intros (W1 & W2 & W3). unfold result_step. open_exec_op.
  cascade; res_leaf.
Qed.

(* runs with a ghost counter of the 1 -> 0 transitions of the block depth, i.e. of the executed
   ENDBLOCKs whose (static) label has block depth 1 *)
Inductive reach_cnt (p : prog) (tr : vm -> list (otag * bytes)) : nat -> vm -> Prop :=
| rc_init : reach_cnt p tr 0%nat (init_vm p)
| rc_step k m m' : reach_cnt p tr k m -> step1 p tr m = Some m' ->
                   reach_cnt p tr (if (btos m =? 1) && (btos m' =? 0) then S k else k) m'.

Lemma reach_cnt_reachable p tr k m : reach_cnt p tr k m -> reachable p tr m.
Proof. induction 1; [constructor | econstructor; eassumption]. Qed.

Theorem C10_blocks_balanced : forall p tr k m, verify p = true -> reach_cnt p tr k m ->
  length (result m) = k /\ Forall isblk (result m) /\ btos m = nlen (bstack m) /\ Forall isblk (bstack m).
Proof.
  intros p tr k m Hv. destruct (verify_labelling p Hv) as (L & HL & _).
  induction 1 as [|k m m' Hr IH Hs].
  - unfold init_vm; vmsimp. repeat split; constructor.
  - pose proof (reachable_agrees p L tr m HL (reach_cnt_reachable _ _ _ _ Hr)) as (_ & _ & W).
    assert (W' : wf m').
    { assert (R' : reachable p tr m') by (econstructor; [eapply reach_cnt_reachable; exact Hr | exact Hs]).
      apply (reachable_agrees p L tr m' HL R'). }
    destruct IH as (IH1 & IH2 & _).
    unfold step1 in Hs. destruct (rest m) as [|instr r]; [discriminate|].
    destruct (instr =? opRET); [discriminate|].
    pose proof (exec_result p instr (advance r (setout (tr m ++ vout m) m))) as G.
    destruct (exec_op p instr (advance r (setout (tr m ++ vout m) m))) as [m2 [| | |]]; try discriminate.
    inversion Hs; subst m2. clear Hs.
    assert (G' : result_step (advance r (setout (tr m ++ vout m) m)) m').
    { apply G. unfold advance, setout, wf in *; vmsimp. exact W. }
    unfold result_step, advance, setout in G'; vmsimp. revert G'. vmsimp. intros G'.
    destruct W' as (_ & W2' & W3').
    destruct G' as [[E1 E2] | (E1 & E2 & v & Hb & E3)].
    + replace ((btos m =? 1) && (btos m' =? 0)) with false by lia.
      rewrite E1. repeat split; assumption.
    + replace ((btos m =? 1) && (btos m' =? 0)) with true by lia.
      rewrite E3. cbn [length]. repeat split; try assumption; [lia | constructor; assumption].
Qed.
Print Assumptions C10_blocks_balanced.

(* ---------------------------------------------------------------------------------------- *)
(* (d) non-vacuity: compiled code is accepted, damaged code is rejected                      *)
(* ---------------------------------------------------------------------------------------- *)
Definition ex_src : bytes :=
  bs "var x = 1 and 2 or 3 def b { f = x and x def c { g = 1 or x } } var y = x + 2 print y".
Definition ex_p : prog := pr_prog (parse_whole (bs "input") ex_src).
Definition patch (p : prog) (code : bytes) (pos : list N) (cs : list value) : prog :=
  {| g_name := g_name p; g_code := code; g_consts := cs; g_pos := pos; g_lfs := g_lfs p |}.
Definition runres (p : prog) : vres := snd (run_fuel (run_bound p) p (fun _ => []) (init_vm p)).
Definition is_internal (r : vres) : bool := match r with VInternal _ => true | _ => false end.

(* and / or (JFALSE, JUMP), nested blocks, locals, POPN: 59 bytes of code *)
Example C10_accepts_compiled :
  pr_ok (parse_whole (bs "input") ex_src) = true /\ nlen (g_code ex_p) = 59 /\
  verify ex_p = true /\ runres ex_p = VOk.
Proof. vm_compute. repeat split. Qed.

(* 1: a jump offset changed so that the target lies inside the CONST instruction *)
Example C10_rejects_midinstruction_target :
  verify (patch ex_p (set_nth (g_code ex_p) 3 4) (g_pos ex_p) (g_consts ex_p)) = false.
Proof. vm_compute. reflexivity. Qed.

(* 2: the final RET removed: the VM runs off the code *)
Example C10_rejects_missing_ret :
  let q := patch ex_p (removelast (g_code ex_p)) (removelast (g_pos ex_p)) (g_consts ex_p) in
  verify q = false /\ runres q = VPanic PIndex.
Proof. vm_compute. split; reflexivity. Qed.

(* 3: the constant pool truncated by one entry: CONST 7 reads outside it *)
Example C10_rejects_const_range :
  let q := patch ex_p (g_code ex_p) (g_pos ex_p) (firstn 7 (g_consts ex_p)) in
  verify q = false /\ runres q = VPanic PIndex.
Proof. vm_compute. split; reflexivity. Qed.

(* 4: the type-name constant of DEFBLOCK replaced by an int: failed type assertion *)
Example C10_rejects_const_kind :
  let q := patch ex_p (g_code ex_p) (g_pos ex_p) (set_nth (g_consts ex_p) 2 (VInt 7)) in
  verify q = false /\ runres q = VPanic PAssert.
Proof. vm_compute. split; reflexivity. Qed.

(* 5: the POP after JFALSE replaced by NOP: the two paths into offset 13 disagree on the depth,
      and the run ends with "internal error: non-empty stack on prog end" *)
Example C10_rejects_depth_mismatch :
  let q := patch ex_p (set_nth (g_code ex_p) 4 opNOP) (g_pos ex_p) (g_consts ex_p) in
  verify q = false /\ is_internal (runres q) = true.
Proof. vm_compute. split; reflexivity. Qed.

(* 6: the outer ENDBLOCK replaced by NOP: blocks unbalanced at RET (the VM silently loses the block) *)
Example C10_rejects_unbalanced_blocks :
  let q := patch ex_p (set_nth (g_code ex_p) 47 opNOP) (g_pos ex_p) (g_consts ex_p) in
  verify q = false /\
  result (fst (run_fuel (run_bound q) q (fun _ => []) (init_vm q))) = [] /\
  result (fst (run_fuel (run_bound ex_p) ex_p (fun _ => []) (init_vm ex_p))) <> [].
Proof. vm_compute. repeat split. discriminate. Qed.

(* 7: GETLOCAL 1 changed to GETLOCAL 9: slot above the stack depth *)
Example C10_rejects_local_slot :
  let q := patch ex_p (set_nth (g_code ex_p) 54 9) (g_pos ex_p) (g_consts ex_p) in
  verify q = false /\ runres q = VPanic PIndex.
Proof. vm_compute. split; reflexivity. Qed.

(* backward jumps are rejected outright *)
Example C10_rejects_loop :
  verify {| g_name := []; g_code := [opNOP; opLOOP; 0; 4; opRET]; g_consts := []; g_pos := [0; 0; 0; 0; 0]; g_lfs := [] |} = false.
Proof. vm_compute. reflexivity. Qed.
