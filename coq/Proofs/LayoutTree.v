(* LayoutTree.v: the link between the byte-level layout facts (Proofs/LayoutProofs.v) and the tree.

   Layout and comments produce no token; all they can change in the token list of a source is the
   end offset `tpos` of the tokens that follow.  The grammar of Spec/Syntax.v reads only the kind and
   the text of a token, so two token lists that agree on (kind, text) have the same tree, and by T2
   the parser emits the same code, constants and identifier table for both. *)
From Coq Require Import Lia List.
From BCL Require Import Model.Api Model.Compile Spec.Syntax Proofs.LineCalcProofs Proofs.ParserInvProofs
                        Proofs.T2Expr Proofs.T2Proofs Proofs.Language.
Import ListNotations.
Open Scope N_scope.

Definition strip (t : token) : tok * bytes := (ttyp t, tval t).

(* ------------------------------------------------------------------ *)
(* 0. token lists that agree up to positions                           *)
(* ------------------------------------------------------------------ *)

Definition same (ts1 ts2 : list token) : Prop := map strip ts1 = map strip ts2.

Lemma same_cons : forall a b r1 r2, same (a :: r1) (b :: r2) ->
  ttyp a = ttyp b /\ tval a = tval b /\ same r1 r2.
Proof.
  unfold same. intros a b r1 r2 H. cbn [map] in H. injection H as H1 H2 H3. repeat split; assumption.
Qed.

Lemma same_hd : forall r1 r2, same r1 r2 -> hd_typ r1 = hd_typ r2.
Proof.
  intros [|a r1] [|b r2] H; try discriminate H; [reflexivity|].
  apply same_cons in H. cbn [hd_typ]. tauto.
Qed.

Lemma same_tl : forall r1 r2, same r1 r2 -> same (tl r1) (tl r2).
Proof.
  intros [|a r1] [|b r2] H; try discriminate H; [exact H|].
  apply same_cons in H. cbn [tl]. tauto.
Qed.

Lemma same_skip_semi : forall r1 r2, same r1 r2 -> same (skip_semi r1) (skip_semi r2).
Proof.
  intros [|a r1] [|b r2] H; try discriminate H; [exact H|].
  pose proof H as H'. apply same_cons in H' as (Ht & _ & Hr). cbn [skip_semi]. rewrite Ht.
  destruct (tok_eqb (ttyp b) tSEMICOLON); assumption.
Qed.

Lemma same_length : forall r1 r2, same r1 r2 -> length r1 = length r2.
Proof.
  unfold same. intros r1 r2 H. rewrite <- (map_length strip r1), H. apply map_length.
Qed.

(* results: the same tree, and remaining tokens that again agree up to positions *)
Definition sres {A : Type} (x y : option (A * list token)) : Prop :=
  match x, y with
  | Some (e1, r1), Some (e2, r2) => e1 = e2 /\ same r1 r2
  | None, None => True
  | _, _ => False
  end.

Lemma sres_none : forall A, @sres A None None.
Proof. intros. exact I. Qed.

Lemma sres_some : forall A (e : A) r1 r2, same r1 r2 -> sres (Some (e, r1)) (Some (e, r2)).
Proof. intros. split; [reflexivity|assumption]. Qed.

(* lock-step case analysis on a pair of related results *)
Ltac split_res H e r1 r2 HR :=
  match type of H with
  | sres ?x ?y =>
    destruct x as [[e r1]|], y as [[?e2 r2]|]; cbn [sres] in H; try contradiction;
    [destruct H as [<- HR]|clear H]
  end.

(* ------------------------------------------------------------------ *)
(* 1. expressions                                                      *)
(* ------------------------------------------------------------------ *)

Definition ExprS (f : nat) : Prop := forall q ts1 ts2, same ts1 ts2 -> sres (pexpr f q ts1) (pexpr f q ts2).
Definition LoopS (f : nat) : Prop :=
  forall q lhs ts1 ts2, same ts1 ts2 -> sres (ploop f q lhs ts1) (ploop f q lhs ts2).

(* the tail of pexpr: infix loop, then the "invalid assignment target" check *)
Lemma expr_tail : forall f, LoopS f -> forall q (x y : option (expr * list token)), sres x y ->
  sres (match x with
        | None => None
        | Some (e0, r0) =>
          match ploop f q e0 r0 with
          | Some (e, r) => if (q <=? lvl_assign)%nat && tok_eqb (hd_typ r) tEQ then None else Some (e, r)
          | None => None
          end
        end)
       (match y with
        | None => None
        | Some (e0, r0) =>
          match ploop f q e0 r0 with
          | Some (e, r) => if (q <=? lvl_assign)%nat && tok_eqb (hd_typ r) tEQ then None else Some (e, r)
          | None => None
          end
        end).
Proof.
  intros f HL q x y H. split_res H e0 r1 r2 HR; [|exact I].
  pose proof (HL q e0 r1 r2 HR) as H. split_res H e r1' r2' HR'; [|exact I].
  rewrite (same_hd _ _ HR').
  destruct ((q <=? lvl_assign)%nat && tok_eqb (hd_typ r2') tEQ); [exact I|apply sres_some, HR'].
Qed.

(* a unary prefix: one recursive call, one constructor *)
Lemma expr_wrap : forall (x y : option (expr * list token)) (k : expr -> expr), sres x y ->
  sres (match x with Some (e, r') => Some (k e, r') | None => None end)
       (match y with Some (e, r') => Some (k e, r') | None => None end).
Proof.
  intros x y k H. split_res H e r1 r2 HR; [apply sres_some, HR|exact I].
Qed.

Lemma expr_step : forall f, ExprS f -> LoopS f -> ExprS (S f).
Proof.
  intros f HE HL q ts1 ts2 H. cbn [pexpr]. apply (expr_tail f HL).
  destruct ts1 as [|a r1], ts2 as [|b r2]; try discriminate H; [exact I|].
  apply same_cons in H as (Ht & Hv & Hr). rewrite Ht, Hv.
  destruct (ttyp b); try exact I.
  - destruct (parse_int (tval b)); [exact I|apply sres_some, Hr].
  - destruct (parse_float (tval b)); [exact I|apply sres_some, Hr].
  - destruct (unquote (tval b)); [apply sres_some, Hr|exact I].
  - rewrite (same_hd _ _ Hr).
    destruct ((q <=? lvl_assign)%nat && tok_eqb (hd_typ r2) tEQ); [|apply sres_some, Hr].
    apply expr_wrap with (k := EAsg (tval b)), HE, same_tl, Hr.
  - apply sres_some, Hr.
  - apply sres_some, Hr.
  - apply sres_some, Hr.
  - pose proof (HE lvl_assign r1 r2 Hr) as H. split_res H e r1' r2' HR; [|exact I].
    destruct r1' as [|c1 r1''], r2' as [|c2 r2'']; try discriminate HR; [exact I|].
    apply same_cons in HR as (Hc & _ & HR). rewrite Hc.
    destruct (tok_eqb (ttyp c2) tRPAREN); [apply sres_some, HR|exact I].
  - apply expr_wrap with (k := ENot), HE, Hr.
  - apply expr_wrap with (k := EPos), HE, Hr.
  - apply expr_wrap with (k := ENeg), HE, Hr.
Qed.

Lemma loop_rec : forall f, LoopS f -> forall q (k : expr -> expr) (x y : option (expr * list token)),
  sres x y ->
  sres (match x with Some (rhs, r) => ploop f q (k rhs) r | None => None end)
       (match y with Some (rhs, r) => ploop f q (k rhs) r | None => None end).
Proof.
  intros f HL q k x y H. split_res H e r1 r2 HR; [apply HL, HR|exact I].
Qed.

Lemma loop_step : forall f, ExprS f -> LoopS f -> LoopS (S f).
Proof.
  intros f HE HL q lhs ts1 ts2 H. cbn [ploop]. rewrite (same_hd _ _ H).
  destruct ((0 <? infix_lvl (hd_typ ts2))%nat && (q <=? infix_lvl (hd_typ ts2))%nat);
    [|apply sres_some, H].
  pose proof (same_tl _ _ H) as Ht.
  destruct (hd_typ ts2); cbn [binop_of]; try exact I;
    try (apply (loop_rec f HL q (fun rhs => EAnd lhs rhs)), HE, Ht);
    try (apply (loop_rec f HL q (fun rhs => EOr lhs rhs)), HE, Ht);
    match goal with
    | |- context [ploop f q (EBin ?o lhs _) _] => apply (loop_rec f HL q (fun rhs => EBin o lhs rhs)), HE, Ht
    end.
Qed.

Theorem expr_same : forall f, ExprS f /\ LoopS f.
Proof.
  induction f as [|f [HE HL]].
  - split; intros q; intros; exact I.
  - split; [apply expr_step|apply loop_step]; assumption.
Qed.

Corollary pexpr_ignores_positions : forall f q ts1 ts2, map strip ts1 = map strip ts2 ->
  match pexpr f q ts1, pexpr f q ts2 with
  | Some (e1, r1), Some (e2, r2) => e1 = e2 /\ map strip r1 = map strip r2
  | None, None => True
  | _, _ => False
  end.
Proof. intros f q ts1 ts2 H. exact (proj1 (expr_same f) q ts1 ts2 H). Qed.

(* ------------------------------------------------------------------ *)
(* 2. statements                                                       *)
(* ------------------------------------------------------------------ *)

Lemma pbind_same : forall ts1 ts2, same ts1 ts2 -> sres (pbind ts1) (pbind ts2).
Proof.
  intros ts1 ts2 H. unfold pbind.
  destruct ts1 as [|ty1 r1], ts2 as [|ty2 r2]; try discriminate H; [exact I|].
  apply same_cons in H as (Ht & Hv & Hr). rewrite Ht, Hv.
  destruct (negb (tok_eqb (ttyp ty2) tIDENT)); [exact I|].
  (* the selector part: an option and a rest, related *)
  set (selp := fun r : list token =>
      match r with
      | c :: s :: r' =>
        if tok_eqb (ttyp c) tCOLON then
          if tok_eqb (ttyp s) tINT then (if bytes_eqb (tval s) [49] then Some BSone else None, r')
          else if tok_eqb (ttyp s) tIDENT then
            ((if is_lit (tval s) "first" then Some BSfirst else if is_lit (tval s) "last" then Some BSlast
              else if is_lit (tval s) "all" then Some BSall else None), r')
          else (None, r')
        else (Some BSone, r)
      | _ => (Some BSone, r)
      end).
  change (sres (let '(sel, r1) := selp r1 in
                match sel, r1 with
                | Some sl, a :: tg :: r2 =>
                  if tok_eqb (ttyp a) tARROW && tok_eqb (ttyp tg) tIDENT then
                    match (if is_lit (tval tg) "struct" then Some BTstruct
                           else if is_lit (tval tg) "slice" then Some BTslice else None) with
                    | Some BTstruct => match sl with BSall => None | _ => Some (SBind (tval ty2) sl BTstruct, r2) end
                    | Some BTslice => Some (SBind (tval ty2) sl BTslice, r2)
                    | None => None
                    end
                  else None
                | _, _ => None
                end)
               (let '(sel, r1) := selp r2 in
                match sel, r1 with
                | Some sl, a :: tg :: r2 =>
                  if tok_eqb (ttyp a) tARROW && tok_eqb (ttyp tg) tIDENT then
                    match (if is_lit (tval tg) "struct" then Some BTstruct
                           else if is_lit (tval tg) "slice" then Some BTslice else None) with
                    | Some BTstruct => match sl with BSall => None | _ => Some (SBind (tval ty2) sl BTstruct, r2) end
                    | Some BTslice => Some (SBind (tval ty2) sl BTslice, r2)
                    | None => None
                    end
                  else None
                | _, _ => None
                end)).
  assert (Hs : fst (selp r1) = fst (selp r2) /\ same (snd (selp r1)) (snd (selp r2))).
  { unfold selp.
    destruct r1 as [|c1 r1], r2 as [|c2 r2]; try discriminate Hr; [split; [reflexivity|exact Hr]|].
    pose proof Hr as Hr0. apply same_cons in Hr as (Hc & _ & Hr).
    destruct r1 as [|s1 r1], r2 as [|s2 r2]; try discriminate Hr; [split; [reflexivity|exact Hr0]|].
    apply same_cons in Hr as (Hst & Hsv & Hr). rewrite Hc, Hst, Hsv.
    destruct (tok_eqb (ttyp c2) tCOLON); [|split; [reflexivity|exact Hr0]].
    destruct (tok_eqb (ttyp s2) tINT); [split; [reflexivity|exact Hr]|].
    destruct (tok_eqb (ttyp s2) tIDENT); split; try reflexivity; exact Hr. }
  destruct (selp r1) as [sel1 q1], (selp r2) as [sel2 q2]. cbn [fst snd] in Hs.
  destruct Hs as [<- Hq]. destruct sel1 as [sl|]; [|exact I].
  destruct q1 as [|a1 q1], q2 as [|a2 q2]; try discriminate Hq; [exact I|].
  apply same_cons in Hq as (Ha & _ & Hq).
  destruct q1 as [|g1 q1], q2 as [|g2 q2]; try discriminate Hq; [exact I|].
  apply same_cons in Hq as (Hg & Hgv & Hq). rewrite Ha, Hg, Hgv.
  destruct (tok_eqb (ttyp a2) tARROW && tok_eqb (ttyp g2) tIDENT); [|exact I].
  destruct (is_lit (tval g2) "struct"); [destruct sl; try exact I; apply sres_some, Hq|].
  destruct (is_lit (tval g2) "slice"); [apply sres_some, Hq|exact I].
Qed.

Definition StmtS (f : nat) : Prop :=
  forall b ts1 ts2, same ts1 ts2 -> sres (pstmt f b ts1) (pstmt f b ts2).
Definition ItemsS (f : nat) : Prop :=
  forall ts1 ts2, same ts1 ts2 -> sres (pitems f ts1) (pitems f ts2).

Lemma stmt_wrap : forall (x y : option (expr * list token)) (k : expr -> stmt), sres x y ->
  sres (match x with Some (e, r') => Some (k e, r') | None => None end)
       (match y with Some (e, r') => Some (k e, r') | None => None end).
Proof.
  intros x y k H. split_res H e r1 r2 HR; [apply sres_some, HR|exact I].
Qed.

Lemma def_same : forall f, ItemsS f -> forall r1 r2, same r1 r2 ->
  sres (match r1 with
        | ty :: r1 =>
          if negb (tok_eqb (ttyp ty) tIDENT) then None else
          let '(nm, r2) :=
            match r1 with
            | s :: r' => if tok_eqb (ttyp s) tSTR then (unquote (tval s), r') else (Some [], r1)
            | [] => (Some [], r1)
            end in
          match nm, r2 with
          | Some name, l :: r3 =>
            if tok_eqb (ttyp l) tLCURLY then
              match pitems f r3 with
              | Some (body, r4) =>
                match r4 with
                | c :: r5 => if tok_eqb (ttyp c) tRCURLY then Some (SDef (tval ty) name body, r5) else None
                | [] => None
                end
              | None => None
              end
            else None
          | _, _ => None
          end
        | [] => None
        end)
       (match r2 with
        | ty :: r1 =>
          if negb (tok_eqb (ttyp ty) tIDENT) then None else
          let '(nm, r2) :=
            match r1 with
            | s :: r' => if tok_eqb (ttyp s) tSTR then (unquote (tval s), r') else (Some [], r1)
            | [] => (Some [], r1)
            end in
          match nm, r2 with
          | Some name, l :: r3 =>
            if tok_eqb (ttyp l) tLCURLY then
              match pitems f r3 with
              | Some (body, r4) =>
                match r4 with
                | c :: r5 => if tok_eqb (ttyp c) tRCURLY then Some (SDef (tval ty) name body, r5) else None
                | [] => None
                end
              | None => None
              end
            else None
          | _, _ => None
          end
        | [] => None
        end).
Proof.
  intros f HI r1 r2 Hr.
  destruct r1 as [|ty1 r1], r2 as [|ty2 r2]; try discriminate Hr; [exact I|].
  apply same_cons in Hr as (Ht & Hv & Hr). rewrite Ht, Hv.
  destruct (negb (tok_eqb (ttyp ty2) tIDENT)); [exact I|].
  set (nmp := fun r1 : list token =>
      match r1 with
      | s :: r' => if tok_eqb (ttyp s) tSTR then (unquote (tval s), r') else (Some [], r1)
      | [] => (Some [], r1)
      end).
  assert (Hs : fst (nmp r1) = fst (nmp r2) /\ same (snd (nmp r1)) (snd (nmp r2))).
  { unfold nmp. destruct r1 as [|s1 r1], r2 as [|s2 r2]; try discriminate Hr; [split; [reflexivity|exact Hr]|].
    pose proof Hr as Hr0. apply same_cons in Hr as (Hst & Hsv & Hr). rewrite Hst, Hsv.
    destruct (tok_eqb (ttyp s2) tSTR); split; try reflexivity; assumption. }
  fold (nmp r1). fold (nmp r2).
  destruct (nmp r1) as [nm1 q1], (nmp r2) as [nm2 q2]. cbn [fst snd] in Hs.
  destruct Hs as [<- Hq]. destruct nm1 as [name|]; [|exact I].
  destruct q1 as [|l1 q1], q2 as [|l2 q2]; try discriminate Hq; [exact I|].
  apply same_cons in Hq as (Hl & _ & Hq). rewrite Hl.
  destruct (tok_eqb (ttyp l2) tLCURLY); [|exact I].
  pose proof (HI q1 q2 Hq) as H. split_res H body r4 r4' HR; [|exact I].
  destruct r4 as [|c1 r5], r4' as [|c2 r5']; try discriminate HR; [exact I|].
  apply same_cons in HR as (Hc & _ & HR). rewrite Hc.
  destruct (tok_eqb (ttyp c2) tRCURLY); [apply sres_some, HR|exact I].
Qed.

Lemma stmt_step : forall f, ItemsS f -> StmtS (S f).
Proof.
  intros f HI b ts1 ts2 H. cbn [pstmt].
  destruct ts1 as [|a r1], ts2 as [|t2 r2]; try discriminate H; [exact I|].
  pose proof H as H0. apply same_cons in H as (Ht & Hv & Hr). rewrite Ht.
  pose proof (proj1 (expr_same f)) as HE.
  assert (Hx : sres (if b then match pexpr f lvl_assign (a :: r1) with
                               | Some (e, r1) => Some (SExpr e, r1) | None => None end else None)
                    (if b then match pexpr f lvl_assign (t2 :: r2) with
                               | Some (e, r1) => Some (SExpr e, r1) | None => None end else None)).
  { destruct b; [|exact I]. apply stmt_wrap with (k := SExpr), HE, H0. }
  destruct (ttyp t2); try exact Hx; clear Hx.
  - (* var *)
    destruct r1 as [|x1 r1], r2 as [|x2 r2]; try discriminate Hr; [exact I|].
    apply same_cons in Hr as (Hxt & Hxv & Hr). rewrite Hxt, Hxv, (same_hd _ _ Hr).
    destruct (tok_eqb (ttyp x2) tIDENT); [|exact I].
    destruct (tok_eqb (hd_typ r2) tEQ); [|apply sres_some, Hr].
    apply stmt_wrap with (k := fun e => SVar (tval x2) (Some e)), HE, same_tl, Hr.
  - (* def *) apply (def_same f HI), Hr.
  - apply stmt_wrap with (k := SEval), HE, Hr.
  - apply stmt_wrap with (k := SPrint), HE, Hr.
  - apply pbind_same, Hr.
Qed.

Lemma items_step : forall f, StmtS f -> ItemsS f -> ItemsS (S f).
Proof.
  intros f HS HI ts1 ts2 H. cbn [pitems]. rewrite (same_hd _ _ H).
  assert (Hx : sres (match pstmt f true ts1 with
                     | Some (s, r) => match pitems f (skip_semi r) with
                                      | Some (ss, r') => Some (s :: ss, r') | None => None end
                     | None => None end)
                    (match pstmt f true ts2 with
                     | Some (s, r) => match pitems f (skip_semi r) with
                                      | Some (ss, r') => Some (s :: ss, r') | None => None end
                     | None => None end)).
  { pose proof (HS true ts1 ts2 H) as H1. split_res H1 s r1 r2 HR; [|exact I].
    pose proof (HI _ _ (same_skip_semi _ _ HR)) as H2. split_res H2 ss q1 q2 HQ; [|exact I].
    apply sres_some, HQ. }
  destruct (hd_typ ts2); try exact Hx; apply sres_some, H.
Qed.

Theorem stmt_same : forall f, StmtS f /\ ItemsS f.
Proof.
  induction f as [|f [HS HI]].
  - split; intros b; intros; exact I.
  - split; [apply stmt_step|apply items_step]; assumption.
Qed.

Lemma ptop_same : forall f ts1 ts2, same ts1 ts2 -> ptop f ts1 = ptop f ts2.
Proof.
  induction f as [|f IH]; intros ts1 ts2 H; [reflexivity|]. cbn [ptop].
  destruct ts1 as [|a r1], ts2 as [|b r2]; try discriminate H; [reflexivity|].
  pose proof H as H0. apply same_cons in H as (Ht & _ & Hr).
  assert (Hx : match pstmt f false (a :: r1) with
               | Some (s, r) => match ptop f (skip_semi r) with Some ss => Some (s :: ss) | None => None end
               | None => None end =
               match pstmt f false (b :: r2) with
               | Some (s, r) => match ptop f (skip_semi r) with Some ss => Some (s :: ss) | None => None end
               | None => None end).
  { pose proof (proj1 (stmt_same f) false _ _ H0) as H1. split_res H1 s q1 q2 HR; [|reflexivity].
    rewrite (IH _ _ (same_skip_semi _ _ HR)). reflexivity. }
  destruct r1 as [|a' r1], r2 as [|b' r2]; try discriminate Hr; [|exact Hx].
  rewrite Ht. reflexivity.
Qed.

(* the grammar never looks at positions *)
Theorem ast_ignores_positions : forall ts1 ts2,
  map strip ts1 = map strip ts2 -> ast_program ts1 = ast_program ts2.
Proof.
  intros ts1 ts2 H. unfold ast_program. rewrite (same_length ts1 ts2 H). apply ptop_same, H.
Qed.
Print Assumptions ast_ignores_positions.

(* ------------------------------------------------------------------ *)
(* 3. the shape of a token stream depends on the kinds only            *)
(* ------------------------------------------------------------------ *)

Lemma strip_typ : forall a b, strip a = strip b -> ttyp a = ttyp b.
Proof. unfold strip. intros a b H. injection H as H _. exact H. Qed.

Lemma normal_same : forall l1 l2, map strip l1 = map strip l2 -> Forall normal l1 -> Forall normal l2.
Proof.
  induction l1 as [|a l1 IH]; intros [|b l2] H F; try discriminate H; [constructor|].
  cbn [map] in H. injection H as Ht _ Hr. inversion F as [|? ? Fa Fl]; subst.
  constructor; [|apply IH; assumption]. unfold normal in *. rewrite <- Ht. exact Fa.
Qed.

Theorem lex_shape_ignores_positions : forall ts1 ts2,
  map strip ts1 = map strip ts2 -> lex_shape ts1 -> lex_shape ts2.
Proof.
  intros ts1 ts2 H (body & Fb & [(e & He & ->)|(e & f & He & Hf & ->)]).
  - rewrite map_app in H. symmetry in H.
    apply map_eq_app in H as (body' & l' & -> & Hb & Hl).
    apply map_eq_cons in Hl as (e' & n & -> & Hs & Hn). apply map_eq_nil in Hn. subst n.
    exists body'. split; [apply (normal_same body); [symmetry; exact Hb|exact Fb]|].
    left. exists e'. split; [|reflexivity]. rewrite (strip_typ _ _ Hs). exact He.
  - rewrite map_app in H. symmetry in H.
    apply map_eq_app in H as (body' & l' & -> & Hb & Hl).
    apply map_eq_cons in Hl as (e' & n & -> & Hs & Hn).
    apply map_eq_cons in Hn as (f' & n' & -> & Hs' & Hn). apply map_eq_nil in Hn. subst n'.
    exists body'. split; [apply (normal_same body); [symmetry; exact Hb|exact Fb]|].
    right. exists e', f'. rewrite (strip_typ _ _ Hs), (strip_typ _ _ Hs'). repeat split; assumption.
Qed.
Print Assumptions lex_shape_ignores_positions.

(* ------------------------------------------------------------------ *)
(* 4. the parser: same (kind, text) sequence, same program             *)
(* ------------------------------------------------------------------ *)

Theorem same_tokens_same_program : forall ts1 ts2,
  lex_shape ts1 -> map strip ts1 = map strip ts2 ->
  hadError (parse_tokens ts1) = false -> oof (parse_tokens ts1) = false ->
  ppanic (parse_tokens ts1) = false ->
  hadError (parse_tokens ts2) = false /\
  code (parse_tokens ts1) = code (parse_tokens ts2) /\
  consts (parse_tokens ts1) = consts (parse_tokens ts2) /\
  identRefs (parse_tokens ts1) = identRefs (parse_tokens ts2).
Proof.
  intros ts1 ts2 Hs H He Ho Hp.
  destruct (T2_code_equal ts1 Hs He Ho Hp) as (p & Ha & Hc & C1 & K1 & _ & _ & I1).
  pose proof (lex_shape_ignores_positions _ _ H Hs) as Hs2.
  rewrite (ast_ignores_positions _ _ H) in Ha.
  destruct (T2_sound ts2 p Hs2 Ha Hc) as (E2 & _ & _ & C2 & K2 & _ & _ & I2).
  repeat split; congruence.
Qed.
Print Assumptions same_tokens_same_program.

(* the second source is accepted without reservation: no fuel exhaustion, no panic site *)
Corollary same_tokens_same_outcome : forall ts1 ts2,
  lex_shape ts1 -> map strip ts1 = map strip ts2 ->
  hadError (parse_tokens ts1) = false -> oof (parse_tokens ts1) = false ->
  ppanic (parse_tokens ts1) = false ->
  oof (parse_tokens ts2) = false /\ ppanic (parse_tokens ts2) = false /\
  nconsts (parse_tokens ts1) = nconsts (parse_tokens ts2) /\
  ncode (parse_tokens ts1) = ncode (parse_tokens ts2).
Proof.
  intros ts1 ts2 Hs H He Ho Hp.
  destruct (T2_code_equal ts1 Hs He Ho Hp) as (p & Ha & Hc & _ & _ & N1 & M1 & _).
  pose proof (lex_shape_ignores_positions _ _ H Hs) as Hs2.
  rewrite (ast_ignores_positions _ _ H) in Ha.
  destruct (T2_sound ts2 p Hs2 Ha Hc) as (_ & O2 & P2 & _ & _ & N2 & M2 & _).
  repeat split; congruence.
Qed.

(* ------------------------------------------------------------------ *)
(* 5. sources                                                          *)
(* ------------------------------------------------------------------ *)

(* Two sources whose token streams agree up to positions -- which is all that layout and comments
   can change, see section 6 -- are accepted together and compile to the same code and constants.
   (The position table g_pos and the line table g_lfs do differ: they are what diagnostics use.) *)
Theorem layout_irrelevant : forall n1 n2 src1 src2,
  map strip (fst (lex [src1])) = map strip (fst (lex [src2])) ->
  pr_ok (parse_whole n1 src1) = true -> pr_oof (parse_whole n1 src1) = false ->
  pr_panic (parse_whole n1 src1) = false ->
  pr_ok (parse_whole n2 src2) = true /\ pr_oof (parse_whole n2 src2) = false /\
  pr_panic (parse_whole n2 src2) = false /\
  g_code (pr_prog (parse_whole n1 src1)) = g_code (pr_prog (parse_whole n2 src2)) /\
  g_consts (pr_prog (parse_whole n1 src1)) = g_consts (pr_prog (parse_whole n2 src2)).
Proof.
  intros n1 n2 src1 src2. unfold parse_whole, parse_chunks.
  pose proof (lex_tokens_shape [src1]) as Hs.
  destruct (lex [src1]) as [ts1 l1], (lex [src2]) as [ts2 l2]. cbn [fst] in *.
  cbn [pr_ok pr_oof pr_panic pr_prog g_code g_consts].
  intros H Hok Ho Hp. apply Bool.negb_true_iff in Hok.
  destruct (same_tokens_same_program ts1 ts2 Hs H Hok Ho Hp) as (E2 & C & K & _).
  destruct (same_tokens_same_outcome ts1 ts2 Hs H Hok Ho Hp) as (O2 & P2 & _).
  rewrite E2, C, K. repeat split; assumption.
Qed.
Print Assumptions layout_irrelevant.

(* ------------------------------------------------------------------ *)
(* 6. redundant parentheses around a single-token operand              *)
(* ------------------------------------------------------------------ *)

(* pexpr in two pieces: the prefix part and the tail (infix loop + assignment-target check) *)
Definition ppre (f q : nat) (ts : list token) : option (expr * list token) :=
  match ts with
  | [] => None
  | t :: r =>
    match ttyp t with
    | tINT => match parse_int (tval t) with inr z => Some (ELit (VInt z), r) | inl _ => None end
    | tFLOAT => match parse_float (tval t) with inr b => Some (ELit (VFloat b), r) | inl _ => None end
    | tSTR => match unquote (tval t) with Some s => Some (ELit (VStr s), r) | None => None end
    | tTRUE => Some (ELit (VBool true), r)
    | tFALSE => Some (ELit (VBool false), r)
    | tNIL => Some (ELit VNil, r)
    | tIDENT =>
      if (q <=? lvl_assign)%nat && tok_eqb (hd_typ r) tEQ then
        match pexpr f lvl_assign (tl r) with
        | Some (e, r') => Some (EAsg (tval t) e, r')
        | None => None
        end
      else Some (EId (tval t), r)
    | tLPAREN =>
      match pexpr f lvl_assign r with
      | Some (e, r') => match r' with
                        | c :: r'' => if tok_eqb (ttyp c) tRPAREN then Some (e, r'') else None
                        | [] => None end
      | None => None
      end
    | tMINUS => match pexpr f lvl_unary r with Some (e, r') => Some (ENeg e, r') | None => None end
    | tPLUS => match pexpr f lvl_unary r with Some (e, r') => Some (EPos e, r') | None => None end
    | tNOT => match pexpr f lvl_not r with Some (e, r') => Some (ENot e, r') | None => None end
    | _ => None
    end
  end.

Definition ptail (f q : nat) (pre : option (expr * list token)) : option (expr * list token) :=
  match pre with
  | None => None
  | Some (e0, r0) =>
    match ploop f q e0 r0 with
    | Some (e, r) => if (q <=? lvl_assign)%nat && tok_eqb (hd_typ r) tEQ then None else Some (e, r)
    | None => None
    end
  end.

Lemma pexpr_S : forall f q ts, pexpr (S f) q ts = ptail f q (ppre f q ts).
Proof. reflexivity. Qed.

(* more fuel never changes a result *)
Definition ExprM (f g : nat) : Prop := forall q ts x, pexpr f q ts = Some x -> pexpr g q ts = Some x.
Definition LoopM (f g : nat) : Prop := forall q l ts x, ploop f q l ts = Some x -> ploop g q l ts = Some x.

Lemma bind_mono : forall A B (x y : option A) (k : A -> option B) z,
  (forall v, x = Some v -> y = Some v) ->
  match x with Some v => k v | None => None end = Some z ->
  match y with Some v => k v | None => None end = Some z.
Proof.
  intros A B x y k z H. destruct x as [v|]; [|discriminate]. rewrite (H v eq_refl). exact (fun e => e).
Qed.

Lemma ppre_mono : forall f g, ExprM f g -> forall q ts x, ppre f q ts = Some x -> ppre g q ts = Some x.
Proof.
  intros f g HE q ts x. unfold ppre. destruct ts as [|t r]; [discriminate|].
  destruct (ttyp t); try exact (fun e => e).
  - destruct ((q <=? lvl_assign)%nat && tok_eqb (hd_typ r) tEQ); [|exact (fun e => e)].
    apply (bind_mono _ _ _ _ (fun p => let '(e, r') := p in Some (EAsg (tval t) e, r'))). apply HE.
  - apply (bind_mono _ _ _ _ (fun p => let '(e, r') := p in
             match r' with c :: r'' => if tok_eqb (ttyp c) tRPAREN then Some (e, r'') else None | [] => None end)).
    apply HE.
  - apply (bind_mono _ _ _ _ (fun p => let '(e, r') := p in Some (ENot e, r'))). apply HE.
  - apply (bind_mono _ _ _ _ (fun p => let '(e, r') := p in Some (EPos e, r'))). apply HE.
  - apply (bind_mono _ _ _ _ (fun p => let '(e, r') := p in Some (ENeg e, r'))). apply HE.
Qed.

Lemma ptail_mono : forall f g, LoopM f g -> forall q pre x, ptail f q pre = Some x -> ptail g q pre = Some x.
Proof.
  intros f g HL q pre x. unfold ptail. destruct pre as [[e0 r0]|]; [|discriminate].
  apply (bind_mono _ _ _ _ (fun p => let '(e, r) := p in
           if (q <=? lvl_assign)%nat && tok_eqb (hd_typ r) tEQ then None else Some (e, r))). apply HL.
Qed.

Lemma expr_mono_step : forall f g, ExprM f g -> LoopM f g -> ExprM (S f) (S g).
Proof.
  intros f g HE HL q ts x. rewrite !pexpr_S. intros H.
  destruct (ppre f q ts) as [y|] eqn:Ep; [|discriminate H].
  rewrite (ppre_mono f g HE q ts y Ep). apply (ptail_mono f g HL), H.
Qed.

Lemma loop_mono_step : forall f g, ExprM f g -> LoopM f g -> LoopM (S f) (S g).
Proof.
  intros f g HE HL q l ts x. cbn [ploop].
  destruct ((0 <? infix_lvl (hd_typ ts))%nat && (q <=? infix_lvl (hd_typ ts))%nat); [|exact (fun e => e)].
  destruct (hd_typ ts); cbn [binop_of]; try exact (fun e => e);
    (intros H; destruct (pexpr f _ (tl ts)) as [[rhs r]|] eqn:Ev; [|discriminate H];
     rewrite (HE _ _ _ Ev); apply HL, H).
Qed.

Theorem fuel_mono_S : forall f, ExprM f (S f) /\ LoopM f (S f).
Proof.
  induction f as [|f [HE HL]].
  - split; [intros q ts x H|intros q l ts x H]; discriminate H.
  - split; [apply expr_mono_step|apply loop_mono_step]; assumption.
Qed.

Theorem pexpr_fuel_mono : forall f g q ts x, (f <= g)%nat -> pexpr f q ts = Some x -> pexpr g q ts = Some x.
Proof.
  intros f g q ts x Hle H. induction Hle as [|g _ IH]; [exact H|].
  apply (proj1 (fuel_mono_S g)), IH.
Qed.

Theorem ploop_fuel_mono : forall f g q l ts x, (f <= g)%nat -> ploop f q l ts = Some x -> ploop g q l ts = Some x.
Proof.
  intros f g q l ts x Hle H. induction Hle as [|g _ IH]; [exact H|].
  apply (proj2 (fuel_mono_S g)), IH.
Qed.

(* a single-token operand: a literal whose text converts, or an identifier *)
Definition atom_of (x : token) : option expr :=
  match ttyp x with
  | tINT => match parse_int (tval x) with inr z => Some (ELit (VInt z)) | inl _ => None end
  | tFLOAT => match parse_float (tval x) with inr b => Some (ELit (VFloat b)) | inl _ => None end
  | tSTR => match unquote (tval x) with Some s => Some (ELit (VStr s)) | None => None end
  | tTRUE => Some (ELit (VBool true))
  | tFALSE => Some (ELit (VBool false))
  | tNIL => Some (ELit VNil)
  | tIDENT => Some (EId (tval x))
  | _ => None
  end.

(* ... read as an operand, i.e. not as the target of an assignment "x = e" *)
Definition as_operand (q : nat) (x : token) (r : list token) : Prop :=
  ttyp x = tIDENT -> (q <=? lvl_assign)%nat && tok_eqb (hd_typ r) tEQ = false.

Lemma ppre_atom : forall f q x r a, atom_of x = Some a -> as_operand q x r ->
  ppre f q (x :: r) = Some (a, r).
Proof.
  intros f q x r a Ha Ho. unfold ppre, atom_of, as_operand in *.
  destruct (ttyp x); try discriminate Ha.
  - destruct (parse_int (tval x)); [discriminate Ha|]. injection Ha as <-. reflexivity.
  - destruct (parse_float (tval x)); [discriminate Ha|]. injection Ha as <-. reflexivity.
  - destruct (unquote (tval x)); [|discriminate Ha]. injection Ha as <-. reflexivity.
  - rewrite (Ho eq_refl). injection Ha as <-. reflexivity.
  - injection Ha as <-. reflexivity.
  - injection Ha as <-. reflexivity.
  - injection Ha as <-. reflexivity.
Qed.

Lemma ppre_paren_atom : forall f q lp x rp r a,
  ttyp lp = tLPAREN -> ttyp rp = tRPAREN -> atom_of x = Some a ->
  ppre (S (S f)) q (lp :: x :: rp :: r) = Some (a, r).
Proof.
  intros f q lp x rp r a Hl Hr Ha.
  assert (Hin : pexpr (S (S f)) lvl_assign (x :: rp :: r) = Some (a, rp :: r)).
  { rewrite pexpr_S, (ppre_atom (S f) lvl_assign x (rp :: r) a Ha).
    - unfold ptail. cbn [ploop hd_typ]. rewrite Hr.
      change ((0 <? infix_lvl tRPAREN)%nat) with false. cbn [andb hd_typ]. rewrite Hr. reflexivity.
    - intros _. cbn [hd_typ]. rewrite Hr. reflexivity. }
  unfold ppre. rewrite Hl, Hin, Hr. reflexivity.
Qed.

(* with the same fuel (at least 3): "( x )" and "x" are the same operand *)
Theorem paren_atom_transparent : forall f q lp x rp r a,
  ttyp lp = tLPAREN -> ttyp rp = tRPAREN -> atom_of x = Some a -> as_operand q x r ->
  pexpr (S (S (S f))) q (lp :: x :: rp :: r) = pexpr (S (S (S f))) q (x :: r).
Proof.
  intros f q lp x rp r a Hl Hr Ha Ho.
  rewrite !pexpr_S, (ppre_paren_atom f q lp x rp r a Hl Hr Ha), (ppre_atom _ q x r a Ha Ho). reflexivity.
Qed.
Print Assumptions paren_atom_transparent.

(* whatever expression starts with the operand x, it is the same expression when x is written
   "( x )"; two more units of fuel are enough *)
Theorem paren_atom_closure : forall f g q lp x rp r a e r',
  ttyp lp = tLPAREN -> ttyp rp = tRPAREN -> atom_of x = Some a -> as_operand q x r ->
  (f + 2 <= g)%nat ->
  pexpr f q (x :: r) = Some (e, r') ->
  pexpr g q (lp :: x :: rp :: r) = Some (e, r').
Proof.
  intros f g q lp x rp r a e r' Hl Hr Ha Ho Hg H.
  destruct f as [|f]; [discriminate H|].
  apply (pexpr_fuel_mono (S (S (S f)))); [lia|].
  rewrite (paren_atom_transparent f q lp x rp r a Hl Hr Ha Ho).
  apply (pexpr_fuel_mono (S f)); [lia|exact H].
Qed.
Print Assumptions paren_atom_closure.
