(* Tie obligations: the VM's numbering and limits in the Go source equal the pinned ones. *)
From Coq Require Import List NArith String.
From BCL Require Gen.GenTables Spec.Pinned.
Import ListNotations.
Open Scope string_scope.
Fixpoint get (k : string) (l : list (string * N)) : option N :=
  match l with [] => None | (k', v) :: r => if String.eqb k k' then Some v else get k r end.
Lemma tie_opcodes : GenTables.opcodes = Pinned.opcodes. Proof. reflexivity. Qed.
Lemma tie_pushing_ops : GenTables.pushing_ops = Pinned.pushing_ops. Proof. reflexivity. Qed.
Lemma tie_limits : get "stackSize" GenTables.constants = Some 1024%N /\ get "blockStackSize" GenTables.constants = Some 16%N.
Proof. split; reflexivity. Qed.
Lemma tie_bind_selectors : GenTables.bind_selectors = Pinned.bind_selectors. Proof. reflexivity. Qed.
Lemma tie_bind_targets : GenTables.bind_targets = Pinned.bind_targets. Proof. reflexivity. Qed.
