(* Tie obligations: the VM's numbering and limits in the Go source equal the pinned ones. *)
From BCL Require Gen.GenTables Spec.Pinned.
Lemma tie_opcodes : GenTables.opcodes = Pinned.opcodes. Proof. reflexivity. Qed.
Lemma tie_pushing_ops : GenTables.pushing_ops = Pinned.pushing_ops. Proof. reflexivity. Qed.
Lemma tie_vm_constants : GenTables.constants = Pinned.constants. Proof. reflexivity. Qed.
Lemma tie_bind_selectors : GenTables.bind_selectors = Pinned.bind_selectors. Proof. reflexivity. Qed.
Lemma tie_bind_targets : GenTables.bind_targets = Pinned.bind_targets. Proof. reflexivity. Qed.
