(* Tie obligation: the synchronisation operations of the source are those Model/Proto.v models. *)
From Coq Require Import List String.
From BCL Require Gen.GenTables Spec.Pinned.
Lemma tie_sync_skeleton : GenTables.sync_skeleton = Pinned.sync_skeleton.
Proof. reflexivity. Qed.
