(* LexFuel.v: the result of the lexer does not depend on the fuel and on the step count, once
   both exceed the number of unread bytes.  `lex [src]` uses 2 + length src for both, so two
   sources of different lengths run with different bounds; this file makes them comparable. *)
From Coq Require Import Lia ZifyN ZifyNat ZifyBool.
From BCL Require Import Model.Lexer Proofs.LineCalcProofs Proofs.LexerProofs Proofs.LayoutProofs
  Proofs.ParserInvProofs.
Open Scope N_scope.

(* number of bytes not yet read (window and chunks to come) *)
Definition U (c : cur) : nat := length (unread c).

Lemma abs_unread : forall c, abs c = (gpos c, before c, unread c, width c, out c).
Proof. reflexivity. Qed.

(* ------------------------------------------------------------------ *)
(* 1. how the primitives move U                                        *)

Lemma next_unread : forall c,
  (fst (next c) = eof /\ unread (snd (next c)) = unread c) \/
  (fst (next c) <> eof /\ exists w, (1 <= w <= length (unread c))%nat /\
     unread (snd (next c)) = skipn w (unread c)).
Proof.
  intros c. pose proof (next_abs c) as H. rewrite abs_unread in H. cbn [anext] in H.
  destruct (decode_rune (unread c)) as [r w] eqn:ED.
  destruct w as [|w].
  - left. injection H as H1 _ _ H2 _ _.
    split; [symmetry; exact H1|symmetry; exact H2].
  - right. injection H as H1 _ _ H2 _ _. fold (unread (snd (next c))) in H2.
    split; [rewrite <- H1; unfold eof; lia|].
    exists (S w). split; [|symmetry; exact H2].
    destruct (unread c) as [|b l] eqn:EU; [cbn in ED; discriminate ED|].
    apply (decode_rune_width _ _ _ ED). discriminate.
Qed.

Lemma next_U_le : forall c, (U (snd (next c)) <= U c)%nat.
Proof.
  intros c. unfold U. destruct (next_unread c) as [[_ ->]|[_ (w & Hw & ->)]]; [lia|].
  rewrite skipn_length. lia.
Qed.

Lemma next_U_lt : forall c, fst (next c) <> eof -> (U (snd (next c)) < U c)%nat.
Proof.
  intros c Hne. unfold U. destruct (next_unread c) as [[He _]|[_ (w & Hw & ->)]]; [congruence|].
  rewrite skipn_length. lia.
Qed.

Lemma nb_unread : forall c, unread (backup (snd (next c))) = unread c.
Proof.
  intros c. pose proof (nb_abw c) as H. unfold abw in H. injection H as _ _ H _. exact H.
Qed.

Lemma nb_U : forall c, U (backup (snd (next c))) = U c.
Proof. intros c. unfold U. rewrite nb_unread. reflexivity. Qed.

Lemma peek_U : forall c, U (snd (peek c)) = U c.
Proof. intros c. unfold peek. pose proof (nb_U c) as H. destruct (next c) as [r c1]. exact H. Qed.

Lemma accept_U : forall v c, (U (snd (accept v c)) <= U c)%nat.
Proof.
  intros v c. unfold accept. pose proof (nb_U c) as H1. pose proof (next_U_le c) as H2.
  destruct (next c) as [r c1]. cbn [snd] in *. destruct (zin r v); cbn [snd]; lia.
Qed.

Lemma accept_run_f_U : forall fuel p acc c, (U (snd (accept_run_f fuel p acc c)) <= U c)%nat.
Proof.
  induction fuel as [|f IH]; intros p acc c; cbn [accept_run_f snd]; [lia|].
  pose proof (nb_U c) as H1. pose proof (next_U_le c) as H2.
  destruct (next c) as [r c1]. cbn [snd] in *. destruct (p r); cbn [snd]; [|lia].
  specialize (IH p true c1). lia.
Qed.

Lemma accept_run_U : forall fuel v c, (U (snd (accept_run fuel v c)) <= U c)%nat.
Proof. intros. apply accept_run_f_U. Qed.

Lemma zin_eof : forall l, zin eof l = false.
Proof.
  induction l as [|x l IH]; [reflexivity|]. cbn [zin existsb]. fold (zin eof l). rewrite IH.
  unfold eof. destruct (Z.eqb_spec (-1) (Z.of_N x)); [lia|reflexivity].
Qed.

(* ------------------------------------------------------------------ *)
(* 2. the loops: more fuel than unread bytes is as good as any amount   *)

Lemma accept_run_f_fuel : forall f f' p acc c, p eof = false ->
  (U c < f)%nat -> (U c < f')%nat -> accept_run_f f p acc c = accept_run_f f' p acc c.
Proof.
  induction f as [|f IH]; intros f' p acc c Hp H1 H2; [lia|]. destruct f' as [|f']; [lia|].
  cbn [accept_run_f]. pose proof (next_U_lt c) as HL.
  destruct (next c) as [r c1]. cbn [fst snd] in HL.
  destruct (p r) eqn:Er; [|reflexivity].
  assert (r <> eof) by (intros ->; congruence). specialize (HL H).
  apply IH; [exact Hp|lia|lia].
Qed.

Lemma accept_run_fuel : forall f f' v c,
  (U c < f)%nat -> (U c < f')%nat -> accept_run f v c = accept_run f' v c.
Proof. intros. unfold accept_run. apply accept_run_f_fuel; [apply zin_eof|assumption..]. Qed.

Lemma lex_space_fuel : forall f f' c,
  (U c < f)%nat -> (U c < f')%nat -> lex_space f c = lex_space f' c.
Proof.
  intros. unfold lex_space. rewrite (accept_run_f_fuel f f') by (auto; reflexivity). reflexivity.
Qed.

Lemma lex_line_comment_fuel : forall f f' c,
  (U c < f)%nat -> (U c < f')%nat -> lex_line_comment f c = lex_line_comment f' c.
Proof.
  induction f as [|f IH]; intros f' c H1 H2; [lia|]. destruct f' as [|f']; [lia|].
  cbn [lex_line_comment]. pose proof (next_U_lt c) as HL.
  destruct (next c) as [r c1]. cbn [fst snd] in HL.
  destruct (is_eol r || Z.eqb r eof) eqn:Er; [reflexivity|].
  assert (r <> eof).
  { intros ->. rewrite Z.eqb_refl, Bool.orb_true_r in Er. discriminate. }
  specialize (HL H). apply IH; lia.
Qed.

Lemma lex_ident_fuel : forall f f' c,
  (U c < f)%nat -> (U c < f')%nat -> lex_ident f c = lex_ident f' c.
Proof.
  induction f as [|f IH]; intros f' c H1 H2; [lia|]. destruct f' as [|f']; [lia|].
  cbn [lex_ident]. pose proof (next_U_lt c) as HL.
  destruct (next c) as [r c1]. cbn [fst snd] in HL.
  destruct (is_alnum r || Z.eqb r 95) eqn:Er; [|reflexivity].
  assert (r <> eof) by (intros ->; discriminate Er).
  specialize (HL H). apply IH; lia.
Qed.

Lemma lex_quote_fuel : forall f f' c,
  (U c < f)%nat -> (U c < f')%nat -> lex_quote f c = lex_quote f' c.
Proof.
  induction f as [|f IH]; intros f' c H1 H2; [lia|]. destruct f' as [|f']; [lia|].
  cbn [lex_quote]. pose proof (next_U_lt c) as HL.
  destruct (next c) as [r c1]. cbn [fst snd] in HL.
  destruct (Z.eqb r 92) eqn:E92.
  - assert (r <> eof) by (intros ->; discriminate E92). specialize (HL H).
    pose proof (next_U_le c1) as HL2. destruct (next c1) as [r2 c2]. cbn [snd] in HL2.
    destruct (negb (Z.eqb r2 eof) && negb (Z.eqb r2 10)); [|reflexivity].
    apply IH; lia.
  - destruct (Z.eqb r eof || Z.eqb r 10) eqn:Ee; [reflexivity|].
    destruct (Z.eqb r 34); [reflexivity|].
    assert (r <> eof) by (intros ->; discriminate Ee). specialize (HL H).
    apply IH; lia.
Qed.

(* the straight-line state functions: walk through both sides in step *)
Ltac ustep :=
  match goal with
  | |- (let '(_, _) := (let '(_, _) := accept ?v ?a in _) in _) = _ =>
      pose proof (accept_U v a); destruct (accept v a) as [? ?]; cbn [snd] in *
  | |- (let '(_, _) := accept ?v ?a in _) = _ =>
      pose proof (accept_U v a); destruct (accept v a) as [? ?]; cbn [snd] in *
  | |- (let '(_, _) := peek ?a in _) = _ =>
      pose proof (peek_U a); destruct (peek a) as [? ?]; cbn [snd] in *
  | |- (let '(_, _) := accept_run ?f ?v ?a in _) = (let '(_, _) := accept_run ?f' ?v ?a in _) =>
      rewrite (accept_run_fuel f f' v a) by lia;
      pose proof (accept_run_U f' v a); destruct (accept_run f' v a) as [? ?]; cbn [snd] in *
  | |- (let '(_, _) := (if ?d then _ else _) in _) = _ => destruct d; cbv beta iota
  | |- (if ?d then _ else _) = _ => destruct d; try reflexivity
  end.

Lemma lex_float_fuel : forall f f' c,
  (U c < f)%nat -> (U c < f')%nat -> lex_float f c = lex_float f' c.
Proof. intros f f' c H1 H2. unfold lex_float. repeat ustep. Qed.

Lemma lex_hex_fuel : forall f f' c,
  (U c < f)%nat -> (U c < f')%nat -> lex_hex f c = lex_hex f' c.
Proof. intros f f' c H1 H2. unfold lex_hex. repeat ustep. Qed.

Lemma lex_number_tail_fuel : forall f f' c,
  (U c < f)%nat -> (U c < f')%nat -> lex_number_tail f c = lex_number_tail f' c.
Proof.
  intros f f' c H1 H2. unfold lex_number_tail.
  repeat ustep; first [apply lex_hex_fuel|apply lex_float_fuel]; lia.
Qed.

Theorem lex_start_fuel : forall f f' c,
  (U c < f)%nat -> (U c < f')%nat -> lex_start f c = lex_start f' c.
Proof.
  intros f f' c H1 H2. unfold lex_start.
  pose proof (next_U_le c) as HL. pose proof (nb_U c) as HB.
  destruct (next c) as [r c1] eqn:EN. cbn [snd] in *.
  destruct (Z.eqb r eof); [reflexivity|]. cbv zeta.
  destruct (two_rune_of r) as [[r2want t2]|]; [reflexivity|].
  destruct (one_rune_of r); [reflexivity|].
  destruct (is_space r); [apply lex_space_fuel; lia|].
  destruct (Z.eqb r 35); [apply lex_line_comment_fuel; lia|].
  destruct (Z.eqb r 34); [apply lex_quote_fuel; lia|].
  destruct (is_alpha r || Z.eqb r 95); [apply lex_ident_fuel; lia|].
  destruct (is_digit_r r); [|reflexivity].
  rewrite !lex_number_eq. apply lex_number_tail_fuel; lia.
Qed.
Print Assumptions lex_start_fuel.

(* ------------------------------------------------------------------ *)
(* 3. the run                                                           *)

(* under the invariant of LexerProofs, gpos + U is the length of the whole input *)
Lemma Inv_U : forall all c, Inv all c -> (N.to_nat (gpos c) + U c = length (concat all))%nat.
Proof.
  intros all c (recv & Ha & _ & Hg & _). unfold U, unread. rewrite Ha, !app_length.
  unfold nlen in Hg. lia.
Qed.

(* a step that goes on has consumed input *)
Lemma lex_start_progress : forall all f c go c',
  Inv all c -> BG c -> (1 <= f)%nat -> lex_start f c = (go, c') ->
  Inv all c' /\ (go = true -> BG c' /\ (U c' < U c)%nat).
Proof.
  intros all f c go c' HI B Hf E.
  pose proof (lex_start_inv all f c HI) as HI1. unfold Ip in HI1.
  pose proof (lex_start_resS f c Hf B) as HR. unfold ResS in HR.
  rewrite E in HI1, HR. cbn [fst snd] in *. split; [exact HI1|].
  intros ->. destruct HR as [HE HG]. split; [exact (Ext_BG _ _ HE)|].
  pose proof (Inv_U _ _ HI). pose proof (Inv_U _ _ HI1). lia.
Qed.

Theorem lex_run_stable : forall all s s' f f' c,
  Inv all c -> BG c ->
  (U c < s)%nat -> (U c < s')%nat -> (U c < f)%nat -> (U c < f')%nat ->
  lex_run s f c = lex_run s' f' c.
Proof.
  intros all. induction s as [|s IH]; intros s' f f' c HI B Hs Hs' Hf Hf'; [lia|].
  destruct s' as [|s']; [lia|]. cbn [lex_run].
  rewrite (lex_start_fuel f f' c Hf Hf').
  destruct (lex_start f' c) as [go c1] eqn:E.
  destruct (lex_start_progress all f' c go c1 HI B ltac:(lia) E) as [HI1 HP].
  destruct go; [|reflexivity].
  destruct (HP eq_refl) as [B1 HU]. apply IH; auto; lia.
Qed.
Print Assumptions lex_run_stable.

(* k steps, all of which go on *)
Fixpoint lex_steps (k fuel : nat) (c : cur) : option cur :=
  match k with
  | O => Some c
  | S k' => let '(go, c1) := lex_start fuel c in if go then lex_steps k' fuel c1 else None
  end.

Lemma lex_steps_run : forall k s fuel c c',
  lex_steps k fuel c = Some c' -> lex_run (k + s) fuel c = lex_run s fuel c'.
Proof.
  induction k as [|k IH]; intros s fuel c c' H; cbn [lex_steps] in H.
  - injection H as ->. reflexivity.
  - cbn [Nat.add lex_run]. destruct (lex_start fuel c) as [go c1].
    destruct go; [|discriminate H]. apply IH. exact H.
Qed.

Lemma lex_steps_app : forall k j fuel c c' c'',
  lex_steps k fuel c = Some c' -> lex_steps j fuel c' = Some c'' ->
  lex_steps (k + j) fuel c = Some c''.
Proof.
  induction k as [|k IH]; intros j fuel c c' c'' H1 H2; cbn [lex_steps] in H1.
  - injection H1 as ->. exact H2.
  - cbn [Nat.add lex_steps]. destruct (lex_start fuel c) as [go c1].
    destruct go; [|discriminate H1]. eapply IH; eassumption.
Qed.

Lemma lex_steps_progress : forall all k f c c',
  Inv all c -> BG c -> (1 <= f)%nat -> lex_steps k f c = Some c' ->
  Inv all c' /\ BG c' /\ (U c' + k <= U c)%nat.
Proof.
  intros all. induction k as [|k IH]; intros f c c' HI B Hf H; cbn [lex_steps] in H.
  - injection H as <-. repeat split; auto; lia.
  - destruct (lex_start f c) as [go c1] eqn:E.
    destruct (lex_start_progress all f c go c1 HI B Hf E) as [HI1 HP].
    destruct go; [|discriminate H]. destruct (HP eq_refl) as [B1 HU].
    destruct (IH f c1 c' HI1 B1 Hf H) as (HI2 & B2 & HU2). repeat split; auto; lia.
Qed.

Lemma lex_steps_fuel : forall all k f f' c,
  Inv all c -> BG c -> (U c < f)%nat -> (U c < f')%nat ->
  lex_steps k f c = lex_steps k f' c.
Proof.
  intros all. induction k as [|k IH]; intros f f' c HI B Hf Hf'; [reflexivity|].
  cbn [lex_steps]. rewrite (lex_start_fuel f f' c Hf Hf').
  destruct (lex_start f' c) as [go c1] eqn:E.
  destruct (lex_start_progress all f' c go c1 HI B ltac:(lia) E) as [HI1 HP].
  destruct go; [|reflexivity]. destruct (HP eq_refl) as [B1 HU]. apply IH; auto; lia.
Qed.

(* the run of `lex`, restarted from a cursor reached after k steps with any sufficient bounds *)
Theorem lex_run_from : forall all k n c c' s f,
  Inv all c -> BG c -> (U c < n)%nat ->
  lex_steps k n c = Some c' -> (U c' < s)%nat -> (U c' < f)%nat ->
  lex_run n n c = lex_run s f c'.
Proof.
  intros all k n c c' s f HI B Hn H Hs Hf.
  destruct (lex_steps_progress all k n c c' HI B ltac:(lia) H) as (HI' & B' & HU).
  replace n with (k + (n - k))%nat at 1 by lia.
  rewrite (lex_steps_run k (n - k) n c c' H).
  apply (lex_run_stable all); auto; lia.
Qed.
Print Assumptions lex_run_from.
