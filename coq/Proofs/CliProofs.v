(* CliProofs.v: theorems about Model/Cli.v (model of cmd/bcl/args.go parseArgs) -- property C18.
   Flags may come in any order, before or after the file argument, repeated, long or short;
   a cluster "-dts" equals the separate flags; the usage errors; the derived --bdump name. *)
From Coq Require Import Lia ZifyN ZifyNat ZifyBool.
From BCL Require Import Model.Cli.
Open Scope N_scope.

(* ------------------------------------------------------------------ *)
(* 1. setters commute and are idempotent                               *)
(* ------------------------------------------------------------------ *)

Theorem flag_idempotent_commute : forall a,
  (set_d (set_d a) = set_d a /\ set_t (set_t a) = set_t a /\
   set_r (set_r a) = set_r a /\ set_s (set_s a) = set_s a) /\
  (set_d (set_t a) = set_t (set_d a) /\ set_d (set_r a) = set_r (set_d a) /\
   set_d (set_s a) = set_s (set_d a) /\ set_t (set_r a) = set_r (set_t a) /\
   set_t (set_s a) = set_s (set_t a) /\ set_r (set_s a) = set_s (set_r a)).
Proof. intros a. repeat split; reflexivity. Qed.
Print Assumptions flag_idempotent_commute.

(* ------------------------------------------------------------------ *)
(* basic specs of the byte-string helpers                              *)
(* ------------------------------------------------------------------ *)

Lemma bytes_eqb_true : forall a b, bytes_eqb a b = true -> a = b.
Proof.
  induction a as [|x a IH]; intros [|y b] H; cbn [bytes_eqb] in H; try discriminate; [reflexivity|].
  apply andb_true_iff in H. destruct H as [H1 H2].
  apply N.eqb_eq in H1. subst y. f_equal. apply IH; exact H2.
Qed.

Lemma bytes_eqb_refl : forall a, bytes_eqb a a = true.
Proof.
  induction a as [|x a IH]; cbn [bytes_eqb]; [reflexivity|].
  rewrite N.eqb_refl, IH. reflexivity.
Qed.

Lemma is_lit_true : forall w s, is_lit w s = true -> w = bs s.
Proof. intros w s H. apply bytes_eqb_true. exact H. Qed.

Lemma has_prefix_some : forall p s r, has_prefix p s = Some r -> s = p ++ r.
Proof.
  induction p as [|a p IH]; intros s r H.
  - destruct s; cbn [has_prefix] in H; injection H as H; subst; reflexivity.
  - destruct s as [|b s]; cbn [has_prefix] in H; [discriminate|].
    destruct (a =? b) eqn:E; [|discriminate].
    apply N.eqb_eq in E. subst b. cbn [app]. f_equal. apply IH. exact H.
Qed.

Lemma has_prefix_app : forall p r, has_prefix p (p ++ r) = Some r.
Proof.
  induction p as [|a p IH]; intros r; cbn [has_prefix app].
  - destruct r; reflexivity.
  - rewrite N.eqb_refl. apply IH.
Qed.

(* ------------------------------------------------------------------ *)
(* one step of the flag loop, by the kind of the argument              *)
(* ------------------------------------------------------------------ *)

Inductive action :=
| AHelp | ASet (g : pargs -> pargs) | ABdump (o : option bytes) | ABload (o : option bytes)
| AErr | AEnd | ACluster (cs : bytes) | AFile.

Definition classify (arg : bytes) : action :=
  if is_lit arg "-h" then AHelp
  else if is_lit arg "-d" || is_lit arg "--disasm" then ASet set_d
  else if is_lit arg "-t" || is_lit arg "--trace" then ASet set_t
  else if is_lit arg "-r" || is_lit arg "--result" then ASet set_r
  else if is_lit arg "-s" || is_lit arg "--stats" then ASet set_s
  else match has_prefix (bs "--bdump") arg with
  | Some r => match opt_file r with Some o => ABdump o | None => AErr end
  | None =>
  match has_prefix (bs "--bload") arg with
  | Some r => match opt_file r with Some o => ABload o | None => AErr end
  | None =>
    if is_lit arg "--" then AEnd
    else match arg with
         | 45 :: c1 :: c2 :: cs => if forallb is_lower (c1 :: c2 :: cs) then ACluster (c1 :: c2 :: cs) else AErr
         | 45 :: _ :: [] => AErr
         | _ => AFile
         end
  end end.

Lemma flags_loop_S : forall f arg more a rest,
  flags_loop (S f) (arg :: more) a rest =
  match classify arg with
  | AHelp => inr (set_help a, rest)
  | ASet g => flags_loop f more (g a) rest
  | ABdump o => flags_loop f more (set_bdump a o) rest
  | ABload o => flags_loop f more (set_bload a o) rest
  | AErr => inl (UUnknownFlag arg)
  | AEnd => inr (a, rest ++ more)
  | ACluster cs => flags_loop f (map (fun c => [45; c]) cs ++ more) a rest
  | AFile => flags_loop f more a (rest ++ [arg])
  end.
Proof.
  intros f arg more a rest. unfold classify. cbn [flags_loop].
  destruct (is_lit arg "-h"); [reflexivity|].
  destruct (is_lit arg "-d" || is_lit arg "--disasm"); [reflexivity|].
  destruct (is_lit arg "-t" || is_lit arg "--trace"); [reflexivity|].
  destruct (is_lit arg "-r" || is_lit arg "--result"); [reflexivity|].
  destruct (is_lit arg "-s" || is_lit arg "--stats"); [reflexivity|].
  destruct (has_prefix (bs "--bdump") arg) as [r|].
  { destruct (opt_file r); reflexivity. }
  destruct (has_prefix (bs "--bload") arg) as [r|].
  { destruct (opt_file r); reflexivity. }
  destruct (is_lit arg "--"); [reflexivity|].
  destruct arg as [|b r]; [reflexivity|].
  destruct b as [|p]; [reflexivity|].
  do 6 (destruct p as [p|p|]; try reflexivity).
  destruct r as [|c1 [|c2 cs]]; try reflexivity.
  destruct (forallb is_lower (c1 :: c2 :: cs)); reflexivity.
Qed.

Lemma flags_loop_nil : forall n a rest, flags_loop n [] a rest = inr (a, rest).
Proof. intros [|n] a rest; reflexivity. Qed.

(* the shape test at the end of the chain *)
Definition is_file_arg (f : bytes) : Prop := f = [45] \/ forall r, f <> 45 :: r.

Lemma tail_case : forall (arg : bytes),
  (exists c1 c2 cs, arg = 45 :: c1 :: c2 :: cs) \/ (exists x, arg = [45; x]) \/ is_file_arg arg.
Proof.
  intros [|b r].
  - right; right; right. intros r; discriminate.
  - destruct (N.eq_dec b 45) as [->|Hb].
    + destruct r as [|c1 [|c2 cs]].
      * right; right; left; reflexivity.
      * right; left; eexists; reflexivity.
      * left; do 3 eexists; reflexivity.
    + right; right; right. intros r' E. injection E as E _. contradiction.
Qed.

(* literals all start with '-' *)
Ltac lit_false E :=
  apply is_lit_true in E; cbn in E; try discriminate E.

Lemma classify_file : forall f, is_file_arg f -> classify f = AFile.
Proof.
  intros f [->|Hf]; [reflexivity|].
  destruct f as [|b r]; [reflexivity|].
  assert (Hb : b <> 45) by (intros ->; apply (Hf r); reflexivity).
  unfold classify.
  destruct (is_lit (b :: r) "-h") eqn:E; [lit_false E; congruence|clear E].
  destruct (is_lit (b :: r) "-d") eqn:E; [lit_false E; congruence|clear E].
  destruct (is_lit (b :: r) "--disasm") eqn:E; [lit_false E; congruence|clear E].
  destruct (is_lit (b :: r) "-t") eqn:E; [lit_false E; congruence|clear E].
  destruct (is_lit (b :: r) "--trace") eqn:E; [lit_false E; congruence|clear E].
  destruct (is_lit (b :: r) "-r") eqn:E; [lit_false E; congruence|clear E].
  destruct (is_lit (b :: r) "--result") eqn:E; [lit_false E; congruence|clear E].
  destruct (is_lit (b :: r) "-s") eqn:E; [lit_false E; congruence|clear E].
  destruct (is_lit (b :: r) "--stats") eqn:E; [lit_false E; congruence|clear E].
  cbn [orb].
  destruct (has_prefix (bs "--bdump") (b :: r)) eqn:E;
    [apply has_prefix_some in E; cbn in E; congruence|clear E].
  destruct (has_prefix (bs "--bload") (b :: r)) eqn:E;
    [apply has_prefix_some in E; cbn in E; congruence|clear E].
  destruct (is_lit (b :: r) "--") eqn:E; [lit_false E; congruence|clear E].
  destruct b as [|p]; [reflexivity|].
  do 6 (destruct p as [p|p|]; try reflexivity).
  contradiction Hb; reflexivity.
Qed.

(* the eight spellings of the four boolean flags *)
Definition simple_flag (a : bytes) : Prop :=
  a = bs "-d" \/ a = bs "--disasm" \/ a = bs "-t" \/ a = bs "--trace" \/
  a = bs "-r" \/ a = bs "--result" \/ a = bs "-s" \/ a = bs "--stats".

Definition is_d (a : bytes) : bool := is_lit a "-d" || is_lit a "--disasm".
Definition is_t (a : bytes) : bool := is_lit a "-t" || is_lit a "--trace".
Definition is_r (a : bytes) : bool := is_lit a "-r" || is_lit a "--result".
Definition is_s (a : bytes) : bool := is_lit a "-s" || is_lit a "--stats".

Definition apply_flag (arg : bytes) : pargs -> pargs :=
  if is_d arg then set_d else if is_t arg then set_t else if is_r arg then set_r
  else if is_s arg then set_s else fun a => a.

Lemma classify_simple : forall arg, simple_flag arg -> classify arg = ASet (apply_flag arg).
Proof.
  intros arg H. unfold simple_flag in H.
  repeat (destruct H as [H|H]; [subst arg; reflexivity|]). subst arg; reflexivity.
Qed.

(* which of d, t, r, s are mentioned (long or short, any number of times) *)
Definition letters (l : list bytes) : bool * bool * bool * bool :=
  (existsb is_d l, existsb is_t l, existsb is_r l, existsb is_s l).

Definition with_letters (k : bool * bool * bool * bool) (a : pargs) : pargs :=
  let '(d, t, r, s) := k in
  mkArgs (a_file a) (d || a_disasm a) (t || a_trace a) (r || a_result a) (s || a_stats a)
         (a_bdump a) (a_bload a) (a_bdumpFile a) (a_bloadFile a) (a_help a).

Definition apply_flags (l : list bytes) (a : pargs) : pargs :=
  fold_left (fun a x => apply_flag x a) l a.

Lemma apply_flags_letters : forall l, Forall simple_flag l ->
  forall a, apply_flags l a = with_letters (letters l) a.
Proof.
  induction 1 as [|x l Hx Hl IH]; intros a.
  - destruct a; reflexivity.
  - unfold apply_flags. cbn [fold_left]. fold (apply_flags l (apply_flag x a)).
    rewrite IH. unfold letters. cbn [existsb].
    unfold simple_flag in Hx.
    repeat (destruct Hx as [Hx|Hx];
      [subst x; cbv [with_letters];
       destruct (existsb is_d l), (existsb is_t l), (existsb is_r l), (existsb is_s l);
       reflexivity|]).
    subst x; cbv [with_letters];
       destruct (existsb is_d l), (existsb is_t l), (existsb is_r l), (existsb is_s l);
       reflexivity.
Qed.

(* ------------------------------------------------------------------ *)
(* running the loop over a block of simple flags                       *)
(* ------------------------------------------------------------------ *)

Lemma run_simple : forall l, Forall simple_flag l -> forall n more a rest,
  flags_loop (length l + n) (l ++ more) a rest = flags_loop n more (apply_flags l a) rest.
Proof.
  induction 1 as [|x l Hx Hl IH]; intros n more a rest; [reflexivity|].
  cbn [length app plus]. rewrite flags_loop_S, (classify_simple x Hx). apply IH.
Qed.

Lemma run_simple_nil : forall l, Forall simple_flag l -> forall n a rest,
  flags_loop (length l + n) l a rest = inr (apply_flags l a, rest).
Proof.
  intros l Hl n a rest. rewrite <- (app_nil_r l) at 2.
  rewrite (run_simple l Hl), flags_loop_nil. reflexivity.
Qed.

Lemma apply_flags_app : forall l1 l2 a, apply_flags (l1 ++ l2) a = apply_flags l2 (apply_flags l1 a).
Proof. intros. unfold apply_flags. apply fold_left_app. Qed.

(* the part of parse_args after the loop *)
Definition finish (a : pargs) (rest : list bytes) : usage_err + pargs :=
    if a_help a then inr a else
    match (match rest with [] => inr a | [f] => inr (set_file a f) | _ => inl UTooMany end) with
    | inl e => inl e
    | inr a1 =>
      let a2r :=
        if a_bdump a1 && match a_bdumpFile a1 with [] => true | _ => false end then
          if has_suffix (bs ".bcl") (a_file a1)
          then inr (set_files a1 (a_file a1) (firstn (length (a_file a1) - 4) (a_file a1) ++ bs ".bcb"))
          else inl UBdumpName
        else inr a1 in
      match a2r with
      | inl e => inl e
      | inr a2 =>
        let nofile := match a_file a2 with [] => true | _ => false end in
        let nobload := match a_bloadFile a2 with [] => true | _ => false end in
        let a3r := if a_bload a2 then
                     if nofile && nobload then inr a2
                     else if negb nofile && negb nobload then inl UConflict
                     else if nofile then inr (set_file a2 (a_bloadFile a2)) else inr a2
                   else inr a2 in
        match a3r with
        | inl e => inl e
        | inr a3 => inr (match a_file a3 with [] => set_file a3 [45] | _ => a3 end)
        end
      end
    end.

Definition sumlen (args : list bytes) : nat := fold_left (fun n s => (n + length s)%nat) args 0%nat.
Definition fuel_of (args : list bytes) : nat := (length args + sumlen args + 1)%nat.

Lemma parse_args_eq : forall args,
  parse_args args =
  match flags_loop (fuel_of args) args args0 [] with
  | inl e => inl e
  | inr (a, rest) => finish a rest
  end.
Proof. reflexivity. Qed.

Lemma fuel_of_app : forall l1 l2, exists k, fuel_of (l1 ++ l2) = (length l1 + (length l2 + S k))%nat.
Proof.
  intros. exists (sumlen (l1 ++ l2)). unfold fuel_of. rewrite app_length. lia.
Qed.

(* ------------------------------------------------------------------ *)
(* 2. flags in any order, before or after the file, repeated, long or short *)
(* ------------------------------------------------------------------ *)

Lemma run_line : forall pre post file k a rest,
  Forall simple_flag pre -> Forall simple_flag post -> is_file_arg file ->
  flags_loop (length pre + (length (file :: post) + S k)) (pre ++ file :: post) a rest
  = inr (apply_flags (pre ++ post) a, rest ++ [file]).
Proof.
  intros pre post file k a rest Hpre Hpost Hf.
  rewrite (run_simple pre Hpre). cbn [length plus].
  rewrite flags_loop_S, (classify_file file Hf).
  rewrite <- (app_nil_r post) at 2. rewrite (run_simple post Hpost), flags_loop_nil.
  rewrite apply_flags_app. reflexivity.
Qed.

Lemma parse_line : forall pre post file,
  Forall simple_flag pre -> Forall simple_flag post -> is_file_arg file ->
  parse_args (pre ++ [file] ++ post) = finish (with_letters (letters (pre ++ post)) args0) [file].
Proof.
  intros pre post file Hpre Hpost Hf. rewrite parse_args_eq. cbn [app].
  destruct (fuel_of_app pre (file :: post)) as [k ->].
  rewrite (run_line pre post file k args0 [] Hpre Hpost Hf). cbn [app].
  rewrite apply_flags_letters by (apply Forall_app; split; assumption). reflexivity.
Qed.

Theorem C18_flag_order : forall l1 l2 file,
  Forall simple_flag l1 -> Forall simple_flag l2 -> letters l1 = letters l2 ->
  forall pre1 post1 pre2 post2, l1 = pre1 ++ post1 -> l2 = pre2 ++ post2 ->
  is_file_arg file ->
  parse_args (pre1 ++ [file] ++ post1) = parse_args (pre2 ++ [file] ++ post2).
Proof.
  intros l1 l2 file H1 H2 HL pre1 post1 pre2 post2 E1 E2 Hf. subst l1 l2.
  apply Forall_app in H1. destruct H1 as [H1a H1b].
  apply Forall_app in H2. destruct H2 as [H2a H2b].
  rewrite !parse_line by assumption. rewrite HL. reflexivity.
Qed.
Print Assumptions C18_flag_order.

(* the same with "same set of flags" spelled out: every letter mentioned (long or short) on
   one side is mentioned on the other *)
Definition flag_letter (a : bytes) : option N :=
  if is_d a then Some 100 else if is_t a then Some 116 else if is_r a then Some 114
  else if is_s a then Some 115 else None.
Definition mentions (c : N) (l : list bytes) : Prop := exists a, In a l /\ flag_letter a = Some c.
Definition same_flags (l1 l2 : list bytes) : Prop := forall c, mentions c l1 <-> mentions c l2.

Lemma is_x_excl : forall a,
  (is_t a = true -> is_d a = false) /\
  (is_r a = true -> is_d a = false /\ is_t a = false) /\
  (is_s a = true -> is_d a = false /\ is_t a = false /\ is_r a = false).
Proof.
  intros a. unfold is_t, is_r, is_s. split; [|split]; intros H; apply orb_true_iff in H;
    destruct H as [H|H]; apply is_lit_true in H; subst a; repeat split; reflexivity.
Qed.

Lemma existsb_mentions : forall l,
  (existsb is_d l = true <-> mentions 100 l) /\ (existsb is_t l = true <-> mentions 116 l) /\
  (existsb is_r l = true <-> mentions 114 l) /\ (existsb is_s l = true <-> mentions 115 l).
Proof.
  intros l. unfold mentions. rewrite !existsb_exists.
  repeat split; intros [a [Hin Ha]]; exists a; (split; [exact Hin|]);
    destruct (is_x_excl a) as [Ht [Hr Hs]]; unfold flag_letter in *.
  - rewrite Ha; reflexivity.
  - destruct (is_d a); [reflexivity|]. destruct (is_t a); [discriminate|].
    destruct (is_r a); [discriminate|]. destruct (is_s a); discriminate.
  - rewrite (Ht Ha), Ha. reflexivity.
  - destruct (is_d a); [discriminate|]. destruct (is_t a); [reflexivity|].
    destruct (is_r a); [discriminate|]. destruct (is_s a); discriminate.
  - destruct (Hr Ha) as [-> ->]. rewrite Ha. reflexivity.
  - destruct (is_d a); [discriminate|]. destruct (is_t a); [discriminate|].
    destruct (is_r a); [reflexivity|]. destruct (is_s a); discriminate.
  - destruct (Hs Ha) as [-> [-> ->]]. rewrite Ha. reflexivity.
  - destruct (is_d a); [discriminate|]. destruct (is_t a); [discriminate|].
    destruct (is_r a); [discriminate|]. destruct (is_s a); [reflexivity|discriminate].
Qed.

Lemma bool_iff_eq : forall a b : bool, (a = true <-> b = true) -> a = b.
Proof. intros [|] [|] [H1 H2]; try reflexivity; [symmetry; apply H1|apply H2]; reflexivity. Qed.

Lemma same_flags_letters : forall l1 l2, same_flags l1 l2 -> letters l1 = letters l2.
Proof.
  intros l1 l2 H. unfold letters.
  destruct (existsb_mentions l1) as [D1 [T1 [R1 S1]]].
  destruct (existsb_mentions l2) as [D2 [T2 [R2 S2]]].
  f_equal; [f_equal; [f_equal|]|]; apply bool_iff_eq.
  - rewrite D1, D2. apply H.
  - rewrite T1, T2. apply H.
  - rewrite R1, R2. apply H.
  - rewrite S1, S2. apply H.
Qed.

Theorem C18_flag_order_set : forall pre1 post1 pre2 post2 file,
  Forall simple_flag (pre1 ++ post1) -> Forall simple_flag (pre2 ++ post2) ->
  same_flags (pre1 ++ post1) (pre2 ++ post2) -> is_file_arg file ->
  parse_args (pre1 ++ [file] ++ post1) = parse_args (pre2 ++ [file] ++ post2).
Proof.
  intros pre1 post1 pre2 post2 file H1 H2 HS Hf.
  apply (C18_flag_order _ _ file H1 H2 (same_flags_letters _ _ HS)); auto.
Qed.
Print Assumptions C18_flag_order_set.

(* ------------------------------------------------------------------ *)
(* 3. fuel: a bound on the number of loop iterations; clusters          *)
(* ------------------------------------------------------------------ *)

(* iterations an argument can cost: a cluster of k letters costs 1 + k, everything else 1 *)
Definition m (arg : bytes) : nat := if (length arg <=? 2)%nat then 1%nat else length arg.
Fixpoint M (args : list bytes) : nat :=
  match args with [] => 0%nat | a :: r => (m a + M r)%nat end.

Lemma m_pos : forall a, (1 <= m a)%nat.
Proof. intros a. unfold m. destruct (Nat.leb_spec (length a) 2); lia. Qed.

Lemma m_le : forall a, (m a <= 1 + length a)%nat.
Proof. intros a. unfold m. destruct (Nat.leb_spec (length a) 2); lia. Qed.

Lemma M_app : forall l1 l2, M (l1 ++ l2) = (M l1 + M l2)%nat.
Proof. induction l1 as [|x l1 IH]; intros l2; cbn [M app]; [reflexivity|]. rewrite IH. lia. Qed.

Lemma M_expand : forall cs, M (map (fun c => [45; c]) cs) = length cs.
Proof. induction cs as [|c cs IH]; cbn [M map length]; [reflexivity|]. rewrite IH. reflexivity. Qed.

Lemma classify_cluster_inv : forall arg cs,
  classify arg = ACluster cs -> arg = 45 :: cs /\ (2 <= length cs)%nat.
Proof.
  intros arg cs H. unfold classify in H.
  destruct (is_lit arg "-h"); [discriminate|].
  destruct (is_lit arg "-d" || is_lit arg "--disasm"); [discriminate|].
  destruct (is_lit arg "-t" || is_lit arg "--trace"); [discriminate|].
  destruct (is_lit arg "-r" || is_lit arg "--result"); [discriminate|].
  destruct (is_lit arg "-s" || is_lit arg "--stats"); [discriminate|].
  destruct (has_prefix (bs "--bdump") arg) as [r|]; [destruct (opt_file r); discriminate|].
  destruct (has_prefix (bs "--bload") arg) as [r|]; [destruct (opt_file r); discriminate|].
  destruct (is_lit arg "--"); [discriminate|].
  destruct arg as [|b r]; [discriminate|].
  destruct b as [|p]; [discriminate|].
  do 6 (destruct p as [p|p|]; try discriminate).
  destruct r as [|c1 [|c2 cs']]; try discriminate.
  destruct (forallb is_lower (c1 :: c2 :: cs')); [|discriminate].
  injection H as <-. split; [reflexivity|cbn [length]; lia].
Qed.

(* more fuel than needed does not change the result *)
Theorem flags_loop_fuel_mono : forall n1 n2 args a rest,
  (M args <= n1)%nat -> (M args <= n2)%nat ->
  flags_loop n1 args a rest = flags_loop n2 args a rest.
Proof.
  induction n1 as [|n1 IH]; intros n2 args a rest H1 H2.
  - destruct args as [|arg more]; [rewrite !flags_loop_nil; reflexivity|].
    cbn [M] in H1. pose proof (m_pos arg). lia.
  - destruct args as [|arg more]; [rewrite !flags_loop_nil; reflexivity|].
    cbn [M] in H1, H2. pose proof (m_pos arg) as Hm.
    destruct n2 as [|n2]; [lia|].
    rewrite !flags_loop_S.
    destruct (classify arg) eqn:E; try reflexivity; try (apply IH; lia).
    apply classify_cluster_inv in E. destruct E as [-> Hlen].
    assert (Hm' : m (45 :: cs) = S (length cs)).
    { unfold m. cbn [length]. destruct (Nat.leb_spec (S (length cs)) 2); [lia|reflexivity]. }
    apply IH; rewrite M_app, M_expand; lia.
Qed.
Print Assumptions flags_loop_fuel_mono.

Lemma sumlen_cons : forall a l, sumlen (a :: l) = (length a + sumlen l)%nat.
Proof.
  intros a l. unfold sumlen. cbn [fold_left plus].
  assert (G : forall (l : list bytes) (k : nat), fold_left (fun n s => (n + length s)%nat) l k
                          = (k + fold_left (fun n s => (n + length s)%nat) l 0)%nat).
  { clear. induction l as [|x l IH]; intros k; cbn [fold_left plus]; [lia|].
    rewrite (IH (k + length x)%nat), (IH (length x)). lia. }
  apply G.
Qed.

Lemma M_le_fuel : forall args, (M args <= length args + sumlen args)%nat.
Proof.
  induction args as [|a l IH]; [cbn; lia|].
  rewrite sumlen_cons. cbn [M length]. pose proof (m_le a). lia.
Qed.

(* the fuel parse_args computes is enough *)
Corollary parse_args_fuel_enough : forall args n a rest,
  (fuel_of args <= n)%nat ->
  flags_loop n args a rest = flags_loop (fuel_of args) args a rest.
Proof.
  intros args n a rest H. pose proof (M_le_fuel args). unfold fuel_of in *.
  apply flags_loop_fuel_mono; lia.
Qed.

Lemma is_lower_not_dash : forall c, is_lower c = true -> c <> 45.
Proof. intros c H ->. discriminate H. Qed.

Lemma classify_cluster : forall cs, (2 <= length cs)%nat -> forallb is_lower cs = true ->
  classify (45 :: cs) = ACluster cs.
Proof.
  intros cs Hlen Hlow.
  destruct cs as [|c1 [|c2 cs]]; cbn [length] in Hlen; try lia.
  assert (Hc1 : c1 <> 45).
  { apply is_lower_not_dash. cbn [forallb] in Hlow. apply andb_true_iff in Hlow. apply Hlow. }
  unfold classify.
  destruct (is_lit (45 :: c1 :: c2 :: cs) "-h") eqn:E; [lit_false E; congruence|clear E].
  destruct (is_lit (45 :: c1 :: c2 :: cs) "-d") eqn:E; [lit_false E; congruence|clear E].
  destruct (is_lit (45 :: c1 :: c2 :: cs) "--disasm") eqn:E; [lit_false E; congruence|clear E].
  destruct (is_lit (45 :: c1 :: c2 :: cs) "-t") eqn:E; [lit_false E; congruence|clear E].
  destruct (is_lit (45 :: c1 :: c2 :: cs) "--trace") eqn:E; [lit_false E; congruence|clear E].
  destruct (is_lit (45 :: c1 :: c2 :: cs) "-r") eqn:E; [lit_false E; congruence|clear E].
  destruct (is_lit (45 :: c1 :: c2 :: cs) "--result") eqn:E; [lit_false E; congruence|clear E].
  destruct (is_lit (45 :: c1 :: c2 :: cs) "-s") eqn:E; [lit_false E; congruence|clear E].
  destruct (is_lit (45 :: c1 :: c2 :: cs) "--stats") eqn:E; [lit_false E; congruence|clear E].
  cbn [orb].
  destruct (has_prefix (bs "--bdump") (45 :: c1 :: c2 :: cs)) eqn:E;
    [apply has_prefix_some in E; cbn in E; congruence|clear E].
  destruct (has_prefix (bs "--bload") (45 :: c1 :: c2 :: cs)) eqn:E;
    [apply has_prefix_some in E; cbn in E; congruence|clear E].
  destruct (is_lit (45 :: c1 :: c2 :: cs) "--") eqn:E; [lit_false E; congruence|clear E].
  rewrite Hlow. reflexivity.
Qed.

(* a cluster of lower-case letters equals the separate flags (whatever the letters: an
   unknown letter or h behaves the same on both sides) *)
Theorem C18_cluster_gen : forall cs more,
  (2 <= length cs)%nat -> forallb is_lower cs = true ->
  parse_args ((45 :: cs) :: more) = parse_args (map (fun c => [45; c]) cs ++ more).
Proof.
  intros cs more Hlen Hlow. rewrite !parse_args_eq.
  assert (E : flags_loop (fuel_of ((45 :: cs) :: more)) ((45 :: cs) :: more) args0 []
            = flags_loop (fuel_of (map (fun c => [45; c]) cs ++ more))
                         (map (fun c => [45; c]) cs ++ more) args0 []).
  { assert (HF : fuel_of ((45 :: cs) :: more) = S (S (length more + sumlen ((45 :: cs) :: more)))).
    { unfold fuel_of, bytes. cbn [length]. lia. }
    rewrite HF, flags_loop_S, (classify_cluster cs Hlen Hlow).
    pose proof (M_le_fuel more) as H1.
    pose proof (M_le_fuel (map (fun c => [45; c]) cs ++ more)) as H2.
    apply flags_loop_fuel_mono.
    - rewrite M_app, M_expand, sumlen_cons. cbn [length]. unfold bytes in *. lia.
    - unfold fuel_of, bytes in *. lia. }
  rewrite E. reflexivity.
Qed.

Definition dtrs (c : N) : Prop := c = 100 \/ c = 116 \/ c = 114 \/ c = 115.

Theorem C18_cluster : forall cs more,
  (2 <= length cs)%nat -> Forall dtrs cs ->
  parse_args ((45 :: cs) :: more) = parse_args (map (fun c => [45; c]) cs ++ more).
Proof.
  intros cs more Hlen H. apply C18_cluster_gen; [exact Hlen|].
  apply forallb_forall. intros c Hc. rewrite Forall_forall in H.
  destruct (H c Hc) as [-> | [-> | [-> | ->]]]; reflexivity.
Qed.
Print Assumptions C18_cluster.

(* ------------------------------------------------------------------ *)
(* 4. usage errors                                                      *)
(* ------------------------------------------------------------------ *)

Lemma with_letters_help : forall k a, a_help (with_letters k a) = a_help a.
Proof. intros [[[d t] r] s] a. reflexivity. Qed.

(* an argument classified as an error, after any simple flags *)
Lemma parse_args_err : forall pre arg more,
  Forall simple_flag pre -> classify arg = AErr ->
  parse_args (pre ++ arg :: more) = inl (UUnknownFlag arg).
Proof.
  intros pre arg more Hpre Hc. rewrite parse_args_eq.
  replace (fuel_of (pre ++ arg :: more))
    with (length pre + S (length more + sumlen (pre ++ arg :: more) + 1))%nat
    by (unfold fuel_of; rewrite app_length; cbn [length]; unfold bytes; lia).
  rewrite (run_simple pre Hpre), flags_loop_S, Hc. reflexivity.
Qed.

(* "-x" for a letter that is not a flag *)
Lemma classify_unknown_letter : forall x,
  x <> 104 -> x <> 100 -> x <> 116 -> x <> 114 -> x <> 115 -> x <> 45 ->
  classify [45; x] = AErr.
Proof.
  intros x Hh Hd Ht Hr Hs Hm. unfold classify.
  destruct (is_lit [45; x] "-h") eqn:E; [lit_false E; congruence|clear E].
  destruct (is_lit [45; x] "-d") eqn:E; [lit_false E; congruence|clear E].
  destruct (is_lit [45; x] "--disasm") eqn:E; [lit_false E; congruence|clear E].
  destruct (is_lit [45; x] "-t") eqn:E; [lit_false E; congruence|clear E].
  destruct (is_lit [45; x] "--trace") eqn:E; [lit_false E; congruence|clear E].
  destruct (is_lit [45; x] "-r") eqn:E; [lit_false E; congruence|clear E].
  destruct (is_lit [45; x] "--result") eqn:E; [lit_false E; congruence|clear E].
  destruct (is_lit [45; x] "-s") eqn:E; [lit_false E; congruence|clear E].
  destruct (is_lit [45; x] "--stats") eqn:E; [lit_false E; congruence|clear E].
  cbn [orb].
  destruct (has_prefix (bs "--bdump") [45; x]) eqn:E;
    [apply has_prefix_some in E; cbn in E; congruence|clear E].
  destruct (has_prefix (bs "--bload") [45; x]) eqn:E;
    [apply has_prefix_some in E; cbn in E; congruence|clear E].
  destruct (is_lit [45; x] "--") eqn:E; [lit_false E; congruence|clear E].
  reflexivity.
Qed.

Theorem C18_err_unknown_letter : forall pre x more,
  Forall simple_flag pre ->
  x <> 104 -> x <> 100 -> x <> 116 -> x <> 114 -> x <> 115 -> x <> 45 ->
  parse_args (pre ++ [45; x] :: more) = inl (UUnknownFlag [45; x]).
Proof.
  intros pre x more Hpre Hh Hd Ht Hr Hs Hm.
  apply parse_args_err; [exact Hpre|]. apply classify_unknown_letter; assumption.
Qed.
Print Assumptions C18_err_unknown_letter.

(* "--word" that is none of the long flags and does not start with --bdump / --bload *)
Lemma classify_unknown_long : forall c w,
  let arg := 45 :: 45 :: c :: w in
  arg <> bs "--disasm" -> arg <> bs "--trace" -> arg <> bs "--result" -> arg <> bs "--stats" ->
  (forall r, arg <> bs "--bdump" ++ r) -> (forall r, arg <> bs "--bload" ++ r) ->
  classify arg = AErr.
Proof.
  intros c w arg H1 H2 H3 H4 H5 H6. unfold classify.
  destruct (is_lit arg "-h") eqn:E; [lit_false E|clear E].
  destruct (is_lit arg "-d") eqn:E; [lit_false E|clear E].
  destruct (is_lit arg "--disasm") eqn:E; [apply is_lit_true in E; contradiction|clear E].
  destruct (is_lit arg "-t") eqn:E; [lit_false E|clear E].
  destruct (is_lit arg "--trace") eqn:E; [apply is_lit_true in E; contradiction|clear E].
  destruct (is_lit arg "-r") eqn:E; [lit_false E|clear E].
  destruct (is_lit arg "--result") eqn:E; [apply is_lit_true in E; contradiction|clear E].
  destruct (is_lit arg "-s") eqn:E; [lit_false E|clear E].
  destruct (is_lit arg "--stats") eqn:E; [apply is_lit_true in E; contradiction|clear E].
  cbn [orb].
  destruct (has_prefix (bs "--bdump") arg) as [r|] eqn:E;
    [apply has_prefix_some in E; exfalso; exact (H5 r E)|clear E].
  destruct (has_prefix (bs "--bload") arg) as [r|] eqn:E;
    [apply has_prefix_some in E; exfalso; exact (H6 r E)|clear E].
  destruct (is_lit arg "--") eqn:E; [lit_false E|clear E].
  reflexivity.
Qed.

Theorem C18_err_unknown_long : forall pre c w more,
  Forall simple_flag pre ->
  let arg := 45 :: 45 :: c :: w in
  arg <> bs "--disasm" -> arg <> bs "--trace" -> arg <> bs "--result" -> arg <> bs "--stats" ->
  (forall r, arg <> bs "--bdump" ++ r) -> (forall r, arg <> bs "--bload" ++ r) ->
  parse_args (pre ++ arg :: more) = inl (UUnknownFlag arg).
Proof.
  intros pre c w more Hpre arg H1 H2 H3 H4 H5 H6.
  apply parse_args_err; [exact Hpre|]. apply classify_unknown_long; assumption.
Qed.
Print Assumptions C18_err_unknown_long.

Example C18_err_unknown_long_ex : forall more,
  parse_args (bs "--unknown" :: more) = inl (UUnknownFlag (bs "--unknown")).
Proof.
  intros more. apply (C18_err_unknown_long [] 117 (bs "nknown") more (Forall_nil _));
    try discriminate; intros r; cbn; discriminate.
Qed.

(* "--bdumpX" / "--bloadX" where X does not start with '=' *)
Lemma opt_file_none : forall c r, c <> 61 -> opt_file (c :: r) = None.
Proof.
  intros c r Hc. destruct c as [|p]; [reflexivity|].
  do 6 (destruct p as [p|p|]; try reflexivity). contradiction Hc; reflexivity.
Qed.

Theorem C18_err_bdump_malformed : forall pre c r more,
  Forall simple_flag pre -> c <> 61 ->
  parse_args (pre ++ (bs "--bdump" ++ c :: r) :: more) = inl (UUnknownFlag (bs "--bdump" ++ c :: r)) /\
  parse_args (pre ++ (bs "--bload" ++ c :: r) :: more) = inl (UUnknownFlag (bs "--bload" ++ c :: r)).
Proof.
  intros pre c r more Hpre Hc.
  split; (apply parse_args_err; [exact Hpre|]); unfold classify.
  - change (has_prefix (bs "--bdump") (bs "--bdump" ++ c :: r))
      with (has_prefix [] (c :: r)).
    cbn [has_prefix]. rewrite (opt_file_none c r Hc). reflexivity.
  - change (has_prefix (bs "--bload") (bs "--bload" ++ c :: r))
      with (has_prefix [] (c :: r)).
    cbn [has_prefix]. rewrite (opt_file_none c r Hc). reflexivity.
Qed.
Print Assumptions C18_err_bdump_malformed.

(* a cluster ("-" and two or more characters, the first not '-') containing something that
   is not a lower-case letter *)
Theorem C18_err_cluster : forall pre c1 c2 cs more,
  Forall simple_flag pre -> c1 <> 45 ->
  forallb is_lower (c1 :: c2 :: cs) = false ->
  parse_args (pre ++ (45 :: c1 :: c2 :: cs) :: more) = inl (UUnknownFlag (45 :: c1 :: c2 :: cs)).
Proof.
  intros pre c1 c2 cs more Hpre Hc1 Hbad.
  apply parse_args_err; [exact Hpre|].
  unfold classify.
  destruct (is_lit (45 :: c1 :: c2 :: cs) "-h") eqn:E; [lit_false E; congruence|clear E].
  destruct (is_lit (45 :: c1 :: c2 :: cs) "-d") eqn:E; [lit_false E; congruence|clear E].
  destruct (is_lit (45 :: c1 :: c2 :: cs) "--disasm") eqn:E; [lit_false E; congruence|clear E].
  destruct (is_lit (45 :: c1 :: c2 :: cs) "-t") eqn:E; [lit_false E; congruence|clear E].
  destruct (is_lit (45 :: c1 :: c2 :: cs) "--trace") eqn:E; [lit_false E; congruence|clear E].
  destruct (is_lit (45 :: c1 :: c2 :: cs) "-r") eqn:E; [lit_false E; congruence|clear E].
  destruct (is_lit (45 :: c1 :: c2 :: cs) "--result") eqn:E; [lit_false E; congruence|clear E].
  destruct (is_lit (45 :: c1 :: c2 :: cs) "-s") eqn:E; [lit_false E; congruence|clear E].
  destruct (is_lit (45 :: c1 :: c2 :: cs) "--stats") eqn:E; [lit_false E; congruence|clear E].
  cbn [orb].
  destruct (has_prefix (bs "--bdump") (45 :: c1 :: c2 :: cs)) eqn:E;
    [apply has_prefix_some in E; cbn in E; congruence|clear E].
  destruct (has_prefix (bs "--bload") (45 :: c1 :: c2 :: cs)) eqn:E;
    [apply has_prefix_some in E; cbn in E; congruence|clear E].
  destruct (is_lit (45 :: c1 :: c2 :: cs) "--") eqn:E; [lit_false E; congruence|clear E].
  rewrite Hbad. reflexivity.
Qed.
Print Assumptions C18_err_cluster.

(* two file arguments *)
Theorem C18_err_two_files : forall l1 l2 l3 f1 f2,
  Forall simple_flag l1 -> Forall simple_flag l2 -> Forall simple_flag l3 ->
  is_file_arg f1 -> is_file_arg f2 ->
  parse_args (l1 ++ f1 :: l2 ++ f2 :: l3) = inl UTooMany.
Proof.
  intros l1 l2 l3 f1 f2 H1 H2 H3 Hf1 Hf2. rewrite parse_args_eq.
  replace (fuel_of (l1 ++ f1 :: l2 ++ f2 :: l3))
    with (length l1 + S (length l2 + (length (f2 :: l3) + S (sumlen (l1 ++ f1 :: l2 ++ f2 :: l3)))))%nat
    by (unfold fuel_of; rewrite app_length; cbn [length]; rewrite app_length; cbn [length];
        unfold bytes; lia).
  rewrite (run_simple l1 H1), flags_loop_S, (classify_file f1 Hf1).
  rewrite (run_line l2 l3 f2 _ _ _ H2 H3 Hf2).
  rewrite !apply_flags_letters by (try apply Forall_app; auto).
  unfold finish. rewrite !with_letters_help. reflexivity.
Qed.
Print Assumptions C18_err_two_files.

(* commuting the simple flags past --bdump / --bload *)
Lemma apply_flags_bdump : forall l, Forall simple_flag l -> forall a o,
  apply_flags l (set_bdump a o) = set_bdump (apply_flags l a) o.
Proof.
  induction 1 as [|x l Hx Hl IH]; intros a o; [reflexivity|].
  unfold apply_flags. cbn [fold_left]. fold (apply_flags l (apply_flag x (set_bdump a o))).
  fold (apply_flags l (apply_flag x a)). rewrite <- IH. f_equal.
  unfold simple_flag in Hx.
  repeat (destruct Hx as [Hx|Hx]; [subst x; reflexivity|]). subst x; reflexivity.
Qed.

Lemma apply_flags_bload : forall l, Forall simple_flag l -> forall a o,
  apply_flags l (set_bload a o) = set_bload (apply_flags l a) o.
Proof.
  induction 1 as [|x l Hx Hl IH]; intros a o; [reflexivity|].
  unfold apply_flags. cbn [fold_left]. fold (apply_flags l (apply_flag x (set_bload a o))).
  fold (apply_flags l (apply_flag x a)). rewrite <- IH. f_equal.
  unfold simple_flag in Hx.
  repeat (destruct Hx as [Hx|Hx]; [subst x; reflexivity|]). subst x; reflexivity.
Qed.

(* flags, then x (a --bdump / --bload form), flags, the file, flags *)
Lemma run_x_file : forall l1 l2 l3 x f g,
  Forall simple_flag l1 -> Forall simple_flag l2 -> Forall simple_flag l3 -> is_file_arg f ->
  (forall n more a rest, flags_loop (S n) (x :: more) a rest = flags_loop n more (g a) rest) ->
  (forall l, Forall simple_flag l -> forall a, apply_flags l (g a) = g (apply_flags l a)) ->
  flags_loop (fuel_of (l1 ++ x :: l2 ++ f :: l3)) (l1 ++ x :: l2 ++ f :: l3) args0 []
  = inr (g (with_letters (letters (l1 ++ l2 ++ l3)) args0), [f]).
Proof.
  intros l1 l2 l3 x f g H1 H2 H3 Hf Hx Hg.
  replace (fuel_of (l1 ++ x :: l2 ++ f :: l3))
    with (length l1 + S (length l2 + (length (f :: l3) + S (sumlen (l1 ++ x :: l2 ++ f :: l3)))))%nat
    by (unfold fuel_of; rewrite app_length; cbn [length]; rewrite app_length; cbn [length];
        unfold bytes; lia).
  rewrite (run_simple l1 H1), Hx, (run_line l2 l3 f _ _ _ H2 H3 Hf).
  rewrite Hg by (apply Forall_app; auto).
  rewrite <- apply_flags_app.
  rewrite apply_flags_letters by (repeat (apply Forall_app; split); auto).
  reflexivity.
Qed.

Lemma step_bdump_bare : forall n more a rest,
  flags_loop (S n) (bs "--bdump" :: more) a rest = flags_loop n more (set_bdump a None) rest.
Proof. intros. rewrite flags_loop_S. reflexivity. Qed.

Lemma step_bload_eq : forall F n more a rest,
  flags_loop (S n) ((bs "--bload=" ++ F) :: more) a rest = flags_loop n more (set_bload a (Some F)) rest.
Proof. intros. rewrite flags_loop_S. reflexivity. Qed.

Local Arguments has_suffix : simpl never.

(* --bdump without "=F": the name is derived from the file, which must end in .bcl *)
Theorem C18_err_bdump_name : forall l1 l2 l3 f,
  Forall simple_flag l1 -> Forall simple_flag l2 -> Forall simple_flag l3 ->
  is_file_arg f -> has_suffix (bs ".bcl") f = false ->
  parse_args (l1 ++ bs "--bdump" :: l2 ++ f :: l3) = inl UBdumpName.
Proof.
  intros l1 l2 l3 f H1 H2 H3 Hf Hsuf. rewrite parse_args_eq.
  rewrite (run_x_file l1 l2 l3 _ f (fun a => set_bdump a None) H1 H2 H3 Hf
             step_bdump_bare (fun l Hl a => apply_flags_bdump l Hl a None)).
  destruct (letters (l1 ++ l2 ++ l3)) as [[[d t] r] s].
  unfold finish. cbn -[has_suffix firstn bs]. rewrite Hsuf. reflexivity.
Qed.
Print Assumptions C18_err_bdump_name.

(* ... and with no file at all (standard input has no name to derive from) *)
Theorem C18_err_bdump_stdin : forall l1 l2,
  Forall simple_flag l1 -> Forall simple_flag l2 ->
  parse_args (l1 ++ bs "--bdump" :: l2) = inl UBdumpName.
Proof.
  intros l1 l2 H1 H2. rewrite parse_args_eq.
  replace (fuel_of (l1 ++ bs "--bdump" :: l2))
    with (length l1 + S (length l2 + S (sumlen (l1 ++ bs "--bdump" :: l2))))%nat
    by (unfold fuel_of; rewrite app_length; cbn [length]; unfold bytes; lia).
  rewrite (run_simple l1 H1), step_bdump_bare.
  rewrite (run_simple_nil l2 H2).
  rewrite !apply_flags_letters by assumption.
  destruct (letters l1) as [[[d t] r] s]. destruct (letters l2) as [[[d' t'] r'] s'].
  reflexivity.
Qed.
Print Assumptions C18_err_bdump_stdin.

(* --bload=F together with a file argument *)
Theorem C18_err_bload_conflict : forall l1 l2 l3 F f,
  Forall simple_flag l1 -> Forall simple_flag l2 -> Forall simple_flag l3 ->
  is_file_arg f -> F <> [] -> f <> [] ->
  parse_args (l1 ++ (bs "--bload=" ++ F) :: l2 ++ f :: l3) = inl UConflict.
Proof.
  intros l1 l2 l3 F f H1 H2 H3 Hf HF Hfne. rewrite parse_args_eq.
  pose proof (run_x_file l1 l2 l3 _ f (fun a => set_bload a (Some F)) H1 H2 H3 Hf
             (step_bload_eq F) (fun l Hl a => apply_flags_bload l Hl a (Some F))) as E.
  unfold bytes in *. rewrite E. clear E.
  destruct (letters (l1 ++ l2 ++ l3)) as [[[d t] r] s].
  destruct F as [|x F]; [contradiction HF; reflexivity|].
  destruct f as [|y f]; [contradiction Hfne; reflexivity|].
  reflexivity.
Qed.
Print Assumptions C18_err_bload_conflict.

(* ------------------------------------------------------------------ *)
(* 5. the derived dump name; standard input by default                  *)
(* ------------------------------------------------------------------ *)

Lemma has_suffix_app : forall suf f, has_suffix suf (f ++ suf) = true.
Proof. intros. unfold has_suffix. rewrite rev_app_distr, has_prefix_app. reflexivity. Qed.

Theorem C18_bdump_name_gen : forall l1 l2 l3 f,
  Forall simple_flag l1 -> Forall simple_flag l2 -> Forall simple_flag l3 ->
  is_file_arg (f ++ bs ".bcl") ->
  parse_args (l1 ++ bs "--bdump" :: l2 ++ (f ++ bs ".bcl") :: l3) =
  let '(d, t, r, s) := letters (l1 ++ l2 ++ l3) in
  inr (mkArgs (f ++ bs ".bcl") d t r s true false (f ++ bs ".bcb") [] false).
Proof.
  intros l1 l2 l3 f H1 H2 H3 Hf. rewrite parse_args_eq.
  pose proof (run_x_file l1 l2 l3 _ _ (fun a => set_bdump a None) H1 H2 H3 Hf
             step_bdump_bare (fun l Hl a => apply_flags_bdump l Hl a None)) as E.
  unfold bytes in *. rewrite E. clear E.
  destruct (letters (l1 ++ l2 ++ l3)) as [[[d t] r] s].
  unfold finish. cbn -[has_suffix firstn bs app].
  rewrite has_suffix_app.
  replace (length (f ++ bs ".bcl") - 4)%nat with (length f + 0)%nat
    by (rewrite app_length; cbn [length bs]; lia).
  rewrite firstn_app_2. cbn [firstn]. rewrite app_nil_r.
  rewrite !orb_false_r.
  destruct f as [|x f]; reflexivity.
Qed.
Print Assumptions C18_bdump_name_gen.

Theorem C18_bdump_name : forall f, (forall r, f <> 45 :: r) ->
  parse_args [bs "--bdump"; f ++ bs ".bcl"] =
  inr (mkArgs (f ++ bs ".bcl") false false false false true false (f ++ bs ".bcb") [] false).
Proof.
  intros f Hf.
  apply (C18_bdump_name_gen [] [] [] f (Forall_nil _) (Forall_nil _) (Forall_nil _)).
  right. intros r E. destruct f as [|x f]; [discriminate E|].
  injection E as -> _. apply (Hf f). reflexivity.
Qed.
Print Assumptions C18_bdump_name.

Theorem C18_default_stdin : forall l, Forall simple_flag l ->
  parse_args l = let '(d, t, r, s) := letters l in
                 inr (mkArgs [45] d t r s false false [] [] false).
Proof.
  intros l Hl. rewrite parse_args_eq.
  replace (fuel_of l) with (length l + S (sumlen l))%nat by (unfold fuel_of; lia).
  rewrite (run_simple_nil l Hl).
  rewrite apply_flags_letters by assumption.
  destruct (letters l) as [[[d t] r] s]. unfold finish. cbn. rewrite !orb_false_r. reflexivity.
Qed.
Print Assumptions C18_default_stdin.
