(* DumpLoadProofs.v: Dump/Load round trip, extension/truncation behaviour of Load, and
   independence of Load from the chunking of the underlying reader. *)
From Coq Require Import Lia ZifyN ZifyNat ZifyBool.
From BCL Require Import Model.DumpLoad Proofs.EncodingProofs Proofs.BufioProofs.
Open Scope N_scope.
Ltac Zify.zify_post_hook ::= Z.div_mod_to_equations.

Definition wf_parts (p : parts) : Prop :=
  Forall wf_value (p_consts p) /\ Forall (fun x => x < 2^64) (p_pos p) /\
  Forall (fun x => x < 2^64) (p_lfs p) /\ nlen (p_name p) < 2^64 /\
  nlen (p_code p) < 2^64 /\ nlen (p_consts p) < 2^64 /\ nlen (p_pos p) < 2^64 /\
  nlen (p_lfs p) < 2^64.

(* ================================================================== *)
(* Load re-expressed with reader combinators                           *)
(* ================================================================== *)

Section Comb.
Context {R : Type}.
Definition rdr (A : Type) := R -> outcome (A * R).
Definition bnd {A B} (f : rdr A) (g : A -> rdr B) : rdr B :=
  fun r => match f r with
           | Ok (x, r1) => g x r1
           | Err e => Err e
           | Panic k => Panic k
           end.
Definition ret {A} (x : A) : rdr A := fun r => Ok (x, r).
Definition failr {A} (e : bytes) : rdr A := fun _ => Err e.
Definition panicr {A} (k : panic_kind) : rdr A := fun _ => Panic k.
Definition sectf {A} (l : string) (f : rdr A) : rdr A := fun r => sect l (f r).

Lemma bnd_ok {A B} (f : rdr A) (g : A -> rdr B) r x r1 :
  f r = Ok (x, r1) -> bnd f g r = g x r1.
Proof. intros H. unfold bnd. rewrite H. reflexivity. Qed.

Variable ops : rops R.

Definition rd_exact (m : N) (l : bytes) : rdr bytes :=
  fun r => let '(s, r1) := r_readfull ops m r in
           if nlen s <? m then Err l else Ok (s, r1).
Definition rd1 : rdr N :=
  fun r => let '(b, r1) := r_readfull ops 1 r in
           match b with [] => Err (lbl "eof") | c :: _ => Ok (c, r1) end.
Definition rd_ver : rdr (N * N) :=
  fun r => let '(v, r1) := r_readfull ops 2 r in
           match v with
           | [a; b] => Ok ((a, b), r1)
           | _ => Err (lbl "missing bcode major/minor version")
           end.
Definition rd_f64 : rdr value :=
  fun r => let '(p, r2) := r_peek ops 8 r in
           if (length p <? 8)%nat then Err (lbl "eof")
           else let '(_, r3) := r_discard ops (nlen p) r2 in Ok (VFloat (from_be p), r3).
Definition rd_list {A} (f : rdr A) (l : bytes) (m : N) : rdr (list A) :=
  fun r => read_n (S (r_left ops r)) f m r l.

Definition value' : rdr value :=
  bnd rd1 (fun c =>
    if c =? 1 then bnd (uvarint_from_buf ops) (fun x => ret (VInt (u64_to_i64 x)))
    else if c =? 2 then rd_f64
    else if c =? 3 then
      bnd (uvarint_from_buf ops) (fun k =>
      bnd (rd_exact k (lbl "eof")) (fun s => ret (VStr s)))
    else if c =? 4 then bnd rd1 (fun x => ret (VBool (negb (x =? 0))))
    else if c =? 0 then ret VNil
    else panicr PInvalidType).

Lemma value_eq r : value_from_buf ops r = value' r.
Proof.
  unfold value_from_buf, value', bnd, rd1.
  destruct (r_readfull ops 1 r) as [b r1].
  destruct b as [|c b]; [reflexivity|].
  destruct (c =? 1).
  { unfold uvarint_from_buf. destruct (r_peek ops 9 r1) as [p r2].
    destruct (length p <? uv_size p)%nat; [reflexivity|].
    destruct (uv_dec p) as [[x n]|]; [|reflexivity].
    destruct (r_discard ops (N.of_nat n) r2). reflexivity. }
  destruct (c =? 2).
  { reflexivity. }
  destruct (c =? 3).
  { unfold uvarint_from_buf. destruct (r_peek ops 9 r1) as [p r2].
    destruct (length p <? uv_size p)%nat; [reflexivity|].
    destruct (uv_dec p) as [[x n]|]; [|reflexivity].
    destruct (r_discard ops (N.of_nat n) r2) as [d r3].
    unfold rd_exact. destruct (r_readfull ops x r3) as [s r4].
    destruct (nlen s <? x); reflexivity. }
  destruct (c =? 4).
  { destruct (r_readfull ops 1 r1) as [b2 r2]. destruct b2; reflexivity. }
  destruct (c =? 0); reflexivity.
Qed.

Definition load_tail' : rdr parts :=
  bnd (sectf "name size" (uvarint_from_buf ops)) (fun m =>
  bnd (rd_exact m (lbl "name too short")) (fun name =>
  bnd (sectf "code size" (uvarint_from_buf ops)) (fun m =>
  bnd (rd_exact m (lbl "code too short")) (fun code =>
  bnd (sectf "constants size" (uvarint_from_buf ops)) (fun m =>
  bnd (rd_list (value_from_buf ops) (lbl "constant") m) (fun consts =>
  bnd (sectf "positions size" (uvarint_from_buf ops)) (fun m =>
  bnd (rd_list (uvarint_from_buf ops) (lbl "position") m) (fun pos =>
  bnd (sectf "lfs size" (uvarint_from_buf ops)) (fun m =>
  bnd (rd_list (uvarint_from_buf ops) (lbl "lfs") m) (fun lfs =>
  ret {| p_name := name; p_code := code; p_consts := consts;
         p_pos := pos; p_lfs := lfs |})))))))))).

Definition load' : rdr parts :=
  bnd (rd_exact 2 (lbl "missing magic header")) (fun m1 =>
    if negb (bytes_eqb m1 magic) then failr (lbl "invalid magic header") else
    bnd rd_ver (fun v =>
      if negb (fst v =? major) then failr (lbl "invalid bcode major version") else
      if minor <? snd v then failr (lbl "invalid bcode minor version") else
      load_tail')).

Lemma load_tail_eq r :
  (do '(m, r) <- sect "name size" (uvarint_from_buf ops r) ;;
    let '(name, r) := r_readfull ops m r in
    if nlen name <? m then Err (lbl "name too short") else
    do '(m, r) <- sect "code size" (uvarint_from_buf ops r) ;;
    let '(code, r) := r_readfull ops m r in
    if nlen code <? m then Err (lbl "code too short") else
    do '(m, r) <- sect "constants size" (uvarint_from_buf ops r) ;;
    do '(consts, r) <- read_n (S (r_left ops r)) (value_from_buf ops) m r (lbl "constant") ;;
    do '(m, r) <- sect "positions size" (uvarint_from_buf ops r) ;;
    do '(pos, r) <- read_n (S (r_left ops r)) (uvarint_from_buf ops) m r (lbl "position") ;;
    do '(m, r) <- sect "lfs size" (uvarint_from_buf ops r) ;;
    do '(lfs, r) <- read_n (S (r_left ops r)) (uvarint_from_buf ops) m r (lbl "lfs") ;;
    Ok ({| p_name := name; p_code := code; p_consts := consts; p_pos := pos; p_lfs := lfs |}, r))
  = load_tail' r.
Proof.
  unfold load_tail', bnd, sectf, rd_exact, rd_list, ret, obind.
  destruct (sect "name size" (uvarint_from_buf ops r)) as [[m1 r1]|e|k]; try reflexivity.
  destruct (r_readfull ops m1 r1) as [name r2].
  destruct (nlen name <? m1); [reflexivity|].
  destruct (sect "code size" (uvarint_from_buf ops r2)) as [[m3 r3]|e|k]; try reflexivity.
  destruct (r_readfull ops m3 r3) as [code r4].
  destruct (nlen code <? m3); [reflexivity|].
  reflexivity.
Qed.

Lemma load_r_eq r : load_r ops r = load' r.
Proof.
  unfold load_r, load'. unfold bnd at 1. unfold rd_exact at 1.
  destruct (r_readfull ops 2 r) as [m1 r1].
  assert (E : (length m1 <? 2)%nat = (nlen m1 <? 2)).
  { unfold nlen. destruct (length m1 <? 2)%nat eqn:E1;
      destruct (N.of_nat (length m1) <? 2) eqn:E2; try reflexivity; lia. }
  rewrite E. destruct (nlen m1 <? 2); [reflexivity|].
  destruct (negb (bytes_eqb m1 magic)); [reflexivity|].
  unfold bnd at 1. unfold rd_ver.
  destruct (r_readfull ops 2 r1) as [v r2].
  destruct v as [|a [|b [|c v]]]; try reflexivity.
  cbn [fst snd].
  destruct (negb (a =? major)); [reflexivity|].
  destruct (minor <? b); [reflexivity|].
  apply load_tail_eq.
Qed.
End Comb.

Arguments bnd {R A B} f g r : simpl never.

(* ================================================================== *)
(* The abstract reader: closed forms                                   *)
(* ================================================================== *)

Notation n9 := (N.to_nat 9).
Notation n8 := (N.to_nat 8).

Lemma uvarint_a r : uvarint_from_buf aops r =
  if (length (firstn n9 r) <? uv_size (firstn n9 r))%nat then Err (lbl "eof")
  else match uv_dec (firstn n9 r) with
       | Some (x, n) => Ok (x, skipn n r)
       | None => Panic PIndex
       end.
Proof.
  unfold uvarint_from_buf. cbn [r_peek r_discard aops]. unfold a_peek, a_discard.
  rewrite uptoN_spec. cbn [fst].
  destruct (length (firstn n9 r) <? uv_size (firstn n9 r))%nat; [reflexivity|].
  destruct (uv_dec (firstn n9 r)) as [[x n]|]; [|reflexivity].
  rewrite uptoN_spec, Nat2N.id. reflexivity.
Qed.

Lemma rd_exact_a m l r : rd_exact aops m l r =
  if nlen (firstn (N.to_nat m) r) <? m then Err l
  else Ok (firstn (N.to_nat m) r, skipn (N.to_nat m) r).
Proof.
  unfold rd_exact. cbn [r_readfull aops]. unfold a_readfull. rewrite uptoN_spec. reflexivity.
Qed.

Lemma rd1_a r : rd1 aops r =
  match r with [] => Err (lbl "eof") | c :: r' => Ok (c, r') end.
Proof.
  unfold rd1. cbn [r_readfull aops]. unfold a_readfull. rewrite uptoN_spec.
  destruct r; reflexivity.
Qed.

Lemma rd_ver_a r : rd_ver aops r =
  match r with
  | a :: b :: r' => Ok ((a, b), r')
  | _ => Err (lbl "missing bcode major/minor version")
  end.
Proof.
  unfold rd_ver. cbn [r_readfull aops]. unfold a_readfull. rewrite uptoN_spec.
  destruct r as [|a [|b r']]; reflexivity.
Qed.

Lemma rd_f64_a r : rd_f64 aops r =
  if (length (firstn n8 r) <? 8)%nat then Err (lbl "eof")
  else Ok (VFloat (from_be (firstn n8 r)), skipn (length (firstn n8 r)) r).
Proof.
  unfold rd_f64. cbn [r_peek r_discard aops]. unfold a_peek, a_discard.
  rewrite uptoN_spec. cbn [fst].
  destruct (length (firstn n8 r) <? 8)%nat; [reflexivity|].
  rewrite uptoN_spec. unfold nlen. rewrite Nat2N.id. reflexivity.
Qed.

Lemma rd_list_a {A} (f : bytes -> outcome (A * bytes)) l m r :
  rd_list aops f l m r = read_n (S (length r)) f m r l.
Proof. reflexivity. Qed.

Lemma read_n_S {R A} fu (f : R -> outcome (A * R)) m r l :
  read_n (S fu) f m r l =
  if m =? 0 then Ok ([], r)
  else match f r with
       | Ok (x, r1) => do '(xs, r2) <- read_n fu f (m - 1) r1 l ;; Ok (x :: xs, r2)
       | Err _ => Err l
       | Panic k => Panic k
       end.
Proof. reflexivity. Qed.

Lemma read_n_O {R A} (f : R -> outcome (A * R)) m r l :
  read_n O f m r l = if m =? 0 then Ok ([], r) else Err l.
Proof. reflexivity. Qed.

(* ================================================================== *)
(* A, B: Dump is total on well-formed parts, Load inverts it           *)
(* ================================================================== *)

Lemma uvarint_enc_a x rest : x < 2^64 ->
  uvarint_from_buf aops (uv_enc x ++ rest) = Ok (x, rest).
Proof.
  intros Hx. rewrite uvarint_a.
  pose proof (uv_enc_length x) as HL.
  rewrite firstn_app_r by lia.
  rewrite uv_size_enc by exact Hx.
  rewrite uvarint_roundtrip by exact Hx.
  rewrite app_length.
  destruct (_ <? _)%nat eqn:E; [lia|].
  rewrite skipn_app_exact. reflexivity.
Qed.

Lemma rd_exact_enc s l rest : rd_exact aops (nlen s) l (s ++ rest) = Ok (s, rest).
Proof.
  rewrite rd_exact_a. unfold nlen. rewrite Nat2N.id.
  rewrite firstn_app_exact, skipn_app_exact.
  destruct (_ <? _) eqn:E; [lia|reflexivity].
Qed.

Lemma rd_f64_enc b rest : b < 2^64 -> rd_f64 aops (be 8 b ++ rest) = Ok (VFloat b, rest).
Proof.
  intros Hb. rewrite rd_f64_a.
  replace n8 with (length (be 8 b)) by (rewrite be_length; reflexivity).
  rewrite firstn_app_exact, skipn_app_exact, be_length.
  rewrite from_be_be by exact Hb. reflexivity.
Qed.

Lemma value_enc_a v plen b rest : wf_value v -> value_enc plen v = Ok b ->
  value_from_buf aops (b ++ rest) = Ok (v, rest).
Proof.
  intros Hwf He. rewrite value_eq. unfold value'.
  destruct v as [| bo | z | bits | s | ty nm fs]; cbn [wf_value value_enc] in *.
  - inversion He; subst. cbn [app].
    erewrite bnd_ok by (rewrite rd1_a; reflexivity). reflexivity.
  - inversion He; subst. cbn [app].
    erewrite bnd_ok by (rewrite rd1_a; reflexivity).
    change (4 =? 1) with false. change (4 =? 2) with false. change (4 =? 3) with false.
    change (4 =? 4) with true. cbv iota.
    erewrite bnd_ok by (rewrite rd1_a; reflexivity).
    destruct bo; reflexivity.
  - inversion He; subst. cbn [app].
    erewrite bnd_ok by (rewrite rd1_a; reflexivity).
    change (1 =? 1) with true. cbv iota.
    erewrite bnd_ok by (apply uvarint_enc_a, i64_to_u64_lt).
    unfold ret. rewrite i64_u64_roundtrip by exact Hwf. reflexivity.
  - inversion He; subst. cbn [app].
    erewrite bnd_ok by (rewrite rd1_a; reflexivity).
    change (2 =? 1) with false. change (2 =? 2) with true. cbv iota.
    apply rd_f64_enc. exact Hwf.
  - destruct (plen <? _); [discriminate|]. inversion He; subst. cbn [app].
    erewrite bnd_ok by (rewrite rd1_a; reflexivity).
    change (3 =? 1) with false. change (3 =? 2) with false. change (3 =? 3) with true.
    cbv iota. rewrite <- app_assoc.
    erewrite bnd_ok by (apply uvarint_enc_a; exact Hwf).
    erewrite bnd_ok by (apply rd_exact_enc).
    reflexivity.
  - discriminate.
Qed.

Lemma dump_consts_total : forall vs plen, Forall wf_value vs ->
  exists b, dump_consts plen vs = Ok b.
Proof.
  induction vs as [|v more IH]; intros plen H; cbn [dump_consts].
  - eexists. reflexivity.
  - inversion H as [|? ? Hv Hm]; subst.
    set (plen' := match v with
                  | VStr s => if plen <? 1 + 9 + nlen s then 1 + 9 + nlen s else plen
                  | _ => plen end).
    assert (Hp : plen_ok plen' v).
    { destruct v; cbn [plen_ok]; auto. subst plen'.
      destruct (plen <? 1 + 9 + nlen s) eqn:E; lia. }
    destruct (value_roundtrip v plen' [] Hv Hp) as (b & Hb & _).
    rewrite Hb. cbn [obind].
    destruct (IH plen' Hm) as (r & Hr). rewrite Hr. cbn [obind].
    eexists. reflexivity.
Qed.

Theorem dump_total : forall p, wf_parts p -> exists b, dump p = Ok b.
Proof.
  intros p (Hc & _). unfold dump.
  destruct (dump_consts_total (p_consts p) scratch0 Hc) as (cs & Hcs).
  rewrite Hcs. cbn [obind]. eexists. reflexivity.
Qed.
Print Assumptions dump_total.

Lemma value_enc_nonempty plen v b : value_enc plen v = Ok b -> (1 <= length b)%nat.
Proof.
  destruct v; cbn [value_enc]; intros H; try discriminate;
    try (inversion H; subst; cbn [length]; lia).
  destruct (plen <? _); [discriminate|]. inversion H; subst. cbn [length]. lia.
Qed.

Lemma read_n_consts l rest : forall vs plen cs fuel,
  Forall wf_value vs -> dump_consts plen vs = Ok cs -> (length vs <= fuel)%nat ->
  read_n fuel (value_from_buf aops) (nlen vs) (cs ++ rest) l = Ok (vs, rest).
Proof.
  induction vs as [|v more IH]; intros plen cs fuel Hwf Hd Hf.
  - cbn [dump_consts] in Hd. inversion Hd; subst.
    destruct fuel; reflexivity.
  - inversion Hwf as [|? ? Hv Hm]; subst.
    cbn [dump_consts] in Hd.
    set (plen' := match v with
                  | VStr s => if plen <? 1 + 9 + nlen s then 1 + 9 + nlen s else plen
                  | _ => plen end) in *.
    destruct (value_enc plen' v) as [b| |] eqn:Hb; try discriminate.
    cbn [obind] in Hd.
    destruct (dump_consts plen' more) as [r| |] eqn:Hr; try discriminate.
    cbn [obind] in Hd. inversion Hd; subst cs; clear Hd.
    destruct fuel as [|fu]; [cbn [length] in Hf; lia|].
    rewrite read_n_S.
    destruct (nlen (v :: more) =? 0) eqn:E; [unfold nlen in E; cbn [length] in E; lia|].
    rewrite <- app_assoc.
    rewrite (value_enc_a v plen' b _ Hv Hb).
    replace (nlen (v :: more) - 1) with (nlen more) by (unfold nlen; cbn [length]; lia).
    rewrite (IH plen' r fu Hm Hr) by (cbn [length] in Hf; lia).
    reflexivity.
Qed.

Lemma dump_consts_length : forall vs plen cs,
  dump_consts plen vs = Ok cs -> (length vs <= length cs)%nat.
Proof.
  induction vs as [|v more IH]; intros plen cs Hd; cbn [dump_consts] in Hd.
  - cbn. lia.
  - set (plen' := match v with
                  | VStr s => if plen <? 1 + 9 + nlen s then 1 + 9 + nlen s else plen
                  | _ => plen end) in *.
    destruct (value_enc plen' v) as [b| |] eqn:Hb; try discriminate.
    cbn [obind] in Hd.
    destruct (dump_consts plen' more) as [r| |] eqn:Hr; try discriminate.
    cbn [obind] in Hd. inversion Hd; subst cs; clear Hd.
    apply value_enc_nonempty in Hb. apply IH in Hr.
    rewrite app_length. cbn [length]. lia.
Qed.

Lemma read_n_uv l rest : forall xs fuel,
  Forall (fun x => x < 2^64) xs -> (length xs <= fuel)%nat ->
  read_n fuel (uvarint_from_buf aops) (nlen xs) (flat_map uv_enc xs ++ rest) l
  = Ok (xs, rest).
Proof.
  induction xs as [|x more IH]; intros fuel Hwf Hf.
  - destruct fuel; reflexivity.
  - inversion Hwf as [|? ? Hx Hm]; subst.
    destruct fuel as [|fu]; [cbn [length] in Hf; lia|].
    rewrite read_n_S.
    destruct (nlen (x :: more) =? 0) eqn:E; [unfold nlen in E; cbn [length] in E; lia|].
    cbn [flat_map]. rewrite <- app_assoc.
    rewrite uvarint_enc_a by exact Hx.
    replace (nlen (x :: more) - 1) with (nlen more) by (unfold nlen; cbn [length]; lia).
    rewrite (IH fu Hm) by (cbn [length] in Hf; lia).
    reflexivity.
Qed.

Lemma flat_uv_length : forall xs, (length xs <= length (flat_map uv_enc xs))%nat.
Proof.
  induction xs as [|x more IH]; cbn [flat_map length]; [lia|].
  rewrite app_length. pose proof (uv_enc_length x). lia.
Qed.

Lemma sectf_ok {R A} l (f : @rdr R A) r x r1 : f r = Ok (x, r1) -> sectf l f r = Ok (x, r1).
Proof. intros H. unfold sectf. rewrite H. reflexivity. Qed.

Lemma rd_exact_2 l a b r : rd_exact aops 2 l (a :: b :: r) = Ok ([a; b], r).
Proof. rewrite rd_exact_a. reflexivity. Qed.

Theorem load_dump_roundtrip : forall p b extra, wf_parts p -> dump p = Ok b ->
  load_r aops (b ++ extra) = Ok (p, extra).
Proof.
  intros p b extra (Hc & Hp & Hl & Hn1 & Hn2 & Hn3 & Hn4 & Hn5) Hd.
  unfold dump in Hd.
  destruct (dump_consts scratch0 (p_consts p)) as [cs| |] eqn:Hcs; try discriminate.
  cbn [obind] in Hd. inversion Hd; subst b; clear Hd.
  rewrite load_r_eq. unfold load', magic, major, minor.
  cbn [app]. repeat rewrite <- app_assoc.
  erewrite bnd_ok by (apply rd_exact_2).
  change (negb (bytes_eqb [252; 108] [252; 108])) with false. cbv iota.
  erewrite bnd_ok by (rewrite rd_ver_a; reflexivity).
  cbn [fst snd]. change (negb (1 =? 1)) with false. change (1 <? 1) with false. cbv iota.
  unfold load_tail'.
  erewrite bnd_ok by (apply sectf_ok, uvarint_enc_a; exact Hn1).
  erewrite bnd_ok by (apply rd_exact_enc).
  erewrite bnd_ok by (apply sectf_ok, uvarint_enc_a; exact Hn2).
  erewrite bnd_ok by (apply rd_exact_enc).
  erewrite bnd_ok by (apply sectf_ok, uvarint_enc_a; exact Hn3).
  erewrite bnd_ok.
  2:{ rewrite rd_list_a. apply (read_n_consts _ _ _ scratch0); auto.
      apply dump_consts_length in Hcs. rewrite app_length. lia. }
  erewrite bnd_ok by (apply sectf_ok, uvarint_enc_a; exact Hn4).
  erewrite bnd_ok.
  2:{ rewrite rd_list_a. apply read_n_uv; auto.
      pose proof (flat_uv_length (p_pos p)). rewrite app_length. lia. }
  erewrite bnd_ok by (apply sectf_ok, uvarint_enc_a; exact Hn5).
  erewrite bnd_ok.
  2:{ rewrite rd_list_a.
      rewrite <- (app_nil_r (flat_map uv_enc (p_lfs p))) at 2. rewrite <- app_assoc.
      apply read_n_uv; auto.
      pose proof (flat_uv_length (p_lfs p)). rewrite app_length. lia. }
  unfold ret. destruct p; reflexivity.
Qed.
Print Assumptions load_dump_roundtrip.

Corollary load_dump_bytes : forall p b, wf_parts p -> dump p = Ok b -> load_bytes b = Ok p.
Proof.
  intros p b Hwf Hd. unfold load_bytes, load.
  rewrite <- (app_nil_r b). rewrite (load_dump_roundtrip p b [] Hwf Hd). reflexivity.
Qed.
Print Assumptions load_dump_bytes.

(* ================================================================== *)
(* C: appending bytes does not change a non-error outcome              *)
(* ================================================================== *)

Definition oext {A} (o : outcome (A * bytes)) (ext : bytes) : outcome (A * bytes) :=
  match o with
  | Ok (x, r') => Ok (x, r' ++ ext)
  | Err e => Err e
  | Panic k => Panic k
  end.

Definition ext_ok {A} (f : bytes -> outcome (A * bytes)) : Prop :=
  forall r ext, (forall e, f r <> Err e) -> f (r ++ ext) = oext (f r) ext.
Definition nonincr {A} (f : bytes -> outcome (A * bytes)) : Prop :=
  forall r x r', f r = Ok (x, r') -> (length r' <= length r)%nat.
Definition consumes {A} (f : bytes -> outcome (A * bytes)) : Prop :=
  forall r x r', f r = Ok (x, r') -> (length r' < length r)%nat.

Lemma consumes_nonincr {A} (f : bytes -> outcome (A * bytes)) : consumes f -> nonincr f.
Proof. intros H r x r' E. apply H in E. lia. Qed.

Lemma ext_eq {A} (f g : bytes -> outcome (A * bytes)) :
  (forall r, f r = g r) -> ext_ok g -> ext_ok f.
Proof. intros E H r ext Hn. rewrite !E. apply H. intros e. rewrite <- E. apply Hn. Qed.

Lemma consumes_eq {A} (f g : bytes -> outcome (A * bytes)) :
  (forall r, f r = g r) -> consumes g -> consumes f.
Proof. intros E H r x r' Hf. rewrite E in Hf. eapply H; eauto. Qed.

Lemma ext_bnd {A B} (f : bytes -> outcome (A * bytes)) (g : A -> bytes -> outcome (B * bytes)) :
  ext_ok f -> (forall x, ext_ok (g x)) -> ext_ok (bnd f g).
Proof.
  intros Hf Hg r ext Hn. unfold bnd in *.
  destruct (f r) as [[x r1]|e|k] eqn:E.
  - rewrite (Hf r ext) by (intros e; rewrite E; discriminate).
    rewrite E. cbn [oext]. apply Hg. exact Hn.
  - exfalso. eapply Hn. reflexivity.
  - rewrite (Hf r ext) by (intros e; rewrite E; discriminate).
    rewrite E. reflexivity.
Qed.

Lemma ext_ret {A} (x : A) : ext_ok (ret x).
Proof. intros r ext _. reflexivity. Qed.
Lemma ext_failr {A} e : ext_ok (@failr bytes A e).
Proof. intros r ext H. exfalso. eapply H. reflexivity. Qed.
Lemma ext_panicr {A} k : ext_ok (@panicr bytes A k).
Proof. intros r ext _. reflexivity. Qed.

Lemma ext_sectf {A} l (f : bytes -> outcome (A * bytes)) : ext_ok f -> ext_ok (sectf l f).
Proof.
  intros Hf r ext Hn. unfold sectf in *.
  destruct (f r) as [[x r1]|e|k] eqn:E.
  - rewrite (Hf r ext) by (intros e; rewrite E; discriminate). rewrite E. reflexivity.
  - exfalso. eapply Hn. reflexivity.
  - rewrite (Hf r ext) by (intros e; rewrite E; discriminate). rewrite E. reflexivity.
Qed.

Lemma nonincr_bnd {A B} (f : bytes -> outcome (A * bytes)) (g : A -> bytes -> outcome (B * bytes)) :
  nonincr f -> (forall x, nonincr (g x)) -> nonincr (bnd f g).
Proof.
  intros Hf Hg r y r' H. unfold bnd in H.
  destruct (f r) as [[x r1]|e|k] eqn:E; try discriminate.
  apply Hf in E. apply Hg in H. lia.
Qed.

Lemma consumes_bnd {A B} (f : bytes -> outcome (A * bytes)) (g : A -> bytes -> outcome (B * bytes)) :
  consumes f -> (forall x, nonincr (g x)) -> consumes (bnd f g).
Proof.
  intros Hf Hg r y r' H. unfold bnd in H.
  destruct (f r) as [[x r1]|e|k] eqn:E; try discriminate.
  apply Hf in E. apply Hg in H. lia.
Qed.

Lemma nonincr_ret {A} (x : A) : nonincr (ret x).
Proof. intros r y r' H. inversion H. lia. Qed.
Lemma nonincr_panicr {A} k : nonincr (@panicr bytes A k).
Proof. intros r y r' H. discriminate. Qed.

(* --- uvarintFromBuf --- *)

Lemma uvarint_ext : ext_ok (uvarint_from_buf aops).
Proof.
  intros r ext Hn. rewrite !uvarint_a in *.
  set (p := firstn n9 r) in *.
  assert (Hp : firstn n9 (r ++ ext) = p ++ firstn (n9 - length r) ext) by apply firstn_app.
  rewrite Hp.
  destruct (length p <? uv_size p)%nat eqn:E.
  { exfalso. eapply Hn. reflexivity. }
  assert (Hne : p <> []).
  { intros Hnil. rewrite Hnil in E. cbn in E. discriminate. }
  destruct (uv_dec_total p) as (x & n & D & Hsz); [lia|].
  rewrite uv_size_prefix by exact Hne.
  rewrite (uv_dec_prefix _ _ _ _ D). rewrite D. cbn [oext].
  rewrite app_length.
  destruct (length p + length (firstn (n9 - length r) ext) <? uv_size p)%nat eqn:E2; [lia|].
  assert (length p <= length r)%nat by (subst p; rewrite firstn_length; lia).
  rewrite skipn_app_l by lia. reflexivity.
Qed.

Lemma uvarint_consumes : consumes (uvarint_from_buf aops).
Proof.
  intros r x r' H. rewrite uvarint_a in H.
  set (p := firstn n9 r) in *.
  destruct (length p <? uv_size p)%nat eqn:E; [discriminate|].
  destruct (uv_dec p) as [[y n]|] eqn:D; [|discriminate].
  inversion H; subst. apply uv_dec_le in D.
  assert (length p <= length r)%nat by (subst p; rewrite firstn_length; lia).
  rewrite skipn_length. lia.
Qed.

(* --- exact reads --- *)

Lemma rd_exact_ext m l : ext_ok (rd_exact aops m l).
Proof.
  intros r ext Hn. rewrite !rd_exact_a in *.
  destruct (nlen (firstn (N.to_nat m) r) <? m) eqn:E.
  { exfalso. eapply Hn. reflexivity. }
  unfold nlen in *. rewrite firstn_length in E.
  rewrite firstn_app_l, skipn_app_l by lia.
  rewrite firstn_length.
  destruct (_ <? _) eqn:E2; [lia|]. reflexivity.
Qed.

Lemma rd_exact_nonincr m l : nonincr (rd_exact aops m l).
Proof.
  intros r x r' H. rewrite rd_exact_a in H.
  destruct (_ <? _); [discriminate|]. inversion H; subst.
  rewrite skipn_length. lia.
Qed.

Lemma rd1_ext : ext_ok (rd1 aops).
Proof.
  intros r ext Hn. rewrite !rd1_a in *. destruct r as [|c r'].
  - exfalso. eapply Hn. reflexivity.
  - reflexivity.
Qed.

Lemma rd1_consumes : consumes (rd1 aops).
Proof.
  intros r x r' H. rewrite rd1_a in H. destruct r; [discriminate|].
  inversion H; subst. cbn [length]. lia.
Qed.

Lemma rd_ver_ext : ext_ok (rd_ver aops).
Proof.
  intros r ext Hn. rewrite !rd_ver_a in *. destruct r as [|a [|b r']].
  - exfalso. eapply Hn. reflexivity.
  - exfalso. eapply Hn. reflexivity.
  - reflexivity.
Qed.

Lemma rd_f64_ext : ext_ok (rd_f64 aops).
Proof.
  intros r ext Hn. rewrite !rd_f64_a in *.
  destruct (length (firstn n8 r) <? 8)%nat eqn:E.
  { exfalso. eapply Hn. reflexivity. }
  rewrite firstn_length in E.
  rewrite firstn_app_l by lia. rewrite firstn_length.
  destruct (_ <? _)%nat eqn:E2; [lia|]. cbn [oext].
  rewrite skipn_app_l by lia. reflexivity.
Qed.

Lemma rd_f64_nonincr : nonincr (rd_f64 aops).
Proof.
  intros r x r' H. rewrite rd_f64_a in H.
  destruct (_ <? _)%nat; [discriminate|]. inversion H; subst.
  rewrite skipn_length. lia.
Qed.

(* --- valueFromBuf --- *)

Lemma value_ext : ext_ok (value_from_buf aops).
Proof.
  apply (ext_eq _ _ (value_eq aops)). unfold value'.
  apply ext_bnd; [apply rd1_ext|]. intros c.
  destruct (c =? 1).
  { apply ext_bnd; [apply uvarint_ext|]. intros x. apply ext_ret. }
  destruct (c =? 2); [apply rd_f64_ext|].
  destruct (c =? 3).
  { apply ext_bnd; [apply uvarint_ext|]. intros k.
    apply ext_bnd; [apply rd_exact_ext|]. intros s. apply ext_ret. }
  destruct (c =? 4).
  { apply ext_bnd; [apply rd1_ext|]. intros x. apply ext_ret. }
  destruct (c =? 0); [apply ext_ret|apply ext_panicr].
Qed.

Lemma value_consumes : consumes (value_from_buf aops).
Proof.
  apply (consumes_eq _ _ (value_eq aops)). unfold value'.
  apply consumes_bnd; [apply rd1_consumes|]. intros c.
  destruct (c =? 1).
  { apply nonincr_bnd; [apply consumes_nonincr, uvarint_consumes|].
    intros x. apply nonincr_ret. }
  destruct (c =? 2); [apply rd_f64_nonincr|].
  destruct (c =? 3).
  { apply nonincr_bnd; [apply consumes_nonincr, uvarint_consumes|]. intros k.
    apply nonincr_bnd; [apply rd_exact_nonincr|]. intros s. apply nonincr_ret. }
  destruct (c =? 4).
  { apply nonincr_bnd; [apply consumes_nonincr, rd1_consumes|]. intros x. apply nonincr_ret. }
  destruct (c =? 0); [apply nonincr_ret|apply nonincr_panicr].
Qed.

(* --- read_n: the fuel is irrelevant once it exceeds the bytes left --- *)

Lemma read_n_ext {A} (f : bytes -> outcome (A * bytes)) l ext :
  ext_ok f -> consumes f ->
  forall fuel fuel' m r,
    (length r < fuel)%nat -> (length (r ++ ext) < fuel')%nat ->
    (forall e, read_n fuel f m r l <> Err e) ->
    read_n fuel' f m (r ++ ext) l = oext (read_n fuel f m r l) ext.
Proof.
  intros Hext Hcons. induction fuel as [|fu IH]; intros fuel' m r Hf Hf' Hn; [lia|].
  destruct fuel' as [|fu']; [lia|].
  rewrite !read_n_S in *.
  destruct (m =? 0); [reflexivity|].
  destruct (f r) as [[x r1]|e|k] eqn:E.
  - rewrite (Hext r ext) by (intros e; rewrite E; discriminate).
    rewrite E. cbn [oext].
    pose proof (Hcons _ _ _ E) as Hlt.
    rewrite (IH fu' (m - 1) r1).
    + destruct (read_n fu f (m - 1) r1 l) as [[xs r2]|e|k]; reflexivity.
    + lia.
    + rewrite app_length in *. lia.
    + intros e He. rewrite He in Hn. eapply Hn. reflexivity.
  - exfalso. eapply Hn. reflexivity.
  - rewrite (Hext r ext) by (intros e; rewrite E; discriminate).
    rewrite E. reflexivity.
Qed.

Lemma read_n_fuel {A} (f : bytes -> outcome (A * bytes)) l :
  consumes f ->
  forall fuel fuel' m r, (length r < fuel)%nat -> (length r < fuel')%nat ->
    read_n fuel f m r l = read_n fuel' f m r l.
Proof.
  intros Hcons. induction fuel as [|fu IH]; intros fuel' m r Hf Hf'; [lia|].
  destruct fuel' as [|fu']; [lia|].
  rewrite !read_n_S.
  destruct (m =? 0); [reflexivity|].
  destruct (f r) as [[x r1]|e|k] eqn:E; try reflexivity.
  pose proof (Hcons _ _ _ E) as Hlt.
  rewrite (IH fu' (m - 1) r1) by lia. reflexivity.
Qed.

Lemma rd_list_ext {A} (f : bytes -> outcome (A * bytes)) l m :
  ext_ok f -> consumes f -> ext_ok (rd_list aops f l m).
Proof.
  intros Hext Hcons r ext Hn. rewrite !rd_list_a in *.
  apply read_n_ext; auto.
Qed.

Lemma load_tail_ext : ext_ok (load_tail' aops).
Proof.
  unfold load_tail'.
  apply ext_bnd; [apply ext_sectf, uvarint_ext|]. intros m1.
  apply ext_bnd; [apply rd_exact_ext|]. intros name.
  apply ext_bnd; [apply ext_sectf, uvarint_ext|]. intros m2.
  apply ext_bnd; [apply rd_exact_ext|]. intros code.
  apply ext_bnd; [apply ext_sectf, uvarint_ext|]. intros m3.
  apply ext_bnd; [apply rd_list_ext; [apply value_ext|apply value_consumes]|]. intros consts.
  apply ext_bnd; [apply ext_sectf, uvarint_ext|]. intros m4.
  apply ext_bnd; [apply rd_list_ext; [apply uvarint_ext|apply uvarint_consumes]|]. intros pos.
  apply ext_bnd; [apply ext_sectf, uvarint_ext|]. intros m5.
  apply ext_bnd; [apply rd_list_ext; [apply uvarint_ext|apply uvarint_consumes]|]. intros lfs.
  apply ext_ret.
Qed.

Lemma load_ext_ok : ext_ok (load_r aops).
Proof.
  apply (ext_eq _ _ (load_r_eq aops)). unfold load'.
  apply ext_bnd; [apply rd_exact_ext|]. intros m1.
  destruct (negb (bytes_eqb m1 magic)); [apply ext_failr|].
  apply ext_bnd; [apply rd_ver_ext|]. intros v.
  destruct (negb (fst v =? major)); [apply ext_failr|].
  destruct (minor <? snd v); [apply ext_failr|].
  apply load_tail_ext.
Qed.

(* the statements asked for, in "match" form *)
Theorem uvarint_from_buf_ext : forall a ext, (forall e, uvarint_from_buf aops a <> Err e) ->
  uvarint_from_buf aops (a ++ ext) =
  match uvarint_from_buf aops a with Ok (x, r) => Ok (x, r ++ ext) | o => o end.
Proof.
  intros a ext H. rewrite (uvarint_ext a ext H).
  destruct (uvarint_from_buf aops a) as [[x r]|e|k]; reflexivity.
Qed.

Theorem value_from_buf_ext : forall a ext, (forall e, value_from_buf aops a <> Err e) ->
  value_from_buf aops (a ++ ext) =
  match value_from_buf aops a with Ok (x, r) => Ok (x, r ++ ext) | o => o end.
Proof.
  intros a ext H. rewrite (value_ext a ext H).
  destruct (value_from_buf aops a) as [[x r]|e|k]; reflexivity.
Qed.

Theorem read_n_ext_match {A} (f : bytes -> outcome (A * bytes)) l :
  (forall a ext, (forall e, f a <> Err e) ->
     f (a ++ ext) = match f a with Ok (x, r) => Ok (x, r ++ ext) | o => o end) ->
  (forall r x r', f r = Ok (x, r') -> (length r' < length r)%nat) ->
  forall m a ext, (forall e, read_n (S (length a)) f m a l <> Err e) ->
    read_n (S (length (a ++ ext))) f m (a ++ ext) l =
    match read_n (S (length a)) f m a l with Ok (xs, r) => Ok (xs, r ++ ext) | o => o end.
Proof.
  intros Hext Hcons m a ext Hn.
  assert (Hext' : ext_ok f).
  { intros r e Hr. rewrite (Hext r e Hr). destruct (f r) as [[x r1]| |]; reflexivity. }
  rewrite (read_n_ext f l ext Hext' Hcons (S (length a)) (S (length (a ++ ext))) m a)
    by (auto; lia).
  destruct (read_n (S (length a)) f m a l) as [[xs r]| |]; reflexivity.
Qed.
Print Assumptions uvarint_from_buf_ext.
Print Assumptions value_from_buf_ext.
Print Assumptions read_n_ext_match.

Theorem load_ext : forall a ext, (forall e, load_r aops a <> Err e) ->
  load_r aops (a ++ ext) =
  match load_r aops a with Ok (p, r) => Ok (p, r ++ ext) | o => o end.
Proof.
  intros a ext H. rewrite (load_ext_ok a ext H).
  destruct (load_r aops a) as [[x r]|e|k]; reflexivity.
Qed.
Print Assumptions load_ext.

(* ================================================================== *)
(* D: every proper prefix of a dump is rejected with an error          *)
(* ================================================================== *)

Theorem load_truncated : forall p b k, wf_parts p -> dump p = Ok b -> (k < length b)%nat ->
  exists e, load_bytes (firstn k b) = Err e.
Proof.
  intros p b k Hwf Hd Hk.
  pose proof (load_dump_roundtrip p b [] Hwf Hd) as HB. rewrite app_nil_r in HB.
  unfold load_bytes, load.
  destruct (load_r aops (firstn k b)) as [[p' r']|e|pk] eqn:E.
  - exfalso.
    assert (Hn : forall e, load_r aops (firstn k b) <> Err e)
      by (intros e; rewrite E; discriminate).
    pose proof (load_ext_ok _ (skipn k b) Hn) as HC.
    rewrite firstn_skipn, HB, E in HC. cbn [oext] in HC. inversion HC as [[H1 H2]].
    symmetry in H2. apply app_eq_nil in H2. destruct H2 as [_ H2].
    apply skipn_nil_length in H2. lia.
  - eexists. reflexivity.
  - exfalso.
    assert (Hn : forall e, load_r aops (firstn k b) <> Err e)
      by (intros e; rewrite E; discriminate).
    pose proof (load_ext_ok _ (skipn k b) Hn) as HC.
    rewrite firstn_skipn, HB, E in HC. discriminate.
Qed.
Print Assumptions load_truncated.

(* ================================================================== *)
(* E: header checks                                                    *)
(* ================================================================== *)

Theorem load_bad_header : forall b,
  (forall m1 m2 rest, b = m1 :: m2 :: rest -> (m1, m2) <> (252, 108)) ->
  exists e, load_bytes b = Err e.
Proof.
  intros b H. unfold load_bytes, load. rewrite load_r_eq. unfold load', bnd.
  rewrite rd_exact_a.
  destruct b as [|m1 [|m2 rest]]; try (eexists; reflexivity).
  change (firstn (N.to_nat 2) (m1 :: m2 :: rest)) with [m1; m2].
  change (nlen [m1; m2] <? 2) with false. cbv iota.
  specialize (H m1 m2 rest eq_refl).
  unfold magic. cbn [bytes_eqb].
  destruct (m1 =? 252) eqn:E1; [|eexists; reflexivity].
  destruct (m2 =? 108) eqn:E2; [|eexists; reflexivity].
  exfalso. apply H. f_equal; lia.
Qed.
Print Assumptions load_bad_header.

Theorem load_bad_version : forall vmaj vmin rest, vmaj <> 1 \/ 1 < vmin ->
  exists e, load_bytes (252 :: 108 :: vmaj :: vmin :: rest) = Err e.
Proof.
  intros vmaj vmin rest H. unfold load_bytes, load. rewrite load_r_eq. unfold load'.
  erewrite bnd_ok by apply rd_exact_2.
  change (negb (bytes_eqb [252; 108] magic)) with false. cbv iota.
  erewrite bnd_ok by (rewrite rd_ver_a; reflexivity).
  cbn [fst snd]. unfold major, minor.
  destruct (vmaj =? 1) eqn:E1; cbn [negb].
  - destruct (1 <? vmin) eqn:E2; [eexists; reflexivity|]. lia.
  - eexists. reflexivity.
Qed.
Print Assumptions load_bad_version.

(* ================================================================== *)
(* F: Load over the concrete bufio model = Load over the bytes         *)
(* ================================================================== *)

Definition osim {A} (o1 : outcome (A * br)) (o2 : outcome (A * bytes)) : Prop :=
  match o1, o2 with
  | Ok (x, b'), Ok (y, r') => x = y /\ r' = br_abs b' /\ br_ok b'
  | Err e, Err e' => e = e'
  | Panic k, Panic k' => k = k'
  | _, _ => False
  end.

Definition fsim {A} (fc : br -> outcome (A * br)) (fa : bytes -> outcome (A * bytes)) : Prop :=
  forall b, br_ok b -> osim (fc b) (fa (br_abs b)).

Lemma fsim_eq {A} (fc fc' : br -> outcome (A * br)) (fa fa' : bytes -> outcome (A * bytes)) :
  (forall b, fc b = fc' b) -> (forall r, fa r = fa' r) -> fsim fc' fa' -> fsim fc fa.
Proof. intros E1 E2 H b Hb. rewrite E1, E2. apply H. exact Hb. Qed.

Lemma fsim_bnd {A B} (fc : br -> outcome (A * br)) (fa : bytes -> outcome (A * bytes))
      (gc : A -> br -> outcome (B * br)) (ga : A -> bytes -> outcome (B * bytes)) :
  fsim fc fa -> (forall x, fsim (gc x) (ga x)) -> fsim (bnd fc gc) (bnd fa ga).
Proof.
  intros Hf Hg b Hb. unfold bnd. specialize (Hf b Hb). unfold osim in Hf.
  destruct (fc b) as [[x b1]|e|k]; destruct (fa (br_abs b)) as [[y r1]|e'|k'];
    try contradiction.
  - destruct Hf as (-> & -> & Hb1). apply Hg. exact Hb1.
  - exact Hf.
  - exact Hf.
Qed.

Lemma fsim_ret {A} (x : A) : fsim (ret x) (ret x).
Proof. intros b Hb. cbn. auto. Qed.
Lemma fsim_failr {A} e : fsim (@failr br A e) (@failr bytes A e).
Proof. intros b Hb. reflexivity. Qed.
Lemma fsim_panicr {A} k : fsim (@panicr br A k) (@panicr bytes A k).
Proof. intros b Hb. reflexivity. Qed.

Lemma fsim_sectf {A} l (fc : br -> outcome (A * br)) (fa : bytes -> outcome (A * bytes)) :
  fsim fc fa -> fsim (sectf l fc) (sectf l fa).
Proof.
  intros Hf b Hb. unfold sectf. specialize (Hf b Hb). unfold osim in *.
  destruct (fc b) as [[x b1]|e|k]; destruct (fa (br_abs b)) as [[y r1]|e'|k'];
    try contradiction; cbn [sect]; auto.
Qed.

(* --- primitives --- *)

Lemma uvarint_sim : fsim (uvarint_from_buf cops) (uvarint_from_buf aops).
Proof.
  intros b Hb. unfold uvarint_from_buf. cbn [r_peek r_discard cops aops].
  destruct (c_peek 9 b) as [p b1] eqn:P.
  apply c_peek_abs in P; [|exact Hb|lia].
  destruct P as (P1 & Hb1 & Hlen & Habs). rewrite P1.
  destruct (length p <? uv_size p)%nat; [reflexivity|].
  destruct (uv_dec p) as [[x n]|] eqn:D; [|reflexivity].
  destruct (c_discard (N.of_nat n) b1) as [d b2] eqn:Dc.
  apply uv_dec_le in D.
  apply c_discard_abs in Dc; [|exact Hb1|unfold nlen in *; lia].
  destruct Dc as (D1 & Hb2). rewrite D1. cbn. auto.
Qed.

Lemma rd_exact_sim m l : fsim (rd_exact cops m l) (rd_exact aops m l).
Proof.
  intros b Hb. unfold rd_exact. cbn [r_readfull cops aops].
  destruct (c_readfull m b) as [s b1] eqn:P.
  apply c_readfull_abs in P; [|exact Hb]. destruct P as (P1 & Hb1). rewrite P1.
  destruct (nlen s <? m); cbn; auto.
Qed.

Lemma rd1_sim : fsim (rd1 cops) (rd1 aops).
Proof.
  intros b Hb. unfold rd1. cbn [r_readfull cops aops].
  destruct (c_readfull 1 b) as [s b1] eqn:P.
  apply c_readfull_abs in P; [|exact Hb]. destruct P as (P1 & Hb1). rewrite P1.
  destruct s; cbn; auto.
Qed.

Lemma rd_ver_sim : fsim (rd_ver cops) (rd_ver aops).
Proof.
  intros b Hb. unfold rd_ver. cbn [r_readfull cops aops].
  destruct (c_readfull 2 b) as [s b1] eqn:P.
  apply c_readfull_abs in P; [|exact Hb]. destruct P as (P1 & Hb1). rewrite P1.
  destruct s as [|x [|y [|z s]]]; cbn; auto.
Qed.

Lemma rd_f64_sim : fsim (rd_f64 cops) (rd_f64 aops).
Proof.
  intros b Hb. unfold rd_f64. cbn [r_peek r_discard cops aops].
  destruct (c_peek 8 b) as [p b1] eqn:P.
  apply c_peek_abs in P; [|exact Hb|lia].
  destruct P as (P1 & Hb1 & Hlen & Habs). rewrite P1.
  destruct (length p <? 8)%nat; [reflexivity|].
  destruct (c_discard (nlen p) b1) as [d b2] eqn:Dc.
  apply c_discard_abs in Dc; [|exact Hb1|exact Hlen].
  destruct Dc as (D1 & Hb2). rewrite D1. cbn. auto.
Qed.

Lemma value_sim : fsim (value_from_buf cops) (value_from_buf aops).
Proof.
  apply (fsim_eq _ _ _ _ (value_eq cops) (value_eq aops)). unfold value'.
  apply fsim_bnd; [apply rd1_sim|]. intros c.
  destruct (c =? 1).
  { apply fsim_bnd; [apply uvarint_sim|]. intros x. apply fsim_ret. }
  destruct (c =? 2); [apply rd_f64_sim|].
  destruct (c =? 3).
  { apply fsim_bnd; [apply uvarint_sim|]. intros k.
    apply fsim_bnd; [apply rd_exact_sim|]. intros s. apply fsim_ret. }
  destruct (c =? 4).
  { apply fsim_bnd; [apply rd1_sim|]. intros x. apply fsim_ret. }
  destruct (c =? 0); [apply fsim_ret|apply fsim_panicr].
Qed.

Lemma read_n_sim {A} (fc : br -> outcome (A * br)) (fa : bytes -> outcome (A * bytes)) l :
  fsim fc fa ->
  forall fuel m b, br_ok b -> osim (read_n fuel fc m b l) (read_n fuel fa m (br_abs b) l).
Proof.
  intros Hf. induction fuel as [|fu IH]; intros m b Hb.
  - rewrite !read_n_O. destruct (m =? 0); cbn; auto.
  - rewrite !read_n_S. destruct (m =? 0); [cbn; auto|].
    specialize (Hf b Hb). unfold osim in Hf.
    destruct (fc b) as [[x b1]|e|k]; destruct (fa (br_abs b)) as [[y r1]|e'|k'];
      try contradiction.
    + destruct Hf as (-> & -> & Hb1).
      specialize (IH (m - 1) b1 Hb1). unfold osim in IH.
      destruct (read_n fu fc (m - 1) b1 l) as [[xs b2]|e|k];
        destruct (read_n fu fa (m - 1) (br_abs b1) l) as [[ys r2]|e'|k'];
        try contradiction; cbn [obind osim].
      * destruct IH as (-> & -> & Hb2). auto.
      * exact IH.
      * exact IH.
    + reflexivity.
    + exact Hf.
Qed.

Lemma rd_list_sim {A} (fc : br -> outcome (A * br)) (fa : bytes -> outcome (A * bytes)) l m :
  fsim fc fa -> fsim (rd_list cops fc l m) (rd_list aops fa l m).
Proof.
  intros Hf b Hb. unfold rd_list. cbn [r_left cops aops].
  rewrite c_left_abs. apply read_n_sim; assumption.
Qed.

Lemma load_tail_sim : fsim (load_tail' cops) (load_tail' aops).
Proof.
  unfold load_tail'.
  apply fsim_bnd; [apply fsim_sectf, uvarint_sim|]. intros m1.
  apply fsim_bnd; [apply rd_exact_sim|]. intros name.
  apply fsim_bnd; [apply fsim_sectf, uvarint_sim|]. intros m2.
  apply fsim_bnd; [apply rd_exact_sim|]. intros code.
  apply fsim_bnd; [apply fsim_sectf, uvarint_sim|]. intros m3.
  apply fsim_bnd; [apply rd_list_sim, value_sim|]. intros consts.
  apply fsim_bnd; [apply fsim_sectf, uvarint_sim|]. intros m4.
  apply fsim_bnd; [apply rd_list_sim, uvarint_sim|]. intros pos.
  apply fsim_bnd; [apply fsim_sectf, uvarint_sim|]. intros m5.
  apply fsim_bnd; [apply rd_list_sim, uvarint_sim|]. intros lfs.
  apply fsim_ret.
Qed.

Theorem load_r_sim : forall b, br_ok b ->
  osim (load_r cops b) (load_r aops (br_abs b)).
Proof.
  apply (fsim_eq _ _ _ _ (load_r_eq cops) (load_r_eq aops)). unfold load'.
  apply fsim_bnd; [apply rd_exact_sim|]. intros m1.
  destruct (negb (bytes_eqb m1 magic)); [apply fsim_failr|].
  apply fsim_bnd; [apply rd_ver_sim|]. intros v.
  destruct (negb (fst v =? major)); [apply fsim_failr|].
  destruct (minor <? snd v); [apply fsim_failr|].
  apply load_tail_sim.
Qed.
Print Assumptions load_r_sim.

(* any buffer state and any partition of the remaining bytes *)
Theorem load_br_eq : forall b, br_ok b -> load cops b = load aops (br_abs b).
Proof.
  intros b Hb. unfold load. pose proof (load_r_sim b Hb) as H. unfold osim in H.
  destruct (load_r cops b) as [[x b1]|e|k];
    destruct (load_r aops (br_abs b)) as [[y r1]|e'|k']; try contradiction; cbn [obind].
  - destruct H as (-> & _). reflexivity.
  - subst. reflexivity.
  - subst. reflexivity.
Qed.

Print Assumptions load_br_eq.

Theorem load_chunks_eq : forall cs, Forall (fun c => c <> []) cs ->
  load_chunks cs = load_bytes (concat cs).
Proof.
  intros cs H. unfold load_chunks, load_bytes.
  rewrite (load_br_eq _ (br_ok_init cs H)). reflexivity.
Qed.
Print Assumptions load_chunks_eq.
