(* LexLocal.v: the lexer does not depend on chunks it has not asked for.  `next` is the only
   primitive that looks at `pending`, and only when the window holds no whole rune; as long as
   the number of chunks to come is unchanged, they can be replaced by anything. *)
From Coq Require Import Lia List.
From BCL Require Import Model.Lexer Proofs.LineCalcProofs Proofs.LexerProofs Proofs.LexFuel.
Import ListNotations.
Open Scope N_scope.

Definition swap (ps : list bytes) (c : cur) : cur :=
  {| before := before c; after := after c; gpos := gpos c; width := width c;
     pending := ps; lfs := lfs c; out := out c |}.
Definition plen (c : cur) : nat := length (pending c).

(* F never takes chunks back, and if it has taken none it has not looked at them *)
Definition Qf {A} (F : cur -> A * cur) : Prop := forall c,
  (plen (snd (F c)) <= plen c)%nat /\
  (plen (snd (F c)) = plen c -> pending c <> [] ->
   pending (snd (F c)) = pending c /\ forall ps, F (swap ps c) = (fst (F c), swap ps (snd (F c)))).

Lemma refill_full : forall pend aft g l, full_rune aft = true -> refill pend aft g l = (pend, aft, l).
Proof. intros [|s more] aft g l H; cbn [refill]; rewrite H; reflexivity. Qed.

Lemma refill_len : forall pend aft g l, (length (fst (fst (refill pend aft g l))) <= length pend)%nat.
Proof.
  induction pend as [|s more IH]; intros aft g l; cbn [refill].
  - destruct (full_rune aft); cbn; lia.
  - destruct (full_rune aft); [cbn; lia|]. specialize (IH (aft ++ s) g (lc_add l s (g + nlen aft))).
    cbn [length]. lia.
Qed.

Lemma Qf_next : Qf next.
Proof.
  intros c. unfold next, plen.
  destruct (full_rune (after c)) eqn:F.
  - rewrite refill_full by exact F.
    split.
    + destruct (decode_rune (after c)) as [r [|w]]; [cbn; lia|].
      destruct (move_rev (S w) (after c) (before c)); cbn; lia.
    + intros _ _. split.
      * destruct (decode_rune (after c)) as [r [|w]]; [reflexivity|].
        destruct (move_rev (S w) (after c) (before c)); reflexivity.
      * intros ps. unfold swap. cbn [pending after gpos lfs before out].
        rewrite refill_full by exact F.
        destruct (decode_rune (after c)) as [r [|w]]; [reflexivity|].
        destruct (move_rev (S w) (after c) (before c)); reflexivity.
  - destruct (pending c) as [|s more] eqn:EP.
    + split; [|intros _ H; congruence].
      cbn [refill]. rewrite F.
      destruct (decode_rune (after c)) as [r [|w]]; [cbn; lia|].
      destruct (move_rev (S w) (after c) (before c)); cbn; lia.
    + cbn [refill]. rewrite F.
      pose proof (refill_len more (after c ++ s) (gpos c) (lc_add (lfs c) s (gpos c + nlen (after c)))) as HL.
      destruct (refill more (after c ++ s) (gpos c) (lc_add (lfs c) s (gpos c + nlen (after c))))
        as [[pend aft] l]. cbn [fst] in HL.
      assert (HP : (length (pending (snd (
        let '(r, w) := decode_rune aft in
        match w with
        | 0%nat => (eof, {| before := before c; after := aft; gpos := gpos c; width := 0;
                            pending := pend; lfs := l; out := out c |})
        | S _ => let '(aft', bef') := move_rev w aft (before c) in
                 (Z.of_N r, {| before := bef'; after := aft'; gpos := gpos c + N.of_nat w; width := w;
                               pending := pend; lfs := l; out := out c |})
        end))) = length pend)%nat).
      { destruct (decode_rune aft) as [r [|w]]; [reflexivity|].
        destruct (move_rev (S w) aft (before c)); reflexivity. }
      rewrite HP. cbn [length]. split; [lia|]. intros H. lia.
Qed.

(* operations that neither read nor change `pending` *)
Lemma Qf_prim : forall {A} (F : cur -> A * cur),
  (forall c, pending (snd (F c)) = pending c) ->
  (forall ps c, F (swap ps c) = (fst (F c), swap ps (snd (F c)))) -> Qf F.
Proof.
  intros A F H1 H2 c. unfold plen. rewrite H1. split; [lia|]. intros _ _. split; [reflexivity|].
  intros ps. apply H2.
Qed.

Lemma Qf_bind : forall {A B} (g : cur -> A * cur) (K : A -> cur -> B * cur),
  Qf g -> (forall r, Qf (K r)) -> Qf (fun c => let '(r, c1) := g c in K r c1).
Proof.
  intros A B g K Hg HK c. destruct (Hg c) as [M1 L1].
  destruct (g c) as [r c1] eqn:E. cbn [fst snd] in *.
  destruct (HK r c1) as [M2 L2]. split; [lia|]. intros Heq Hne.
  destruct (L1 ltac:(lia) Hne) as [P1 S1].
  destruct (L2 ltac:(unfold plen in *; lia) ltac:(congruence)) as [P2 S2].
  split; [congruence|]. intros ps. rewrite S1. apply S2.
Qed.

Lemma Qf_if : forall {A} (d : bool) (F1 F2 : cur -> A * cur),
  Qf F1 -> Qf F2 -> Qf (fun c => if d then F1 c else F2 c).
Proof. intros A [|] F1 F2 H1 H2; assumption. Qed.

Lemma Qf_ext : forall {A} (F G : cur -> A * cur), (forall c, F c = G c) -> Qf G -> Qf F.
Proof.
  intros A F G E H c. destruct (H c) as [M L]. rewrite E. split; [exact M|].
  intros Heq Hne. destruct (L Heq Hne) as [P S]. split; [exact P|]. intros ps. rewrite E. apply S.
Qed.

(* a cursor-to-cursor primitive in front of F *)
Lemma Qf_pre : forall {A} (h : cur -> cur) (F : cur -> A * cur),
  (forall c, pending (h c) = pending c) -> (forall ps c, h (swap ps c) = swap ps (h c)) ->
  Qf F -> Qf (fun c => F (h c)).
Proof.
  intros A h F H1 H2 HF c. destruct (HF (h c)) as [M L]. unfold plen in *. rewrite H1 in *.
  split; [exact M|]. intros Heq Hne. destruct (L Heq Hne) as [P S]. split; [exact P|].
  intros ps. rewrite H2. apply S.
Qed.

Ltac prim_tac :=
  intros; unfold backup, unbackup, ignore, emit, emit_error, fail, current, swap;
  cbn [before after gpos width pending lfs out];
  repeat match goal with |- context [move_rev ?k ?a ?b] => destruct (move_rev k a b) end;
  reflexivity.

Lemma backup_pending : forall c, pending (backup c) = pending c.
Proof. prim_tac. Qed.
Lemma backup_swap : forall ps c, backup (swap ps c) = swap ps (backup c).
Proof. prim_tac. Qed.
Lemma unbackup_pending : forall c, pending (unbackup c) = pending c.
Proof. prim_tac. Qed.
Lemma unbackup_swap : forall ps c, unbackup (swap ps c) = swap ps (unbackup c).
Proof. prim_tac. Qed.

Ltac qprim := apply Qf_prim; [prim_tac|prim_tac].

Lemma Qf_ret : forall {A} (v : A), Qf (fun c => (v, c)).
Proof. intros. qprim. Qed.
Lemma Qf_backup : forall {A} (v : A), Qf (fun c => (v, backup c)).
Proof. intros. qprim. Qed.
Lemma Qf_emit : forall {A} (v : A) t, Qf (fun c => (v, emit t c)).
Proof. intros. qprim. Qed.
Lemma Qf_fail : forall {A} (v : A) e, Qf (fun c => (v, fail e c)).
Proof. intros. qprim. Qed.
Lemma Qf_ignore : forall {A} (v : A), Qf (fun c => (v, ignore c)).
Proof. intros. qprim. Qed.
Lemma Qf_ignore_backup : forall {A} (v : A), Qf (fun c => (v, ignore (backup c))).
Proof. intros. qprim. Qed.
Lemma Qf_emit_backup : forall {A} (v : A) t, Qf (fun c => (v, emit t (backup c))).
Proof. intros. qprim. Qed.
Lemma Qf_fail_backup : forall {A} (v : A) e, Qf (fun c => (v, fail e (backup c))).
Proof. intros. qprim. Qed.
Lemma Qf_sticky : Qf sticky_fail.
Proof. unfold sticky_fail. qprim. Qed.

Ltac unf f := eapply Qf_ext; [intros ?; unfold f; cbv zeta; reflexivity|].

Lemma Qf_peek : Qf peek.
Proof. unf peek. apply Qf_bind; [apply Qf_next|intros r; apply Qf_backup]. Qed.

Lemma Qf_accept : forall v, Qf (accept v).
Proof.
  intros v. unf accept. apply Qf_bind; [apply Qf_next|intros r].
  apply Qf_if; [apply Qf_ret|apply Qf_backup].
Qed.

Lemma Qf_accept_run_f : forall fuel p acc, Qf (accept_run_f fuel p acc).
Proof.
  induction fuel as [|f IH]; intros p acc.
  - eapply Qf_ext; [intros c; cbn [accept_run_f]; reflexivity|]. apply Qf_ret.
  - eapply Qf_ext; [intros c; cbn [accept_run_f]; reflexivity|].
    apply Qf_bind; [apply Qf_next|intros r]. apply Qf_if; [apply IH|apply Qf_backup].
Qed.

Lemma Qf_accept_run : forall fuel v, Qf (accept_run fuel v).
Proof. intros. apply Qf_accept_run_f. Qed.

Create HintDb qf.
#[local] Hint Resolve Qf_next Qf_peek Qf_accept Qf_accept_run_f Qf_accept_run Qf_sticky
  Qf_ret Qf_backup Qf_emit Qf_fail Qf_ignore Qf_ignore_backup Qf_emit_backup Qf_fail_backup : qf.

Ltac qf := repeat first [ solve [auto with qf] | apply Qf_if | apply Qf_bind; [|intros ?] ].

Lemma Qf_lex_space : forall fuel, Qf (lex_space fuel).
Proof. intros. unf lex_space. qf. Qed.

Lemma Qf_lex_line_comment : forall fuel, Qf (lex_line_comment fuel).
Proof.
  induction fuel as [|f IH]; (eapply Qf_ext; [intros c; cbn [lex_line_comment]; reflexivity|]); qf.
Qed.

Lemma Qf_keyword : Qf (fun c3 => match keyword_of (current c3) with
                                  | Some k => (true, emit k c3) | None => (true, emit tIDENT c3) end).
Proof.
  apply Qf_prim.
  - intros c. destruct (keyword_of (current c)); reflexivity.
  - intros ps c. change (current (swap ps c)) with (current c).
    destruct (keyword_of (current c)); reflexivity.
Qed.

Lemma Qf_lex_ident : forall fuel, Qf (lex_ident fuel).
Proof.
  induction fuel as [|f IH]; (eapply Qf_ext; [intros c; cbn [lex_ident]; cbv zeta; reflexivity|]); [qf|].
  apply Qf_bind; [apply Qf_next|intros r]. apply Qf_if; [apply IH|].
  apply Qf_bind.
  - apply (Qf_pre backup peek backup_pending backup_swap Qf_peek).
  - intros p. apply Qf_if; [apply Qf_sticky|apply Qf_keyword].
Qed.

Lemma Qf_lex_float : forall fuel, Qf (lex_float fuel).
Proof. intros. unf lex_float. qf. Qed.

Lemma Qf_lex_hex : forall fuel, Qf (lex_hex fuel).
Proof. intros. unf lex_hex. qf. Qed.

#[local] Hint Resolve Qf_lex_float Qf_lex_hex : qf.

Lemma Qf_lex_number_tail : forall fuel, Qf (ParserInvProofs.lex_number_tail fuel).
Proof.
  intros. eapply Qf_ext; [intros c; unfold ParserInvProofs.lex_number_tail; reflexivity|]. qf.
Qed.

Lemma Qf_lex_number : forall fuel, Qf (lex_number fuel).
Proof.
  intros. eapply Qf_ext; [intros c; apply ParserInvProofs.lex_number_eq|].
  apply (Qf_pre backup _ backup_pending backup_swap (Qf_lex_number_tail fuel)).
Qed.

Lemma Qf_lex_quote : forall fuel, Qf (lex_quote fuel).
Proof.
  induction fuel as [|f IH]; (eapply Qf_ext; [intros c; cbn [lex_quote]; reflexivity|]); qf.
Qed.

#[local] Hint Resolve Qf_lex_space Qf_lex_line_comment Qf_lex_ident Qf_lex_number Qf_lex_quote : qf.

Theorem Qf_lex_start : forall fuel, Qf (lex_start fuel).
Proof.
  intros. unf lex_start. apply Qf_bind; [apply Qf_next|intros r].
  apply Qf_if; [qf|].
  destruct (two_rune_of r) as [[r2want t2]|].
  - apply Qf_bind; [apply Qf_next|intros r2]. apply Qf_if; [qf|].
    destruct (one_rune_of r); qf.
  - destruct (one_rune_of r); qf.
Qed.
Print Assumptions Qf_lex_start.

(* ------------------------------------------------------------------ *)
(* the run                                                              *)

Lemma lex_steps_plen : forall k f c c', lex_steps k f c = Some c' -> (plen c' <= plen c)%nat.
Proof.
  induction k as [|k IH]; intros f c c' H; cbn [lex_steps] in H.
  - injection H as <-. lia.
  - destruct (Qf_lex_start f c) as [M _]. destruct (lex_start f c) as [go c1]. cbn [snd] in M.
    destruct go; [|discriminate H]. specialize (IH f c1 c' H). lia.
Qed.

(* k steps that took no chunk are the same k steps whatever the chunks to come *)
Theorem lex_steps_unseen : forall k f c c',
  lex_steps k f c = Some c' -> plen c' = plen c -> pending c <> [] ->
  pending c' = pending c /\ forall ps, lex_steps k f (swap ps c) = Some (swap ps c').
Proof.
  induction k as [|k IH]; intros f c c' H Heq Hne; cbn [lex_steps] in H.
  - injection H as <-. split; [reflexivity|]. intros ps. reflexivity.
  - destruct (Qf_lex_start f c) as [M L]. destruct (lex_start f c) as [go c1] eqn:E.
    cbn [fst snd] in *. destruct go; [|discriminate H].
    pose proof (lex_steps_plen k f c1 c' H) as M2.
    destruct (L ltac:(lia) Hne) as [P1 S1].
    destruct (IH f c1 c' H ltac:(lia) ltac:(congruence)) as [P2 S2].
    split; [congruence|]. intros ps. cbn [lex_steps]. rewrite S1. apply S2.
Qed.
Print Assumptions lex_steps_unseen.

Lemma lex_steps_resp : forall k f c1 c2 c1', R c1 c2 -> lex_steps k f c1 = Some c1' ->
  exists c2', lex_steps k f c2 = Some c2' /\ R c1' c2'.
Proof.
  induction k as [|k IH]; intros f c1 c2 c1' HR H; cbn [lex_steps] in *.
  - injection H as <-. exists c2. auto.
  - pose proof (lex_start_resp f c1 c2 HR) as [H1 H2].
    destruct (lex_start f c1) as [go d1]; destruct (lex_start f c2) as [go2 d2].
    cbn [fst snd] in *. subst go2. destruct go; [|discriminate H].
    apply (IH f d1 d2 c1' H2 H).
Qed.
