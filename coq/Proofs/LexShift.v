(* LexShift.v: the lexer is invariant under a shift of positions.  Two cursors with the same
   window, the same chunks to come and the same tokens so far up to their positions -- gpos and
   the line table are free, and so is width at the entry of a state function -- go through the
   same control flow and emit the same (type, text, error) triples. *)
From Coq Require Import Lia List.
From BCL Require Import Model.Lexer Proofs.LineCalcProofs Proofs.LexerProofs Proofs.LayoutProofs
  Proofs.LayoutTree.
Import ListNotations.
Open Scope N_scope.

(* a token without its position *)
Definition nopos (t : token) : tok * bytes * option lexerr := (ttyp t, tval t, terr t).

Lemma nopos_strip : forall l1 l2, map nopos l1 = map nopos l2 -> map strip l1 = map strip l2.
Proof.
  induction l1 as [|a l1 IH]; intros [|b l2] H; try discriminate H; [reflexivity|].
  cbn [map] in *. injection H as H1 H2 H3 H4. rewrite (IH _ H4). f_equal. unfold strip. congruence.
Qed.

(* same cursor up to gpos, lfs, width and token positions *)
Definition Sh0 (c1 c2 : cur) : Prop :=
  before c1 = before c2 /\ after c1 = after c2 /\ pending c1 = pending c2 /\
  map nopos (out c1) = map nopos (out c2).
(* ... and the same width: what holds between two state functions' primitives *)
Definition Sh (c1 c2 : cur) : Prop := Sh0 c1 c2 /\ width c1 = width c2.
Definition Sp {A} (x y : A * cur) : Prop := fst x = fst y /\ Sh (snd x) (snd y).

Lemma Sh_Sh0 : forall c1 c2, Sh c1 c2 -> Sh0 c1 c2.
Proof. intros c1 c2 H. apply H. Qed.

Lemma Sh0_refl : forall c, Sh0 c c.
Proof. intros c. repeat split. Qed.
Lemma Sh_refl : forall c, Sh c c.
Proof. intros c. repeat split. Qed.

Lemma Sh0_sym : forall c1 c2, Sh0 c1 c2 -> Sh0 c2 c1.
Proof. intros c1 c2 (H1 & H2 & H3 & H4). repeat split; congruence. Qed.
Lemma Sh0_trans : forall c1 c2 c3, Sh0 c1 c2 -> Sh0 c2 c3 -> Sh0 c1 c3.
Proof. intros c1 c2 c3 (H1 & H2 & H3 & H4) (K1 & K2 & K3 & K4). repeat split; congruence. Qed.

Lemma refill_indep : forall pend aft g l g' l',
  fst (refill pend aft g l) = fst (refill pend aft g' l').
Proof.
  induction pend as [|s more IH]; intros aft g l g' l'; cbn [refill].
  - destruct (full_rune aft); reflexivity.
  - destruct (full_rune aft); [reflexivity|]. apply IH.
Qed.

Lemma next_sh0 : forall c1 c2, Sh0 c1 c2 -> Sp (next c1) (next c2).
Proof.
  intros c1 c2 (H1 & H2 & H3 & H4). unfold next.
  pose proof (refill_indep (pending c1) (after c1) (gpos c1) (lfs c1) (gpos c2) (lfs c2)) as HR.
  rewrite H2, H3 in *.
  destruct (refill (pending c2) (after c2) (gpos c1) (lfs c1)) as [[pend aft] l].
  destruct (refill (pending c2) (after c2) (gpos c2) (lfs c2)) as [[pend' aft'] l'].
  cbn [fst] in HR. injection HR as <- <-.
  destruct (decode_rune aft) as [r w]. destruct w as [|w].
  - repeat split; cbn [fst snd before after pending out width]; auto.
  - rewrite H1. destruct (move_rev (S w) aft (before c2)) as [aft1 bef1].
    repeat split; cbn [fst snd before after pending out width]; auto.
Qed.

Lemma next_sh : forall c1 c2, Sh c1 c2 -> Sp (next c1) (next c2).
Proof. intros c1 c2 H. apply next_sh0, H. Qed.

Lemma backup_sh : forall c1 c2, Sh c1 c2 -> Sh (backup c1) (backup c2).
Proof.
  intros c1 c2 ((H1 & H2 & H3 & H4) & H5). unfold backup. rewrite H1, H2, H5.
  destruct (move_rev (width c2) (before c2) (after c2)) as [b a].
  repeat split; cbn [before after pending out width]; auto.
Qed.

Lemma unbackup_sh : forall c1 c2, Sh c1 c2 -> Sh (unbackup c1) (unbackup c2).
Proof.
  intros c1 c2 ((H1 & H2 & H3 & H4) & H5). unfold unbackup. rewrite H1, H2, H5.
  destruct (move_rev (width c2) (after c2) (before c2)) as [a b].
  repeat split; cbn [before after pending out width]; auto.
Qed.

Lemma ignore_sh : forall c1 c2, Sh c1 c2 -> Sh (ignore c1) (ignore c2).
Proof.
  intros c1 c2 ((H1 & H2 & H3 & H4) & H5). unfold ignore.
  repeat split; cbn [before after pending out width]; auto.
Qed.

Lemma emit_sh : forall t c1 c2, Sh c1 c2 -> Sh (emit t c1) (emit t c2).
Proof.
  intros t c1 c2 ((H1 & H2 & H3 & H4) & H5). unfold emit, current.
  repeat split; cbn [before after pending out width]; auto.
  cbn [map]. unfold nopos at 1 3. cbn [ttyp tval terr]. rewrite H1, H4. reflexivity.
Qed.

Lemma emit_error_sh : forall e c1 c2, Sh c1 c2 -> Sh (emit_error e c1) (emit_error e c2).
Proof.
  intros e c1 c2 ((H1 & H2 & H3 & H4) & H5). unfold emit_error.
  repeat split; cbn [before after pending out width]; auto.
  cbn [map]. unfold nopos at 1 3. cbn [ttyp tval terr]. rewrite H4. reflexivity.
Qed.

Lemma fail_sh : forall e c1 c2, Sh c1 c2 -> Sh (fail e c1) (fail e c2).
Proof. intros. unfold fail. apply emit_sh, ignore_sh, emit_error_sh. assumption. Qed.

Lemma Sh_current : forall c1 c2, Sh c1 c2 -> current c1 = current c2.
Proof. intros c1 c2 ((H1 & _) & _). unfold current. rewrite H1. reflexivity. Qed.

Create HintDb sh.
#[local] Hint Resolve Sh_refl next_sh backup_sh unbackup_sh ignore_sh emit_sh emit_error_sh fail_sh : sh.

Ltac sstep_core g a g' b :=
  let H := fresh "H" in
  assert (H : Sp (g a) (g' b)) by (auto with sh);
  revert H;
  destruct (g a) as [? ?]; destruct (g' b) as [? ?];
  intros [? ?]; cbn [fst snd] in *; subst.

Ltac sstep :=
  lazymatch goal with
  | |- Sp (let '(_, _) := (let '(_, _) := ?g ?a in _) in _)
          (let '(_, _) := (let '(_, _) := ?g' ?b in _) in _) => sstep_core g a g' b
  | |- Sp (let '(_, _) := ?g ?a in _) (let '(_, _) := ?g' ?b in _) => sstep_core g a g' b
  end.

Ltac ssplit_if :=
  match goal with
  | |- Sp (let '(_, _) := (if ?d then _ else _) in _) _ => destruct d; cbv beta iota
  | |- Sp (if ?d then _ else _) _ => destruct d
  end.

Ltac sdone := split; cbn [fst snd]; auto with sh.

Lemma peek_sh : forall c1 c2, Sh c1 c2 -> Sp (peek c1) (peek c2).
Proof. intros c1 c2 HR. unfold peek. sstep. sdone. Qed.
#[local] Hint Resolve peek_sh : sh.

Lemma accept_sh : forall v c1 c2, Sh c1 c2 -> Sp (accept v c1) (accept v c2).
Proof. intros v c1 c2 HR. unfold accept. sstep. ssplit_if; sdone. Qed.
#[local] Hint Resolve accept_sh : sh.

Lemma accept_run_f_sh : forall fuel p acc c1 c2, Sh c1 c2 ->
  Sp (accept_run_f fuel p acc c1) (accept_run_f fuel p acc c2).
Proof.
  induction fuel as [|f IH]; intros p acc c1 c2 HR; cbn [accept_run_f]; [sdone|].
  sstep. ssplit_if; [apply IH; assumption|sdone].
Qed.
#[local] Hint Resolve accept_run_f_sh : sh.

Lemma accept_run_sh : forall fuel v c1 c2, Sh c1 c2 ->
  Sp (accept_run fuel v c1) (accept_run fuel v c2).
Proof. intros. unfold accept_run. auto with sh. Qed.
#[local] Hint Resolve accept_run_sh : sh.

Lemma sticky_fail_sh : forall c1 c2, Sh c1 c2 -> Sp (sticky_fail c1) (sticky_fail c2).
Proof.
  intros c1 c2 HR. unfold sticky_fail.
  pose proof (unbackup_sh _ _ HR) as HU.
  split; cbn [fst snd]; [reflexivity|]. rewrite (Sh_current _ _ HU). auto with sh.
Qed.
#[local] Hint Resolve sticky_fail_sh : sh.

Lemma lex_space_sh : forall fuel c1 c2, Sh c1 c2 -> Sp (lex_space fuel c1) (lex_space fuel c2).
Proof. intros fuel c1 c2 HR. unfold lex_space. sstep. sdone. Qed.

Lemma lex_line_comment_sh : forall fuel c1 c2, Sh c1 c2 ->
  Sp (lex_line_comment fuel c1) (lex_line_comment fuel c2).
Proof.
  induction fuel as [|f IH]; intros c1 c2 HR; cbn [lex_line_comment]; [sdone|].
  sstep. ssplit_if; [sdone|apply IH; assumption].
Qed.

Lemma lex_ident_sh : forall fuel c1 c2, Sh c1 c2 -> Sp (lex_ident fuel c1) (lex_ident fuel c2).
Proof.
  induction fuel as [|f IH]; intros c1 c2 HR; cbn [lex_ident]; [sdone|].
  sstep. ssplit_if; [apply IH; assumption|].
  cbv zeta. sstep. ssplit_if; [apply sticky_fail_sh; assumption|].
  match goal with H : Sh ?a ?b |- context [current ?a] => rewrite (Sh_current a b H) end.
  destruct (keyword_of _); sdone.
Qed.

Lemma lex_float_sh : forall fuel c1 c2, Sh c1 c2 -> Sp (lex_float fuel c1) (lex_float fuel c2).
Proof.
  intros fuel c1 c2 HR. unfold lex_float.
  sstep. ssplit_if.
  - sstep. ssplit_if; [sdone|].
    sstep. ssplit_if.
    + sstep. sstep. ssplit_if; [sdone|].
      sstep. ssplit_if; [apply sticky_fail_sh; assumption|sdone].
    + ssplit_if; [sdone|].
      sstep. ssplit_if; [apply sticky_fail_sh; assumption|sdone].
  - ssplit_if; [sdone|].
    sstep. ssplit_if.
    + sstep. sstep. ssplit_if; [sdone|].
      sstep. ssplit_if; [apply sticky_fail_sh; assumption|sdone].
    + ssplit_if; [sdone|].
      sstep. ssplit_if; [apply sticky_fail_sh; assumption|sdone].
Qed.

Lemma lex_hex_sh : forall fuel c1 c2, Sh c1 c2 -> Sp (lex_hex fuel c1) (lex_hex fuel c2).
Proof.
  intros fuel c1 c2 HR. unfold lex_hex. sstep. sstep.
  ssplit_if; [apply sticky_fail_sh; assumption|sdone].
Qed.

Lemma lex_number_sh : forall fuel c1 c2, Sh c1 c2 -> Sp (lex_number fuel c1) (lex_number fuel c2).
Proof.
  intros fuel c1 c2 HR. unfold lex_number. cbv zeta.
  sstep. ssplit_if.
  - sstep. ssplit_if; [apply lex_hex_sh; assumption|].
    sstep. sstep. ssplit_if; [apply lex_float_sh; assumption|].
    ssplit_if; [apply sticky_fail_sh; assumption|sdone].
  - sstep. sstep. ssplit_if; [apply lex_float_sh; assumption|].
    ssplit_if; [apply sticky_fail_sh; assumption|sdone].
Qed.

Lemma lex_quote_sh : forall fuel c1 c2, Sh c1 c2 -> Sp (lex_quote fuel c1) (lex_quote fuel c2).
Proof.
  induction fuel as [|f IH]; intros c1 c2 HR; cbn [lex_quote]; [sdone|].
  sstep. ssplit_if.
  - sstep. ssplit_if; [apply IH; assumption|sdone].
  - ssplit_if; [sdone|]. ssplit_if; [|apply IH; assumption].
    sstep. ssplit_if; [apply sticky_fail_sh; assumption|sdone].
Qed.

(* a state function is entered with any width: lex_start starts with next, which sets it *)
Theorem lex_start_sh : forall fuel c1 c2, Sh0 c1 c2 -> Sp (lex_start fuel c1) (lex_start fuel c2).
Proof.
  intros fuel c1 c2 HR. unfold lex_start.
  pose proof (next_sh0 c1 c2 HR) as H. revert H.
  destruct (next c1) as [r c1']; destruct (next c2) as [r' c2']. intros [? ?]. cbn [fst snd] in *. subst r'.
  ssplit_if; [sdone|]. cbv zeta.
  destruct (two_rune_of r) as [[r2want t2]|].
  - sstep. ssplit_if; [sdone|]. destruct (one_rune_of r); sdone.
  - destruct (one_rune_of r); [sdone|].
    ssplit_if; [apply lex_space_sh; assumption|].
    ssplit_if; [apply lex_line_comment_sh; assumption|].
    ssplit_if; [apply lex_quote_sh; assumption|].
    ssplit_if; [apply lex_ident_sh; assumption|].
    ssplit_if; [apply lex_number_sh; assumption|sdone].
Qed.
Print Assumptions lex_start_sh.

Theorem lex_run_sh : forall steps fuel c1 c2, Sh0 c1 c2 ->
  Sh0 (lex_run steps fuel c1) (lex_run steps fuel c2).
Proof.
  induction steps as [|s IH]; intros fuel c1 c2 HR; cbn [lex_run]; [assumption|].
  pose proof (lex_start_sh fuel c1 c2 HR) as H. revert H.
  destruct (lex_start fuel c1) as [go1 d1]; destruct (lex_start fuel c2) as [go2 d2].
  intros [H1 H2]. cbn [fst snd] in *. subst go2.
  destruct go1; [apply IH|]; apply H2.
Qed.
Print Assumptions lex_run_sh.

Corollary lex_run_shift : forall steps fuel c1 c2, Sh0 c1 c2 ->
  map strip (out (lex_run steps fuel c1)) = map strip (out (lex_run steps fuel c2)).
Proof. intros. apply nopos_strip. apply (lex_run_sh steps fuel c1 c2 H). Qed.

(* the same through the chunk abstraction of LexerProofs: only the unread BYTES matter, not how
   they are cut into window and chunks *)
Definition ShU (c1 c2 : cur) : Prop :=
  before c1 = before c2 /\ unread c1 = unread c2 /\ map nopos (out c1) = map nopos (out c2).

Lemma ShU_flat : forall c1 c2, ShU c1 c2 ->
  Sh0 (mk (before c1) (unread c1) (gpos c1) (width c1) (lfs c1) (out c1))
      (mk (before c2) (unread c2) (gpos c2) (width c2) (lfs c2) (out c2)).
Proof. intros c1 c2 (H1 & H2 & H3). unfold Sh0, mk. cbn [before after pending out]. auto. Qed.

Theorem lex_run_shU : forall steps fuel c1 c2, ShU c1 c2 ->
  ShU (lex_run steps fuel c1) (lex_run steps fuel c2).
Proof.
  intros steps fuel c1 c2 H.
  pose proof (lex_run_resp steps fuel _ _ (R_flat c1)) as R1.
  pose proof (lex_run_resp steps fuel _ _ (R_flat c2)) as R2.
  pose proof (lex_run_sh steps fuel _ _ (ShU_flat _ _ H)) as (S1 & S2 & S3 & S4).
  apply R_fields in R1, R2.
  destruct R1 as (_ & B1 & U1 & _ & O1). destruct R2 as (_ & B2 & U2 & _ & O2).
  unfold ShU, unread. rewrite B1, B2, U1, U2, O1, O2, S1, S2, S3, S4. auto.
Qed.
Print Assumptions lex_run_shU.
