(* BufioProofs.v: the concrete bufio.Reader model refines the abstract byte-list reader,
   for every partition of the stream into non-empty chunks and every buffer state. *)
From Coq Require Import Lia ZifyN ZifyNat ZifyBool.
From BCL Require Import Model.Bufio.
Open Scope N_scope.
Ltac Zify.zify_post_hook ::= Z.div_mod_to_equations.

(* ---------- uptoN as firstn/skipn ---------- *)

Lemma uptoN_spec {A} : forall (l : list A) k,
  uptoN l k = (firstn (N.to_nat k) l, skipn (N.to_nat k) l).
Proof.
  induction l as [|x r IH]; intros k; cbn [uptoN].
  - destruct (k =? 0); rewrite firstn_nil, skipn_nil; reflexivity.
  - destruct (k =? 0) eqn:E.
    + replace (N.to_nat k) with O by lia. reflexivity.
    + rewrite IH. replace (N.to_nat k) with (S (N.to_nat (k - 1))) by lia.
      reflexivity.
Qed.

Lemma takeN_spec {A} : forall (l : list A) k,
  takeN l k = if k <=? nlen l then Some (firstn (N.to_nat k) l, skipn (N.to_nat k) l)
              else None.
Proof.
  induction l as [|x r IH]; intros k; cbn [takeN].
  - destruct (k =? 0) eqn:E.
    + replace k with 0 by lia. reflexivity.
    + destruct (k <=? nlen (@nil A)) eqn:E2; [cbn in E2; lia|reflexivity].
  - destruct (k =? 0) eqn:E.
    + replace k with 0 by lia. reflexivity.
    + rewrite IH. unfold nlen. cbn [length].
      replace (N.to_nat k) with (S (N.to_nat (k - 1))) by lia.
      destruct (k - 1 <=? N.of_nat (length r)) eqn:E1;
        destruct (k <=? N.of_nat (S (length r))) eqn:E2; try lia; reflexivity.
Qed.

Lemma skipn_nil_length {A} k (l : list A) : skipn k l = [] -> (length l <= k)%nat.
Proof.
  intros H. pose proof (skipn_length k l) as HL. rewrite H in HL. cbn in HL. lia.
Qed.

Lemma skipn_cons_length {A} k (l : list A) x r : skipn k l = x :: r -> (k < length l)%nat.
Proof.
  intros H. pose proof (skipn_length k l) as HL. rewrite H in HL. cbn in HL. lia.
Qed.

Lemma firstn_app_l {A} k (l r : list A) : (k <= length l)%nat -> firstn k (l ++ r) = firstn k l.
Proof.
  intros H. rewrite firstn_app. replace (k - length l)%nat with O by lia.
  cbn [firstn]. apply app_nil_r.
Qed.

Lemma skipn_app_l {A} k (l r : list A) : (k <= length l)%nat -> skipn k (l ++ r) = skipn k l ++ r.
Proof.
  intros H. rewrite skipn_app. replace (k - length l)%nat with O by lia. reflexivity.
Qed.

Lemma firstn_app_r {A} k (l r : list A) : (length l <= k)%nat ->
  firstn k (l ++ r) = l ++ firstn (k - length l) r.
Proof. intros H. rewrite firstn_app, firstn_all2 by lia. reflexivity. Qed.

Lemma skipn_app_r {A} k (l r : list A) : (length l <= k)%nat ->
  skipn k (l ++ r) = skipn (k - length l) r.
Proof. intros H. rewrite skipn_app, skipn_all2 by lia. reflexivity. Qed.

(* ---------- invariant ---------- *)

Definition br_ok (b : br) : Prop :=
  nlen (bbuf b) <= 4096 /\ Forall (fun c => c <> []) (bsrc b).

Lemma br_ok_init cs : Forall (fun c => c <> []) cs -> br_ok {| bbuf := []; bsrc := cs |}.
Proof. intros H. split; [cbn; lia|exact H]. Qed.

Lemma br_abs_init cs : br_abs {| bbuf := []; bsrc := cs |} = concat cs.
Proof. reflexivity. Qed.

Lemma c_left_abs b : c_left b = length (br_abs b).
Proof. unfold c_left, br_abs. rewrite app_length. reflexivity. Qed.

(* concat of the source after a partial chunk read *)
Lemma concat_rest (rest : bytes) (more : list bytes) :
  concat (match rest with [] => more | _ => rest :: more end) = rest ++ concat more.
Proof. destruct rest; reflexivity. Qed.

Lemma Forall_rest (rest : bytes) (more : list bytes) :
  Forall (fun c => c <> []) more ->
  Forall (fun c : bytes => c <> []) (match rest with [] => more | _ => rest :: more end).
Proof. intros H. destruct rest; [exact H|]. constructor; [discriminate|exact H]. Qed.

(* ---------- Peek ---------- *)

Lemma peek_go_spec : forall src n buf buf' src',
  n <= 4096 -> nlen buf <= 4096 -> Forall (fun c => c <> []) src ->
  peek_go n buf src = (buf', src') ->
  buf' ++ concat src' = buf ++ concat src /\ nlen buf' <= 4096 /\
  Forall (fun c => c <> []) src' /\ (n <= nlen buf' \/ src' = []).
Proof.
  induction src as [|c more IH]; intros n buf buf' src' Hn Hb Hs H; cbn [peek_go] in H.
  - destruct (n <=? nlen buf) eqn:E; inversion H; subst; clear H.
    + split; [reflexivity|]. split; [assumption|]. split; [assumption|]. left. lia.
    + split; [reflexivity|]. split; [assumption|]. split; [constructor|]. right. reflexivity.
  - destruct (n <=? nlen buf) eqn:E.
    { inversion H; subst; clear H.
      split; [reflexivity|]. split; [assumption|]. split; [assumption|]. left. lia. }
    rewrite uptoN_spec in H. unfold bufsize in H.
    set (k := N.to_nat (4096 - nlen buf)) in *.
    inversion Hs as [|? ? Hc Hm]; subst.
    pose proof (firstn_skipn k c) as FS.
    pose proof (firstn_le_length k c) as FL.
    destruct (skipn k c) as [|y rest] eqn:SK.
    + rewrite app_nil_r in FS.
      apply IH in H; auto.
      * destruct H as (H1 & H2 & H3 & H4).
        split; [|split; [assumption|split; assumption]].
        rewrite H1, FS. cbn [concat]. rewrite app_assoc. reflexivity.
      * unfold nlen in *. rewrite app_length. rewrite FS.
        apply skipn_nil_length in SK. subst k. lia.
    + inversion H; subst; clear H.
      apply skipn_cons_length in SK.
      assert (HL : length (firstn k c) = k) by (rewrite firstn_length; lia).
      split; [|split; [|split]].
      * cbn [concat]. rewrite <- FS at 2. rewrite <- !app_assoc. reflexivity.
      * unfold nlen in *. rewrite app_length, HL. subst k. lia.
      * constructor; [discriminate|exact Hm].
      * left. unfold nlen in *. rewrite app_length, HL. subst k. lia.
Qed.

Theorem c_peek_abs : forall n b x b', br_ok b -> n <= 4096 -> c_peek n b = (x, b') ->
  a_peek n (br_abs b) = (x, br_abs b') /\ br_ok b' /\ nlen x <= nlen (bbuf b')
  /\ br_abs b' = br_abs b.
Proof.
  intros n b x b' [Hb Hs] Hn H. unfold c_peek in H.
  destruct (peek_go n (bbuf b) (bsrc b)) as [buf src] eqn:P.
  apply peek_go_spec in P; auto. destruct P as (P1 & P2 & P3 & P4).
  inversion H; subst; clear H.
  assert (HA : br_abs {| bbuf := buf; bsrc := src |} = br_abs b) by exact P1.
  unfold a_peek. rewrite HA. rewrite !uptoN_spec. cbn [fst bbuf].
  split; [|split; [split; assumption|split; [|reflexivity]]].
  - f_equal. unfold br_abs. rewrite <- P1.
    destruct P4 as [P4|P4].
    + rewrite firstn_app_l by (unfold nlen in *; lia). reflexivity.
    + subst src. cbn [concat]. rewrite app_nil_r. reflexivity.
  - unfold nlen. rewrite firstn_length. lia.
Qed.
Print Assumptions c_peek_abs.

(* ---------- Discard ---------- *)

Theorem c_discard_abs : forall n b k b', br_ok b -> n <= nlen (bbuf b) ->
  c_discard n b = (k, b') ->
  a_discard n (br_abs b) = (k, br_abs b') /\ br_ok b'.
Proof.
  intros n b k b' [Hb Hs] Hn H. unfold c_discard in H.
  rewrite uptoN_spec in H. inversion H; subst; clear H.
  unfold a_discard, br_abs. rewrite uptoN_spec. cbn [bbuf bsrc].
  unfold nlen in *.
  rewrite firstn_app_l, skipn_app_l by lia.
  split; [reflexivity|].
  split; [|exact Hs]. cbn [bbuf]. unfold nlen. rewrite skipn_length. lia.
Qed.
Print Assumptions c_discard_abs.

(* ---------- io.ReadFull ---------- *)

Lemma readfull_src_spec : forall src n x b',
  Forall (fun c => c <> []) src -> readfull_src n src = (x, b') ->
  uptoN (concat src) n = (x, br_abs b') /\ br_ok b'.
Proof.
  induction src as [|c more IH]; intros n x b' Hs H; cbn [readfull_src] in H.
  - rewrite uptoN_spec. cbn [concat]. rewrite firstn_nil, skipn_nil.
    destruct (n =? 0); inversion H; subst; (split; [reflexivity|apply br_ok_init; constructor]).
  - inversion Hs as [|? ? Hc Hm]; subst.
    destruct (n =? 0) eqn:E0.
    { inversion H; subst; clear H. replace n with 0 by lia.
      rewrite uptoN_spec. split; [reflexivity|apply br_ok_init; exact Hs]. }
    rewrite uptoN_spec. cbn [concat].
    destruct (nlen c <=? n) eqn:E1.
    { destruct (readfull_src (n - nlen c) more) as [t b1] eqn:R.
      inversion H; subst; clear H.
      apply IH in R; auto. destruct R as [R Hok]. rewrite uptoN_spec in R.
      inversion R as [[R1 R2]]. split; [|exact Hok].
      unfold nlen in *.
      rewrite firstn_app_r, skipn_app_r by lia.
      replace (N.to_nat n - length c)%nat with (N.to_nat (n - N.of_nat (length c))) by lia.
      rewrite R2. reflexivity. }
    destruct (bufsize <=? n) eqn:E2.
    { rewrite uptoN_spec in H. inversion H; subst; clear H.
      unfold nlen in *.
      rewrite firstn_app_l, skipn_app_l by lia.
      split; [reflexivity|]. apply br_ok_init. constructor; [|exact Hm].
      intros Hnil. apply skipn_nil_length in Hnil. lia. }
    rewrite !uptoN_spec in H. unfold bufsize in *.
    remember (N.to_nat 4096) as K eqn:HK.
    apply (f_equal N.of_nat) in HK. rewrite N2Nat.id in HK.
    injection H as <- <-.
    unfold nlen in *.
    assert (HnK : (N.to_nat n < K)%nat) by lia.
    rewrite firstn_firstn. replace (Nat.min (N.to_nat n) K) with (N.to_nat n) by lia.
    rewrite firstn_app_l, skipn_app_l by lia.
    split.
    + unfold br_abs. cbn [bbuf bsrc]. rewrite concat_rest.
      f_equal. rewrite app_assoc. f_equal.
      rewrite <- (firstn_skipn K c) at 1.
      rewrite skipn_app_l; [reflexivity|].
      rewrite firstn_length. lia.
    + split; [|apply Forall_rest; exact Hm].
      cbn [bbuf]. unfold nlen. rewrite skipn_length, firstn_length. lia.
Qed.

Theorem c_readfull_abs : forall n b x b', br_ok b -> c_readfull n b = (x, b') ->
  a_readfull n (br_abs b) = (x, br_abs b') /\ br_ok b'.
Proof.
  intros n b x b' [Hb Hs] H. unfold c_readfull in H.
  rewrite uptoN_spec in H. unfold a_readfull. rewrite uptoN_spec.
  unfold br_abs at 1 2.
  destruct (skipn (N.to_nat n) (bbuf b)) as [|y rest] eqn:SK.
  - destruct (readfull_src (n - nlen (firstn (N.to_nat n) (bbuf b))) (bsrc b)) as [t2 b1] eqn:R.
    inversion H; subst; clear H.
    apply skipn_nil_length in SK.
    rewrite firstn_all2 in R by lia. rewrite (firstn_all2 (bbuf b)) by lia.
    apply readfull_src_spec in R; auto. destruct R as [R Hok].
    rewrite uptoN_spec in R. inversion R as [[R1 R2]].
    split; [|exact Hok].
    rewrite firstn_app_r, skipn_app_r by lia.
    unfold nlen.
    replace (N.to_nat n - length (bbuf b))%nat
      with (N.to_nat (n - N.of_nat (length (bbuf b)))) by lia.
    unfold nlen in R2. rewrite R2. reflexivity.
  - inversion H; subst; clear H.
    pose proof (skipn_cons_length _ _ _ _ SK) as HL.
    rewrite firstn_app_l, skipn_app_l by lia. rewrite SK.
    split; [reflexivity|].
    split; [|exact Hs]. cbn [bbuf]. rewrite <- SK.
    unfold nlen in *. rewrite skipn_length. lia.
Qed.
Print Assumptions c_readfull_abs.

(* ---------- Read of one byte ---------- *)

Theorem c_read1_abs : forall b o b', br_ok b -> c_read1 b = (o, b') ->
  a_read1 (br_abs b) = (o, br_abs b') /\ br_ok b'.
Proof.
  intros b o b' [Hb Hs] H. unfold c_read1 in H. unfold br_abs at 1.
  destruct (bbuf b) as [|x rest] eqn:B.
  - destruct (bsrc b) as [|c more] eqn:S.
    + inversion H; subst; clear H. unfold br_abs. rewrite B, S.
      split; [reflexivity|]. split; [rewrite B; exact Hb|rewrite S; exact Hs].
    + inversion Hs as [|? ? Hc Hm]; subst.
      rewrite uptoN_spec in H. unfold bufsize in H.
      remember (N.to_nat 4096) as K eqn:HK.
      apply (f_equal N.of_nat) in HK. rewrite N2Nat.id in HK.
      destruct c as [|c0 c']; [congruence|].
      destruct K as [|K']; [lia|].
      cbn [firstn skipn] in H. injection H as <- <-.
      cbn [app concat a_read1]. unfold br_abs. cbn [bbuf bsrc].
      rewrite concat_rest. rewrite app_assoc, firstn_skipn.
      split; [reflexivity|].
      split; [|apply Forall_rest; exact Hm].
      cbn [bbuf]. unfold nlen. rewrite firstn_length. lia.
  - inversion H; subst; clear H. cbn [app a_read1]. split; [reflexivity|].
    split; [|exact Hs]. cbn [bbuf]. unfold nlen in *. cbn [length] in Hb. lia.
Qed.
Print Assumptions c_read1_abs.
