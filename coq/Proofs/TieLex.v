(* Tie obligations: the lexer's tables in the Go source equal the pinned ones.  The capacity of
   the token channel (tokensBufSize) is not tied: no property depends on its value. *)
From Coq Require Import List NArith String.
From BCL Require Gen.GenTables Spec.Pinned.
Import ListNotations.
Open Scope string_scope.
Fixpoint get (k : string) (l : list (string * N)) : option N :=
  match l with [] => None | (k', v) :: r => if String.eqb k k' then Some v else get k r end.
Lemma tie_token_types : GenTables.token_types = Pinned.token_types. Proof. reflexivity. Qed.
Lemma tie_keywords : GenTables.keywords = Pinned.keywords. Proof. reflexivity. Qed.
Lemma tie_two_rune : GenTables.two_rune = Pinned.two_rune. Proof. reflexivity. Qed.
Lemma tie_one_rune : GenTables.one_rune = Pinned.one_rune. Proof. reflexivity. Qed.
Lemma tie_space_runes : GenTables.space_runes = Pinned.space_runes. Proof. reflexivity. Qed.
Lemma tie_eol_runes : GenTables.eol_runes = Pinned.eol_runes. Proof. reflexivity. Qed.
Lemma tie_digits : GenTables.digits = Pinned.digits. Proof. reflexivity. Qed.
Lemma tie_hexdigits : GenTables.hexdigits = Pinned.hexdigits. Proof. reflexivity. Qed.
Lemma tie_line_comment : get "lineComment" GenTables.constants = Some 35%N. Proof. reflexivity. Qed.
