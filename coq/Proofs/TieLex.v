(* Tie obligations: the lexer's tables in the Go source equal the pinned ones. *)
From BCL Require Gen.GenTables Spec.Pinned.
Lemma tie_token_types : GenTables.token_types = Pinned.token_types. Proof. reflexivity. Qed.
Lemma tie_keywords : GenTables.keywords = Pinned.keywords. Proof. reflexivity. Qed.
Lemma tie_two_rune : GenTables.two_rune = Pinned.two_rune. Proof. reflexivity. Qed.
Lemma tie_one_rune : GenTables.one_rune = Pinned.one_rune. Proof. reflexivity. Qed.
Lemma tie_space_runes : GenTables.space_runes = Pinned.space_runes. Proof. reflexivity. Qed.
Lemma tie_eol_runes : GenTables.eol_runes = Pinned.eol_runes. Proof. reflexivity. Qed.
Lemma tie_digits : GenTables.digits = Pinned.digits. Proof. reflexivity. Qed.
Lemma tie_hexdigits : GenTables.hexdigits = Pinned.hexdigits. Proof. reflexivity. Qed.
Lemma tie_lex_constants : GenTables.constants = Pinned.constants. Proof. reflexivity. Qed.
