(* LexerProofs.v: the token stream of Model/Lexer.v does not depend on how the input is cut
   into chunks; the line table is the newline table of the bytes received so far. *)
From Coq Require Import Lia ZifyN ZifyNat ZifyBool Sorted.
From BCL Require Import Model.Lexer Proofs.LineCalcProofs.
Open Scope N_scope.

(* ------------------------------------------------------------------ *)
(* a. UTF-8 facts                                                      *)

Lemma decode_rune_nil : decode_rune [] = (rune_error, 0%nat).
Proof. reflexivity. Qed.

Ltac break_ifs :=
  repeat match goal with
  | |- context [if ?b then _ else _] => destruct b eqn:?
  end.

Lemma decode_rune_width : forall l r w,
  decode_rune l = (r, w) -> l <> [] -> (1 <= w <= length l)%nat.
Proof.
  intros l r w H Hne. destruct l as [|b0 l]; [congruence|]. clear Hne.
  unfold decode_rune in H. destruct (lead_info b0) as [sz [lo hi]].
  revert H.
  destruct l as [|b1 [|b2 [|b3 l]]]; break_ifs; intros H; injection H as <- <-; cbn [length]; lia.
Qed.

Lemma decode_rune_width_le : forall l r w, decode_rune l = (r, w) -> (w <= length l)%nat.
Proof.
  intros l r w H. destruct l as [|b l].
  - cbn in H. injection H as <- <-. cbn. lia.
  - apply (decode_rune_width _ _ _ H). discriminate.
Qed.

Lemma decode_rune_width0 : forall l r, decode_rune l = (r, 0%nat) -> l = [].
Proof.
  intros l r H. destruct l as [|b l]; [reflexivity|].
  pose proof (decode_rune_width _ _ _ H ltac:(discriminate)). lia.
Qed.

Lemma full_rune_nil : full_rune [] = false.
Proof. reflexivity. Qed.

Lemma full_rune_stable : forall l s, full_rune l = true -> decode_rune (l ++ s) = decode_rune l.
Proof.
  intros l s H.
  destruct l as [|b0 l]; [discriminate|].
  revert H. cbn [app]. unfold full_rune, decode_rune.
  destruct (lead_info b0) as [sz [lo hi]].
  destruct l as [|b1 [|b2 [|b3 l]]]; cbn [app]; break_ifs; intros H;
    try discriminate H; try reflexivity; try lia.
Qed.

(* ------------------------------------------------------------------ *)
(* refill, move_rev                                                    *)

(* refill only moves whole chunks from `pending` to the end of the window, records their
   newlines at their global offsets, and stops at a full rune or at the end of the input *)
Lemma skipn_skipn {A} : forall (y x : nat) (l : list A), skipn x (skipn y l) = skipn (x + y) l.
Proof.
  induction y as [|y IH]; intros x l.
  - rewrite Nat.add_0_r. reflexivity.
  - destruct l as [|a l]; [rewrite !skipn_nil; reflexivity|].
    rewrite Nat.add_succ_r. cbn [skipn]. apply IH.
Qed.

Lemma refill_spec : forall pend aft g l pend' aft' l',
  refill pend aft g l = (pend', aft', l') ->
  exists got,
    aft' = aft ++ got /\ concat pend = got ++ concat pend' /\
    l' = l ++ newlines_at got (g + nlen aft) /\
    (full_rune aft' = true \/ pend' = []) /\
    (pend = [] -> pend' = []) /\
    (exists j, pend' = skipn j pend).
Proof.
  induction pend as [|s more IH]; intros aft g l pend' aft' l' H.
  - exists []. cbn [refill] in H.
    destruct (full_rune aft) eqn:F; injection H as <- <- <-; cbn [newlines_at concat];
      rewrite !app_nil_r; repeat split; auto; exists 0%nat; reflexivity.
  - cbn [refill] in H. destruct (full_rune aft) eqn:F.
    + injection H as <- <- <-. exists []. cbn [newlines_at app]. rewrite !app_nil_r.
      repeat split; auto. exists 0%nat; reflexivity.
    + apply IH in H. destruct H as (got & E1 & E2 & E3 & D & _ & (j & Ej)).
      subst aft' l'. exists (s ++ got). cbn [concat]. rewrite E2. unfold lc_add.
      rewrite newlines_at_app, !app_assoc.
      replace (g + nlen (aft ++ s)) with (g + nlen aft + nlen s)
        by (unfold nlen; rewrite app_length; lia).
      repeat split; auto; try discriminate. exists (S j). exact Ej.
Qed.

Lemma refill_rest : forall pend aft g l pend' aft' l',
  refill pend aft g l = (pend', aft', l') -> aft' ++ concat pend' = aft ++ concat pend.
Proof.
  intros * H. apply refill_spec in H. destruct H as (got & -> & -> & _).
  rewrite app_assoc. reflexivity.
Qed.

Lemma move_rev_eq : forall k (from to : bytes),
  move_rev k from to = (skipn k from, rev (firstn k from) ++ to).
Proof.
  induction k as [|k IH]; intros from to; [destruct from; reflexivity|].
  destruct from as [|x r]; [reflexivity|].
  cbn [move_rev skipn firstn rev]. rewrite IH, <- app_assoc. reflexivity.
Qed.

Lemma firstn_app_le {A} (l r : list A) n : (n <= length l)%nat -> firstn n (l ++ r) = firstn n l.
Proof.
  intros. rewrite firstn_app. replace (n - length l)%nat with 0%nat by lia.
  cbn [firstn]. apply app_nil_r.
Qed.

Lemma skipn_app_le {A} (l r : list A) n : (n <= length l)%nat -> skipn n (l ++ r) = skipn n l ++ r.
Proof.
  intros. rewrite skipn_app. replace (n - length l)%nat with 0%nat by lia. reflexivity.
Qed.

(* ------------------------------------------------------------------ *)
(* b. the abstraction: everything except the split window/pending, and except lfs *)

Definition acur := (N * bytes * bytes * nat * list token)%type.
Definition abs (c : cur) : acur :=
  (gpos c, before c, after c ++ concat (pending c), width c, out c).

(* two cursors that differ only in how the unread bytes are cut (and in lfs) *)
Definition R (c1 c2 : cur) : Prop := abs c1 = abs c2.
Definition Rp {A} (x y : A * cur) : Prop := fst x = fst y /\ R (snd x) (snd y).
(* width c bytes can be taken from the window again (true after every backup) *)
Definition ok (c : cur) : Prop := (width c <= length (after c))%nat.

Lemma R_fields : forall c1 c2, R c1 c2 ->
  gpos c1 = gpos c2 /\ before c1 = before c2 /\
  after c1 ++ concat (pending c1) = after c2 ++ concat (pending c2) /\
  width c1 = width c2 /\ out c1 = out c2.
Proof. unfold R, abs. intros c1 c2 H. injection H as H1 H2 H3 H4 H5. auto. Qed.

Lemma R_refl : forall c, R c c.
Proof. reflexivity. Qed.

Lemma R_current : forall c1 c2, R c1 c2 -> current c1 = current c2.
Proof. intros c1 c2 H. apply R_fields in H. unfold current. destruct H as (_ & -> & _). reflexivity. Qed.

(* abstract versions of the three operations that look at the window *)
Definition anext (a : acur) : Z * acur :=
  let '(g, bef, rest, _, o) := a in
  let '(r, w) := decode_rune rest in
  match w with
  | O => (eof, (g, bef, rest, 0%nat, o))
  | _ => (Z.of_N r, (g + N.of_nat w, rev (firstn w rest) ++ bef, skipn w rest, w, o))
  end.

Definition abackup (a : acur) : acur :=
  let '(g, bef, rest, w, o) := a in
  (g - N.of_nat w, skipn w bef, rev (firstn w bef) ++ rest, w, o).

Definition aunbackup (a : acur) : acur :=
  let '(g, bef, rest, w, o) := a in
  (g + N.of_nat w, rev (firstn w rest) ++ bef, skipn w rest, w, o).

(* the key step: next only depends on the abstraction *)
Theorem next_abs : forall c, anext (abs c) = (fst (next c), abs (snd (next c))).
Proof.
  intros c. unfold next.
  destruct (refill (pending c) (after c) (gpos c) (lfs c)) as [[pend aft] l] eqn:ER.
  pose proof (refill_rest _ _ _ _ _ _ _ ER) as Erest.
  apply refill_spec in ER. destruct ER as (got & _ & _ & _ & D & _).
  unfold abs at 1. cbn [anext]. rewrite <- Erest.
  assert (Hdec : decode_rune (aft ++ concat pend) = decode_rune aft).
  { destruct D as [F| ->]; [apply full_rune_stable; exact F|].
    cbn [concat]. rewrite app_nil_r. reflexivity. }
  rewrite Hdec.
  destruct (decode_rune aft) as [r w] eqn:ED.
  pose proof (decode_rune_width_le _ _ _ ED) as Hw.
  destruct w as [|w].
  - cbn [fst snd]. unfold abs. cbn [before after gpos width pending out]. reflexivity.
  - rewrite move_rev_eq. cbn [fst snd]. unfold abs. cbn [before after gpos width pending out].
    rewrite firstn_app_le, skipn_app_le by exact Hw. reflexivity.
Qed.
Print Assumptions next_abs.

Lemma backup_abs : forall c, abs (backup c) = abackup (abs c).
Proof.
  intros c. unfold backup. rewrite move_rev_eq.
  unfold abs, abackup. cbn [before after gpos width pending out].
  rewrite <- app_assoc. reflexivity.
Qed.

Lemma unbackup_abs : forall c, ok c -> abs (unbackup c) = aunbackup (abs c).
Proof.
  intros c Hok. unfold ok in Hok. unfold unbackup. rewrite move_rev_eq.
  unfold abs, aunbackup. cbn [before after gpos width pending out].
  rewrite firstn_app_le, skipn_app_le by exact Hok. reflexivity.
Qed.

Lemma next_resp : forall c1 c2, R c1 c2 -> Rp (next c1) (next c2).
Proof.
  intros c1 c2 H. unfold R in H.
  assert (E : (fst (next c1), abs (snd (next c1))) = (fst (next c2), abs (snd (next c2))))
    by (rewrite <- !next_abs, H; reflexivity).
  apply pair_equal_spec in E. exact E.
Qed.
Print Assumptions next_resp.

Lemma backup_resp : forall c1 c2, R c1 c2 -> R (backup c1) (backup c2).
Proof. unfold R. intros c1 c2 H. rewrite !backup_abs, H. reflexivity. Qed.

Lemma unbackup_resp : forall c1 c2, R c1 c2 -> ok c1 -> ok c2 -> R (unbackup c1) (unbackup c2).
Proof. unfold R. intros c1 c2 H K1 K2. rewrite !unbackup_abs, H by assumption. reflexivity. Qed.

Lemma ignore_resp : forall c1 c2, R c1 c2 -> R (ignore c1) (ignore c2).
Proof.
  intros c1 c2 H. apply R_fields in H. destruct H as (H1 & H2 & H3 & H4 & H5).
  unfold R, abs, ignore. cbn [before after gpos width pending out]. congruence.
Qed.

Lemma emit_resp : forall t c1 c2, R c1 c2 -> R (emit t c1) (emit t c2).
Proof.
  intros t c1 c2 H. pose proof (R_current _ _ H) as Hc.
  apply R_fields in H. destruct H as (H1 & H2 & H3 & H4 & H5).
  unfold R, abs, emit. cbn [before after gpos width pending out]. congruence.
Qed.

Lemma emit_error_resp : forall e c1 c2, R c1 c2 -> R (emit_error e c1) (emit_error e c2).
Proof.
  intros e c1 c2 H. apply R_fields in H. destruct H as (H1 & H2 & H3 & H4 & H5).
  unfold R, abs, emit_error. cbn [before after gpos width pending out]. congruence.
Qed.

Lemma fail_resp : forall e c1 c2, R c1 c2 -> R (fail e c1) (fail e c2).
Proof. intros. unfold fail. apply emit_resp, ignore_resp, emit_error_resp. assumption. Qed.

(* after next, backup can take the rune back; after backup, unbackup can take it again *)
Lemma next_backup_ok : forall c, ok (backup (snd (next c))).
Proof.
  intros c. unfold next.
  destruct (refill (pending c) (after c) (gpos c) (lfs c)) as [[pend aft] l].
  destruct (decode_rune aft) as [r w] eqn:ED.
  pose proof (decode_rune_width_le _ _ _ ED) as Hw.
  destruct w as [|w]; cbn [snd].
  - unfold ok, backup. cbn [before after gpos width pending out move_rev]. lia.
  - rewrite move_rev_eq. cbn [snd]. unfold ok, backup.
    cbn [before after gpos width pending out]. rewrite move_rev_eq.
    cbn [before after gpos width pending out].
    rewrite app_length, rev_length, firstn_app_le by (rewrite rev_length, firstn_length; lia).
    rewrite firstn_length, rev_length, firstn_length. lia.
Qed.

Lemma peek_ok : forall c, ok (snd (peek c)).
Proof.
  intros c. unfold peek. pose proof (next_backup_ok c) as H.
  destruct (next c) as [r c1]. exact H.
Qed.

Create HintDb resp.
#[local] Hint Resolve R_refl next_resp backup_resp ignore_resp emit_resp emit_error_resp fail_resp : resp.

(* one step of a simulation proof: both sides destructure the result of the same operation on
   related cursors; the operation's lemma is found in the hint database *)
Ltac step_core g a g' b :=
  let H := fresh "H" in
  assert (H : Rp (g a) (g' b)) by (auto with resp);
  revert H;
  lazymatch g with
  | peek => generalize (peek_ok a) (peek_ok b)
  | _ => idtac
  end;
  destruct (g a) as [? ?]; destruct (g' b) as [? ?];
  lazymatch g with
  | peek => intros ? ? [? ?]
  | _ => intros [? ?]
  end; cbn [fst snd] in *; subst.

Ltac step :=
  lazymatch goal with
  | |- Rp (let '(_, _) := (let '(_, _) := ?g ?a in _) in _)
          (let '(_, _) := (let '(_, _) := ?g' ?b in _) in _) => step_core g a g' b
  | |- Rp (let '(_, _) := ?g ?a in _) (let '(_, _) := ?g' ?b in _) => step_core g a g' b
  end.

Ltac split_if :=
  match goal with
  | |- Rp (let '(_, _) := (if ?d then _ else _) in _) _ => destruct d; cbv beta iota
  | |- Rp (if ?d then _ else _) _ => destruct d
  end.

Ltac done_pair := split; cbn [fst snd]; auto with resp.

Lemma peek_resp : forall c1 c2, R c1 c2 -> Rp (peek c1) (peek c2).
Proof. intros c1 c2 HR. unfold peek. step. done_pair. Qed.
#[local] Hint Resolve peek_resp : resp.

Lemma accept_resp : forall v c1 c2, R c1 c2 -> Rp (accept v c1) (accept v c2).
Proof. intros v c1 c2 HR. unfold accept. step. split_if; done_pair. Qed.
#[local] Hint Resolve accept_resp : resp.

Lemma accept_run_f_resp : forall fuel p acc c1 c2, R c1 c2 ->
  Rp (accept_run_f fuel p acc c1) (accept_run_f fuel p acc c2).
Proof.
  induction fuel as [|f IH]; intros p acc c1 c2 HR; cbn [accept_run_f]; [done_pair|].
  step. split_if; [apply IH; assumption|done_pair].
Qed.
#[local] Hint Resolve accept_run_f_resp : resp.

Lemma accept_run_resp : forall fuel v c1 c2, R c1 c2 ->
  Rp (accept_run fuel v c1) (accept_run fuel v c2).
Proof. intros. unfold accept_run. auto with resp. Qed.
#[local] Hint Resolve accept_run_resp : resp.

Lemma sticky_fail_resp : forall c1 c2, R c1 c2 -> ok c1 -> ok c2 ->
  Rp (sticky_fail c1) (sticky_fail c2).
Proof.
  intros c1 c2 HR K1 K2. unfold sticky_fail.
  pose proof (unbackup_resp _ _ HR K1 K2) as HU.
  split; cbn [fst snd]; [reflexivity|]. rewrite (R_current _ _ HU). auto with resp.
Qed.

Lemma lex_space_resp : forall fuel c1 c2, R c1 c2 -> Rp (lex_space fuel c1) (lex_space fuel c2).
Proof. intros fuel c1 c2 HR. unfold lex_space. step. done_pair. Qed.

Lemma lex_line_comment_resp : forall fuel c1 c2, R c1 c2 ->
  Rp (lex_line_comment fuel c1) (lex_line_comment fuel c2).
Proof.
  induction fuel as [|f IH]; intros c1 c2 HR; cbn [lex_line_comment]; [done_pair|].
  step. split_if; [done_pair|apply IH; assumption].
Qed.

Lemma lex_ident_resp : forall fuel c1 c2, R c1 c2 -> Rp (lex_ident fuel c1) (lex_ident fuel c2).
Proof.
  induction fuel as [|f IH]; intros c1 c2 HR; cbn [lex_ident]; [done_pair|].
  step. split_if; [apply IH; assumption|].
  cbv zeta. step. split_if; [apply sticky_fail_resp; assumption|].
  match goal with H : R ?a ?b |- context [current ?a] => rewrite (R_current a b H) end.
  destruct (keyword_of _); done_pair.
Qed.

Lemma lex_float_resp : forall fuel c1 c2, R c1 c2 -> Rp (lex_float fuel c1) (lex_float fuel c2).
Proof.
  intros fuel c1 c2 HR. unfold lex_float.
  step. split_if.
  - step. split_if; [done_pair|].
    step. split_if.
    + step. step. split_if; [done_pair|].
      step. split_if; [apply sticky_fail_resp; assumption|done_pair].
    + split_if; [done_pair|].
      step. split_if; [apply sticky_fail_resp; assumption|done_pair].
  - split_if; [done_pair|].
    step. split_if.
    + step. step. split_if; [done_pair|].
      step. split_if; [apply sticky_fail_resp; assumption|done_pair].
    + split_if; [done_pair|].
      step. split_if; [apply sticky_fail_resp; assumption|done_pair].
Qed.

Lemma lex_hex_resp : forall fuel c1 c2, R c1 c2 -> Rp (lex_hex fuel c1) (lex_hex fuel c2).
Proof.
  intros fuel c1 c2 HR. unfold lex_hex. step. step.
  split_if; [apply sticky_fail_resp; assumption|done_pair].
Qed.

(* lex_float is entered from lex_number right after a peek, but does not need that *)
Lemma lex_number_resp : forall fuel c1 c2, R c1 c2 -> Rp (lex_number fuel c1) (lex_number fuel c2).
Proof.
  intros fuel c1 c2 HR. unfold lex_number. cbv zeta.
  step. split_if.
  - step. split_if; [apply lex_hex_resp; assumption|].
    step. step. split_if; [apply lex_float_resp; assumption|].
    split_if; [apply sticky_fail_resp; assumption|done_pair].
  - step. step. split_if; [apply lex_float_resp; assumption|].
    split_if; [apply sticky_fail_resp; assumption|done_pair].
Qed.

Lemma lex_quote_resp : forall fuel c1 c2, R c1 c2 -> Rp (lex_quote fuel c1) (lex_quote fuel c2).
Proof.
  induction fuel as [|f IH]; intros c1 c2 HR; cbn [lex_quote]; [done_pair|].
  step. split_if.
  - step. split_if; [apply IH; assumption|done_pair].
  - split_if; [done_pair|]. split_if; [|apply IH; assumption].
    step. split_if; [apply sticky_fail_resp; assumption|done_pair].
Qed.

Lemma lex_start_resp : forall fuel c1 c2, R c1 c2 -> Rp (lex_start fuel c1) (lex_start fuel c2).
Proof.
  intros fuel c1 c2 HR. unfold lex_start.
  step. split_if; [done_pair|]. cbv zeta.
  match goal with |- context [two_rune_of ?r] => destruct (two_rune_of r) as [[r2want t2]|] end.
  - step. split_if; [done_pair|].
    match goal with |- context [one_rune_of ?r] => destruct (one_rune_of r) end; done_pair.
  - match goal with |- context [one_rune_of ?r] => destruct (one_rune_of r) end; [done_pair|].
    split_if; [apply lex_space_resp; assumption|].
    split_if; [apply lex_line_comment_resp; assumption|].
    split_if; [apply lex_quote_resp; assumption|].
    split_if; [apply lex_ident_resp; assumption|].
    split_if; [apply lex_number_resp; assumption|done_pair].
Qed.

Lemma lex_run_resp : forall steps fuel c1 c2, R c1 c2 ->
  R (lex_run steps fuel c1) (lex_run steps fuel c2).
Proof.
  induction steps as [|s IH]; intros fuel c1 c2 HR; cbn [lex_run]; [assumption|].
  pose proof (lex_start_resp fuel c1 c2 HR) as H. revert H.
  destruct (lex_start fuel c1) as [go1 d1]; destruct (lex_start fuel c2) as [go2 d2].
  intros [H1 H2]. cbn [fst snd] in *. subst go2.
  destruct go1; [apply IH; assumption|assumption].
Qed.
Print Assumptions lex_run_resp.

(* ------------------------------------------------------------------ *)
(* c. chunk independence of the token stream                           *)

Lemma fold_total_len : forall cs a,
  fold_left (fun a (s : bytes) => (a + length s)%nat) cs a = (a + length (concat cs))%nat.
Proof.
  induction cs as [|s cs IH]; intros a; cbn [fold_left concat]; [cbn; lia|].
  rewrite IH, app_length. lia.
Qed.

Lemma total_len_concat : forall cs, total_len cs = length (concat cs).
Proof. intros. unfold total_len. rewrite fold_total_len. lia. Qed.

Lemma total_len_single : forall cs, total_len [concat cs] = total_len cs.
Proof. intros. rewrite !total_len_concat. cbn [concat]. rewrite app_nil_r. reflexivity. Qed.

Lemma init_R : forall cs, R (init_cur cs) (init_cur [concat cs]).
Proof.
  intros. unfold R, abs, init_cur. cbn [before after gpos width pending out concat app].
  rewrite app_nil_r. reflexivity.
Qed.

Theorem lex_chunk_independent : forall cs, fst (lex cs) = fst (lex [concat cs]).
Proof.
  intros cs. unfold lex. cbn [fst]. rewrite total_len_single.
  set (n := S (S (total_len cs))).
  pose proof (lex_run_resp n n _ _ (init_R cs)) as H.
  apply R_fields in H. destruct H as (_ & _ & _ & _ & Ho). rewrite Ho. reflexivity.
Qed.
Print Assumptions lex_chunk_independent.

(* unbackup alone does not respect the abstraction (it needs `ok`, which holds after every
   backup): same abstraction, different window split, different result *)
Example unbackup_needs_ok :
  let c1 := {| before := []; after := []; gpos := 0; width := 1; pending := [[65]]; lfs := []; out := [] |} in
  let c2 := {| before := []; after := [65]; gpos := 0; width := 1; pending := []; lfs := []; out := [] |} in
  abs c1 = abs c2 /\ abs (unbackup c1) <> abs (unbackup c2).
Proof. split; [reflexivity|]. vm_compute. discriminate. Qed.

(* ------------------------------------------------------------------ *)
(* d. the line table                                                   *)

(* width c bytes can be given back (true after every next) *)
Definition bk (c : cur) : Prop := (width c <= length (before c))%nat.

(* `all` is the whole chunk sequence; `recv` the bytes of the chunks already taken from it *)
Definition Inv (all : list bytes) (c : cur) : Prop :=
  exists recv,
    concat all = recv ++ concat (pending c) /\
    lfs c = newlines_at recv 0 /\
    gpos c + nlen (after c) = nlen recv /\
    nlen (before c) <= gpos c /\
    (forall tk rest, out c = tk :: rest -> ttyp tk = tEOF -> pending c = []) /\
    (exists k, pending c = skipn k all).

Lemma Inv_width : forall all c w,
  Inv all c ->
  Inv all {| before := before c; after := after c; gpos := gpos c; width := w;
             pending := pending c; lfs := lfs c; out := out c |}.
Proof. intros all c w H. exact H. Qed.

Lemma Inv_refill : forall all c pend aft l w,
  Inv all c -> refill (pending c) (after c) (gpos c) (lfs c) = (pend, aft, l) ->
  Inv all {| before := before c; after := aft; gpos := gpos c; width := w;
             pending := pend; lfs := l; out := out c |}.
Proof.
  intros all c pend aft l w (recv & Ha & Hl & Hg & Hb & Ho & Hsuf) ER.
  apply refill_spec in ER. destruct ER as (got & Eaft & Ec & El & D & Hnil & (j & Ej)).
  exists (recv ++ got). unfold Inv. cbn [before after gpos width pending lfs out].
  repeat split.
  - rewrite Ha, Ec, app_assoc. reflexivity.
  - rewrite El, Hl, newlines_at_app. f_equal. f_equal. lia.
  - subst aft. unfold nlen in *. rewrite !app_length. lia.
  - exact Hb.
  - intros tk rest E1 E2. apply Hnil. eapply Ho; eauto.
  - destruct Hsuf as (k & Hk). exists (j + k)%nat. rewrite Ej, Hk. apply skipn_skipn.
Qed.

Lemma Inv_shift_fwd : forall all c k w, Inv all c -> (k <= length (after c))%nat ->
  Inv all {| before := rev (firstn k (after c)) ++ before c; after := skipn k (after c);
             gpos := gpos c + N.of_nat k; width := w;
             pending := pending c; lfs := lfs c; out := out c |}.
Proof.
  intros all c k w (recv & Ha & Hl & Hg & Hb & Ho & Hsuf) Hk.
  exists recv. cbn [before after gpos width pending lfs out].
  repeat split; auto.
  - unfold nlen in *. rewrite skipn_length. lia.
  - unfold nlen in *. rewrite app_length, rev_length, firstn_length. lia.
Qed.

Lemma Inv_shift_back : forall all c k w, Inv all c -> (k <= length (before c))%nat ->
  Inv all {| before := skipn k (before c); after := rev (firstn k (before c)) ++ after c;
             gpos := gpos c - N.of_nat k; width := w;
             pending := pending c; lfs := lfs c; out := out c |}.
Proof.
  intros all c k w (recv & Ha & Hl & Hg & Hb & Ho & Hsuf) Hk.
  exists recv. cbn [before after gpos width pending lfs out].
  repeat split; auto.
  - unfold nlen in *. rewrite app_length, rev_length, firstn_length. lia.
  - unfold nlen in *. rewrite skipn_length. lia.
Qed.

Lemma next_inv : forall all c, Inv all c -> Inv all (snd (next c)).
Proof.
  intros all c H. unfold next.
  destruct (refill (pending c) (after c) (gpos c) (lfs c)) as [[pend aft] l] eqn:ER.
  destruct (decode_rune aft) as [r w] eqn:ED.
  pose proof (decode_rune_width_le _ _ _ ED) as Hw.
  destruct w as [|w]; cbn [snd].
  - exact (Inv_refill all c pend aft l 0%nat H ER).
  - rewrite move_rev_eq. cbn [snd].
    exact (Inv_shift_fwd all _ (S w) (S w) (Inv_refill all c pend aft l 0%nat H ER) Hw).
Qed.

Lemma next_bk : forall c, bk (snd (next c)).
Proof.
  intros c. unfold next.
  destruct (refill (pending c) (after c) (gpos c) (lfs c)) as [[pend aft] l].
  destruct (decode_rune aft) as [r w] eqn:ED.
  pose proof (decode_rune_width_le _ _ _ ED) as Hw.
  destruct w as [|w]; cbn [snd].
  - unfold bk. cbn [width]. lia.
  - rewrite move_rev_eq. cbn [snd]. unfold bk. cbn [before width].
    rewrite app_length, rev_length, firstn_length. lia.
Qed.

(* next returns eof only when every chunk has been received and the window is empty *)
Lemma next_eof : forall c, fst (next c) = eof ->
  pending (snd (next c)) = [] /\ after (snd (next c)) = [].
Proof.
  intros c. unfold next.
  destruct (refill (pending c) (after c) (gpos c) (lfs c)) as [[pend aft] l] eqn:ER.
  apply refill_spec in ER. destruct ER as (got & _ & _ & _ & D & _).
  destruct (decode_rune aft) as [r w] eqn:ED.
  destruct w as [|w].
  - cbn [fst snd pending after]. intros _.
    apply decode_rune_width0 in ED. subst aft.
    destruct D as [F|D]; [discriminate F|auto].
  - rewrite move_rev_eq. cbn [fst]. unfold eof. lia.
Qed.

Lemma backup_inv : forall all c, Inv all c -> bk c -> Inv all (backup c).
Proof.
  intros all c H Hb. unfold backup. rewrite move_rev_eq.
  exact (Inv_shift_back all c (width c) (width c) H Hb).
Qed.

Lemma unbackup_inv : forall all c, Inv all c -> ok c -> Inv all (unbackup c).
Proof.
  intros all c H Hb. unfold unbackup. rewrite move_rev_eq.
  exact (Inv_shift_fwd all c (width c) (width c) H Hb).
Qed.

Lemma ignore_inv : forall all c, Inv all c -> Inv all (ignore c).
Proof.
  intros all c (recv & Ha & Hl & Hg & Hb & Ho & Hsuf). exists recv. unfold ignore.
  cbn [before after gpos width pending lfs out]. repeat split; auto. unfold nlen. cbn. lia.
Qed.

Lemma emit_inv : forall all t c, Inv all c -> t <> tEOF -> Inv all (emit t c).
Proof.
  intros all t c (recv & Ha & Hl & Hg & Hb & Ho & Hsuf) Ht. exists recv. unfold emit.
  cbn [before after gpos width pending lfs out]. repeat split; auto.
  - unfold nlen. cbn. lia.
  - intros tk rest E1 E2. injection E1 as <- _. cbn in E2. congruence.
Qed.

Lemma emit_eof_inv : forall all t c, Inv all c -> pending c = [] -> Inv all (emit t c).
Proof.
  intros all t c (recv & Ha & Hl & Hg & Hb & Ho & Hsuf) Hp. exists recv. unfold emit.
  cbn [before after gpos width pending lfs out]. repeat split; auto.
  unfold nlen. cbn. lia.
Qed.

Lemma emit_error_inv : forall all e c, Inv all c -> Inv all (emit_error e c).
Proof.
  intros all e c (recv & Ha & Hl & Hg & Hb & Ho & Hsuf). exists recv. unfold emit_error.
  cbn [before after gpos width pending lfs out]. repeat split; auto.
  intros tk rest E1 E2. injection E1 as <- _. cbn in E2. discriminate.
Qed.

Lemma fail_inv : forall all e c, Inv all c -> Inv all (fail e c).
Proof.
  intros. unfold fail. apply emit_inv; [|discriminate]. apply ignore_inv, emit_error_inv. assumption.
Qed.

Lemma peek_inv : forall all c, Inv all c -> Inv all (snd (peek c)).
Proof.
  intros all c H. unfold peek. generalize (next_inv all c H) (next_bk c).
  destruct (next c) as [r c1]. cbn [snd]. apply backup_inv.
Qed.

Lemma accept_inv : forall all v c, Inv all c -> Inv all (snd (accept v c)).
Proof.
  intros all v c H. unfold accept. generalize (next_inv all c H) (next_bk c).
  destruct (next c) as [r c1]. cbn [snd]. intros H1 H2.
  destruct (zin r v); cbn [snd]; [assumption|apply backup_inv; assumption].
Qed.

Lemma accept_run_f_inv : forall all fuel p acc c, Inv all c -> Inv all (snd (accept_run_f fuel p acc c)).
Proof.
  intros all. induction fuel as [|f IH]; intros p acc c H; cbn [accept_run_f]; [exact H|].
  generalize (next_inv all c H) (next_bk c).
  destruct (next c) as [r c1]. cbn [snd]. intros H1 H2.
  destruct (p r); [apply IH; assumption|cbn [snd]; apply backup_inv; assumption].
Qed.

Lemma accept_run_inv : forall all fuel v c, Inv all c -> Inv all (snd (accept_run fuel v c)).
Proof. intros. unfold accept_run. apply accept_run_f_inv. assumption. Qed.

Lemma sticky_fail_inv : forall all c, Inv all c -> ok c -> Inv all (snd (sticky_fail c)).
Proof. intros. unfold sticky_fail. cbn [snd]. apply fail_inv, unbackup_inv; assumption. Qed.

Lemma keyword_of_not_eof : forall w k, keyword_of w = Some k -> k <> tEOF.
Proof.
  intros w k. unfold keyword_of. break_ifs; intros H; try discriminate H; injection H as <-; discriminate.
Qed.

Lemma one_rune_of_not_eof : forall r k, one_rune_of r = Some k -> k <> tEOF.
Proof.
  intros r k. unfold one_rune_of. break_ifs; intros H; try discriminate H; injection H as <-; discriminate.
Qed.

Lemma two_rune_of_not_eof : forall r r2 k, two_rune_of r = Some (r2, k) -> k <> tEOF.
Proof.
  intros r r2 k. unfold two_rune_of. break_ifs; intros H; try discriminate H; injection H as <- <-; discriminate.
Qed.

Definition Ip {A} (all : list bytes) (x : A * cur) : Prop := Inv all (snd x).

Create HintDb inv.
#[local] Hint Resolve next_inv peek_inv accept_inv accept_run_f_inv accept_run_inv backup_inv
  ignore_inv emit_inv emit_error_inv fail_inv keyword_of_not_eof one_rune_of_not_eof
  two_rune_of_not_eof : inv.
#[local] Hint Extern 1 (_ <> _) => discriminate : inv.

Ltac hstep_core all g a :=
  let H := fresh "HI" in
  assert (H : Inv all (snd (g a))) by (auto with inv);
  revert H;
  lazymatch g with
  | next => generalize (next_bk a) (next_eof a)
  | peek => generalize (peek_ok a)
  | _ => idtac
  end;
  destruct (g a) as [? ?]; cbn [fst snd]; intros.

Ltac hstep :=
  lazymatch goal with
  | |- Ip ?all (let '(_, _) := (let '(_, _) := ?g ?a in _) in _) => hstep_core all g a
  | |- Ip ?all (let '(_, _) := ?g ?a in _) => hstep_core all g a
  end.

Ltac hsplit_if :=
  match goal with
  | |- Ip _ (let '(_, _) := (if ?d then _ else _) in _) => destruct d; cbv beta iota
  | |- Ip _ (if ?d then _ else _) => destruct d eqn:?
  end.

Ltac hdone := unfold Ip; cbn [snd]; eauto with inv.
Ltac hsticky := apply sticky_fail_inv; assumption.

Lemma lex_space_inv : forall all fuel c, Inv all c -> Ip all (lex_space fuel c).
Proof. intros all fuel c H. unfold lex_space. hstep. hdone. Qed.

Lemma lex_line_comment_inv : forall all fuel c, Inv all c -> Ip all (lex_line_comment fuel c).
Proof.
  intros all. induction fuel as [|f IH]; intros c H; cbn [lex_line_comment]; [hdone|].
  hstep. hsplit_if; [hdone|apply IH; assumption].
Qed.

Lemma lex_ident_inv : forall all fuel c, Inv all c -> Ip all (lex_ident fuel c).
Proof.
  intros all. induction fuel as [|f IH]; intros c H; cbn [lex_ident]; [hdone|].
  hstep. hsplit_if; [apply IH; assumption|].
  cbv zeta. hstep. hsplit_if; [hsticky|].
  destruct (keyword_of _) eqn:EK; hdone.
Qed.

Lemma lex_float_inv : forall all fuel c, Inv all c -> Ip all (lex_float fuel c).
Proof.
  intros all fuel c H. unfold lex_float.
  hstep. hsplit_if.
  - hstep. hsplit_if; [hdone|].
    hstep. hsplit_if.
    + hstep. hstep. hsplit_if; [hdone|].
      hstep. hsplit_if; [hsticky|hdone].
    + hsplit_if; [hdone|].
      hstep. hsplit_if; [hsticky|hdone].
  - hsplit_if; [hdone|].
    hstep. hsplit_if.
    + hstep. hstep. hsplit_if; [hdone|].
      hstep. hsplit_if; [hsticky|hdone].
    + hsplit_if; [hdone|].
      hstep. hsplit_if; [hsticky|hdone].
Qed.

Lemma lex_hex_inv : forall all fuel c, Inv all c -> Ip all (lex_hex fuel c).
Proof.
  intros all fuel c H. unfold lex_hex. hstep. hstep. hsplit_if; [hsticky|hdone].
Qed.

Lemma lex_number_inv : forall all fuel c, Inv all c -> bk c -> Ip all (lex_number fuel c).
Proof.
  intros all fuel c H Hb. unfold lex_number. cbv zeta.
  hstep. hsplit_if.
  - hstep. hsplit_if; [apply lex_hex_inv; assumption|].
    hstep. hstep. hsplit_if; [apply lex_float_inv; assumption|].
    hsplit_if; [hsticky|hdone].
  - hstep. hstep. hsplit_if; [apply lex_float_inv; assumption|].
    hsplit_if; [hsticky|hdone].
Qed.

Lemma lex_quote_inv : forall all fuel c, Inv all c -> Ip all (lex_quote fuel c).
Proof.
  intros all. induction fuel as [|f IH]; intros c H; cbn [lex_quote]; [hdone|].
  hstep. hsplit_if.
  - hstep. hsplit_if; [apply IH; assumption|hdone].
  - hsplit_if; [hdone|]. hsplit_if; [|apply IH; assumption].
    hstep. hsplit_if; [hsticky|hdone].
Qed.

Lemma lex_start_inv : forall all fuel c, Inv all c -> Ip all (lex_start fuel c).
Proof.
  intros all fuel c H. unfold lex_start.
  hstep. hsplit_if.
  - unfold Ip. cbn [snd]. apply emit_eof_inv; [assumption|].
    match goal with E : (_ =? eof)%Z = true |- _ => apply Z.eqb_eq in E end. intuition.
  - cbv zeta.
    match goal with |- context [two_rune_of ?r] => destruct (two_rune_of r) as [[r2want t2]|] eqn:E2 end.
    + hstep. hsplit_if; [hdone|].
      match goal with |- context [one_rune_of ?r] => destruct (one_rune_of r) eqn:E1 end; hdone.
    + match goal with |- context [one_rune_of ?r] => destruct (one_rune_of r) eqn:E1 end; [hdone|].
      hsplit_if; [apply lex_space_inv; assumption|].
      hsplit_if; [apply lex_line_comment_inv; assumption|].
      hsplit_if; [apply lex_quote_inv; assumption|].
      hsplit_if; [apply lex_ident_inv; assumption|].
      hsplit_if; [apply lex_number_inv; assumption|hdone].
Qed.

Lemma lex_run_inv : forall all steps fuel c, Inv all c -> Inv all (lex_run steps fuel c).
Proof.
  intros all. induction steps as [|s IH]; intros fuel c H; cbn [lex_run]; [exact H|].
  pose proof (lex_start_inv all fuel c H) as H1. revert H1. unfold Ip.
  destruct (lex_start fuel c) as [go c1]. cbn [snd]. intros H1.
  destruct go; [apply IH; assumption|assumption].
Qed.

Lemma init_inv : forall cs, Inv cs (init_cur cs).
Proof.
  intros cs. exists []. unfold init_cur. cbn [before after gpos width pending lfs out].
  repeat split; auto; try (cbn; lia).
  - intros tk rest E. discriminate E.
  - exists 0%nat. reflexivity.
Qed.

(* the final cursor of the run *)
Definition final_cur (cs : list bytes) : cur :=
  let n := S (S (total_len cs)) in lex_run n n (init_cur cs).

Lemma lex_final : forall cs, lex cs = (frev (out (final_cur cs)), lfs (final_cur cs)).
Proof. reflexivity. Qed.

(* the line table is the newline table of the bytes received so far: at the end of the run
   (and, by the same invariant Inv, at every point of it) the first k chunks have been taken
   from the chunk sequence and lfs lists exactly their newlines *)
Theorem lfs_prefix : forall cs,
  exists k, pending (final_cur cs) = skipn k cs /\
            snd (lex cs) = newlines_at (concat (firstn k cs)) 0.
Proof.
  intros cs. rewrite lex_final. cbn [snd].
  destruct (lex_run_inv _ (S (S (total_len cs))) (S (S (total_len cs))) _ (init_inv cs))
    as (recv & Ha & Hl & _ & _ & _ & (k & Hk)).
  fold (final_cur cs) in *.
  exists k. split; [exact Hk|]. rewrite Hl. f_equal.
  rewrite Hk in Ha. rewrite <- (firstn_skipn k cs) in Ha at 1. rewrite concat_app in Ha.
  apply app_inv_tail in Ha. symmetry. exact Ha.
Qed.
Print Assumptions lfs_prefix.

Lemma last_opt_rev_cons : forall {A} (x : A) l, last_opt (rev (x :: l)) = Some x.
Proof. intros. cbn [rev]. apply last_opt_app1. Qed.

(* if the lexer reached the end of the input, it has received every chunk *)
Theorem lex_lfs_eof : forall cs tk,
  last_opt (fst (lex cs)) = Some tk -> ttyp tk = tEOF ->
  snd (lex cs) = newlines_at (concat cs) 0.
Proof.
  intros cs tk Hlast Ht. rewrite lex_final in *. cbn [fst snd] in *.
  destruct (lex_run_inv _ (S (S (total_len cs))) (S (S (total_len cs))) _ (init_inv cs))
    as (recv & Ha & Hl & _ & _ & Ho & _).
  fold (final_cur cs) in *.
  rewrite frev_eq in Hlast.
  destruct (out (final_cur cs)) as [|t rest] eqn:Eo; [discriminate Hlast|].
  rewrite last_opt_rev_cons in Hlast. injection Hlast as ->.
  rewrite (Ho tk rest eq_refl Ht) in Ha. cbn [concat] in Ha. rewrite app_nil_r in Ha.
  rewrite Hl, Ha. reflexivity.
Qed.
Print Assumptions lex_lfs_eof.

Theorem lex_chunk_independent_lfs : forall cs tk,
  last_opt (fst (lex cs)) = Some tk -> ttyp tk = tEOF ->
  snd (lex cs) = snd (lex [concat cs]).
Proof.
  intros cs tk Hlast Ht.
  rewrite (lex_lfs_eof cs tk Hlast Ht).
  rewrite lex_chunk_independent in Hlast.
  rewrite (lex_lfs_eof [concat cs] tk Hlast Ht).
  cbn [concat]. rewrite app_nil_r. reflexivity.
Qed.
Print Assumptions lex_chunk_independent_lfs.

(* The tEOF hypothesis is needed: a lexer that stops on an error has not received the later
   chunks, so its line table is shorter than that of the single-chunk run (same tokens). *)
Example lfs_depends_on_chunks_after_fail :
  fst (lex [[34; 10]; [10]]) = fst (lex [[34; 10; 10]]) /\
  snd (lex [[34; 10]; [10]]) = [1] /\ snd (lex [[34; 10; 10]]) = [1; 2].
Proof. vm_compute. repeat split. Qed.

(* sanity: a run that reaches tEOF, with a chunk boundary inside a multi-byte character *)
Example lex_eof_example :
  map ttyp (fst (lex [[97; 10]; []; [34; 226]; [130]; [172; 34; 10]])) = [tIDENT; tSTR; tEOF] /\
  snd (lex [[97; 10]; []; [34; 226]; [130]; [172; 34; 10]]) = [1; 7].
Proof. vm_compute. split; reflexivity. Qed.
