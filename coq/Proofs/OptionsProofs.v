(* OptionsProofs.v: the introspection options (disassembly, trace, statistics) only observe.
   C19: enabling OptDisasm / OptTrace / OptStats never changes what the program does. *)
From RecordUpdate Require Import RecordSet.
From Coq Require Import Lia.
From BCL Require Import Model.Api.
Import RecordSetNotations.
Open Scope N_scope.

(* ---------------------------------------------------------------------------------------- *)
(* vocabulary                                                                                *)
(* ---------------------------------------------------------------------------------------- *)
Definition is_print (e : otag * bytes) : bool := match fst e with OPrint => true | _ => false end.
Definition is_trace (e : otag * bytes) : bool := match fst e with OTrace => true | _ => false end.
Definition is_stats (e : otag * bytes) : bool := match fst e with OStats => true | _ => false end.
Definition is_disasm (e : otag * bytes) : bool := match fst e with ODisasm => true | _ => false end.

(* number of entries satisfying f, as an N (opsRead is an N) *)
Definition count (f : otag * bytes -> bool) (l : list (otag * bytes)) : N := N.of_nat (length (filter f l)).

Definition same_but_out (m1 m2 : vm) : Prop :=
  pc m1 = pc m2 /\ rest m1 = rest m2 /\ stack m1 = stack m2 /\ tos m1 = tos m2 /\
  bstack m1 = bstack m2 /\ btos m1 = btos m2 /\ result m1 = result m2 /\ bind_ m1 = bind_ m2 /\
  vwarn m1 = vwarn m2 /\ tosMax m1 = tosMax m2 /\ btosMax m1 = btosMax m2 /\ opsRead m1 = opsRead m2.

Definition prints (m : vm) : list (otag * bytes) := filter is_print (vout m).

Definition setout (o : list (otag * bytes)) (m : vm) : vm := m <| vout := o |>.
Definition advance (r : bytes) (m : vm) : vm :=
  m <| pc := pc m + 1 |> <| rest := r |> <| opsRead := opsRead m + 1 |>.

Ltac vmsimp := cbn [set pc rest stack tos bstack btos result bind_ vout vwarn tosMax btosMax opsRead].

(* ---------------------------------------------------------------------------------------- *)
(* list helpers                                                                              *)
(* ---------------------------------------------------------------------------------------- *)
Lemma filter_rev_l {A} (f : A -> bool) (l : list A) : filter f (rev l) = rev (filter f l).
Proof.
  induction l as [|a l IH]; [reflexivity|].
  cbn [rev filter]. rewrite filter_app, IH. cbn [filter]. destruct (f a); cbn [rev app].
  - reflexivity.
  - rewrite app_nil_r. reflexivity.
Qed.

Lemma filter_frev {A} (f : A -> bool) (l : list A) : filter f (frev l) = frev (filter f l).
Proof. rewrite !frev_eq. apply filter_rev_l. Qed.

Lemma filter_all {A} (f : A -> bool) (l : list A) : Forall (fun e => f e = true) l -> filter f l = l.
Proof.
  induction 1 as [|a l Ha _ IH]; [reflexivity|]. cbn [filter]. rewrite Ha, IH. reflexivity.
Qed.

Lemma filter_none {A} (f : A -> bool) (l : list A) : Forall (fun e => f e = false) l -> filter f l = [].
Proof.
  induction 1 as [|a l Ha _ IH]; [reflexivity|]. cbn [filter]. rewrite Ha, IH. reflexivity.
Qed.

Lemma Forall_frev {A} (P : A -> Prop) (l : list A) : Forall P l -> Forall P (frev l).
Proof.
  intros H. rewrite frev_eq. apply Forall_forall. intros x Hx. apply in_rev in Hx.
  revert x Hx. apply Forall_forall. exact H.
Qed.

Lemma filter_map_tag (f : otag * bytes -> bool) (tg : otag) (ls : list bytes) :
  (forall l, f (tg, l) = false) -> filter f (map (fun l => (tg, l)) ls) = [].
Proof.
  intros H. induction ls as [|a ls IH]; [reflexivity|]. cbn [map filter]. rewrite H. exact IH.
Qed.

Lemma filter_map_tag_all (f : otag * bytes -> bool) (tg : otag) (ls : list bytes) :
  (forall l, f (tg, l) = true) ->
  filter f (map (fun l => (tg, l)) ls) = map (fun l => (tg, l)) ls.
Proof.
  intros H. induction ls as [|a ls IH]; [reflexivity|]. cbn [map filter]. rewrite H, IH. reflexivity.
Qed.

Lemma count_app f l1 l2 : count f (l1 ++ l2) = count f l1 + count f l2.
Proof. unfold count. rewrite filter_app, app_length. lia. Qed.

Lemma count_frev f l : count f (frev l) = count f l.
Proof. unfold count. rewrite filter_frev, frev_eq, rev_length. reflexivity. Qed.

Lemma count_none f l : Forall (fun e => f e = false) l -> count f l = 0.
Proof. intros H. unfold count. rewrite filter_none by exact H. reflexivity. Qed.

(* ---------------------------------------------------------------------------------------- *)
(* setout / advance / same_but_out                                                           *)
(* ---------------------------------------------------------------------------------------- *)
Lemma setout_self m : setout (vout m) m = m.
Proof. destruct m. reflexivity. Qed.
Lemma setout_setout o o' m : setout o (setout o' m) = setout o m.
Proof. reflexivity. Qed.
Lemma vout_setout o m : vout (setout o m) = o.            Proof. reflexivity. Qed.
Lemma rest_setout o m : rest (setout o m) = rest m.       Proof. reflexivity. Qed.
Lemma opsRead_setout o m : opsRead (setout o m) = opsRead m. Proof. reflexivity. Qed.
Lemma vout_advance r m : vout (advance r m) = vout m.     Proof. reflexivity. Qed.
Lemma tos_advance r m : tos (advance r m) = tos m.        Proof. reflexivity. Qed.
Lemma tos_setout o m : tos (setout o m) = tos m.          Proof. reflexivity. Qed.
Lemma opsRead_advance r m : opsRead (advance r m) = opsRead m + 1. Proof. reflexivity. Qed.

Lemma sbo_refl m : same_but_out m m.
Proof. unfold same_but_out. repeat split. Qed.

Lemma sbo_sym m1 m2 : same_but_out m1 m2 -> same_but_out m2 m1.
Proof. unfold same_but_out. intros H. repeat split; symmetry; apply H. Qed.

Lemma sbo_trans m1 m2 m3 : same_but_out m1 m2 -> same_but_out m2 m3 -> same_but_out m1 m3.
Proof. unfold same_but_out. intros H1 H2. repeat split; etransitivity; try apply H1; apply H2. Qed.

Lemma sbo_setout o1 o2 m1 m2 : same_but_out m1 m2 -> same_but_out (setout o1 m1) (setout o2 m2).
Proof. unfold same_but_out, setout. vmsimp. exact (fun H => H). Qed.

Lemma sbo_advance r m1 m2 : same_but_out m1 m2 -> same_but_out (advance r m1) (advance r m2).
Proof.
  unfold same_but_out, advance. vmsimp.
  intros (H1 & H2 & H3 & H4 & H5 & H6 & H7 & H8 & H9 & H10 & H11 & H12).
  rewrite H1, H12. repeat split; assumption.
Qed.

Lemma sbo_eq m1 m2 : same_but_out m1 m2 -> m2 = setout (vout m2) m1.
Proof.
  destruct m1 as [a1 a2 a3 a4 a5 a6 a7 a8 a9 a10 a11 a12 a13].
  destruct m2 as [b1 b2 b3 b4 b5 b6 b7 b8 b9 b10 b11 b12 b13].
  unfold same_but_out, setout. cbn.
  intros (H1 & H2 & H3 & H4 & H5 & H6 & H7 & H8 & H9 & H10 & H11 & H12). subst. reflexivity.
Qed.

(* ---------------------------------------------------------------------------------------- *)
(* 1. exec_op treats vout as an opaque accumulator                                           *)
(* ---------------------------------------------------------------------------------------- *)
(* innermost-first case analysis on every if / match of the goal *)
Ltac cascade :=
  repeat match goal with
         | |- context [match ?x with _ => _ end] =>
           lazymatch x with
           | context [match _ with _ => _ end] => fail
           | _ => destruct x; vmsimp
           end
         end.

Ltac open_exec_op :=
  unfold exec_op; unfold read_uvarint, read_u16, read_byte, push, rt_err, vpanic, jump_to;
  unfold setout; vmsimp.

Lemma exec_op_setout : forall p i m o,
  exec_op p i (setout o m) =
  let (m', r) := exec_op p i (setout [] m) in (setout (vout m' ++ o) m', r).
Proof.
  intros p i m o. open_exec_op. cascade; reflexivity.
Qed.

Definition shapeP (m : vm) (res : vm * vres) : Prop :=
  opsRead (fst res) = opsRead m /\
  (vout (fst res) = [] \/ exists x, vout (fst res) = [(OPrint, x)]).

Lemma exec_op_nil_shape : forall p i m, shapeP m (exec_op p i (setout [] m)).
Proof.
  intros p i m. open_exec_op.
  cascade; unfold shapeP; cbn [fst]; vmsimp; (split; [reflexivity|]);
    solve [left; reflexivity | right; eexists; reflexivity].
Qed.

(* what exec_op does to vout and opsRead, for an arbitrary vm *)
Lemma exec_op_shape : forall p i m m' r,
  exec_op p i m = (m', r) ->
  opsRead m' = opsRead m /\ (vout m' = vout m \/ exists x, vout m' = (OPrint, x) :: vout m).
Proof.
  intros p i m m' r E. rewrite <- (setout_self m) in E. rewrite exec_op_setout in E.
  pose proof (exec_op_nil_shape p i m) as S. unfold shapeP in S.
  destruct (exec_op p i (setout [] m)) as [mm rr]. cbn [fst] in S. destruct S as [S1 S2].
  inversion E; subst m' r. rewrite opsRead_setout, vout_setout. split; [exact S1|].
  destruct S2 as [S2 | [x S2]]; rewrite S2; [left | right; exists x]; reflexivity.
Qed.

Lemma exec_op_vout_core : forall p i m o1 o2 m1' r1 m2' r2,
  filter is_print o1 = filter is_print o2 ->
  exec_op p i (setout o1 m) = (m1', r1) ->
  exec_op p i (setout o2 m) = (m2', r2) ->
  r1 = r2 /\ same_but_out m1' m2' /\ prints m1' = prints m2'.
Proof.
  intros p i m o1 o2 m1' r1 m2' r2 Hp E1 E2.
  rewrite exec_op_setout in E1, E2.
  destruct (exec_op p i (setout [] m)) as [mm rr].
  inversion E1; inversion E2; subst.
  split; [reflexivity|]. split; [apply sbo_setout, sbo_refl|].
  unfold prints. rewrite !vout_setout, !filter_app, Hp. reflexivity.
Qed.

Theorem exec_op_vout : forall p i m1 m2 m1' r1 m2' r2,
  same_but_out m1 m2 -> prints m1 = prints m2 ->
  exec_op p i m1 = (m1', r1) -> exec_op p i m2 = (m2', r2) ->
  r1 = r2 /\ same_but_out m1' m2' /\ prints m1' = prints m2'.
Proof.
  intros p i m1 m2 m1' r1 m2' r2 Hs Hp E1 E2.
  eapply exec_op_vout_core with (m := m1) (o1 := vout m1) (o2 := vout m2).
  - exact Hp.
  - rewrite setout_self. exact E1.
  - rewrite <- (sbo_eq _ _ Hs). exact E2.
Qed.
Print Assumptions exec_op_vout.

(* ---------------------------------------------------------------------------------------- *)
(* 2. the trace hook is irrelevant for what the run does                                     *)
(* ---------------------------------------------------------------------------------------- *)
Lemma run_fuel_S : forall f p tr m,
  run_fuel (S f) p tr m =
  let m0 := setout (tr m ++ vout m) m in
  match rest m0 with
  | [] => (m0, VPanic PIndex)
  | instr :: r =>
    let m1 := advance r m0 in
    if instr =? opRET then
      if tos m1 =? 0 then (m1, VOk)
      else (m1, VInternal (bs "internal error: non-empty stack on prog end; tos=" ++ dec_of_N (tos m1)))
    else match exec_op p instr m1 with
         | (m2, VOk) => run_fuel f p tr m2
         | other => other
         end
  end.
Proof. reflexivity. Qed.

Definition no_print (e : otag * bytes) : Prop := fst e <> OPrint.

Lemma filter_no_print l : Forall no_print l -> filter is_print l = [].
Proof.
  intros H. apply filter_none. revert H. apply Forall_impl. intros [tg x]. unfold no_print, is_print.
  cbn [fst]. destruct tg; congruence.
Qed.

Lemma trace_lines_no_print : forall p m, Forall (fun e => fst e <> OPrint) (trace_lines p m).
Proof.
  intros p m. unfold trace_lines. destruct (disasm_instr p (pc m) (rest m)) as [[l n]|];
    repeat constructor; cbn [fst]; discriminate.
Qed.

Lemma trace_lines_same_but_out : forall p m1 m2, same_but_out m1 m2 -> trace_lines p m1 = trace_lines p m2.
Proof.
  intros p m1 m2 (H1 & H2 & H3 & H4 & _). unfold trace_lines. rewrite H1, H2, H3, H4. reflexivity.
Qed.

(* the general form: two related machines, two print-free hooks *)
Ltac fin := cbv beta iota; (split; [reflexivity | split; assumption]).

Lemma run_fuel_rel : forall fuel p tr1 tr2,
  (forall m, Forall (fun e => fst e <> OPrint) (tr1 m)) ->
  (forall m, Forall (fun e => fst e <> OPrint) (tr2 m)) ->
  forall m1 m2, same_but_out m1 m2 -> prints m1 = prints m2 ->
  let (m1', r1) := run_fuel fuel p tr1 m1 in
  let (m2', r2) := run_fuel fuel p tr2 m2 in
  r1 = r2 /\ same_but_out m1' m2' /\ prints m1' = prints m2'.
Proof.
  intros fuel p tr1 tr2 T1 T2. induction fuel as [|f IH]; intros m1 m2 Hs Hp.
  - cbn [run_fuel]. fin.
  - rewrite !run_fuel_S. cbv zeta. rewrite !rest_setout.
    assert (Hs0 : same_but_out (setout (tr1 m1 ++ vout m1) m1) (setout (tr2 m2 ++ vout m2) m2))
      by (apply sbo_setout; exact Hs).
    assert (Hp0 : prints (setout (tr1 m1 ++ vout m1) m1) = prints (setout (tr2 m2 ++ vout m2) m2)).
    { unfold prints. rewrite !vout_setout, !filter_app.
      rewrite (filter_no_print _ (T1 m1)), (filter_no_print _ (T2 m2)). exact Hp. }
    assert (Hr : rest m1 = rest m2) by apply Hs. rewrite <- Hr.
    destruct (rest m1) as [|instr r].
    + fin.
    + set (b1 := advance r (setout (tr1 m1 ++ vout m1) m1)).
      set (b2 := advance r (setout (tr2 m2 ++ vout m2) m2)).
      assert (Hsb : same_but_out b1 b2) by (apply sbo_advance; exact Hs0).
      assert (Hpb : prints b1 = prints b2) by exact Hp0.
      assert (Ht : tos b1 = tos b2) by apply Hsb.
      destruct (instr =? opRET).
      * rewrite <- Ht. destruct (tos b1 =? 0); fin.
      * destruct (exec_op p instr b1) as [c1 r1] eqn:E1.
        destruct (exec_op p instr b2) as [c2 r2] eqn:E2.
        destruct (exec_op_vout p instr b1 b2 c1 r1 c2 r2 Hsb Hpb E1 E2) as (Er & Hsc & Hpc).
        subst r2. destruct r1; try fin. apply IH; assumption.
Qed.

Theorem run_trace_irrelevant : forall fuel p tr m,
  (forall m, Forall (fun e => fst e <> OPrint) (tr m)) ->
  let (m1, r1) := run_fuel fuel p tr m in
  let (m0, r0) := run_fuel fuel p (fun _ => []) m in
  r1 = r0 /\ same_but_out m1 m0 /\ prints m1 = prints m0.
Proof.
  intros fuel p tr m T.
  apply (run_fuel_rel fuel p tr (fun _ => []) T (fun _ => Forall_nil _) m m (sbo_refl m) eq_refl).
Qed.
Print Assumptions run_trace_irrelevant.

Corollary run_trace_lines_irrelevant : forall fuel p m,
  let (m1, r1) := run_fuel fuel p (trace_lines p) m in
  let (m0, r0) := run_fuel fuel p (fun _ => []) m in
  r1 = r0 /\ same_but_out m1 m0 /\ prints m1 = prints m0.
Proof. intros. apply run_trace_irrelevant. apply trace_lines_no_print. Qed.

(* an invariant of vout: anything true of print entries and of the hook's entries *)
Lemma run_fuel_Forall : forall (Q : otag * bytes -> Prop) p tr,
  (forall x, Q (OPrint, x)) -> (forall m, Forall Q (tr m)) ->
  forall fuel m, Forall Q (vout m) -> Forall Q (vout (fst (run_fuel fuel p tr m))).
Proof.
  intros Q p tr QP QT. induction fuel as [|f IH]; intros m Hm.
  - exact Hm.
  - rewrite run_fuel_S. cbv zeta. rewrite rest_setout.
    assert (H0 : Forall Q (tr m ++ vout m)) by (apply Forall_app; split; [apply QT | exact Hm]).
    destruct (rest m) as [|instr r].
    + exact H0.
    + destruct (instr =? opRET).
      * destruct (tos _ =? 0); exact H0.
      * destruct (exec_op p instr _) as [c rr] eqn:E.
        apply exec_op_shape in E. destruct E as [_ E]. rewrite vout_advance, vout_setout in E.
        assert (Hc : Forall Q (vout c)).
        { destruct E as [E | [x E]]; rewrite E; [exact H0 | constructor; [apply QP | exact H0]]. }
        destruct rr; try exact Hc. apply IH. exact Hc.
Qed.

(* ---------------------------------------------------------------------------------------- *)
(* 3./4. execute and interpret                                                               *)
(* ---------------------------------------------------------------------------------------- *)
Definition hook (p : prog) (t : bool) : vm -> list (otag * bytes) :=
  if t then trace_lines p else (fun _ => []).

Lemma hook_no_print p t : forall m, Forall (fun e => fst e <> OPrint) (hook p t m).
Proof. destruct t; intros m; [apply trace_lines_no_print | constructor]. Qed.

Lemma execute_unfold p t s :
  execute p t s =
  let '(m, r) := run_fuel (run_bound p) p (hook p t) (init_vm p) in
  let xs := if s then map (fun l => (OStats, l)) (xstats_lines m) else [] in
  {| rr_out := frev (vout m) ++ xs; rr_blocks := frev (result m); rr_binding := bind_ m;
     rr_warn := frev (vwarn m); rr_res := r; rr_vm := m |}.
Proof. reflexivity. Qed.

Lemma xs_no_print (s : bool) m :
  filter is_print (if s then map (fun l => (OStats, l)) (xstats_lines m) else []) = [].
Proof. destruct s; [apply filter_map_tag|]; reflexivity. Qed.

Lemma plain_run_only_prints p fuel :
  Forall (fun e => fst e = OPrint) (vout (fst (run_fuel fuel p (fun _ => []) (init_vm p)))).
Proof.
  apply run_fuel_Forall; [reflexivity | constructor | constructor].
Qed.

Lemma is_print_all l : Forall (fun e => fst e = OPrint) l -> filter is_print l = l.
Proof.
  intros H. apply filter_all. revert H. apply Forall_impl. intros [tg x]. unfold is_print. cbn [fst].
  intros ->. reflexivity.
Qed.

Lemma execute_rel : forall p t s,
  let rr := execute p t s in
  let rr0 := execute p false false in
  rr_blocks rr = rr_blocks rr0 /\ rr_binding rr = rr_binding rr0 /\ rr_warn rr = rr_warn rr0 /\
  rr_res rr = rr_res rr0 /\ same_but_out (rr_vm rr) (rr_vm rr0) /\
  filter is_print (rr_out rr) = rr_out rr0 /\
  Forall (fun e => fst e = OPrint) (rr_out rr0).
Proof.
  intros p t s. cbv zeta. rewrite !execute_unfold.
  pose proof (run_fuel_rel (run_bound p) p (hook p t) (hook p false) (hook_no_print p t)
                (hook_no_print p false) (init_vm p) (init_vm p) (sbo_refl _) eq_refl) as H.
  pose proof (plain_run_only_prints p (run_bound p)) as HP.
  change (fun _ : vm => @nil (otag * bytes)) with (hook p false) in HP.
  destruct (run_fuel (run_bound p) p (hook p t) (init_vm p)) as [m r].
  destruct (run_fuel (run_bound p) p (hook p false) (init_vm p)) as [m0 r0].
  cbn [fst] in HP. destruct H as (Hr & Hs & Hp).
  cbv zeta. cbn [rr_blocks rr_binding rr_warn rr_res rr_vm rr_out].
  pose proof Hs as (H1 & H2 & H3 & H4 & H5 & H6 & H7 & H8 & H9 & H10 & H11 & H12).
  rewrite H7, H8, H9, Hr. repeat split; try assumption.
  - rewrite filter_app, xs_no_print, !app_nil_r, filter_frev.
    unfold prints in Hp. rewrite Hp, (is_print_all _ HP). reflexivity.
  - rewrite app_nil_r. apply Forall_frev. exact HP.
Qed.

(* projections of an outcome *)
Definition io_kind (io : ioutcome) : N :=
  match io with IParseErr _ _ => 0 | IRun _ _ => 1 | IModelFail _ => 2 end.
Definition io_diags (io : ioutcome) : list diag := match io with IParseErr ds _ => ds | _ => [] end.
Definition io_fail (io : ioutcome) : bytes := match io with IModelFail w => w | _ => [] end.
Definition io_out (io : ioutcome) : list (otag * bytes) :=
  match io with IParseErr _ o => o | IRun o _ => o | IModelFail _ => [] end.
Definition io_blocks (io : ioutcome) : list value := match io with IRun _ rr => rr_blocks rr | _ => [] end.
Definition io_binding (io : ioutcome) : binding := match io with IRun _ rr => rr_binding rr | _ => BNone end.
Definition io_warn (io : ioutcome) : list (N * bytes) := match io with IRun _ rr => rr_warn rr | _ => [] end.
Definition io_res (io : ioutcome) : vres := match io with IRun _ rr => rr_res rr | _ => VOk end.

(* the outcome with options agrees with the plain outcome in everything but the output lines
   and the output-only parts of the final vm *)
Definition outcome_agrees (io io0 : ioutcome) : Prop :=
  match io0, io with
  | IParseErr ds0 _, IParseErr ds _ => ds = ds0
  | IRun _ rr0, IRun _ rr =>
    rr_blocks rr = rr_blocks rr0 /\ rr_binding rr = rr_binding rr0 /\ rr_warn rr = rr_warn rr0 /\
    rr_res rr = rr_res rr0 /\ same_but_out (rr_vm rr) (rr_vm rr0)
  | IModelFail w0, IModelFail w => w = w0
  | _, _ => False
  end.

Lemma pstats_no_print (s : bool) ps :
  filter is_print (if s then map (fun l => (OStats, l)) (pstats_lines ps) else []) = [].
Proof. destruct s; [apply filter_map_tag|]; reflexivity. Qed.

Lemma dis_no_print (d : bool) p :
  filter is_print (if d then match disasm p with
                             | Some ls => map (fun l => (ODisasm, l)) ls
                             | None => [(ODisasm, bs "<disasm panic>")] end
                   else []) = [].
Proof. destruct d; [|reflexivity]. destruct (disasm p); [apply filter_map_tag|]; reflexivity. Qed.

Theorem C19_results_equal : forall name src d t s,
  let '(pr, io) := interpret name src d t s in
  let '(pr0, io0) := interpret name src false false false in
  pr = pr0 /\ outcome_agrees io io0.
Proof.
  intros name src d t s. unfold interpret.
  destruct (pr_oof (parse_whole name src)); [split; reflexivity|].
  destruct (pr_panic (parse_whole name src)); [split; reflexivity|].
  destruct (negb (pr_ok (parse_whole name src))); [split; reflexivity|].
  cbv zeta. split; [reflexivity|]. unfold outcome_agrees.
  pose proof (execute_rel (pr_prog (parse_whole name src)) t s) as H. cbv zeta in H.
  destruct H as (H1 & H2 & H3 & H4 & H5 & _). auto.
Qed.
Print Assumptions C19_results_equal.

(* the same, through projections (each is a statement about all inputs and all 8 combinations) *)
Corollary C19_results_equal_proj : forall name src d t s,
  let io := snd (interpret name src d t s) in
  let io0 := snd (interpret name src false false false) in
  fst (interpret name src d t s) = fst (interpret name src false false false) /\
  io_kind io = io_kind io0 /\ io_diags io = io_diags io0 /\ io_fail io = io_fail io0 /\
  io_blocks io = io_blocks io0 /\ io_binding io = io_binding io0 /\ io_warn io = io_warn io0 /\
  io_res io = io_res io0.
Proof.
  intros name src d t s. pose proof (C19_results_equal name src d t s) as H.
  destruct (interpret name src d t s) as [pr io].
  destruct (interpret name src false false false) as [pr0 io0].
  destruct H as [Hpr H]. cbv zeta. cbn [fst snd]. split; [exact Hpr|].
  destruct io0, io; cbn in H; try contradiction; cbn;
    repeat match goal with H : _ /\ _ |- _ => destruct H end; subst; repeat split; auto.
Qed.

Theorem plain_output_only_prints : forall name src,
  Forall (fun e => fst e = OPrint) (io_out (snd (interpret name src false false false))).
Proof.
  intros name src. unfold interpret.
  destruct (pr_oof (parse_whole name src)); [constructor|].
  destruct (pr_panic (parse_whole name src)); [constructor|].
  destruct (negb (pr_ok (parse_whole name src))); [constructor|].
  cbv zeta. cbn [snd io_out app].
  pose proof (execute_rel (pr_prog (parse_whole name src)) false false) as H. cbv zeta in H.
  apply H.
Qed.
Print Assumptions plain_output_only_prints.

Theorem C19_print_lines : forall name src d t s,
  filter is_print (io_out (snd (interpret name src d t s))) =
  io_out (snd (interpret name src false false false)).
Proof.
  intros name src d t s. unfold interpret.
  destruct (pr_oof (parse_whole name src)); [reflexivity|].
  destruct (pr_panic (parse_whole name src)); [reflexivity|].
  destruct (negb (pr_ok (parse_whole name src))).
  - cbv zeta. cbn [snd io_out]. apply pstats_no_print.
  - cbv zeta. cbn [snd io_out app].
    rewrite !filter_app, dis_no_print, pstats_no_print. cbn [app].
    pose proof (execute_rel (pr_prog (parse_whole name src)) t s) as H. cbv zeta in H.
    apply H.
Qed.
Print Assumptions C19_print_lines.

(* ---------------------------------------------------------------------------------------- *)
(* 5. the trace has exactly two lines per instruction read                                   *)
(* ---------------------------------------------------------------------------------------- *)
Lemma count_trace_lines p m : count is_trace (trace_lines p m) = 2.
Proof. unfold trace_lines. destruct (disasm_instr p (pc m) (rest m)) as [[l n]|]; reflexivity. Qed.

Lemma run_trace_count : forall p fuel m m' r,
  count is_trace (vout m) = 2 * opsRead m ->
  run_fuel fuel p (trace_lines p) m = (m', r) ->
  count is_trace (vout m') = 2 * opsRead m' \/
  (r = VPanic PIndex /\ rest m' = [] /\ count is_trace (vout m') = 2 * opsRead m' + 2).
Proof.
  intros p. induction fuel as [|f IH]; intros m m' r Hm E.
  - cbn [run_fuel] in E. inversion E; subst. left. exact Hm.
  - rewrite run_fuel_S in E. cbv zeta in E. rewrite rest_setout in E.
    assert (H0 : count is_trace (trace_lines p m ++ vout m) = 2 * opsRead m + 2)
      by (rewrite count_app, count_trace_lines, Hm; lia).
    destruct (rest m) as [|instr rs] eqn:Hrest.
    + inversion E; subst. right. rewrite rest_setout, vout_setout, opsRead_setout. auto.
    + set (b := advance rs (setout (trace_lines p m ++ vout m) m)) in *.
      assert (Hb : count is_trace (vout b) = 2 * opsRead b).
      { unfold b. rewrite vout_advance, vout_setout, opsRead_advance, opsRead_setout, H0. lia. }
      destruct (instr =? opRET).
      * destruct (tos b =? 0); inversion E; subst; left; exact Hb.
      * destruct (exec_op p instr b) as [c rr] eqn:Ec.
        apply exec_op_shape in Ec. destruct Ec as [Eo Ev].
        assert (Hc : count is_trace (vout c) = 2 * opsRead c).
        { rewrite Eo, <- Hb. destruct Ev as [Ev | [x Ev]]; rewrite Ev; reflexivity. }
        destruct rr; try (inversion E; subst; left; exact Hc).
        eapply IH; eassumption.
Qed.

Definition ran_off (rr : run_result) : Prop := rr_res rr = VPanic PIndex /\ rest (rr_vm rr) = [].

Lemma xs_no_trace (s : bool) m :
  count is_trace (if s then map (fun l => (OStats, l)) (xstats_lines m) else []) = 0.
Proof. unfold count. destruct s; [rewrite filter_map_tag|]; reflexivity. Qed.

(* exact account, for every run and either statistics setting *)
Theorem C19_trace_count_general : forall p s,
  let rr := execute p true s in
  count is_trace (rr_out rr) = 2 * opsRead (rr_vm rr) \/
  (ran_off rr /\ count is_trace (rr_out rr) = 2 * opsRead (rr_vm rr) + 2).
Proof.
  intros p s. cbv zeta. rewrite execute_unfold. unfold hook.
  destruct (run_fuel (run_bound p) p (trace_lines p) (init_vm p)) as [m r] eqn:E.
  cbv zeta. unfold ran_off. cbn [rr_out rr_vm rr_res].
  rewrite count_app, count_frev, xs_no_trace, N.add_0_r.
  apply run_trace_count in E; [|reflexivity].
  destruct E as [E | (E1 & E2 & E3)]; [left | right]; auto.
Qed.
Print Assumptions C19_trace_count_general.

Theorem C19_trace_count : forall p,
  let rr := execute p true false in
  match rr_res rr with
  | VOk | VErr _ _ | VInternal _ => count is_trace (rr_out rr) = 2 * opsRead (rr_vm rr)
  | VPanic _ => True
  end.
Proof.
  intros p. cbv zeta. pose proof (C19_trace_count_general p false) as H. cbv zeta in H.
  unfold ran_off in H.
  destruct (rr_res (execute p true false)); try exact I;
    (destruct H as [H | [[H _] _]]; [exact H | discriminate H]).
Qed.
Print Assumptions C19_trace_count.

(* without the trace option there is no trace line at all *)
Theorem C19_no_trace_lines : forall p s, count is_trace (rr_out (execute p false s)) = 0.
Proof.
  intros p s. rewrite execute_unfold. unfold hook.
  pose proof (run_fuel_Forall (fun e => is_trace e = false) p (fun _ => [])
                (fun _ => eq_refl) (fun _ => Forall_nil _) (run_bound p) (init_vm p) (Forall_nil _)) as H.
  destruct (run_fuel (run_bound p) p (fun _ => []) (init_vm p)) as [m r]. cbn [fst] in H.
  cbv zeta. cbn [rr_out]. rewrite count_app, count_frev, xs_no_trace, N.add_0_r.
  apply count_none. exact H.
Qed.

(* ---------------------------------------------------------------------------------------- *)
(* 6. statistics lines                                                                       *)
(* ---------------------------------------------------------------------------------------- *)
Lemma hook_no_stats p t : forall m, Forall (fun e => is_stats e = false) (hook p t m).
Proof.
  destruct t; intros m; [|constructor]. unfold hook, trace_lines.
  destruct (disasm_instr p (pc m) (rest m)) as [[l n]|]; repeat constructor.
Qed.

Theorem C19_stats_lines_execute : forall p t s,
  let rr := execute p t s in
  filter is_stats (rr_out rr) =
  (if s then map (fun l => (OStats, l)) (xstats_lines (rr_vm rr)) else []) /\
  count is_stats (rr_out rr) = (if s then 4 else 0).
Proof.
  intros p t s. cbv zeta. rewrite execute_unfold.
  pose proof (run_fuel_Forall (fun e => is_stats e = false) p (hook p t)
                (fun _ => eq_refl) (hook_no_stats p t) (run_bound p) (init_vm p) (Forall_nil _)) as H.
  destruct (run_fuel (run_bound p) p (hook p t) (init_vm p)) as [m r]. cbn [fst] in H.
  cbv zeta. cbn [rr_out rr_vm].
  assert (F : filter is_stats (frev (vout m)) = []) by (rewrite filter_frev, (filter_none _ _ H); reflexivity).
  split.
  - rewrite filter_app, F. cbn [app]. destruct s; [apply filter_map_tag_all|]; reflexivity.
  - unfold count. rewrite filter_app, F. cbn [app]. destruct s; reflexivity.
Qed.

Lemma dis_no_stats (d : bool) p :
  filter is_stats (if d then match disasm p with
                             | Some ls => map (fun l => (ODisasm, l)) ls
                             | None => [(ODisasm, bs "<disasm panic>")] end
                   else []) = [].
Proof. destruct d; [|reflexivity]. destruct (disasm p); [apply filter_map_tag|]; reflexivity. Qed.

Lemma pstats_all_stats (s : bool) ps :
  filter is_stats (if s then map (fun l => (OStats, l)) (pstats_lines ps) else []) =
  (if s then map (fun l => (OStats, l)) (pstats_lines ps) else []).
Proof. destruct s; [apply filter_map_tag_all|]; reflexivity. Qed.

(* the OStats entries of the output are exactly: the 6 parser lines, then (if the program ran)
   the 4 execution lines; none without the option *)
Theorem C19_stats_lines : forall name src d t s,
  let '(pr, io) := interpret name src d t s in
  match io with
  | IParseErr _ o =>
    filter is_stats o = (if s then map (fun l => (OStats, l)) (pstats_lines (pr_stats pr)) else []) /\
    count is_stats o = (if s then 6 else 0)
  | IRun o rr =>
    filter is_stats o =
      (if s then map (fun l => (OStats, l)) (pstats_lines (pr_stats pr) ++ xstats_lines (rr_vm rr)) else []) /\
    count is_stats o = (if s then 10 else 0)
  | IModelFail _ => True
  end.
Proof.
  intros name src d t s. unfold interpret.
  destruct (pr_oof (parse_whole name src)); [exact I|].
  destruct (pr_panic (parse_whole name src)); [exact I|].
  destruct (negb (pr_ok (parse_whole name src))).
  - cbv zeta. split; [apply pstats_all_stats|]. destruct s; reflexivity.
  - cbv zeta.
    pose proof (C19_stats_lines_execute (pr_prog (parse_whole name src)) t s) as H. cbv zeta in H.
    destruct H as [H1 H2]. unfold count in *.
    rewrite !filter_app, dis_no_stats, pstats_all_stats, H1. cbn [app].
    split.
    + destruct s; [rewrite map_app|]; reflexivity.
    + destruct s; [|reflexivity]. rewrite app_length, !map_length. reflexivity.
Qed.
Print Assumptions C19_stats_lines.

(* ---------------------------------------------------------------------------------------- *)
(* concrete checks                                                                           *)
(* ---------------------------------------------------------------------------------------- *)
(* the "+ 2" alternative of C19_trace_count_general is real: hand-made code without RET runs off the
   code; the hook fires once more (two lines) before the failed opcode fetch, which reads nothing *)
Example trace_count_ran_off :
  let rr := execute {| g_name := []; g_code := [opZERO]; g_consts := []; g_pos := [0]; g_lfs := [] |} true false in
  (count is_trace (rr_out rr), opsRead (rr_vm rr), rr_res rr) = (4, 1, VPanic PIndex).
Proof. vm_compute. reflexivity. Qed.

Example trace_count_compiled :
  let rr := execute (pr_prog (parse_whole (bs "input") (bs "var x = 1 print x + 2 * 3"))) true true in
  (count is_trace (rr_out rr), opsRead (rr_vm rr), rr_res rr, count is_stats (rr_out rr), count is_print (rr_out rr))
  = (18, 9, VOk, 4, 1).
Proof. vm_compute. reflexivity. Qed.

Print Assumptions trace_lines_no_print.
Print Assumptions trace_lines_same_but_out.
Print Assumptions run_trace_lines_irrelevant.
Print Assumptions C19_results_equal_proj.
Print Assumptions C19_no_trace_lines.
Print Assumptions C19_stats_lines_execute.
