(* Opcodes.v: bytecode 1.1 numbering (opcode.go, typecode.go, bind.go) and limits, as pinned in
   Spec/Pinned.v; opcode_table_ok / limits_ok below connect the two, Proofs/Tie*.v connect
   Pinned to the Go source. *)
From BCL Require Export Lib.Base.
From BCL Require Spec.Pinned.
Open Scope N_scope.

Definition opNOP := 0.  Definition opRET := 1.  Definition opPRINT := 2.
Definition opSETLOCAL := 3.  Definition opGETLOCAL := 4.
Definition opDEFBLOCK := 5.  Definition opENDBLOCK := 6.  Definition opSETFIELD := 7.  Definition opGETFIELD := 8.
Definition opCONST := 9.  Definition opNIL := 10.  Definition opZERO := 11.  Definition opONE := 12.
Definition opTRUE := 13.  Definition opFALSE := 14.  Definition opNOT := 15.
Definition opEQ := 16.  Definition opLT := 17.  Definition opGT := 18.
Definition opADD := 19.  Definition opSUB := 20.  Definition opMUL := 21.  Definition opDIV := 22.
Definition opNEG := 23.  Definition opUNPLUS := 24.
Definition opJUMP := 25.  Definition opLOOP := 26.  Definition opJFALSE := 27.
Definition opPOP := 28.  Definition opPOPN := 29.  Definition opBIND := 30.

Definition bindOne := 1.  Definition bindFirst := 2.  Definition bindLast := 3.  Definition bindAll := 15.
Definition bindStruct := 16.  Definition bindSlice := 32.

Definition stackSize := 1024.
Definition blockStackSize := 16.
Definition localsMaxSize := 1024.

Lemma opcode_table_ok : Pinned.opcodes =
  [("opNOP", opNOP); ("opRET", opRET); ("opPRINT", opPRINT); ("opSETLOCAL", opSETLOCAL);
   ("opGETLOCAL", opGETLOCAL); ("opDEFBLOCK", opDEFBLOCK); ("opENDBLOCK", opENDBLOCK);
   ("opSETFIELD", opSETFIELD); ("opGETFIELD", opGETFIELD); ("opCONST", opCONST); ("opNIL", opNIL);
   ("opZERO", opZERO); ("opONE", opONE); ("opTRUE", opTRUE); ("opFALSE", opFALSE); ("opNOT", opNOT);
   ("opEQ", opEQ); ("opLT", opLT); ("opGT", opGT); ("opADD", opADD); ("opSUB", opSUB); ("opMUL", opMUL);
   ("opDIV", opDIV); ("opNEG", opNEG); ("opUNPLUS", opUNPLUS); ("opJUMP", opJUMP); ("opLOOP", opLOOP);
   ("opJFALSE", opJFALSE); ("opPOP", opPOP); ("opPOPN", opPOPN); ("opBIND", opBIND)]%string.
Proof. reflexivity. Qed.

Lemma bind_tables_ok :
  Pinned.bind_selectors = [("bindOne", bindOne); ("bindFirst", bindFirst); ("bindLast", bindLast); ("bindAll", bindAll)]%string
  /\ Pinned.bind_targets = [("bindStruct", bindStruct); ("bindSlice", bindSlice)]%string.
Proof. split; reflexivity. Qed.

Definition opcode_names : list string :=
  ["NOP"; "RET"; "PRINT"; "SETLOCAL"; "GETLOCAL"; "DEFBLOCK"; "ENDBLOCK"; "SETFIELD"; "GETFIELD"; "CONST";
   "NIL"; "ZERO"; "ONE"; "TRUE"; "FALSE"; "NOT"; "EQ"; "LT"; "GT"; "ADD"; "SUB"; "MUL"; "DIV"; "NEG"; "UNPLUS";
   "JUMP"; "LOOP"; "JFALSE"; "POP"; "POPN"; "BIND"]%string.
(* opcode.String() of the stringer-generated table: "opcode(N)" beyond the table *)
Definition opcode_name (o : N) : bytes :=
  match nth_error opcode_names (N.to_nat o) with
  | Some s => bs s
  | None => bs "opcode(" ++ dec_of_N o ++ bs ")"
  end.
