(* CliRun.v: model of cmd/bcl/main.go -- run() and main(): which library calls are made for the parsed
   flags, in which order, what reaches stdout, which file is written, and the exit status.

     open(file)            "-" is standard input
     LoadProg / ParseFile  --bload: LoadProg(f, file, OptDisasm); else ParseFile(f, OptDisasm, OptStats)
     --bdump               os.Create(bdumpFile); prog.Dump; Close      (before anything is executed)
     Execute               OptTrace, OptStats
     -r                    fmt.Printf of result and binding             (text not modelled: a marker)
     exit status           2 usage error, 1 any error of run(), 0 otherwise; errors go to stderr

   The outside world is a parameter: the bytes of standard input, the readable files, and for the
   dump target whether it can be created and written. *)
From BCL Require Export Model.Cli Model.Api Model.DumpLoad.
Open Scope N_scope.

Inductive target_kind := TgOk | TgCreateFails | TgWriteFails.

Record world := mkWorld {
  w_stdin : bytes;
  w_files : list (bytes * bytes);             (* name -> content of the files that can be opened *)
  w_target : bytes -> target_kind             (* what happens to a file created for writing *)
}.

Inductive run_err :=
| EOpen                                       (* os.Open failed *)
| EParse (diags : list diag)                  (* "combined errors from parse"; the diagnostics went to stderr *)
| ELoad (label : bytes)
| EDumpCreate | EDumpWrite
| ERuntime (pos : N) (msg : bytes)            (* "runtime error: line L:C: msg" *)
| EInternal (msg : bytes)
| EModel (what : bytes).                      (* the model gave up: never on the paths the theorems cover *)

Record cli_result := mkCli {
  cr_status : N;
  cr_stdout : list (otag * bytes);            (* in order; with -r the result/binding lines follow *)
  cr_result : option run_result;              (* Some rr: "result: ..." / "binding: ..." were printed for rr *)
  cr_written : option (bytes * bytes);        (* dump file: name and content *)
  cr_warnings : list (N * bytes);             (* WARNING lines on stderr *)
  cr_lfs : list N;                            (* line table used to format positions on stderr *)
  cr_err : option run_err
}.

Fixpoint lookup_file (name : bytes) (l : list (bytes * bytes)) : option bytes :=
  match l with
  | [] => None
  | (k, v) :: r => if bytes_eqb k name then Some v else lookup_file name r
  end.

Definition open_file (w : world) (name : bytes) : option bytes :=
  if bytes_eqb name [45] then Some (w_stdin w) else lookup_file name (w_files w).

(* the name ParseFile gives the program: f.Name() *)
Definition input_name (name : bytes) : bytes :=
  if bytes_eqb name [45] then bs "/dev/stdin" else name.

Definition fail1 (out : list (otag * bytes)) (written : option (bytes * bytes)) (l : list N) (e : run_err) : cli_result :=
  mkCli 1 out None written [] l (Some e).

(* everything after the program has been obtained *)
Definition run_prog (a : pargs) (w : world) (g : prog) (out0 : list (otag * bytes)) : cli_result :=
  let dumped :=
    if a_bdump a then
      match w_target w (a_bdumpFile a) with
      | TgCreateFails => inl EDumpCreate
      | TgWriteFails => match dump (parts_of_prog g) with
                        | Ok _ => inl EDumpWrite
                        | Err _ => inl EDumpWrite
                        | Panic _ => inl (EModel (bs "dump panic site")) end
      | TgOk => match dump (parts_of_prog g) with
                | Ok b => inr (Some (a_bdumpFile a, b))
                | Err _ => inl EDumpWrite
                | Panic _ => inl (EModel (bs "dump panic site")) end
      end
    else inr None in
  match dumped with
  | inl e => fail1 out0 None (g_lfs g) e
  | inr written =>
    let rr := execute g (a_trace a) (a_stats a) in
    let out := out0 ++ rr_out rr in
    match rr_res rr with
    | VOk => mkCli 0 out (if a_result a then Some rr else None) written (rr_warn rr) (g_lfs g) None
    | VErr pos msg => mkCli 1 out None written (rr_warn rr) (g_lfs g) (Some (ERuntime pos msg))
    | VInternal msg => mkCli 1 out None written (rr_warn rr) (g_lfs g) (Some (EInternal msg))
    | VPanic _ => mkCli 1 out None written (rr_warn rr) (g_lfs g) (Some (EModel (bs "vm panic site")))
    end
  end.

Definition cli_run (a : pargs) (w : world) : cli_result :=
  match open_file w (a_file a) with
  | None => fail1 [] None [] EOpen
  | Some src =>
    if a_bload a then
      match load_bytes src with
      | Ok p =>
        let g := prog_of_parts p in
        let dis := if a_disasm a then
                     match disasm g with
                     | Some ls => map (fun l => (ODisasm, l)) ls
                     | None => [(ODisasm, bs "<disasm panic>")] end
                   else [] in
        run_prog a w g dis
      | Err l => fail1 [] None [] (ELoad l)
      | Panic _ => fail1 [] None [] (EModel (bs "load panic site"))
      end
    else
      let pr := parse_whole (input_name (a_file a)) src in
      if pr_oof pr then fail1 [] None [] (EModel (bs "parser out of fuel"))
      else if pr_panic pr then fail1 [] None [] (EModel (bs "parser panic site"))
      else
        let ps := if a_stats a then map (fun l => (OStats, l)) (pstats_lines (pr_stats pr)) else [] in
        if negb (pr_ok pr) then fail1 ps None (g_lfs (pr_prog pr)) (EParse (pr_diags pr))
        else
          let dis := if a_disasm a then
                       match disasm (pr_prog pr) with
                       | Some ls => map (fun l => (ODisasm, l)) ls
                       | None => [(ODisasm, bs "<disasm panic>")] end
                     else [] in
          run_prog a w (pr_prog pr) (dis ++ ps)
  end.

Inductive main_result :=
| MUsage (e : usage_err)                      (* exit status 2, message on stderr *)
| MHelp                                       (* usage text on stdout, exit status 0 *)
| MRun (r : cli_result).

Definition cli_main (argv : list bytes) (w : world) : main_result :=
  match parse_args argv with
  | inl e => MUsage e
  | inr a => if a_help a then MHelp else MRun (cli_run a w)
  end.

Definition main_status (m : main_result) : N :=
  match m with MUsage _ => 2 | MHelp => 0 | MRun r => cr_status r end.
