(* Value.v: BCL run-time values (value.go, api.go Block) and outcomes. *)
From BCL Require Export Lib.Base.

(* float64 is carried as its IEEE-754 bit pattern (0 <= bits < 2^64); arithmetic
   decodes to SpecFloat and back (Lib/Float.v). *)
Inductive value : Type :=
| VNil
| VBool (b : bool)
| VInt (z : Z)            (* Go int, 64 bit two's complement: -2^63 <= z < 2^63 *)
| VFloat (bits : N)
| VStr (s : bytes)
| VBlock (typ name : bytes) (fields : list (bytes * value)).

(* Go panic sites made explicit *)
Inductive panic_kind :=
| PIndex            (* index out of range / slice bounds *)
| PNoSpace          (* valueToBytes: panic("no space") *)
| PInvalidValue     (* valueToBytes: errInvalidValue *)
| PInvalidType      (* valueFromBuf: errInvalidType *)
| PAssert           (* failed type assertion *)
| PLiteral          (* panic(err) after strconv *)
| PRepeat           (* strings.Repeat negative count *)
| PUncomparable     (* == on uncomparable dynamic types *)
| PNilDeref
| PReflect
| POutOfFuel        (* model artefact: must be shown unreachable *)
| PExcluded.        (* not a panic: the input is outside the property (string repetition beyond 2^20 bytes) *)

Inductive outcome (A : Type) : Type :=
| Ok (a : A)
| Err (label : bytes)
| Panic (k : panic_kind).
Arguments Ok {A} a.
Arguments Err {A} label.
Arguments Panic {A} k.

Definition obind {A B} (o : outcome A) (f : A -> outcome B) : outcome B :=
  match o with Ok a => f a | Err e => Err e | Panic k => Panic k end.
Notation "'do' x <- o ;; k" := (obind o (fun x => k))
  (at level 200, x name, o at level 100, k at level 200, right associativity).
Notation "'do' ' p <- o ;; k" := (obind o (fun x => let 'p := x in k))
  (at level 200, p pattern, o at level 100, k at level 200, right associativity).

Definition panic_name (k : panic_kind) : bytes :=
  bs match k with
  | PIndex => "index" | PNoSpace => "nospace" | PInvalidValue => "invalidvalue"
  | PInvalidType => "invalidtype" | PAssert => "assert" | PLiteral => "literal"
  | PRepeat => "repeat" | PUncomparable => "uncomparable" | PNilDeref => "nilderef"
  | PReflect => "reflect" | POutOfFuel => "OUTOFFUEL" | PExcluded => "EXCLUDED" end.
