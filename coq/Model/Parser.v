(* Parser.v: model of parse.go -- the one-pass Pratt parser that emits bytecode while parsing.
   Follows the Go code function by function (decl, varDecl, stmt, blockStmt, bindStmt,
   parsePrecedence and the prefix/infix handlers, advance/consume/match/sync, scopes and locals,
   emit*/patchJump, identConst/makeConst, errorAt).  The token channel is a list; receiving from
   the closed channel leaves `current` unchanged, as in Go.  Recursion is on fuel; `oof` marks
   exhaustion and must be shown unreachable for the fuel that [parse_tokens] supplies.

   After the repair 16a24ae: malformed literals are compile errors (p.error), not panics. *)
From RecordUpdate Require Import RecordSet.
From BCL Require Export Model.Lexer Model.Encoding Model.Opcodes Lib.Strconv.
Import RecordSetNotations.
Open Scope N_scope.

(* precedence levels (parse.go:261-274) *)
Definition precNone := 0.  Definition precAssign := 1.  Definition precOr := 2.  Definition precAnd := 3.
Definition precNot := 4.  Definition precEq := 5.  Definition precCmp := 6.  Definition precTerm := 7.
Definition precFactor := 8.  Definition precUnary := 9.  Definition precCall := 10.  Definition precPrimary := 11.

Inductive prefix_fn := PFnil | PFparens | PFunary | PFboolNot | PFidentRef | PFstringLit | PFintLit
                     | PFfloatLit | PFboolLit | PFnilLit.
Inductive infix_fn := IFnil | IFbinary | IFboolAnd | IFboolOr.

(* the rules table (parse.go:276-322) *)
Definition rule (t : tok) : prefix_fn * infix_fn * N :=
  match t with
  | tLPAREN => (PFparens, IFnil, precNone)
  | tMINUS | tPLUS => (PFunary, IFbinary, precTerm)
  | tSLASH | tSTAR => (PFnil, IFbinary, precFactor)
  | tOR => (PFnil, IFboolOr, precOr)
  | tAND => (PFnil, IFboolAnd, precAnd)
  | tNOT => (PFboolNot, IFnil, precNone)
  | tBE | tEE => (PFnil, IFbinary, precEq)
  | tGT | tGE | tLT | tLE => (PFnil, IFbinary, precCmp)
  | tIDENT => (PFidentRef, IFnil, precNone)
  | tSTR => (PFstringLit, IFnil, precNone)
  | tINT => (PFintLit, IFnil, precNone)
  | tFLOAT => (PFfloatLit, IFnil, precNone)
  | tFALSE | tTRUE => (PFboolLit, IFnil, precNone)
  | tNIL => (PFnilLit, IFnil, precNone)
  | _ => (PFnil, IFnil, precNone)
  end.
Definition rule_prefix t := fst (fst (rule t)).
Definition rule_infix t := snd (fst (rule t)).
Definition rule_prec t := snd (rule t).

(* diagnostics: position, what is quoted, message *)
Inductive diag_at := AtNone | AtEnd | AtTok (v : bytes).
Record diag := { d_pos : N; d_at : diag_at; d_msg : bytes }.

Record pst := mkPst {
  toks : list token;            (* not yet received from the lexer *)
  prev : token; cur_ : token;
  hadError : bool; hadLexFail : bool; panicMode : bool;
  locals : list (bytes * Z);    (* newest first; depth -1 = declared, not yet initialised *)
  nlocals : N;
  depth : Z;
  identRefs : list (bytes * N);
  code : bytes;                 (* reversed *)
  positions : list N;           (* reversed *)
  ncode : N;
  consts : list value;          (* reversed *)
  nconsts : N;
  log : list diag;              (* reversed *)
  st_tokens : N; st_localMax : N; st_depthMax : Z; st_ops : N;
  oof : bool;                   (* model: fuel exhausted *)
  ppanic : bool                 (* model: a Go panic site was reached (nil infix rule) *)
}.
#[export] Instance eta_pst : Settable _ := settable! mkPst
  <toks; prev; cur_; hadError; hadLexFail; panicMode; locals; nlocals; depth; identRefs; code; positions; ncode;
   consts; nconsts; log; st_tokens; st_localMax; st_depthMax; st_ops; oof; ppanic>.

Definition tok0 : token := {| ttyp := tFAIL; tval := []; terr := None; tpos := 0 |}.

Definition lexerr_msg (e : option lexerr) : bytes :=
  match e with
  | Some (LE_expected_char _) => bs "expected char"
  | Some (LE_unknown_char _) => bs "unknown char"
  | Some (LE_invalid_syntax _) => bs "invalid syntax"
  | Some LE_dot_digits => bs "need more digits after a dot"
  | Some LE_exp_digits => bs "need more digits for an exponent"
  | Some LE_unterminated => bs "unterminated quoted string"
  | None => []
  end.

(* errorAt *)
Definition error_at (t : token) (msg : bytes) (s : pst) : pst :=
  let at_ := match ttyp t with
             | tEOF => AtEnd
             | tERR | tFAIL => AtNone
             | _ => AtTok (tval t)
             end in
  s <| panicMode := true |> <| log := {| d_pos := tpos t; d_at := at_; d_msg := msg |} :: log s |>
    <| hadError := true |>.
Definition error_at_current (msg : bytes) (s : pst) : pst := error_at (cur_ s) msg s.
Definition perror (msg : bytes) (s : pst) : pst := error_at (prev s) msg s.
Arguments bs s%string.
Definition perr (msg : string) (s : pst) : pst := perror (bs msg) s.
Definition perrc (msg : string) (s : pst) : pst := error_at_current (bs msg) s.
Arguments perr msg%string s. Arguments perrc msg%string s.

(* advance *)
Fixpoint advance_loop (ts : list token) (s : pst) : pst :=
  match ts with
  | [] => s <| toks := [] |>
  | t :: r =>
    let s1 := s <| cur_ := t |> <| st_tokens := st_tokens s + 1 |> in
    let s2 := if tok_eqb (ttyp t) tFAIL then s1 <| hadLexFail := true |> else s1 in
    if tok_eqb (ttyp t) tERR then advance_loop r (error_at_current (lexerr_msg (terr t)) s2)
    else s2 <| toks := r |>
  end.
Definition advance (s : pst) : pst := advance_loop (toks s) (s <| prev := cur_ s |>).

Definition check (t : tok) (s : pst) : bool := tok_eqb (ttyp (cur_ s)) t.
Definition check_end (s : pst) : bool := tok_num (ttyp (cur_ s)) <=? 1.
Definition consume (t : tok) (msg : string) (s : pst) : pst :=
  if check t s then advance s else perrc msg s.
Arguments consume t msg%string s.
Definition pmatch (t : tok) (s : pst) : bool * pst := if check t s then (true, advance s) else (false, s).
Definition match_end (s : pst) : bool * pst := if check_end s then (true, advance s) else (false, s).

(* emitting *)
Definition write (b : N) (s : pst) : pst :=
  s <| code := b :: code s |> <| positions := tpos (prev s) :: positions s |> <| ncode := ncode s + 1 |>.
Definition emit_bytes (bb : bytes) (s : pst) : pst := fold_left (fun st b => write b st) bb s.
Definition emit_uvarint (x : N) (s : pst) : pst := emit_bytes (uv_enc x) s.
Definition emit_op (o : N) (s : pst) : pst := (write o s) <| st_ops := st_ops s + 1 |>.

Definition add_const (v : value) (s : pst) : N * pst :=
  (nconsts s, s <| consts := v :: consts s |> <| nconsts := nconsts s + 1 |>).

Fixpoint assoc_bytes {A} (k : bytes) (l : list (bytes * A)) : option A :=
  match l with
  | [] => None
  | (k', v) :: r => if bytes_eqb k k' then Some v else assoc_bytes k r
  end.

(* makeConst: the empty string is cached under identRefs[""] *)
Definition make_const (v : value) (s : pst) : N * pst :=
  match v with
  | VStr [] =>
    match assoc_bytes [] (identRefs s) with
    | Some idx => (idx, s)
    | None => let '(idx, s1) := add_const v s in (idx, s1 <| identRefs := ([], idx) :: identRefs s1 |>)
    end
  | _ => add_const v s
  end.
Definition ident_const (name : bytes) (s : pst) : N * pst :=
  match assoc_bytes name (identRefs s) with
  | Some idx => (idx, s)
  | None => let '(idx, s1) := make_const (VStr name) s in
            (idx, s1 <| identRefs := (name, idx) :: identRefs s1 |>)
  end.
Definition emit_const (v : value) (s : pst) : pst :=
  let '(idx, s1) := make_const v s in emit_uvarint idx (emit_op opCONST s1).

Definition emit_jump (o : N) (s : pst) : N * pst :=
  let s1 := emit_bytes [255; 255] (emit_op o s) in (ncode s1 - 2, s1).
Definition patch_jump (offset : N) (s : pst) : pst :=
  let jump := ncode s - offset - 2 in
  if 65535 <? jump then perr "jump too long" s
  else
    (* code is reversed: the byte at offset+1 sits at index jump, the byte at offset at jump+1 *)
    let k := N.to_nat jump in
    s <| code := set_nth (set_nth (code s) k (jump mod 256)) (S k) ((jump / 256) mod 256) |>.

Definition pop_n (count : N) (s : pst) : pst :=
  if count =? 0 then s
  else if count =? 1 then emit_op opPOP s
  else emit_uvarint count (emit_op opPOPN s).

(* scopes and locals *)
Definition begin_scope (s : pst) : pst :=
  let d := (depth s + 1)%Z in s <| depth := d |> <| st_depthMax := Z.max (st_depthMax s) d |>.

Fixpoint drop_locals (ls : list (bytes * Z)) (d : Z) (n : N) : list (bytes * Z) * N :=
  match ls with
  | (nm, ld) :: r => if (d <? ld)%Z then drop_locals r d (n + 1) else (ls, n)
  | [] => ([], n)
  end.
Definition end_scope (s : pst) : pst :=
  let d := (depth s - 1)%Z in
  let '(ls, popped) := drop_locals (locals s) d 0 in
  pop_n popped (s <| depth := d |> <| locals := ls |> <| nlocals := nlocals s - popped |>).

(* declVar: scan from the newest local down while in the current scope (or uninitialised);
   every match reports the error; then addLocal *)
Fixpoint decl_scan (ls : list (bytes * Z)) (name : bytes) (d : Z) (s : pst) : pst :=
  match ls with
  | [] => s
  | (nm, ld) :: r =>
    if negb (ld =? -1)%Z && (ld <? d)%Z then s
    else decl_scan r name d
           (if bytes_eqb name nm then perr "variable with this name already present in this scope" s else s)
  end.
Definition add_local (name : bytes) (s : pst) : pst :=
  if nlocals s =? localsMaxSize then perr "too many local variables" s
  else s <| locals := (name, (-1)%Z) :: locals s |> <| nlocals := nlocals s + 1 |>
         <| st_localMax := N.max (st_localMax s) (nlocals s + 1) |>.
Definition decl_var (s : pst) : pst :=
  let name := tval (prev s) in
  add_local name (decl_scan (locals s) name (depth s) s).
(* markInitialized: locals[localCount-1].depth = scope.depth.  With no local at all the Go code
   indexes locals[-1] and panics. *)
Definition def_var (s : pst) : pst :=
  match locals s with
  | (nm, _) :: r => s <| locals := (nm, depth s) :: r |>
  | [] => s <| ppanic := true |>
  end.

(* resolveLocal: newest first, skipping uninitialised ones; result = slot index *)
Fixpoint resolve_local (ls : list (bytes * Z)) (n : N) (name : bytes) : option N :=
  match ls with
  | [] => None
  | (nm, ld) :: r =>
    if bytes_eqb name nm && negb (ld =? -1)%Z then Some (n - 1) else resolve_local r (n - 1) name
  end.

Definition mark_oof (s : pst) : pst := s <| oof := true |>.

Definition lit_err_msg (e : lit_err) : bytes :=
  match e with LSyntax => bs "invalid syntax" | LRange => bs "value out of range" end.

Definition binary_ops (t : tok) : list N :=
  match t with
  | tEE => [opEQ] | tBE => [opEQ; opNOT] | tLT => [opLT] | tLE => [opGT; opNOT]
  | tGT => [opGT] | tGE => [opLT; opNOT]
  | tPLUS => [opADD] | tMINUS => [opSUB] | tSTAR => [opMUL] | tSLASH => [opDIV]
  | _ => []
  end.
Definition emit_ops (os : list N) (s : pst) : pst := fold_left (fun st o => emit_op o st) os s.

(* sync: skip to a statement-delimiting token *)
Fixpoint sync_loop (fuel : nat) (s : pst) : pst :=
  match fuel with
  | O => mark_oof s
  | S f =>
    if check_end s then s
    else match ttyp (cur_ s) with
         | tVAR | tDEF | tPRINT | tEVAL => s
         | _ => sync_loop f (advance s)
         end
  end.
Definition sync (fuel : nat) (s : pst) : pst := sync_loop fuel (s <| panicMode := false |>).

(* the literal handlers *)
Definition int_lit (s : pst) : pst :=
  match parse_int (tval (prev s)) with
  | inl e => perror (bs "invalid int literal: " ++ lit_err_msg e) s
  | inr v => if (v =? 0)%Z then emit_op opZERO s
             else if (v =? 1)%Z then emit_op opONE s
             else emit_const (VInt v) s
  end.
Definition float_lit (s : pst) : pst :=
  match parse_float (tval (prev s)) with
  | inl e => perror (bs "invalid float literal: " ++ lit_err_msg e) s
  | inr b => emit_const (VFloat b) s
  end.
Definition string_lit (s : pst) : pst :=
  match unquote (tval (prev s)) with
  | None => perror (bs "invalid string literal: invalid syntax") s
  | Some v => emit_const (VStr v) s
  end.
Definition bool_lit (s : pst) : pst :=
  match ttyp (prev s) with tTRUE => emit_op opTRUE s | tFALSE => emit_op opFALSE s | _ => s end.
Definition nil_lit (s : pst) : pst :=
  match ttyp (prev s) with tNIL => emit_op opNIL s | _ => s end.

(* parsePrecedence and its handlers, mutually recursive on fuel *)
Fixpoint parse_prec (fuel : nat) (prec : N) (s0 : pst) {struct fuel} : pst :=
  match fuel with
  | O => mark_oof s0
  | S f =>
    let s := advance s0 in
    let canAssign := prec <=? precAssign in
    match rule_prefix (ttyp (prev s)) with
    | PFnil => perr "expected expression" s
    | pf =>
      let s1 :=
        match pf with
        | PFparens => consume tRPAREN "expected ')' after expression" (parse_prec f precAssign s)
        | PFunary =>
            let opType := ttyp (prev s) in
            let s' := parse_prec f precUnary s in
            match opType with tMINUS => emit_op opNEG s' | tPLUS => emit_op opUNPLUS s' | _ => s' end
        | PFboolNot =>
            let opType := ttyp (prev s) in
            let s' := parse_prec f precNot s in
            match opType with tNOT => emit_op opNOT s' | _ => s' end
        | PFidentRef => resolve_ident f (tval (prev s)) canAssign s
        | PFstringLit => string_lit s
        | PFintLit => int_lit s
        | PFfloatLit => float_lit s
        | PFboolLit => bool_lit s
        | PFnilLit => nil_lit s
        | PFnil => s
        end in
      let s2 := infix_loop f prec canAssign s1 in
      if canAssign then
        let '(m, s3) := pmatch tEQ s2 in if m then perr "invalid assignment target" s3 else s3
      else s2
    end
  end
with infix_loop (fuel : nat) (prec : N) (canAssign : bool) (s : pst) {struct fuel} : pst :=
  match fuel with
  | O => mark_oof s
  | S f =>
    if prec <=? rule_prec (ttyp (cur_ s)) then
      let s1 := advance s in
      let opType := ttyp (prev s1) in
      let s2 :=
        match rule_infix opType with
        | IFbinary => emit_ops (binary_ops opType) (parse_prec f (rule_prec opType + 1) s1)
        | IFboolAnd =>
            let '(endJump, sa) := emit_jump opJFALSE s1 in
            patch_jump endJump (parse_prec f precAnd (emit_op opPOP sa))
        | IFboolOr =>
            let '(midJump, sa) := emit_jump opJFALSE s1 in
            let '(endJump, sb) := emit_jump opJUMP sa in
            patch_jump endJump (parse_prec f precOr (emit_op opPOP (patch_jump midJump sb)))
        | IFnil => s1 <| ppanic := true |>
        end in
      if ppanic s2 then s2 else infix_loop f prec canAssign s2
    else s
  end
with resolve_ident (fuel : nat) (name : bytes) (canAssign : bool) (s : pst) {struct fuel} : pst :=
  match fuel with
  | O => mark_oof s
  | S f =>
    let finish (setOp getOp idx : N) (st : pst) : pst :=
      let '(m, st1) := if canAssign then pmatch tEQ st else (false, st) in
      if m then emit_uvarint idx (emit_op setOp (parse_prec f precAssign st1))
      else emit_uvarint idx (emit_op getOp st1) in
    match resolve_local (locals s) (nlocals s) name with
    | Some idx => finish opSETLOCAL opGETLOCAL idx s
    | None =>
      if (depth s =? 0)%Z then perr "undefined variable" s
      else let '(idx, s1) := ident_const name s in finish opSETFIELD opGETFIELD idx s1
    end
  end.

Definition expr (fuel : nat) (s : pst) : pst := parse_prec fuel precAssign s.

Definition var_decl (fuel : nat) (s : pst) : pst :=
  let s1 := consume tIDENT "expected variable name" s in
  if panicMode s1 then s1 else
  let s2 := decl_var s1 in
  let '(m, s3) := pmatch tEQ s2 in
  def_var (if m then expr fuel s3 else emit_op opNIL s3).

Definition bind_stmt (s : pst) : pst :=
  let s1 := consume tIDENT "expected block type" s in
  if panicMode s1 then s1 else
  let blockType := tval (prev s1) in
  let errsel := bs "expected 1,first,last,all as a block selector" in
  let '(colon, s2) := pmatch tCOLON s1 in
  let '(sel, s3) :=
    if colon then
      let '(mi, a) := pmatch tINT s2 in
      if mi then ((bindOne, if bytes_eqb (tval (prev a)) [49] then a else perror errsel a))
      else
        let '(mid, b) := pmatch tIDENT s2 in
        if mid then
          let v := tval (prev b) in
          if is_lit v "first" then (bindFirst, b)
          else if is_lit v "last" then (bindLast, b)
          else if is_lit v "all" then (bindAll, b)
          else (bindOne, perror errsel b)
        else (bindOne, error_at_current errsel b)
    else (bindOne, s2) in
  let s4 := consume tARROW "expected '->'" s3 in
  if panicMode s4 then s4 else
  let errtgt := bs "expected bind target ('struct' or 'slice')" in
  let s5 := if check tIDENT s4 then advance s4 else error_at_current errtgt s4 in
  if panicMode s5 then s5 else
  let v := tval (prev s5) in
  let '(target, s6) := if is_lit v "struct" then (bindStruct, s5)
                       else if is_lit v "slice" then (bindSlice, s5)
                       else (0, perror errtgt s5) in
  let s7 := if (sel =? bindAll) && negb (target =? bindSlice)
            then perr "bind of multiple blocks requires slice target" s6 else s6 in
  if panicMode s7 then s7 else
  let '(idx, s8) := ident_const blockType (emit_op opBIND s7) in
  write (N.lor (N.land target 240) (N.land sel 15)) (emit_uvarint idx s8).

(* decl / stmt / blockStmt *)
Fixpoint decl (fuel : nat) (s : pst) {struct fuel} : pst :=
  match fuel with
  | O => mark_oof s
  | S f =>
    let '(mv, s1) := pmatch tVAR s in
    let s2 :=
      if mv then var_decl f s1
      else
        let '(mp, a) := pmatch tPRINT s1 in
        if mp then emit_op opPRINT (expr f a) else
        let '(me, b) := pmatch tEVAL a in
        if me then emit_op opPOP (expr f b) else
        let '(md, c) := pmatch tDEF b in
        if md then block_stmt f c else
        let '(mb, d) := pmatch tBIND c in
        if mb then bind_stmt d else
        if (0 <? depth d)%Z then emit_op opPOP (expr f d)
        else perrc "expected statement" d in
    if panicMode s2 && (depth s2 =? 0)%Z then sync f s2 else s2
  end
with block_stmt (fuel : nat) (s : pst) {struct fuel} : pst :=
  match fuel with
  | O => mark_oof s
  | S f =>
    let s1 := consume tIDENT "expected block type" s in
    if panicMode s1 then s1 else
    let blockType := tval (prev s1) in
    let '(ms, s2) := pmatch tSTR s1 in
    let '(blockName, s3) :=
      if ms then match unquote (tval (prev s2)) with
                 | Some v => (v, s2)
                 | None => ([], perror (bs "invalid string literal: invalid syntax") s2)
                 end
      else ([], s2) in
    let s4 := consume tLCURLY "expected '{'" s3 in
    let '(ti, s5) := ident_const blockType s4 in
    let '(ni, s6) := make_const (VStr blockName) s5 in
    let s7 := emit_uvarint ni (emit_uvarint ti (emit_op opDEFBLOCK s6)) in
    let s8 := block_loop f (begin_scope s7) in
    let s9 := if hadLexFail s8 then s8 else consume tRCURLY "expected '}'" s8 in
    (* deferred: endScope, then endBlock *)
    emit_op opENDBLOCK (end_scope s9)
  end
with block_loop (fuel : nat) (s : pst) {struct fuel} : pst :=
  match fuel with
  | O => mark_oof s
  | S f =>
    if check tRCURLY s || check_end s then s
    else
      let s1 := decl f s in
      let s2 := if panicMode s1 then advance s1 else s1 in
      let '(_, s3) := pmatch tSEMICOLON s2 in
      if oof s3 || ppanic s3 then s3 else block_loop f s3
  end.

Fixpoint top_loop (fuel : nat) (s : pst) : pst :=
  match fuel with
  | O => mark_oof s
  | S f =>
    let '(e, s1) := match_end s in
    if e then s1
    else let s2 := decl f s1 in
         let '(_, s3) := pmatch tSEMICOLON s2 in
         if oof s3 || ppanic s3 then s3 else top_loop f s3
  end.

Definition init_pst (ts : list token) : pst :=
  {| toks := ts; prev := tok0; cur_ := tok0; hadError := false; hadLexFail := false; panicMode := false;
     locals := []; nlocals := 0; depth := 0%Z; identRefs := []; code := []; positions := []; ncode := 0;
     consts := []; nconsts := 0; log := []; st_tokens := 0; st_localMax := 0; st_depthMax := 0%Z; st_ops := 0;
     oof := false; ppanic := false |}.

Definition parse_fuel (ts : list token) : nat := (8 * length ts + 64)%nat.

(* parse(): the state after the toplevel loop, and after end() when there was no error *)
Definition parse_tokens (ts : list token) : pst :=
  let s := top_loop (parse_fuel ts) (advance (init_pst ts)) in
  if hadError s || oof s || ppanic s then s
  else emit_op opRET (pop_n (nlocals s) s).
